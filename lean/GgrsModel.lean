import GgrsModel.Generated.Consts
import GgrsModel.Model.Codec
