import GgrsModel.Driver.Codec
import GgrsModel.Driver.Accept

open Ggrs.Driver

partial def loopLines (h : IO.FS.Stream) (out : IO.FS.Stream) (f : String → String) : IO Unit := do
  let line ← h.getLine
  if line.isEmpty then return ()
  out.putStrLn (f line)
  loopLines h out f

partial def foldLines {σ} (h : IO.FS.Stream) (st : σ) (n : Nat) (f : σ → Nat → String → σ) : IO σ := do
  let line ← h.getLine
  if line.isEmpty then return st
  foldLines h (f st n line) (n + 1) f

/-- `accept`: reads a trace on stdin, prints one MISMATCH line per diverged session and a summary. -/
def runAccept : IO UInt32 := do
  let stdin ← IO.getStdin
  let st ← foldLines stdin ({} : AcceptState) 1 acceptLine
  let st := finishBlock st
  for m in st.mismatches do
    IO.println m.text
  IO.println s!"SUMMARY scenarios={st.scenarios} sessions={st.sessions} blocks={st.blocks} accepted={st.accepted} diverged={st.diverged.length}"
  return (if st.mismatches.isEmpty then 0 else 1)

def main (args : List String) : IO UInt32 := do
  let stdin ← IO.getStdin
  let stdout ← IO.getStdout
  match args with
  | ["codec"] => loopLines stdin stdout codecLine; return 0
  | ["accept"] => runAccept
  | _ =>
    IO.eprintln "usage: ggrs_model codec | accept"
    return 2
