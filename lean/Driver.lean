import GgrsModel.Driver.Codec

open Ggrs.Driver

partial def loopLines (h : IO.FS.Stream) (out : IO.FS.Stream) (f : String → String) : IO Unit := do
  let line ← h.getLine
  if line.isEmpty then return ()
  out.putStrLn (f line)
  loopLines h out f

def main (args : List String) : IO UInt32 := do
  let stdin ← IO.getStdin
  let stdout ← IO.getStdout
  match args with
  | ["codec"] => loopLines stdin stdout codecLine; return 0
  | _ =>
    IO.eprintln "usage: ggrs_model codec"
    return 2
