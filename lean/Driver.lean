import GgrsModel.Driver.Codec
import GgrsModel.Driver.Accept
import GgrsModel.Driver.Monitors2
import GgrsModel.Driver.BuilderSuite

open Ggrs.Driver

partial def loopLines (h : IO.FS.Stream) (out : IO.FS.Stream) (f : String → String) : IO Unit := do
  let line ← h.getLine
  if line.isEmpty then return ()
  out.putStrLn (f line)
  loopLines h out f

partial def foldLines {σ} (h : IO.FS.Stream) (st : σ) (n : Nat) (f : σ → Nat → String → σ) : IO σ := do
  let line ← h.getLine
  if line.isEmpty then return st
  foldLines h (f st n line) (n + 1) f

/-- `accept`: reads a trace on stdin, prints one MISMATCH line per diverged session and a summary. -/
def runAccept : IO UInt32 := do
  let stdin ← IO.getStdin
  let st ← foldLines stdin ({} : AcceptState) 1 acceptLine
  let st := finishBlock st
  for m in st.mismatches do
    IO.println m.text
  for n in st.notes do
    IO.println n
  IO.println s!"SUMMARY scenarios={st.scenarios} sessions={st.sessions} blocks={st.blocks} accepted={st.accepted} diverged={st.diverged.length}"
  return (if st.mismatches.isEmpty then 0 else 1)

def scenStats (cx : Ctx) : String :=
  let sims := cx.sims.flatMap (·.2)
  let resims := (sims.filter (·.nth > 1)).length
  let loads := cx.sc.calls.foldl (fun n c => n + (c.gtoks.filter fun t => match t with | .l .. => true | _ => false).length) 0
  let depth := cx.sc.calls.foldl (fun d c =>
    let advs := (c.gtoks.filter fun t => match t with | .a _ => true | _ => false).length
    let hasLoad := c.gtoks.any fun t => match t with | .l .. => true | _ => false
    if hasLoad then max d (advs - 1) else d) 0
  let advCalls := (cx.sc.calls.toList.filter (·.isAdvOk)).length
  let stalls := (cx.sc.calls.toList.filter fun c => c.isAdvOk && !(c.gtoks.any fun t => match t with | .a _ => true | _ => false)).length
  let predicted := (sims.filter fun s => s.inputs.any (·.2 == 'P')).length
  let maxFrame := sims.foldl (fun m s => max m s.frame) 0
  s!"STATS scenario={cx.sc.name} sessions={cx.sc.sessions.length} calls={cx.sc.calls.size} advcalls={advCalls} sims={sims.length} resims={resims} loads={loads} maxdepth={depth} stalls={stalls} predicted={predicted} maxframe={maxFrame} disconnect={cx.anyDisconnect} panic={cx.anyPanic}"

/-- `monitor P1,P2,...`: reads a trace on stdin, prints FINDING lines, per-scenario STATS. -/
def runMonitors (props : List String) : IO UInt32 := do
  let stdin ← IO.getStdin
  let ps ← foldLines stdin ({} : ParseState) 1 parseLine
  let ps := ps.flushScen
  let mut n := 0
  for sc in ps.done.reverse do
    let cx := mkCtx sc
    IO.println (scenStats cx)
    for p in props do
      for f in runMonitor2 p cx do
        IO.println f.text
        n := n + 1
  IO.println s!"SUMMARY scenarios={ps.done.length} findings={n}"
  return (if n == 0 then 0 else 1)

def main (args : List String) : IO UInt32 := do
  let stdin ← IO.getStdin
  let stdout ← IO.getStdout
  match args with
  | ["codec"] => loopLines stdin stdout codecLine; return 0
  | ["accept"] => runAccept
  | ["builder"] => loopLines stdin stdout builderLine; return 0
  | ["monitor", props] => runMonitors (props.splitOn ",")
  | _ =>
    IO.eprintln "usage: ggrs_model codec | accept"
    return 2
