/-
The inventory of the modelled state: for every struct and enum of the Rust source the model stands
for, the field / variant names the model was written against, checked against
`Generated/Shapes.lean` (regenerated from /repo's current source on every check run). A field or
variant added, removed or renamed in the source makes this file fail to compile — the model would
no longer cover the state it claims to cover — and every check reports the broken tie.

Correspondence of names (Rust → model, `snake_case` → `camelCase` unless noted):
* `InputQueue`: all eleven fields one to one (`Model/InputQueue.lean`).
* `SyncLayer`: `saved_states` → `cells` (frame tag and checksum per cell; the user's state data is
  the game's business, `Proofs/Replay.lean`), `input_queues` → `queues`.
* `UdpProtocol` → `Endpoint`: one to one (`sync_remaining_roundtrips` → `syncRemaining`,
  `time_sync_layer` → `timeSync`, `desync_detection` → `desyncInterval`); the model adds the tape of
  random numbers the environment supplies (`nonceTape`, `tapeUnderrun`).
* `P2PSession` → `P2P`: `sync_layer` → `sync`, `sparse_saving` → `sparse`, `state` → `running`,
  `player_reg` → `handles`/`remotes`/`spectators` (`PlayerRegistry`), `desync_detection` → `desync`;
  `socket` is not state of the model: received messages are an argument of `pollRemoteClients`,
  sent ones are collected in `outbox`; the predictor is a type parameter in Rust, `pred` here.
* `SpectatorSession` → `Spectator`: `state` → `running`, `socket` as above.
* `SyncTestSession` → `SyncTest`; `SessionBuilder` → `Builder` (`player_reg` → `handles`).
* `TimeSync`: `local`/`remote` → `localAdv`/`remoteAdv`.
-/
import GgrsModel.Generated.Shapes

namespace Ggrs.Rust

theorem inv_InputQueue : InputQueue.fields = ["head", "tail", "length", "first_frame", "last_added_frame",
  "last_user_frame", "first_incorrect_frame", "last_requested_frame", "frame_delay", "inputs", "prediction"] := by decide
theorem inv_PlayerInput : PlayerInput.fields = ["frame", "input"] := by decide
theorem inv_GameState : GameState.fields = ["frame", "data", "checksum"] := by decide
theorem inv_SavedStates : SavedStates.fields = ["states"] := by decide
theorem inv_SyncLayer : SyncLayer.fields = ["num_players", "max_prediction", "saved_states", "last_confirmed_frame",
  "last_saved_frame", "current_frame", "input_queues"] := by decide
theorem inv_TimeSync : TimeSync.fields = ["local", "remote"] := by decide
theorem inv_ConnectionStatus : ConnectionStatus.fields = ["disconnected", "last_frame"] := by decide
theorem inv_Input : Input.fields = ["peer_connect_status", "disconnect_requested", "start_frame", "ack_frame", "bytes"] := by decide
theorem inv_QualityReport : QualityReport.fields = ["frame_advantage", "ping"] := by decide
theorem inv_ChecksumReport : ChecksumReport.fields = ["checksum", "frame"] := by decide
theorem inv_MessageHeader : MessageHeader.fields = ["magic"] := by decide
theorem inv_MessageBody : MessageBody.variants = ["SyncRequest", "SyncReply", "Input", "InputAck", "QualityReport",
  "QualityReply", "ChecksumReport", "KeepAlive"] := by decide
theorem inv_InputBytes : InputBytes.fields = ["frame", "bytes"] := by decide
theorem inv_Event : Event.variants = ["Synchronizing", "Synchronized", "Input", "Disconnected", "NetworkInterrupted",
  "NetworkResumed"] := by decide
theorem inv_ProtocolState : ProtocolState.variants = ["Initializing", "Synchronizing", "Running", "Disconnected", "Shutdown"] := by
  decide
theorem inv_UdpProtocol : UdpProtocol.fields = ["num_players", "handles", "send_queue", "event_queue", "state",
  "sync_remaining_roundtrips", "sync_random_requests", "running_last_quality_report", "running_last_input_recv",
  "disconnect_notify_sent", "disconnect_event_sent", "disconnect_timeout", "disconnect_notify_start", "shutdown_timeout",
  "fps", "magic", "peer_addr", "remote_magic", "peer_connect_status", "pending_output", "last_acked_input", "max_prediction",
  "recv_inputs", "time_sync_layer", "local_frame_advantage", "remote_frame_advantage", "stats_start_time", "round_trip_time",
  "round_trip_time_measured",  "last_send_time", "last_sync_request_time", "last_recv_time", "pending_checksums", "desync_detection"] := by decide
theorem inv_PlayerRegistry : PlayerRegistry.fields = ["handles", "remotes", "spectators"] := by decide
theorem inv_P2PSession : P2PSession.fields = ["num_players", "max_prediction", "sync_layer", "sparse_saving", "disconnect_frame",
  "state", "fps", "socket", "player_reg", "local_connect_status", "next_spectator_frame", "next_recommended_sleep",
  "frames_ahead", "event_queue", "pending_local_inputs", "outgoing_local_inputs", "last_sent_outgoing_input_frame",
  "desync_detection", "local_checksum_history", "last_sent_checksum_frame"] := by decide
theorem inv_SpectatorSession : SpectatorSession.fields = ["state", "num_players", "inputs", "host_connect_status", "socket",
  "host", "event_queue", "current_frame", "last_recv_frame", "max_frames_behind", "catchup_speed"] := by decide
theorem inv_SyncTestSession : SyncTestSession.fields = ["num_players", "max_prediction", "check_distance", "sync_layer",
  "dummy_connect_status", "checksum_history", "local_inputs"] := by decide
theorem inv_SessionBuilder : SessionBuilder.fields = ["num_players", "local_players", "max_prediction", "fps", "sparse_saving",
  "desync_detection", "disconnect_timeout", "disconnect_notify_start", "player_reg", "input_delay", "check_dist",
  "max_frames_behind", "catchup_speed"] := by decide
theorem inv_GgrsError : GgrsError.variants = ["PredictionThreshold", "InvalidRequest", "MismatchedChecksum", "NotSynchronized",
  "SpectatorTooFarBehind", "NotEnoughData"] := by decide
theorem inv_DesyncDetection : DesyncDetection.variants = ["On", "Off"] := by decide
theorem inv_PlayerType : PlayerType.variants = ["Local", "Remote", "Spectator"] := by decide
theorem inv_SessionState : SessionState.variants = ["Synchronizing", "Running"] := by decide
theorem inv_InputStatus : InputStatus.variants = ["Confirmed", "Predicted", "Disconnected"] := by decide
theorem inv_GgrsEvent : GgrsEvent.variants = ["Synchronizing", "Synchronized", "Disconnected", "NetworkInterrupted",
  "NetworkResumed", "WaitRecommendation", "DesyncDetected"] := by decide
theorem inv_GgrsRequest : GgrsRequest.variants = ["SaveGameState", "LoadGameState", "AdvanceFrame"] := by decide

end Ggrs.Rust
