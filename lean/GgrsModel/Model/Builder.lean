/-
Model of src/sessions/builder.rs (`SessionBuilder`) and of the three session constructors.
-/
import GgrsModel.Model.Spectator
import GgrsModel.Model.SyncTest

namespace Ggrs

structure Builder where
  numPlayers : Nat := DEFAULT_PLAYERS
  localPlayers : Nat := 0
  maxPrediction : Nat := DEFAULT_MAX_PREDICTION_FRAMES
  fps : Nat := DEFAULT_FPS
  sparse : Bool := DEFAULT_SAVE_MODE
  desync : Option Nat := none
  disconnectTimeoutMs : Nat := DEFAULT_DISCONNECT_TIMEOUT
  disconnectNotifyStartMs : Nat := DEFAULT_DISCONNECT_NOTIFY_START
  handles : List (Nat × PlayerType) := []
  inputDelay : Nat := DEFAULT_INPUT_DELAY
  checkDist : Nat := DEFAULT_CHECK_DISTANCE
  maxFramesBehind : Nat := DEFAULT_MAX_FRAMES_BEHIND
  catchupSpeed : Nat := DEFAULT_CATCHUP_SPEED
  deriving Repr, Inhabited

inductive BuilderCall where
  | addPlayer (t : PlayerType) (handle : Nat)
  | withNumPlayers (n : Nat)
  | withMaxPrediction (n : Nat)
  | withInputDelay (n : Nat)
  | withSparse (b : Bool)
  | withDesync (interval : Option Nat)
  | withDisconnectTimeout (ms : Nat)
  | withDisconnectNotifyDelay (ms : Nat)
  | withFps (n : Nat)
  | withCheckDistance (n : Nat)
  | withMaxFramesBehind (n : Nat)
  | withCatchupSpeed (n : Nat)
  deriving Repr, DecidableEq, Inhabited

namespace Builder

def validHandle (t : PlayerType) (handle numPlayers : Nat) : Bool :=
  match t with
  | .localPlayer => handle < numPlayers
  | .remote _ => handle < numPlayers
  | .spectator _ => handle ≥ numPlayers

/-- One builder call; `none` = `Err(InvalidRequest)` (the builder is consumed). -/
def apply (b : Builder) : BuilderCall → Option Builder
  | .addPlayer t h =>
    if b.handles.any (·.1 == h) then none
    else if !validHandle t h b.numPlayers then none
    else some { b with localPlayers := if t == .localPlayer then b.localPlayers + 1 else b.localPlayers,
                       handles := (b.handles ++ [(h, t)]).mergeSort (fun a c => a.1 ≤ c.1) }
  | .withNumPlayers n =>
    if n == 0 then none
    else if !(b.handles.all fun (h, t) => validHandle t h n) then none
    else some { b with numPlayers := n }
  | .withMaxPrediction n => some { b with maxPrediction := n }
  | .withInputDelay n => some { b with inputDelay := n }
  | .withSparse v => some { b with sparse := v }
  | .withDesync d => some { b with desync := d }
  | .withDisconnectTimeout t => some { b with disconnectTimeoutMs := t }
  | .withDisconnectNotifyDelay t => some { b with disconnectNotifyStartMs := t }
  | .withFps n => if n == 0 then none else some { b with fps := n }
  | .withCheckDistance n => some { b with checkDist := n }
  | .withMaxFramesBehind n =>
    if n < 1 then none else if n ≥ SPECTATOR_BUFFER_SIZE then none else some { b with maxFramesBehind := n }
  | .withCatchupSpeed n => if n < 1 then none else some { b with catchupSpeed := n }

def applyAll (b : Builder) : List BuilderCall → Option Builder
  | [] => some b
  | c :: cs => match b.apply c with
    | none => none
    | some b' => applyAll b' cs

/-- Randomness consumed when an endpoint is created: its magic and the first handshake nonce. -/
structure EpSeed where
  spectator : Bool
  addr : Nat
  magic : Nat
  nonce : Nat
  deriving Repr, Inhabited

def seedFor (seeds : List EpSeed) (spectator : Bool) (addr : Nat) : EpSeed :=
  (seeds.find? fun s => s.spectator == spectator && s.addr == addr).getD ⟨spectator, addr, 1, 0⟩

def dedup (l : List Nat) : List Nat := l.foldl (fun acc a => if acc.contains a then acc else acc ++ [a]) []

/-- `start_p2p_session`; `none` = `Err(InvalidRequest)`. The outer `M` carries panics. -/
def startP2P (b : Builder) (pred : Predictor) (seeds : List EpSeed) (now : Nat) : M (Option P2P) := do
  if b.desync == some 0 then return none
  if !((List.range b.numPlayers).all fun h => b.handles.any (·.1 == h)) then return none
  let remoteAddrs := (dedup (b.handles.filterMap fun (_, t) => match t with | .remote a => some a | _ => none)).mergeSort (· ≤ ·)
  let specAddrs := (dedup (b.handles.filterMap fun (_, t) => match t with | .spectator a => some a | _ => none)).mergeSort (· ≤ ·)
  let mk (spectator : Bool) (addr : Nat) : M (Nat × Endpoint) := do
    let hs := b.handles.filterMap fun (h, t) =>
      if t == (if spectator then PlayerType.spectator addr else PlayerType.remote addr) then some h else none
    let seed := seedFor seeds spectator addr
    let ep := Endpoint.new hs addr b.numPlayers (if spectator then b.numPlayers else b.localPlayers) b.maxPrediction
      b.disconnectTimeoutMs b.disconnectNotifyStartMs b.fps b.desync seed.magic now
    let ep ← ({ ep with nonceTape := [seed.nonce] }).synchronize now
    pure (addr, ep)
  let remotes ← remoteAddrs.mapM (mk false)
  let spectators ← specAddrs.mapM (mk true)
  let sync ← (b.handles.filter (·.2 == .localPlayer)).foldlM (fun sy (h, _) => do
    let (sy, _) ← sy.setFrameDelay h b.inputDelay; pure sy) (SyncLayer.new b.numPlayers b.maxPrediction)
  let sparse := if b.maxPrediction == 0 && b.sparse then false else b.sparse
  return some {
    numPlayers := b.numPlayers, maxPrediction := b.maxPrediction, sync, sparse,
    running := remotes.length + spectators.length == 0, fps := b.fps,
    handles := b.handles, remotes, spectators,
    localConnectStatus := List.replicate b.numPlayers {},
    desync := b.desync, pred }

/-- `start_spectator_session` (infallible). -/
def startSpectator (b : Builder) (hostAddr : Nat) (seeds : List EpSeed) (now : Nat) : M Spectator := do
  let seed := seedFor seeds false hostAddr
  let host := Endpoint.new (List.range b.numPlayers) hostAddr b.numPlayers 1 b.maxPrediction
    b.disconnectTimeoutMs b.disconnectNotifyStartMs b.fps none seed.magic now
  let host ← ({ host with nonceTape := [seed.nonce] }).synchronize now
  return Spectator.new b.numPlayers host b.maxFramesBehind b.catchupSpeed

/-- `start_synctest_session`; `none` = `Err(InvalidRequest)`. -/
def startSyncTest (b : Builder) (pred : Predictor) : M (Option SyncTest) := do
  if b.checkDist ≥ b.maxPrediction then return none
  if b.sparse then return none
  let s ← SyncTest.new b.numPlayers b.maxPrediction b.checkDist b.inputDelay pred
  return some s

end Builder
end Ggrs
