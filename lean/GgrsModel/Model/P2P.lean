/-
Model of src/sessions/p2p_session.rs (`P2PSession`, `PlayerRegistry`).

`HashMap` iteration is modelled in ascending key order (addresses, handles, frames); C17 is the
statement that nothing observable depends on that choice. Everything the session hands to the
socket is appended to `outbox` as (address, message).
-/
import GgrsModel.Model.Protocol

namespace Ggrs

inductive PlayerType where
  | localPlayer
  | remote (addr : Nat)
  | spectator (addr : Nat)
  deriving Repr, DecidableEq, Inhabited

/-- `GgrsEvent` -/
inductive Event where
  | synchronizing (addr total count : Nat)
  | synchronized (addr : Nat)
  | disconnected (addr : Nat)
  | networkInterrupted (addr timeoutMs : Nat)
  | networkResumed (addr : Nat)
  | waitRecommendation (skipFrames : Nat)
  | desyncDetected (frame : Frame) (localChecksum remoteChecksum addr : Nat)
  deriving Repr, DecidableEq, Inhabited

/-- `GgrsError` (the `info` string of InvalidRequest is not modelled) -/
inductive GgrsError where
  | predictionThreshold
  | invalidRequest
  | mismatchedChecksum (currentFrame : Frame) (frames : List Frame)
  | notSynchronized
  | spectatorTooFarBehind
  | notEnoughData
  deriving Repr, DecidableEq, Inhabited

structure P2P where
  numPlayers : Nat
  maxPrediction : Nat
  sync : SyncLayer
  sparse : Bool
  disconnectFrame : Frame := NULL_FRAME
  running : Bool
  fps : Nat
  handles : List (Nat × PlayerType)
  remotes : List (Nat × Endpoint)
  spectators : List (Nat × Endpoint)
  localConnectStatus : List ConnStatus
  nextSpectatorFrame : Frame := 0
  nextRecommendedSleep : Frame := 0
  framesAhead : Int := 0
  eventQueue : List Event := []
  pendingLocalInputs : List (Nat × PlayerInput) := []
  outgoingLocalInputs : List (Int × List (Nat × PlayerInput)) := []
  lastSentOutgoingInputFrame : Frame := NULL_FRAME
  desync : Option Nat
  localChecksumHistory : List (Int × Nat) := []
  lastSentChecksumFrame : Frame := NULL_FRAME
  pred : Predictor
  outbox : List (Nat × Msg) := []
  deriving Repr, Inhabited

namespace P2P

def localPlayerHandles (s : P2P) : List Nat :=
  s.handles.filterMap fun (h, t) => if t == .localPlayer then some h else none

def numSpectators (s : P2P) : Nat :=
  (s.handles.filter fun (_, t) => match t with | .spectator _ => true | _ => false).length

def playerType (s : P2P) (h : Nat) : Option PlayerType := (s.handles.find? (·.1 == h)).map (·.2)

def findEp (l : List (Nat × Endpoint)) (addr : Nat) : Option Endpoint := (l.find? (·.1 == addr)).map (·.2)

def updEp (l : List (Nat × Endpoint)) (addr : Nat) (f : Endpoint → M Endpoint) : M (List (Nat × Endpoint)) :=
  l.mapM fun (a, e) => if a == addr then do let e' ← f e; pure (a, e') else pure (a, e)

def setStatus (s : P2P) (h : Nat) (f : ConnStatus → ConnStatus) : P2P :=
  { s with localConnectStatus := rset s.localConnectStatus h (f (rget s.localConnectStatus h)) }

def pushEvent (s : P2P) (e : Event) : P2P := { s with eventQueue := s.eventQueue ++ [e] }

/-- Drains every message an endpoint list has queued into the outbox. -/
def flushEps (l : List (Nat × Endpoint)) : List (Nat × Endpoint) × List (Nat × Msg) :=
  l.foldl (fun (acc, out) (a, e) =>
    let (e', msgs) := e.sendAllMessages
    (acc ++ [(a, e')], out ++ msgs.map fun m => (a, m))) ([], [])

def checkInitialSync (s : P2P) : P2P :=
  if s.running then s
  else if s.remotes.all (·.2.isSynchronized) && s.spectators.all (·.2.isSynchronized) then
    { s with running := true }
  else s

def confirmedFrame (s : P2P) : M Frame := do
  let c := s.localConnectStatus.foldl (fun m cs => if !cs.disconnected then min m cs.lastFrame else m) Endpoint.i32Max
  ensure (c < Endpoint.i32Max) "confirmed_frame: no connected player"
  return c

def disconnectPlayerAtFrame (s : P2P) (now : Nat) (handle : Nat) (lastFrame : Frame) : M P2P := do
  let s ← match s.playerType handle with
    | none => .error "disconnect_player_at_frame: invalid player handle"
    | some (.remote addr) => do
      let ep ← match findEp s.remotes addr with
        | some ep => pure ep
        | none => .error "disconnect_player_at_frame: no endpoint for address"
      let s := ep.handles.foldl (fun s h => s.setStatus h fun c => { c with disconnected := true }) s
      let remotes ← updEp s.remotes addr fun e => pure (e.disconnect now)
      let s := { s with remotes }
      pure (if s.sync.currentFrame > lastFrame + 1 then
        { s with disconnectFrame := if s.disconnectFrame == NULL_FRAME then lastFrame + 1
                                    else min s.disconnectFrame (lastFrame + 1) }
      else s)
    | some (.spectator addr) => do
      ensure ((findEp s.spectators addr).isSome) "disconnect_player_at_frame: no endpoint for address"
      let spectators ← updEp s.spectators addr fun e => pure (e.disconnect now)
      pure { s with spectators }
    | some .localPlayer => pure s
  return s.checkInitialSync

def trimEvents (s : P2P) : P2P :=
  { s with eventQueue := s.eventQueue.drop (s.eventQueue.length - MAX_EVENT_QUEUE_SIZE) }

def handleEventCore (s : P2P) (now : Nat) (ev : ProtoEvent) (handles : List Nat) (addr : Nat) : M P2P :=
  match ev with
    | .synchronizing total count => pure (s.pushEvent (.synchronizing addr total count))
    | .networkInterrupted t => pure (s.pushEvent (.networkInterrupted addr t))
    | .networkResumed => pure (s.pushEvent (.networkResumed addr))
    | .synchronized => pure (s.checkInitialSync.pushEvent (.synchronized addr))
    | .disconnected => do
      let s ← handles.foldlM (fun s h =>
        let lastFrame := if h < s.numPlayers then (rget s.localConnectStatus h).lastFrame else NULL_FRAME
        s.disconnectPlayerAtFrame now h lastFrame) s
      pure (s.pushEvent (.disconnected addr))
    | .input inp player => do
      ensure (player < s.numPlayers) "handle_event: input from a spectator handle"
      if !(rget s.localConnectStatus player).disconnected then
        let cur := (rget s.localConnectStatus player).lastFrame
        ensure (cur == NULL_FRAME || cur + 1 == inp.frame) "handle_event: remote input out of sequence"
        let s := s.setStatus player fun c => { c with lastFrame := inp.frame }
        let sync ← s.sync.addRemoteInput player inp
        pure { s with sync }
      else pure s

/-- `handle_event`: the event-specific part, then the queue is trimmed to its documented bound. -/
def handleEvent (s : P2P) (now : Nat) (ev : ProtoEvent) (handles : List Nat) (addr : Nat) : M P2P := do
  let s ← s.handleEventCore now ev handles addr
  return s.trimEvents

/-- `poll_remote_clients`; `received` is what `socket.receive_all_messages()` returned. -/
def pollRemoteClients (s : P2P) (now : Nat) (received : List (Nat × Msg)) : M P2P := do
  let s ← received.foldlM (fun s (from_, msg) => do
    let remotes ← updEp s.remotes from_ fun e => e.handleMessage now msg
    let spectators ← updEp s.spectators from_ fun e => e.handleMessage now msg
    pure { s with remotes, spectators }) s
  let cur := s.sync.currentFrame
  let remotes ← s.remotes.mapM fun (a, e) => do
    if e.isRunning then let e' ← e.updateLocalFrameAdvantage cur; pure (a, e') else pure (a, e)
  let s := { s with remotes }
  -- poll the endpoints, gather their events
  let pollAll (l : List (Nat × Endpoint)) : M (List (Nat × Endpoint) × List (ProtoEvent × List Nat × Nat)) :=
    l.foldlM (fun (acc, evs) (a, e) => do
      let (e', polled) ← e.poll now s.localConnectStatus
      pure (acc ++ [(a, e')], evs ++ polled.map fun ev => (ev, e'.handles, e'.peerAddr))) ([], [])
  let (remotes, ev1) ← pollAll s.remotes
  let (spectators, ev2) ← pollAll s.spectators
  let s := { s with remotes, spectators }
  let s ← (ev1 ++ ev2).foldlM (fun s (ev, hs, addr) => s.handleEvent now ev hs addr) s
  let (remotes, o1) := flushEps s.remotes
  let (spectators, o2) := flushEps s.spectators
  return { s with remotes, spectators, outbox := s.outbox ++ o1 ++ o2 }

def addLocalInput (s : P2P) (handle : Nat) (input : Input) : P2P × Except GgrsError Unit :=
  if !(s.localPlayerHandles.contains handle) then (s, .error .invalidRequest)
  else
    let pi : PlayerInput := ⟨s.sync.currentFrame, input⟩
    ({ s with pendingLocalInputs := (s.pendingLocalInputs.filter (·.1 != handle)) ++ [(handle, pi)] }, .ok ())

def queueOutgoingLocalInput (s : P2P) (handle : Nat) (inp : PlayerInput) : M P2P := do
  ensure (inp.frame != NULL_FRAME) "queue_outgoing_local_input: NULL frame"
  if s.remotes.isEmpty then return s
  let cur := (alookup inp.frame s.outgoingLocalInputs).getD []
  let cur := (cur.filter (·.1 != handle)) ++ [(handle, inp)]
  return { s with outgoingLocalInputs := ainsert inp.frame cur s.outgoingLocalInputs }

def nextCompleteOutgoingInputFrame (s : P2P) (localHandles : List Nat) : Option Frame :=
  let complete (inputs : List (Nat × PlayerInput)) := localHandles.all fun h => inputs.any (·.1 == h)
  if s.lastSentOutgoingInputFrame == NULL_FRAME then
    (s.outgoingLocalInputs.find? fun (_, inputs) => complete inputs).map (·.1)
  else
    let next := s.lastSentOutgoingInputFrame + 1
    match alookup next s.outgoingLocalInputs with
    | none => none
    | some inputs => if complete inputs then some next else none

/-- One complete frame of local inputs leaves the outgoing queue and is handed to every remote
endpoint (`send_input` + `send_all_messages`); it becomes the last sent frame. -/
def sendFrameToRemotes (s : P2P) (now : Nat) (frame : Frame) (inputs : List (Nat × PlayerInput)) : M P2P := do
  let s := { s with outgoingLocalInputs := aerase frame s.outgoingLocalInputs }
  let (remotes, out) ← s.remotes.foldlM (fun (acc, out) (a, e) => do
    let e ← e.sendInput now inputs s.localConnectStatus
    let (e, msgs) := e.sendAllMessages
    pure (acc ++ [(a, e)], out ++ msgs.map fun m => (a, m))) ([], [])
  pure { s with remotes, outbox := s.outbox ++ out, lastSentOutgoingInputFrame := frame }

def sendReadyOutgoingInputsToRemotes (s : P2P) (now : Nat) : M P2P := do
  if s.remotes.isEmpty then return s
  let localHandles := s.localPlayerHandles
  if localHandles.isEmpty then return s
  -- every iteration removes one queued frame
  let rec loop : Nat → P2P → M P2P
    | 0, s => .ok s
    | fuel + 1, s =>
      match s.nextCompleteOutgoingInputFrame localHandles with
      | none => .ok s
      | some frame => do
        let inputs ← match alookup frame s.outgoingLocalInputs with
          | some i => pure i
          | none => .error "send_ready_outgoing_inputs: complete frame no longer queued"
        let s ← s.sendFrameToRemotes now frame inputs
        loop fuel s
  loop (s.outgoingLocalInputs.length + 1) s

/-- The default-input frames in front of the very first (delayed) input of a local player are
sent to the remotes as well. -/
def queueInitialBlanks (s : P2P) (h : Nat) (actual : Frame) : M P2P :=
  if (rget s.localConnectStatus h).lastFrame == NULL_FRAME then
    (List.range actual.toNat).foldlM (fun s (f : Nat) => s.queueOutgoingLocalInput h (PlayerInput.blank f)) s
  else pure s

def pendingInputOf (s : P2P) (h : Nat) : M PlayerInput :=
  match s.pendingLocalInputs.find? (·.1 == h) with
  | some (_, pi) => pure pi
  | none => .error "register_local_inputs: missing local input"

/-- One local player's pending input goes into the sync layer and, if it landed, into the
outgoing queue. -/
def registerOne (s : P2P) (h : Nat) : M P2P := do
  let pi ← s.pendingInputOf h
  let (sync, actual) ← s.sync.addLocalInput h pi
  let s := { s with sync }
  if actual != NULL_FRAME then
    let s ← s.queueInitialBlanks h actual
    let s := s.setStatus h fun c => { c with lastFrame := actual }
    s.queueOutgoingLocalInput h ⟨actual, pi.input⟩
  else pure s

def registerLocalInputs (s : P2P) (now : Nat) : M P2P := do
  let s ← s.localPlayerHandles.foldlM registerOne s
  s.sendReadyOutgoingInputsToRemotes now

/-- One confirmed frame is handed to every running spectator endpoint (`send_input` +
`send_all_messages`), and the next spectator frame moves on. -/
def offerToSpectators (s : P2P) (now : Nat) (inputMap : List (Nat × PlayerInput)) : M P2P := do
  let (spectators, out) ← s.spectators.foldlM (fun (acc, out) (a, e) => do
    if e.isRunning then
      let e ← e.sendInput now inputMap s.localConnectStatus
      let (e, msgs) := e.sendAllMessages
      pure (acc ++ [(a, e)], out ++ msgs.map fun m => (a, m))
    else pure (acc ++ [(a, e)], out)) ([], [])
  pure { s with spectators, outbox := s.outbox ++ out, nextSpectatorFrame := s.nextSpectatorFrame + 1 }

def sendConfirmedInputsToSpectators (s : P2P) (now : Nat) (confirmed : Frame) : M P2P := do
  if s.numSpectators == 0 then return s
  let rec loop : Nat → P2P → M P2P
    | 0, s => .ok s
    | fuel + 1, s =>
      if s.nextSpectatorFrame ≤ confirmed then do
        let inputs ← s.sync.confirmedInputs s.nextSpectatorFrame s.localConnectStatus
        ensure (inputs.length == s.numPlayers) "send_confirmed_inputs_to_spectators: wrong input count"
        ensure (inputs.all fun i => i.frame == NULL_FRAME || i.frame == s.nextSpectatorFrame)
          "send_confirmed_inputs_to_spectators: input of another frame"
        let s ← s.offerToSpectators now (inputs.zipIdx.map fun (i, h) => (h, i))
        loop fuel s
      else .ok s
  loop ((confirmed - s.nextSpectatorFrame + 1).toNat) s

/-- What one running endpoint reports about a player: still connected? up to which frame? -/
def gossipStep (handle : Nat) (acc : Bool × Int) (x : Nat × Endpoint) : Bool × Int :=
  if !x.2.isRunning then acc
  else
    let cs := rget x.2.peerConnectStatus handle
    (acc.1 && !cs.disconnected, min acc.2 cs.lastFrame)

/-- The reports of all running endpoints about a player, combined (`update_player_disconnects`
walks the `HashMap` of remotes). -/
def gossipOf (remotes : List (Nat × Endpoint)) (handle : Nat) : Bool × Int :=
  remotes.foldl (gossipStep handle) (true, Endpoint.i32Max)

def updatePlayerDisconnects (s : P2P) (now : Nat) : M P2P :=
  (List.range s.numPlayers).foldlM (fun s handle => do
    let (queueConnected, queueMin) := gossipOf s.remotes handle
    let lc := rget s.localConnectStatus handle
    let localConnected := !lc.disconnected
    let queueMin := if localConnected then min queueMin lc.lastFrame else queueMin
    if !queueConnected && (localConnected || lc.lastFrame > queueMin) then
      s.disconnectPlayerAtFrame now handle queueMin
    else pure s) s

/-- The save inside the re-simulation loop: in sparse mode only the confirmed frame is saved, in
normal mode every frame but the one just loaded. -/
def resimSave (s : P2P) (minConfirmed : Frame) (i : Nat) (sync : SyncLayer) (reqs : List Request) :
    M (SyncLayer × List Request) :=
  if s.sparse then
    if sync.currentFrame == minConfirmed then do
      let (sync, r) ← sync.saveCurrentState; pure (sync, reqs ++ [r])
    else pure (sync, reqs)
  else if i > 0 then do
    let (sync, r) ← sync.saveCurrentState; pure (sync, reqs ++ [r])
  else pure (sync, reqs)

/-- `adjust_gamestate`: load, reset predictions, resimulate up to the frame we came from. -/
def adjustGamestate (s : P2P) (firstIncorrect minConfirmed : Frame) (reqs : List Request) :
    M (P2P × List Request) := do
  let current := s.sync.currentFrame
  let frameToLoad := if s.sparse then s.sync.lastSavedFrame else firstIncorrect
  ensure (frameToLoad ≤ firstIncorrect) "adjust_gamestate: frame to load after first incorrect frame"
  let count := current - frameToLoad
  let (sync, req) ← s.sync.loadFrame frameToLoad
  let reqs := reqs ++ [req]
  ensure (sync.currentFrame == frameToLoad) "adjust_gamestate: not at the loaded frame"
  let sync := sync.resetPrediction
  let rec loop : Nat → Nat → SyncLayer → List Request → M (SyncLayer × List Request)
    | 0, _, sync, reqs => .ok (sync, reqs)
    | n + 1, i, sync, reqs => do
      let (sync, inputs) ← sync.synchronizedInputs s.pred s.localConnectStatus
      let (sync, reqs) ← s.resimSave minConfirmed i sync reqs
      let sync := sync.advanceFrame
      loop n (i + 1) sync (reqs ++ [.advance inputs])
  let (sync, reqs) ← loop count.toNat 0 sync reqs
  ensure (sync.currentFrame == current) "adjust_gamestate: did not return to the current frame"
  return ({ s with sync }, reqs)

/-- Sparse saving, the state is too old: save now if the current frame is confirmed, otherwise roll
back to the last saved state (the re-simulation saves the confirmed frame on its way). -/
def saveOrRollbackToSaved (s : P2P) (lastSaved confirmed : Frame) (reqs : List Request) :
    M (P2P × List Request) :=
  if confirmed ≥ s.sync.currentFrame then do
    let (sync, r) ← s.sync.saveCurrentState
    pure ({ s with sync }, reqs ++ [r])
  else s.adjustGamestate lastSaved confirmed reqs

def checkLastSavedState (s : P2P) (lastSaved confirmed : Frame) (reqs : List Request) :
    M (P2P × List Request) := do
  if s.sync.currentFrame - lastSaved ≥ s.maxPrediction then
    let (s, reqs) ← s.saveOrRollbackToSaved lastSaved confirmed reqs
    ensure (confirmed == NULL_FRAME || s.sync.lastSavedFrame == min confirmed s.sync.currentFrame)
      "check_last_saved_state: confirmed state was not saved"
    return (s, reqs)
  else return (s, reqs)

/-- First half of `handle_rollback_and_save`: roll back if any queue (or a pending disconnect)
names an incorrect frame. -/
def rollbackIfNeeded (s : P2P) (confirmed : Frame) (reqs : List Request) : M (P2P × List Request) :=
  let firstIncorrect := s.sync.checkSimulationConsistency s.disconnectFrame
  if firstIncorrect != NULL_FRAME then do
    let (s, reqs) ← s.adjustGamestate firstIncorrect confirmed reqs
    pure ({ s with disconnectFrame := NULL_FRAME }, reqs)
  else pure (s, reqs)

/-- Second half: save the current frame (every call, or in sparse mode only when needed). -/
def saveAfterRollback (s : P2P) (confirmed : Frame) (reqs : List Request) : M (P2P × List Request) :=
  if s.sparse then s.checkLastSavedState s.sync.lastSavedFrame confirmed reqs
  else do
    let (sync, r) ← s.sync.saveCurrentState
    return ({ s with sync }, reqs ++ [r])

def handleRollbackAndSave (s : P2P) (confirmed : Frame) (reqs : List Request) : M (P2P × List Request) := do
  let (s, reqs) ← s.rollbackIfNeeded confirmed reqs
  s.saveAfterRollback confirmed reqs

/-- How many frames the session is ahead of its last confirmed frame (`NULL_FRAME` counts as "no
frame confirmed yet": the distance is then the current frame itself). -/
def framesAheadOfConfirmed (s : P2P) : Int :=
  if s.sync.lastConfirmedFrame == NULL_FRAME then s.sync.currentFrame
  else s.sync.currentFrame - s.sync.lastConfirmedFrame

/-- The prediction gate at the end of `advance_rollback_frame`: a new frame is simulated only
while fewer than `max_prediction` frames lie between the last confirmed frame and the current one. -/
def rollbackGate (s : P2P) (reqs : List Request) : M (P2P × List Request) := do
  if s.framesAheadOfConfirmed < s.maxPrediction then
    let (sync, inputs) ← s.sync.synchronizedInputs s.pred s.localConnectStatus
    let sync := sync.advanceFrame
    return ({ s with sync, pendingLocalInputs := [] }, reqs ++ [.advance inputs])
  else return (s, reqs)

def advanceRollbackFrame (s : P2P) (now : Nat) (reqs : List Request) : M (P2P × List Request) := do
  let confirmed ← s.confirmedFrame
  let (s, reqs) ← s.handleRollbackAndSave confirmed reqs
  let s ← s.sendConfirmedInputsToSpectators now confirmed
  let sync ← s.sync.setLastConfirmedFrame confirmed s.sparse
  let s := { s with sync }
  let s ← s.registerLocalInputs now
  s.rollbackGate reqs

/-- One confirmed input as lockstep hands it to the game: Disconnected for the blank input of a
disconnected player, Confirmed otherwise. -/
def lockstepInput (s : P2P) (gameFrame : Frame) (p : PlayerInput × Nat) : M (Input × InputStatus) := do
  let cs := rget s.localConnectStatus p.2
  ensure ((p.1.frame == NULL_FRAME) == (cs.disconnected && cs.lastFrame < gameFrame))
    "advance_lockstep_frame: debug_assert on confirmed_inputs"
  pure (p.1.input, if p.1.frame == NULL_FRAME then InputStatus.disconnected else InputStatus.confirmed)

/-- Lockstep: the game frame is simulated only when every connected player's input for it is there. -/
def lockstepAdvance (s : P2P) (gameFrame confirmed : Frame) (reqs : List Request) : M (P2P × List Request) :=
  if confirmed ≥ gameFrame then do
    let cis ← s.sync.confirmedInputs gameFrame s.localConnectStatus
    let inputs ← cis.zipIdx.mapM (s.lockstepInput gameFrame)
    pure ({ s with sync := s.sync.advanceFrame, pendingLocalInputs := [] }, reqs ++ [.advance inputs])
  else pure (s, reqs)

def advanceLockstepFrame (s : P2P) (now : Nat) (reqs : List Request) : M (P2P × List Request) := do
  let s ← s.registerLocalInputs now
  let gameFrame := s.sync.currentFrame
  let confirmed ← s.confirmedFrame
  let (s, reqs) ← s.lockstepAdvance gameFrame confirmed reqs
  let consumed := s.sync.currentFrame - 1
  let confirmed ← s.confirmedFrame
  let bookkeeping := min confirmed consumed
  let s ← s.sendConfirmedInputsToSpectators now bookkeeping
  let sync ← s.sync.setLastConfirmedFrame bookkeeping s.sparse
  return ({ s with sync }, reqs)

def maxFrameAdvantage (s : P2P) : Int :=
  let m : Option Int := s.remotes.foldl (fun m (_, e) =>
    e.handles.foldl (fun m h =>
      if !(rget s.localConnectStatus h).disconnected then
        let a := e.timeSync.averageFrameAdvantage
        some (match m with | none => a | some x => max x a)
      else m) m) none
  m.getD 0

def checkWaitRecommendation (s : P2P) : M P2P := do
  let s := { s with framesAhead := s.maxFrameAdvantage }
  if s.sync.currentFrame > s.nextRecommendedSleep && s.framesAhead ≥ (MIN_RECOMMENDATION : Int) then
    return ({ s with nextRecommendedSleep := s.sync.currentFrame + (RECOMMENDATION_INTERVAL : Int) }).pushEvent
      (.waitRecommendation s.framesAhead.toNat)
  else return s

/-- The frame the next checksum report is about. -/
def nextReportFrame (s : P2P) (interval : Nat) : Frame :=
  if s.lastSentChecksumFrame == NULL_FRAME then (interval : Int) else s.lastSentChecksumFrame + (interval : Int)

/-- The saved state whose checksum the next report carries, if the report is due: the cell of the
report frame, or (with sparse saving) the newest saved state between it and the confirmed frame. -/
def checksumCellToReport (s : P2P) (interval : Nat) : M (Option Cell) := do
  let frameToSend := s.nextReportFrame interval
  if frameToSend ≤ s.sync.lastConfirmedFrame then
    let direct ← s.sync.savedStateByFrame frameToSend
    return match direct with
      | some c => some c
      | none => s.sync.latestSavedStateInRange frameToSend s.sync.lastConfirmedFrame
  else return none

def checkChecksumSendInterval (s : P2P) (now : Nat) : M P2P := do
  match s.desync with
  | none => return s
  | some interval =>
    match ← s.checksumCellToReport interval with
    | none => return s
    | some cell =>
      match cell.checksum with
      | none => return s
      | some checksum =>
        let f := cell.frame
        let remotes := s.remotes.map fun (a, e) => (a, e.sendChecksumReport now f checksum)
        let hist := ainsert f checksum s.localChecksumHistory
        let hist := if hist.length > MAX_CHECKSUM_HISTORY_SIZE then
            let oldest : Int := f - ((MAX_CHECKSUM_HISTORY_SIZE : Int) - 1) * (interval : Int)
            hist.filter fun p => p.1 ≥ oldest
          else hist
        return { s with remotes, lastSentChecksumFrame := f, localChecksumHistory := hist }

/-- One pending remote checksum against the local history: a report for a frame below the last
confirmed frame whose local checksum is on record is checked off (second component), and raises
`DesyncDetected` (with both checksums) iff the two differ. -/
def compareOne (lastConfirmed : Frame) (hist : List (Int × Nat)) (peerAddr : Nat) (p : Int × Nat) : Option Event × Bool :=
  if p.1 ≥ lastConfirmed then (none, false)
  else match alookup p.1 hist with
    | none => (none, false)
    | some lc => ((if lc != p.2 then some (Event.desyncDetected p.1 lc p.2 peerAddr) else none), true)

/-- One endpoint's pending remote checksums, in order: the events raised and the frames checked off. -/
def comparePending (lastConfirmed : Frame) (hist : List (Int × Nat)) (peerAddr : Nat) (pending : List (Int × Nat)) :
    List Event × List Int :=
  pending.foldl (fun acc p =>
    let r := compareOne lastConfirmed hist peerAddr p
    (acc.1 ++ r.1.toList, if r.2 then acc.2 ++ [p.1] else acc.2))
    (([] : List Event), ([] : List Int))

def compareLocalChecksumsAgainstPeers (s : P2P) : P2P :=
  match s.desync with
  | none => s
  | some _ =>
    s.remotes.foldl (fun s (a, e) =>
      let (evs, checked) := comparePending s.sync.lastConfirmedFrame s.localChecksumHistory e.peerAddr e.pendingChecksums
      let e' := { e with pendingChecksums := e.pendingChecksums.filter fun p => !checked.contains p.1 }
      { s with eventQueue := s.eventQueue ++ evs,
               remotes := s.remotes.map fun (a', x) => if a' == a then (a', e') else (a', x) }) s

/-- With desync detection on: report the next due checksum, compare what the peers reported. -/
def desyncPhase (s : P2P) (now : Nat) : M P2P :=
  if s.desync.isSome then do
    let s ← s.checkChecksumSendInterval now
    pure s.compareLocalChecksumsAgainstPeers
  else pure s

/-- Rollback mode saves frame 0 before anything else. -/
def firstSavePhase (s : P2P) : M (P2P × List Request) :=
  if s.sync.currentFrame == 0 && !(s.maxPrediction == 0) then do
    let (sync, r) ← s.sync.saveCurrentState
    pure ({ s with sync }, [r])
  else pure (s, [])

/-- Lockstep for a prediction window of 0, rollback mode otherwise. -/
def advanceByMode (s : P2P) (now : Nat) (reqs : List Request) : M (P2P × List Request) :=
  if s.maxPrediction == 0 then s.advanceLockstepFrame now reqs else s.advanceRollbackFrame now reqs

def advanceFrameCore (s : P2P) (now : Nat) : M (P2P × Except GgrsError (List Request)) := do
  if !s.running then return (s, .error .notSynchronized)
  if !(s.localPlayerHandles.all fun h => s.pendingLocalInputs.any (·.1 == h)) then
    return (s, .error .invalidRequest)
  let s ← s.desyncPhase now
  let (s, reqs) ← s.firstSavePhase
  let s ← s.updatePlayerDisconnects now
  let (s, reqs) ← s.advanceByMode now reqs
  let s ← s.checkWaitRecommendation
  return (s, .ok reqs)

/-- `advance_frame_after_poll`: on the success path the event queue is trimmed last (wait
recommendations and desync notifications are queued outside of `handle_event`). -/
def advanceFrameAfterPoll (s : P2P) (now : Nat) : M (P2P × Except GgrsError (List Request)) := do
  let (s, r) ← s.advanceFrameCore now
  match r with
  | .ok _ => return (s.trimEvents, r)
  | .error _ => return (s, r)

def advanceFrame (s : P2P) (now : Nat) (received : List (Nat × Msg)) :
    M (P2P × Except GgrsError (List Request)) := do
  let s ← s.pollRemoteClients now received
  s.advanceFrameAfterPoll now

def disconnectPlayer (s : P2P) (now : Nat) (handle : Nat) : M (P2P × Except GgrsError Unit) := do
  match s.playerType handle with
  | none => return (s, .error .invalidRequest)
  | some .localPlayer => return (s, .error .invalidRequest)
  | some (.remote _) =>
    if !(rget s.localConnectStatus handle).disconnected then
      let s ← s.disconnectPlayerAtFrame now handle (rget s.localConnectStatus handle).lastFrame
      return (s, .ok ())
    else return (s, .error .invalidRequest)
  | some (.spectator _) =>
    let s ← s.disconnectPlayerAtFrame now handle NULL_FRAME
    return (s, .ok ())

def setInputDelay (s : P2P) (now : Nat) (handle delay : Nat) : M (P2P × Except GgrsError Unit) := do
  match s.playerType handle with
  | some .localPlayer =>
    let (sync, fills) ← s.sync.setFrameDelay handle delay
    let s := { s with sync }
    let s ← fills.foldlM (fun s f =>
      if f.frame != NULL_FRAME then
        (s.setStatus handle fun c => { c with lastFrame := f.frame }).queueOutgoingLocalInput handle f
      else pure s) s
    let s ← s.sendReadyOutgoingInputsToRemotes now
    return (s, .ok ())
  | _ => return (s, .error .invalidRequest)

inductive StatsOut where
  | err (e : GgrsError)
  | ok (ping sendQueueLen : Nat) (localFramesBehind remoteFramesBehind : Int)
  deriving Repr, DecidableEq

def networkStats (s : P2P) (now : Nat) (handle : Nat) : M StatsOut := do
  let ep ← match s.playerType handle with
    | some (.remote a) => match findEp s.remotes a with
      | some e => pure (some e)
      | none => .error "network_stats: endpoint should exist"
    | some (.spectator a) => match findEp s.spectators a with
      | some e => pure (some e)
      | none => .error "network_stats: endpoint should exist"
    | _ => pure none
  match ep with
  | none => return .err .invalidRequest
  | some e => match e.networkStats now with
    | .notSynchronized => return .err .notSynchronized
    | .notEnoughData => return .err .notEnoughData
    | .ok p q l r => return .ok p q l r

def events (s : P2P) : P2P × List Event := ({ s with eventQueue := [] }, s.eventQueue)

/-- The user fulfils the requests of one `advance_frame` call: what ggrs can observe of that is
the (frame, checksum) written into the cells. -/
def userExecute (s : P2P) (saves : List (Frame × Option Nat)) : P2P :=
  { s with sync := saves.foldl (fun sy (f, c) => sy.userSave f c) s.sync }

end P2P
end Ggrs
