/-
Model of src/network/protocol.rs (`UdpProtocol`) and src/network/messages.rs.

Time is the virtual clock in microseconds; `now` is an argument of every entry point (the
virtual clock does not move during a call). Random numbers (handshake nonces) are taken from
`nonceTape`, which the environment fills. `HashMap`s are sorted association lists.
-/
import GgrsModel.Model.SyncLayer
import GgrsModel.Model.Codec

namespace Ggrs
open Codec (Bytes)

inductive MsgBody where
  | syncRequest (random : Nat)
  | syncReply (random : Nat)
  | input (status : List ConnStatus) (disconnectRequested : Bool) (startFrame ackFrame : Frame) (bytes : Bytes)
  | inputAck (ackFrame : Frame)
  | qualityReport (frameAdvantage : Int) (ping : Nat)
  | qualityReply (pong : Nat)
  | checksumReport (checksum : Nat) (frame : Frame)
  | keepAlive
  deriving Repr, DecidableEq, Inhabited

structure Msg where
  magic : Nat
  body : MsgBody
  deriving Repr, DecidableEq, Inhabited

inductive ProtoEvent where
  | synchronizing (total count : Nat)
  | synchronized
  | input (inp : PlayerInput) (player : Nat)
  | disconnected
  | networkInterrupted (disconnectTimeoutMs : Nat)
  | networkResumed
  deriving Repr, DecidableEq, Inhabited

inductive ProtoState where
  | initializing | synchronizing | running | disconnected | shutdown
  deriving Repr, DecidableEq, Inhabited

structure InputBytes where
  frame : Frame
  bytes : Bytes
  deriving Repr, DecidableEq, Inhabited

/-- Size of one serialized `Config::Input` (u8 under bincode). -/
def INPUT_SIZE : Nat := 1

def ms (n : Nat) : Nat := n * 1000

structure Endpoint where
  numPlayers : Nat
  handles : List Nat
  sendQueue : List Msg := []
  eventQueue : List ProtoEvent := []
  state : ProtoState := .initializing
  syncRemaining : Nat := NUM_SYNC_PACKETS
  syncRandomRequests : List Nat := []
  runningLastQualityReport : Nat
  runningLastInputRecv : Nat
  disconnectNotifySent : Bool := false
  disconnectEventSent : Bool := false
  disconnectTimeout : Nat
  disconnectNotifyStart : Nat
  shutdownTimeout : Nat
  fps : Nat
  magic : Nat
  peerAddr : Nat
  remoteMagic : Nat := 0
  peerConnectStatus : List ConnStatus
  pendingOutput : List InputBytes := []
  lastAckedInput : InputBytes
  maxPrediction : Nat
  recvInputs : List (Int × Bytes)
  timeSync : TimeSync := {}
  localFrameAdvantage : Int := 0
  remoteFrameAdvantage : Int := 0
  statsStartTime : Nat := 0
  roundTripTime : Nat := 0
  roundTripTimeMeasured : Bool := false
  lastSendTime : Nat
  lastSyncRequestTime : Nat
  lastRecvTime : Nat
  pendingChecksums : List (Int × Nat) := []
  desyncInterval : Option Nat
  nonceTape : List Nat := []
  /-- set when the model needed a random number the environment did not supply -/
  tapeUnderrun : Bool := false
  deriving Repr, Inhabited

namespace Endpoint

/-- `UdpProtocol::new`; timeouts in milliseconds, `now` in microseconds. -/
def new (handles : List Nat) (peerAddr numPlayers localPlayers maxPrediction : Nat)
    (disconnectTimeoutMs disconnectNotifyStartMs fps : Nat) (desync : Option Nat)
    (magic now : Nat) : Endpoint :=
  let handles := handles.mergeSort (· ≤ ·)
  { numPlayers, handles,
    runningLastQualityReport := now, runningLastInputRecv := now,
    disconnectTimeout := ms disconnectTimeoutMs, disconnectNotifyStart := ms disconnectNotifyStartMs,
    shutdownTimeout := now, fps, magic, peerAddr,
    peerConnectStatus := List.replicate numPlayers {},
    lastAckedInput := ⟨NULL_FRAME, List.replicate (INPUT_SIZE * localPlayers) 0⟩,
    maxPrediction,
    recvInputs := [(NULL_FRAME, List.replicate (INPUT_SIZE * handles.length) 0)],
    lastSendTime := now, lastSyncRequestTime := now, lastRecvTime := now,
    desyncInterval := desync }

/-- `last_recv_frame`: the largest key of `recv_inputs`. -/
def lastRecvFrame (e : Endpoint) : Frame :=
  match e.recvInputs with
  | [] => NULL_FRAME
  | (k, _) :: rest => rest.foldl (fun m p => max m p.1) k

def isSynchronized (e : Endpoint) : Bool :=
  e.state == .running || e.state == .disconnected || e.state == .shutdown

def isRunning (e : Endpoint) : Bool := e.state == .running

def queueMessage (e : Endpoint) (now : Nat) (body : MsgBody) : Endpoint :=
  { e with lastSendTime := now, sendQueue := e.sendQueue ++ [⟨e.magic, body⟩] }

def takeNonce (e : Endpoint) : Endpoint × Nat :=
  match e.nonceTape with
  | n :: rest => ({ e with nonceTape := rest }, n)
  | [] => ({ e with tapeUnderrun := true }, 0)

def sendSyncRequest (e : Endpoint) (now : Nat) : Endpoint :=
  let e := { e with lastSyncRequestTime := now }
  let (e, r) := e.takeNonce
  let e := { e with syncRandomRequests := if e.syncRandomRequests.contains r then e.syncRandomRequests
                                           else e.syncRandomRequests ++ [r] }
  e.queueMessage now (.syncRequest r)

def i32Max : Int := 2147483647
def i32Min : Int := -2147483648

/-- `update_local_frame_advantage` (i32 arithmetic, overflow-checked). -/
def updateLocalFrameAdvantage (e : Endpoint) (localFrame : Frame) : M Endpoint := do
  if localFrame == NULL_FRAME || e.lastRecvFrame == NULL_FRAME then return e
  let half := e.roundTripTime / 2
  let ping : Int := if half > 2147483647 then i32Max else half
  let prod := ping * e.fps
  ensure (prod ≤ i32Max) "update_local_frame_advantage: i32 multiply overflow"
  let remoteFrame := e.lastRecvFrame + Int.tdiv prod 1000
  ensure (remoteFrame ≤ i32Max) "update_local_frame_advantage: i32 add overflow"
  let adv := remoteFrame - localFrame
  ensure (i32Min ≤ adv && adv ≤ i32Max) "update_local_frame_advantage: i32 sub overflow"
  return { e with localFrameAdvantage := adv }

inductive StatsResult where
  | notSynchronized | notEnoughData
  | ok (ping sendQueueLen : Nat) (localFramesBehind remoteFramesBehind : Int)
  deriving Repr, DecidableEq

def networkStats (e : Endpoint) (now : Nat) : StatsResult :=
  if e.state != .synchronizing && e.state != .running then .notSynchronized
  else
    let seconds := (now / 1000 - e.statsStartTime) / 1000
    if seconds == 0 || !e.roundTripTimeMeasured then .notEnoughData
    else .ok e.roundTripTime e.pendingOutput.length e.localFrameAdvantage e.remoteFrameAdvantage

def disconnect (e : Endpoint) (now : Nat) : Endpoint :=
  if e.state == .shutdown then e
  else { e with state := .disconnected, shutdownTimeout := now + ms UDP_SHUTDOWN_TIMER }

def synchronize (e : Endpoint) (now : Nat) : M Endpoint := do
  ensure (e.state == .initializing) "synchronize: state != Initializing"
  let e := { e with state := .synchronizing, syncRemaining := NUM_SYNC_PACKETS,
                    statsStartTime := now / 1000 }
  return e.sendSyncRequest now

def popPendingOutput (e : Endpoint) (ackFrame : Frame) : Endpoint :=
  let rec go : List InputBytes → InputBytes → List InputBytes × InputBytes
    | [], la => ([], la)
    | x :: rest, la => if x.frame ≤ ackFrame then go rest x else (x :: rest, la)
  let (po, la) := go e.pendingOutput e.lastAckedInput
  { e with pendingOutput := po, lastAckedInput := la }

def sendPendingOutput (e : Endpoint) (now : Nat) (connectStatus : List ConnStatus) : M Endpoint := do
  match e.pendingOutput with
  | [] => return e
  | front :: _ =>
    ensure (e.lastAckedInput.frame == NULL_FRAME || e.lastAckedInput.frame + 1 == front.frame)
      "send_pending_output: gap between last acked and first pending input"
    let bytes := Codec.encode e.lastAckedInput.bytes (e.pendingOutput.map (·.bytes))
    return e.queueMessage now
      (.input connectStatus (e.state == .disconnected) front.frame e.lastRecvFrame bytes)

def sendInputAck (e : Endpoint) (now : Nat) : Endpoint :=
  e.queueMessage now (.inputAck e.lastRecvFrame)

def sendQualityReport (e : Endpoint) (now : Nat) : Endpoint :=
  let e := { e with runningLastQualityReport := now }
  let adv := max (-32768) (min 32767 e.localFrameAdvantage)
  e.queueMessage now (.qualityReport adv (now / 1000))

/-- The two silence timers of `poll` (Running state): NetworkInterrupted after the notify delay,
Disconnected after the disconnect timeout, each at most once per silence; nothing is reported once
the Disconnected event is out (it may have been queued by `send_input`'s cap). -/
def checkTimeouts (e : Endpoint) (now : Nat) : Endpoint :=
  let e := if !e.disconnectNotifySent && !e.disconnectEventSent && e.lastRecvTime + e.disconnectNotifyStart < now then
             { e with eventQueue := e.eventQueue ++
                        [.networkInterrupted ((e.disconnectTimeout - e.disconnectNotifyStart) / 1000)],
                      disconnectNotifySent := true }
           else e
  if !e.disconnectEventSent && e.lastRecvTime + e.disconnectTimeout < now then
    { e with eventQueue := e.eventQueue ++ [.disconnected], disconnectEventSent := true }
  else e

/-- Running state, first timer: resend the unacknowledged inputs if none arrived for a while. -/
def retryPending (e : Endpoint) (now : Nat) (connectStatus : List ConnStatus) : M Endpoint :=
  if e.runningLastInputRecv + ms RUNNING_RETRY_INTERVAL < now then do
    let e ← e.sendPendingOutput now connectStatus
    pure { e with runningLastInputRecv := now }
  else pure e

/-- Running state: the periodic quality report and the keep-alive. -/
def periodicReports (e : Endpoint) (now : Nat) : Endpoint :=
  let e := if e.runningLastQualityReport + ms QUALITY_REPORT_INTERVAL < now then e.sendQualityReport now else e
  if e.lastSendTime + ms KEEP_ALIVE_INTERVAL < now then e.queueMessage now .keepAlive else e

/-- The state-dependent part of `poll`. -/
def pollState (e : Endpoint) (now : Nat) (connectStatus : List ConnStatus) : M Endpoint :=
  match e.state with
  | .synchronizing =>
    pure (if e.lastSyncRequestTime + ms SYNC_RETRY_INTERVAL < now then e.sendSyncRequest now else e)
  | .running => do
    let e ← e.retryPending now connectStatus
    pure ((e.periodicReports now).checkTimeouts now)
  | .disconnected =>
    pure (if e.shutdownTimeout < now then { e with state := .shutdown } else e)
  | _ => pure e

/-- `poll`: timers. Returns the drained event queue. -/
def poll (e : Endpoint) (now : Nat) (connectStatus : List ConnStatus) : M (Endpoint × List ProtoEvent) := do
  let e ← e.pollState now connectStatus
  return ({ e with eventQueue := [] }, e.eventQueue)

/-- `send_all_messages`: drains the send queue; nothing leaves a shut-down endpoint. -/
def sendAllMessages (e : Endpoint) : Endpoint × List Msg :=
  if e.state == .shutdown then ({ e with sendQueue := [] }, [])
  else ({ e with sendQueue := [] }, e.sendQueue)

/-- `InputBytes::from_inputs`: inputs of the given handles in ascending handle order. -/
def fromInputs (numPlayers : Nat) (inputs : List (Nat × PlayerInput)) : M InputBytes := do
  let rec go : List Nat → Frame → Bytes → M InputBytes
    | [], frame, bytes => .ok ⟨frame, bytes⟩
    | h :: hs, frame, bytes =>
      match inputs.find? (·.1 == h) with
      | none => go hs frame bytes
      | some (_, inp) => do
        ensure (frame == NULL_FRAME || inp.frame == NULL_FRAME || frame == inp.frame)
          "from_inputs: inputs of different frames"
        go hs (if inp.frame != NULL_FRAME then inp.frame else frame) (bytes ++ [inp.input])
  go (List.range numPlayers) NULL_FRAME []

def sendInput (e : Endpoint) (now : Nat) (inputs : List (Nat × PlayerInput))
    (connectStatus : List ConnStatus) : M Endpoint := do
  if e.state != .running then return e
  let data ← fromInputs e.numPlayers inputs
  let e := { e with timeSync := e.timeSync.advanceFrame data.frame e.localFrameAdvantage e.remoteFrameAdvantage }
  let e := { e with pendingOutput := e.pendingOutput ++ [data] }
  let e := if e.pendingOutput.length > PENDING_OUTPUT_SIZE && !e.disconnectEventSent
           then { e with eventQueue := e.eventQueue ++ [.disconnected], disconnectEventSent := true } else e
  e.sendPendingOutput now connectStatus

/-- `InputBytes::to_player_inputs` for `u8` inputs: every player's slice must be exactly one
serialized input (trailing bytes are rejected, an empty slice is an error). -/
def toPlayerInputs (frame : Frame) (bytes : Bytes) (numPlayers : Nat) : Option (List PlayerInput) :=
  if numPlayers == 0 then none
  else if bytes.length % numPlayers != 0 then none
  else
    let size := bytes.length / numPlayers
    if size != INPUT_SIZE then none
    else some ((List.range numPlayers).map fun p => ⟨frame, (bytes.drop (p * size)).headD 0⟩)

def mergeStatus (mine theirs : List ConnStatus) : List ConnStatus :=
  mine.zipIdx.map fun (m, i) =>
    let t := theirs.getD i {}
    { disconnected := t.disconnected || m.disconnected, lastFrame := max m.lastFrame t.lastFrame }

/-- One accepted frame: remembered as a future decode reference, one Input event per player. -/
def storeFrame (e : Endpoint) (f : Frame) (inp : Bytes) (pis : List PlayerInput) : Endpoint :=
  { e with recvInputs := ainsert f inp e.recvInputs,
           eventQueue := e.eventQueue ++ pis.zipIdx.map fun (pi, j) => ProtoEvent.input pi (e.handles.getD j 0) }

/-- The loop over decoded inputs in `on_input`. `none` = a shape error made the function return
early (no ack, no pruning). -/
def acceptInputs (e : Endpoint) (startFrame : Frame) : List Bytes → Nat → Endpoint × Bool
  | [], _ => (e, true)
  | inp :: rest, i =>
    let inpFrame := startFrame + i
    if inpFrame ≤ e.lastRecvFrame then acceptInputs e startFrame rest (i + 1)
    else
      match toPlayerInputs inpFrame inp e.handles.length with
      | none => (e, false)
      | some pis => acceptInputs (e.storeFrame inpFrame inp pis) startFrame rest (i + 1)

/-- First half of `on_input` after the shape checks: apply the piggy-backed ack and the
connection-status gossip (or the disconnect request). -/
def applyInputHeader (e : Endpoint) (status : List ConnStatus) (disconnectRequested : Bool)
    (ackFrame : Frame) : Endpoint :=
  let e := e.popPendingOutput ackFrame
  if disconnectRequested then
    if e.state != .disconnected && !e.disconnectEventSent then
      { e with eventQueue := e.eventQueue ++ [.disconnected], disconnectEventSent := true }
    else e
  else { e with peerConnectStatus := mergeStatus e.peerConnectStatus status }

/-- What happens once a payload decoded: accept the new frames, acknowledge, prune. -/
def acceptDecoded (e : Endpoint) (now : Nat) (startFrame : Frame) (inputs : List Bytes) : Endpoint :=
  let r := acceptInputs e startFrame inputs 0
  if !r.2 then r.1
  else
    let e := r.1.sendInputAck now
    let last := e.lastRecvFrame
    { e with recvInputs := e.recvInputs.filter fun p => p.1 ≥ last - 2 * (e.maxPrediction : Int) }

/-- Second half of `on_input`: find the reference input, decode, accept. -/
def decodeInputs (e : Endpoint) (now : Nat) (startFrame : Frame) (bytes : Bytes) : Endpoint :=
  let decodeFrame := if e.lastRecvFrame == NULL_FRAME then NULL_FRAME else startFrame - 1
  match alookup decodeFrame e.recvInputs with
  | none =>
    -- the reference input is gone (pruned) or was never seen: not decodable, but acknowledged
    e.sendInputAck now
  | some reference =>
    let e := { e with runningLastInputRecv := now }
    match Codec.decode reference bytes with
    | .error _ => e
    | .ok inputs => e.acceptDecoded now startFrame inputs

def onInput (e : Endpoint) (now : Nat) (status : List ConnStatus) (disconnectRequested : Bool)
    (startFrame ackFrame : Frame) (bytes : Bytes) : Endpoint :=
  if !disconnectRequested && status.length != e.numPlayers then e
  else if startFrame < 0 then e
  else (e.applyInputHeader status disconnectRequested ackFrame).decodeInputs now startFrame bytes

def onSyncReply (e : Endpoint) (now : Nat) (magic random : Nat) : Endpoint :=
  if e.state != .synchronizing then e
  else if !e.syncRandomRequests.contains random then e
  else
    let e := { e with syncRandomRequests := e.syncRandomRequests.filter (· != random),
                      syncRemaining := e.syncRemaining - 1 }
    if e.syncRemaining > 0 then
      let e := { e with eventQueue := e.eventQueue ++
                  [ProtoEvent.synchronizing NUM_SYNC_PACKETS (NUM_SYNC_PACKETS - e.syncRemaining)] }
      e.sendSyncRequest now
    else
      { e with state := .running, eventQueue := e.eventQueue ++ [ProtoEvent.synchronized], remoteMagic := magic }

def onChecksumReport (e : Endpoint) (checksum : Nat) (frame : Frame) : M Endpoint := do
  let interval ← match e.desyncInterval with
    | some i => pure i
    | none => .error "on_checksum_report: debug_assert, desync detection is off"
  let pc := if e.pendingChecksums.length ≥ MAX_CHECKSUM_HISTORY_SIZE then
      let oldest : Int := frame - ((MAX_CHECKSUM_HISTORY_SIZE : Int) - 1) * (interval : Int)
      e.pendingChecksums.filter fun p => p.1 ≥ oldest
    else e.pendingChecksums
  return { e with pendingChecksums := ainsert frame checksum pc }

/-- Receive bookkeeping of `handle_message`: the silence timer restarts, an interrupted
connection is reported as resumed. -/
def noteReceived (e : Endpoint) (now : Nat) : Endpoint :=
  let e := { e with lastRecvTime := now }
  if e.disconnectNotifySent && !e.disconnectEventSent && e.state == .running then
    { e with disconnectNotifySent := false, eventQueue := e.eventQueue ++ [.networkResumed] }
  else e

def handleMessage (e : Endpoint) (now : Nat) (msg : Msg) : M Endpoint := do
  if e.state == .shutdown then return e
  if e.remoteMagic != 0 && msg.magic != e.remoteMagic then return e
  let e := e.noteReceived now
  match msg.body with
  | .syncRequest r => return e.queueMessage now (.syncReply r)
  | .syncReply r => return e.onSyncReply now msg.magic r
  | .input st dr sf af bytes => return e.onInput now st dr sf af bytes
  | .inputAck af => return e.popPendingOutput af
  | .qualityReport adv ping =>
    return ({ e with remoteFrameAdvantage := adv }).queueMessage now (.qualityReply ping)
  | .qualityReply pong => return { e with roundTripTime := now / 1000 - pong, roundTripTimeMeasured := true }
  | .checksumReport cs f => e.onChecksumReport cs f
  | .keepAlive => return e

def sendChecksumReport (e : Endpoint) (now : Nat) (frame : Frame) (checksum : Nat) : Endpoint :=
  e.queueMessage now (.checksumReport checksum frame)

end Endpoint
end Ggrs
