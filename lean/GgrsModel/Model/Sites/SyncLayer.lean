/- Site inventory of one source file; see Model/SiteInventory.lean. -/
import GgrsModel.Generated.Sites

namespace Ggrs.Rust.Sites

theorem inv_sync_layer : sync_layer =
  [("save", 1), ("data", 0), ("frame", 0), ("checksum", 0), ("load", 0), ("default", 0), ("clone", 0), ("fmt", 0),
   ("deref", 0), ("as_mut_dangerous", 0), ("new", 0), ("get_cell", 1), ("new", 0), ("current_frame", 0),
   ("advance_frame", 0), ("save_current_state", 0), ("set_frame_delay", 1), ("reset_prediction", 0),
   ("load_frame", 4), ("add_local_input", 1), ("add_remote_input", 0), ("synchronized_inputs", 0),
   ("confirmed_inputs", 0), ("set_last_confirmed_frame", 1), ("check_simulation_consistency", 0),
   ("saved_state_by_frame", 0), ("latest_saved_state_in_range", 0), ("last_saved_frame", 0),
   ("last_confirmed_frame", 0)] := by decide

end Ggrs.Rust.Sites
