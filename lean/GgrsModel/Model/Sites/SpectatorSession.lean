/- Site inventory of one source file; see Model/SiteInventory.lean. -/
import GgrsModel.Generated.Sites

namespace Ggrs.Rust.Sites

theorem inv_spectator_session : spectator_session =
  [("new", 0), ("current_state", 0), ("frames_behind_host", 1), ("network_stats", 0), ("events", 0),
   ("advance_frame", 0), ("poll_remote_clients", 0), ("current_frame", 0), ("num_players", 0),
   ("inputs_at_frame", 0), ("handle_event", 1)] := by decide

end Ggrs.Rust.Sites
