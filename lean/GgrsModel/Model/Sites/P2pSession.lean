/- Site inventory of one source file; see Model/SiteInventory.lean. -/
import GgrsModel.Generated.Sites

namespace Ggrs.Rust.Sites

theorem inv_p2p_session : p2p_session =
  [("fmt", 0), ("new", 0), ("local_player_handles", 0), ("remote_player_handles", 0), ("spectator_handles", 0),
   ("num_players", 0), ("num_spectators", 0), ("handles_by_address", 0), ("new", 0), ("add_local_input", 0),
   ("advance_frame", 0), ("advance_frame_with_wait", 0), ("advance_frame_with_wait_timeout", 0),
   ("advance_frame_after_poll", 0), ("poll_remote_clients", 0), ("disconnect_player", 0), ("set_input_delay", 0),
   ("network_stats", 2), ("confirmed_frame", 1), ("lockstep_current_frame_confirmed", 0),
   ("yield_lockstep_wait", 0), ("current_frame", 0), ("max_prediction", 0), ("in_lockstep_mode", 0),
   ("current_state", 0), ("events", 0), ("num_players", 0), ("num_spectators", 0), ("register_local_inputs", 1),
   ("queue_outgoing_local_input", 1), ("send_ready_outgoing_inputs_to_remotes", 1),
   ("next_complete_outgoing_input_frame", 0), ("local_player_handles", 0), ("remote_player_handles", 0),
   ("spectator_handles", 0), ("handles_by_address", 0), ("frames_ahead", 0), ("desync_detection", 0),
   ("disconnect_player_at_frame", 3), ("check_initial_sync", 0), ("advance_lockstep_frame", 1),
   ("advance_rollback_frame", 0), ("handle_rollback_and_save", 0), ("adjust_gamestate", 3),
   ("send_confirmed_inputs_to_spectators", 2), ("update_player_disconnects", 0), ("max_frame_advantage", 0),
   ("check_wait_recommendation", 1), ("check_last_saved_state", 1), ("handle_event", 2),
   ("compare_local_checksums_against_peers", 0), ("check_checksum_send_interval", 0)] := by decide

end Ggrs.Rust.Sites
