/- Site inventory of one source file; see Model/SiteInventory.lean. -/
import GgrsModel.Generated.Sites

namespace Ggrs.Rust.Sites

theorem inv_input_queue : input_queue =
  [("prev_pos", 0), ("new", 0), ("first_incorrect_frame", 0), ("set_frame_delay", 0), ("reset_prediction", 0),
   ("confirmed_input", 1), ("discard_confirmed_frames", 0), ("input", 4), ("add_input", 0),
   ("add_input_by_frame", 4), ("advance_queue_head", 1)] := by decide

end Ggrs.Rust.Sites
