/- Site inventory of one source file; see Model/SiteInventory.lean. -/
import GgrsModel.Generated.Sites

namespace Ggrs.Rust.Sites

theorem inv_compression : compression =
  [("encode", 0), ("delta_encode", 0), ("decode", 0), ("rle_decode", 0), ("delta_decode", 0)] := by decide

end Ggrs.Rust.Sites
