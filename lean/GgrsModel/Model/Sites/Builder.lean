/- Site inventory of one source file; see Model/SiteInventory.lean. -/
import GgrsModel.Generated.Sites

namespace Ggrs.Rust.Sites

theorem inv_builder : builder =
  [("default", 0), ("new", 0), ("add_player", 0), ("validate_player_handle", 0), ("with_max_prediction_window", 0),
   ("with_input_delay", 0), ("with_num_players", 0), ("with_sparse_saving_mode", 0),
   ("with_desync_detection_mode", 0), ("with_disconnect_timeout", 0), ("with_disconnect_notify_delay", 0),
   ("with_fps", 0), ("with_check_distance", 0), ("with_max_frames_behind", 0), ("with_catchup_speed", 0),
   ("start_p2p_session", 0), ("start_spectator_session", 0), ("start_synctest_session", 0), ("create_endpoint", 0)] := by decide

end Ggrs.Rust.Sites
