/- Site inventory of one source file; see Model/SiteInventory.lean. -/
import GgrsModel.Generated.Sites

namespace Ggrs.Rust.Sites

theorem inv_sync_test_session : sync_test_session =
  [("new", 0), ("add_local_input", 0), ("advance_frame", 0), ("current_frame", 0), ("num_players", 0),
   ("max_prediction", 0), ("check_distance", 0), ("checksums_consistent", 0), ("adjust_gamestate", 2)] := by decide

end Ggrs.Rust.Sites
