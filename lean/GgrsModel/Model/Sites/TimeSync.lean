/- Site inventory of one source file; see Model/SiteInventory.lean. -/
import GgrsModel.Generated.Sites

namespace Ggrs.Rust.Sites

theorem inv_time_sync : time_sync =
  [("default", 0), ("new", 0), ("advance_frame", 0), ("average_frame_advantage", 0)] := by decide

end Ggrs.Rust.Sites
