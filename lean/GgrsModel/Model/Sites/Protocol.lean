/- Site inventory of one source file; see Model/SiteInventory.lean. -/
import GgrsModel.Generated.Sites

namespace Ggrs.Rust.Sites

theorem inv_protocol : protocol =
  [("millis_since_epoch", 1), ("zeroed", 1), ("from_inputs", 2), ("to_player_inputs", 0), ("eq", 0), ("new", 0),
   ("update_local_frame_advantage", 0), ("network_stats", 0), ("handles", 0), ("is_synchronized", 0),
   ("is_running", 0), ("is_handling_message", 0), ("peer_connect_status", 0), ("disconnect", 0),
   ("synchronize", 1), ("average_frame_advantage", 0), ("peer_addr", 0), ("poll", 0), ("pop_pending_output", 1),
   ("send_all_messages", 0), ("send_input", 0), ("send_pending_output", 1), ("send_input_ack", 0),
   ("send_keep_alive", 0), ("send_sync_request", 0), ("send_quality_report", 1), ("queue_message", 0),
   ("handle_message", 0), ("on_sync_request", 0), ("on_sync_reply", 0), ("on_input", 0), ("on_input_ack", 0),
   ("on_quality_report", 0), ("on_quality_reply", 0), ("on_checksum_report", 1), ("last_recv_frame", 0),
   ("send_checksum_report", 0)] := by decide

end Ggrs.Rust.Sites
