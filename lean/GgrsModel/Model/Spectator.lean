/-
Model of src/sessions/p2p_spectator_session.rs (`SpectatorSession`).
-/
import GgrsModel.Model.P2P

namespace Ggrs

structure Spectator where
  running : Bool := false
  numPlayers : Nat
  /-- ring of SPECTATOR_BUFFER_SIZE frames, each a vector of `numPlayers` inputs -/
  inputs : List (List PlayerInput)
  hostConnectStatus : List ConnStatus
  host : Endpoint
  eventQueue : List Event := []
  currentFrame : Frame := NULL_FRAME
  lastRecvFrame : Frame := NULL_FRAME
  maxFramesBehind : Nat
  catchupSpeed : Nat
  outbox : List (Nat × Msg) := []
  deriving Repr, Inhabited

namespace Spectator

def new (numPlayers : Nat) (host : Endpoint) (maxFramesBehind catchupSpeed : Nat) : Spectator :=
  { numPlayers,
    inputs := List.replicate SPECTATOR_BUFFER_SIZE (List.replicate numPlayers (PlayerInput.blank NULL_FRAME)),
    hostConnectStatus := List.replicate numPlayers {},
    host, maxFramesBehind, catchupSpeed }

def framesBehindHost (s : Spectator) : M Nat := do
  let diff := s.lastRecvFrame - s.currentFrame
  ensure (diff ≥ 0) "frames_behind_host: negative"
  return diff.toNat

def trimEvents (s : Spectator) : Spectator :=
  { s with eventQueue := s.eventQueue.drop (s.eventQueue.length - MAX_EVENT_QUEUE_SIZE) }

def handleEventCore (s : Spectator) (now : Nat) (ev : ProtoEvent) (addr : Nat) : M Spectator :=
  match ev with
    | .synchronizing total count => pure { s with eventQueue := s.eventQueue ++ [.synchronizing addr total count] }
    | .networkInterrupted t => pure { s with eventQueue := s.eventQueue ++ [.networkInterrupted addr t] }
    | .networkResumed => pure { s with eventQueue := s.eventQueue ++ [.networkResumed addr] }
    | .synchronized => pure { s with running := true, eventQueue := s.eventQueue ++ [.synchronized addr] }
    | .disconnected => pure { s with host := s.host.disconnect now, eventQueue := s.eventQueue ++ [.disconnected addr] }
    | .input inp player => do
      let slot := frameIdx inp.frame SPECTATOR_BUFFER_SIZE
      ensure (player < s.numPlayers) "spectator handle_event: player index out of bounds"
      let s := { s with inputs := rset s.inputs slot (rset (rget s.inputs slot) player inp) }
      ensure (inp.frame ≥ s.lastRecvFrame) "spectator handle_event: input older than last received"
      let s := { s with lastRecvFrame := inp.frame }
      let host ← s.host.updateLocalFrameAdvantage inp.frame
      let s := { s with host }
      pure { s with hostConnectStatus := (List.range s.numPlayers).map fun i => rget s.host.peerConnectStatus i }

def handleEvent (s : Spectator) (now : Nat) (ev : ProtoEvent) (addr : Nat) : M Spectator := do
  let s ← s.handleEventCore now ev addr
  return s.trimEvents

def pollRemoteClients (s : Spectator) (now : Nat) (received : List (Nat × Msg)) : M Spectator := do
  let host ← received.foldlM (fun h (from_, msg) =>
    if from_ == h.peerAddr then h.handleMessage now msg else pure h) s.host
  let (host, evs) ← host.poll now s.hostConnectStatus
  let s := { s with host }
  let s ← evs.foldlM (fun s ev => s.handleEvent now ev s.host.peerAddr) s
  let (host, msgs) := s.host.sendAllMessages
  return { s with host, outbox := s.outbox ++ msgs.map fun m => (host.peerAddr, m) }

def inputsAtFrame (s : Spectator) (frameToGrab : Frame) : M (Except GgrsError (List (Input × InputStatus))) := do
  let playerInputs := rget s.inputs (frameIdx frameToGrab SPECTATOR_BUFFER_SIZE)
  ensure (playerInputs.length > 0) "inputs_at_frame: index 0 out of bounds"
  let f0 := (rget playerInputs 0).frame
  if f0 < frameToGrab then return .error .predictionThreshold
  if f0 > frameToGrab then return .error .spectatorTooFarBehind
  return .ok (playerInputs.zipIdx.map fun (pi, h) =>
    let cs := rget s.hostConnectStatus h
    (pi.input, if cs.disconnected && cs.lastFrame < frameToGrab then .disconnected else .confirmed))

/-- `advance_frame` after the poll: how many frames to hand out, then the loop. -/
def advanceAfterPoll (s : Spectator) : M (Spectator × Except GgrsError (List Request)) := do
  if !s.running then return (s, .error .notSynchronized)
  let behind ← s.framesBehindHost
  let toAdvance := if behind > s.maxFramesBehind then
      min (min s.catchupSpeed behind) (SPECTATOR_BUFFER_SIZE - 1)
    else NORMAL_SPEED
  let rec loop : Nat → Spectator → List Request → M (Spectator × Except GgrsError (List Request))
    | 0, s, reqs => .ok (s, .ok reqs)
    | n + 1, s, reqs => do
      match ← s.inputsAtFrame (s.currentFrame + 1) with
      | .error e => return (s, .error e)
      | .ok inputs => loop n { s with currentFrame := s.currentFrame + 1 } (reqs ++ [.advance inputs])
  loop toAdvance s []

def advanceFrame (s : Spectator) (now : Nat) (received : List (Nat × Msg)) :
    M (Spectator × Except GgrsError (List Request)) := do
  let s ← s.pollRemoteClients now received
  s.advanceAfterPoll

def events (s : Spectator) : Spectator × List Event := ({ s with eventQueue := [] }, s.eventQueue)

end Spectator
end Ggrs
