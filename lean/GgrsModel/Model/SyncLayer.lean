/-
Model of src/sync_layer.rs (SyncLayer, SavedStates, GameStateCell as (frame, checksum)) and
src/time_sync.rs.
-/
import GgrsModel.Model.InputQueue

namespace Ggrs

/-- `GgrsRequest`. The cell of a save/load is `frame % (max_prediction + 1)`. -/
inductive Request where
  | save (frame : Frame)
  | load (frame : Frame)
  | advance (inputs : List (Input × InputStatus))
  deriving Repr, DecidableEq, Inhabited

/-- What the library can see of a `GameStateCell`: the frame and checksum the user saved. -/
structure Cell where
  frame : Frame := NULL_FRAME
  checksum : Option Nat := none
  deriving Repr, DecidableEq, Inhabited

structure SyncLayer where
  numPlayers : Nat
  maxPrediction : Nat
  cells : List Cell
  lastConfirmedFrame : Frame := NULL_FRAME
  lastSavedFrame : Frame := NULL_FRAME
  currentFrame : Frame := 0
  queues : List InputQueue
  deriving Repr, Inhabited

namespace SyncLayer

def new (numPlayers maxPrediction : Nat) : SyncLayer :=
  { numPlayers, maxPrediction,
    cells := List.replicate (maxPrediction + 1) {},
    queues := List.replicate numPlayers InputQueue.new }

/-- `SavedStates::get_cell`: position of the cell for `frame` (asserts `frame >= 0`). -/
def cellPos (s : SyncLayer) (frame : Frame) : M Nat := do
  ensure (frame ≥ 0) "get_cell: negative frame"
  return frameIdx frame s.cells.length

def advanceFrame (s : SyncLayer) : SyncLayer := { s with currentFrame := s.currentFrame + 1 }

def saveCurrentState (s : SyncLayer) : M (SyncLayer × Request) := do
  let s := { s with lastSavedFrame := s.currentFrame }
  let _ ← s.cellPos s.currentFrame
  return (s, .save s.currentFrame)

/-- The user fulfils a `SaveGameState` request: `cell.save(frame, data, checksum)`. -/
def userSave (s : SyncLayer) (frame : Frame) (checksum : Option Nat) : SyncLayer :=
  { s with cells := rset s.cells (frameIdx frame s.cells.length) ⟨frame, checksum⟩ }

def setFrameDelay (s : SyncLayer) (handle : Nat) (delay : Nat) : M (SyncLayer × List PlayerInput) := do
  ensure (handle < s.numPlayers) "set_frame_delay: handle out of range"
  let (q, fills) ← (rget s.queues handle).setFrameDelay delay
  return ({ s with queues := rset s.queues handle q }, fills)

def resetPrediction (s : SyncLayer) : SyncLayer :=
  { s with queues := s.queues.map InputQueue.resetPrediction }

def loadFrame (s : SyncLayer) (frameToLoad : Frame) : M (SyncLayer × Request) := do
  ensure (frameToLoad != NULL_FRAME) "load_frame: cannot load null frame"
  ensure (frameToLoad < s.currentFrame) "load_frame: must load frame in the past"
  ensure (frameToLoad ≥ s.currentFrame - s.maxPrediction) "load_frame: cannot load frame outside of prediction window"
  let pos ← s.cellPos frameToLoad
  ensure ((rget s.cells pos).frame == frameToLoad) "load_frame: cell holds another frame"
  return ({ s with currentFrame := frameToLoad }, .load frameToLoad)

def addLocalInput (s : SyncLayer) (handle : Nat) (inp : PlayerInput) : M (SyncLayer × Frame) := do
  ensure (inp.frame == s.currentFrame) "add_local_input: input frame != current frame"
  ensure (handle < s.queues.length) "add_local_input: handle out of range"
  let (q, f) ← (rget s.queues handle).addInput inp
  return ({ s with queues := rset s.queues handle q }, f)

def addRemoteInput (s : SyncLayer) (handle : Nat) (inp : PlayerInput) : M SyncLayer := do
  ensure (handle < s.queues.length) "add_remote_input: handle out of range"
  let (q, _) ← (rget s.queues handle).addInput inp
  return { s with queues := rset s.queues handle q }

/-- `synchronized_inputs`: loops over `connect_status` in handle order. -/
def synchronizedInputsLoop (pred : Predictor) (cur : Frame) :
    List ConnStatus → Nat → List InputQueue → List (Input × InputStatus) →
    M (List InputQueue × List (Input × InputStatus))
  | [], _, qs, acc => .ok (qs, acc.reverse)
  | cs :: rest, i, qs, acc =>
    if cs.disconnected && cs.lastFrame < cur then
      synchronizedInputsLoop pred cur rest (i + 1) qs ((0, .disconnected) :: acc)
    else do
      ensure (i < qs.length) "synchronized_inputs: handle out of range"
      let (q, v, st) ← (rget qs i).input pred cur
      synchronizedInputsLoop pred cur rest (i + 1) (rset qs i q) ((v, st) :: acc)

def synchronizedInputs (pred : Predictor) (s : SyncLayer) (status : List ConnStatus) :
    M (SyncLayer × List (Input × InputStatus)) := do
  let (qs, inputs) ← synchronizedInputsLoop pred s.currentFrame status 0 s.queues []
  return ({ s with queues := qs }, inputs)

def confirmedInputsLoop (frame : Frame) (qs : List InputQueue) :
    List ConnStatus → Nat → List PlayerInput → M (List PlayerInput)
  | [], _, acc => .ok acc.reverse
  | cs :: rest, i, acc =>
    if cs.disconnected && cs.lastFrame < frame then
      confirmedInputsLoop frame qs rest (i + 1) (PlayerInput.blank NULL_FRAME :: acc)
    else do
      ensure (i < qs.length) "confirmed_inputs: handle out of range"
      let pi ← (rget qs i).confirmedInput frame
      confirmedInputsLoop frame qs rest (i + 1) (pi :: acc)

def confirmedInputs (s : SyncLayer) (frame : Frame) (status : List ConnStatus) : M (List PlayerInput) :=
  confirmedInputsLoop frame s.queues status 0 []

def setLastConfirmedFrame (s : SyncLayer) (frame : Frame) (sparse : Bool) : M SyncLayer := do
  let firstIncorrect := s.queues.foldl (fun a q => max a q.firstIncorrectFrame) NULL_FRAME
  let frame := if sparse then min frame s.lastSavedFrame else frame
  let frame := min frame s.currentFrame
  ensure (firstIncorrect == NULL_FRAME || firstIncorrect ≥ frame)
    "set_last_confirmed_frame: confirming beyond the first incorrect frame"
  let s := { s with lastConfirmedFrame := frame }
  if frame > 0 then
    let qs ← s.queues.mapM (fun q => q.discardConfirmedFrames (frame - 1))
    return { s with queues := qs }
  else
    return s

def checkSimulationConsistency (s : SyncLayer) (firstIncorrect : Frame) : Frame :=
  s.queues.foldl (fun fi q =>
    let inc := q.firstIncorrectFrame
    if inc != NULL_FRAME && (fi == NULL_FRAME || inc < fi) then inc else fi) firstIncorrect

/-- `saved_state_by_frame`: the cell if it holds `frame`. -/
def savedStateByFrame (s : SyncLayer) (frame : Frame) : M (Option Cell) := do
  let pos ← s.cellPos frame
  let c := rget s.cells pos
  return if c.frame == frame then some c else none

/-- `latest_saved_state_in_range` (inclusive). `max_by_key` returns the last maximum. -/
def latestSavedStateInRange (s : SyncLayer) (start stop : Frame) : Option Cell :=
  if start > stop then none else
  s.cells.foldl (fun best c =>
    if c.frame ≥ start && c.frame ≤ stop then
      match best with
      | none => some c
      | some b => if c.frame ≥ b.frame then some c else some b
    else best) none

end SyncLayer

/-! ### time_sync.rs -/

structure TimeSync where
  localAdv : List Int := List.replicate FRAME_WINDOW_SIZE 0
  remoteAdv : List Int := List.replicate FRAME_WINDOW_SIZE 0
  deriving Repr

namespace TimeSync

def advanceFrame (t : TimeSync) (frame : Frame) (l r : Int) : TimeSync :=
  { localAdv := rset t.localAdv (frameIdx frame t.localAdv.length) l,
    remoteAdv := rset t.remoteAdv (frameIdx frame t.remoteAdv.length) r }

def isum (l : List Int) : Int := l.foldl (· + ·) 0

/-- `average_frame_advantage`, computed in `f32` exactly as the Rust code does. -/
def averageFrameAdvantage (t : TimeSync) : Int :=
  let localAvg := Float32.ofInt (isum t.localAdv) / Float32.ofNat t.localAdv.length
  let remoteAvg := Float32.ofInt (isum t.remoteAdv) / Float32.ofNat t.remoteAdv.length
  ((remoteAvg - localAvg) / 2.0).toInt32.toInt

/-- Exact rational specification of the same quantity: `trunc((Σremote − Σlocal) / (2·n))`. -/
def averageSpec (t : TimeSync) : Int :=
  Int.tdiv (isum t.remoteAdv - isum t.localAdv) (2 * t.localAdv.length)

end TimeSync
end Ggrs
