/-
The inventory of the modelled CODE (companion of `Model/Inventory.lean`, which is about the state):
for every source file the model stands for, the functions it defines and, per function, the number
of explicit panic sites (`assert!`, `debug_assert!`, `panic!`, `.expect(`, `.unwrap()` …), as they
were when the model was written, checked against `Generated/Sites.lean` (regenerated from /repo's
current source on every check run by `tools/extract_sites.py`). Every function listed has a
counterpart in `Model/` — same name in camelCase, or pulled apart into named phases (DESIGN §5, §12.4) —
or is outside the model by the list in DESIGN §3 (`advance_frame_with_wait*`, `fmt`, `Deref`, trivial
accessors); every explicit check is an `ensure` / `.error` of the model's `M` monad with the same
condition. A function added, removed or renamed, or a check added or removed, makes this file fail
to compile: the model may no longer say what the code says, and every check reports the broken tie
(a harmless refactoring does that too; the check then looks for a failing input and reports
`no-failing-input-found` if there is none).

One module per source file (`Model/Sites/*.lean`); a property module imports the inventories of the
files its property is anchored in, so a change to `builder.rs` does not break the tie of the codec's
property. This module imports them all.
-/
import GgrsModel.Model.Sites.InputQueue
import GgrsModel.Model.Sites.SyncLayer
import GgrsModel.Model.Sites.TimeSync
import GgrsModel.Model.Sites.Compression
import GgrsModel.Model.Sites.Protocol
import GgrsModel.Model.Sites.P2pSession
import GgrsModel.Model.Sites.SpectatorSession
import GgrsModel.Model.Sites.SyncTestSession
import GgrsModel.Model.Sites.Builder
