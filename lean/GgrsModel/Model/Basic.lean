/-
Basic vocabulary of the ggrs model: frames, inputs, statuses, ring helpers, the panic monad.
Core Lean only.
-/
import GgrsModel.Generated.Consts

namespace Ggrs

/-- Frames are `Int` (an `i32` in Rust; overflow is outside the model). A notation rather than an
abbreviation, so that `omega` sees plain `Int` terms. -/
notation "Frame" => Int
/-- `NULL_FRAME` (lib.rs) -/
def NULL_FRAME : Frame := -1

/-- The harness instantiates `Config::Input = u8`. -/
abbrev Input := UInt8

/-- frame_info.rs `PlayerInput<I>` -/
structure PlayerInput where
  frame : Frame
  input : Input
  deriving Repr, DecidableEq, Inhabited

def PlayerInput.blank (f : Frame) : PlayerInput := ⟨f, 0⟩

inductive InputStatus where
  | confirmed | predicted | disconnected
  deriving Repr, DecidableEq, Inhabited

/-- network/messages.rs `ConnectionStatus` -/
structure ConnStatus where
  disconnected : Bool := false
  lastFrame : Frame := -1
  deriving Repr, DecidableEq, Inhabited

/-- The two shipped predictors. -/
inductive Predictor where
  | repeatLast | default
  deriving Repr, DecidableEq, Inhabited

def Predictor.predict : Predictor → Input → Input
  | .repeatLast, x => x
  | .default, _ => 0

/-- A Rust panic (`assert!`, `expect`, index, overflow check) is an outcome of the model. -/
abbrev M := Except String

def ensure (c : Bool) (site : String) : M Unit := if c then .ok () else .error site

/-- `x as usize` for an `i32` frame on a 64-bit target (sign extension). -/
def usizeOfFrame (f : Frame) : Nat := if f ≥ 0 then f.toNat else (2 ^ 64 + f).toNat

/-- `x as usize % n`. -/
def frameIdx (f : Frame) (n : Nat) : Nat := usizeOfFrame f % n

/-! Rings are lists of fixed length with total get/set. -/
def rget {α} [Inhabited α] (r : List α) (i : Nat) : α := r.getD i default
def rset {α} (r : List α) (i : Nat) (v : α) : List α := r.set i v

/-- Sorted association lists stand in for `HashMap`/`BTreeMap`. -/
def alookup {β} (k : Int) : List (Int × β) → Option β
  | [] => none
  | (k', v) :: rest => if k' == k then some v else alookup k rest

def ainsert {β} (k : Int) (v : β) : List (Int × β) → List (Int × β)
  | [] => [(k, v)]
  | (k', v') :: rest =>
    if k < k' then (k, v) :: (k', v') :: rest
    else if k == k' then (k, v) :: rest
    else (k', v') :: ainsert k v rest

def aerase {β} (k : Int) (l : List (Int × β)) : List (Int × β) := l.filter (fun p => p.1 != k)

end Ggrs
