/-
Model of src/input_queue.rs: one `InputQueue` per player, a ring of INPUT_QUEUE_LENGTH inputs.
One Lean function per Rust function, same order of effects; every assert / checked arithmetic
is an explicit `.error site`.
-/
import GgrsModel.Model.Basic

namespace Ggrs

structure InputQueue where
  head : Nat := 0
  tail : Nat := 0
  length : Nat := 0
  firstFrame : Bool := true
  lastAddedFrame : Frame := NULL_FRAME
  lastUserFrame : Frame := NULL_FRAME
  firstIncorrectFrame : Frame := NULL_FRAME
  lastRequestedFrame : Frame := NULL_FRAME
  frameDelay : Nat := 0
  inputs : List PlayerInput := List.replicate INPUT_QUEUE_LENGTH (PlayerInput.blank NULL_FRAME)
  prediction : PlayerInput := PlayerInput.blank NULL_FRAME
  deriving Repr

instance : Inhabited InputQueue := ⟨{}⟩

namespace InputQueue

def prevPos (head : Nat) : Nat := if head == 0 then INPUT_QUEUE_LENGTH - 1 else head - 1

def new : InputQueue := {}

def resetPrediction (q : InputQueue) : InputQueue :=
  { q with prediction := { q.prediction with frame := NULL_FRAME },
           firstIncorrectFrame := NULL_FRAME, lastRequestedFrame := NULL_FRAME }

def confirmedInput (q : InputQueue) (requested : Frame) : M PlayerInput :=
  let offset := frameIdx requested INPUT_QUEUE_LENGTH
  if (rget q.inputs offset).frame == requested then .ok (rget q.inputs offset)
  else .error "confirmed_input: no confirmed input for the requested frame"

def discardConfirmedFrames (q : InputQueue) (frame : Frame) : M InputQueue :=
  let frame := if q.lastRequestedFrame != NULL_FRAME then min frame q.lastRequestedFrame else frame
  if frame ≥ q.lastAddedFrame then
    .ok { q with tail := q.head, length := 1 }
  else if frame ≤ (rget q.inputs q.tail).frame then
    .ok q
  else
    let offset := (frame - (rget q.inputs q.tail).frame).toNat
    if offset > q.length then .error "discard_confirmed_frames: length underflow"
    else .ok { q with tail := (q.tail + offset) % INPUT_QUEUE_LENGTH, length := q.length - offset }

/-- `input`: confirmed input if present, otherwise the (sticky) prediction. -/
def input (pred : Predictor) (q : InputQueue) (requested : Frame) : M (InputQueue × Input × InputStatus) := do
  ensure (q.firstIncorrectFrame == NULL_FRAME) "input: first_incorrect_frame != NULL"
  let q := { q with lastRequestedFrame := requested }
  ensure (requested ≥ (rget q.inputs q.tail).frame) "input: requested frame before tail"
  if q.prediction.frame < 0 then
    let offset := (requested - (rget q.inputs q.tail).frame).toNat
    if offset < q.length then
      let pos := (offset + q.tail) % INPUT_QUEUE_LENGTH
      ensure ((rget q.inputs pos).frame == requested) "input: ring slot holds another frame"
      return (q, (rget q.inputs pos).input, .confirmed)
    else
      let previous : Option PlayerInput :=
        if requested == 0 || q.lastAddedFrame == NULL_FRAME then none
        else some (rget q.inputs (prevPos q.head))
      let predicted : Input := match previous with
        | some pi => pred.predict pi.input
        | none => 0
      let frameNum := match previous with
        | some pi => pi.frame
        | none => q.prediction.frame
      let q := { q with prediction := ⟨frameNum + 1, predicted⟩ }
      ensure (q.prediction.frame != NULL_FRAME) "input: prediction frame is NULL"
      return (q, q.prediction.input, .predicted)
  else
    ensure (q.prediction.frame != NULL_FRAME) "input: prediction frame is NULL"
    return (q, q.prediction.input, .predicted)

/-- `add_input_by_frame` -/
def addInputByFrame (q : InputQueue) (inp : PlayerInput) (frameNumber : Frame) : M InputQueue := do
  let previousPosition := prevPos q.head
  ensure (q.lastAddedFrame == NULL_FRAME || frameNumber == q.lastAddedFrame + 1)
    "add_input_by_frame: not sequential"
  ensure (frameNumber == 0 || (rget q.inputs previousPosition).frame == frameNumber - 1)
    "add_input_by_frame: previous slot mismatch"
  let q := { q with inputs := rset q.inputs q.head ⟨frameNumber, inp.input⟩,
                    head := (q.head + 1) % INPUT_QUEUE_LENGTH,
                    length := q.length + 1 }
  ensure (q.length ≤ INPUT_QUEUE_LENGTH) "add_input_by_frame: queue overflow"
  let q := { q with firstFrame := false, lastAddedFrame := frameNumber }
  if q.prediction.frame != NULL_FRAME then
    ensure (frameNumber == q.prediction.frame) "add_input_by_frame: prediction frame mismatch"
    let q := if q.firstIncorrectFrame == NULL_FRAME && q.prediction.input != inp.input
      then { q with firstIncorrectFrame := frameNumber } else q
    if q.prediction.frame == q.lastRequestedFrame && q.firstIncorrectFrame == NULL_FRAME then
      return { q with prediction := { q.prediction with frame := NULL_FRAME } }
    else
      return { q with prediction := { q.prediction with frame := q.prediction.frame + 1 } }
  else
    return q

/-- The fill loop of `set_frame_delay`: copies of the newest input until the next submission's
landing frame is adjacent. -/
def delayFillLoop (lastInput : PlayerInput) : Nat → InputQueue → List PlayerInput → M (InputQueue × List PlayerInput)
  | 0, q, fills => .ok (q, fills)
  | n + 1, q, fills => do
    let fillFrame := q.lastAddedFrame + 1
    let q ← addInputByFrame q lastInput fillFrame
    delayFillLoop lastInput n q (fills ++ [⟨fillFrame, lastInput.input⟩])

/-- `set_frame_delay`: sets the delay, closes the gap the new delay opens up in front of the next
submission and returns the fill inputs (the caller forwards them to remotes). -/
def setFrameDelay (q : InputQueue) (delay : Nat) : M (InputQueue × List PlayerInput) := do
  let q := { q with frameDelay := delay }
  if q.lastAddedFrame == NULL_FRAME then return (q, [])
  let nextFrame := q.lastUserFrame + 1 + delay
  let lastInput := rget q.inputs (prevPos q.head)
  delayFillLoop lastInput (nextFrame - (q.lastAddedFrame + 1)).toNat q []

/-- The fill loop of `advance_queue_head`: replicates the input found at the position computed
*before* the loop. -/
def fillLoop (toReplicate : PlayerInput) : Nat → InputQueue → Frame → M InputQueue
  | 0, q, _ => .ok q
  | n + 1, q, expected => do
    let q ← addInputByFrame q toReplicate expected
    fillLoop toReplicate n q (expected + 1)

/-- `advance_queue_head` -/
def advanceQueueHead (q : InputQueue) (inputFrame : Frame) : M (InputQueue × Frame) := do
  let previousPosition := prevPos q.head
  let expected : Frame := if q.firstFrame then 0 else (rget q.inputs previousPosition).frame + 1
  let inputFrame := inputFrame + q.frameDelay
  if expected > inputFrame then return (q, NULL_FRAME)
  let q ← fillLoop (rget q.inputs previousPosition) (inputFrame - expected).toNat q expected
  ensure (inputFrame == 0 || inputFrame == (rget q.inputs (prevPos q.head)).frame + 1)
    "advance_queue_head: head mismatch after fill"
  return (q, inputFrame)

/-- `add_input`: returns the frame the input landed on, or NULL_FRAME if it was dropped. -/
def addInput (q : InputQueue) (inp : PlayerInput) : M (InputQueue × Frame) := do
  if q.lastUserFrame != NULL_FRAME && inp.frame != q.lastUserFrame + 1 then
    return (q, NULL_FRAME)
  let q := { q with lastUserFrame := inp.frame }
  let (q, newFrame) ← advanceQueueHead q inp.frame
  if newFrame != NULL_FRAME then
    let q ← addInputByFrame q inp newFrame
    return (q, newFrame)
  else
    return (q, newFrame)

end InputQueue
end Ggrs
