/-
Model of src/sessions/sync_test_session.rs (`SyncTestSession`).
-/
import GgrsModel.Model.P2P

namespace Ggrs

structure SyncTest where
  numPlayers : Nat
  maxPrediction : Nat
  checkDistance : Nat
  sync : SyncLayer
  dummyConnectStatus : List ConnStatus
  checksumHistory : List (Int × Option Nat) := []
  localInputs : List (Nat × PlayerInput) := []
  pred : Predictor
  deriving Repr, Inhabited

namespace SyncTest

def new (numPlayers maxPrediction checkDistance inputDelay : Nat) (pred : Predictor) : M SyncTest := do
  let sync ← (List.range numPlayers).foldlM (fun sy i => do
    let (sy, _) ← sy.setFrameDelay i inputDelay; pure sy) (SyncLayer.new numPlayers maxPrediction)
  return { numPlayers, maxPrediction, checkDistance, sync,
           dummyConnectStatus := List.replicate numPlayers {}, pred }

def addLocalInput (s : SyncTest) (handle : Nat) (input : Input) : SyncTest × Except GgrsError Unit :=
  if handle ≥ s.numPlayers then (s, .error .invalidRequest)
  else
    let pi : PlayerInput := ⟨s.sync.currentFrame, input⟩
    ({ s with localInputs := (s.localInputs.filter (·.1 != handle)) ++ [(handle, pi)] }, .ok ())

/-- `checksums_consistent`: first sighting of a frame's checksum is recorded, later ones compared. -/
def checksumsConsistent (s : SyncTest) (frameToCheck : Frame) : M (SyncTest × Bool) := do
  let oldest := s.sync.currentFrame - s.checkDistance
  let s := { s with checksumHistory := s.checksumHistory.filter fun p => p.1 ≥ oldest }
  match ← s.sync.savedStateByFrame frameToCheck with
  | none => return (s, true)
  | some cell =>
    match alookup cell.frame s.checksumHistory with
    | some cs => return (s, cs == cell.checksum)
    | none => return ({ s with checksumHistory := ainsert cell.frame cell.checksum s.checksumHistory }, true)

def adjustGamestate (s : SyncTest) (frameTo : Frame) (reqs : List Request) : M (SyncTest × List Request) := do
  let start := s.sync.currentFrame
  let count := start - frameTo
  let (sync, r) ← s.sync.loadFrame frameTo
  let sync := sync.resetPrediction
  ensure (sync.currentFrame == frameTo) "synctest adjust_gamestate: not at frame_to"
  let rec loop : Nat → Nat → SyncLayer → List Request → M (SyncLayer × List Request)
    | 0, _, sync, reqs => .ok (sync, reqs)
    | n + 1, i, sync, reqs => do
      let (sync, inputs) ← sync.synchronizedInputs s.pred s.dummyConnectStatus
      let (sync, reqs) ← if i > 0 then do
          let (sync, r) ← sync.saveCurrentState; pure (sync, reqs ++ [r])
        else pure (sync, reqs)
      loop n (i + 1) sync.advanceFrame (reqs ++ [.advance inputs])
  let (sync, reqs) ← loop count.toNat 0 sync (reqs ++ [r])
  ensure (sync.currentFrame == start) "synctest adjust_gamestate: did not return to start"
  return ({ s with sync }, reqs)

def advanceFrame (s : SyncTest) : M (SyncTest × Except GgrsError (List Request)) := do
  let current := s.sync.currentFrame
  let mut s := s
  let mut reqs : List Request := []
  if s.checkDistance > 0 && current > s.checkDistance then
    let oldest := current - s.checkDistance
    let mut mismatched : List Frame := []
    for i in List.range (s.checkDistance + 1) do
      let f := oldest + i
      let (s', ok) ← s.checksumsConsistent f
      s := s'
      if !ok then mismatched := mismatched ++ [f]
    if !mismatched.isEmpty then
      return (s, .error (.mismatchedChecksum current mismatched))
    let (s', reqs') ← s.adjustGamestate (s.sync.currentFrame - s.checkDistance) reqs
    s := s'
    reqs := reqs'
  if s.numPlayers != s.localInputs.length then
    return (s, .error .invalidRequest)
  for (h, inp) in s.localInputs do
    let (sync, _) ← s.sync.addLocalInput h inp
    s := { s with sync }
  s := { s with localInputs := [] }
  if s.checkDistance > 0 then
    let (sync, r) ← s.sync.saveCurrentState
    s := { s with sync }
    reqs := reqs ++ [r]
  let (sync, inputs) ← s.sync.synchronizedInputs s.pred s.dummyConnectStatus
  reqs := reqs ++ [.advance inputs]
  let sync := sync.advanceFrame
  let safe := sync.currentFrame - s.checkDistance
  let sync ← sync.setLastConfirmedFrame safe false
  s := { s with sync,
                dummyConnectStatus := s.dummyConnectStatus.map fun c => { c with lastFrame := sync.currentFrame } }
  return (s, .ok reqs)

def userExecute (s : SyncTest) (saves : List (Frame × Option Nat)) : SyncTest :=
  { s with sync := saves.foldl (fun sy (f, c) => sy.userSave f c) s.sync }

end SyncTest
end Ggrs
