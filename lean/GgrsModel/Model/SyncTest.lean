/-
Model of src/sessions/sync_test_session.rs (`SyncTestSession`).
-/
import GgrsModel.Model.P2P

namespace Ggrs

structure SyncTest where
  numPlayers : Nat
  maxPrediction : Nat
  checkDistance : Nat
  sync : SyncLayer
  dummyConnectStatus : List ConnStatus
  checksumHistory : List (Int × Option Nat) := []
  localInputs : List (Nat × PlayerInput) := []
  pred : Predictor
  deriving Repr, Inhabited

namespace SyncTest

def new (numPlayers maxPrediction checkDistance inputDelay : Nat) (pred : Predictor) : M SyncTest := do
  let sync ← (List.range numPlayers).foldlM (fun sy i => do
    let (sy, _) ← sy.setFrameDelay i inputDelay; pure sy) (SyncLayer.new numPlayers maxPrediction)
  return { numPlayers, maxPrediction, checkDistance, sync,
           dummyConnectStatus := List.replicate numPlayers {}, pred }

def addLocalInput (s : SyncTest) (handle : Nat) (input : Input) : SyncTest × Except GgrsError Unit :=
  if handle ≥ s.numPlayers then (s, .error .invalidRequest)
  else
    let pi : PlayerInput := ⟨s.sync.currentFrame, input⟩
    ({ s with localInputs := (s.localInputs.filter (·.1 != handle)) ++ [(handle, pi)] }, .ok ())

/-- `checksums_consistent`: first sighting of a frame's checksum is recorded, later ones compared. -/
def checksumsConsistent (s : SyncTest) (frameToCheck : Frame) : M (SyncTest × Bool) := do
  let oldest := s.sync.currentFrame - s.checkDistance
  let s := { s with checksumHistory := s.checksumHistory.filter fun p => p.1 ≥ oldest }
  match ← s.sync.savedStateByFrame frameToCheck with
  | none => return (s, true)
  | some cell =>
    match alookup cell.frame s.checksumHistory with
    | some cs => return (s, cs == cell.checksum)
    | none => return ({ s with checksumHistory := ainsert cell.frame cell.checksum s.checksumHistory }, true)

/-- The save inside the re-simulation loop: every frame but the one just loaded. -/
def resimSave (i : Nat) (sync : SyncLayer) (reqs : List Request) : M (SyncLayer × List Request) :=
  if i > 0 then do
    let (sync, r) ← sync.saveCurrentState; pure (sync, reqs ++ [r])
  else pure (sync, reqs)

def adjustGamestate (s : SyncTest) (frameTo : Frame) (reqs : List Request) : M (SyncTest × List Request) := do
  let start := s.sync.currentFrame
  let count := start - frameTo
  let (sync, r) ← s.sync.loadFrame frameTo
  let sync := sync.resetPrediction
  ensure (sync.currentFrame == frameTo) "synctest adjust_gamestate: not at frame_to"
  let rec loop : Nat → Nat → SyncLayer → List Request → M (SyncLayer × List Request)
    | 0, _, sync, reqs => .ok (sync, reqs)
    | n + 1, i, sync, reqs => do
      let (sync, inputs) ← sync.synchronizedInputs s.pred s.dummyConnectStatus
      let (sync, reqs) ← resimSave i sync reqs
      loop n (i + 1) sync.advanceFrame (reqs ++ [.advance inputs])
  let (sync, reqs) ← loop count.toNat 0 sync (reqs ++ [r])
  ensure (sync.currentFrame == start) "synctest adjust_gamestate: did not return to start"
  return ({ s with sync }, reqs)

/-- The comparison loop over the frames `oldest .. oldest + n - 1` (each call may prune and extend
the history). -/
def checkFrames (oldest : Frame) : Nat → Nat → SyncTest → List Frame → M (SyncTest × List Frame)
  | 0, _, s, mismatched => .ok (s, mismatched)
  | n + 1, i, s, mismatched => do
    let f := oldest + i
    let (s', ok) ← s.checksumsConsistent f
    checkFrames oldest n (i + 1) s' (if !ok then mismatched ++ [f] else mismatched)

/-- First half of `advance_frame` once the session is warm: compare, then roll back. -/
def verifyAndRollback (s : SyncTest) (current : Frame) : M (SyncTest × Except GgrsError (List Request)) := do
  let oldest := current - s.checkDistance
  let (s, mismatched) ← checkFrames oldest (s.checkDistance + 1) 0 s []
  if !mismatched.isEmpty then
    return (s, .error (.mismatchedChecksum current mismatched))
  let (s, reqs) ← s.adjustGamestate (s.sync.currentFrame - s.checkDistance) []
  return (s, .ok reqs)

/-- All local inputs go into the sync layer, in handle order. -/
def addLocalInputs : List (Nat × PlayerInput) → SyncLayer → M SyncLayer
  | [], sync => .ok sync
  | (h, inp) :: rest, sync => do
    let (sync, _) ← sync.addLocalInput h inp
    addLocalInputs rest sync

/-- The save before the new frame (skipped when nothing is ever compared). -/
def saveBeforeAdvance (s : SyncTest) (reqs : List Request) : M (SyncTest × List Request) :=
  if s.checkDistance > 0 then do
    let (sync, r) ← s.sync.saveCurrentState
    pure ({ s with sync }, reqs ++ [r])
  else pure (s, reqs)

/-- Second half of `advance_frame`: register inputs, save, simulate the new frame, bookkeeping. -/
def finishFrame (s : SyncTest) (reqs : List Request) : M (SyncTest × Except GgrsError (List Request)) := do
  if s.numPlayers != s.localInputs.length then
    return (s, .error .invalidRequest)
  let sync ← addLocalInputs s.localInputs s.sync
  let s := { s with sync, localInputs := [] }
  let (s, reqs) ← s.saveBeforeAdvance reqs
  let (sync, inputs) ← s.sync.synchronizedInputs s.pred s.dummyConnectStatus
  let reqs := reqs ++ [.advance inputs]
  let sync := sync.advanceFrame
  let safe := sync.currentFrame - s.checkDistance
  let sync ← sync.setLastConfirmedFrame safe false
  return ({ s with sync,
                   dummyConnectStatus := s.dummyConnectStatus.map fun c => { c with lastFrame := sync.currentFrame } },
          .ok reqs)

def advanceFrame (s : SyncTest) : M (SyncTest × Except GgrsError (List Request)) := do
  let current := s.sync.currentFrame
  if s.checkDistance > 0 && current > s.checkDistance then
    let (s, r) ← s.verifyAndRollback current
    match r with
    | .error e => return (s, .error e)
    | .ok reqs => s.finishFrame reqs
  else s.finishFrame []

def userExecute (s : SyncTest) (saves : List (Frame × Option Nat)) : SyncTest :=
  { s with sync := saves.foldl (fun sy (f, c) => sy.userSave f c) s.sync }

end SyncTest
end Ggrs
