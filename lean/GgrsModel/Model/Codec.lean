/-
Model of the input codec: src/network/compression.rs (encode, delta_encode, decode, rle_decode,
delta_decode), the encoder of the `bitfield-rle` crate and `varinteger::encode`.
Core Lean only (this file is linked into the compiled driver).

Every Rust function has one Lean function of the same name. `Except CodecErr` models the
`Result`; the Rust decoder has no panicking operation left after the fix, the model therefore
has no panic outcome for `decode`.
-/
import GgrsModel.Generated.Consts

deriving instance DecidableEq for Except

namespace Ggrs.Codec

abbrev Bytes := List UInt8

inductive CodecErr where
  | truncatedRunHeader
  | runHeaderOverflows
  | tooLarge
  | truncatedLiteralRun
  | truncatedLengthPrefix
  | truncatedInputData
  /-- an operation of the Rust code that would panic (overflow-checked arithmetic, slice index) -/
  | panic (site : Nat)
  deriving Repr, DecidableEq, Inhabited

/-! ### varinteger::encode (LEB128, u64) -/

/-- `varinteger::encode`: 7 bits per byte, least significant first, high bit = continuation.
Fuel 10 suffices for every `u64`. -/
def varintEncodeFuel : Nat → Nat → Bytes
  | 0, _ => []
  | fuel + 1, v =>
    if v > 127 then UInt8.ofNat (v % 128 + 128) :: varintEncodeFuel fuel (v / 128)
    else [UInt8.ofNat v]

def varintEncode (v : Nat) : Bytes := varintEncodeFuel 10 v

/-! ### bitfield_rle::encode -/

structure RleEncState where
  enc : Bytes := []
  len : Nat := 0
  contiguous : Bool := false
  prevBits : UInt8 := 0
  noncontiguous : Bytes := []
  deriving Repr

/-- `write_contiguous`: header = len*4 + 1 (+2 for 0xFF runs). -/
def writeContiguous (enc : Bytes) (len : Nat) (prevBits : UInt8) : Bytes :=
  enc ++ varintEncode (len * 4 + 1 + (if prevBits == 255 then 2 else 0))

/-- `write_noncontiguous`: header = len*2, then the literal bytes. -/
def writeNoncontiguous (enc : Bytes) (bits : Bytes) : Bytes :=
  enc ++ varintEncode (bits.length * 2) ++ bits

/-- One iteration of the loop in `encode_with_offset` (offset = 0), `i` is the loop index. -/
def rleEncStep (st : RleEncState) (i : Nat) (byte : UInt8) : RleEncState :=
  if st.contiguous && byte == st.prevBits then
    { st with len := st.len + 1 }
  else
    let st1 : RleEncState :=
      if st.contiguous then { st with enc := writeContiguous st.enc st.len st.prevBits } else st
    if byte == 0 || byte == 255 then
      let st2 : RleEncState :=
        if !st1.contiguous && i > 0 then
          { st1 with enc := writeNoncontiguous st1.enc st1.noncontiguous, noncontiguous := [] }
        else st1
      { st2 with len := 1, prevBits := byte, contiguous := true }
    else if !st1.contiguous then
      { st1 with noncontiguous := st1.noncontiguous ++ [byte] }
    else
      { st1 with contiguous := false, noncontiguous := st1.noncontiguous ++ [byte] }

def rleEncLoop : RleEncState → Nat → Bytes → RleEncState
  | st, _, [] => st
  | st, i, b :: rest => rleEncLoop (rleEncStep st i b) (i + 1) rest

def rleEncFinish (st : RleEncState) : Bytes :=
  if st.contiguous then writeContiguous st.enc st.len st.prevBits
  else writeNoncontiguous st.enc st.noncontiguous

/-- `bitfield_rle::encode`. -/
def rleEncode (buf : Bytes) : Bytes := rleEncFinish (rleEncLoop {} 0 buf)

/-! ### delta_encode -/

/-- XOR `input` against `base` up to the shorter of the two, remainder of `input` as is. -/
def xorWithBase : Bytes → Bytes → Bytes
  | [], inp => inp
  | _, [] => []
  | b :: bs, x :: xs => (b ^^^ x) :: xorWithBase bs xs

/-- `(len as u16).to_le_bytes()`. -/
def u16le (n : Nat) : Bytes := [UInt8.ofNat (n % 256), UInt8.ofNat (n / 256 % 256)]

def deltaEncode : Bytes → List Bytes → Bytes
  | _, [] => []
  | base, inp :: rest => u16le inp.length ++ xorWithBase base inp ++ deltaEncode inp rest

/-- `compression::encode`. -/
def encode (reference : Bytes) (inputs : List Bytes) : Bytes :=
  rleEncode (deltaEncode reference inputs)

/-! ### rle_decode (the checked decoder in compression.rs) -/

/-- The varint header loop of `rle_decode`. Returns the header and the unread rest. -/
def readHeader : (shift : Nat) → (header : Nat) → Bytes → Except CodecErr (Nat × Bytes)
  | _, _, [] => .error .truncatedRunHeader
  | shift, header, byte :: rest =>
    let bits := (byte &&& 0x7F).toNat
    if shift > 63 || (shift == 63 && bits > 1) then .error .runHeaderOverflows
    else
      let header' := header + bits * 2 ^ shift
      -- `header += bits << shift` on a u64 (overflow-checked build)
      if header' ≥ 2 ^ 64 then .error (.panic 1) else
      if byte &&& 0x80 == 0 then .ok (header', rest)
      else readHeader (shift + 7) header' rest

/-- Splits off exactly `n` elements: `some (reversed prefix, rest)`, or `none` if the list is
shorter than `n`. One pass (the Rust code compares `len` with `data.len() - pos` and slices). -/
def takeExact : Nat → Bytes → Bytes → Option (Bytes × Bytes)
  | 0, l, acc => some (acc, l)
  | _ + 1, [], _ => none
  | n + 1, x :: xs, acc => takeExact n xs (x :: acc)

/-- The outer loop of `rle_decode`. `outRev` is the output so far, newest byte first; `room` is
`MAX_DECODED_BYTES - output.len()` (Proofs/Delta.lean, `rleDecodeLoop_room`: the subtraction
never underflows). Fuel = number of iterations, `data.length` always suffices because every
iteration consumes at least one byte. -/
def rleDecodeLoop : Nat → Bytes → Bytes → Nat → Except CodecErr Bytes
  | 0, _, outRev, _ => .ok outRev.reverse
  | fuel + 1, data, outRev, room =>
    if data.isEmpty then .ok outRev.reverse else
    match readHeader 0 0 data with
    | .error e => .error e
    | .ok (header, rest) =>
      if header % 2 == 1 then
        let len := header / 4
        if len > room then .error .tooLarge
        else
          let fill : UInt8 := if header / 2 % 2 == 0 then 0x00 else 0xFF
          rleDecodeLoop fuel rest (List.replicate len fill ++ outRev) (room - len)
      else
        let len := header / 2
        match takeExact len rest [] with
        | none => .error .truncatedLiteralRun
        | some (litRev, rest') =>
          if len > room then .error .tooLarge
          else rleDecodeLoop fuel rest' (litRev ++ outRev) (room - len)

def rleDecode (data : Bytes) : Except CodecErr Bytes :=
  rleDecodeLoop data.length data [] MAX_DECODED_BYTES

/-! ### delta_decode -/

/-- `decoded[i] ^= base[i]` over the common prefix. -/
def xorInPlace : Bytes → Bytes → Bytes
  | [], _ => []
  | d, [] => d
  | d :: ds, b :: bs => (d ^^^ b) :: xorInPlace ds bs

/-- `accRev` is the output so far, newest input first. -/
def deltaDecodeLoop : Nat → Bytes → Bytes → List Bytes → Except CodecErr (List Bytes)
  | 0, _, _, accRev => .ok accRev.reverse
  | fuel + 1, base, data, accRev =>
    match data with
    | [] => .ok accRev.reverse
    | [_] => .error .truncatedLengthPrefix
    | lo :: hi :: rest =>
      let len := lo.toNat + 256 * hi.toNat
      match takeExact len rest [] with
      | none => .error .truncatedInputData
      | some (encRev, rest') =>
        let decoded := xorInPlace encRev.reverse base
        deltaDecodeLoop fuel decoded rest' (decoded :: accRev)

def deltaDecode (reference : Bytes) (data : Bytes) : Except CodecErr (List Bytes) :=
  deltaDecodeLoop data.length reference data []

/-- `compression::decode`. -/
def decode (reference : Bytes) (data : Bytes) : Except CodecErr (List Bytes) :=
  match rleDecode data with
  | .error e => .error e
  | .ok buf => deltaDecode reference buf

end Ggrs.Codec
