import GgrsModel.Model.Codec
import GgrsModel.Driver.Util

namespace Ggrs.Driver
open Ggrs.Codec

def fnvByte (h : UInt64) (b : UInt8) : UInt64 := (h ^^^ b.toUInt64) * 1099511628211

/-- FNV-1a over the length-prefixed concatenation of the inputs. -/
def digestInputs (xs : List (List UInt8)) : UInt64 :=
  xs.foldl (fun h x =>
    let n := x.length
    let h := fnvByte (fnvByte h (UInt8.ofNat (n % 256))) (UInt8.ofNat (n / 256 % 256))
    x.foldl fnvByte h) 14695981039346656037

def hex64 (v : UInt64) : String :=
  String.ofList ((List.range 16).map fun i => hexChar ((v.toNat / 16 ^ (15 - i)) % 16))

/-- Small results are printed in full, large ones as count, byte total and digest. -/
def okLine (xs : List (List UInt8)) : String :=
  let n := xs.length
  let total := xs.foldl (fun a x => a + x.length) 0
  if n ≤ 32 && total ≤ 256 then s!"ok {toHexList xs}"
  else s!"ok# n={n} bytes={total} h={hex64 (digestInputs xs)}"

def errName : CodecErr → String
  | .panic s => s!"PANIC{s}"
  | _ => "err"

/-- One request line of the codec suite.
`enc REF INPUTS` → encoded hex; `dec REF DATA` → `ok INPUTS` | `err` | `PANICn`. -/
def codecLine (line : String) : String :=
  match words line with
  | ["enc", r, xs] =>
    match parseHex r, parseHexList xs with
    | some r, some xs => toHex (encode r xs)
    | _, _ => "bad-op"
  | ["dec", r, d] =>
    match parseHex r, parseHex d with
    | some r, some d =>
      match decode r d with
      | .ok xs => okLine xs
      | .error e => errName e
    | _, _ => "bad-op"
  | _ => "bad-op"

end Ggrs.Driver
