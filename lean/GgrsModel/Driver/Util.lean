/- Text helpers for the line protocol of the model driver (core Lean only). -/
namespace Ggrs.Driver

def hexDigit (c : Char) : Option Nat :=
  if '0' ≤ c && c ≤ '9' then some (c.toNat - '0'.toNat)
  else if 'a' ≤ c && c ≤ 'f' then some (c.toNat - 'a'.toNat + 10)
  else if 'A' ≤ c && c ≤ 'F' then some (c.toNat - 'A'.toNat + 10)
  else none

def parseHexAux : List Char → List UInt8 → Option (List UInt8)
  | [], acc => some acc.reverse
  | [_], _ => none
  | a :: b :: rest, acc =>
    match hexDigit a, hexDigit b with
    | some x, some y => parseHexAux rest (UInt8.ofNat (x * 16 + y) :: acc)
    | _, _ => none

/-- `-` is the empty byte string, otherwise an even number of hex digits. -/
def parseHex (s : String) : Option (List UInt8) :=
  if s == "-" then some [] else parseHexAux s.toList []

def hexChar (n : Nat) : Char :=
  if n < 10 then Char.ofNat ('0'.toNat + n) else Char.ofNat ('a'.toNat + n - 10)

def toHex (bs : List UInt8) : String :=
  if bs.isEmpty then "-" else
  String.ofList (bs.flatMap fun b => [hexChar (b.toNat / 16), hexChar (b.toNat % 16)])

/-- `_` is the empty list, otherwise comma separated hex strings. -/
def parseHexList (s : String) : Option (List (List UInt8)) :=
  if s == "_" then some [] else (s.splitOn ",").mapM parseHex

def toHexList (xs : List (List UInt8)) : String :=
  if xs.isEmpty then "_" else ",".intercalate (xs.map toHex)

def words (line : String) : List String :=
  (line.trimAscii.toString.splitOn " ").filter (· ≠ "")

end Ggrs.Driver
