/-
Parsed form of a trace (one scenario) for the monitors, plus the data every monitor derives from
it: per session the simulations it ran, per player the specification stream of true inputs.
-/
import GgrsModel.Driver.Text

namespace Ggrs.Driver
open Ggrs

structure CallRec where
  lineNo : Nat := 0
  sid : Nat := 0
  now : Nat := 0
  call : List String := []
  recv : List (Nat × Msg) := []
  sent : List (Nat × Msg) := []
  result : String := ""
  game : List String := []
  snap : List (String × String) := []
  deriving Inhabited

structure SessInfo where
  sid : Nat
  kind : String
  cfg : List (String × String)
  deriving Inhabited

def SessInfo.nat (s : SessInfo) (k : String) (d : Nat) : Nat := kvNat s.cfg k d

/-- `players=0:L,1:R2,2:S5` → (handle, kind char, addr) -/
def SessInfo.players (s : SessInfo) : List (Nat × Char × Nat) :=
  (((kvGet s.cfg "players").getD "").splitOn ",").filterMap fun p =>
    match p.splitOn ":" with
    | [h, t] => do
      let h ← h.toNat?
      let k := t.front
      pure (h, k, ((t.drop 1).toString.toNat?).getD 0)
    | _ => none

def SessInfo.localHandles (s : SessInfo) : List Nat :=
  if s.kind == "sync" then List.range (s.nat "np" 2)
  else s.players.filterMap fun (h, k, _) => if k == 'L' then some h else none

structure Scen where
  name : String := ""
  header : String := ""
  sessions : List SessInfo := []
  calls : Array CallRec := #[]
  netOps : List (Nat × List String) := []
  deriving Inhabited

/-! ### Parsing -/

structure ParseState where
  done : List Scen := []
  cur : Scen := {}
  started : Bool := false
  block : Option CallRec := none

def ParseState.flushBlock (p : ParseState) : ParseState :=
  match p.block with
  | none => p
  | some b => { p with block := none, cur := { p.cur with calls := p.cur.calls.push b } }

def ParseState.flushScen (p : ParseState) : ParseState :=
  let p := p.flushBlock
  if p.started then { p with done := p.cur :: p.done, cur := {}, started := false } else p

def parseLine (p : ParseState) (lineNo : Nat) (line : String) : ParseState :=
  match words line with
  | "SCENARIO" :: name :: rest =>
    let p := p.flushScen
    { p with cur := { name, header := " ".intercalate rest }, started := true }
  | "SESSION" :: sid :: kind :: rest =>
    let p := p.flushBlock
    { p with started := true,
             cur := { p.cur with sessions := p.cur.sessions ++ [⟨sid.toNat?.getD 0, kind, parseKV rest⟩] } }
  | "C" :: sid :: now :: call =>
    let p := p.flushBlock
    { p with started := true, block := some { lineNo, sid := sid.toNat?.getD 0, now := now.toNat?.getD 0, call } }
  | "R" :: from_ :: rest =>
    match p.block, parseMsg rest with
    | some b, some m => { p with block := some { b with recv := b.recv ++ [(from_.toNat?.getD 0, m)] } }
    | _, _ => p
  | "O" :: to :: rest =>
    match p.block, parseMsg rest with
    | some b, some m => { p with block := some { b with sent := b.sent ++ [(to.toNat?.getD 0, m)] } }
    | _, _ => p
  | "=" :: rest =>
    match p.block with
    | some b => { p with block := some { b with result := " ".intercalate rest } }
    | none => p
  | "G" :: rest =>
    match p.block with
    | some b => { p with block := some { b with game := rest } }
    | none => p
  | "A" :: rest =>
    match p.block with
    | some b => { p with block := some { b with snap := parseKV rest } }
    | none => p
  | "N" :: rest =>
    let p := p.flushBlock
    { p with cur := { p.cur with netOps := p.cur.netOps ++ [(lineNo, rest)] } }
  | _ => p

/-! ### Requests as the user saw them -/

inductive Req where
  | save (frame : Int)
  | load (frame : Int)
  | advance (inputs : List (Nat × Char))
  deriving Repr, DecidableEq, Inhabited

def parseReq (t : String) : Option Req :=
  if t.startsWith "S" then (t.drop 1).toString.toInt?.map Req.save
  else if t.startsWith "L" then (t.drop 1).toString.toInt?.map Req.load
  else if t.startsWith "A" then
    let body := (t.drop 1).toString
    if body.isEmpty then some (.advance []) else
    let parseOne (p : String) : Option (Nat × Char) := match p.splitOn ":" with
      | [v, s] => v.toNat?.map fun n => (n, s.front)
      | _ => none
    ((body.splitOn ",").mapM parseOne).map Req.advance
  else none

/-- Requests of an `adv` call (`none` if the call did not return `ok`). -/
def CallRec.requests (c : CallRec) : Option (List Req) :=
  match words c.result with
  | "ok" :: rest => rest.mapM parseReq
  | _ => none

def CallRec.isAdvOk (c : CallRec) : Bool := c.call == ["adv"] && c.result.startsWith "ok"

def CallRec.snapInt (c : CallRec) (k : String) : Option Int := (kvGet c.snap k).bind String.toInt?

def parseSt (s : String) : List (Bool × Int) :=
  (s.splitOn ",").filterMap fun p => match p.splitOn ":" with
    | [d, f] => f.toInt?.map fun f => (d == "1", f)
    | _ => none

def CallRec.status (c : CallRec) : List (Bool × Int) := parseSt ((kvGet c.snap "st").getD "")

/-- One executed `AdvanceFrame` request. -/
structure Sim where
  callIdx : Nat
  lineNo : Nat
  frame : Int
  inputs : List (Nat × Char)
  /-- the k-th time this session simulated `frame` (1 = first simulation) -/
  nth : Nat
  deriving Inhabited

/-- Game-side tokens of a G line in order. -/
inductive GTok where
  | s (req game : Int) (cs : Nat)
  | l (req : Int) (loaded : Option Int) (cs : Option Nat)
  | a (game : Int)
  | g (frame : Int) (k : Nat)
  deriving Repr, Inhabited

def parseGTok (t : String) : Option GTok :=
  match t.splitOn ":" with
  | ["s", r, g, cs] => do pure (.s (← r.toInt?) (← g.toInt?) (← cs.toNat?))
  | ["l", r, lf, cs] => do pure (.l (← r.toInt?) lf.toInt? cs.toNat?)
  | ["a", g] => do pure (.a (← g.toInt?))
  | ["g", f, k] => do pure (.g (← f.toInt?) (← k.toNat?))
  | _ => none

def CallRec.gtoks (c : CallRec) : List GTok := c.game.filterMap parseGTok

/-- The tokens that correspond one-to-one to requests (glitch markers removed). -/
def CallRec.reqToks (c : CallRec) : List GTok :=
  c.gtoks.filter fun t => match t with | .g .. => false | _ => true

/-- All simulations a session ran, in order. -/
def simsOf (sc : Scen) (sid : Nat) : List Sim := Id.run do
  let mut out : List Sim := []
  let mut counts : List (Int × Nat) := []
  for i in [0:sc.calls.size] do
    let c := sc.calls[i]!
    if c.sid != sid then continue
    match c.requests with
    | none => pure ()
    | some reqs =>
      let advs := reqs.filterMap fun r => match r with | .advance ins => some ins | _ => none
      let frames := c.gtoks.filterMap fun t => match t with | .a g => some g | _ => none
      for (ins, f) in advs.zip frames do
        let n := ((counts.find? (·.1 == f)).map (·.2)).getD 0 + 1
        counts := (f, n) :: counts.filter (·.1 != f)
        out := { callIdx := i, lineNo := c.lineNo, frame := f, inputs := ins, nth := n } :: out
  return out.reverse

/-! ### The specification stream of a local player

Knows nothing about rings: first accepted submission per user frame wins, a delay `d` shifts by
`d`, an increase repeats the last value over the frames it opens up, a decrease drops submissions
until the stream has caught up, frames before the first input carry the default input. -/

structure Stream where
  delay : Nat
  lastUser : Int := -1
  vals : Array Nat := #[]        -- vals[f] = input of frame f; size = lastAdded + 1
  deriving Inhabited

def Stream.submit (s : Stream) (userFrame : Int) (v : Nat) : Stream :=
  if s.lastUser != -1 && userFrame != s.lastUser + 1 then s
  else
    let s := { s with lastUser := userFrame }
    let target := userFrame + s.delay
    let expected : Int := s.vals.size
    if expected > target then s
    else
      let fillV := if s.vals.size == 0 then 0 else s.vals[s.vals.size - 1]!
      let filled := (List.range (target - expected).toNat).foldl (fun a _ => a.push fillV) s.vals
      { s with vals := filled.push v }

/-- A delay change: once a first input exists, an increase repeats the newest input over the
frames it opens up in front of the next submission. -/
def Stream.setDelay (s : Stream) (d : Nat) : Stream :=
  let s := { s with delay := d }
  if s.vals.size == 0 then s else
  let target : Int := s.lastUser + 1 + d
  let fillV := s.vals[s.vals.size - 1]!
  let n := (target - (s.vals.size : Int)).toNat
  { s with vals := (List.range n).foldl (fun a _ => a.push fillV) s.vals }

/-- Streams of every local player of a session, derived from its API calls only. -/
def streamsOf (sc : Scen) (info : SessInfo) : List (Nat × Stream) := Id.run do
  let locals := info.localHandles
  let d := info.nat "delay" 0
  let mut streams : List (Nat × Stream) := locals.map fun h => (h, { delay := d })
  let mut pending : List (Nat × Nat) := []
  let mut cur : Int := 0
  for c in sc.calls do
    if c.sid != info.sid then continue
    match c.call with
    | ["addin", h, v] =>
      if c.result == "ok" then
        let h := h.toNat?.getD 0
        pending := (h, v.toNat?.getD 0) :: pending.filter (·.1 != h)
    | ["setdelay", h, dl] =>
      if c.result == "ok" then
        let h := h.toNat?.getD 0
        streams := streams.map fun (k, s) => if k == h then (k, s.setDelay (dl.toNat?.getD 0)) else (k, s)
    | ["adv"] =>
      if c.result.startsWith "ok" then
        streams := streams.map fun (k, s) =>
          match pending.find? (·.1 == k) with
          | some (_, v) => (k, s.submit cur v)
          | none => (k, s)
        -- the pending inputs are cleared only when the frame was really consumed
        let newCur := (c.snapInt "cur").getD cur
        if newCur != cur then pending := []
    | _ => pure ()
    match c.snapInt "cur" with
    | some x => cur := x
    | none => pure ()
  return streams

structure Finding where
  prop : String
  clause : String
  scenario : String
  sid : Nat
  lineNo : Nat
  detail : String

def Finding.text (f : Finding) : String :=
  s!"FINDING property={f.prop} clause={f.clause} scenario={f.scenario} sid={f.sid} line={f.lineNo} :: {f.detail}"

end Ggrs.Driver
