/-
Text forms shared by the trace acceptor and the monitors: messages, requests, events, errors,
snapshots. Must agree character for character with harness/src/{msg,world}.rs.
-/
import GgrsModel.Model.Builder
import GgrsModel.Driver.Util

namespace Ggrs.Driver
open Ggrs

def showFrame (f : Int) : String := toString f

def statusText (st : List ConnStatus) : String :=
  if st.isEmpty then "_" else
  ",".intercalate (st.map fun c => s!"{if c.disconnected then 1 else 0}:{c.lastFrame}")

def parseStatus (s : String) : Option (List ConnStatus) :=
  if s == "_" then some [] else
  (s.splitOn ",").mapM fun p =>
    match p.splitOn ":" with
    | [d, f] => do
      let f ← f.toInt?
      pure { disconnected := d == "1", lastFrame := f }
    | _ => none

def msgText (m : Msg) : String :=
  let g := m.magic
  match m.body with
  | .syncRequest r => s!"{g} SyncRequest {r}"
  | .syncReply r => s!"{g} SyncReply {r}"
  | .input st dr sf af bytes =>
    s!"{g} Input {if dr then 1 else 0} {sf} {af} {statusText st} {toHex bytes}"
  | .inputAck af => s!"{g} InputAck {af}"
  | .qualityReport adv ping => s!"{g} QualityReport {adv} {ping}"
  | .qualityReply pong => s!"{g} QualityReply {pong}"
  | .checksumReport cs f => s!"{g} ChecksumReport {cs} {f}"
  | .keepAlive => s!"{g} KeepAlive"

def msgKind (m : Msg) : String :=
  match m.body with
  | .syncRequest _ => "SyncRequest" | .syncReply _ => "SyncReply" | .input .. => "Input"
  | .inputAck _ => "InputAck" | .qualityReport .. => "QualityReport" | .qualityReply _ => "QualityReply"
  | .checksumReport .. => "ChecksumReport" | .keepAlive => "KeepAlive"

def parseMsg (w : List String) : Option Msg :=
  match w with
  | g :: kind :: rest => do
    let g ← g.toNat?
    let body ← match kind, rest with
      | "SyncRequest", [r] => do pure (MsgBody.syncRequest (← r.toNat?))
      | "SyncReply", [r] => do pure (MsgBody.syncReply (← r.toNat?))
      | "Input", [dr, sf, af, st, bytes] => do
        pure (MsgBody.input (← parseStatus st) (dr == "1") (← sf.toInt?) (← af.toInt?) (← parseHex bytes))
      | "InputAck", [af] => do pure (MsgBody.inputAck (← af.toInt?))
      | "QualityReport", [adv, ping] => do pure (MsgBody.qualityReport (← adv.toInt?) (← ping.toNat?))
      | "QualityReply", [pong] => do pure (MsgBody.qualityReply (← pong.toNat?))
      | "ChecksumReport", [cs, f] => do pure (MsgBody.checksumReport (← cs.toNat?) (← f.toInt?))
      | "KeepAlive", [] => pure MsgBody.keepAlive
      | _, _ => none
    pure ⟨g, body⟩
  | _ => none

def statusChar : InputStatus → String
  | .confirmed => "C" | .predicted => "P" | .disconnected => "D"

def reqText : Request → String
  | .save f => s!"S{f}"
  | .load f => s!"L{f}"
  | .advance inputs => "A" ++ ",".intercalate (inputs.map fun (v, st) => s!"{v.toNat}:{statusChar st}")

def errText : GgrsError → String
  | .predictionThreshold => "PredictionThreshold"
  | .invalidRequest => "InvalidRequest"
  | .mismatchedChecksum cur fs => s!"MismatchedChecksum:{cur}:{",".intercalate (fs.map toString)}"
  | .notSynchronized => "NotSynchronized"
  | .spectatorTooFarBehind => "SpectatorTooFarBehind"
  | .notEnoughData => "NotEnoughData"

def advResultText : Except GgrsError (List Request) → String
  | .error e => s!"err {errText e}"
  | .ok reqs => "ok" ++ String.join (reqs.map fun r => " " ++ reqText r)

def unitResultText : Except GgrsError Unit → String
  | .error e => s!"err {errText e}"
  | .ok () => "ok"

def eventText : Event → String
  | .synchronizing a t c => s!"Synchronizing:{a}:{t}:{c}"
  | .synchronized a => s!"Synchronized:{a}"
  | .disconnected a => s!"Disconnected:{a}"
  | .networkInterrupted a t => s!"NetworkInterrupted:{a}:{t}"
  | .networkResumed a => s!"NetworkResumed:{a}"
  | .waitRecommendation n => s!"WaitRecommendation:{n}"
  | .desyncDetected f l r a => s!"DesyncDetected:{f}:{l}:{r}:{a}"

def eventsText (evs : List Event) : String :=
  if evs.isEmpty then "ev" else "ev " ++ ";".intercalate (evs.map eventText)

def protoStateNum : ProtoState → Nat
  | .initializing => 0 | .synchronizing => 1 | .running => 2 | .disconnected => 3 | .shutdown => 4

def epText (e : Endpoint) : String :=
  s!"{protoStateNum e.state}:{e.pendingOutput.length}:{e.recvInputs.length}:{e.pendingChecksums.length}:{e.sendQueue.length}:{e.syncRandomRequests.length}:{e.lastRecvFrame}:{e.lastAckedInput.frame}"

/-- The `A` line of a P2P session as (field, value) pairs, in print order. -/
def p2pSnapshot (s : P2P) : List (String × String) :=
  let conf := match s.confirmedFrame with | .ok f => toString f | .error _ => "PANIC"
  let eps := (s.remotes.map fun (a, e) => s!"{a}:R:{epText e}") ++ (s.spectators.map fun (a, e) => s!"{a}:S:{epText e}")
  [("cur", toString s.sync.currentFrame), ("conf", conf), ("ahead", toString s.framesAhead),
   ("run", if s.running then "1" else "0"), ("st", ",".intercalate (s.localConnectStatus.map fun c => s!"{if c.disconnected then 1 else 0}:{c.lastFrame}")),
   ("evq", toString s.eventQueue.length), ("out", toString s.outgoingLocalInputs.length),
   ("lch", toString s.localChecksumHistory.length), ("lcf", toString s.sync.lastConfirmedFrame),
   ("lsf", toString s.sync.lastSavedFrame), ("df", toString s.disconnectFrame),
   ("nsf", toString s.nextSpectatorFrame), ("eps", if eps.isEmpty then "_" else ",".intercalate eps)]

def specSnapshot (s : Spectator) : List (String × String) :=
  let behind := match s.framesBehindHost with | .ok n => toString n | .error _ => "PANIC"
  [("cur", toString s.currentFrame), ("behind", behind), ("run", if s.running then "1" else "0"),
   ("evq", toString s.eventQueue.length), ("lrf", toString s.lastRecvFrame),
   ("st", ",".intercalate (s.hostConnectStatus.map fun c => s!"{if c.disconnected then 1 else 0}:{c.lastFrame}")),
   ("host", epText s.host)]

def parseKV (w : List String) : List (String × String) :=
  w.filterMap fun t => match t.splitOn "=" with
    | [k, v] => some (k, v)
    | _ => none

def kvGet (kv : List (String × String)) (k : String) : Option String := (kv.find? (·.1 == k)).map (·.2)

def kvNat (kv : List (String × String)) (k : String) (d : Nat) : Nat := ((kvGet kv k).bind String.toNat?).getD d

/-- The address an event text belongs to (`-` for WaitRecommendation). -/
def eventAddr (e : String) : String :=
  match e.splitOn ":" with
  | ["DesyncDetected", _, _, _, a] => a
  | "WaitRecommendation" :: _ => "-"
  | _ :: a :: _ => a
  | _ => "?"


end Ggrs.Driver
