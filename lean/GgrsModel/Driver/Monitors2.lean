/-
Monitors for C05–C13, C15, C17, C18 (observables only, implementation traces).
-/
import GgrsModel.Driver.Monitors

namespace Ggrs.Driver
open Ggrs

/-- All events a session drained, in order, with the index of the draining call. -/
def eventsOf (cx : Ctx) (sid : Nat) : List (Nat × String) :=
  cx.sc.calls.toList.zipIdx.flatMap fun (c, i) =>
    if c.sid == sid && c.call == ["events"] then
      match words c.result with
      | ["ev", evs] => (evs.splitOn ";").map fun e => (i, e)
      | _ => []
    else []

def evName (e : String) : String := (e.splitOn ":").headD ""

/-- `eps=` snapshot field: (addr, kind, state, pendingOutput, recvInputs, pendingChecksums, sendQueue, nonces, lastRecv, lastAcked) -/
structure EpSnap where
  addr : Nat
  spectator : Bool
  state : Nat
  po : Nat
  ri : Nat
  pc : Nat
  sq : Nat
  srr : Nat
  lrf : Int
  laf : Int
  deriving Inhabited

def parseEps (s : String) : List EpSnap :=
  if s == "_" then [] else
  (s.splitOn ",").filterMap fun t => match t.splitOn ":" with
    | [a, k, st, po, ri, pc, sq, srr, lrf, laf] => do
      pure { addr := ← a.toNat?, spectator := k == "S", state := ← st.toNat?, po := ← po.toNat?, ri := ← ri.toNat?,
             pc := ← pc.toNat?, sq := ← sq.toNat?, srr := ← srr.toNat?, lrf := ← lrf.toInt?, laf := ← laf.toInt? }
    | _ => none

def CallRec.eps (c : CallRec) : List EpSnap := parseEps ((kvGet c.snap "eps").getD "_")

def markLine (cx : Ctx) (text : String) : Option Nat :=
  (cx.sc.netOps.find? fun (_, w) => w == ["mark", text]).map (·.1)

/-- The magic number the session at address `addr` stamps on what it sends to `sid` (the harness
uses the session id as its address). -/
def genuineMagic (cx : Ctx) (sid addr : Nat) : Option Nat := Id.run do
  for c in cx.sc.calls do
    if c.sid != addr then continue
    match c.sent.find? (·.1 == sid) with
    | some (_, m) => return some m.magic
    | none => pure ()
  return none

/-- Did this call receive traffic from `addr` that the endpoint accepts as its peer's: a packet
with another magic number is foreign (C08) and must not count as a sign of life. -/
def heardFrom (cx : Ctx) (c : CallRec) (addr : Nat) : Bool :=
  match genuineMagic cx c.sid addr with
  | some g => c.recv.any fun (a, m) => a == addr && m.magic == g
  | none => c.recv.any (·.1 == addr)

/-- Largest silence (µs) session `sid` experienced from address `addr` while it was polling:
gap between consecutive receptions, measured at the polling call after the gap. -/
def maxSilence (cx : Ctx) (sid addr : Nat) : Nat := Id.run do
  let mut last : Option Nat := none
  let mut worst := 0
  for c in cx.sc.calls do
    if c.sid != sid then continue
    if c.call == ["poll"] || c.call == ["adv"] then
      match last with
      | some t => worst := max worst (c.now - t)
      | none => pure ()
      if heardFrom cx c addr then last := some c.now
      else if last.isNone then last := some c.now
  return worst

/-! ### C05 — transient faults never wedge a session -/

def monitorC05 (cx : Ctx) : List Finding := Id.run do
  let mut out : List Finding := []
  let epi := markLine cx "epilogue"
  for s in cx.sc.sessions do
    if s.kind == "sync" then continue
    let dt := s.nat "dt" 2000 * 1000
    -- (a) no Disconnected unless a silence longer than the timeout really happened
    for (_, e) in eventsOf cx s.sid do
      if evName e == "Disconnected" then
        let addr := (((e.splitOn ":")[1]?).bind String.toNat?).getD 0
        let sil := maxSilence cx s.sid addr
        -- endpoints are also disconnected, by design, when their unacknowledged output exceeds the
        -- cap of PENDING_OUTPUT_SIZE inputs (C18: a peer that stops acknowledging is dropped, not buffered for)
        let capReached := cx.sc.calls.any fun c => c.sid == s.sid &&
          c.eps.any fun e => e.addr == addr && e.po ≥ PENDING_OUTPUT_SIZE
        if sil ≤ dt && !cx.anyPanic && !capReached then
          out := mkF cx "C05" "spurious-disconnect" s.sid 0
            s!"Disconnected:{addr} although the longest silence from that address was {sil} µs (timeout {dt} µs)" :: out
    -- (b) progress in the clean epilogue
    match epi with
    | none => pure ()
    | some line =>
      -- progress is only promised when the fault was transient: every session of the scenario
      -- is still being driven in the epilogue (a peer that died is C07's subject)
      let allAlive := cx.sc.sessions.all fun t => cx.sc.calls.any fun c => c.sid == t.sid && c.lineNo > line
      if !allAlive then continue
      let calls := cx.sc.calls.toList.filter fun c => c.sid == s.sid
      let before := (calls.filter (·.lineNo < line)).reverse.head?.bind (·.snapInt "cur")
      let after := calls.reverse.head?.bind (·.snapInt "cur")
      let epiAdv := (calls.filter fun c => c.lineNo > line && c.call == ["adv"]).length
      -- a spectator that was paused for more than the 60-frame buffer reports SpectatorTooFarBehind
      -- from then on: the documented outcome (C06), not a wedge
      let dead := calls.any fun c => c.result == "PANIC" || c.result == "err SpectatorTooFarBehind"
      let disconnected := cx.anyDisconnect
      match before, after with
      | some b, some a =>
        if epiAdv ≥ 40 && !dead && !disconnected && a - b < 10 then
          out := mkF cx "C05" "no-progress" s.sid line
            s!"after the network was clean again the session made {epiAdv} advance_frame calls and moved only from frame {b} to {a}" :: out
      | _, _ => pure ()
  return out.reverse

/-! ### C06 — a spectator replays exactly the host's confirmed inputs -/

def monitorC06 (cx : Ctx) : List Finding := Id.run do
  let mut out : List Finding := []
  for s in cx.sc.sessions do
    if s.kind != "spec" then continue
    let host := s.nat "host" 0
    let hostSims := lastSims (cx.simsFor host)
    let hostConf := (cx.lastAdvSnap host "conf").getD (-1)
    let hostCur := (cx.lastAdvSnap host "cur").getD 0
    let sims := cx.simsFor s.sid
    let mfb := s.nat "mfb" 10
    let cs := s.nat "cs" 1
    -- gapless from 0, each frame once
    let mut expect : Int := 0
    for sim in sims do
      if sim.frame != expect then
        out := mkF cx "C06" "gapless" s.sid sim.lineNo s!"spectator advanced frame {sim.frame}, expected {expect}" :: out
      expect := sim.frame + 1
      -- values and statuses against the host's final confirmed timeline
      if sim.frame ≤ hostConf && sim.frame < hostCur then
        match hostSims.find? (·.1 == sim.frame) with
        | some (_, hs) =>
          for ((v, ch), ((hv, hch), h)) in sim.inputs.zip hs.inputs.zipIdx do
            let hd := hch == 'D'
            if (ch == 'D') != hd then
              out := mkF cx "C06" "status" s.sid sim.lineNo s!"frame {sim.frame} player {h}: spectator status {ch}, host status {hch}" :: out
            else if !hd && v != hv then
              out := mkF cx "C06" "replay" s.sid sim.lineNo s!"frame {sim.frame} player {h}: spectator got {v}, the host's confirmed timeline has {hv}" :: out
        | none => pure ()
      else if !cx.anyPanic && (cx.sc.calls.toList.filter fun c => c.sid == host && c.isAdvOk).length > 0 then
        -- the host polls (and confirms) inside advance_frame, so its confirmed frame as of its last
        -- advance bounds what it can have broadcast; frames above it cannot be legitimate
        let hostPolledLater := (cx.finalSnap host "conf").getD hostConf
        if sim.frame > hostPolledLater then
          out := mkF cx "C06" "beyond-confirmed" s.sid sim.lineNo s!"spectator advanced frame {sim.frame}, host confirmed only {hostPolledLater}" :: out
    -- catch-up discipline
    let mut prevCur : Int := -1
    for c in cx.sc.calls do
      if c.sid != s.sid then continue
      if c.call == ["adv"] then
        match c.requests with
        | some reqs =>
          let n := reqs.length
          let lrf := (c.snapInt "lrf").getD (-1)
          let behind := lrf - prevCur
          if n > cs && n > 1 then
            out := mkF cx "C06" "catchup-speed" s.sid c.lineNo s!"{n} frames in one call, catchup_speed {cs}" :: out
          if n > 1 && !(behind > mfb) then
            out := mkF cx "C06" "catchup-gate" s.sid c.lineNo s!"{n} frames in one call with only {behind} frames buffered (max_frames_behind {mfb})" :: out
        | none => pure ()
      match c.snapInt "cur" with
      | some x => prevCur := x
      | none => pure ()
  return out.reverse

/-! ### C07 — peer drop: timing and the survivor's timeline -/

def monitorC07 (cx : Ctx) : List Finding := Id.run do
  let mut out : List Finding := []
  for s in cx.p2p do
    let dt := s.nat "dt" 2000 * 1000
    let evs := eventsOf cx s.sid
    for (h, k, addr) in s.players do
      if k != 'R' then continue
      -- at most one Disconnected, nothing after it for that address
      let mine := evs.filter fun (_, e) => eventAddr e == toString addr
      let ds := mine.filter fun (_, e) => evName e == "Disconnected"
      if ds.length > 1 then
        out := mkF cx "C07" "once" s.sid 0 s!"{ds.length} Disconnected events for address {addr}" :: out
      -- timing: the endpoint may only go to Disconnected by timeout after a silence > timeout
      let explicit := cx.sc.calls.any fun c => c.sid == s.sid && c.call.headD "" == "disc" && c.result == "ok"
      let gossip := cx.sc.calls.any fun c => c.sid == s.sid && c.recv.any fun (_, m) =>
        match m.body with
        | .input st dr _ _ _ => dr || st.any (·.disconnected)
        | _ => false
      if !explicit && !gossip && ds.length > 0 then
        -- find the call at which the endpoint state became Disconnected
        let mut lastRecv : Option Nat := none
        let mut firstPoll : Option Nat := none
        let mut reported := false
        for c in cx.sc.calls do
          if c.sid != s.sid || reported then continue
          if c.call == ["poll"] || c.call == ["adv"] then
            if firstPoll.isNone then firstPoll := some c.now
            let st := (c.eps.find? fun e => e.addr == addr && !e.spectator).map (·.state)
            let t0 := lastRecv.getD (firstPoll.getD 0)
            -- the message filter updates last_recv_time before this poll's timers run
            let t0 := if heardFrom cx c addr then c.now else t0
            if st == some 3 || st == some 4 then
              if !(c.now > t0 + dt) then
                out := mkF cx "C07" "too-early" s.sid c.lineNo
                  s!"player {h} (address {addr}) disconnected at {c.now} µs, last packet at {t0} µs, timeout {dt} µs" :: out
              reported := true
            else if st == some 2 && c.now > t0 + dt then
              out := mkF cx "C07" "too-late" s.sid c.lineNo
                s!"address {addr} silent since {t0} µs, still connected at {c.now} µs (timeout {dt} µs)" :: out
              reported := true
            if heardFrom cx c addr then lastRecv := some c.now
      -- an accepted `disconnect_player h` drops every player behind h's address at once
      -- ("An explicit disconnect_player call has the same effect immediately")
      for c in cx.sc.calls do
        if c.sid != s.sid || c.result != "ok" then continue
        if c.call == ["disc", toString h] then
          for (g, kg, ag) in s.players do
            if kg == 'R' && ag == addr then
              let (dg, _) := c.status.getD g (false, -1)
              if !dg then
                out := mkF cx "C07" "explicit-drop" s.sid c.lineNo
                  s!"disconnect_player({h}) accepted, but player {g} behind the same address {addr} is still connected" :: out
      -- the survivor's final timeline for the dropped player
      let lastAdv := cx.sc.calls.toList.reverse.find? fun c => c.sid == s.sid && c.isAdvOk
      match lastAdv with
      | none => pure ()
      | some la =>
        let (disc, lastF) := la.status.getD h (false, -1)
        if disc && cx.sc.sessions.length - (cx.sc.sessions.filter (·.kind == "spec")).length == 2 then
          let cur := (la.snapInt "cur").getD 0
          for (f, sim) in lastSims (cx.simsFor s.sid) do
            if f < cur then
              match sim.inputs[h]? with
              | some (v, ch) =>
                if f > lastF then
                  if !(v == 0 && ch == 'D') then
                    out := mkF cx "C07" "timeline-after" s.sid sim.lineNo
                      s!"dropped player {h}: frame {f} (after its last frame {lastF}) has ({v},{ch}) in the final timeline" :: out
                else
                  match cx.truth h f with
                  | some t => if v != t || ch == 'D' then
                      out := mkF cx "C07" "timeline-before" s.sid sim.lineNo
                        s!"dropped player {h}: frame {f} (≤ last frame {lastF}) has ({v},{ch}), real input {t}" :: out
                  | none => pure ()
              | none => pure ()
  -- the same timing for a spectator session and its host: silent (by packets that come from the
  -- host's address and carry its magic number) for longer than the timeout → the host endpoint is
  -- disconnected by the poll that notices; packets from other addresses do not count
  for s in cx.sc.sessions do
    if s.kind != "spec" then continue
    let dt := s.nat "dt" 2000 * 1000
    let addr := s.nat "host" 0
    let mut lastRecv : Option Nat := none
    let mut firstPoll : Option Nat := none
    let mut reported := false
    for c in cx.sc.calls do
      if c.sid != s.sid || reported then continue
      if c.call == ["poll"] || c.call == ["adv"] then
        if firstPoll.isNone then firstPoll := some c.now
        let eps := match kvGet c.snap "host" with
          | some h => parseEps s!"{addr}:R:{h}"
          | none => []
        let st := (eps.head?).map (·.state)
        let t0 := lastRecv.getD (firstPoll.getD 0)
        let t0 := if heardFrom cx c addr then c.now else t0
        if st == some 3 || st == some 4 then
          if !(c.now > t0 + dt) then
            out := mkF cx "C07" "too-early" s.sid c.lineNo
              s!"spectator: host (address {addr}) disconnected at {c.now} µs, last packet at {t0} µs, timeout {dt} µs" :: out
          reported := true
        else if st == some 2 && c.now > t0 + dt then
          out := mkF cx "C07" "too-late" s.sid c.lineNo
            s!"spectator: host (address {addr}) silent since {t0} µs, still connected at {c.now} µs (timeout {dt} µs)" :: out
          reported := true
        if heardFrom cx c addr then lastRecv := some c.now
  -- "then keeps advancing on its own": two peers, one of them dropped by the other (accepted
  -- `disconnect_player`, or a Disconnected event for its address); in the clean epilogue the
  -- survivor's frame counter must move although the dropped peer is silent or gone
  match markLine cx "epilogue" with
  | none => pure ()
  | some line =>
    if cx.p2p.length == 2 && !cx.anyPanic then
      for s in cx.p2p do
        let dropped := (cx.sc.calls.any fun c => c.sid == s.sid && c.lineNo < line && c.call.headD "" == "disc" && c.result == "ok") ||
          ((eventsOf cx s.sid).any fun (i, e) => ((cx.sc.calls[i]?).map (·.lineNo)).getD line < line && evName e == "Disconnected" &&
            s.players.any fun (_, k, a) => k == 'R' && eventAddr e == toString a)
        if !dropped then continue
        let calls := cx.sc.calls.toList.filter fun c => c.sid == s.sid
        let before := (calls.filter (·.lineNo < line)).reverse.head?.bind (·.snapInt "cur")
        let after := calls.reverse.head?.bind (·.snapInt "cur")
        -- (calls that are answered at all: a session whose spectator died during the handshake never
        -- becomes Running — the handshake has no timeout — and is not this clause's subject)
        let epiAdv := (calls.filter fun c => c.lineNo > line && c.isAdvOk).length
        match before, after with
        | some b, some a =>
          if epiAdv ≥ 40 && a - b < 10 then
            out := mkF cx "C07" "stalled-after-drop" s.sid line
              s!"the remote peer was dropped, yet current_frame went from {b} to {a} over {epiAdv} advance_frame calls of the clean epilogue" :: out
        | _, _ => pure ()
  return out.reverse

/-! ### C10 — survivors agree on the cut-off of a dropped player -/

def monitorC10 (cx : Ctx) : List Finding := Id.run do
  let mut out : List Finding := []
  if cx.p2p.length < 3 then return []
  -- A panic is the recorded finding (a survivor adopts an EARLIER cut-off gossiped by the peers it
  -- still talks to) only if such gossip reached the session. Any other panic is reported under
  -- its own clause.
  for s in cx.p2p do
    let mut tables : List (Nat × List ConnStatus) := []     -- per sender: merged gossip
    let mut prevStatus : List (Bool × Int) := []
    let mut prevEps : List EpSnap := []
    for c in cx.sc.calls do
      if c.sid != s.sid then continue
      for (from_, m) in c.recv do
        match m.body with
        | .input st _ _ _ _ =>
          let old := ((tables.find? (·.1 == from_)).map (·.2)).getD []
          let merged := st.zipIdx.map fun (t, i) =>
            let o := old.getD i {}
            ({ disconnected := t.disconnected || o.disconnected, lastFrame := max o.lastFrame t.lastFrame } : ConnStatus)
          tables := (from_, merged) :: tables.filter (·.1 != from_)
        | _ => pure ()
      if c.result == "PANIC" then
        -- `update_player_disconnects`, mirrored on what the running endpoints have reported: the
        -- session adopts an EARLIER cut-off for player `h` iff some running endpoint says `h` is
        -- disconnected and the minimum of ALL running endpoints' last frames for `h` (whether or not
        -- they have noticed the drop) lies below the frame this session holds for it.
        let running := prevEps.filter fun e => !e.spectator && e.state == 2
        let explained := (List.range prevStatus.length).any fun h =>
          let reports := running.map fun e =>
            ((((tables.find? (·.1 == e.addr)).map (·.2)).getD []).getD h ({} : ConnStatus))
          let (odisc, lf) := prevStatus.getD h (false, -1)
          let qc := reports.all fun r => !r.disconnected
          let qm0 := reports.foldl (fun m r => min m r.lastFrame) (2147483647 : Int)
          let qm := if odisc then qm0 else min qm0 lf
          !qc && (!odisc || lf > qm) && qm < lf
        if explained then
          out := mkF cx "C10" "panic" c.sid c.lineNo s!"{" ".intercalate c.call} panicked" :: out
        else
          out := mkF cx "C10" "panic-unexplained" c.sid c.lineNo
            s!"{" ".intercalate c.call} panicked although no running peer had reported an earlier cut-off for any player" :: out
      else
        prevStatus := c.status
        prevEps := c.eps
  -- survivors: sessions alive (ticking) until the end; compare their final timelines for disconnected players
  let survivors := cx.p2p.filter fun s => !(cx.sc.calls.any fun c => c.sid == s.sid && c.result == "PANIC")
  match survivors with
  | a :: rest =>
    let la := lastSims (cx.simsFor a.sid)
    let ca := (cx.lastAdvSnap a.sid "cur").getD 0
    let sta := ((cx.sc.calls.toList.reverse.find? fun c => c.sid == a.sid && c.isAdvOk).map (·.status)).getD []
    for b in rest do
      let lb := lastSims (cx.simsFor b.sid)
      let cb := (cx.lastAdvSnap b.sid "cur").getD 0
      let stb := ((cx.sc.calls.toList.reverse.find? fun c => c.sid == b.sid && c.isAdvOk).map (·.status)).getD []
      for (h, (da, _)) in (sta.zipIdx.map fun (x, i) => (i, x)) do
        let (db, _) := stb.getD h (false, -1)
        if da && db then
          -- both treat player h as dropped: their timelines for h must coincide on common frames
          for (f, sa) in la do
            -- leave the speculative tail out: compare frames both have settled (confirmed by both)
            let confA := (cx.lastAdvSnap a.sid "lcf").getD (-1)
            let confB := (cx.lastAdvSnap b.sid "lcf").getD (-1)
            if f < ca && f < cb && f < min confA confB then
              match lb.find? (·.1 == f), sa.inputs[h]? with
              | some (_, sb), some ia =>
                match sb.inputs[h]? with
                | some ib =>
                  if ia != ib then
                    out := mkF cx "C10" "agree" b.sid sb.lineNo
                      s!"dropped player {h} frame {f}: session {a.sid} uses {ia}, session {b.sid} uses {ib}" :: out
                | none => pure ()
              | _, _ => pure ()
  | [] => pure ()
  -- per session (a session that panics later is judged at its last successful call): once it treats
  -- player h as dropped with last frame L, every frame after L in its timeline carries
  -- (0, Disconnected) for h (whatever L the survivors ended up with)
  for s in cx.p2p do
    match cx.sc.calls.toList.reverse.find? fun c => c.sid == s.sid && c.isAdvOk with
    | none => pure ()
    | some la =>
      let cur := (la.snapInt "cur").getD 0
      for ((disc, lastF), h) in la.status.zipIdx do
        if !disc then continue
        match s.players.find? (·.1 == h) with
        | some (_, 'R', _) =>
          for (f, sim) in lastSims (cx.simsFor s.sid) do
            if f < cur && f > lastF then
              match sim.inputs[h]? with
              | some (v, ch) =>
                if !(v == 0 && ch == 'D') then
                  out := mkF cx "C10" "status-after-cutoff" s.sid sim.lineNo
                    s!"dropped player {h}: frame {f} (after the last frame {lastF} this session keeps for it) has ({v},{ch}) in the session's final timeline" :: out
              | none => pure ()
        | _ => pure ()
  return (out.reverse.foldl (fun acc f =>
    if f.clause == "status-after-cutoff" && acc.any (fun g => g.clause == f.clause && g.sid == f.sid) then acc else acc ++ [f]) [])

/-! ### C08 — malformed or foreign packets are discarded -/

def monitorC08 (cx : Ctx) : List Finding :=
  monitorPanics cx "C08" ++
  (monitorC01 cx).map (fun f => { f with prop := "C08", clause := "inputs-changed" }) ++
  ((monitorC05 cx).filterMap fun f =>
    if f.clause == "spurious-disconnect" then some { f with prop := "C08", clause := "connection-state" }
    -- valid traffic must still be processed after a malformed or foreign packet (also during the
    -- handshake: a stranger's SyncReply is a stray reply like any other)
    else if f.clause == "no-progress" then some { f with prop := "C08", clause := "valid-traffic-afterwards" }
    else none) ++
  -- a peer that has gone silent must time out even while foreign packets keep arriving from its
  -- address (the silence is measured over packets carrying the peer's magic only)
  (monitorC07 cx).filterMap fun f =>
    if f.clause == "too-late" then some { f with prop := "C08", clause := "foreign-keeps-alive" } else none

/-! ### C09 — desync detection -/

def monitorC09 (cx : Ctx) : List Finding := Id.run do
  let mut out : List Finding := []
  let glitches := cx.sc.netOps.filterMap fun (_, w) => match w with
    | ["glitch", sid, f, _] => do pure ((← sid.toNat?), (← f.toInt?))
    | _ => none
  -- which glitches really happened (the k-th execution may never occur)
  let happened := cx.sc.calls.toList.flatMap fun c => c.gtoks.filterMap fun t => match t with
    | .g f _ => some (c.sid, f, c.lineNo) | _ => none
  for s in cx.p2p do
    let dd := s.nat "dd" 0
    if dd == 0 then continue
    let evs := (eventsOf cx s.sid).filter fun (_, e) => evName e == "DesyncDetected"
    if glitches.isEmpty && !cx.anyDisconnect then
      for (_, e) in evs do
        out := mkF cx "C09" "false-alarm" s.sid 0 s!"deterministic game, yet {e}" :: out
    else
      -- carried checksums are the ones the two peers really computed
      let saved (sid : Nat) (f : Int) : List Nat := cx.sc.calls.toList.flatMap fun c =>
        if c.sid != sid then [] else c.gtoks.filterMap fun t => match t with
          | .s r _ cs => if r == f then some cs else none | _ => none
      for (_, e) in evs do
        match e.splitOn ":" with
        | [_, f, lc, rc, addr] =>
          let f := f.toInt?.getD 0
          if !(saved s.sid f).contains (lc.toNat?.getD 0) then
            out := mkF cx "C09" "local-checksum" s.sid 0 s!"{e}: this session never saved that checksum for frame {f}" :: out
          if !(saved (addr.toNat?.getD 0) f).contains (rc.toNat?.getD 0) then
            out := mkF cx "C09" "remote-checksum" s.sid 0 s!"{e}: session {addr} never saved that checksum for frame {f}" :: out
        | _ => pure ()
  -- detection half: a glitch that really happened on a non-sparse rollback session and was
  -- followed by enough confirmed frames must be reported to both peers
  for (gsid, gf, gline) in happened do
    for s in cx.p2p do
      let dd := s.nat "dd" 0
      if dd == 0 || s.nat "sparse" 0 == 1 || s.nat "mp" 8 == 0 || cx.p2p.length != 2 || cx.anyDisconnect then continue
      let lcf := (cx.lastAdvSnap s.sid "lcf").getD (-1)
      let other := (cx.p2p.find? (·.sid != s.sid)).map (·.sid) |>.getD 0
      let lcfO := (cx.lastAdvSnap other "lcf").getD (-1)
      if min lcf lcfO > gf + 6 * (dd : Int) + 40 then
        let evs := (eventsOf cx s.sid).filter fun (_, e) => evName e == "DesyncDetected"
        let okEv := evs.any fun (_, e) => match e.splitOn ":" with
          | _ :: f :: _ => (f.toInt?.getD (-1)) > gf
          | _ => false
        if !okEv then
          out := mkF cx "C09" "missed" s.sid gline
            s!"session {gsid} diverged at frame {gf}; session {s.sid} confirmed up to {lcf} with interval {dd} and never saw DesyncDetected" :: out
  return out.reverse

/-! ### C11 — run-time delay changes -/

/-- "Nothing stranded, no session left stuck": a session that has just been given every local
input and already holds every connected remote player's input for its current frame simulates a
new frame — at the latest with the call after (the window gate reads the confirmation computed
before this call's local inputs are registered). Ten such calls in a row without a new frame is a
session frozen with everything it needs in its buffers. -/
def monitorStranded (cx : Ctx) : List Finding := Id.run do
  let mut out : List Finding := []
  for s in cx.p2p do
    let locals := (s.players.filter (·.2.1 == 'L')).map (·.1)
    let remotes := (s.players.filter (·.2.1 == 'R')).map (·.1)
    let mut prevCur : Int := 0
    let mut submitted : List Nat := []
    let mut streak := 0
    let mut reported := false
    for c in cx.sc.calls do
      if c.sid != s.sid || reported then continue
      match c.call with
      | ["addin", hs, _] => if c.result == "ok" then submitted := hs.toNat?.getD 1000000 :: submitted
      | ["adv"] =>
        let cur := (c.snapInt "cur").getD prevCur
        let held := remotes.all fun h =>
          let (disc, lastF) := c.status.getD h (false, -1)
          disc || lastF ≥ prevCur
        let fed := locals.all fun h => submitted.contains h
        if (c.result.startsWith "ok" || c.result == "err PredictionThreshold") && cur == prevCur && held && fed then
          streak := streak + 1
          if streak ≥ 10 then
            out := mkF cx "C11" "stranded" s.sid c.lineNo
              s!"ten advance_frame calls in a row simulated no new frame at frame {cur} although every local input was submitted and every connected remote player's input for that frame had arrived" :: out
            reported := true
        else streak := 0
        submitted := []
      | _ => pure ()
      match c.snapInt "cur" with
      | some x => prevCur := x
      | none => pure ()
  return out.reverse

def monitorC11 (cx : Ctx) : List Finding :=
  monitorPanics cx "C11" ++ (monitorC01 cx).map (fun f => { f with prop := "C11", clause := s!"agree-{f.clause}" })
  ++ ((monitorC06 cx).filterMap fun f =>
    if f.clause == "replay" then some { f with prop := "C11", clause := "agree-spectator" } else none)
  ++ monitorStranded cx

/-! ### C12 — lifecycle events -/

def monitorC12 (cx : Ctx) : List Finding := Id.run do
  let mut out : List Finding := []
  for s in cx.sc.sessions do
    if s.kind == "sync" then continue
    let evs := eventsOf cx s.sid
    let addrs := (evs.map fun (_, e) => eventAddr e).eraseDups.filter (· != "-")
    for a in addrs do
      let mine := (evs.filter fun (_, e) => eventAddr e == a && evName e != "DesyncDetected").map (·.2)
      -- Synchronizing(1..total-1 rising) · Synchronized · (Interrupted Resumed)* · Interrupted? · Disconnected?
      let mut phase := 0          -- 0 syncing, 1 running, 2 interrupted, 3 disconnected
      let mut lastCount := 0
      let mut total := 0
      let trimmed := (cx.sc.calls.any fun c => c.sid == s.sid && (c.snapInt "evq").getD 0 ≥ (MAX_EVENT_QUEUE_SIZE : Int))
      if trimmed then continue
      for e in mine do
        match e.splitOn ":" with
        | ["Synchronizing", _, t, c] =>
          let t := t.toNat?.getD 0
          let c := c.toNat?.getD 0
          if phase != 0 || c != lastCount + 1 || c ≥ t then
            out := mkF cx "C12" "language" s.sid 0 s!"address {a}: {e} out of place (phase {phase}, previous count {lastCount})" :: out
          lastCount := c
          total := t
        | ["Synchronized", _] =>
          if phase != 0 || (total != 0 && lastCount + 1 != total) then
            out := mkF cx "C12" "language" s.sid 0 s!"address {a}: Synchronized after count {lastCount} of {total} (phase {phase})" :: out
          phase := 1
        | ["NetworkInterrupted", _, _] =>
          if phase != 1 then out := mkF cx "C12" "language" s.sid 0 s!"address {a}: {e} in phase {phase}" :: out
          phase := 2
        | ["NetworkResumed", _] =>
          if phase != 2 then out := mkF cx "C12" "language" s.sid 0 s!"address {a}: {e} in phase {phase}" :: out
          phase := 1
        | ["Disconnected", _] =>
          if phase == 3 then out := mkF cx "C12" "language" s.sid 0 s!"address {a}: second Disconnected" :: out
          phase := 3
        | _ => pure ()
    -- Running ⇔ advance_frame does not say NotSynchronized; matched round trips
    let mut sentNonces : List (Nat × Nat) := []      -- (addr, nonce) requests sent and not yet matched
    let mut matched : List (Nat × Nat) := []         -- addr → count
    for c in cx.sc.calls do
      if c.sid != s.sid then continue
      for (from_, m) in c.recv do
        match m.body with
        | .syncReply r =>
          if sentNonces.contains (from_, r) then
            sentNonces := sentNonces.erase (from_, r)
            matched := (from_, ((matched.find? (·.1 == from_)).map (·.2)).getD 0 + 1) :: matched.filter (·.1 != from_)
        | _ => pure ()
      for (to, m) in c.sent do
        match m.body with
        | .syncRequest r => sentNonces := (to, r) :: sentNonces
        | _ => pure ()
      let run := (c.snapInt "run").getD 0
      if c.call == ["adv"] && c.result != "PANIC" then
        if (c.result == "err NotSynchronized") != (run == 0) && c.result != "err InvalidRequest" then
          out := mkF cx "C12" "running-iff" s.sid c.lineNo s!"advance_frame: {c.result} while current_state() Running={run}" :: out
      -- every endpoint that counts as synchronized by handshake completed NUM_SYNC_PACKETS matched round trips
      let eps := if s.kind == "spec" then
          (match (kvGet c.snap "host") with
           | some h => parseEps s!"{s.nat "host" 0}:R:{h}"
           | none => [])
        else c.eps
      for e in eps do
        if e.state == 2 then
          let n := ((matched.find? (·.1 == e.addr)).map (·.2)).getD 0
          if n < NUM_SYNC_PACKETS then
            out := mkF cx "C12" "handshake" s.sid c.lineNo
              s!"endpoint {e.addr} is Running after {n} matched request/reply round trips (needs {NUM_SYNC_PACKETS})" :: out
      -- the session is Running only once EVERY endpoint - remote players and spectators - is past its handshake
      if s.kind == "p2p" && run == 1 then
        for e in eps do
          if e.state < 2 then
            out := mkF cx "C12" "running-early" s.sid c.lineNo
              s!"current_state() is Running while endpoint {e.addr} ({if e.spectator then "spectator" else "player"}) is still in handshake state {e.state}" :: out
      -- the documented bound of the event queue
      let evq := (c.snapInt "evq").getD 0
      if evq > (MAX_EVENT_QUEUE_SIZE : Int) then
        out := mkF cx "C12" "queue-bound" s.sid c.lineNo s!"event queue holds {evq} entries (bound {MAX_EVENT_QUEUE_SIZE})" :: out
    -- idle sessions with default timeouts never see an interruption
    if (cx.sc.header.splitOn "family: \"idle\"").length > 1 then
      for (_, e) in evs do
        if evName e == "NetworkInterrupted" then
          out := mkF cx "C12" "keepalive" s.sid 0 s!"idle polling sessions saw {e}" :: out
  -- "correctly timed": the Disconnected event of an address follows a silence of the peer itself
  -- (packets stamped with its magic number) longer than the timeout, and does follow it — C07's
  -- timing clauses, judged here on C12's families too (a stranger sending from the peer's address)
  for f in monitorC07 cx do
    if f.clause == "too-late" || f.clause == "too-early" then
      out := { f with prop := "C12", clause := s!"timing-{f.clause}" } :: out
  -- report each (clause, sid) once
  return (out.reverse.foldl (fun acc f => if acc.any fun g => g.clause == f.clause && g.sid == f.sid then acc else acc ++ [f]) [])

/-! ### C13 — SyncTestSession -/

def monitorC13 (cx : Ctx) : List Finding := Id.run do
  let mut out : List Finding := (monitorC02 cx).map fun f => { f with prop := "C13", clause := s!"requests-{f.clause}" }
  for s in cx.sc.sessions do
    if s.kind != "sync" then continue
    let cd := s.nat "cd" 2
    let glitches := cx.sc.calls.toList.flatMap fun c => if c.sid != s.sid then [] else c.gtoks.filterMap fun t => match t with
      | .g f k => some (f, k, c.lineNo) | _ => none
    let calls := cx.sc.calls.toList.filter fun c => c.sid == s.sid && c.call == ["adv"]
    for c in calls do
      if c.result == "PANIC" then
        out := mkF cx "C13" "panic" s.sid c.lineNo "advance_frame panicked" :: out
      if c.result.startsWith "err MismatchedChecksum" && glitches.isEmpty then
        out := mkF cx "C13" "false-alarm" s.sid c.lineNo s!"deterministic game: {c.result}" :: out
    -- statuses all Confirmed, values delayed as configured
    for sim in cx.simsFor s.sid do
      for ((v, ch), h) in sim.inputs.zipIdx do
        if ch != 'C' then
          out := mkF cx "C13" "status" s.sid sim.lineNo s!"frame {sim.frame} player {h}: status {ch}" :: out
        match cx.truth h sim.frame with
        | some t => if t != v then
            out := mkF cx "C13" "delay" s.sid sim.lineNo s!"frame {sim.frame} player {h}: got {v}, expected {t}" :: out
        | none => pure ()
    -- detection
    if cd ≥ 2 then
      match glitches.head? with
      | some (gf, _, gline) =>
        -- calls after the glitch
        let after := calls.filter (·.lineNo > gline)
        let hit := after.zipIdx.find? fun (c, _) => c.result.startsWith "err MismatchedChecksum"
        match hit with
        | some (c, i) =>
          if i + 1 > cd + 2 then
            out := mkF cx "C13" "late" s.sid c.lineNo s!"nondeterminism at frame {gf} reported {i + 1} calls later (check distance {cd})" :: out
          match c.result.splitOn ":" with
          | [_, _, frames] =>
            let fs := (frames.splitOn ",").filterMap String.toInt?
            let mn := fs.foldl min (fs.headD 0)
            if mn != gf + 1 then
              out := mkF cx "C13" "first-frame" s.sid c.lineNo s!"nondeterminism first affects frame {gf + 1}, reported frames {frames}" :: out
          | _ => pure ()
        | none =>
          if after.length > cd + 2 then
            out := mkF cx "C13" "missed" s.sid gline s!"nondeterminism at frame {gf} never reported in {after.length} further calls (check distance {cd})" :: out
      | none => pure ()
  return out.reverse

/-! ### C15 — time sync -/

def monitorC15 (cx : Ctx) : List Finding := Id.run do
  let mut out : List Finding := []
  for s in cx.p2p do
    let evs := eventsOf cx s.sid
    -- WaitRecommendation only while frames_ahead ≥ MIN_RECOMMENDATION, carrying that value; spacing
    for (_, e) in evs do
      match e.splitOn ":" with
      | ["WaitRecommendation", n] =>
        if n.toNat?.getD 0 < MIN_RECOMMENDATION then
          out := mkF cx "C15" "recommendation-min" s.sid 0 s!"{e} below the minimum {MIN_RECOMMENDATION}" :: out
      | _ => pure ()
    -- every drained recommendation must carry the frames_ahead() value of one of the
    -- advance_frame calls since the previous drain, and that value must be at least the minimum
    let mut aheads : List Int := []
    for c in cx.sc.calls do
      if c.sid != s.sid then continue
      if c.isAdvOk then aheads := (c.snapInt "ahead").getD 0 :: aheads
      if c.call == ["events"] then
        match words c.result with
        | ["ev", evs'] =>
          for e in evs'.splitOn ";" do
            match e.splitOn ":" with
            | ["WaitRecommendation", n] =>
              let n : Int := (n.toNat?.getD 0 : Nat)
              if !(aheads.contains n) then
                out := mkF cx "C15" "recommendation-value" s.sid c.lineNo
                  s!"{e}: no advance_frame call since the last drain had frames_ahead() = {n} (values seen: {aheads.eraseDups})" :: out
            | _ => pure ()
        | _ => pure ()
        aheads := []
    -- emission points: calls where the queue grew by a recommendation (frames_ahead is in the snapshot)
    let mut lastRecFrame : Option Int := none
    let mut prevEvq : Int := 0
    let mut prevRecs := 0
    for c in cx.sc.calls do
      if c.sid != s.sid then continue
      let evq := (c.snapInt "evq").getD 0
      if c.call == ["adv"] && c.result.startsWith "ok" then
        let ahead := (c.snapInt "ahead").getD 0
        let cur := (c.snapInt "cur").getD 0
        -- a recommendation is pushed by this call iff ahead ≥ 3 and the gate was open; we see it
        -- in the stream of drained events, so only the spacing of *possible* emission frames is checked here
        if ahead ≥ (MIN_RECOMMENDATION : Int) && evq > prevEvq then
          match lastRecFrame with
          | some f =>
            if cur - f ≤ (RECOMMENDATION_INTERVAL : Int) && cur != f then
              -- could be another event that grew the queue; confirm with the drained stream below
              pure ()
          | none => pure ()
          lastRecFrame := some cur
      prevEvq := if c.call == ["events"] then 0 else evq
      prevRecs := prevRecs
    -- network_stats gate and mirror are checked by the acceptor against the model (class result:stats)
  -- steady state: only the `timesync` family promises a constant lead — and only while both
  -- sessions actually run: a session held at the prediction threshold (a call that simulates no
  -- NEW frame: `current_frame` does not move) is not "steadily k frames ahead", the estimate
  -- extrapolates a peer that keeps moving
  let running (sid : Nat) : Bool :=
    let advs := cx.sc.calls.toList.filter fun c => c.sid == sid && c.isAdvOk
    let curs := (advs.drop (advs.length - 61)).map fun c => (c.snapInt "cur").getD 0
    (curs.zip (curs.drop 1)).all fun (a, b) => b == a + 1
  if (cx.sc.header.splitOn "family: \"timesync\"").length > 1 && cx.p2p.length == 2 && !cx.anyDisconnect &&
      running cx.p2p[0]!.sid && running cx.p2p[1]!.sid then
    let a := cx.p2p[0]!
    let b := cx.p2p[1]!
    let fa := cx.lastAdvSnap a.sid "ahead"
    let fb := cx.lastAdvSnap b.sid "ahead"
    let ca := (cx.lastAdvSnap a.sid "cur").getD 0
    let cb := (cx.lastAdvSnap b.sid "cur").getD 0
    match fa, fb with
    | some x, some y =>
      if ca > 150 && cb > 150 then
        if (x + y).natAbs > 1 then
          out := mkF cx "C15" "steady-sum" a.sid 0 s!"frames_ahead {x} and {y} do not cancel (frames {ca}/{cb})" :: out
        let lead := ca - cb
        if (x - lead).natAbs > 2 then
          out := mkF cx "C15" "steady-lead" a.sid 0 s!"session {a.sid} leads by {lead} frames but frames_ahead says {x}" :: out
    | _, _ => pure ()
  -- ping: on the lossless fixed-latency links of the `timesync` family the reported ping is the
  -- link's round trip (2 × latency) plus at most what the two sides add by handling packets only when
  -- they poll (one tick each; the generator's network moves packets once per step; milliseconds
  -- are truncated twice)
  if (cx.sc.header.splitOn "family: \"timesync\"").length > 1 && cx.p2p.length == 2 && !cx.anyDisconnect then
    let hnat (key : String) : Nat :=
      match cx.sc.header.splitOn (key ++ ": ") with
      | _ :: rest :: _ => ((rest.takeWhile Char.isDigit).toString.toNat?).getD 0
      | _ => 0
    let lat := hnat "latency_us"
    let stepUs := hnat "step_us"
    for s in cx.p2p do
      let fps := s.nat "fps" 60
      let tickUs := 1000000 / (if fps == 0 then 60 else fps)
      let lo : Int := ((2 * lat) / 1000 : Nat) - 1
      let hi : Int := ((2 * lat + 2 * stepUs + 2 * tickUs) / 1000 : Nat) + 2
      let mut runSince : Option Nat := none
      for c in cx.sc.calls do
        if c.sid != s.sid then continue
        if runSince.isNone && (c.snapInt "run").getD 0 == 1 then runSince := some c.now
        if c.call.headD "" != "stats" then continue
        -- once the session has been running for two seconds on such a link (a quality report every
        -- 200 ms, answered within the round trip) the data exists: no more NotEnoughData
        match runSince, c.call with
        | some t0, [_, hs] =>
          let isRemote := s.players.any fun (h, k, _) => k == 'R' && toString h == hs
          if isRemote && c.result == "err NotEnoughData" && c.now > t0 + 2000000 then
            out := mkF cx "C15" "no-stats" s.sid c.lineNo
              s!"network_stats still reports NotEnoughData {(c.now - t0) / 1000} ms after the session became Running (one-way latency {lat} µs)" :: out
        | _, _ => pure ()
        match words c.result with
        | ["ok", ping, _, _, _] =>
          match ping.toInt? with
          | some pg =>
            if pg < lo || pg > hi then
              out := mkF cx "C15" "ping" s.sid c.lineNo
                s!"network_stats reports ping {pg} ms; the link's round trip is {2 * lat / 1000} ms (one-way latency {lat} µs, tick {tickUs} µs): expected {lo}..{hi}" :: out
          | none => pure ()
        | _ => pure ()
  return (out.reverse.foldl (fun acc f => if (f.clause == "ping" || f.clause == "no-stats") && acc.any (fun g => g.clause == f.clause && g.sid == f.sid) then acc else acc ++ [f]) [])

/-! ### C18 — internal buffers stay bounded -/

def monitorC18 (cx : Ctx) : List Finding := Id.run do
  let mut out : List Finding := []
  for s in cx.sc.sessions do
    if s.kind == "sync" then continue
    let mp := s.nat "mp" 8
    let hasSetDelay := cx.sc.calls.any fun c => c.sid == s.sid && c.call.headD "" == "setdelay"
    for c in cx.sc.calls do
      if c.sid != s.sid || c.result == "PANIC" then continue
      let evq := (c.snapInt "evq").getD 0
      if evq > (MAX_EVENT_QUEUE_SIZE : Int) then
        out := mkF cx "C18" "event-queue" s.sid c.lineNo s!"{evq} buffered events (bound {MAX_EVENT_QUEUE_SIZE})" :: out
      if s.kind == "p2p" then
        let outq := (c.snapInt "out").getD 0
        if !hasSetDelay && outq > 8 then
          out := mkF cx "C18" "outgoing-inputs" s.sid c.lineNo s!"{outq} frames of local input queued for sending" :: out
        let lch := (c.snapInt "lch").getD 0
        if lch > (MAX_CHECKSUM_HISTORY_SIZE : Int) + 1 then
          out := mkF cx "C18" "checksum-history" s.sid c.lineNo s!"{lch} local checksums stored" :: out
      let eps := if s.kind == "spec" then
          (match (kvGet c.snap "host") with
           | some h => parseEps s!"{s.nat "host" 0}:R:{h}"
           | none => [])
        else c.eps
      for e in eps do
        -- the cap is checked when an input is queued; the endpoint is dropped by the next poll, and
        -- one advance_frame call can forward several confirmed frames before that
        if e.po > PENDING_OUTPUT_SIZE + 2 * mp + 16 then
          out := mkF cx "C18" "pending-output" s.sid c.lineNo s!"endpoint {e.addr}: {e.po} unacknowledged inputs" :: out
        if e.ri > 2 * mp + 2 then
          out := mkF cx "C18" "recv-inputs" s.sid c.lineNo s!"endpoint {e.addr}: {e.ri} remembered received inputs (window {mp})" :: out
        if e.pc > 2 * MAX_CHECKSUM_HISTORY_SIZE then
          out := mkF cx "C18" "pending-checksums" s.sid c.lineNo s!"endpoint {e.addr}: {e.pc} pending checksums" :: out
        -- a bare poll flushes everything; advance_frame polls first and may then queue one
        -- checksum report per endpoint, which leaves with the next poll
        if (e.sq > 0 && c.call == ["poll"]) || (e.sq > 1 && c.call == ["adv"]) then
          out := mkF cx "C18" "send-queue" s.sid c.lineNo s!"endpoint {e.addr}: {e.sq} messages left in the send queue after {c.call}" :: out
  return (out.reverse.foldl (fun acc f => if acc.any fun g => g.clause == f.clause && g.sid == f.sid then acc else acc ++ [f]) [])

/-! ### grounds for treating a player as disconnected (C04's "connected player", C07, C10) -/

/-- A session may start treating a remote player as disconnected only on grounds: an accepted
`disconnect_player` call for its address, a `Disconnected` event for its address (which the next
drain of the event queue must then report), or an input packet from a peer that says so. The verdict
for a player marked without call or gossip is given by the next drain; without a later drain, or if
the event queue ever hit its cap, there is none. Independent of the number of peers. -/
def monitorGrounds (cx : Ctx) (prop : String) : List Finding := Id.run do
  let mut out : List Finding := []
  for s in cx.p2p do
    let players := s.players
    let mut claimed : List Nat := []
    let mut manual : List Nat := []
    let mut evDisc : List Nat := []
    let mut marked : List Nat := []
    let mut pending : List (Nat × Nat × Nat) := []
    let mut capped := false
    for c in cx.sc.calls do
      if c.sid != s.sid then continue
      if c.result == "PANIC" then break
      if (c.snapInt "evq").getD 0 ≥ (MAX_EVENT_QUEUE_SIZE : Int) then capped := true
      for (_, m) in c.recv do
        match m.body with
        | .input st _ _ _ _ =>
          for (cs, h) in st.zipIdx do
            if cs.disconnected then claimed := h :: claimed
        | _ => pure ()
      match c.call with
      | ["disc", hs] =>
        if c.result == "ok" then
          match players.find? (·.1 == hs.toNat?.getD 1000000) with
          | some (_, _, addr) => manual := addr :: manual
          | none => pure ()
      | ["events"] =>
        match words c.result with
        | ["ev", evs] =>
          for e in evs.splitOn ";" do
            match e.splitOn ":" with
            | ["Disconnected", a] => evDisc := a.toNat?.getD 0 :: evDisc
            | _ => pure ()
        | _ => pure ()
        if !capped then
          for (h, addr, line) in pending do
            if !evDisc.contains addr then
              out := mkF cx prop "unfounded-disconnect" s.sid line
                s!"player {h} (address {addr}) is treated as disconnected although no disconnect_player call named it, no peer's input packet reported it disconnected, and the next drain of the event queue reports no Disconnected for address {addr}" :: out
        pending := []
      | _ => pure ()
      for ((disc, _), h) in c.status.zipIdx do
        if disc && !marked.contains h then
          marked := h :: marked
          match players.find? (·.1 == h) with
          | some (_, 'R', addr) =>
            if !(claimed.contains h || manual.contains addr || evDisc.contains addr) then
              pending := (h, addr, c.lineNo) :: pending
          | _ => pure ()
  return (out.reverse.foldl (fun acc f => if acc.any fun g => g.clause == f.clause && g.sid == f.sid then acc else acc ++ [f]) [])

/-- "Connected player" (C04): a peer that has merely been silent for less than the disconnect
timeout still counts — the session must not drop it (and run ahead of its inputs) earlier. This is
C07's timing clause, seen from the window property. -/
def prematureDisconnect (cx : Ctx) (prop : String) : List Finding :=
  (monitorC07 cx).filterMap fun f =>
    if f.clause == "too-early" then some { f with prop := prop, clause := "premature-disconnect" } else none

/-! ### C16 — run-time misuse is refused with the documented error -/

/-- Decided on the trace alone, from the players each session was built with:
* `disconnect_player` of a local or unknown handle is refused;
* after an accepted `disconnect_player h`, the same call for `h` or for any other player behind
  the same address ("and all other remote players with the same address") is refused;
* `add_local_input` for a handle that is not a local player is refused. -/
def monitorC16 (cx : Ctx) : List Finding := Id.run do
  let mut out : List Finding := []
  for s in cx.p2p do
    let players := s.players
    let mut goneAddrs : List Nat := []
    for c in cx.sc.calls do
      if c.sid != s.sid || c.result == "PANIC" then continue
      match c.call with
      | ["disc", hs] =>
        let h := hs.toNat?.getD 1000000
        match players.find? (·.1 == h) with
        | none =>
          if c.result != "err InvalidRequest" then
            out := mkF cx "C16" "disc-invalid" s.sid c.lineNo s!"disconnect_player({h}) for an unknown handle returned {c.result}" :: out
        | some (_, 'L', _) =>
          if c.result != "err InvalidRequest" then
            out := mkF cx "C16" "disc-invalid" s.sid c.lineNo s!"disconnect_player({h}) for a local player returned {c.result}" :: out
        | some (_, 'R', addr) =>
          if goneAddrs.contains addr then
            if c.result != "err InvalidRequest" then
              out := mkF cx "C16" "disc-twice" s.sid c.lineNo
                s!"disconnect_player({h}): address {addr} was already disconnected by an accepted disconnect_player call, yet the call returned {c.result}" :: out
          else if c.result == "ok" then
            goneAddrs := addr :: goneAddrs
        | _ => pure ()
      | ["addin", hs, _] =>
        let h := hs.toNat?.getD 1000000
        let isLocal := match players.find? (·.1 == h) with
          | some (_, 'L', _) => true
          | _ => false
        if !isLocal && c.result != "err InvalidRequest" then
          out := mkF cx "C16" "addin-invalid" s.sid c.lineNo s!"add_local_input({h}) for a handle that is not a local player returned {c.result}" :: out
      | _ => pure ()
  return (out.reverse.foldl (fun acc f => if acc.any fun g => g.clause == f.clause && g.sid == f.sid then acc else acc ++ [f]) [])

/-- The environment assumption of the drop theorems (`XStep.dropApi`, `XStep.dropEvent`,
`drop_specD.hsame`), checked on the implementation's traces: the players of one endpoint have the
same `last_frame` at the moment they are marked disconnected (their inputs travel in the same
packets). If a trace ever shows otherwise, `C07_survivor_timeline` does not speak about that run. -/
def monitorDropAssumption (cx : Ctx) : List Finding := Id.run do
  let mut out : List Finding := []
  for s in cx.p2p do
    let players := s.players
    let mut marked : List Nat := []
    for c in cx.sc.calls do
      if c.sid != s.sid then continue
      if c.result == "PANIC" then break
      let mut fresh : List (Nat × Nat × Int) := []
      for ((disc, lf), h) in c.status.zipIdx do
        if disc && !marked.contains h then
          marked := h :: marked
          match players.find? (·.1 == h) with
          | some (_, 'R', addr) => fresh := (h, addr, lf) :: fresh
          | _ => pure ()
      for (h, addr, lf) in fresh do
        for (h2, addr2, lf2) in fresh do
          if h < h2 && addr == addr2 && lf != lf2 then
            out := mkF cx "C07" "assumption-shared-last-frame" s.sid c.lineNo
              s!"players {h} and {h2} behind address {addr} are marked disconnected in the same call with different last frames ({lf} vs {lf2}): the environment assumption of the drop theorems does not hold on this run" :: out
  return (out.reverse.foldl (fun acc f => if acc.any fun g => g.clause == f.clause && g.sid == f.sid then acc else acc ++ [f]) [])

/-- Three or more peers with a player dropping out is the space of C10 (where the implementation
is known to diverge and panic); the other properties quantify over two-peer drops or no drop. -/
def Ctx.multiPeerDrop (cx : Ctx) : Bool := cx.p2p.length ≥ 3 && cx.anyDisconnect

def runMonitor2 (prop : String) (cx : Ctx) : List Finding :=
  if cx.multiPeerDrop && !["C10", "C12", "C17", "C18", "C16"].contains prop then
    -- the one clause about connected players that does not depend on how a drop is resolved
    (if ["C04", "C07"].contains prop then monitorGrounds cx prop else []) ++
    (if prop == "C04" then prematureDisconnect cx prop else [])
  else
  match prop with
  | "C05" => monitorC05 cx
  | "C06" => monitorC06 cx ++ monitorPanics cx "C06"
  | "C07" => monitorC07 cx ++ monitorGrounds cx "C07" ++ monitorDropAssumption cx ++
      (if cx.p2p.length == 2 then monitorPanics cx "C07" else []) ++
      -- "spectators of that host see the same"
      ((monitorC06 cx).filterMap fun f =>
        if f.clause == "replay" || f.clause == "status" then some { f with prop := "C07", clause := s!"spectator-{f.clause}" } else none)
  | "C08" => monitorC08 cx
  | "C09" => monitorC09 cx
  | "C10" => monitorC10 cx ++ monitorGrounds cx "C10"
  | "C11" => monitorC11 cx
  | "C12" => monitorC12 cx
  | "C13" => monitorC13 cx
  | "C15" => monitorC15 cx
  | "C16" => monitorPanics cx "C16" ++ monitorC16 cx
  | "C17" => []
  | "C18" => monitorC18 cx
  | "C04" => runMonitor "C04" cx ++ monitorGrounds cx "C04" ++ prematureDisconnect cx "C04"
  | p => runMonitor p cx

end Ggrs.Driver
