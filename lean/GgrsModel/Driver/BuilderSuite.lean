import GgrsModel.Driver.Text

namespace Ggrs.Driver
open Ggrs

def parseBuilderCall (c : String) : Option BuilderCall :=
  match words c with
  | ["ap", t, h] => do
    let h ← h.toNat?
    let t ← if t == "L" then some PlayerType.localPlayer
      else if t.startsWith "R" then (t.drop 1).toString.toNat?.map PlayerType.remote
      else (t.drop 1).toString.toNat?.map PlayerType.spectator
    pure (.addPlayer t h)
  | ["np", n] => n.toNat?.map .withNumPlayers
  | ["mp", n] => n.toNat?.map .withMaxPrediction
  | ["delay", n] => n.toNat?.map .withInputDelay
  | ["sparse", n] => some (.withSparse (n == "1"))
  | ["dd", n] => n.toNat?.map fun k => .withDesync (some k)
  | ["fps", n] => n.toNat?.map .withFps
  | ["cd", n] => n.toNat?.map .withCheckDistance
  | ["mfb", n] => n.toNat?.map .withMaxFramesBehind
  | ["cs", n] => n.toNat?.map .withCatchupSpeed
  | _ => none

/-- `B call;call;... | start` → `err@i` | `start-err` | `start-ok smoke-ok` | `PANIC`. -/
def builderLine (line : String) : String :=
  match (line.trimAscii.toString.drop 2).toString.splitOn " | " with
  | [callsS, start] =>
    let calls := if callsS.trimAscii.toString.isEmpty then [] else callsS.splitOn ";"
    let rec go (b : Builder) (i : Nat) : List String → Except String Builder
      | [] => .ok b
      | c :: cs => match parseBuilderCall c with
        | none => .error "bad-op"
        | some bc => match b.apply bc with
          | none => .error s!"err@{i}"
          | some b' => go b' (i + 1) cs
    match go {} 0 calls with
    | .error e => e
    | .ok b =>
      match start.trimAscii.toString with
      | "p2p" => match b.startP2P .repeatLast [] 0 with
        | .ok (some _) => "start-ok smoke-ok"
        | .ok none => "start-err"
        | .error _ => "PANIC"
      | "sync" => match b.startSyncTest .repeatLast with
        | .ok (some _) => "start-ok smoke-ok"
        | .ok none => "start-err"
        | .error _ => "PANIC"
      | _ => match b.startSpectator 7 [] 0 with
        | .ok _ => "start-ok smoke-ok"
        | .error _ => "PANIC"
  | _ => "bad-op"

end Ggrs.Driver
