/-
Trace acceptance: replays, per session, the inputs the implementation consumed (API calls, clock,
received messages, checksums the game saved, the random numbers visible on the wire) through the
model and compares every output (results, requests, messages per destination, events, snapshot).
-/
import GgrsModel.Driver.Text

namespace Ggrs.Driver
open Ggrs

inductive SessModel where
  | p2p (s : P2P)
  | spec (s : Spectator)
  | sync (s : SyncTest)
  | dead
  deriving Inhabited

structure Block where
  lineNo : Nat := 0
  sid : Nat := 0
  now : Nat := 0
  call : List String := []
  recv : List (Nat × Msg) := []
  sent : List (Nat × String) := []
  result : String := ""
  game : Option (List String) := none
  snap : List String := []
  deriving Inhabited

structure Mismatch where
  scenario : String := ""
  sid : Nat
  lineNo : Nat
  cls : String
  impl : String
  model : String

def Mismatch.text (m : Mismatch) : String :=
  s!"MISMATCH scenario={m.scenario} sid={m.sid} line={m.lineNo} class={m.cls} impl=[{m.impl}] model=[{m.model}]"

/-- Builds the model session from a SESSION line (same builder calls, same order as world.rs). -/
def makeSession (kind : String) (w : List String) : Option SessModel := do
  let kv := parseKV w
  let np := kvNat kv "np" 2
  let mp := kvNat kv "mp" 8
  let fps := kvNat kv "fps" 60
  let dt := kvNat kv "dt" 2000
  let dn := kvNat kv "dn" 500
  let delay := kvNat kv "delay" 0
  let now := kvNat kv "now" 0
  let pred : Predictor := if kvGet kv "pred" == some "D" then .default else .repeatLast
  let b : Builder := {}
  let b ← b.applyAll [.withNumPlayers np, .withFps fps, .withMaxPrediction mp, .withInputDelay delay,
    .withDisconnectTimeout dt, .withDisconnectNotifyDelay dn]
  let seedsRaw := (kvGet kv "seeds").getD "_"
  let seedTriples : List (Nat × Nat × Nat) := if seedsRaw == "_" then [] else
    (seedsRaw.splitOn ",").filterMap fun t => match t.splitOn ":" with
      | [a, m, n] => do pure (← a.toNat?, ← m.toNat?, ← n.toNat?)
      | _ => none
  match kind with
  | "p2p" =>
    let sparse := kvNat kv "sparse" 0 == 1
    let dd := kvNat kv "dd" 0
    let players := ((kvGet kv "players").getD "").splitOn ","
    let calls ← players.filter (· ≠ "") |>.mapM fun p =>
      match p.splitOn ":" with
      | [h, t] => do
        let h ← h.toNat?
        let t ← if t == "L" then some PlayerType.localPlayer
          else if t.startsWith "R" then (t.drop 1).toString.toNat?.map PlayerType.remote
          else if t.startsWith "S" then (t.drop 1).toString.toNat?.map PlayerType.spectator
          else none
        pure (BuilderCall.addPlayer t h)
      | _ => none
    let b ← b.applyAll ([.withSparse sparse, .withDesync (if dd > 0 then some dd else none)] ++ calls)
    let specAddrs := b.handles.filterMap fun (_, t) => match t with | .spectator a => some a | _ => none
    let seeds := seedTriples.map fun (a, m, n) => ({ spectator := specAddrs.contains a, addr := a, magic := m, nonce := n } : Builder.EpSeed)
    match b.startP2P pred seeds now with
    | .ok (some s) => some (.p2p s)
    | _ => none
  | "spec" =>
    let host := kvNat kv "host" 0
    let b ← b.applyAll [.withMaxFramesBehind (kvNat kv "mfb" 10), .withCatchupSpeed (kvNat kv "cs" 1)]
    let seeds := seedTriples.map fun (a, m, n) => ({ spectator := false, addr := a, magic := m, nonce := n } : Builder.EpSeed)
    match b.startSpectator host seeds now with
    | .ok s => some (.spec s)
    | _ => none
  | "sync" =>
    let b ← b.applyAll [.withCheckDistance (kvNat kv "cd" 2)]
    match b.startSyncTest pred with
    | .ok (some s) => some (.sync s)
    | _ => none
  | _ => none

/-- Nonces the implementation drew during this call, per destination, in order. -/
def noncesFor (sent : List (Nat × String)) (addr : Nat) : List Nat :=
  sent.filterMap fun (a, t) =>
    if a != addr then none else
    match words t with
    | [_, "SyncRequest", n] => n.toNat?
    | _ => none

/-- Handshake requests that were queued by an earlier call (session construction) leave first;
their nonces are already known to the model. -/
def queuedSyncRequests (e : Endpoint) : Nat :=
  (e.sendQueue.filter fun m => match m.body with | .syncRequest _ => true | _ => false).length

def loadTape (eps : List (Nat × Endpoint)) (sent : List (Nat × String)) : List (Nat × Endpoint) :=
  eps.map fun (a, e) =>
    (a, { e with nonceTape := (noncesFor sent a).drop (queuedSyncRequests e), tapeUnderrun := false })

def tapeProblem (eps : List (Nat × Endpoint)) : Bool :=
  eps.any fun (_, e) => e.tapeUnderrun || !e.nonceTape.isEmpty

/-- Saves the user executed: `s:<reqframe>:<gameframe>:<checksum>` tokens of the G line. -/
def parseSaves (g : List String) : List (Frame × Option Nat) :=
  g.filterMap fun t => match t.splitOn ":" with
    | ["s", f, _, cs] => do pure ((← f.toInt?), cs.toNat?)
    | _ => none

def destinations (l : List (Nat × String)) : List Nat :=
  l.foldl (fun acc (a, _) => if acc.contains a then acc else acc ++ [a]) []

/-- Compares sent messages per destination; returns the first difference. -/
def compareWire (impl : List (Nat × String)) (model : List (Nat × Msg)) : Option (String × String × String) :=
  let modelT := model.map fun (a, m) => (a, msgText m)
  let dests := destinations (impl ++ modelT)
  dests.findSome? fun d =>
    let i := impl.filterMap fun (a, t) => if a == d then some t else none
    let m := modelT.filterMap fun (a, t) => if a == d then some t else none
    if i == m then none else
      -- first differing position decides the class
      let rec first : List String → List String → String × String
        | x :: xs, y :: ys => if x == y then first xs ys else (x, y)
        | x :: _, [] => (x, "<nothing>")
        | [], y :: _ => ("<nothing>", y)
        | [], [] => ("", "")
      let (x, y) := first i m
      let kindOf (t : String) := match words t with | _ :: k :: _ => k | _ => "none"
      some (s!"wire:{if x == "<nothing>" then kindOf y else kindOf x}", s!"to {d}: {x}", s!"to {d}: {y}")

def compareSnap (impl : List String) (model : List (String × String)) : Option (String × String × String) :=
  let kv := parseKV impl
  model.findSome? fun (k, v) =>
    match kvGet kv k with
    | some iv => if iv == v then none else some (s!"snap:{k}", iv, v)
    | none => some (s!"snap:{k}", "<missing>", v)

structure StepOut where
  next : SessModel
  result : String
  outbox : List (Nat × Msg)
  snap : List (String × String)
  tapeBad : Bool := false
  panicSite : Option String := none

def natArg (l : List String) (i : Nat) : Nat := ((l[i]?).bind String.toNat?).getD 0

/-- Executes one call block on the model. A model panic is the result "PANIC". -/
def stepModel (m : SessModel) (b : Block) : StepOut :=
  let panicAt (site : String) : StepOut := { next := .dead, result := "PANIC", outbox := [], snap := [], panicSite := some site }
  match m with
  | .dead => panicAt "session already dead"
  | .p2p s0 =>
    let s := { s0 with remotes := loadTape s0.remotes b.sent, spectators := loadTape s0.spectators b.sent, outbox := [] }
    let fin (s : P2P) (res : String) : StepOut :=
      let s := match b.game with | some g => s.userExecute (parseSaves g) | none => s
      { next := .p2p { s with outbox := [] }, result := res, outbox := s.outbox, snap := p2pSnapshot s,
        tapeBad := tapeProblem s.remotes || tapeProblem s.spectators }
    match b.call with
    | ["poll"] => match s.pollRemoteClients b.now b.recv with
      | .ok s => fin s "ok" | .error site => panicAt site
    | ["adv"] => match s.advanceFrame b.now b.recv with
      | .ok (s, r) => fin s (advResultText r) | .error site => panicAt site
    | ["addin", h, v] =>
      let (s, r) := s.addLocalInput (h.toNat?.getD 0) (UInt8.ofNat (v.toNat?.getD 0))
      fin s (unitResultText r)
    | ["events"] => let (s, evs) := s.events; fin s (eventsText evs)
    | ["setdelay", h, d] => match s.setInputDelay b.now (h.toNat?.getD 0) (d.toNat?.getD 0) with
      | .ok (s, r) => fin s (unitResultText r) | .error site => panicAt site
    | ["disc", h] => match s.disconnectPlayer b.now (h.toNat?.getD 0) with
      | .ok (s, r) => fin s (unitResultText r) | .error site => panicAt site
    | ["stats", h] => match s.networkStats b.now (h.toNat?.getD 0) with
      | .ok (.err e) => fin s s!"err {errText e}"
      | .ok (.ok p q l r) => fin s s!"ok {p} {q} {l} {r}"
      | .error site => panicAt site
    | _ => fin s "unsupported"
  | .spec s0 =>
    let host := (loadTape [(s0.host.peerAddr, s0.host)] b.sent).head!.2
    let s := { s0 with host, outbox := [] }
    let fin (s : Spectator) (res : String) : StepOut :=
      { next := .spec { s with outbox := [] }, result := res, outbox := s.outbox, snap := specSnapshot s,
        tapeBad := tapeProblem [(0, s.host)] }
    match b.call with
    | ["poll"] => match s.pollRemoteClients b.now b.recv with
      | .ok s => fin s "ok" | .error site => panicAt site
    | ["adv"] => match s.advanceFrame b.now b.recv with
      | .ok (s, r) => fin s (advResultText r) | .error site => panicAt site
    | ["events"] => let (s, evs) := s.events; fin s (eventsText evs)
    | ["stats"] => match s.host.networkStats b.now with
      | .notSynchronized => fin s "err NotSynchronized"
      | .notEnoughData => fin s "err NotEnoughData"
      | .ok p q l r => fin s s!"ok {p} {q} {l} {r}"
    | _ => fin s "unsupported"
  | .sync s =>
    let fin (s : SyncTest) (res : String) : StepOut :=
      let s := match b.game with | some g => s.userExecute (parseSaves g) | none => s
      { next := .sync s, result := res, outbox := [], snap := [("cur", toString s.sync.currentFrame)] }
    match b.call with
    | ["adv"] => match s.advanceFrame with
      | .ok (s, r) => fin s (advResultText r) | .error site => panicAt site
    | ["addin", h, v] =>
      let (s, r) := s.addLocalInput (h.toNat?.getD 0) (UInt8.ofNat (v.toNat?.getD 0))
      fin s (unitResultText r)
    | _ => fin s "unsupported"

/-- Events are compared per remote address (order within an address is kept): the interleaving of
different addresses inside one poll follows the session's `HashMap` iteration order (C17 is about
exactly this projection). DesyncDetected events of one address are compared as a set for the
same reason (`pending_checksums` is a `HashMap`). When the queue was trimmed (never-drained
sessions) only the number of events is compared. -/
def canonEvents (r : String) : String :=
  match words r with
  | ["ev", evs] =>
    let l := evs.splitOn ";"
    if l.length ≥ MAX_EVENT_QUEUE_SIZE then s!"ev #{l.length}" else
    let addrs := l.foldl (fun acc e => if acc.contains (eventAddr e) then acc else acc ++ [eventAddr e]) []
    let addrs := addrs.mergeSort (· ≤ ·)
    let groups := addrs.map fun a =>
      let g := l.filter (eventAddr · == a)
      let (ds, other) := g.partition (·.startsWith "DesyncDetected")
      ";".intercalate (other ++ ds.mergeSort (· ≤ ·))
    "ev " ++ " | ".intercalate groups
  | _ => r

/-- Compares one block. -/
def checkBlock (m : SessModel) (b : Block) : SessModel × Option Mismatch × Option String :=
  let out := stepModel m b
  let mk (cls impl model : String) : Option Mismatch := some ⟨"", b.sid, b.lineNo, cls, impl, model⟩
  let callName := b.call.headD "?"
  let mis : Option Mismatch :=
    if canonEvents out.result != canonEvents b.result then mk s!"result:{callName}" b.result out.result
    else if b.result == "PANIC" then none
    else match compareWire b.sent out.outbox with
      | some (c, i, mo) => mk c i mo
      | none =>
        if out.tapeBad then mk "wire:SyncRequest" "handshake requests on the wire" "model drew a different number of nonces"
        else match compareSnap b.snap out.snap with
          | some (c, i, mo) => mk c i mo
          | none => none
  (out.next, mis, out.panicSite)

structure AcceptState where
  models : List (Nat × SessModel) := []
  diverged : List Nat := []
  mismatches : List Mismatch := []
  blocks : Nat := 0
  accepted : Nat := 0
  sessions : Nat := 0
  cur : Option Block := none
  scenario : String := ""
  scenarios : Nat := 0
  notes : List String := []

def setModel (l : List (Nat × SessModel)) (sid : Nat) (m : SessModel) : List (Nat × SessModel) :=
  if l.any (·.1 == sid) then l.map fun (a, x) => if a == sid then (a, m) else (a, x) else l ++ [(sid, m)]

def finishBlock (st : AcceptState) : AcceptState :=
  match st.cur with
  | none => st
  | some b =>
    let st := { st with cur := none, blocks := st.blocks + 1 }
    if st.diverged.contains b.sid then st else
    match st.models.find? (·.1 == b.sid) with
    | none => st
    | some (_, m) =>
      let (m', mis, site) := checkBlock m b
      let st := match site with
        | some x => { st with notes := st.notes ++ [s!"NOTE scenario={st.scenario} sid={b.sid} line={b.lineNo} call={" ".intercalate b.call} model-panic={x}"] }
        | none => st
      match mis with
      | none => { st with models := setModel st.models b.sid m', accepted := st.accepted + 1 }
      | some x => { st with diverged := st.diverged ++ [b.sid],
                            mismatches := st.mismatches ++ [{ x with scenario := st.scenario }] }

def acceptLine (st : AcceptState) (lineNo : Nat) (line : String) : AcceptState :=
  match words line with
  | "SCENARIO" :: name :: _ =>
    let st := finishBlock st
    { st with models := [], diverged := [], scenario := name, scenarios := st.scenarios + 1 }
  | "SESSION" :: sid :: kind :: rest =>
    let st := finishBlock st
    let sid := sid.toNat?.getD 0
    match makeSession kind rest with
    | some m => { st with models := setModel st.models sid m, sessions := st.sessions + 1 }
    | none => { st with diverged := st.diverged ++ [sid],
                        mismatches := st.mismatches ++ [⟨st.scenario, sid, lineNo, "build", "session built", "model rejects the configuration"⟩] }
  | "C" :: sid :: now :: call =>
    let st := finishBlock st
    { st with cur := some { lineNo, sid := sid.toNat?.getD 0, now := now.toNat?.getD 0, call } }
  | "R" :: from_ :: rest =>
    match st.cur, parseMsg rest with
    | some b, some m => { st with cur := some { b with recv := b.recv ++ [(from_.toNat?.getD 0, m)] } }
    | _, _ => st
  | "O" :: to :: rest =>
    match st.cur with
    | some b => { st with cur := some { b with sent := b.sent ++ [(to.toNat?.getD 0, " ".intercalate rest)] } }
    | none => st
  | "=" :: rest =>
    match st.cur with
    | some b => { st with cur := some { b with result := " ".intercalate rest } }
    | none => st
  | "G" :: rest =>
    match st.cur with
    | some b => { st with cur := some { b with game := some rest } }
    | none => st
  | "A" :: rest =>
    match st.cur with
    | some b => { st with cur := some { b with snap := rest } }
    | none => st
  | _ => st

end Ggrs.Driver
