/-
Executable monitors, one per property. They read observables only (API results, request lists,
events, the wire, the read-only snapshot) of an *implementation* trace; the same definitions are
what the model-level theorems talk about.
-/
import GgrsModel.Driver.Scen

namespace Ggrs.Driver
open Ggrs

/-- Everything the monitors need about one scenario, computed once. -/
structure Ctx where
  sc : Scen
  p2p : List SessInfo
  sims : List (Nat × List Sim)
  streams : List (Nat × Stream)          -- handle → stream (from the owner's calls)
  lastCall : List (Nat × CallRec)        -- last call block of each session
  anyDisconnect : Bool
  anyPanic : Bool
  deriving Inhabited

def mkCtx (sc : Scen) : Ctx :=
  let p2p := sc.sessions.filter (·.kind == "p2p")
  let sims := sc.sessions.map fun s => (s.sid, simsOf sc s.sid)
  let streams := (sc.sessions.filter (·.kind != "spec")).flatMap fun s => streamsOf sc s
  let lastCall := sc.sessions.filterMap fun s =>
    (sc.calls.toList.reverse.find? (·.sid == s.sid)).map fun c => (s.sid, c)
  let anyDisconnect := sc.calls.any fun c =>
    (c.call.headD "" == "disc" && c.result == "ok") ||
    (c.call == ["events"] && (c.result.splitOn "Disconnected:").length > 1) ||
    c.status.any (·.1) ||
    -- an endpoint (player or spectator) that left the Running state
    ((kvGet c.snap "eps").getD "_" |>.splitOn ",").any (fun t => match t.splitOn ":" with
      | _ :: _ :: st :: _ => st == "3" || st == "4"
      | _ => false)
  let anyPanic := sc.calls.any (·.result == "PANIC")
  { sc, p2p, sims, streams, lastCall, anyDisconnect, anyPanic }

def Ctx.simsFor (cx : Ctx) (sid : Nat) : List Sim := ((cx.sims.find? (·.1 == sid)).map (·.2)).getD []

def Ctx.truth (cx : Ctx) (h : Nat) (f : Int) : Option Nat :=
  match cx.streams.find? (·.1 == h) with
  | none => none
  | some (_, s) => if f < 0 then none else s.vals[f.toNat]?

def Ctx.finalSnap (cx : Ctx) (sid : Nat) (k : String) : Option Int :=
  -- last call block of the session that is not a panic
  (cx.sc.calls.toList.reverse.find? fun c => c.sid == sid && c.result != "PANIC").bind (·.snapInt k)

/-- Snapshot value after the session's last successful `advance_frame` call: the properties about
simulated timelines speak about the moments the session had the chance to re-simulate (inputs
that arrive in a later bare poll are only applied by the next `advance_frame`). -/
def Ctx.lastAdvSnap (cx : Ctx) (sid : Nat) (k : String) : Option Int :=
  (cx.sc.calls.toList.reverse.find? fun c => c.sid == sid && c.isAdvOk).bind (·.snapInt k)

def mkF (cx : Ctx) (prop clause : String) (sid lineNo : Nat) (detail : String) : Finding :=
  ⟨prop, clause, cx.sc.name, sid, lineNo, detail⟩

/-- The last simulation of every frame: frame → Sim. -/
def lastSims (sims : List Sim) : List (Int × Sim) :=
  sims.foldl (fun acc s => (s.frame, s) :: acc.filter (·.1 != s.frame)) []

/-! ### C01 — confirmed timeline = serial replay of the true inputs -/

def monitorC01 (cx : Ctx) : List Finding := Id.run do
  if cx.anyDisconnect then return []
  let mut out : List Finding := []
  for s in cx.p2p do
    let sims := cx.simsFor s.sid
    let last := lastSims sims
    let conf := (cx.lastAdvSnap s.sid "conf").getD (-1)
    let cur := (cx.lastAdvSnap s.sid "cur").getD 0
    for (f, sim) in last do
      if f ≤ conf && f < cur then
        for (v, st, h) in (sim.inputs.zipIdx.map fun ((v, st), h) => (v, st, h)) do
          match cx.truth h f with
          | some t =>
            if t != v then
              out := mkF cx "C01" "timeline" s.sid sim.lineNo
                s!"frame {f} player {h}: last simulation used {v} ({st}), the player's true input is {t}" :: out
          | none =>
            out := mkF cx "C01" "timeline" s.sid sim.lineNo
              s!"frame {f} ≤ confirmed {conf} but player {h} never submitted an input for it" :: out
  -- states of mutually confirmed frames agree between peers (checksums the games saved)
  let saved (sid : Nat) : List (Int × Nat) :=
    cx.sc.calls.foldl (fun acc c => if c.sid != sid then acc else
      c.gtoks.foldl (fun acc t => match t with
        | .s r _ cs => (r, cs) :: acc.filter (·.1 != r)
        | _ => acc) acc) []
  match cx.p2p with
  | [] => pure ()
  | a :: rest =>
    let sa := saved a.sid
    let ca := (cx.lastAdvSnap a.sid "lcf").getD (-1)
    for b in rest do
      let sb := saved b.sid
      let cb := (cx.lastAdvSnap b.sid "lcf").getD (-1)
      for (f, cs) in sa do
        if f < min ca cb then
          match sb.find? (·.1 == f) with
          | some (_, cs') =>
            if cs != cs' then
              out := mkF cx "C01" "agree" b.sid 0
                s!"state saved for confirmed frame {f} differs between session {a.sid} ({cs}) and session {b.sid} ({cs'})" :: out
          | none => pure ()
  return out.reverse

/-! ### C02 — request lists are executable and frame-consistent -/

def monitorC02 (cx : Ctx) : List Finding := Id.run do
  let mut out : List Finding := []
  for s in cx.sc.sessions do
    let lockstep := s.nat "mp" 8 == 0
    let mut lastSaved : List (Int × Nat) := []      -- frame → checksum of the newest save
    -- saved frames whose state still belongs to the current timeline (`Chk`'s `valid`): an
    -- AdvanceFrame executed at frame g re-writes frame g, so every state saved for a later
    -- frame is from then on a state of an abandoned timeline
    let mut validSaved : List Int := []
    let mut savedZero := false
    let mut prevCur : Int := if s.kind == "spec" then -1 else 0
    for c in cx.sc.calls do
      if c.sid != s.sid then continue
      if c.call == ["adv"] then
        match c.requests with
        | none => pure ()
        | some reqs =>
          let toks := c.reqToks
          -- walk requests and game tokens together
          let mut gi := 0
          let mut gameFrame : Option Int := none
          for r in reqs do
            let tok : Option GTok := toks[gi]?
            gi := gi + 1
            match r, tok with
            | Req.save f, some (GTok.s _ g cs) =>
              if s.kind == "spec" then
                out := mkF cx "C02" "spectator-only-advance" s.sid c.lineNo s!"spectator got SaveGameState {f}" :: out
              if g != f then
                out := mkF cx "C02" "save-frame" s.sid c.lineNo s!"SaveGameState names frame {f} but the game is at frame {g}" :: out
              lastSaved := (f, cs) :: lastSaved.filter (·.1 != f)
              validSaved := f :: validSaved.filter (· != f)
              if f == 0 then savedZero := true
              gameFrame := some g
            | Req.load f, some (GTok.l _ lf cs) =>
              let before := gameFrame.getD prevCur
              if f ≥ before then
                out := mkF cx "C02" "load-earlier" s.sid c.lineNo s!"LoadGameState {f} is not earlier than the game frame {before}" :: out
              match lf, cs with
              | some lf, some cs =>
                if lf != f then
                  out := mkF cx "C02" "load-cell" s.sid c.lineNo s!"LoadGameState {f}: the cell holds frame {lf}" :: out
                match lastSaved.find? (·.1 == f) with
                | some (_, cs') =>
                  if cs != cs' then
                    out := mkF cx "C02" "load-cell" s.sid c.lineNo s!"LoadGameState {f}: the cell does not hold the newest state saved for that frame" :: out
                | none =>
                  out := mkF cx "C02" "load-cell" s.sid c.lineNo s!"LoadGameState {f}: frame was never saved" :: out
                if lastSaved.any (·.1 == f) && !validSaved.contains f then
                  out := mkF cx "C02" "load-stale" s.sid c.lineNo
                    s!"LoadGameState {f}: the state saved for frame {f} belongs to an abandoned timeline (an earlier frame was re-simulated after that save and frame {f} was not saved again)" :: out
              | _, _ =>
                out := mkF cx "C02" "load-cell" s.sid c.lineNo s!"LoadGameState {f}: the cell is empty" :: out
              gameFrame := some f
            | Req.advance _, some (GTok.a g) =>
              if !lockstep && s.kind == "p2p" && g == 0 && !savedZero then
                out := mkF cx "C02" "save-zero-first" s.sid c.lineNo "frame 0 simulated before any save of frame 0" :: out
              match gameFrame with
              | some gf => if gf != g then
                  out := mkF cx "C02" "gapless" s.sid c.lineNo s!"AdvanceFrame executed at game frame {g}, expected {gf}" :: out
              | none => pure ()
              validSaved := validSaved.filter (· ≤ g)
              gameFrame := some (g + 1)
            | _, _ =>
              out := mkF cx "C02" "shape" s.sid c.lineNo "request list and game log do not line up" :: out
          -- after the last request
          let cur := (c.snapInt "cur").getD prevCur
          let gameNow : Int := match gameFrame with
            | some g => g
            | none => if s.kind == "spec" then prevCur + 1 else prevCur
          let expectGame := if s.kind == "spec" then cur + 1 else cur
          if reqs.length > 0 && gameNow != expectGame then
            out := mkF cx "C02" "frame-after" s.sid c.lineNo s!"after the requests the game is at frame {gameNow}, current_frame() says {cur}" :: out
          if s.kind != "spec" && !(cur == prevCur || cur == prevCur + 1) then
            out := mkF cx "C02" "delta" s.sid c.lineNo s!"current_frame() went from {prevCur} to {cur} in one call" :: out
      match c.snapInt "cur" with
      | some x => prevCur := x
      | none => pure ()
  return out.reverse

/-! ### C03 — input status is truthful, confirmed inputs are final -/

def predictOf (s : SessInfo) (v : Nat) : Nat := if kvGet s.cfg "pred" == some "D" then 0 else v

def monitorC03 (cx : Ctx) : List Finding := Id.run do
  let mut out : List Finding := []
  for s in cx.p2p do
    let locals := s.localHandles
    let sims := cx.simsFor s.sid
    let mut prevConf : Int := -1
    -- confirmed_frame never decreases
    for c in cx.sc.calls do
      if c.sid != s.sid then continue
      match c.snapInt "conf" with
      | some cf =>
        if cf < prevConf then
          out := mkF cx "C03" "monotone" s.sid c.lineNo s!"confirmed_frame() went from {prevConf} to {cf}" :: out
        prevConf := cf
      | none => pure ()
    -- status clauses, checked against the connection status right after the call
    let mut finalVals : List (Int × List Nat) := []    -- frames at or below confirmed_frame(): values handed out
    for sim in sims do
      let c := cx.sc.calls[sim.callIdx]!
      let st := c.status
      let conf := (c.snapInt "conf").getD (-1)
      for ((v, ch), h) in sim.inputs.zipIdx do
        let (disc, lastF) := st.getD h (false, -1)
        if locals.contains h && ch != 'C' then
          out := mkF cx "C03" "local-confirmed" s.sid sim.lineNo s!"frame {sim.frame}: local player {h} handed out as {ch}" :: out
        if ch == 'C' then
          if sim.frame > lastF then
            out := mkF cx "C03" "confirmed-received" s.sid sim.lineNo s!"frame {sim.frame} player {h}: Confirmed but the last frame received from that player is {lastF}" :: out
          match cx.truth h sim.frame with
          | some t => if t != v then
              out := mkF cx "C03" "confirmed-real" s.sid sim.lineNo s!"frame {sim.frame} player {h}: Confirmed {v}, real input {t}" :: out
          | none => pure ()
        else if ch == 'P' then
          let expect := if lastF < 0 then some 0 else (cx.truth h lastF).map (predictOf s)
          match expect with
          | some e => if e != v then
              out := mkF cx "C03" "predicted" s.sid sim.lineNo s!"frame {sim.frame} player {h}: Predicted {v}, predictor on the newest received input (frame {lastF}) gives {e}" :: out
          | none => pure ()
        else if ch == 'D' then
          if v != 0 || !disc || !(lastF < sim.frame) then
            out := mkF cx "C03" "disconnected" s.sid sim.lineNo s!"frame {sim.frame} player {h}: Disconnected with value {v}, status ({disc},{lastF})" :: out
      -- finality of frames at or below confirmed_frame()
      let vals := sim.inputs.map (·.1)
      match finalVals.find? (·.1 == sim.frame) with
      | some (_, old) =>
        if old != vals then
          out := mkF cx "C03" "final" s.sid sim.lineNo s!"frame {sim.frame} was at or below confirmed_frame() and is re-simulated with other inputs" :: out
      | none => pure ()
      if sim.frame ≤ conf then finalVals := (sim.frame, vals) :: finalVals.filter (·.1 != sim.frame)
  return out.reverse

/-! ### C04 — speculation bounded; lockstep never speculates -/

def monitorC04 (cx : Ctx) : List Finding := Id.run do
  let mut out : List Finding := []
  for s in cx.p2p do
    let mp : Int := s.nat "mp" 8
    let sims := cx.simsFor s.sid
    for sim in sims do
      let c := cx.sc.calls[sim.callIdx]!
      if sim.nth == 1 then
        -- newest frame for which every connected player's input is held, at the time of the call
        let conf := (c.snapInt "conf").getD (-1)
        if sim.frame > conf + mp then
          out := mkF cx "C04" "window" s.sid sim.lineNo s!"first simulation of frame {sim.frame} with all inputs only up to {conf} (window {mp})" :: out
      if mp == 0 then
        if sim.inputs.any fun (_, ch) => ch == 'P' then
          out := mkF cx "C04" "lockstep-status" s.sid sim.lineNo s!"lockstep frame {sim.frame} carries a Predicted input" :: out
    let mut prevCur : Int := 0
    for c in cx.sc.calls do
      if c.sid != s.sid then continue
      if c.call == ["adv"] then
        match c.requests with
        | none => pure ()
        | some reqs =>
          let toks := c.reqToks
          let mut gameFrame : Int := prevCur
          for (r, t) in reqs.zip toks do
            match r, t with
            | Req.load f, _ =>
              if gameFrame - f > mp then
                out := mkF cx "C04" "load-window" s.sid c.lineNo s!"LoadGameState {f} with the game at frame {gameFrame} (window {mp})" :: out
              gameFrame := f
            | Req.advance _, GTok.a g => gameFrame := g + 1
            | _, _ => pure ()
          if mp == 0 then
            if reqs.any fun r => match r with | .advance _ => false | _ => true then
              out := mkF cx "C04" "lockstep-saveload" s.sid c.lineNo "lockstep session issued a save or load request" :: out
            let cur := (c.snapInt "cur").getD prevCur
            if !(reqs.any fun r => match r with | .advance _ => true | _ => false) && cur != prevCur then
              out := mkF cx "C04" "lockstep-stall" s.sid c.lineNo s!"stalled call moved current_frame() from {prevCur} to {cur}" :: out
      match c.snapInt "cur" with
      | some x => prevCur := x
      | none => pure ()
  return out.reverse

/-- No API call may panic (every property that says "never panics" shares this clause). -/
def monitorPanics (cx : Ctx) (prop : String) : List Finding :=
  cx.sc.calls.toList.filterMap fun c =>
    if c.result == "PANIC" then some (mkF cx prop "panic" c.sid c.lineNo s!"{" ".intercalate c.call} panicked") else none

def runMonitor (prop : String) (cx : Ctx) : List Finding :=
  match prop with
  | "C01" => monitorC01 cx ++ (if cx.anyDisconnect then [] else monitorPanics cx "C01")
  | "C02" => monitorC02 cx ++
      -- a call that dies in the library's own assertions produced no executable list at all
      (if cx.anyDisconnect then [] else monitorPanics cx "C02") ++
      -- executing the returned lists must keep the game on the session's timeline: if the game's
      -- last simulation of a frame misses an input the session had received, some requests were
      -- withheld from (or never issued to) the user
      ((monitorC01 cx).filterMap fun f =>
        if f.clause == "timeline" then some { f with prop := "C02", clause := "executed-timeline" } else none)
  | "C03" => monitorC03 cx
  | "C04" => monitorC04 cx ++
      -- the library's own window assertions firing is the same violation, seen from inside
      (if cx.anyDisconnect then [] else monitorPanics cx "C04")
  | _ => []

end Ggrs.Driver
