/-
C17 — Session behaviour is a function of its inputs, not of hash order.

The Rust code keeps the per-frame inputs of an endpoint in a `HashMap<PlayerHandle, PlayerInput>`;
the model keeps them in a list, whose order stands for the map's iteration order. Proved: the
bytes an endpoint puts on the wire for a frame (`InputBytes::from_inputs`) do not depend on that
order — any permutation of the entries gives the same bytes, because they are assembled by probing
the handles in ascending order. (The executable model fixes ascending iteration everywhere else;
the repetition check of C17 runs every scenario three times with fresh hash states.)
-/
import GgrsModel.Model.P2P

namespace Ggrs.Endpoint

theorem find_key_iff (l : List (Nat × PlayerInput)) (hnd : l.Pairwise (fun a b => a.1 ≠ b.1)) (h : Nat)
    (x : Nat × PlayerInput) : l.find? (·.1 == h) = some x ↔ x ∈ l ∧ x.1 = h := by
  induction l with
  | nil => simp
  | cons y ys ih =>
    have hp := List.pairwise_cons.mp hnd
    simp only [List.find?_cons]
    by_cases hy : (y.1 == h) = true
    · simp only [hy]
      constructor
      · intro he; cases he; exact ⟨List.mem_cons_self, by simpa using hy⟩
      · rintro ⟨hm, hk⟩
        rcases List.mem_cons.mp hm with rfl | hin
        · rfl
        · have := hp.1 x hin
          simp at hy
          exact absurd (hy.trans hk.symm) this
    · simp only [hy]
      rw [ih hp.2]
      constructor
      · rintro ⟨hm, hk⟩; exact ⟨List.mem_cons_of_mem _ hm, hk⟩
      · rintro ⟨hm, hk⟩
        rcases List.mem_cons.mp hm with rfl | hin
        · exact absurd (by simpa using hk) hy
        · exact ⟨hin, hk⟩

theorem find_perm (l l' : List (Nat × PlayerInput)) (hperm : l.Perm l')
    (hnd : l.Pairwise (fun a b => a.1 ≠ b.1)) (h : Nat) :
    l.find? (·.1 == h) = l'.find? (·.1 == h) := by
  have hnd' : l'.Pairwise (fun a b => a.1 ≠ b.1) :=
    hperm.pairwise hnd (fun hab hba => hab hba.symm |>.elim) |> fun _ => by
      exact (List.Perm.pairwise_iff (fun {a b} (hab : a.1 ≠ b.1) => fun hba => hab hba.symm) hperm).mp hnd
  apply Option.ext
  intro x
  rw [find_key_iff l hnd h x, find_key_iff l' hnd' h x]
  constructor
  · rintro ⟨hm, hk⟩; exact ⟨hperm.mem_iff.mp hm, hk⟩
  · rintro ⟨hm, hk⟩; exact ⟨hperm.mem_iff.mpr hm, hk⟩

/-- **C17, wire bytes.** The frame number and bytes assembled for an endpoint do not depend on the
order in which the map of local inputs is traversed. -/
theorem C17_from_inputs_order (numPlayers : Nat) (inputs inputs' : List (Nat × PlayerInput))
    (hperm : inputs.Perm inputs') (hnd : inputs.Pairwise (fun a b => a.1 ≠ b.1)) :
    fromInputs numPlayers inputs = fromInputs numPlayers inputs' := by
  unfold fromInputs
  have key : ∀ (hs : List Nat) (frame : Frame) (bytes : Codec.Bytes),
      fromInputs.go inputs hs frame bytes = fromInputs.go inputs' hs frame bytes := by
    intro hs
    induction hs with
    | nil => intro frame bytes; simp [fromInputs.go]
    | cons h hs ih =>
      intro frame bytes
      unfold fromInputs.go
      rw [find_perm inputs inputs' hperm hnd h]
      cases inputs'.find? (·.1 == h) with
      | none => exact ih frame bytes
      | some p =>
        obtain ⟨_, inp⟩ := p
        simp only [bind, Except.bind]
        split
        · rfl
        · exact ih _ _
  exact key _ _ _

end Ggrs.Endpoint
