/-
C17 — Session behaviour is a function of its inputs, not of hash order.

The Rust code keeps the per-frame inputs of an endpoint in a `HashMap<PlayerHandle, PlayerInput>`;
the model keeps them in a list, whose order stands for the map's iteration order. Proved: the
bytes an endpoint puts on the wire for a frame (`InputBytes::from_inputs`) do not depend on that
order — any permutation of the entries gives the same bytes, because they are assembled by probing
the handles in ascending order. (The executable model fixes ascending iteration everywhere else;
the repetition check of C17 runs every scenario three times with fresh hash states.)
-/
import GgrsModel.Model.Inventory
import GgrsModel.Model.Sites.P2pSession
import GgrsModel.Model.Sites.Protocol
import GgrsModel.Model.Sites.SyncTestSession
import GgrsModel.Model.P2P
import GgrsModel.Model.SyncTest
import GgrsModel.Proofs.Monad
import GgrsModel.Proofs.Queue

namespace Ggrs.Endpoint

theorem find_key_iff (l : List (Nat × PlayerInput)) (hnd : l.Pairwise (fun a b => a.1 ≠ b.1)) (h : Nat)
    (x : Nat × PlayerInput) : l.find? (·.1 == h) = some x ↔ x ∈ l ∧ x.1 = h := by
  induction l with
  | nil => simp
  | cons y ys ih =>
    have hp := List.pairwise_cons.mp hnd
    simp only [List.find?_cons]
    by_cases hy : (y.1 == h) = true
    · simp only [hy]
      constructor
      · intro he; cases he; exact ⟨List.mem_cons_self, by simpa using hy⟩
      · rintro ⟨hm, hk⟩
        rcases List.mem_cons.mp hm with rfl | hin
        · rfl
        · have := hp.1 x hin
          simp at hy
          exact absurd (hy.trans hk.symm) this
    · simp only [hy]
      rw [ih hp.2]
      constructor
      · rintro ⟨hm, hk⟩; exact ⟨List.mem_cons_of_mem _ hm, hk⟩
      · rintro ⟨hm, hk⟩
        rcases List.mem_cons.mp hm with rfl | hin
        · exact absurd (by simpa using hk) hy
        · exact ⟨hin, hk⟩

theorem find_perm (l l' : List (Nat × PlayerInput)) (hperm : l.Perm l')
    (hnd : l.Pairwise (fun a b => a.1 ≠ b.1)) (h : Nat) :
    l.find? (·.1 == h) = l'.find? (·.1 == h) := by
  have hnd' : l'.Pairwise (fun a b => a.1 ≠ b.1) :=
    hperm.pairwise hnd (fun hab hba => hab hba.symm |>.elim) |> fun _ => by
      exact (List.Perm.pairwise_iff (fun {a b} (hab : a.1 ≠ b.1) => fun hba => hab hba.symm) hperm).mp hnd
  apply Option.ext
  intro x
  rw [find_key_iff l hnd h x, find_key_iff l' hnd' h x]
  constructor
  · rintro ⟨hm, hk⟩; exact ⟨hperm.mem_iff.mp hm, hk⟩
  · rintro ⟨hm, hk⟩; exact ⟨hperm.mem_iff.mpr hm, hk⟩

/-- **C17, wire bytes.** The frame number and bytes assembled for an endpoint do not depend on the
order in which the map of local inputs is traversed. -/
theorem C17_from_inputs_order (numPlayers : Nat) (inputs inputs' : List (Nat × PlayerInput))
    (hperm : inputs.Perm inputs') (hnd : inputs.Pairwise (fun a b => a.1 ≠ b.1)) :
    fromInputs numPlayers inputs = fromInputs numPlayers inputs' := by
  unfold fromInputs
  have key : ∀ (hs : List Nat) (frame : Frame) (bytes : Codec.Bytes),
      fromInputs.go inputs hs frame bytes = fromInputs.go inputs' hs frame bytes := by
    intro hs
    induction hs with
    | nil => intro frame bytes; simp [fromInputs.go]
    | cons h hs ih =>
      intro frame bytes
      unfold fromInputs.go
      rw [find_perm inputs inputs' hperm hnd h]
      cases inputs'.find? (·.1 == h) with
      | none => exact ih frame bytes
      | some p =>
        obtain ⟨_, inp⟩ := p
        simp only [bind, Except.bind]
        split
        · rfl
        · exact ih _ _
  exact key _ _ _

end Ggrs.Endpoint

namespace Ggrs

/-- Two local inputs for different players go into the sync layer in either order. -/
theorem addLocalInput_swap (sy sy1 sy2 : SyncLayer) (h1 h2 : Nat) (i1 i2 : PlayerInput) (f1 f2 : Frame)
    (hne : h1 ≠ h2) (ha : sy.addLocalInput h1 i1 = .ok (sy1, f1)) (hb : sy1.addLocalInput h2 i2 = .ok (sy2, f2)) :
    ∃ sy1', sy.addLocalInput h2 i2 = .ok (sy1', f2) ∧ sy1'.addLocalInput h1 i1 = .ok (sy2, f1) := by
  unfold SyncLayer.addLocalInput at ha hb
  obtain ⟨hfa, ha⟩ := ensure_bind_ok ha
  obtain ⟨hla, ha⟩ := ensure_bind_ok ha
  obtain ⟨ra, hqa, ha⟩ := bind_ok ha
  obtain ⟨qa, fa⟩ := ra
  have ha := pure_ok ha
  simp only [Prod.mk.injEq] at ha
  obtain ⟨hsy1, hf1⟩ := ha
  subst hsy1
  obtain ⟨hfb, hb⟩ := ensure_bind_ok hb
  obtain ⟨hlb, hb⟩ := ensure_bind_ok hb
  obtain ⟨rb, hqb, hb⟩ := bind_ok hb
  obtain ⟨qb, fb⟩ := rb
  have hb := pure_ok hb
  simp only [Prod.mk.injEq] at hb
  obtain ⟨hsy2, hf2⟩ := hb
  simp only at hfb hlb hqb hsy2 hf1 hf2
  have hl1 : h1 < sy.queues.length := of_decide_eq_true hla
  have hl2 : h2 < sy.queues.length := by
    have : h2 < (rset sy.queues h1 qa).length := of_decide_eq_true hlb
    rwa [rset_length] at this
  have hg2 : rget (rset sy.queues h1 qa) h2 = rget sy.queues h2 := rget_rset_ne _ _ _ _ hne
  rw [hg2] at hqb
  refine ⟨{ sy with queues := rset sy.queues h2 qb }, ?_, ?_⟩
  · unfold SyncLayer.addLocalInput
    simp only [ensure, hfb, hl2, decide_true, if_true, bind, Except.bind, hqb, pure, Except.pure, hf2]
  · unfold SyncLayer.addLocalInput
    have hg1 : rget (rset sy.queues h2 qb) h1 = rget sy.queues h1 := rget_rset_ne _ _ _ _ (fun e => hne e.symm)
    have hl1' : h1 < (rset sy.queues h2 qb).length := by rw [rset_length]; exact hl1
    simp only [ensure, hfa, hl1', decide_true, if_true, bind, Except.bind, hg1, hqa, pure, Except.pure, hf1]
    rw [← hsy2]
    congr 3
    simp only [rset]
    exact (List.set_comm _ _ hne).symm

/-- **C17, sync test.** `SyncTestSession::advance_frame` walks its `HashMap` of local inputs in hash
order; the model walks a list. Whatever the order, the sync layer ends up in the same state: any
permutation of the entries (one per player) gives the same result. -/
theorem C17_synctest_input_order (l l' : List (Nat × PlayerInput)) (hperm : l.Perm l')
    (hnd : l.Pairwise (fun a b => a.1 ≠ b.1)) (sy r : SyncLayer)
    (h : SyncTest.addLocalInputs l sy = .ok r) : SyncTest.addLocalInputs l' sy = .ok r := by
  induction hperm generalizing sy with
  | nil => exact h
  | cons x _ ih =>
    obtain ⟨hd, inp⟩ := x
    simp only [SyncTest.addLocalInputs] at h ⊢
    obtain ⟨r1, h1, h⟩ := bind_ok h
    obtain ⟨sy1, f1⟩ := r1
    simp only at h
    have hp := List.pairwise_cons.mp hnd
    simp only [bind, Except.bind, h1]
    exact ih hp.2 sy1 h
  | swap x y l =>
    obtain ⟨hx, ix⟩ := x
    obtain ⟨hy, iy⟩ := y
    simp only [SyncTest.addLocalInputs] at h ⊢
    obtain ⟨r1, h1, h⟩ := bind_ok h
    obtain ⟨sy1, f1⟩ := r1
    simp only at h
    obtain ⟨r2, h2, h⟩ := bind_ok h
    obtain ⟨sy2, f2⟩ := r2
    simp only at h
    have hp := List.pairwise_cons.mp hnd
    have hne : hy ≠ hx := hp.1 (hx, ix) List.mem_cons_self
    obtain ⟨sy1', ha, hb⟩ := addLocalInput_swap sy sy1 sy2 hy hx iy ix f1 f2 hne h1 h2
    simp only [bind, Except.bind, ha, hb]
    exact h
  | trans p1 _ ih1 ih2 =>
    have hnd2 := (List.Perm.pairwise_iff (fun {a b} (hab : a.1 ≠ b.1) => fun hba => hab hba.symm) p1).mp hnd
    exact ih2 hnd2 sy (ih1 hnd sy h)

/-- **C17, disconnect gossip.** `update_player_disconnects` combines what the running endpoints
report about a player by walking the `HashMap` of remotes; the combination (AND of "connected",
minimum of the last frames) does not depend on the order of the walk. -/
theorem C17_gossip_order (remotes remotes' : List (Nat × Endpoint)) (hperm : remotes.Perm remotes') (handle : Nat) :
    P2P.gossipOf remotes handle = P2P.gossipOf remotes' handle := by
  unfold P2P.gossipOf
  apply List.Perm.foldl_eq' hperm
  intro x _ y _ z
  unfold P2P.gossipStep
  by_cases hx : (!x.2.isRunning) = true <;> by_cases hy : (!y.2.isRunning) = true <;>
    simp only [hx, hy, if_true, if_false, Bool.false_eq_true]
  apply Prod.ext
  · simp only [Bool.and_assoc]
    rw [Bool.and_comm (!(rget x.2.peerConnectStatus handle).disconnected)]
  · simp only
    omega

/-- What one endpoint contributes to `max_frame_advantage`: its average, if it serves at least one
player that is still connected (`g` folds the average into the running maximum; doing so twice
changes nothing). -/
theorem advantage_inner (cond : Nat → Bool) (g : Option Int → Int) (hidem : ∀ m, g (some (g m)) = g m) :
    ∀ (hs : List Nat) (m : Option Int),
    hs.foldl (fun m h => if cond h = true then some (g m) else m) m = if hs.any cond = true then some (g m) else m := by
  intro hs
  induction hs with
  | nil => intro m; simp
  | cons h rest ih =>
    intro m
    simp only [List.foldl_cons, List.any_cons]
    rw [ih]
    by_cases hc : cond h = true
    · simp only [hc, if_true, Bool.true_or]
      by_cases hr : rest.any cond = true
      · simp only [hr, if_true, hidem]
      · simp only [hr, Bool.false_eq_true, if_false]
    · simp only [hc, Bool.false_eq_true, if_false, Bool.false_or]

/-- **C17, frame advantage.** `max_frame_advantage` walks the `HashMap` of remotes; the maximum it
computes (and with it `frames_ahead` and every WaitRecommendation) does not depend on the order. -/
theorem C17_frame_advantage_order (s s' : P2P) (hperm : s.remotes.Perm s'.remotes)
    (hst : s'.localConnectStatus = s.localConnectStatus) : s'.maxFrameAdvantage = s.maxFrameAdvantage := by
  simp only [P2P.maxFrameAdvantage]
  rw [hst]
  congr 1
  symm
  apply List.Perm.foldl_eq' hperm
  intro x _ y _ z
  obtain ⟨ax, ex⟩ := x
  obtain ⟨ay, ey⟩ := y
  simp only []
  have hid : ∀ (a : Int) (m : Option Int),
      (match (some (match m with | none => a | some x => max x a) : Option Int) with | none => a | some x => max x a) =
      (match m with | none => a | some x => max x a) := by
    intro a m
    cases m with
    | none => simp
    | some v => simp only; omega
  repeat (first
    | rw [advantage_inner (fun h => !(rget s.localConnectStatus h).disconnected) _ (hid ex.timeSync.averageFrameAdvantage)]
    | rw [advantage_inner (fun h => !(rget s.localConnectStatus h).disconnected) _ (hid ey.timeSync.averageFrameAdvantage)])
  by_cases hx : ex.handles.any (fun h => !(rget s.localConnectStatus h).disconnected) = true <;>
  by_cases hy : ey.handles.any (fun h => !(rget s.localConnectStatus h).disconnected) = true <;>
    simp only [hx, hy, if_true, if_false, Bool.false_eq_true]
  cases z with
  | none => simp only [Option.some.injEq]; omega
  | some v => simp only [Option.some.injEq]; omega

end Ggrs
