/-
C13 — SyncTestSession flags exactly the games that are not deterministic.

Proved: the builder rejects exactly the documented configurations (`C16_synctest_rejects`), and
the comparison step: the first checksum seen for a frame is recorded, every later save of that
frame inside the check window is compared against it. Whole-run statements (no false alarm for a
deterministic game, detection within check_distance + 2 calls) are decided on traces
(monitor C13, families sync / syncglitch).
-/
import GgrsModel.Properties.C16

namespace Ggrs.SyncTest

theorem C13_builder (b : Builder) (pred : Predictor) :
    b.startSyncTest pred = .ok none ↔ (b.checkDist ≥ b.maxPrediction ∨ b.sparse = true) :=
  Builder.C16_synctest_rejects b pred

/-- The comparison step of `checksums_consistent`, for a frame whose cell is intact and whose
first checksum is already on record: the verdict is exactly "recorded = current", and the record
is kept (so every later re-simulation inside the window is compared against the FIRST one). -/
theorem C13_compare (s : SyncTest) (f : Frame) (cell : Cell) (first : Option Nat)
    (hpruned : ∀ p ∈ s.checksumHistory, p.1 ≥ s.sync.currentFrame - s.checkDistance)
    (hcell : s.sync.savedStateByFrame f = .ok (some cell))
    (hrec : alookup cell.frame s.checksumHistory = some first) :
    s.checksumsConsistent f = .ok (s, first == cell.checksum) := by
  unfold checksumsConsistent
  have hfilter : s.checksumHistory.filter (fun p => decide (p.1 ≥ s.sync.currentFrame - (s.checkDistance : Int))) = s.checksumHistory := by
    apply List.filter_eq_self.mpr
    intro p hp; simpa using hpruned p hp
  simp only [hfilter, hcell, bind, Except.bind, hrec, pure, Except.pure]

end Ggrs.SyncTest
