/-
C13 — SyncTestSession flags exactly the games that are not deterministic.

Proved:
* `C13_no_false_alarm` — for every deterministic game (any state type, any `step`, any checksum
  function), every player count, window, check distance, input delay, and every run of the world
  "the user adds inputs / calls advance_frame / the game executes the returned requests, its
  saves reaching the cells", `advance_frame` never returns `MismatchedChecksum`: its only error is
  `InvalidRequest` (an input missing). The invariant behind it (`STInv`) says that the game's
  state, every stored state and every stored and remembered checksum is the serial replay of the
  real inputs — the same timeline contract as a P2P session with all inputs Confirmed and delayed
  as configured (`rowOf`: every re-simulated row is the full row of real, Confirmed inputs).
* the builder rejects exactly the documented configurations (`C16_synctest_rejects`);
* the comparison step: the first checksum seen for a frame is recorded, every later save of that
  frame inside the check window is compared against it (`C13_compare`).
* `C13_reports_exact` — for EVERY state, what one call reports: nothing while warming up; otherwise
  `MismatchedChecksum` exactly when some frame in `current - check_distance ..= current` has its
  cell holding that frame with a checksum different from the first one remembered inside the
  window, naming exactly those frames in ascending order (the comparison window and the pruning,
  with no off-by-one left to chance).
Decided on traces (monitor C13, families sync / syncglitch): that a non-deterministic step leads to
such a cell/history disagreement within check_distance + 2 calls, first at the frame after it.
-/
import GgrsModel.Model.Inventory
import GgrsModel.Model.Sites.SyncTestSession
import GgrsModel.Model.Sites.SyncLayer
import GgrsModel.Model.Sites.InputQueue
import GgrsModel.Model.Sites.Builder
import GgrsModel.Properties.C16
import GgrsModel.Proofs.SyncTestProof
import GgrsModel.Proofs.SyncTestWindow

namespace Ggrs.SyncTest

theorem C13_builder (b : Builder) (pred : Predictor) :
    b.startSyncTest pred = .ok none ↔ (b.checkDist ≥ b.maxPrediction ∨ b.sparse = true) :=
  Builder.C16_synctest_rejects b pred

/-- The comparison step of `checksums_consistent`, for a frame whose cell is intact and whose
first checksum is already on record: the verdict is exactly "recorded = current", and the record
is kept (so every later re-simulation inside the window is compared against the FIRST one). -/
theorem C13_compare (s : SyncTest) (f : Frame) (cell : Cell) (first : Option Nat)
    (hpruned : ∀ p ∈ s.checksumHistory, p.1 ≥ s.sync.currentFrame - s.checkDistance)
    (hcell : s.sync.savedStateByFrame f = .ok (some cell))
    (hrec : alookup cell.frame s.checksumHistory = some first) :
    s.checksumsConsistent f = .ok (s, first == cell.checksum) := by
  unfold checksumsConsistent
  have hfilter : s.checksumHistory.filter (fun p => decide (p.1 ≥ s.sync.currentFrame - (s.checkDistance : Int))) = s.checksumHistory := by
    apply List.filter_eq_self.mpr
    intro p hp; simpa using hpruned p hp
  simp only [hfilter, hcell, bind, Except.bind, hrec, pure, Except.pure]

end Ggrs.SyncTest

namespace Ggrs

/-- **C13, first half, every run.** A sync test session built with any configuration, next to any
deterministic game: whatever the user does (adding inputs, calling `advance_frame` with or without
all inputs, executing the returned requests), a call of `advance_frame` that returns at all returns
either its requests or `InvalidRequest` — never `MismatchedChecksum`. -/
theorem C13_no_false_alarm {G : Type} (step : G → List (Input × InputStatus) → G) (g0 : G) (csf : G → Option Nat)
    (N mp cd delay : Nat) (pr : Predictor) (s0 : SyncTest) (R : Nat → List (Input × InputStatus))
    (cellG : Nat → G) (tag : Nat → Int)
    (hnew : SyncTest.new N mp cd delay pr = .ok s0)
    (w : SyncTest × GS G) (hrun : STStar step csf (s0, ⟨0, R, g0, cellG, tag⟩) w)
    (s' : SyncTest) (r : Except GgrsError (List Request)) (ha : w.1.advanceFrame = .ok (s', r)) :
    (∃ reqs, r = .ok reqs) ∨ r = .error .invalidRequest := by
  have hcd0 : s0.checkDistance = cd := by
    unfold SyncTest.new at hnew
    obtain ⟨sy, _, hnew⟩ := bind_ok hnew
    rw [← pure_ok hnew]
  by_cases hcd : 0 < cd
  · have hinit := STInv_new step g0 csf N mp cd delay pr s0 R cellG tag hcd hnew
    have hinv := STInv_run step g0 csf _ w hinit hrun
    rcases STInv_tick step g0 csf w.1 s' w.2 r hinv ha with ⟨he, _⟩ | ⟨reqs, hr, _⟩
    · exact Or.inr he
    · exact Or.inl ⟨reqs, hr⟩
  · have h0 : w.1.checkDistance = 0 := cd0_run step csf _ w (by show s0.checkDistance = 0; rw [hcd0]; omega) hrun
    obtain ⟨_, herr⟩ := advanceFrame_cd0 w.1 s' r h0 ha
    cases r with
    | ok reqs => exact Or.inl ⟨reqs, rfl⟩
    | error e => rw [herr e rfl]; exact Or.inr rfl

/-- Non-vacuity: a two-player session with check distance 2 exists; with both inputs in, its calls
return requests (2 while warming up, then load, two re-simulated frames with one save, save, advance). -/
def c13Demo : Nat → SyncTest → Option (List Nat)
  | 0, _ => some []
  | n + 1, s =>
    match (((s.addLocalInput 0 3).1.addLocalInput 1 4).1).advanceFrame with
    | .ok (s', .ok reqs) => (c13Demo n (s'.userExecute (reqs.filterMap fun r => match r with
        | .save f => some (f, some f.toNat) | _ => none))).map (reqs.length :: ·)
    | _ => none

example : (match SyncTest.new 2 8 2 0 .repeatLast with
    | .ok s0 => c13Demo 5 s0
    | _ => none) = some [2, 2, 2, 6, 6] := by decide +kernel

end Ggrs

namespace Ggrs

/-- **C13, the comparison window exactly (every state).** See `advanceFrame_reports`. -/
theorem C13_reports_exact (s s' : SyncTest) (r : Except GgrsError (List Request))
    (h : s.advanceFrame = .ok (s', r)) :
    ((decide (s.checkDistance > 0) && decide (s.sync.currentFrame > (s.checkDistance : Int))) = true ∧ stReported s ≠ [] →
      r = .error (.mismatchedChecksum s.sync.currentFrame (stReported s))) ∧
    (((decide (s.checkDistance > 0) && decide (s.sync.currentFrame > (s.checkDistance : Int))) = false ∨ stReported s = []) →
      ∀ e, r = .error e → e = .invalidRequest) :=
  advanceFrame_reports s s' r h

end Ggrs

namespace Ggrs

/-- **C13, detection at the next call (every state).** Whatever the game is: if, when `advance_frame` is
called past the warm-up (`check_distance > 0`, `current_frame > check_distance`), some frame `f`
of the comparison window `current − check_distance ..= current` has been saved again with a
checksum different from the one remembered for it — which is what a re-simulation of `f` with a
different result leaves behind — then this very call returns `MismatchedChecksum`, and the frames
it names are exactly the frames of the window in that situation, in ascending order, `f` among
them (so its first entry is the first affected frame still in the window). A frame first simulated
by call `k` is re-simulated and re-saved by each of the next `check_distance` calls and stays in the
window for `check_distance + 1` calls, so a step whose result changes between simulations is
reported at the call after the re-simulation that exposes it: within `check_distance + 2` calls of
the frame's first simulation (that last step is about the request pattern, `C13_no_false_alarm`'s
world; it is decided on traces for non-deterministic games). -/
theorem C13_detects (s s' : SyncTest) (r : Except GgrsError (List Request)) (h : s.advanceFrame = .ok (s', r))
    (hcd : s.checkDistance > 0) (hcur : s.sync.currentFrame > (s.checkDistance : Int))
    (f : Frame) (hlo : s.sync.currentFrame - (s.checkDistance : Int) ≤ f) (hhi : f ≤ s.sync.currentFrame)
    (hcell : (rget s.sync.cells (frameIdx f s.sync.cells.length)).frame = f)
    (c1 : Option Nat) (hhist : alookup f s.checksumHistory = some c1)
    (hne : c1 ≠ (rget s.sync.cells (frameIdx f s.sync.cells.length)).checksum) :
    r = .error (.mismatchedChecksum s.sync.currentFrame (stReported s)) ∧ f ∈ stReported s ∧
      ∀ g, g ∈ stReported s → stMismatch s g = true := by
  have hmis : stMismatch s f = true := by
    unfold stMismatch
    simp only
    have hl : alookup f (stPruned s) = some c1 := by
      unfold stPruned
      rw [alookup_prune, if_pos hlo]; exact hhist
    rw [hl]
    simp only [hcell, beq_self_eq_true, Bool.true_and, Bool.not_eq_true']
    cases hb : (c1 == (rget s.sync.cells (frameIdx f s.sync.cells.length)).checksum) with
    | false => rfl
    | true => exact absurd (by simpa using hb) hne
  have hmem : f ∈ stReported s := by
    unfold stReported
    rw [List.mem_filterMap]
    refine ⟨(f - (s.sync.currentFrame - (s.checkDistance : Int))).toNat, ?_, ?_⟩
    · rw [List.mem_range]; omega
    · have e : s.sync.currentFrame - (s.checkDistance : Int) +
          ((0 + (f - (s.sync.currentFrame - (s.checkDistance : Int))).toNat : Nat) : Int) = f := by omega
      rw [e, hmis]; rfl
  have hall : ∀ g, g ∈ stReported s → stMismatch s g = true := by
    intro g hg
    unfold stReported at hg
    rw [List.mem_filterMap] at hg
    obtain ⟨j, _, hj⟩ := hg
    split at hj
    · rename_i hm
      cases hj
      exact hm
    · cases hj
  have hgate : (decide (s.checkDistance > 0) && decide (s.sync.currentFrame > (s.checkDistance : Int))) = true := by
    simp [hcd, hcur]
  exact ⟨(C13_reports_exact s s' r h).1 ⟨hgate, fun he => by rw [he] at hmem; cases hmem⟩, hmem, hall⟩

end Ggrs

