/-
C06 — A spectator replays exactly the host's confirmed input sequence (spectator side).

`inputsAtFrame` / `advanceFrame` model `SpectatorSession::inputs_at_frame` / `advance_frame`.

`C06_replay` (Proofs/SpecRing.lean) is the all-histories statement for the spectator's side: for
every interleaving of arriving frames (each one the players' Input events of the next frame of the
host's sequence `Hs` — that they arrive complete, once and in order is `C05_stream_intact`) and
`advance_frame` calls, the 60-slot ring holds the newest frames of `Hs`, and every call either
fails with nothing consumed — NotSynchronized; PredictionThreshold exactly when the next frame
has not arrived; SpectatorTooFarBehind exactly when the host has overwritten it — or hands out
the next `k` frames of `Hs` in order without gap or repeat, never beyond what has arrived, with
`k = 1`, or `min(catchup_speed, frames behind, 59)` while more than `max_frames_behind` frames
are buffered. Not covered by the theorem (decided on traces): the Disconnected statuses against
the host's view (the status clause is `C06_values_and_status`), non-interference of attached
spectators. The host's side is `C06_host_rows` (Proofs/SpecHost.lean): what
`send_confirmed_inputs_to_spectators` offers.
-/
import GgrsModel.Model.Inventory
import GgrsModel.Model.Sites.SpectatorSession
import GgrsModel.Model.Sites.P2pSession
import GgrsModel.Model.Sites.Protocol
import GgrsModel.Model.Spectator
import GgrsModel.Proofs.Monad
import GgrsModel.Proofs.SpecRing
import GgrsModel.Proofs.SpecHost
import GgrsModel.Proofs.DelayStep
import GgrsModel.Proofs.LockstepNet
import GgrsModel.Proofs.DropSpec
import GgrsModel.Proofs.LockstepNetDrop
import GgrsModel.Proofs.HostSpec
import GgrsModel.Proofs.Demo

namespace Ggrs.Spectator

theorem map_zipIdx_fst {α β} (l : List α) (g : α → β) (k : Nat) :
    (l.zipIdx k).map (fun x => g x.1) = l.map g := by
  induction l generalizing k with
  | nil => rfl
  | cons a as ih => simp [List.zipIdx_cons, ih]

/-- Inputs are only handed out from a ring slot that holds exactly the requested frame: an
overwritten slot (host at least one buffer length ahead) yields `SpectatorTooFarBehind`, a slot
not yet filled yields `PredictionThreshold` — never the inputs of another frame. -/
theorem C06_slot_exact (s : Spectator) (f : Frame) (r : Except GgrsError (List (Input × InputStatus)))
    (h : s.inputsAtFrame f = .ok r) :
    let slot := rget s.inputs (frameIdx f SPECTATOR_BUFFER_SIZE)
    ((rget slot 0).frame < f → r = .error .predictionThreshold) ∧
    ((rget slot 0).frame > f → r = .error .spectatorTooFarBehind) ∧
    ((rget slot 0).frame = f → ∃ ins, r = .ok ins ∧ ins.map (·.1) = slot.map (·.input)) := by
  unfold inputsAtFrame at h
  simp only at h
  obtain ⟨_, h⟩ := ensure_bind_ok h
  simp only
  by_cases h1 : (rget (rget s.inputs (frameIdx f SPECTATOR_BUFFER_SIZE)) 0).frame < f
  · simp only [h1, if_true] at h
    have := pure_ok h
    refine ⟨fun _ => this.symm, fun h2 => absurd h1 (Int.not_lt.mpr (Int.le_of_lt h2)), fun h3 => ?_⟩
    exact absurd h1 (by rw [h3]; exact Int.lt_irrefl _)
  · simp only [h1, if_false] at h
    by_cases h2 : (rget (rget s.inputs (frameIdx f SPECTATOR_BUFFER_SIZE)) 0).frame > f
    · simp only [h2, if_true] at h
      have := pure_ok h
      refine ⟨fun h' => absurd h' h1, fun _ => this.symm, fun h3 => ?_⟩
      exact absurd h2 (by rw [h3]; exact Int.lt_irrefl _)
    · simp only [h2, if_false] at h
      have := pure_ok h
      refine ⟨fun h' => absurd h' h1, fun h' => absurd h' h2, fun _ => ⟨_, this.symm, ?_⟩⟩
      simp only [List.map_map, Function.comp_def]
      exact map_zipIdx_fst _ (fun (x : PlayerInput) => x.input) 0

/-- What is handed out for a frame whose slot is intact: per player, the input stored for that
frame, with status `Disconnected` exactly when the host has that player disconnected as of an
earlier frame, `Confirmed` otherwise (never `Predicted`). -/
theorem C06_values_and_status (s : Spectator) (f : Frame)
    (hslot : (rget (rget s.inputs (frameIdx f SPECTATOR_BUFFER_SIZE)) 0).frame = f)
    (hne : (rget s.inputs (frameIdx f SPECTATOR_BUFFER_SIZE)).length > 0) :
    s.inputsAtFrame f = .ok (.ok ((rget s.inputs (frameIdx f SPECTATOR_BUFFER_SIZE)).zipIdx.map fun (pi, h) =>
      (pi.input, if (rget s.hostConnectStatus h).disconnected && (rget s.hostConnectStatus h).lastFrame < f
        then InputStatus.disconnected else InputStatus.confirmed))) := by
  unfold inputsAtFrame
  simp only [ensure, hne, decide_true, if_true, bind, Except.bind, pure, Except.pure]
  have h1 : ¬ (rget (rget s.inputs (frameIdx f SPECTATOR_BUFFER_SIZE)) 0).frame < f := by
    rw [hslot]; exact Int.lt_irrefl _
  have h2 : ¬ (rget (rget s.inputs (frameIdx f SPECTATOR_BUFFER_SIZE)) 0).frame > f := by
    rw [hslot]; exact Int.lt_irrefl _
  simp only [h1, h2, if_false]

end Ggrs.Spectator

namespace Ggrs.Spectator

/-- **C06, replay (spectator side, all histories).** -/
theorem C06_replay (numPlayers : Nat) (host : Endpoint) (mfb cs : Nat) (hn : numPlayers > 0)
    (y : Spectator × List (List Input) × Nat)
    (hrun : SpStar (Spectator.new numPlayers host mfb cs, [], 0) y)
    (s' : Spectator) (res : Except GgrsError (List Request)) (hadv : y.1.advanceAfterPoll = .ok (s', res)) :
    SpecInv y.1 y.2.1 y.2.2 ∧
    (∀ reqs, res = .ok reqs → AdvOk y.2.1 y.2.2 reqs ∧ SpecInv s' y.2.1 (y.2.2 + reqs.length) ∧
      reqs.length = (if y.2.1.length - y.2.2 > y.1.maxFramesBehind
        then min (min y.1.catchupSpeed (y.2.1.length - y.2.2)) (SPECTATOR_BUFFER_SIZE - 1) else NORMAL_SPEED)) ∧
    (∀ e, res = .error e → SpecInv s' y.2.1 y.2.2 ∧
      (e = .notSynchronized ∨ (e = .predictionThreshold ∧ y.2.1.length ≤ y.2.2) ∨
       (e = .spectatorTooFarBehind ∧ y.2.2 + SPECTATOR_BUFFER_SIZE < y.2.1.length))) := by
  have h0 : SpecInv (Spectator.new numPlayers host mfb cs) [] 0 :=
    ⟨specRing_new numPlayers host mfb cs hn, rfl, Nat.le_refl _⟩
  have h := SpecInv_run _ y h0 hrun
  exact ⟨h, advanceAfterPoll_spec y.1 s' y.2.1 y.2.2 res h hadv⟩

end Ggrs.Spectator

namespace Ggrs

/-- **C06, the host's side (rollback mode, no disconnected players).** After ANY interleaving of
remote-input arrivals and `advance_frame` calls, one more call offers its spectator endpoints
(`Offers`: one `send_input` + `send_all_messages` per running spectator endpoint and frame) exactly
the frames `next_spectator_frame, next_spectator_frame + 1, …` in this order, each the row of every
player's real input of that frame (`rowMap`: the values the host's own queues hold, i.e. its
confirmed timeline), never beyond `confirmed_frame()`, and nothing else in the call moves
`next_spectator_frame` — so over a run the spectators are offered frames 0, 1, 2, … without gap
or repeat. -/
theorem C06_host_rows (x y : P2P × TLState) (h0 : ∃ gh, SessInv x.1 gh x.2 []) (hn : 0 ≤ x.1.nextSpectatorFrame)
    (hrun : SStar x y) (now : Nat) (s' : P2P) (reqs' : List Request)
    (hadv : y.1.advanceRollbackFrame now [] = .ok (s', reqs')) :
    ∃ (gh gh1 : Ghost) (confirmed : Frame) (s1 s2 : P2P), SessInv y.1 gh y.2 [] ∧ gh1.specs = gh.specs ∧
      y.1.confirmedFrame = .ok confirmed ∧ s1.nextSpectatorFrame = y.1.nextSpectatorFrame ∧
      Offers gh1 y.1.sync.queues.length now s1 s2 ∧ s'.nextSpectatorFrame = s2.nextSpectatorFrame ∧
      y.1.nextSpectatorFrame ≤ s'.nextSpectatorFrame ∧
      s'.nextSpectatorFrame ≤ max y.1.nextSpectatorFrame (confirmed + 1) := by
  obtain ⟨gh, hy⟩ := SessInv_run x y h0 hrun
  have hny := nsf_run x y h0 hn hrun
  obtain ⟨confirmed, s1, s2, gh1, hconf, hsp, hn1, _, hoff, hn', hl1, hl2⟩ :=
    rollbackTick_offers y.1 s' gh y.2 [] reqs' now hy hny hadv
  exact ⟨gh, gh1, confirmed, s1, s2, hy, hsp, hconf, hn1, hoff, hn', hl1, hl2⟩

end Ggrs

namespace Ggrs

/-- `C06_host_rows` for runs that also contain `set_input_delay` calls of the host's local players. -/
theorem C06_host_rows_delay (x y : P2P × TLState) (h0 : HInv x) (hrun : DStar x y)
    (now : Nat) (s' : P2P) (reqs' : List Request) (hadv : y.1.advanceRollbackFrame now [] = .ok (s', reqs')) :
    ∃ (gh gh1 : Ghost) (confirmed : Frame) (s1 s2 : P2P), SessInv y.1 gh y.2 [] ∧ gh1.specs = gh.specs ∧
      y.1.confirmedFrame = .ok confirmed ∧ s1.nextSpectatorFrame = y.1.nextSpectatorFrame ∧
      Offers gh1 y.1.sync.queues.length now s1 s2 ∧ s'.nextSpectatorFrame = s2.nextSpectatorFrame ∧
      y.1.nextSpectatorFrame ≤ s'.nextSpectatorFrame ∧
      s'.nextSpectatorFrame ≤ max y.1.nextSpectatorFrame (confirmed + 1) := by
  obtain ⟨⟨gh, hy, _⟩, hny⟩ := HInv_run x y h0 hrun
  obtain ⟨confirmed, s1, s2, gh1, hconf, hsp, hn1, _, hoff, hn', hl1, hl2⟩ :=
    rollbackTick_offers y.1 s' gh y.2 [] reqs' now hy hny hadv
  exact ⟨gh, gh1, confirmed, s1, s2, hy, hsp, hconf, hn1, hoff, hn', hl1, hl2⟩

end Ggrs

namespace Ggrs

/-- **C06 and C11, the network side of a lockstep session (no disconnected players).** After any
interleaving of remote-input arrivals and lockstep `advance_frame` calls, one more call hands its
remote endpoints only consecutive, complete frames carrying the local players' queue inputs
(`Sends`) and offers its spectators the next frames in order, each the row of every player's real
input (`Offers`), never beyond `min(confirmed_frame(), current_frame() - 1)`. -/
theorem C06_lockstep_net (x y : P2P × TLState) (h0 : LkNetInv x) (hrun : LkStar x y)
    (now : Nat) (s' : P2P) (reqs' : List Request) (hadv : y.1.advanceLockstepFrame now [] = .ok (s', reqs')) :
    ∃ (gh gh1 gh' : Ghost) (sA sB sC sD : P2P), LkInv y.1 gh y.2 ∧ LkInv s' gh' (execReqs y.2 reqs') ∧
      gh'.specs = gh1.specs ∧ (∀ p, PrefixOf (gh.specs p).vals (gh1.specs p).vals) ∧
      sA.lastSentOutgoingInputFrame = y.1.lastSentOutgoingInputFrame ∧ Sends gh1 now sA sB ∧
      s'.lastSentOutgoingInputFrame = sB.lastSentOutgoingInputFrame ∧
      sC.nextSpectatorFrame = y.1.nextSpectatorFrame ∧ Offers gh1 y.1.sync.queues.length now sC sD ∧
      s'.nextSpectatorFrame = sD.nextSpectatorFrame := by
  obtain ⟨⟨gh, hl, hg⟩, hn⟩ := LkNetInv_run x y h0 hrun
  obtain ⟨gh1, gh', sA, sB, sC, sD, hl', _, _, hsp, hpre, a1, a2, a3, b1, b2, b3⟩ :=
    lockstepTick_net y.1 s' gh y.2 now reqs' hl hg hn hadv
  exact ⟨gh, gh1, gh', sA, sB, sC, sD, hl, hl', hsp, hpre, a1, a2, a3, b1, b2, b3⟩

end Ggrs

namespace Ggrs

/-- `C06_lockstep_net` for runs that also contain `set_input_delay` calls of local players. -/
theorem C06_lockstep_net_delay (x y : P2P × TLState) (h0 : LkNetInv x) (hrun : DLkStar x y)
    (now : Nat) (s' : P2P) (reqs' : List Request) (hadv : y.1.advanceLockstepFrame now [] = .ok (s', reqs')) :
    ∃ (gh gh1 gh' : Ghost) (sA sB sC sD : P2P), LkInv y.1 gh y.2 ∧ LkInv s' gh' (execReqs y.2 reqs') ∧
      gh'.specs = gh1.specs ∧ (∀ p, PrefixOf (gh.specs p).vals (gh1.specs p).vals) ∧
      sA.lastSentOutgoingInputFrame = y.1.lastSentOutgoingInputFrame ∧ Sends gh1 now sA sB ∧
      s'.lastSentOutgoingInputFrame = sB.lastSentOutgoingInputFrame ∧
      sC.nextSpectatorFrame = y.1.nextSpectatorFrame ∧ Offers gh1 y.1.sync.queues.length now sC sD ∧
      s'.nextSpectatorFrame = sD.nextSpectatorFrame := by
  obtain ⟨⟨gh, hl, hg⟩, hn⟩ := LkNetInv_drun x y h0 hrun
  obtain ⟨gh1, gh', sA, sB, sC, sD, hl', _, _, hsp, hpre, a1, a2, a3, b1, b2, b3⟩ :=
    lockstepTick_net y.1 s' gh y.2 now reqs' hl hg hn hadv
  exact ⟨gh, gh1, gh', sA, sB, sC, sD, hl, hl', hsp, hpre, a1, a2, a3, b1, b2, b3⟩

end Ggrs

namespace Ggrs

/-- **C06/C07, the host's side with dropped players (rollback sessions, drops detected
locally).** After any run of arrivals, calls, accepted `disconnect_player` calls and Disconnected
events, one more call offers its spectator endpoints exactly the frames `next_spectator_frame,
next_spectator_frame + 1, …` in this order, never beyond `confirmed_frame()` (the minimum over the
players still connected), each together with the host's connection statuses, and each the row
`rowMapD`: for a player marked disconnected with a last frame before the offered frame the blank
input that carries no frame — which is what the spectator turns into status Disconnected — and for
everybody else the real input of that frame. So what the spectators are shown of a dropped player
is what the host's own game was (re-)simulated with (`C07_final_timeline`): real inputs up to the
last frame, blank/Disconnected after it. -/
theorem C06_host_rows_drops (x y : P2P × TLState) (h0 : XInv x) (hn : 0 ≤ x.1.nextSpectatorFrame)
    (hrun : XStar x y) (now : Nat) (s' : P2P) (reqs' : List Request)
    (hadv : y.1.advanceRollbackFrame now [] = .ok (s', reqs')) :
    ∃ (gh1 : DGhost) (confirmed : Frame) (s1 s2 : P2P),
      y.1.confirmedFrame = .ok confirmed ∧ s1.nextSpectatorFrame = y.1.nextSpectatorFrame ∧
      OffersD gh1 y.1.localConnectStatus y.1.sync.queues.length now s1 s2 ∧
      s'.nextSpectatorFrame = s2.nextSpectatorFrame ∧
      y.1.nextSpectatorFrame ≤ s'.nextSpectatorFrame ∧
      s'.nextSpectatorFrame ≤ max y.1.nextSpectatorFrame (confirmed + 1) := by
  obtain ⟨gh, st0, hy⟩ := XInv_run x y h0 hrun
  have hny := nsf_runX x y h0 hn hrun
  obtain ⟨confirmed, s1, s2, gh1, hconf, _, hn1, hoff, hn', hl1, hl2⟩ :=
    rollbackTick_offersD y.1 s' gh y.2 [] reqs' now st0 hy hny hadv
  exact ⟨gh1, confirmed, s1, s2, hconf, hn1, hoff, hn', hl1, hl2⟩

/-- **C06, C07 and C11, the network side of a lockstep session with dropped players and delay changes.**
After any run of remote-input arrivals, lockstep `advance_frame` calls, `set_input_delay` calls for
local players, accepted `disconnect_player` calls and Disconnected events, one more call hands its
remote endpoints only consecutive, complete frames carrying the local players' queue inputs
(`Sends`) and offers its spectators the next frames in order, each the row `rowMapD` — real inputs,
and the frameless blank input for every player marked disconnected as of an earlier frame —
together with its connection statuses; and the lockstep invariants (C07_lockstep_timeline) hold
again. -/
theorem C06_lockstep_net_drops (x y : P2P × TLState) (h0 : LkNetInvD x) (hrun : LkYStar x y)
    (now : Nat) (s' : P2P) (reqs' : List Request) (hadv : y.1.advanceLockstepFrame now [] = .ok (s', reqs')) :
    ∃ (gh gh1 gh' : DGhost) (sA sB sC sD : P2P), LkInvD y.1 gh y.2 ∧ LkInvD s' gh' (execReqs y.2 reqs') ∧
      gh'.specs = gh1.specs ∧ (∀ p, PrefixOf (gh.specs p).vals (gh1.specs p).vals) ∧
      sA.lastSentOutgoingInputFrame = y.1.lastSentOutgoingInputFrame ∧ Sends gh1.g now sA sB ∧
      s'.lastSentOutgoingInputFrame = sB.lastSentOutgoingInputFrame ∧
      sC.nextSpectatorFrame = y.1.nextSpectatorFrame ∧
      OffersD gh1 sC.localConnectStatus y.1.sync.queues.length now sC sD ∧
      s'.nextSpectatorFrame = sD.nextSpectatorFrame := by
  obtain ⟨⟨gh, hl, hg⟩, hn⟩ := LkNetInvD_run x y h0 hrun
  obtain ⟨gh1, gh', sA, sB, sC, sD, hl', _, _, hsp, hpre, a1, a2, a3, b1, b2, b3⟩ :=
    lockstepTick_netD y.1 s' gh y.2 now reqs' hl hg hn hadv
  exact ⟨gh, gh1, gh', sA, sB, sC, sD, hl, hl', hsp, hpre, a1, a2, a3, b1, b2, b3⟩

/-- The premises are satisfiable: a freshly built lockstep session. -/
example (s : P2P) (R : Nat → List (Input × InputStatus)) (n : Nat)
    (hq : s.sync.queues = List.replicate n InputQueue.new) (hst : s.localConnectStatus = List.replicate n {})
    (hc : s.sync.currentFrame = 0) (hdf : s.disconnectFrame = NULL_FRAME)
    (ho : s.outgoingLocalInputs = []) (hn : 0 ≤ s.nextSpectatorFrame) :
    LkNetInvD (s, ⟨0, R⟩) :=
  ⟨⟨_, LkInvD_init s R n hq hst hc hdf, GlueInv_init s _ n (fun _ => rfl) ho hst (by rw [hq]; simp)⟩, hn⟩

end Ggrs

namespace Ggrs
open Spectator

/-- **C06 across host and spectator (the product, rollback-mode host, no disconnected players).** A
host session and its spectator side by side (`Proofs/HostSpec.lean`), starting from a pair that
satisfies the invariant (a freshly built host and spectator do: `C06_host_spectator_init`). Run ANY interleaving
of the host's own steps (local inputs, calls with the game executing them, cell writes, arrivals
of remote players' inputs, `set_input_delay` calls of its local players — C11's "and spectators" —),
the spectator's `advance_frame` calls, and arrivals at the spectator —
the next row, one the host has already offered to its spectator endpoints, carrying what the
host's queues hold for that frame (what `C06_host_rows` and `C05_stream_intact` provide for the
link). Then every row the spectator holds is, player by player, the host's stream of that player
at that frame — the inputs the host's own confirmed timeline carries (`C01_timeline`) — never
beyond the frame the host has offered (`C06_host_rows`: never beyond its confirmed frame); and the
`n`-th frame a spectator call hands out carries exactly the `n`-th of these rows, in order, without
gap or repeat (`AdvOk`), or the call fails with nothing consumed. -/
theorem C06_spectator_replays_host_streams (x y : (P2P × TLState) × SpecSt) (h0 : ∃ gh, HSInv x gh)
    (hrun : HSStar x y) (s' : Spectator) (res : Except GgrsError (List Request))
    (hadv : y.2.1.advanceAfterPoll = .ok (s', res)) :
    ∃ gh, SessInv y.1.1 gh y.1.2 [] ∧
      (∀ f, f < y.2.2.1.length → ∀ h, h < y.1.1.sync.queues.length →
        f < (gh.specs h).vals.length ∧ (y.2.2.1.getD f []).getD h 0 = (gh.specs h).vals.getD f 0) ∧
      (y.2.2.1.length : Int) ≤ y.1.1.nextSpectatorFrame ∧
      (∀ reqs, res = .ok reqs → AdvOk y.2.2.1 y.2.2.2 reqs) ∧
      (∀ e, res = .error e → e = .notSynchronized ∨ (e = .predictionThreshold ∧ y.2.2.1.length ≤ y.2.2.2) ∨
        (e = .spectatorTooFarBehind ∧ y.2.2.2 + SPECTATOR_BUFFER_SIZE < y.2.2.1.length)) := by
  obtain ⟨gh, h⟩ := HSInv_run x y h0 hrun
  obtain ⟨hok, herr⟩ := advanceAfterPoll_spec y.2.1 s' y.2.2.1 y.2.2.2 res h.spec hadv
  exact ⟨gh, h.sess, h.rows, h.offered, fun reqs hr => (hok reqs hr).1, fun e he => (herr e he).2⟩

/-- A freshly built host and a freshly built spectator satisfy the invariant of the product. -/
theorem C06_host_spectator_init (a : P2P) (R : Nat → List (Input × InputStatus)) (n : Nat) (numPlayers : Nat) (host : Endpoint)
    (mfb cs : Nat) (hnp : numPlayers > 0)
    (hq : a.sync.queues = List.replicate n InputQueue.new) (hst : a.localConnectStatus = List.replicate n {})
    (hc : a.sync.currentFrame = 0) (ho : a.outgoingLocalInputs = []) (hnsf : a.nextSpectatorFrame = 0) :
    ∃ gh, HSInv ((a, ⟨0, R⟩), (Spectator.new numPlayers host mfb cs, [], 0)) gh := by
  refine ⟨_, SessInv_init a R n hq hst hc, GlueInv_init a _ n (fun _ => rfl) ho hst (by rw [hq]; simp), ?_,
    ⟨specRing_new numPlayers host mfb cs hnp, rfl, Nat.le_refl _⟩, ?_, ?_⟩
  · show 0 ≤ a.nextSpectatorFrame; rw [hnsf]; exact Int.le_refl _
  · intro f hf; simp at hf
  · show ((([] : List (List Input)).length : Nat) : Int) ≤ a.nextSpectatorFrame
    rw [hnsf]; simp

end Ggrs

namespace Ggrs

/-- **Non-vacuity of the host/spectator product.** A freshly built host with a spectator endpoint and
a freshly synchronized spectator satisfy the invariant, and the world contains the run it is meant
for: the host simulates frame 0 with a prediction, receives the real input, rolls back, confirms
frame 0 and offers it to its spectator endpoint (`next_spectator_frame = 1`); the row `[5, 9]` —
read off the host's queues — arrives at the spectator, whose next call hands out exactly that row. -/
theorem C06_product_nonvacuous :
    (∃ gh, HSInv ((demoHost, ⟨0, fun _ => []⟩), (demoSpec, [], 0)) gh) ∧
    (∃ t' n, HSStar ((demoHost, ⟨0, fun _ => []⟩), (demoSpec, [], 0)) ((demoH2, t'), (demoSpec2, [[5, 9]], n)) ∧ n = 1) ∧
    demoH2.nextSpectatorFrame = 1 ∧
    (getOk demoSpec1.advanceAfterPoll).2 = .ok [.advance [(5, .confirmed), (9, .confirmed)]] := by
  refine ⟨?_, demo_hostspec_run _, demo_offered, demo_spec_row⟩
  refine ⟨_, SessInv_init demoHost (fun _ => []) 2 rfl rfl rfl,
    GlueInv_init demoHost _ 2 (fun _ => rfl) rfl rfl rfl, by decide, ?_, ?_, by decide⟩
  · exact ⟨by
      have := Spectator.specRing_new 2 (Endpoint.new [0, 1] 1 2 1 8 2000 500 60 none 78 0) 10 1 (by decide)
      exact ⟨this.len, this.players, this.rows, this.width, this.held, this.fresh, this.lastRecv⟩, rfl, Nat.le_refl _⟩
  · intro f hf; simp at hf

end Ggrs

