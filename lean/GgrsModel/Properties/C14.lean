/-
C14 — The input codec round-trips every input and decodes total.

Property theorems only; helper lemmas are in Proofs/{Varint,Rle,Delta}.lean.
The model is Model/Codec.lean (mirrors src/network/compression.rs after the `fix:` commit that
replaced `bitfield_rle::decode` by the checked `rle_decode`, plus the `bitfield-rle` encoder).
-/
import GgrsModel.Model.Inventory
import GgrsModel.Model.Sites.Compression
import GgrsModel.Proofs.Delta

namespace Ggrs.Codec

/-- **C14, round trip.** Encoding any sequence of inputs of lengths ≤ 65535 (including empty and
varying lengths) against any reference and decoding the result against the same reference yields
the original sequence. The side condition is the decoder's allocation cap: the delta-encoded
size (2-byte length prefix + payload per input) must not exceed `MAX_DECODED_BYTES`, which is
what 129 maximal inputs occupy — more than any endpoint can have pending. -/
theorem C14_roundtrip (reference : Bytes) (xs : List Bytes)
    (hlen : ∀ x ∈ xs, x.length ≤ 65535)
    (hcap : encodedSize xs ≤ MAX_DECODED_BYTES) :
    decode reference (encode reference xs) = .ok xs := by
  unfold decode encode
  rw [rle_roundtrip _ (by rw [deltaEncode_length]; exact hcap)]
  exact delta_roundtrip reference xs hlen

/-- Everything a protocol endpoint can legitimately send fits under the cap: at most
`PENDING_OUTPUT_SIZE + 1` inputs of at most 65535 bytes each. -/
theorem C14_fix_accepts_legit (reference : Bytes) (xs : List Bytes)
    (hlen : ∀ x ∈ xs, x.length ≤ 65535) (hn : xs.length ≤ PENDING_OUTPUT_SIZE + 1) :
    decode reference (encode reference xs) = .ok xs := by
  apply C14_roundtrip reference xs hlen
  have key : ∀ (ys : List Bytes), (∀ y ∈ ys, y.length ≤ 65535) → encodedSize ys ≤ ys.length * 65537 := by
    intro ys
    induction ys with
    | nil => intro _; simp [encodedSize]
    | cons y ys ih =>
      intro h
      have h1 := h y List.mem_cons_self
      have h2 := ih (fun z hz => h z (List.mem_cons_of_mem _ hz))
      simp only [encodedSize, List.length_cons]
      omega
  have h1 := key xs hlen
  have h2 : xs.length * 65537 ≤ (PENDING_OUTPUT_SIZE + 1) * 65537 := Nat.mul_le_mul_right _ hn
  have h3 : (PENDING_OUTPUT_SIZE + 1) * 65537 ≤ MAX_DECODED_BYTES := by decide
  omega

/-- **C14, totality.** For every reference and every byte string the decoder returns either
inputs or an error; it never reaches one of the panic sites of the Rust code (u64 overflow in
the run header, `usize` underflow in the cap arithmetic, slice indices), and whatever it returns
occupies at most `MAX_DECODED_BYTES` bytes including the per-input length prefixes (so at most
`MAX_DECODED_BYTES / 2` inputs). -/
theorem C14_total (reference data : Bytes) :
    (∃ xs, decode reference data = .ok xs ∧ encodedSize xs ≤ MAX_DECODED_BYTES) ∨
    (∃ e, decode reference data = .error e ∧ ∀ s, e ≠ .panic s) := by
  unfold decode
  have hr := rleDecode_safe data
  cases h : rleDecode data with
  | error e =>
    right
    refine ⟨e, rfl, ?_⟩
    intro s hs; subst hs; exact hr.1 s h
  | ok buf =>
    have hbuf := hr.2 buf h
    have hd := deltaDecodeLoop_safe buf.length reference buf []
    simp only
    cases h2 : deltaDecode reference buf with
    | error e =>
      right
      refine ⟨e, rfl, ?_⟩
      intro s hs; subst hs; exact hd.1 s h2
    | ok xs =>
      left
      refine ⟨xs, rfl, ?_⟩
      have := hd.2 xs h2
      simp [encodedSize] at this
      omega

/-- The intermediate buffer of the run-length layer never exceeds the cap either. -/
theorem C14_rle_bounded (data buf : Bytes) (h : rleDecode data = .ok buf) :
    buf.length ≤ MAX_DECODED_BYTES := (rleDecode_safe data).2 buf h

/-! Non-vacuity: concrete inputs meeting the hypotheses, and the three byte strings that used to
crash or blow up `bitfield_rle::decode` now being plain errors of the model. -/

example : decode [1, 2, 3, 4] (encode [1, 2, 3, 4] [[0, 1], [], [5, 6, 7, 8, 0, 0, 0, 255, 255]])
    = .ok [[0, 1], [], [5, 6, 7, 8, 0, 0, 0, 255, 255]] := by decide
example : (∀ x ∈ ([[0, 1], [], [5, 6, 7, 8]] : List Bytes), x.length ≤ 65535) ∧
    encodedSize [[0, 1], [], [5, 6, 7, 8]] ≤ MAX_DECODED_BYTES := by decide
example : decode [] [0x80] = .error .truncatedRunHeader := by decide
example : decode [] [0xFF, 0xFF, 0xFF, 0xFF, 0xFF, 0xFF, 0xFF, 0xFF, 0xFF, 0xFF, 0x01]
    = .error .runHeaderOverflows := by decide
example : decode [] [0xFD, 0xFF, 0xFF, 0xFF, 0x0F] = .error .tooLarge := by decide
example : decode [] [0x08, 1] = .error .truncatedLiteralRun := by decide

end Ggrs.Codec
