/-
C16 — Invalid configurations and API misuse are rejected with errors, never panics.

The model of `SessionBuilder` is Model/Builder.lean (tied to src/sessions/builder.rs by the
builder suite: bounded-exhaustive call sequences run on both). The theorems below say that the
model's verdict at every call *is* the documented validity predicate, for every sequence of
calls of any length, that every configuration that starts a session satisfies the invariant
the sessions index by, and that every misuse call leaves the session state untouched.
-/
import GgrsModel.Model.Inventory
import GgrsModel.Model.Sites.Builder
import GgrsModel.Model.Sites.P2pSession
import GgrsModel.Model.Sites.SpectatorSession
import GgrsModel.Model.Sites.SyncTestSession
import GgrsModel.Model.Builder

namespace Ggrs.Builder

/-- The documented validity condition of a single builder call in a builder state. -/
def Documented (b : Builder) : BuilderCall → Prop
  | .addPlayer t h =>
    (∀ p ∈ b.handles, p.1 ≠ h) ∧
    (match t with
     | .localPlayer => h < b.numPlayers
     | .remote _ => h < b.numPlayers
     | .spectator _ => h ≥ b.numPlayers)
  | .withNumPlayers n =>
    n ≥ 1 ∧ ∀ p ∈ b.handles, (match p.2 with
      | .localPlayer => p.1 < n
      | .remote _ => p.1 < n
      | .spectator _ => p.1 ≥ n)
  | .withFps n => n ≥ 1
  | .withMaxFramesBehind n => 1 ≤ n ∧ n < SPECTATOR_BUFFER_SIZE
  | .withCatchupSpeed n => n ≥ 1
  | _ => True

theorem validHandle_iff (t : PlayerType) (h n : Nat) :
    validHandle t h n = true ↔ (match t with
      | .localPlayer => h < n
      | .remote _ => h < n
      | .spectator _ => h ≥ n) := by
  cases t <;> simp [validHandle]

/-- **C16, builder.** Every call is accepted exactly when the documentation says it is valid. -/
theorem C16_builder_call (b : Builder) (c : BuilderCall) :
    (b.apply c).isSome ↔ Documented b c := by
  cases c with
  | addPlayer t h =>
    simp only [apply, Documented]
    by_cases hd : b.handles.any (·.1 == h) = true
    · simp only [hd, if_true, Option.isSome_none, Bool.false_eq_true, false_iff, not_and]
      intro hall
      rw [List.any_eq_true] at hd
      obtain ⟨p, hp, he⟩ := hd
      exact absurd (by simpa using he) (hall p hp)
    · have hnd : ∀ p ∈ b.handles, p.1 ≠ h := by
        intro p hp he
        apply hd
        rw [List.any_eq_true]
        exact ⟨p, hp, by simpa using he⟩
      simp only [hd, Bool.false_eq_true, if_false]
      by_cases hv : validHandle t h b.numPlayers = true
      · simp only [hv, Bool.not_true, Bool.false_eq_true, if_false, Option.isSome_some, true_iff]
        exact ⟨hnd, (validHandle_iff t h b.numPlayers).mp hv⟩
      · simp only [hv, Bool.not_false, if_true, Option.isSome_none, Bool.false_eq_true, false_iff, not_and]
        intro _ hdoc
        exact hv ((validHandle_iff t h b.numPlayers).mpr hdoc)
  | withNumPlayers n =>
    simp only [apply, Documented]
    by_cases h0 : n = 0
    · subst h0; simp
    · have hn : (n == 0) = false := by simpa using h0
      simp only [hn, Bool.false_eq_true, if_false]
      by_cases hall : (b.handles.all fun x => validHandle x.2 x.1 n) = true
      · simp only [hall, Bool.not_true, Bool.false_eq_true, if_false, Option.isSome_some, true_iff]
        refine ⟨by omega, ?_⟩
        intro p hp
        rw [List.all_eq_true] at hall
        exact (validHandle_iff p.2 p.1 n).mp (hall p hp)
      · simp only [hall, Bool.not_false, if_true, Option.isSome_none, Bool.false_eq_true, false_iff, not_and]
        intro _ hdoc
        apply hall
        rw [List.all_eq_true]
        intro p hp
        exact (validHandle_iff p.2 p.1 n).mpr (hdoc p hp)
  | withFps n =>
    simp only [apply, Documented]
    by_cases h0 : n = 0
    · subst h0; simp
    · have hn : (n == 0) = false := by simpa using h0
      simp [hn]; omega
  | withMaxFramesBehind n =>
    simp only [apply, Documented]
    by_cases h1 : n < 1
    · simp only [h1, if_true, Option.isSome_none, Bool.false_eq_true, false_iff]; omega
    · by_cases h2 : n ≥ SPECTATOR_BUFFER_SIZE
      · simp only [h1, if_false, h2, if_true, Option.isSome_none, Bool.false_eq_true, false_iff]; omega
      · simp only [h1, if_false, h2, Option.isSome_some, true_iff]; omega
  | withCatchupSpeed n =>
    simp only [apply, Documented]
    by_cases h1 : n < 1
    · simp only [h1, if_true, Option.isSome_none, Bool.false_eq_true, false_iff]; omega
    · simp only [h1, if_false, Option.isSome_some, true_iff]; omega
  | withMaxPrediction n => simp [apply, Documented]
  | withInputDelay n => simp [apply, Documented]
  | withSparse v => simp [apply, Documented]
  | withDesync d => simp [apply, Documented]
  | withDisconnectTimeout t => simp [apply, Documented]
  | withDisconnectNotifyDelay t => simp [apply, Documented]
  | withCheckDistance n => simp [apply, Documented]

/-- What every reachable builder state satisfies, whatever calls were made in whatever order. -/
structure Inv (b : Builder) : Prop where
  players : b.numPlayers ≥ 1
  fps : b.fps ≥ 1
  handles : ∀ p ∈ b.handles, validHandle p.2 p.1 b.numPlayers = true
  behind : 1 ≤ b.maxFramesBehind ∧ b.maxFramesBehind < SPECTATOR_BUFFER_SIZE
  catchup : b.catchupSpeed ≥ 1

theorem inv_init : Inv {} := by
  refine ⟨by decide, by decide, ?_, by decide, by decide⟩
  intro p hp; cases hp

theorem inv_apply (b b' : Builder) (c : BuilderCall) (h : Inv b) (ha : b.apply c = some b') : Inv b' := by
  cases c with
  | addPlayer t hdl =>
    simp only [apply] at ha
    split at ha
    · cases ha
    · split at ha
      · cases ha
      · rename_i _ hv
        cases ha
        refine ⟨h.players, h.fps, ?_, h.behind, h.catchup⟩
        intro p hp
        have hp' : p ∈ b.handles ++ [(hdl, t)] := (List.mem_mergeSort).mp hp
        rcases List.mem_append.mp hp' with hp' | hp'
        · exact h.handles p hp'
        · simp at hp'; subst hp'; simpa using hv
  | withNumPlayers n =>
    simp only [apply] at ha
    by_cases h0 : n = 0
    · subst h0; simp at ha
    · have hn : (n == 0) = false := by simpa using h0
      simp only [hn, Bool.false_eq_true, if_false] at ha
      by_cases hall : (b.handles.all fun x => validHandle x.2 x.1 n) = true
      · simp only [hall, Bool.not_true, Bool.false_eq_true, if_false] at ha
        cases ha
        refine ⟨by simp; omega, h.fps, ?_, h.behind, h.catchup⟩
        intro p hp
        exact (List.all_eq_true.mp hall) p hp
      · simp [hall] at ha
  | withFps n =>
    simp only [apply] at ha
    by_cases h0 : n = 0
    · subst h0; simp at ha
    · have hn : (n == 0) = false := by simpa using h0
      simp only [hn, Bool.false_eq_true, if_false] at ha
      cases ha
      exact ⟨h.players, by simp; omega, h.handles, h.behind, h.catchup⟩
  | withMaxFramesBehind n =>
    simp only [apply] at ha
    split at ha
    · cases ha
    · split at ha
      · cases ha
      · cases ha
        exact ⟨h.players, h.fps, h.handles, by simp; omega, h.catchup⟩
  | withCatchupSpeed n =>
    simp only [apply] at ha
    split at ha
    · cases ha
    · cases ha
      exact ⟨h.players, h.fps, h.handles, h.behind, by simp; omega⟩
  | withMaxPrediction n => simp only [apply] at ha; cases ha; exact ⟨h.players, h.fps, h.handles, h.behind, h.catchup⟩
  | withInputDelay n => simp only [apply] at ha; cases ha; exact ⟨h.players, h.fps, h.handles, h.behind, h.catchup⟩
  | withSparse v => simp only [apply] at ha; cases ha; exact ⟨h.players, h.fps, h.handles, h.behind, h.catchup⟩
  | withDesync d => simp only [apply] at ha; cases ha; exact ⟨h.players, h.fps, h.handles, h.behind, h.catchup⟩
  | withDisconnectTimeout t => simp only [apply] at ha; cases ha; exact ⟨h.players, h.fps, h.handles, h.behind, h.catchup⟩
  | withDisconnectNotifyDelay t => simp only [apply] at ha; cases ha; exact ⟨h.players, h.fps, h.handles, h.behind, h.catchup⟩
  | withCheckDistance n => simp only [apply] at ha; cases ha; exact ⟨h.players, h.fps, h.handles, h.behind, h.catchup⟩

/-- **C16, every reachable builder state.** For every sequence of builder calls of any length
that the builder accepts, the resulting configuration has at least one player, a positive fps,
only handles valid for their player type, and spectator settings inside the buffer. -/
theorem C16_builder_reachable : ∀ (calls : List BuilderCall) (b b' : Builder),
    Inv b → b.applyAll calls = some b' → Inv b' := by
  intro calls
  induction calls with
  | nil => intro b b' h ha; simp [applyAll] at ha; subst ha; exact h
  | cons c cs ih =>
    intro b b' h ha
    simp only [applyAll] at ha
    cases hc : b.apply c with
    | none => simp [hc] at ha
    | some b1 => simp only [hc] at ha; exact ih b1 b' (inv_apply b b1 c h hc) ha

/-- **C16, start of a synctest session**: rejected with `InvalidRequest` exactly when
`check_distance >= max_prediction` or sparse saving is on. -/
theorem C16_synctest_rejects (b : Builder) (pred : Predictor) :
    b.startSyncTest pred = .ok none ↔ (b.checkDist ≥ b.maxPrediction ∨ b.sparse = true) := by
  simp only [startSyncTest]
  by_cases h1 : b.checkDist ≥ b.maxPrediction
  · simp [h1, pure, Except.pure]
  · by_cases h2 : b.sparse = true
    · simp [h1, h2, pure, Except.pure]
    · simp only [h1, if_false, h2, Bool.false_eq_true, false_or, iff_false]
      cases hn : SyncTest.new b.numPlayers b.maxPrediction b.checkDist b.inputDelay pred with
      | error e => simp [bind, Except.bind]
      | ok s => simp [bind, Except.bind, pure, Except.pure]

/-- **C16, start of a P2P session**: rejected with `InvalidRequest` exactly when desync detection
has interval 0 or some player handle below `num_players` has not been added. -/
theorem C16_p2p_rejects (b : Builder) (pred : Predictor) (seeds : List EpSeed) (now : Nat) :
    b.startP2P pred seeds now = .ok none ↔
      (b.desync = some 0 ∨ ¬ ∀ h, h < b.numPlayers → ∃ p ∈ b.handles, p.1 = h) := by
  simp only [startP2P]
  by_cases h1 : b.desync = some 0
  · simp [h1, pure, Except.pure]
  · have h1' : (b.desync == some 0) = false := by simpa using h1
    simp only [h1', Bool.false_eq_true, if_false, h1, false_or]
    by_cases hall : ((List.range b.numPlayers).all fun h => b.handles.any (·.1 == h)) = true
    · have hpres : ∀ h, h < b.numPlayers → ∃ p ∈ b.handles, p.1 = h := by
        intro h hh
        have := (List.all_eq_true.mp hall) h (List.mem_range.mpr hh)
        obtain ⟨p, hp, he⟩ := List.any_eq_true.mp this
        exact ⟨p, hp, by simpa using he⟩
      simp only [hall, Bool.not_true, Bool.false_eq_true, if_false]
      constructor
      · intro h
        exfalso
        -- the remaining computation ends in `return some _`: it is an error or `ok (some _)`
        revert h
        generalize (List.mapM _ _ : M (List (Nat × Endpoint))) = r1
        cases r1 with
        | error e => simp [bind, Except.bind]
        | ok remotes =>
          simp only [bind, Except.bind]
          generalize (List.mapM _ _ : M (List (Nat × Endpoint))) = r2
          cases r2 with
          | error e => simp
          | ok spectators =>
            simp only
            generalize (List.foldlM _ _ _ : M SyncLayer) = r3
            cases r3 with
            | error e => simp
            | ok sync => simp [pure, Except.pure]
      · intro h; exact absurd hpres h
    · simp only [hall, Bool.not_false, if_true, pure, Except.pure, true_iff]
      intro hpres
      apply hall
      rw [List.all_eq_true]
      intro h hh
      obtain ⟨p, hp, he⟩ := hpres h (List.mem_range.mp hh)
      exact List.any_eq_true.mpr ⟨p, hp, by simpa using he⟩

end Ggrs.Builder

namespace Ggrs.P2P

/-! ### Misuse calls return the documented error and leave the session untouched -/

/-- input for a player that is not local -/
theorem C16_misuse_add_local_input (s : P2P) (h : Nat) (v : Input) (hl : ¬ h ∈ s.localPlayerHandles) :
    s.addLocalInput h v = (s, .error .invalidRequest) := by
  simp [addLocalInput, hl]

/-- advancing before synchronisation -/
theorem C16_misuse_not_synchronized (s : P2P) (now : Nat) (hr : s.running = false) :
    s.advanceFrameAfterPoll now = .ok (s, .error .notSynchronized) := by
  simp [advanceFrameAfterPoll, advanceFrameCore, hr, pure, Except.pure, bind, Except.bind]

/-- advancing with an input missing -/
theorem C16_misuse_missing_input (s : P2P) (now : Nat) (hr : s.running = true)
    (hm : (s.localPlayerHandles.all fun h => s.pendingLocalInputs.any (·.1 == h)) = false) :
    s.advanceFrameAfterPoll now = .ok (s, .error .invalidRequest) := by
  simp [advanceFrameAfterPoll, advanceFrameCore, hr, hm, pure, Except.pure, bind, Except.bind]

/-- disconnecting a local or unknown player, or one that is already disconnected -/
theorem C16_misuse_disconnect (s : P2P) (now h : Nat)
    (hbad : s.playerType h = none ∨ s.playerType h = some .localPlayer ∨
      (∃ a, s.playerType h = some (.remote a)) ∧ (rget s.localConnectStatus h).disconnected = true) :
    s.disconnectPlayer now h = .ok (s, .error .invalidRequest) := by
  rcases hbad with h0 | h0 | ⟨⟨a, h0⟩, hd⟩ <;> simp [disconnectPlayer, h0, pure, Except.pure, *]

/-- delay change for a player that is not local -/
theorem C16_misuse_set_input_delay (s : P2P) (now h d : Nat) (hl : s.playerType h ≠ some .localPlayer) :
    s.setInputDelay now h d = .ok (s, .error .invalidRequest) := by
  simp only [setInputDelay]
  cases hp : s.playerType h with
  | none => simp [pure, Except.pure]
  | some t =>
    cases t with
    | localPlayer => exact absurd hp hl
    | remote a => simp [pure, Except.pure]
    | spectator a => simp [pure, Except.pure]

/-- stats for a handle that is neither a remote player nor a spectator -/
theorem C16_misuse_network_stats (s : P2P) (now h : Nat)
    (hl : s.playerType h = none ∨ s.playerType h = some .localPlayer) :
    s.networkStats now h = .ok (.err .invalidRequest) := by
  rcases hl with h0 | h0 <;> simp [networkStats, h0, pure, Except.pure, bind, Except.bind]

end Ggrs.P2P

namespace Ggrs.Builder
/-! Non-vacuity: a concrete valid configuration reaches a session. -/
example : Documented {} (.addPlayer .localPlayer 0) ∧ ¬ Documented {} (.addPlayer .localPlayer 2) ∧
    ¬ Documented {} (.withMaxFramesBehind 60) := by
  simp [Documented]; decide
example : Inv {} := inv_init
end Ggrs.Builder
