/-
C03 — Input status is truthful (per-call clauses).

`InputQueue.input` is `InputQueue::input`, `synchronizedInputsLoop` is the loop of
`SyncLayer::synchronized_inputs`. These theorems tie every status handed out to the state it was
computed from; the history-level statement (the value stored for a frame *is* the player's real
input) is the ring refinement in Properties/C11.lean.

`C03_status_truthful` and `C03_confirmed_final` are the history-level statements for one player's
queue, over EVERY sequence of `add_input`, `set_frame_delay`, `discard_confirmed_frames`, `input`
and `reset_prediction` calls (Proofs/Predict.lean; the two side conditions are what the sessions
guarantee: a discard stays below the newest input, requests are non-negative and do not go
backwards between two resets): a Confirmed answer is the stream's real value for a frame that has
been received, a Predicted answer is given only for a frame that has not been received and is the
predictor applied to the newest received input (the default input if there is none); the stream
only grows, so a value once received for a frame is never replaced.
-/
import GgrsModel.Model.Inventory
import GgrsModel.Model.Sites.InputQueue
import GgrsModel.Model.Sites.SyncLayer
import GgrsModel.Model.Sites.P2pSession
import GgrsModel.Model.P2P
import GgrsModel.Proofs.Monad
import GgrsModel.Proofs.Predict
import GgrsModel.Proofs.Monotone
import GgrsModel.Proofs.DropWorld

namespace Ggrs.InputQueue

/-- A `Confirmed` input is the one stored in the ring for exactly the requested frame, and the
queue is not in prediction mode. -/
theorem C03_confirmed (pred : Predictor) (q q' : InputQueue) (f : Frame) (v : Input)
    (h : q.input pred f = .ok (q', v, .confirmed)) :
    ∃ pos, (rget q.inputs pos).frame = f ∧ (rget q.inputs pos).input = v ∧ q.prediction.frame < 0 := by
  unfold input at h
  obtain ⟨_, h⟩ := ensure_bind_ok h
  obtain ⟨_, h⟩ := ensure_bind_ok h
  simp only at h
  by_cases hp : q.prediction.frame < 0
  · simp only [hp, if_true] at h
    by_cases ho : (f - (rget q.inputs q.tail).frame).toNat < q.length
    · simp only [ho, if_true] at h
      obtain ⟨hslot, h⟩ := ensure_bind_ok h
      have := pure_ok h
      simp only [Prod.mk.injEq] at this
      exact ⟨_, by simpa using hslot, this.2.1, hp⟩
    · simp only [ho, if_false] at h
      obtain ⟨_, h⟩ := ensure_bind_ok h
      have := pure_ok h
      simp at this
  · simp only [hp, if_false] at h
    obtain ⟨_, h⟩ := ensure_bind_ok h
    have := pure_ok h
    simp at this

/-- A `Predicted` input is the queue's current prediction, which is either carried over unchanged
(sticky prediction) or freshly made: the predictor applied to the newest input in the queue, or
the default input if there is none (or frame 0 is requested). -/
theorem C03_predicted (pred : Predictor) (q q' : InputQueue) (f : Frame) (v : Input)
    (h : q.input pred f = .ok (q', v, .predicted)) :
    v = q'.prediction.input ∧
    (q.prediction.frame ≥ 0 → q'.prediction = q.prediction) ∧
    (q.prediction.frame < 0 →
      (f = 0 ∨ q.lastAddedFrame = NULL_FRAME → v = 0) ∧
      (¬ (f = 0 ∨ q.lastAddedFrame = NULL_FRAME) → v = pred.predict (rget q.inputs (prevPos q.head)).input)) := by
  unfold input at h
  obtain ⟨_, h⟩ := ensure_bind_ok h
  obtain ⟨_, h⟩ := ensure_bind_ok h
  simp only at h
  by_cases hp : q.prediction.frame < 0
  · simp only [hp, if_true] at h
    by_cases ho : (f - (rget q.inputs q.tail).frame).toNat < q.length
    · simp only [ho, if_true] at h
      obtain ⟨_, h⟩ := ensure_bind_ok h
      have := pure_ok h
      simp at this
    · simp only [ho, if_false] at h
      obtain ⟨_, h⟩ := ensure_bind_ok h
      have := pure_ok h
      simp only [Prod.mk.injEq] at this
      obtain ⟨hq, hv, _⟩ := this
      subst hq
      refine ⟨hv.symm, fun hge => absurd hp (Int.not_lt.mpr hge), fun _ => ?_⟩
      subst hv
      constructor
      · intro hz
        have : (f == 0 || q.lastAddedFrame == NULL_FRAME) = true := by
          rcases hz with hz | hz <;> simp [hz]
        simp [this]
      · intro hz
        have : (f == 0 || q.lastAddedFrame == NULL_FRAME) = false := by
          simp only [not_or] at hz
          simp [hz.1, hz.2]
        simp [this]
  · simp only [hp, if_false] at h
    obtain ⟨_, h⟩ := ensure_bind_ok h
    have := pure_ok h
    simp only [Prod.mk.injEq] at this
    obtain ⟨hq, hv, _⟩ := this
    subst hq
    exact ⟨hv.symm, fun _ => rfl, fun hlt => absurd hlt hp⟩

end Ggrs.InputQueue

namespace Ggrs.SyncLayer

/-- A `Disconnected` input is the default input, for a player that is flagged disconnected as of a
frame before the one being simulated. Stated on one step of the loop: the head player gets
`(0, Disconnected)` exactly when that condition holds; otherwise its queue is asked (and the
queue never answers `Disconnected`). -/
theorem C03_disconnected_iff (pred : Predictor) (cur : Frame) (cs : ConnStatus) (rest : List ConnStatus)
    (i : Nat) (qs : List InputQueue) (acc : List (Input × InputStatus)) :
    (cs.disconnected = true ∧ cs.lastFrame < cur →
      synchronizedInputsLoop pred cur (cs :: rest) i qs acc =
        synchronizedInputsLoop pred cur rest (i + 1) qs ((0, .disconnected) :: acc)) ∧
    (¬ (cs.disconnected = true ∧ cs.lastFrame < cur) →
      synchronizedInputsLoop pred cur (cs :: rest) i qs acc =
        (do
          ensure (i < qs.length) "synchronized_inputs: handle out of range"
          let (q, v, st) ← (rget qs i).input pred cur
          synchronizedInputsLoop pred cur rest (i + 1) (rset qs i q) ((v, st) :: acc))) := by
  constructor
  · rintro ⟨h1, h2⟩; simp [synchronizedInputsLoop, h1, h2]
  · intro h
    have : (cs.disconnected && decide (cs.lastFrame < cur)) = false := by
      by_cases h1 : cs.disconnected = true
      · have : ¬ cs.lastFrame < cur := fun h2 => h ⟨h1, h2⟩
        simp [h1, this]
      · simp [h1]
    simp [synchronizedInputsLoop, this]

/-- The input queue never produces the status `Disconnected`. -/
theorem C03_queue_never_disconnected (pred : Predictor) (q q' : InputQueue) (f : Frame) (v : Input) :
    q.input pred f ≠ .ok (q', v, .disconnected) := by
  intro h
  unfold InputQueue.input at h
  obtain ⟨_, h⟩ := ensure_bind_ok h
  obtain ⟨_, h⟩ := ensure_bind_ok h
  simp only at h
  by_cases hp : q.prediction.frame < 0
  · simp only [hp, if_true] at h
    by_cases ho : (f - (rget q.inputs q.tail).frame).toNat < q.length
    · simp only [ho, if_true] at h
      obtain ⟨_, h⟩ := ensure_bind_ok h
      have := pure_ok h
      simp at this
    · simp only [ho, if_false] at h
      obtain ⟨_, h⟩ := ensure_bind_ok h
      have := pure_ok h
      simp at this
  · simp only [hp, if_false] at h
    obtain ⟨_, h⟩ := ensure_bind_ok h
    have := pure_ok h
    simp at this

end Ggrs.SyncLayer

namespace Ggrs.P2P

/-- `confirmed_frame()` is the minimum of the last frames of the connected players: it is at most
the last frame of every connected player (so every frame at or below it has been received from
everybody who is still connected). -/
theorem C03_confirmed_frame_le (s : P2P) (c : Frame) (h : s.confirmedFrame = .ok c) :
    ∀ cs ∈ s.localConnectStatus, cs.disconnected = false → c ≤ cs.lastFrame := by
  unfold confirmedFrame at h
  simp only at h
  obtain ⟨_, h⟩ := ensure_bind_ok h
  have hc := pure_ok h
  subst hc
  -- a fold of `min` is below every element it folded in
  have key : ∀ (l : List ConnStatus) (m0 : Int),
      (l.foldl (fun m cs => if !cs.disconnected then min m cs.lastFrame else m) m0 ≤ m0) ∧
      ∀ cs ∈ l, cs.disconnected = false →
        l.foldl (fun m cs => if !cs.disconnected then min m cs.lastFrame else m) m0 ≤ cs.lastFrame := by
    intro l
    induction l with
    | nil => intro m0; exact ⟨Int.le_refl _, fun cs hcs => by cases hcs⟩
    | cons x xs ih =>
      intro m0
      simp only [List.foldl_cons]
      have ihx := ih (if !x.disconnected then min m0 x.lastFrame else m0)
      constructor
      · refine Int.le_trans ihx.1 ?_
        split
        · exact Int.min_le_left _ _
        · exact Int.le_refl _
      · intro cs hcs hd
        rcases List.mem_cons.mp hcs with rfl | hin
        · refine Int.le_trans ihx.1 ?_
          simp [hd, Int.min_le_right]
        · exact ihx.2 cs hin hd
  exact (key s.localConnectStatus Endpoint.i32Max).2

end Ggrs.P2P

namespace Ggrs
open InputQueue

/-- **C03, status is truthful (queue level, all histories).** In every state reachable from a new
queue, whatever `input` answers for a request `req` is truthful. -/
theorem C03_status_truthful (pr : Predictor) (st : QState) (hr : QStar pr ⟨InputQueue.new, {}, []⟩ st)
    (req : Frame) (v : Input) (status : InputStatus) (q' : InputQueue) (h0 : 0 ≤ req)
    (hm : st.q.lastRequestedFrame = NULL_FRAME ∨ st.q.lastRequestedFrame ≤ req)
    (hin : st.q.input pr req = .ok (q', v, status)) :
    (status = .confirmed ∧ req < st.s.vals.length ∧ v = st.s.vals.getD req.toNat 0) ∨
    (status = .predicted ∧ (st.s.vals.length : Int) ≤ req ∧ v = predValue pr st.s.vals) := by
  have h := PInv_run pr _ st (PInv_new pr) hr
  rcases (PInv_input pr _ _ _ _ req v status h h0 hm hin).2 with ⟨a, _, b, c, _⟩ | ⟨a, b, c, _⟩
  · exact Or.inl ⟨a, b, c⟩
  · exact Or.inr ⟨a, b, c⟩

theorem submit_prefix (s : QSpec) (uf : Int) (v : Input) : ∃ ext, (s.submit uf v).1.vals = s.vals ++ ext := by
  unfold QSpec.submit
  split
  · exact ⟨[], by simp⟩
  · simp only
    split
    · exact ⟨[], by simp⟩
    · exact ⟨_, by simp only [List.append_assoc]; rfl⟩

theorem setDelay_prefix (s : QSpec) (d : Nat) : ∃ ext, (s.setDelay d).1.vals = s.vals ++ ext := by
  unfold QSpec.setDelay
  simp only
  split
  · exact ⟨[], by simp⟩
  · exact ⟨_, rfl⟩

/-- **C03, received inputs are final.** No operation ever changes the value the stream holds for a
frame: later states extend the stream, they never rewrite it. -/
theorem C03_confirmed_final (pr : Predictor) (st st' : QState) (hr : QStar pr st st') :
    ∃ ext, st'.s.vals = st.s.vals ++ ext := by
  induction hr with
  | refl => exact ⟨[], by simp⟩
  | step st' st'' _ hs ih =>
    obtain ⟨e1, h1⟩ := ih
    cases hs with
    | add uf v q' fr _ =>
      obtain ⟨e2, h2⟩ := submit_prefix st'.s uf v
      exact ⟨e1 ++ e2, by show (st'.s.submit uf v).1.vals = _; rw [h2, h1, List.append_assoc]⟩
    | setDelay d q' fills _ =>
      obtain ⟨e2, h2⟩ := setDelay_prefix st'.s d
      exact ⟨e1 ++ e2, by show (st'.s.setDelay d).1.vals = _; rw [h2, h1, List.append_assoc]⟩
    | discard f q' _ _ => exact ⟨e1, h1⟩
    | inputConfirmed req v q' _ _ _ => exact ⟨e1, h1⟩
    | inputPredicted req v q' _ _ _ => exact ⟨e1, h1⟩
    | reset => exact ⟨e1, h1⟩

/-! Non-vacuity: a concrete history with a prediction, a matching and a mismatching arrival. -/
example : (InputQueue.new.input .repeatLast 0).map (fun r => (r.2.1, r.2.2)) = .ok (0, .predicted) := by decide

end Ggrs

namespace Ggrs

/-- **C03, `confirmed_frame()` never decreases (rollback mode, no disconnected players).** Along
any run of remote-input arrivals, `advance_frame` calls and `set_input_delay` calls, a later value
of `confirmed_frame()` is at least an earlier one: every player's `last_frame` is the newest frame
its queue holds (`status_top`) and the queues' streams only grow. -/
theorem C03_confirmed_monotone (x y : P2P × TLState) (h : HInv x) (hr : DStar x y) (cx cy : Frame)
    (hcx : x.1.confirmedFrame = .ok cx) (hcy : y.1.confirmedFrame = .ok cy) : cx ≤ cy :=
  confirmedFrame_mono x y h hr cx cy hcx hcy

end Ggrs

namespace Ggrs

/-- **C03, statuses are truthful with dropped players (rollback sessions, drops detected
locally).** After any run of arrivals, calls, accepted `disconnect_player` calls and Disconnected
events, whenever a call simulates a new frame `c`, then for every player: the status is
Disconnected (with the blank input) exactly when the player is marked disconnected with a last
frame before `c`; otherwise it is Confirmed with the real input of frame `c`, which has arrived, or
Predicted with the predictor applied to the newest input that has arrived, the input of `c` not
being among them. -/
theorem C03_status_with_drops (x y : P2P × TLState) (h0 : XInv x) (hrun : XStar x y)
    (now : Nat) (s' : P2P) (reqs' : List Request)
    (hadv : y.1.advanceRollbackFrame now [] = .ok (s', reqs'))
    (hnew : s'.sync.currentFrame ≠ y.1.sync.currentFrame) :
    ∃ (gh : DGhost) (reqs1 : List Request) (c : Nat) (ins : List (Input × InputStatus)),
      y.1.sync.currentFrame = (c : Int) ∧ reqs' = reqs1 ++ [.advance ins] ∧ ins.length = y.1.sync.queues.length ∧
      ∀ p, p < ins.length →
        ((ins.getD p default).2 = .disconnected ↔ Skip (rget y.1.localConnectStatus p) c) ∧
        (Skip (rget y.1.localConnectStatus p) c → ins.getD p default = (0, .disconnected)) ∧
        (¬ Skip (rget y.1.localConnectStatus p) c →
          ((ins.getD p default).2 = .confirmed ∧ c < (gh.specs p).vals.length ∧
            (ins.getD p default).1 = (gh.specs p).vals.getD c 0) ∨
          ((ins.getD p default).2 = .predicted ∧ (gh.specs p).vals.length ≤ c ∧
            (ins.getD p default).1 = predValue y.1.pred (gh.specs p).vals)) := by
  obtain ⟨gh, st0, h⟩ := XInv_run x y h0 hrun
  obtain ⟨s1, reqs1, gh1, gh2, gh', hset, _, _, _, _, _, _, _, _, _, hcase⟩ :=
    advanceRollbackFrame_specD y.1 s' gh y.2 [] reqs' now st0 h hadv
  rcases hcase with ⟨_, hcur⟩ | ⟨c, ins, hc, hr, hil, hok, _, _, hcur⟩
  · exact absurd hcur hnew
  · refine ⟨gh2, reqs1, c, ins, hc, hr, hil, ?_⟩
    intro p hp
    obtain ⟨a, b⟩ := hok p hp
    refine ⟨⟨fun hd => ?_, fun hsk => by rw [a hsk]⟩, a, b⟩
    by_cases hsk : Skip (rget y.1.localConnectStatus p) (c : Int)
    · exact hsk
    · rcases b hsk with ⟨e, _⟩ | ⟨e, _⟩ <;> rw [e] at hd <;> cases hd

end Ggrs
