/-
C18 — Internal buffers stay bounded (the bounds that are local to one call).
-/
import GgrsModel.Model.Inventory
import GgrsModel.Model.Sites.P2pSession
import GgrsModel.Model.Sites.Protocol
import GgrsModel.Model.Sites.SpectatorSession
import GgrsModel.Proofs.RecvBound
import GgrsModel.Model.Spectator
import GgrsModel.Proofs.Monad

namespace Ggrs

theorem drop_length_le {α} (l : List α) (cap : Nat) : (l.drop (l.length - cap)).length ≤ cap := by
  simp only [List.length_drop]; omega

namespace P2P

/-- After the trimming step the event queue holds at most `MAX_EVENT_QUEUE_SIZE` events. -/
theorem C18_trim (s : P2P) : s.trimEvents.eventQueue.length ≤ MAX_EVENT_QUEUE_SIZE :=
  drop_length_le _ _

/-- Every endpoint event handled by the session ends with the queue within its bound, whatever
the event was and however full the queue was before (a user that never drains events). -/
theorem C18_event_queue_after_handle_event (s s' : P2P) (now : Nat) (ev : ProtoEvent) (hs : List Nat) (addr : Nat)
    (h : s.handleEvent now ev hs addr = .ok s') : s'.eventQueue.length ≤ MAX_EVENT_QUEUE_SIZE := by
  unfold handleEvent at h
  obtain ⟨s1, _, h⟩ := bind_ok h
  have := pure_ok h
  subst this
  exact C18_trim s1

/-- Every successful `advance_frame` leaves the queue within its bound, including the
`WaitRecommendation` / `DesyncDetected` events that are queued outside of `handle_event`. -/
theorem C18_event_queue_after_advance (s s' : P2P) (now : Nat) (reqs : List Request)
    (h : s.advanceFrameAfterPoll now = .ok (s', .ok reqs)) :
    s'.eventQueue.length ≤ MAX_EVENT_QUEUE_SIZE := by
  unfold advanceFrameAfterPoll at h
  obtain ⟨p, _, h⟩ := bind_ok h
  obtain ⟨s1, r⟩ := p
  simp only at h
  cases r with
  | ok rs =>
    have := pure_ok h
    simp only [Prod.mk.injEq] at this
    rw [← this.1]
    exact C18_trim s1
  | error e =>
    have := pure_ok h
    simp at this

/-- Without remote peers nothing is ever queued for sending. -/
theorem C18_no_remotes_no_queue (s s' : P2P) (h : Nat) (inp : PlayerInput) (hr : s.remotes = [])
    (hq : s.queueOutgoingLocalInput h inp = .ok s') : s'.outgoingLocalInputs = s.outgoingLocalInputs := by
  unfold queueOutgoingLocalInput at hq
  obtain ⟨_, hq⟩ := ensure_bind_ok hq
  simp only [hr, List.isEmpty_nil, if_true] at hq
  have := pure_ok hq
  subst this; rfl

end P2P

namespace Spectator

theorem C18_trim (s : Spectator) : s.trimEvents.eventQueue.length ≤ MAX_EVENT_QUEUE_SIZE :=
  drop_length_le _ _

theorem C18_event_queue_after_handle_event (s s' : Spectator) (now : Nat) (ev : ProtoEvent) (addr : Nat)
    (h : s.handleEvent now ev addr = .ok s') : s'.eventQueue.length ≤ MAX_EVENT_QUEUE_SIZE := by
  unfold handleEvent at h
  obtain ⟨s1, _, h⟩ := bind_ok h
  have := pure_ok h
  subst this
  exact C18_trim s1

end Spectator

namespace Endpoint

/-- The checksum history of an endpoint never holds more than MAX_CHECKSUM_HISTORY_SIZE + 1
entries right after a report was stored, provided the stored frames are pairwise distinct … the
pruning step itself: once the history is full, everything older than 31 intervals before the new
report is dropped before the report is stored. -/
theorem C18_checksum_prune (e e' : Endpoint) (cs : Nat) (f : Frame) (i : Nat)
    (hi : e.desyncInterval = some i) (h : e.onChecksumReport cs f = .ok e')
    (hfull : e.pendingChecksums.length ≥ MAX_CHECKSUM_HISTORY_SIZE) :
    ∀ p ∈ e'.pendingChecksums, p.1 = f ∨ p.1 ≥ f - ((MAX_CHECKSUM_HISTORY_SIZE : Int) - 1) * (i : Int) := by
  unfold onChecksumReport at h
  simp only [hi, bind, Except.bind, pure, Except.pure, hfull, if_true] at h
  cases h
  intro p hp
  simp only at hp
  -- membership in `ainsert` is the new pair or an old (kept) one
  have key : ∀ (l : List (Int × Nat)) (p : Int × Nat), p ∈ ainsert f cs l → p = (f, cs) ∨ p ∈ l := by
    intro l
    induction l with
    | nil => intro p hp; simp [ainsert] at hp; exact Or.inl hp
    | cons x xs ih =>
      intro p hp
      obtain ⟨k', v'⟩ := x
      simp only [ainsert] at hp
      split at hp
      · rcases List.mem_cons.mp hp with h1 | h1
        · exact Or.inl h1
        · exact Or.inr h1
      · split at hp
        · rcases List.mem_cons.mp hp with h1 | h1
          · exact Or.inl h1
          · exact Or.inr (List.mem_cons_of_mem _ h1)
        · rcases List.mem_cons.mp hp with h1 | h1
          · exact Or.inr (by rw [h1]; exact List.mem_cons_self)
          · rcases ih p h1 with h2 | h2
            · exact Or.inl h2
            · exact Or.inr (List.mem_cons_of_mem _ h2)
  rcases key _ p hp with h1 | h1
  · left; rw [h1]
  · right
    have := (List.mem_filter.mp h1).2
    simpa using this

end Endpoint
end Ggrs

namespace Ggrs

/-- **C18, unacknowledged and remembered inputs (every schedule of one link).** For every schedule
of submissions, retransmissions, packet and acknowledgement deliveries (Proofs/Link.lean), the
sender never holds more than `PENDING_OUTPUT_SIZE + 1` unacknowledged inputs (as long as the
session stops submitting once the window is full — it disconnects the endpoint then) and the
receiver never remembers more than `2·max_prediction + 1` received inputs. -/
theorem C18_link_buffers (S : SStream) (hsize : S.width ≤ 65535) (st st' : Link) (h : LInv S st)
    (hb : RBound st.b) (hrun : LStar S st st') :
    st'.a.pendingOutput.length ≤ PENDING_OUTPUT_SIZE + 1 ∧
    st'.b.recvInputs.length ≤ 2 * st.b.maxPrediction + 1 := by
  have h' := L_link S hsize st st' h hrun
  refine ⟨?_, (RBound_run S hsize st st' h hb hrun).2.2⟩
  rw [h'.sinv.pend, framesFrom_length]
  exact h'.pendLen

end Ggrs
