/-
C05 — Transient network faults never wedge a session (the acknowledgement discipline).

After the `fix:` commit every well-formed input packet that passes the shape checks is answered:
with an InputAck carrying the receiver's newest frame, whether or not its payload could be decoded
against an input the receiver still holds. This is the step that makes the sender's retransmission
loop converge after any number of lost acknowledgements.

`C05_stream_intact` and `C05_link_recovers` are the link-level theorems (Proofs/RecvStream*.lean,
Proofs/Link.lean): sender endpoint and receiver endpoint joined by a network that may lose,
duplicate, delay and reorder every message in both directions, for schedules of any length. The
first says the input stream the receiver hands to its session is always an exact prefix of what
the sender submitted; the second that from EVERY state such a schedule can produce, one clean
exchange (ack, retransmission, ack) brings the receiver fully up to date and empties the sender's
window — before the `fix:` commit the second was false (a receiver that had pruned the sender's
reference input never answered, so the window never moved). What remains decided on traces only
is the session level above the link (frames advance again, no Disconnected event; monitor clause
`no-progress`, families loss/specack) and the handshake under loss (C12_handshake covers its
safety).
-/
import GgrsModel.Model.Inventory
import GgrsModel.Proofs.Endpoint
import GgrsModel.Proofs.Link

namespace Ggrs.Endpoint
open Codec (Bytes)

/-- A packet whose reference input the receiver no longer holds (pruned after lost acks) or never
held is acknowledged with the receiver's newest frame; nothing else changes. -/
theorem C05_undecodable_is_acked (e : Endpoint) (now : Nat) (sf : Frame) (bytes : Bytes)
    (href : alookup (if e.lastRecvFrame == NULL_FRAME then NULL_FRAME else sf - 1) e.recvInputs = none) :
    e.decodeInputs now sf bytes = e.sendInputAck now ∧
    (e.decodeInputs now sf bytes).sendQueue = e.sendQueue ++ [⟨e.magic, .inputAck e.lastRecvFrame⟩] := by
  have h1 : e.decodeInputs now sf bytes = e.sendInputAck now := by
    unfold decodeInputs
    simp only [href]
  exact ⟨h1, by rw [h1]; rfl⟩

/-- The sender drops everything the acknowledgement covers: after `pop_pending_output ack` every
pending input is newer than `ack`, provided the pending frames are increasing (they are
consecutive by construction). -/
theorem C05_ack_pops (e : Endpoint) (ack : Frame)
    (hinc : e.pendingOutput.Pairwise (fun a b => a.frame < b.frame)) :
    ∀ x ∈ (e.popPendingOutput ack).pendingOutput, x.frame > ack := by
  unfold popPendingOutput
  simp only
  have key : ∀ (l : List InputBytes) (la : InputBytes), l.Pairwise (fun a b => a.frame < b.frame) →
      ∀ x ∈ (popPendingOutput.go ack l la).1, x.frame > ack := by
    intro l
    induction l with
    | nil => intro la _ x hx; simp [popPendingOutput.go] at hx
    | cons y ys ih =>
      intro la hp x hx
      unfold popPendingOutput.go at hx
      by_cases hy : y.frame ≤ ack
      · simp only [hy, if_true] at hx
        exact ih y (List.Pairwise.of_cons hp) x hx
      · simp only [hy, if_false] at hx
        rcases List.mem_cons.mp hx with rfl | hin
        · exact Int.not_le.mp hy
        · have := (List.pairwise_cons.mp hp).1 x hin
          exact Int.lt_trans (Int.not_le.mp hy) this
  exact key e.pendingOutput e.lastAckedInput hinc

end Ggrs.Endpoint

namespace Ggrs
open Codec (Bytes)

/-- **C05, stream intact.** Start from any state satisfying the link invariant (two endpoints right
after the handshake do: `LInv_init`). After ANY schedule of input submissions, retransmissions,
deliveries of any Input message ever sent (lost = never delivered, duplicated = delivered twice,
reordered = delivered in any order) and deliveries of any acknowledgement, the Input events the
receiver has raised are exactly the events of the stream's frames `f0 .. newest received`, in
order, and the invariant still holds. -/
theorem C05_stream_intact (S : SStream) (hsize : S.width ≤ 65535) (st st' : Link) (h : LInv S st)
    (hrun : LStar S st st') :
    LInv S st' ∧
    st'.b.eventQueue = evsRange S st'.b.handles S.f0 (nextFrame st'.b S - S.f0).toNat ∧
    st'.b.lastRecvFrame ≤ (S.f0 : Int) + st'.k - 1 :=
  have h' := L_link S hsize st st' h hrun
  ⟨h', h'.events, h'.causal⟩

/-- **C05, recovery.** From every state reachable under any fault schedule, one clean exchange
resynchronises the link (see `L_link_recovers`). -/
theorem C05_link_recovers (S : SStream) (hsize : S.width ≤ 65535) (st st' : Link) (h : LInv S st)
    (hrun : LStar S st st') (now now' : Nat) (cs : List ConnStatus) (a2 : Endpoint)
    (hs : (st'.a.popPendingOutput st'.b.lastRecvFrame).sendPendingOutput now cs = .ok a2) :
    (a2.sendQueue = st'.a.sendQueue ∧ nextFrame st'.b S = (S.f0 : Int) + st'.k ∧ a2.pendingOutput = []) ∨
    (∃ m cs' d start ack bytes, a2.sendQueue = st'.a.sendQueue ++ [m] ∧ m.body = .input cs' d start ack bytes ∧
      start = nextFrame st'.b S ∧
      (st'.b.decodeInputs now' start bytes).lastRecvFrame = (S.f0 : Int) + st'.k - 1 ∧
      (a2.popPendingOutput (st'.b.decodeInputs now' start bytes).lastRecvFrame).pendingOutput = []) :=
  L_link_recovers S hsize st' (L_link S hsize st st' h hrun) now now' cs a2 hs

/-- The sender never holds more than `PENDING_OUTPUT_SIZE + 1` unacknowledged inputs as long as the
session stops submitting once the window is full (it disconnects the endpoint then): C18's bound
on unacknowledged inputs, for every schedule. -/
theorem C05_window_bounded (S : SStream) (hsize : S.width ≤ 65535) (st st' : Link) (h : LInv S st)
    (hrun : LStar S st st') : st'.a.pendingOutput.length ≤ PENDING_OUTPUT_SIZE + 1 := by
  have h' := L_link S hsize st st' h hrun
  rw [h'.sinv.pend, framesFrom_length]
  exact h'.pendLen

/-! Non-vacuity: freshly built endpoints satisfy the hypotheses (`RInv_new`, `LInv_init`), and a
concrete two-frame exchange with a duplicated, reordered delivery. -/
example : RInv (Endpoint.new [0] 1 2 1 8 2000 500 60 none 7 0) ⟨0, [[5], [6]], 1⟩ :=
  RInv_new [0] 1 2 1 8 2000 500 60 none 7 0 ⟨0, [[5], [6]], 1⟩ rfl (by decide) (by decide)

end Ggrs
