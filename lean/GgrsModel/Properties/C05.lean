/-
C05 — Transient network faults never wedge a session (the acknowledgement discipline).

After the `fix:` commit every well-formed input packet that passes the shape checks is answered:
with an InputAck carrying the receiver's newest frame, whether or not its payload could be decoded
against an input the receiver still holds. This is the step that makes the sender's retransmission
loop converge after any number of lost acknowledgements; the end-to-end recovery ("two clean
rounds suffice") is decided on traces (monitor clause `no-progress`, families loss/specack).
-/
import GgrsModel.Proofs.Endpoint

namespace Ggrs.Endpoint
open Codec (Bytes)

/-- A packet whose reference input the receiver no longer holds (pruned after lost acks) or never
held is acknowledged with the receiver's newest frame; nothing else changes. -/
theorem C05_undecodable_is_acked (e : Endpoint) (now : Nat) (sf : Frame) (bytes : Bytes)
    (href : alookup (if e.lastRecvFrame == NULL_FRAME then NULL_FRAME else sf - 1) e.recvInputs = none) :
    e.decodeInputs now sf bytes = e.sendInputAck now ∧
    (e.decodeInputs now sf bytes).sendQueue = e.sendQueue ++ [⟨e.magic, .inputAck e.lastRecvFrame⟩] := by
  have h1 : e.decodeInputs now sf bytes = e.sendInputAck now := by
    unfold decodeInputs
    simp only [href]
  exact ⟨h1, by rw [h1]; rfl⟩

/-- The sender drops everything the acknowledgement covers: after `pop_pending_output ack` every
pending input is newer than `ack`, provided the pending frames are increasing (they are
consecutive by construction). -/
theorem C05_ack_pops (e : Endpoint) (ack : Frame)
    (hinc : e.pendingOutput.Pairwise (fun a b => a.frame < b.frame)) :
    ∀ x ∈ (e.popPendingOutput ack).pendingOutput, x.frame > ack := by
  unfold popPendingOutput
  simp only
  have key : ∀ (l : List InputBytes) (la : InputBytes), l.Pairwise (fun a b => a.frame < b.frame) →
      ∀ x ∈ (popPendingOutput.go ack l la).1, x.frame > ack := by
    intro l
    induction l with
    | nil => intro la _ x hx; simp [popPendingOutput.go] at hx
    | cons y ys ih =>
      intro la hp x hx
      unfold popPendingOutput.go at hx
      by_cases hy : y.frame ≤ ack
      · simp only [hy, if_true] at hx
        exact ih y (List.Pairwise.of_cons hp) x hx
      · simp only [hy, if_false] at hx
        rcases List.mem_cons.mp hx with rfl | hin
        · exact Int.not_le.mp hy
        · have := (List.pairwise_cons.mp hp).1 x hin
          exact Int.lt_trans (Int.not_le.mp hy) this
  exact key e.pendingOutput e.lastAckedInput hinc

end Ggrs.Endpoint
