/-
C05 — Transient network faults never wedge a session (the acknowledgement discipline).

After the `fix:` commit every well-formed input packet that passes the shape checks is answered:
with an InputAck carrying the receiver's newest frame, whether or not its payload could be decoded
against an input the receiver still holds. This is the step that makes the sender's retransmission
loop converge after any number of lost acknowledgements.

`C05_stream_intact` and `C05_link_recovers` are the link-level theorems (Proofs/RecvStream*.lean,
Proofs/Link.lean): sender endpoint and receiver endpoint joined by a network that may lose,
duplicate, delay and reorder every message in both directions, for schedules of any length. The
first says the input stream the receiver hands to its session is always an exact prefix of what
the sender submitted; the second that from EVERY state such a schedule can produce, one clean
exchange (ack, retransmission, ack) brings the receiver fully up to date and empties the sender's
window — before the `fix:` commit the second was false (a receiver that had pruned the sender's
reference input never answered, so the window never moved). What remains decided on traces only
is the session level above the link (frames advance again, no Disconnected event; monitor clause
`no-progress`, families loss/specack). The handshake under loss: `C12_handshake` is its safety
(Running only after NUM_SYNC_PACKETS matched round trips), `C05_handshake_round`,
`C05_handshake_retry`, `C05_handshake_completes` its liveness in the bounded-recovery form: from
every synchronizing state with a request outstanding — there always is one — `r` round trips that
come through make the endpoint Running, whatever was lost before, and the retry timer keeps
offering new ones.
-/
import GgrsModel.Model.Inventory
import GgrsModel.Model.Sites.Protocol
import GgrsModel.Model.Sites.P2pSession
import GgrsModel.Model.Sites.SpectatorSession
import GgrsModel.Proofs.Endpoint
import GgrsModel.Proofs.Link

namespace Ggrs.Endpoint
open Codec (Bytes)

/-- A packet whose reference input the receiver no longer holds (pruned after lost acks) or never
held is acknowledged with the receiver's newest frame; nothing else changes. -/
theorem C05_undecodable_is_acked (e : Endpoint) (now : Nat) (sf : Frame) (bytes : Bytes)
    (href : alookup (if e.lastRecvFrame == NULL_FRAME then NULL_FRAME else sf - 1) e.recvInputs = none) :
    e.decodeInputs now sf bytes = e.sendInputAck now ∧
    (e.decodeInputs now sf bytes).sendQueue = e.sendQueue ++ [⟨e.magic, .inputAck e.lastRecvFrame⟩] := by
  have h1 : e.decodeInputs now sf bytes = e.sendInputAck now := by
    unfold decodeInputs
    simp only [href]
  exact ⟨h1, by rw [h1]; rfl⟩

/-- The sender drops everything the acknowledgement covers: after `pop_pending_output ack` every
pending input is newer than `ack`, provided the pending frames are increasing (they are
consecutive by construction). -/
theorem C05_ack_pops (e : Endpoint) (ack : Frame)
    (hinc : e.pendingOutput.Pairwise (fun a b => a.frame < b.frame)) :
    ∀ x ∈ (e.popPendingOutput ack).pendingOutput, x.frame > ack := by
  unfold popPendingOutput
  simp only
  have key : ∀ (l : List InputBytes) (la : InputBytes), l.Pairwise (fun a b => a.frame < b.frame) →
      ∀ x ∈ (popPendingOutput.go ack l la).1, x.frame > ack := by
    intro l
    induction l with
    | nil => intro la _ x hx; simp [popPendingOutput.go] at hx
    | cons y ys ih =>
      intro la hp x hx
      unfold popPendingOutput.go at hx
      by_cases hy : y.frame ≤ ack
      · simp only [hy, if_true] at hx
        exact ih y (List.Pairwise.of_cons hp) x hx
      · simp only [hy, if_false] at hx
        rcases List.mem_cons.mp hx with rfl | hin
        · exact Int.not_le.mp hy
        · have := (List.pairwise_cons.mp hp).1 x hin
          exact Int.lt_trans (Int.not_le.mp hy) this
  exact key e.pendingOutput e.lastAckedInput hinc

end Ggrs.Endpoint

namespace Ggrs
open Codec (Bytes)

/-- **C05, stream intact.** Start from any state satisfying the link invariant (two endpoints right
after the handshake do: `LInv_init`). After ANY schedule of input submissions, retransmissions,
deliveries of any Input message ever sent (lost = never delivered, duplicated = delivered twice,
reordered = delivered in any order) and deliveries of any acknowledgement, the Input events the
receiver has raised are exactly the events of the stream's frames `f0 .. newest received`, in
order, and the invariant still holds. -/
theorem C05_stream_intact (S : SStream) (hsize : S.width ≤ 65535) (st st' : Link) (h : LInv S st)
    (hrun : LStar S st st') :
    LInv S st' ∧
    st'.b.eventQueue = evsRange S st'.b.handles S.f0 (nextFrame st'.b S - S.f0).toNat ∧
    st'.b.lastRecvFrame ≤ (S.f0 : Int) + st'.k - 1 :=
  have h' := L_link S hsize st st' h hrun
  ⟨h', h'.events, h'.causal⟩

/-- **C05, recovery.** From every state reachable under any fault schedule, one clean exchange
resynchronises the link (see `L_link_recovers`). -/
theorem C05_link_recovers (S : SStream) (hsize : S.width ≤ 65535) (st st' : Link) (h : LInv S st)
    (hrun : LStar S st st') (now now' : Nat) (cs : List ConnStatus) (a2 : Endpoint)
    (hs : (st'.a.popPendingOutput st'.b.lastRecvFrame).sendPendingOutput now cs = .ok a2) :
    (a2.sendQueue = st'.a.sendQueue ∧ nextFrame st'.b S = (S.f0 : Int) + st'.k ∧ a2.pendingOutput = []) ∨
    (∃ m cs' d start ack bytes, a2.sendQueue = st'.a.sendQueue ++ [m] ∧ m.body = .input cs' d start ack bytes ∧
      start = nextFrame st'.b S ∧
      (st'.b.decodeInputs now' start bytes).lastRecvFrame = (S.f0 : Int) + st'.k - 1 ∧
      (a2.popPendingOutput (st'.b.decodeInputs now' start bytes).lastRecvFrame).pendingOutput = []) :=
  L_link_recovers S hsize st' (L_link S hsize st st' h hrun) now now' cs a2 hs

/-- The sender never holds more than `PENDING_OUTPUT_SIZE + 1` unacknowledged inputs as long as the
session stops submitting once the window is full (it disconnects the endpoint then): C18's bound
on unacknowledged inputs, for every schedule. -/
theorem C05_window_bounded (S : SStream) (hsize : S.width ≤ 65535) (st st' : Link) (h : LInv S st)
    (hrun : LStar S st st') : st'.a.pendingOutput.length ≤ PENDING_OUTPUT_SIZE + 1 := by
  have h' := L_link S hsize st st' h hrun
  rw [h'.sinv.pend, framesFrom_length]
  exact h'.pendLen

/-! Non-vacuity: freshly built endpoints satisfy the hypotheses (`RInv_new`, `LInv_init`), and a
concrete two-frame exchange with a duplicated, reordered delivery. -/
example : RInv (Endpoint.new [0] 1 2 1 8 2000 500 60 none 7 0) ⟨0, [[5], [6]], 1⟩ :=
  RInv_new [0] 1 2 1 8 2000 500 60 none 7 0 ⟨0, [[5], [6]], 1⟩ rfl (by decide) (by decide)

end Ggrs

namespace Ggrs.Endpoint

/-- While synchronizing, a request is outstanding: there is a nonce whose reply would count. -/
def HsLive (e : Endpoint) (r : Nat) : Prop :=
  e.state = .synchronizing ∧ e.syncRemaining = r ∧ e.remoteMagic = 0 ∧ e.syncRandomRequests ≠ []

theorem addNonce_mem (l : List Nat) (x : Nat) : x ∈ (if l.contains x then l else l ++ [x]) ∧ (if l.contains x then l else l ++ [x]) ≠ [] := by
  by_cases hc : l.contains x = true
  · simp only [hc, if_true]
    have : x ∈ l := by simpa using hc
    exact ⟨this, fun h0 => by rw [h0] at this; cases this⟩
  · simp only [hc, Bool.false_eq_true, if_false]
    exact ⟨by simp, by simp⟩

theorem sendSyncRequest_live (e : Endpoint) (now : Nat) :
    (e.sendSyncRequest now).state = e.state ∧ (e.sendSyncRequest now).syncRemaining = e.syncRemaining ∧
    (e.sendSyncRequest now).remoteMagic = e.remoteMagic ∧ (e.sendSyncRequest now).magic = e.magic ∧
    (e.sendSyncRequest now).syncRandomRequests ≠ [] ∧
    ∃ x, x ∈ (e.sendSyncRequest now).syncRandomRequests ∧
      (e.sendSyncRequest now).sendQueue = e.sendQueue ++ [⟨e.magic, .syncRequest x⟩] := by
  unfold sendSyncRequest takeNonce queueMessage
  cases hn : e.nonceTape with
  | nil => exact ⟨rfl, rfl, rfl, rfl, (addNonce_mem _ 0).2, 0, (addNonce_mem _ 0).1, rfl⟩
  | cons x rest => exact ⟨rfl, rfl, rfl, rfl, (addNonce_mem _ x).2, x, (addNonce_mem _ x).1, rfl⟩

theorem noteReceived_hs (e : Endpoint) (now : Nat) :
    (e.noteReceived now).state = e.state ∧ (e.noteReceived now).syncRemaining = e.syncRemaining ∧
    (e.noteReceived now).syncRandomRequests = e.syncRandomRequests ∧ (e.noteReceived now).remoteMagic = e.remoteMagic := by
  unfold noteReceived
  simp only
  split <;> exact ⟨rfl, rfl, rfl, rfl⟩

theorem onSyncReply_round (e1 : Endpoint) (now magic x r : Nat) (hst : e1.state = .synchronizing)
    (hrem : e1.syncRemaining = r + 1) (hmag : e1.remoteMagic = 0) (hx : x ∈ e1.syncRandomRequests) :
    (r = 0 ∧ (e1.onSyncReply now magic x).state = .running ∧ (e1.onSyncReply now magic x).remoteMagic = magic) ∨
    (r > 0 ∧ HsLive (e1.onSyncReply now magic x) r ∧ ∃ y, y ∈ (e1.onSyncReply now magic x).syncRandomRequests ∧
      (⟨(e1.onSyncReply now magic x).magic, .syncRequest y⟩ : Msg) ∈ (e1.onSyncReply now magic x).sendQueue) := by
  unfold onSyncReply
  have c1 : (e1.state != .synchronizing) = false := by rw [hst]; rfl
  have c2 : (!e1.syncRandomRequests.contains x) = false := by simp [hx]
  simp only [c1, c2, Bool.false_eq_true, if_false, hrem, Nat.add_sub_cancel]
  by_cases hr : r > 0
  · rw [if_pos hr]
    right
    obtain ⟨a, b, c, m, d, y, hy, hq⟩ := sendSyncRequest_live
      ({ e1 with syncRandomRequests := e1.syncRandomRequests.filter (· != x), syncRemaining := r,
                 eventQueue := e1.eventQueue ++ [ProtoEvent.synchronizing NUM_SYNC_PACKETS (NUM_SYNC_PACKETS - r)] }) now
    refine ⟨hr, ⟨a.trans hst, b, c.trans hmag, d⟩, y, hy, ?_⟩
    rw [hq, m]
    simp
  · have hr0 : r = 0 := by omega
    rw [if_neg hr]
    left
    exact ⟨hr0, rfl, rfl⟩

/-- **C05, one handshake round trip.** An endpoint that is synchronizing with `r + 1` round trips to
go handles the reply to ANY request it has outstanding — however many of its requests and of the
peer's replies were lost before, and whatever else arrived in between: with `r = 0` it is Running
afterwards; with `r > 0` it is still synchronizing with `r` to go, has sent the next request, and
again has a request outstanding. -/
theorem C05_handshake_round (e : Endpoint) (now : Nat) (magic x : Nat) (r : Nat) (h : HsLive e (r + 1))
    (hx : x ∈ e.syncRandomRequests) :
    ∃ e', e.handleMessage now ⟨magic, .syncReply x⟩ = .ok e' ∧
      ((r = 0 ∧ e'.state = .running ∧ e'.remoteMagic = magic) ∨
       (r > 0 ∧ HsLive e' r ∧ ∃ y, y ∈ e'.syncRandomRequests ∧ (⟨e'.magic, .syncRequest y⟩ : Msg) ∈ e'.sendQueue)) := by
  obtain ⟨hst, hrem, hmag, _⟩ := h
  unfold handleMessage
  have h1 : (e.state == .shutdown) = false := by rw [hst]; rfl
  have h2 : (e.remoteMagic != 0 && magic != e.remoteMagic) = false := by simp [hmag]
  simp only [h1, h2, Bool.false_eq_true, if_false]
  obtain ⟨n1, n2, n3, n4⟩ := noteReceived_hs e now
  exact ⟨_, rfl, onSyncReply_round (e.noteReceived now) now magic x r (n1.trans hst) (n2.trans hrem) (n4.trans hmag)
    (by rw [n3]; exact hx)⟩

/-- The retry timer: a synchronizing endpoint polled more than `SYNC_RETRY_INTERVAL` after its last
request sends another one, which is then outstanding (so a lost request or reply is always
followed by a new chance). -/
theorem C05_handshake_retry (e : Endpoint) (now : Nat) (cs : List ConnStatus) (r : Nat) (h : HsLive e r)
    (ht : e.lastSyncRequestTime + ms SYNC_RETRY_INTERVAL < now) :
    ∃ e', e.pollState now cs = .ok e' ∧ HsLive e' r ∧
      ∃ y, y ∈ e'.syncRandomRequests ∧ e'.sendQueue = e.sendQueue ++ [⟨e.magic, .syncRequest y⟩] := by
  obtain ⟨hst, hrem, hmag, _⟩ := h
  unfold pollState
  simp only [hst, ht, if_true]
  obtain ⟨a, b, c, _, d, y, hy, hq⟩ := sendSyncRequest_live e now
  exact ⟨_, rfl, ⟨a.trans hst, b.trans hrem, c.trans hmag, d⟩, y, hy, hq⟩

/-- A freshly synchronizing endpoint has a request outstanding. -/
theorem C05_handshake_start (e0 e1 : Endpoint) (now : Nat) (hm : e0.remoteMagic = 0)
    (h : e0.synchronize now = .ok e1) : HsLive e1 NUM_SYNC_PACKETS := by
  unfold synchronize at h
  simp only [bind, Except.bind, ensure, pure, Except.pure] at h
  by_cases hc : (e0.state == ProtoState.initializing) = true
  · simp only [hc, if_true] at h
    cases h
    obtain ⟨a, b, c, _, d, _⟩ := sendSyncRequest_live
      ({ e0 with state := .synchronizing, syncRemaining := NUM_SYNC_PACKETS, statsStartTime := now / 1000 }) now
    exact ⟨a, b, c.trans hm, d⟩
  · simp only [hc, Bool.false_eq_true, if_false] at h
    cases h

/-- `k` clean round trips: each time, the reply to some outstanding request is handled. -/
inductive HsRounds : Endpoint → Nat → Endpoint → Prop
  | zero (e : Endpoint) : HsRounds e 0 e
  | succ (e e1 e2 : Endpoint) (k now magic x : Nat) : x ∈ e.syncRandomRequests →
      e.handleMessage now ⟨magic, .syncReply x⟩ = .ok e1 → HsRounds e1 k e2 → HsRounds e (k + 1) e2

/-- **C05, the handshake completes.** From ANY synchronizing state with `r` round trips to go and a
request outstanding — whatever was lost, duplicated or delayed before — `r` clean round trips (the
reply to an outstanding request comes through) make the endpoint Running; and a next clean round
trip is always possible on the way: after each one a fresh request has been sent and is
outstanding (`C05_handshake_round`), and the retry timer sends more (`C05_handshake_retry`). -/
theorem C05_handshake_completes : ∀ (r : Nat) (e e' : Endpoint), HsLive e r → HsRounds e r e' → r > 0 →
    e'.state = .running := by
  intro r
  induction r with
  | zero => intro e e' _ _ h; omega
  | succ k ih =>
    intro e e' hl hr _
    cases hr with
    | succ _ e1 _ _ now magic x hx hm hrest =>
      obtain ⟨e1', he1, hcase⟩ := C05_handshake_round e now magic x k hl hx
      rw [hm] at he1
      cases he1
      rcases hcase with ⟨hk, hrun, _⟩ | ⟨hk, hl1, _⟩
      · subst hk
        cases hrest
        exact hrun
      · exact ih e1 e' hl1 hrest hk

end Ggrs.Endpoint
