/-
C12 — Connection lifecycle events are well formed and correctly timed (endpoint level).

Model: Model/Protocol.lean (`UdpProtocol`). The theorems quantify over *every* sequence of
incoming messages (any loss, duplication, reordering, forged or foreign packets) and polls at
arbitrary times.

`C12_event_language` (Proofs/Events.lean) is the all-sequences statement for the events one
endpoint hands to its session: over every sequence of incoming messages, polls (after which the
session disconnects the endpoint if it finds `Disconnected`), `send_input` calls, explicit
disconnects and the initial `synchronize`, the events handed out form a word of
  Synchronizing(total,1) … Synchronizing(total,total-1) Synchronized
  (NetworkInterrupted NetworkResumed)* [NetworkInterrupted] [Disconnected]
(Input events anywhere), with nothing after `Disconnected`. Proving it exposed defect F10 (events
queued behind a `Disconnected` that `send_input` had queued); the theorem holds for the repaired
code. Hypothesis `Ordinary`: incoming Input packets do not carry `disconnect_requested` — no
endpoint ever sends one that does (`sendPendingOutput_flag`: inputs are only sent while Running).
Per remote ADDRESS the session forwards exactly these events (`handle_event`), so this is C12's
event grammar for sessions with one endpoint per address; timing (keep-alives, the two-second
default) stays with the monitor.
-/
import GgrsModel.Model.Inventory
import GgrsModel.Model.Sites.Protocol
import GgrsModel.Model.Sites.P2pSession
import GgrsModel.Model.Sites.SpectatorSession
import GgrsModel.Proofs.Endpoint
import GgrsModel.Proofs.Events
import GgrsModel.Model.P2P
import GgrsModel.Proofs.Monad

namespace Ggrs.Endpoint

/-- What the network and the clock can do to an endpoint. -/
inductive EpOp where
  | handle (now : Nat) (msg : Msg)
  | poll (now : Nat) (connectStatus : List ConnStatus)

/-- The message is a handshake reply that matches a request this endpoint has outstanding (and
passes the magic filter) while it is synchronizing: the only thing that counts as a round trip. -/
def matchedReply (e : Endpoint) (msg : Msg) : Bool :=
  e.state == .synchronizing && !(e.remoteMagic != 0 && msg.magic != e.remoteMagic) &&
  match msg.body with
  | .syncReply r => e.syncRandomRequests.contains r
  | _ => false

def stepOp (e : Endpoint) : EpOp → M Endpoint
  | .handle now msg => e.handleMessage now msg
  | .poll now cs => do let (e', _) ← e.poll now cs; pure e'

/-- Runs the ops, counting matched round trips. -/
def runOps : Endpoint → Nat → List EpOp → M (Endpoint × Nat)
  | e, n, [] => .ok (e, n)
  | e, n, op :: rest => do
    let n' := match op with
      | .handle _ msg => if matchedReply e msg then n + 1 else n
      | .poll .. => n
    let e' ← stepOp e op
    runOps e' n' rest

/-- Handshake invariant: while synchronizing, remaining + matched = NUM_SYNC_PACKETS (and at
least one remains); once running, exactly NUM_SYNC_PACKETS replies were matched. -/
def HsInv (e : Endpoint) (n : Nat) : Prop :=
  (e.state = .synchronizing ∧ e.syncRemaining + n = NUM_SYNC_PACKETS ∧ e.syncRemaining ≥ 1) ∨
  (e.state = .running ∧ n = NUM_SYNC_PACKETS)

theorem hs_sendPendingOutput (e e' : Endpoint) (now : Nat) (cs : List ConnStatus)
    (h : e.sendPendingOutput now cs = .ok e') : e'.hs = e.hs := by
  unfold sendPendingOutput at h
  cases hp : e.pendingOutput with
  | nil => simp only [hp, pure, Except.pure] at h; cases h; rfl
  | cons front rest =>
    simp only [hp, bind, Except.bind, ensure, pure, Except.pure] at h
    by_cases hc : (e.lastAckedInput.frame == NULL_FRAME || e.lastAckedInput.frame + 1 == front.frame) = true
    · simp only [hc, if_true] at h; cases h; rfl
    · simp only [hc, Bool.false_eq_true, if_false] at h; cases h

theorem hs_checkTimeouts (e : Endpoint) (now : Nat) : (e.checkTimeouts now).hs = e.hs := by
  unfold checkTimeouts
  simp only
  split <;> split <;> rfl

theorem hs_periodicReports (e : Endpoint) (now : Nat) : (e.periodicReports now).hs = e.hs := by
  unfold periodicReports
  simp only
  split <;> split <;> rfl

theorem hs_retryPending (e e' : Endpoint) (now : Nat) (cs : List ConnStatus)
    (h : e.retryPending now cs = .ok e') : e'.hs = e.hs := by
  unfold retryPending at h
  split at h
  · simp only [bind, Except.bind, pure, Except.pure] at h
    cases hsp : e.sendPendingOutput now cs with
    | error x => simp [hsp] at h
    | ok e0 =>
      simp only [hsp] at h
      cases h
      exact hs_sendPendingOutput e e0 now cs hsp
  · simp only [pure, Except.pure] at h; cases h; rfl

theorem hs_pollState (e e' : Endpoint) (now : Nat) (cs : List ConnStatus)
    (hst : e.state = .synchronizing ∨ e.state = .running)
    (h : e.pollState now cs = .ok e') : e'.hs = e.hs := by
  unfold pollState at h
  rcases hst with hs' | hs'
  · simp only [hs', pure, Except.pure] at h
    cases h
    split
    · exact hs_sendSyncRequest e now
    · rfl
  · simp only [hs', bind, Except.bind, pure, Except.pure] at h
    cases hr : e.retryPending now cs with
    | error x => simp [hr] at h
    | ok e0 =>
      simp only [hr] at h
      cases h
      rw [hs_checkTimeouts, hs_periodicReports]
      exact hs_retryPending e e0 now cs hr

theorem hs_poll (e e' : Endpoint) (now : Nat) (cs : List ConnStatus) (evs : List ProtoEvent)
    (hst : e.state = .synchronizing ∨ e.state = .running)
    (h : e.poll now cs = .ok (e', evs)) : e'.hs = e.hs := by
  unfold poll at h
  simp only [bind, Except.bind, pure, Except.pure] at h
  cases hp : e.pollState now cs with
  | error x => simp [hp] at h
  | ok e0 =>
    simp only [hp] at h
    cases h
    exact hs_pollState e e0 now cs hst hp

theorem HsInv_of_hs {e e' : Endpoint} {n : Nat} (h : e'.hs = e.hs) (hi : HsInv e n) : HsInv e' n := by
  simp only [hs, Hs.mk.injEq] at h
  unfold HsInv at hi ⊢
  rw [h.1, h.2]; exact hi

theorem hs_noteReceived (e : Endpoint) (now : Nat) : (e.noteReceived now).hs = e.hs := by
  unfold noteReceived; simp only; split <;> rfl

theorem srr_noteReceived (e : Endpoint) (now : Nat) :
    (e.noteReceived now).syncRandomRequests = e.syncRandomRequests := by
  unfold noteReceived; simp only; split <;> rfl

theorem hsInv_handle (e e' : Endpoint) (n now : Nat) (msg : Msg) (hi : HsInv e n)
    (h : e.handleMessage now msg = .ok e') :
    HsInv e' (if matchedReply e msg then n + 1 else n) := by
  have hnum : NUM_SYNC_PACKETS ≥ 1 := by decide
  unfold handleMessage at h
  have hst : e.state ≠ .shutdown := by rcases hi with ⟨h1, _⟩ | ⟨h1, _⟩ <;> simp [h1]
  simp only [bind, Except.bind, pure, Except.pure] at h
  have hsd : (e.state == ProtoState.shutdown) = false := by simpa using hst
  simp only [hsd, Bool.false_eq_true, if_false] at h
  by_cases hm : (e.remoteMagic != 0 && msg.magic != e.remoteMagic) = true
  · simp only [hm, if_true] at h
    cases h
    have : matchedReply e msg = false := by simp [matchedReply, hm]
    simpa [this] using hi
  · simp only [hm, Bool.false_eq_true, if_false] at h
    have hmf : (e.remoteMagic != 0 && msg.magic != e.remoteMagic) = false := Bool.eq_false_iff.mpr hm
    have h2 : (e.noteReceived now).hs = e.hs := hs_noteReceived e now
    have h2c := srr_noteReceived e now
    have h2a : (e.noteReceived now).state = e.state := congrArg Hs.state h2
    have h2b : (e.noteReceived now).syncRemaining = e.syncRemaining := congrArg Hs.syncRemaining h2
    cases hb : msg.body with
    | syncReply r =>
      simp only [hb] at h
      cases h
      unfold onSyncReply
      rcases hi with ⟨hs1, hs2, hs3⟩ | ⟨hs1, hs2⟩
      · -- synchronizing
        have hst2 : ((e.noteReceived now).state != ProtoState.synchronizing) = false := by simp [h2a, hs1]
        simp only [hst2, Bool.false_eq_true, if_false]
        by_cases hc : (e.noteReceived now).syncRandomRequests.contains r = true
        · have hc' : e.syncRandomRequests.contains r = true := by rw [← h2c]; exact hc
          have hmatch : matchedReply e msg = true := by
            simp only [matchedReply, hs1, hmf, hb, hc']; rfl
          simp only [hc, Bool.not_true, Bool.false_eq_true, if_false, hmatch, if_true]
          by_cases hrem : (e.noteReceived now).syncRemaining - 1 > 0
          · simp only [hrem, if_true]
            left
            have := hs_sendSyncRequest ({ ({ (e.noteReceived now) with syncRandomRequests := (e.noteReceived now).syncRandomRequests.filter (· != r), syncRemaining := (e.noteReceived now).syncRemaining - 1 } : Endpoint) with
              eventQueue := ({ (e.noteReceived now) with syncRandomRequests := (e.noteReceived now).syncRandomRequests.filter (· != r), syncRemaining := (e.noteReceived now).syncRemaining - 1 } : Endpoint).eventQueue ++
                [ProtoEvent.synchronizing NUM_SYNC_PACKETS (NUM_SYNC_PACKETS - ((e.noteReceived now).syncRemaining - 1))] }) now
            simp only [hs, Hs.mk.injEq] at this
            refine ⟨?_, ?_, ?_⟩
            · rw [this.1]; simp [h2a, hs1]
            · rw [this.2]; omega
            · rw [this.2]; omega
          · simp only [hrem, if_false]
            right
            refine ⟨rfl, ?_⟩
            omega
        · have hc' : e.syncRandomRequests.contains r = false := by
            rw [← h2c]; exact Bool.eq_false_iff.mpr hc
          have hmatch : matchedReply e msg = false := by
            simp only [matchedReply, hb, hc', Bool.and_false]
          simp only [hc, Bool.not_false, if_true, hmatch, Bool.false_eq_true, if_false]
          exact HsInv_of_hs h2 (Or.inl ⟨hs1, hs2, hs3⟩)
      · have hst2 : ((e.noteReceived now).state != ProtoState.synchronizing) = true := by simp [h2a, hs1]
        have hmatch : matchedReply e msg = false := by simp [matchedReply, hs1]
        simp only [hst2, if_true, hmatch, Bool.false_eq_true, if_false]
        exact HsInv_of_hs h2 (Or.inr ⟨hs1, hs2⟩)
    | syncRequest r =>
      simp only [hb] at h; cases h
      have hmatch : matchedReply e msg = false := by simp [matchedReply, hb]
      simp only [hmatch, Bool.false_eq_true, if_false]
      exact HsInv_of_hs (by rw [hs_queueMessage]; exact h2) hi
    | input st dr sf af bytes =>
      simp only [hb] at h; cases h
      have hmatch : matchedReply e msg = false := by simp [matchedReply, hb]
      simp only [hmatch, Bool.false_eq_true, if_false]
      exact HsInv_of_hs (by rw [hs_onInput]; exact h2) hi
    | inputAck af =>
      simp only [hb] at h; cases h
      have hmatch : matchedReply e msg = false := by simp [matchedReply, hb]
      simp only [hmatch, Bool.false_eq_true, if_false]
      exact HsInv_of_hs (by rw [hs_popPendingOutput]; exact h2) hi
    | qualityReport adv ping =>
      simp only [hb] at h; cases h
      have hmatch : matchedReply e msg = false := by simp [matchedReply, hb]
      simp only [hmatch, Bool.false_eq_true, if_false]
      exact HsInv_of_hs (by rw [hs_queueMessage]; exact h2) hi
    | qualityReply pong =>
      simp only [hb] at h; cases h
      have hmatch : matchedReply e msg = false := by simp [matchedReply, hb]
      simp only [hmatch, Bool.false_eq_true, if_false]
      exact HsInv_of_hs h2 hi
    | checksumReport cs f =>
      simp only [hb] at h
      have hmatch : matchedReply e msg = false := by simp [matchedReply, hb]
      simp only [hmatch, Bool.false_eq_true, if_false]
      unfold onChecksumReport at h
      simp only [bind, Except.bind, pure, Except.pure] at h
      cases hd : (e.noteReceived now).desyncInterval with
      | none => simp [hd] at h
      | some i =>
        simp only [hd] at h
        cases h
        exact HsInv_of_hs h2 hi
    | keepAlive =>
      simp only [hb] at h; cases h
      have hmatch : matchedReply e msg = false := by simp [matchedReply, hb]
      simp only [hmatch, Bool.false_eq_true, if_false]
      exact HsInv_of_hs h2 hi

theorem hsInv_run : ∀ (ops : List EpOp) (e e' : Endpoint) (n n' : Nat),
    HsInv e n → runOps e n ops = .ok (e', n') → HsInv e' n' := by
  intro ops
  induction ops with
  | nil => intro e e' n n' hi h; simp [runOps] at h; obtain ⟨rfl, rfl⟩ := h; exact hi
  | cons op rest ih =>
    intro e e' n n' hi h
    simp only [runOps, bind, Except.bind] at h
    cases hs1 : stepOp e op with
    | error x => simp [hs1] at h
    | ok e1 =>
      simp only [hs1] at h
      apply ih e1 e' _ n' _ h
      cases op with
      | handle now msg => exact hsInv_handle e e1 n now msg hi (by simpa [stepOp] using hs1)
      | poll now cs =>
        simp only [stepOp, bind, Except.bind, pure, Except.pure] at hs1
        cases hp : e.poll now cs with
        | error x => simp [hp] at hs1
        | ok pr =>
          obtain ⟨e1', evs⟩ := pr
          simp only [hp] at hs1
          cases hs1
          have hst : e.state = .synchronizing ∨ e.state = .running := by
            rcases hi with ⟨h1, _⟩ | ⟨h1, _⟩ <;> simp [h1]
          exact HsInv_of_hs (hs_poll e _ now cs evs hst hp) hi

/-- **C12, handshake.** Start from an endpoint that has just been asked to synchronize. Whatever
messages arrive in whatever order, with whatever duplicates, stale or foreign replies, and
whenever it is polled: if the endpoint is Running afterwards, exactly `NUM_SYNC_PACKETS` of the
messages were handshake replies that matched a request it had outstanding at that moment — stray,
duplicated or foreign replies never count, and it cannot be Running with fewer. -/
theorem C12_handshake (e0 e1 e' : Endpoint) (now0 : Nat) (ops : List EpOp) (n : Nat)
    (h0 : e0.synchronize now0 = .ok e1)
    (hrun : runOps e1 0 ops = .ok (e', n))
    (hr : e'.state = .running) : n = NUM_SYNC_PACKETS := by
  have hinit : HsInv e1 0 := by
    unfold synchronize at h0
    simp only [bind, Except.bind, ensure, pure, Except.pure] at h0
    by_cases hc : (e0.state == ProtoState.initializing) = true
    · simp only [hc, if_true] at h0
      cases h0
      have := hs_sendSyncRequest ({ e0 with state := .synchronizing, syncRemaining := NUM_SYNC_PACKETS, statsStartTime := now0 / 1000 }) now0
      simp only [hs, Hs.mk.injEq] at this
      left
      refine ⟨this.1, ?_, ?_⟩
      · rw [this.2]; simp
      · rw [this.2]; simp; decide
    · simp only [hc, Bool.false_eq_true, if_false] at h0
      cases h0
  rcases hsInv_run ops e1 e' 0 n hinit hrun with ⟨h1, _⟩ | ⟨_, h2⟩
  · rw [h1] at hr; cases hr
  · exact h2

end Ggrs.Endpoint

namespace Ggrs.Endpoint

/-- **C12, event language (endpoint level, all sequences).** -/
theorem C12_event_language (handles : List Nat) (peerAddr numPlayers localPlayers maxPrediction dt dn fps : Nat)
    (desync : Option Nat) (magic now : Nat) (y : Endpoint × List ProtoEvent)
    (hrun : EvStar (Endpoint.new handles peerAddr numPlayers localPlayers maxPrediction dt dn fps desync magic now, []) y) :
    ∃ ls, accList (.sync 0) y.2 = some ls := by
  have h0 : EvInv (Endpoint.new handles peerAddr numPlayers localPlayers maxPrediction dt dn fps desync magic now, []) :=
    ⟨.sync 0, .sync 0, rfl, rfl, Or.inr ⟨rfl, rfl, Or.inl ⟨rfl, rfl⟩⟩⟩
  obtain ⟨ls, _, h1, _⟩ := EvInv_run _ y h0 hrun
  exact ⟨ls, h1⟩

/-- The automaton really rejects the malformed streams: two examples (the second is F10's). -/
example : accList (.sync 0) [.synchronized] = none := by decide
example : accList (.running true) [.disconnected, .networkResumed] = none := by decide

end Ggrs.Endpoint

namespace Ggrs.P2P

/-- **C12, "Running exactly when every remote has completed the handshake" (every state).**
`check_initial_sync` is the only place the session turns Running, and it does so exactly when every
endpoint — remote players AND spectators — is past its handshake. -/
theorem C12_running_set (s : P2P) :
    s.checkInitialSync.running = (s.running ||
      (s.remotes.all (·.2.isSynchronized) && s.spectators.all (·.2.isSynchronized))) := by
  unfold checkInitialSync
  by_cases hr : s.running = true
  · simp [hr]
  · have hr' : s.running = false := by simpa using hr
    by_cases hall : (s.remotes.all (·.2.isSynchronized) && s.spectators.all (·.2.isSynchronized)) = true
    · simp [hr', hall]
    · have hall' : (s.remotes.all (·.2.isSynchronized) && s.spectators.all (·.2.isSynchronized)) = false := by simpa using hall
      rw [if_neg (by simp [hr'])]
      rw [if_neg hall]
      simp [hr', hall']

/-- `advance_frame` reports NotSynchronized exactly while the session is not Running (every state). -/
theorem C12_not_synchronized_iff (s s' : P2P) (now : Nat) (r : Except GgrsError (List Request))
    (h : s.advanceFrameCore now = .ok (s', r)) : s.running = false → r = .error .notSynchronized ∧ s' = s := by
  intro hr
  unfold advanceFrameCore at h
  simp only [hr, Bool.not_false, if_true] at h
  have := pure_ok h
  simp only [Prod.mk.injEq] at this
  exact ⟨this.2.symm, this.1.symm⟩

end Ggrs.P2P

namespace Ggrs.Endpoint

/-- **C12, keep-alive: something is sent at least every `KEEP_ALIVE_INTERVAL`.** After the periodic part
of any poll of a Running endpoint at time `now`, the endpoint's last send lies at most
`KEEP_ALIVE_INTERVAL` back: if it did not, this very poll queues a `KeepAlive` (or a quality report)
stamped `now`. So an endpoint polled every `g` µs puts a packet on the wire at least every
`KEEP_ALIVE_INTERVAL + g`. -/
theorem C12_keepalive_sent (e : Endpoint) (now : Nat) :
    now ≤ (e.periodicReports now).lastSendTime + ms KEEP_ALIVE_INTERVAL ∧
    ((e.periodicReports now).lastSendTime = e.lastSendTime ∨
      ((e.periodicReports now).lastSendTime = now ∧ (e.periodicReports now).sendQueue.length > e.sendQueue.length)) := by
  unfold periodicReports
  simp only
  by_cases hq : e.runningLastQualityReport + ms QUALITY_REPORT_INTERVAL < now
  · simp only [hq, if_true]
    have h1 : (e.sendQualityReport now).lastSendTime = now := by unfold sendQualityReport queueMessage; rfl
    have h2 : (e.sendQualityReport now).sendQueue.length = e.sendQueue.length + 1 := by
      unfold sendQualityReport queueMessage; simp
    by_cases hk : (e.sendQualityReport now).lastSendTime + ms KEEP_ALIVE_INTERVAL < now
    · rw [h1] at hk; omega
    · rw [if_neg hk]
      exact ⟨by rw [h1]; omega, Or.inr ⟨h1, by rw [h2]; omega⟩⟩
  · simp only [hq, if_false]
    by_cases hk : e.lastSendTime + ms KEEP_ALIVE_INTERVAL < now
    · rw [if_pos hk]
      refine ⟨?_, Or.inr ⟨rfl, ?_⟩⟩
      · show now ≤ now + _; omega
      · unfold queueMessage; simp
    · rw [if_neg hk]
      exact ⟨by omega, Or.inl rfl⟩

/-- **C12, no interruption while the peer is heard.** A poll at time `now` raises neither
`NetworkInterrupted` nor `Disconnected` if a packet of the peer was handled within the last
`disconnect_notify_start` (and the notify delay is not longer than the timeout): the timers only
fire on silence. -/
theorem C12_no_interrupt_while_heard (e : Endpoint) (now : Nat)
    (hle : e.disconnectNotifyStart ≤ e.disconnectTimeout)
    (hheard : now ≤ e.lastRecvTime + e.disconnectNotifyStart) :
    (e.checkTimeouts now).eventQueue = e.eventQueue ∧
    (e.checkTimeouts now).disconnectNotifySent = e.disconnectNotifySent ∧
    (e.checkTimeouts now).disconnectEventSent = e.disconnectEventSent := by
  unfold checkTimeouts
  have h1 : ¬ e.lastRecvTime + e.disconnectNotifyStart < now := by omega
  have h2 : ¬ e.lastRecvTime + e.disconnectTimeout < now := by omega
  simp [h1, h2]

/-- Handling any packet that passes the magic filter restarts the silence timer. -/
theorem C12_heard_restarts_timer (e : Endpoint) (now : Nat) : (e.noteReceived now).lastRecvTime = now := by
  unfold noteReceived
  simp only
  split <;> rfl

/-- **C12, the keep-alive arithmetic for the defaults.** Two connected sessions that merely poll, each
at least every `g` µs, over a link with one-way latency at most `l` µs: the sender emits at least
every `KEEP_ALIVE_INTERVAL + g` (`C12_keepalive_sent`), the packet is handled by the receiver's
first poll after its arrival, i.e. within `l + g`, so the receiver's silence never exceeds
`KEEP_ALIVE_INTERVAL + 2 g + l`; whenever that is at most the notify delay no interruption is ever
raised (`C12_no_interrupt_while_heard`). For the default notify delay of 500 ms this allows, e.g.,
polling every 100 ms over a link with 100 ms latency — or 60 fps polling with 250 ms latency. -/
theorem C12_keepalive_defaults :
    ms KEEP_ALIVE_INTERVAL + 2 * 100000 + 100000 ≤ ms DEFAULT_DISCONNECT_NOTIFY_START ∧
    ms KEEP_ALIVE_INTERVAL + 2 * 16667 + 250000 ≤ ms DEFAULT_DISCONNECT_NOTIFY_START := by
  decide

end Ggrs.Endpoint

