/-
C01 — Every peer's confirmed timeline equals the serial replay of the true inputs.

Proved here: (1) the rollback target is the EARLIEST mispredicted frame over all players
(`check_simulation_consistency`), so no mispredicted frame below it is left un-resimulated;
(2) through Properties/C11.lean the ring of every input queue holds the player's true stream
(`C11_queue`, `C11_ring_value`) and through Properties/C03.lean a `Confirmed` input is read from
the slot of exactly the requested frame; (3) `C01_detect`: for EVERY history of one player's queue
no wrong prediction handed out since the last rollback goes unnoticed — `first_incorrect_frame` is
NULL only if every prediction handed out for a frame that has meanwhile arrived was right, and
otherwise names a frame with a real mismatch before which every handed-out prediction was right,
so rolling back to it (or earlier, (1)) re-simulates every frame that used a wrong value. The composition over the network (L-peer / L-stream of
DESIGN.md §7) is NOT proved: on that level the property is decided by the monitor on
implementation traces plus trace acceptance of the model (`_partial` in the sense of DESIGN.md).
-/
import GgrsModel.Properties.C11
import GgrsModel.Properties.C03
import GgrsModel.Properties.C04
import GgrsModel.Proofs.Earliest

namespace Ggrs.SyncLayer

/-- **C01, earliest wrong frame.** The frame handed to the rollback is NULL only if no queue has
detected a misprediction (and no disconnect rollback is pending); otherwise it is at or below the
first mispredicted frame of EVERY player (and the pending disconnect frame). -/
theorem C01_earliest_incorrect (s : SyncLayer) (disconnectFrame : Frame) :
    (s.checkSimulationConsistency disconnectFrame = NULL_FRAME ↔
      disconnectFrame = NULL_FRAME ∧ ∀ q ∈ s.queues, q.firstIncorrectFrame = NULL_FRAME) ∧
    (s.checkSimulationConsistency disconnectFrame ≠ NULL_FRAME →
      ∀ q ∈ s.queues, q.firstIncorrectFrame ≠ NULL_FRAME →
        s.checkSimulationConsistency disconnectFrame ≤ q.firstIncorrectFrame) := by
  have := earliest_spec s.queues disconnectFrame
  exact ⟨this.1, fun h => (this.2 h).2⟩

end Ggrs.SyncLayer

namespace Ggrs
open InputQueue

/-- **C01, misprediction detection (queue level, all histories).** `st.H` is the list of
(frame, value) pairs `input` has answered with status Predicted since the last
`reset_prediction`. In every reachable state: if `first_incorrect_frame` is NULL, every one of
them whose frame has arrived by now was right; otherwise `first_incorrect_frame` is a received
frame whose real value differs from the prediction, and every predicted answer for an earlier
frame was right. -/
theorem C01_detect (pr : Predictor) (st : QState) (hr : QStar pr ⟨InputQueue.new, {}, []⟩ st) :
    (st.q.firstIncorrectFrame = NULL_FRAME →
      ∀ p ∈ st.H, p.1 < st.s.vals.length → st.s.vals.getD p.1.toNat 0 = p.2) ∧
    (st.q.firstIncorrectFrame ≠ NULL_FRAME →
      ∃ g : Nat, st.q.firstIncorrectFrame = (g : Int) ∧ g < st.s.vals.length ∧
        st.s.vals.getD g 0 ≠ st.q.prediction.input ∧
        ∀ p ∈ st.H, p.1 < (g : Int) → st.s.vals.getD p.1.toNat 0 = p.2) :=
  PInv_detect pr st.q st.s st.H (PInv_run pr _ st (PInv_new pr) hr)

end Ggrs
