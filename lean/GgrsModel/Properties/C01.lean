/-
C01 — Every peer's confirmed timeline equals the serial replay of the true inputs.

Proved here: (1) the rollback target is the EARLIEST mispredicted frame over all players
(`check_simulation_consistency`), so no mispredicted frame below it is left un-resimulated;
(2) through Properties/C11.lean the ring of every input queue holds the player's true stream
(`C11_queue`, `C11_ring_value`) and through Properties/C03.lean a `Confirmed` input is read from
the slot of exactly the requested frame; (3) `C01_detect`: for EVERY history of one player's queue
no wrong prediction handed out since the last rollback goes unnoticed — `first_incorrect_frame` is
NULL only if every prediction handed out for a frame that has meanwhile arrived was right, and
otherwise names a frame with a real mismatch before which every handed-out prediction was right,
so rolling back to it (or earlier, (1)) re-simulates every frame that used a wrong value;
(4) `C01_timeline_partial` (Proofs/Timeline.lean, Proofs/Session.lean): the session-level statement
for the model's own `advance_rollback_frame` and `handle_event(Input)`, over EVERY interleaving of
remote-input arrivals and rollback-mode `advance_frame` calls, any number of players, any
prediction window, sparse saving or not, any input delays: right after the rollback-and-save
phase of every call the game's timeline — the inputs of its LAST simulation of each frame, obtained
by executing the request lists — carries, for every player and every frame whose input has
arrived, exactly that input; and the one new frame the call may simulate uses the real input
where it has arrived and the fresh prediction only where it has not. `_partial`: proved for
sessions in which no player is (yet) marked disconnected — the disconnect paths (C07, C10) are
not covered by the theorem — and the streams are the inputs as they ARRIVE at this peer; that they
equal what the remote peer submitted is `C05_stream_intact` on the link level, and the
composition of the two across peers is argued in DESIGN.md, not machine-checked. The composition over the network (L-peer / L-stream of
DESIGN.md §7) is NOT proved: on that level the property is decided by the monitor on
implementation traces plus trace acceptance of the model (`_partial` in the sense of DESIGN.md).
-/
import GgrsModel.Model.Inventory
import GgrsModel.Model.Sites.P2pSession
import GgrsModel.Model.Sites.SyncLayer
import GgrsModel.Model.Sites.InputQueue
import GgrsModel.Model.Sites.Protocol
import GgrsModel.Properties.C11
import GgrsModel.Properties.C03
import GgrsModel.Properties.C04
import GgrsModel.Proofs.Earliest
import GgrsModel.Proofs.Session
import GgrsModel.Proofs.World
import GgrsModel.Proofs.DelayStep
import GgrsModel.Proofs.Demo
import GgrsModel.Proofs.Pair
import GgrsModel.Proofs.Triple

namespace Ggrs.SyncLayer

/-- **C01, earliest wrong frame.** The frame handed to the rollback is NULL only if no queue has
detected a misprediction (and no disconnect rollback is pending); otherwise it is at or below the
first mispredicted frame of EVERY player (and the pending disconnect frame). -/
theorem C01_earliest_incorrect (s : SyncLayer) (disconnectFrame : Frame) :
    (s.checkSimulationConsistency disconnectFrame = NULL_FRAME ↔
      disconnectFrame = NULL_FRAME ∧ ∀ q ∈ s.queues, q.firstIncorrectFrame = NULL_FRAME) ∧
    (s.checkSimulationConsistency disconnectFrame ≠ NULL_FRAME →
      ∀ q ∈ s.queues, q.firstIncorrectFrame ≠ NULL_FRAME →
        s.checkSimulationConsistency disconnectFrame ≤ q.firstIncorrectFrame) := by
  have := earliest_spec s.queues disconnectFrame
  exact ⟨this.1, fun h => (this.2 h).2⟩

end Ggrs.SyncLayer

namespace Ggrs
open InputQueue

/-- **C01, misprediction detection (queue level, all histories).** `st.H` is the list of
(frame, value) pairs `input` has answered with status Predicted since the last
`reset_prediction`. In every reachable state: if `first_incorrect_frame` is NULL, every one of
them whose frame has arrived by now was right; otherwise `first_incorrect_frame` is a received
frame whose real value differs from the prediction, and every predicted answer for an earlier
frame was right. -/
theorem C01_detect (pr : Predictor) (st : QState) (hr : QStar pr ⟨InputQueue.new, {}, []⟩ st) :
    (st.q.firstIncorrectFrame = NULL_FRAME →
      ∀ p ∈ st.H, p.1 < st.s.vals.length → st.s.vals.getD p.1.toNat 0 = p.2) ∧
    (st.q.firstIncorrectFrame ≠ NULL_FRAME →
      ∃ g : Nat, st.q.firstIncorrectFrame = (g : Int) ∧ g < st.s.vals.length ∧
        st.s.vals.getD g 0 ≠ st.q.prediction.input ∧
        ∀ p ∈ st.H, p.1 < (g : Int) → st.s.vals.getD p.1.toNat 0 = p.2) :=
  PInv_detect pr st.q st.s st.H (PInv_run pr _ st (PInv_new pr) hr)

end Ggrs

namespace Ggrs
open InputQueue

/-- **C01, the timeline (partial: no disconnected players).** Start from any state satisfying the
session invariant (a freshly built session does: `SessInv_init`) and run ANY sequence of local
input submissions (`add_local_input`), remote input arrivals, rollback-mode `advance_frame` calls —
the game executing every request list — and cell writes by the game (`SStep`).
Then for one more `advance_frame` call there are requests `reqs1` (the rollback-and-save phase,
a prefix of what the call returns) such that, once the game has executed them, for every player
`p` and every frame `f` below the current frame whose input has arrived, the game's last
simulation of `f` used exactly that input; and the call returns either just `reqs1` (prediction
window exhausted) or `reqs1` plus one AdvanceFrame whose inputs are, per player, the real input
of the new frame with status Confirmed if it has arrived, and otherwise — only then — the
predictor applied to the newest input that has, with status Predicted. -/
theorem C01_timeline_partial (x y : P2P × TLState) (h0 : ∃ gh, SessInv x.1 gh x.2 []) (hrun : SStar x y)
    (now : Nat) (s' : P2P) (reqs' : List Request) (hadv : y.1.advanceRollbackFrame now [] = .ok (s', reqs')) :
    ∃ (gh gh1 gh2 : Ghost) (s1 : P2P) (reqs1 : List Request),
      SessInv y.1 gh y.2 [] ∧ gh1.specs = gh.specs ∧ s1.sync.currentFrame = y.1.sync.currentFrame ∧
      s1.sync.queues.length = y.1.sync.queues.length ∧
      (∀ p, p < y.1.sync.queues.length → ∀ f : Nat, (f : Int) < y.1.sync.currentFrame →
        f < (gh.specs p).vals.length →
        ((((execReqs y.2 reqs1).R f).getD p default).1 = (gh.specs p).vals.getD f 0)) ∧
      (reqs' = reqs1 ∨ ∃ (c : Nat) (ins : List (Input × InputStatus)), y.1.sync.currentFrame = (c : Int) ∧
        reqs' = reqs1 ++ [.advance ins] ∧ InputsOk y.1.pred gh2 c ins) := by
  obtain ⟨gh, h⟩ := SessInv_run x y h0 hrun
  obtain ⟨s1, reqs1, gh1, gh2, gh', hset, hright, _, _, _, hcase⟩ :=
    advanceRollbackFrame_spec y.1 s' gh y.2 [] reqs' now h hadv
  refine ⟨gh, gh1, gh2, s1, reqs1, h, hset.specs, hset.cur, hset.nq, ?_, ?_⟩
  · intro p hp f hf hlen
    have hp1 : p < s1.sync.queues.length := by rw [hset.nq]; exact hp
    rw [← hset.inv.rows p hp1 f, ← hset.specs]
    exact hright p hp1 f (by rw [hset.cur]; exact hf) (by rw [hset.specs]; exact hlen)
  · rcases hcase with hr | ⟨c, ins, hc, hr, hok, _, _⟩
    · exact Or.inl hr
    · exact Or.inr ⟨c, ins, hc, hr, hok⟩

end Ggrs

namespace Ggrs

/-- **C01, game state = serial replay (partial: rollback mode, no disconnected players; sparse
saving or not).** After every interleaving of remote-input arrivals and `advance_frame` calls whose
requests the game executes in order, the game is at the session's frame and its state is the
serial replay, from the initial state, of the rows of its timeline — the inputs of the last
simulation of every frame, which `C01_timeline_partial` shows to be the real inputs wherever they
have arrived. -/
theorem C01_state_replay_partial {G : Type} (step : G → List (Input × InputStatus) → G) (g0 : G)
    (a b : P2P × GS G) (h0 : WInv step g0 a.1 a.2) (hrun : WStar step a b) :
    b.2.cur = b.1.sync.currentFrame ∧ b.2.g = replay step g0 b.2.R b.2.cur.toNat := by
  have h := WInv_run step g0 a b h0 hrun
  obtain ⟨c, hc, hg, _, _⟩ := h.chk
  exact ⟨hg.cur.trans hc, hg.state⟩

end Ggrs

namespace Ggrs

/-- **C01 in lockstep mode: timeline and state (no disconnected players).** After every
interleaving of remote-input arrivals and lockstep `advance_frame` calls whose requests the game
executes, the game is at the session's frame, every row of its timeline is the full row of every
player's real input (all Confirmed), and its state is the serial replay of those rows from the
initial state. -/
theorem C01_lockstep_replay {G : Type} (step : G → List (Input × InputStatus) → G) (g0 : G)
    (a b : P2P × GS G) (h0 : LWInv step g0 a.1 a.2) (hrun : LWStar step a b) :
    ∃ gh, LkInv b.1 gh ⟨b.2.cur, b.2.R⟩ ∧ b.2.cur = b.1.sync.currentFrame ∧
      (∀ f : Nat, (f : Int) < b.2.cur → b.2.R f = rowOf gh b.1.sync.queues.length f) ∧
      b.2.g = replay step g0 b.2.R b.2.cur.toNat := by
  have h := LWInv_run step g0 a b h0 hrun
  obtain ⟨gh, hl⟩ := h.sess
  have hc : b.2.cur = b.1.sync.currentFrame := by
    have := hl.sess.tinv.exec; simp only [execReqs, List.foldl_nil] at this; exact this
  exact ⟨gh, hl, hc, fun f hf => hl.timeline f (by rw [← hc]; exact hf), h.state⟩

end Ggrs

namespace Ggrs

/-- `C01_timeline_partial` for runs that also contain `set_input_delay` calls of local players. -/
theorem C01_timeline_delay (x y : P2P × TLState) (h0 : HInv x) (hrun : DStar x y)
    (now : Nat) (s' : P2P) (reqs' : List Request) (hadv : y.1.advanceRollbackFrame now [] = .ok (s', reqs')) :
    ∃ (gh gh1 gh2 : Ghost) (s1 : P2P) (reqs1 : List Request),
      SessInv y.1 gh y.2 [] ∧ gh1.specs = gh.specs ∧ s1.sync.currentFrame = y.1.sync.currentFrame ∧
      s1.sync.queues.length = y.1.sync.queues.length ∧
      (∀ p, p < y.1.sync.queues.length → ∀ f : Nat, (f : Int) < y.1.sync.currentFrame →
        f < (gh.specs p).vals.length →
        ((((execReqs y.2 reqs1).R f).getD p default).1 = (gh.specs p).vals.getD f 0)) ∧
      (reqs' = reqs1 ∨ ∃ (c : Nat) (ins : List (Input × InputStatus)), y.1.sync.currentFrame = (c : Int) ∧
        reqs' = reqs1 ++ [.advance ins] ∧ InputsOk y.1.pred gh2 c ins) := by
  obtain ⟨⟨gh, h, _⟩, _⟩ := HInv_run x y h0 hrun
  obtain ⟨s1, reqs1, gh1, gh2, gh', hset, hright, _, _, _, hcase⟩ :=
    advanceRollbackFrame_spec y.1 s' gh y.2 [] reqs' now h hadv
  refine ⟨gh, gh1, gh2, s1, reqs1, h, hset.specs, hset.cur, hset.nq, ?_, ?_⟩
  · intro p hp f hf hlen
    have hp1 : p < s1.sync.queues.length := by rw [hset.nq]; exact hp
    rw [← hset.inv.rows p hp1 f, ← hset.specs]
    exact hright p hp1 f (by rw [hset.cur]; exact hf) (by rw [hset.specs]; exact hlen)
  · rcases hcase with hr | ⟨c, ins, hc, hr, hok, _, _⟩
    · exact Or.inl hr
    · exact Or.inr ⟨c, ins, hc, hr, hok⟩

/-- `C01_state_replay_partial` for runs that also contain `set_input_delay` calls. -/
theorem C01_state_replay_delay {G : Type} (step : G → List (Input × InputStatus) → G) (g0 : G)
    (a b : P2P × GS G) (h0 : DWInv step g0 a) (hrun : DWStar step a b) :
    b.2.cur = b.1.sync.currentFrame ∧ b.2.g = replay step g0 b.2.R b.2.cur.toNat := by
  have h := (DWInv_run step g0 a b h0 hrun).1
  obtain ⟨c, hc, hg, _, _⟩ := h.chk
  exact ⟨hg.cur.trans hc, hg.state⟩

end Ggrs

namespace Ggrs

theorem getD_of_prefix (a S : List Input) (h : a <+: S) (f : Nat) (hf : f < a.length) : a.getD f 0 = S.getD f 0 := by
  obtain ⟨t, rfl⟩ := h
  simp [List.getD_eq_getElem?_getD, List.getElem?_append_left hf]

/-- **C01 across two peers, given what the links deliver (the composition point).** Two sessions A and
B, each in any state its own all-schedules theorem reaches (`SessInv`: `SessInv_run`). Suppose that
for every player the two sessions' streams — what each has received or, for its own players,
submitted — are prefixes of one common stream. (That is what the per-link theorems provide:
`C11_owner_sends_queue`: the owner hands its queue content, frame by frame, to `send_input`;
`C05_stream_intact`: whatever the network does, the receiver's events are an exact prefix of that.)
Then after the rollback phase of the next call on either side, the two games' last simulations of
every frame `f` that both have simulated agree on the input of every player whose input for `f`
both hold: the confirmed parts of the two timelines are the same, so two deterministic games that
do not look at the Confirmed/Predicted label are in the same state there (`C01_state_replay`:
state = replay of the timeline). The product system in which the prefix hypothesis is derived
rather than assumed is not built (DESIGN §14). -/
theorem C01_agree_given_links (sA sB sA' sB' : P2P) (ghA ghB : Ghost) (tA tB : TLState) (nowA nowB : Nat)
    (reqsA reqsB : List Request)
    (hA : SessInv sA ghA tA []) (hB : SessInv sB ghB tB [])
    (hlinks : ∀ p, ∃ S : List Input, (ghA.specs p).vals <+: S ∧ (ghB.specs p).vals <+: S)
    (hcA : sA.advanceRollbackFrame nowA [] = .ok (sA', reqsA))
    (hcB : sB.advanceRollbackFrame nowB [] = .ok (sB', reqsB)) :
    ∃ (r1A r1B : List Request),
      (reqsA = r1A ∨ ∃ ins, reqsA = r1A ++ [.advance ins]) ∧ (reqsB = r1B ∨ ∃ ins, reqsB = r1B ++ [.advance ins]) ∧
      ∀ p, p < sA.sync.queues.length → p < sB.sync.queues.length → ∀ f : Nat,
        (f : Int) < sA.sync.currentFrame → (f : Int) < sB.sync.currentFrame →
        f < (ghA.specs p).vals.length → f < (ghB.specs p).vals.length →
        (((execReqs tA r1A).R f).getD p default).1 = (((execReqs tB r1B).R f).getD p default).1 := by
  obtain ⟨s1A, r1A, g1A, _, _, hsetA, hrightA, _, _, _, hcaseA⟩ := advanceRollbackFrame_spec sA sA' ghA tA [] reqsA nowA hA hcA
  obtain ⟨s1B, r1B, g1B, _, _, hsetB, hrightB, _, _, _, hcaseB⟩ := advanceRollbackFrame_spec sB sB' ghB tB [] reqsB nowB hB hcB
  refine ⟨r1A, r1B, ?_, ?_, ?_⟩
  · rcases hcaseA with h | ⟨c, ins, _, h, _⟩
    · exact Or.inl h
    · exact Or.inr ⟨ins, h⟩
  · rcases hcaseB with h | ⟨c, ins, _, h, _⟩
    · exact Or.inl h
    · exact Or.inr ⟨ins, h⟩
  · intro p hpA hpB f hfA hfB hlA hlB
    have hpA1 : p < s1A.sync.queues.length := by rw [hsetA.nq]; exact hpA
    have hpB1 : p < s1B.sync.queues.length := by rw [hsetB.nq]; exact hpB
    have eA := hrightA p hpA1 f (by rw [hsetA.cur]; exact hfA) (by rw [hsetA.specs]; exact hlA)
    have eB := hrightB p hpB1 f (by rw [hsetB.cur]; exact hfB) (by rw [hsetB.specs]; exact hlB)
    rw [← hsetA.inv.rows p hpA1 f, ← hsetB.inv.rows p hpB1 f, eA, eB, hsetA.specs, hsetB.specs]
    obtain ⟨S, h1, h2⟩ := hlinks p
    rw [getD_of_prefix _ S h1 f hlA, getD_of_prefix _ S h2 f hlB]

end Ggrs

namespace Ggrs

/-- **Non-vacuity of the session world.** The world `SStar` the all-schedules theorems quantify over
contains the runs they are meant for: a freshly built two-player session (it satisfies the
invariant), the user submitting a local input before every call, the game writing its saves after
every call, a remote input arriving that contradicts the prediction, three calls that each advance
the frame, the second of them rolling back (`LoadGameState` in its request list). Since L-input
(`SStep.localInput`, `SStep.saves`) such runs are paths of the world; before, a second advancing
call of a session with a local player, and every call that rolls back, was not a step. -/
theorem C01_world_nonvacuous :
    (∃ gh, SessInv demoSession gh ⟨0, fun _ => []⟩ []) ∧
    (∃ t', SStar (demoSession, ⟨0, fun _ => []⟩) (demoS3, t')) ∧ demoS3.sync.currentFrame = 3 ∧
    (getOk (demoTick demoS1r 6)).2.any (fun r => match r with | .load _ => true | _ => false) = true :=
  ⟨⟨_, SessInv_init demoSession (fun _ => []) 2 rfl rfl rfl⟩, demo_run _, demo_frame3, demo_rollback⟩

end Ggrs

namespace Ggrs

/-- **C01 across two peers (the product, no disconnected players).** Two rollback-mode sessions A and B
side by side, starting from any pair satisfying the pair invariant (two freshly built sessions do:
`PPInv_init`). Run ANY interleaving of: either user submitting local inputs, either game writing
cells, either session's `advance_frame` (its game executing the requests), and arrivals — the next
frame of a player the other session owns, carrying what the owner's queue holds for it (what
`C11_owner_sends_queue` and `C05_stream_intact` provide for a link under any loss, duplication and
reordering; `Half.arrive`). Then, after the rollback phase of the next call on either side, the two
games' last simulations of every frame `f` both have simulated carry the SAME input for every player
owned by one of the two sessions, provided both sessions' queues hold that player's frame `f`: the
confirmed parts of the two timelines coincide, with no assumption about the streams — that the
receiver's stream is a prefix of the owner's is an invariant of the product (`PPInv_run`). With
`C01_state_replay` (state = replay of the timeline) two deterministic games that ignore the
Confirmed/Predicted label are in the same state at every mutually confirmed frame. The two sessions
may be part of a larger session: inputs of players that neither of them owns arrive as they please
(`Half.arriveOther`: any frame, any value), so the theorem applies to ANY two sessions of a session
with three or four peers, for the players those two own; agreement on a third peer's players
follows from the two pairs with that peer through `C01_agree_given_links` (both copies are
prefixes of the owner's stream) — the world in which all three invariants hold for one choice of
ghosts is not built. -/
theorem C01_agree_two_peers (x y : (P2P × TLState) × (P2P × TLState)) (h0 : PPInv x) (hrun : PStar x y)
    (nowA nowB : Nat) (sA' sB' : P2P) (reqsA reqsB : List Request)
    (hcA : y.1.1.advanceRollbackFrame nowA [] = .ok (sA', reqsA))
    (hcB : y.2.1.advanceRollbackFrame nowB [] = .ok (sB', reqsB)) :
    ∃ (r1A r1B : List Request),
      (reqsA = r1A ∨ ∃ ins, reqsA = r1A ++ [.advance ins]) ∧ (reqsB = r1B ∨ ∃ ins, reqsB = r1B ++ [.advance ins]) ∧
      ∀ p, ((p ∈ y.1.1.localPlayerHandles ∧ p ∉ y.2.1.localPlayerHandles) ∨
            (p ∈ y.2.1.localPlayerHandles ∧ p ∉ y.1.1.localPlayerHandles)) →
        p < y.1.1.sync.queues.length → p < y.2.1.sync.queues.length → ∀ f : Nat,
        (f : Int) < y.1.1.sync.currentFrame → (f : Int) < y.2.1.sync.currentFrame →
        (f : Int) ≤ (rget y.1.1.sync.queues p).lastAddedFrame → (f : Int) ≤ (rget y.2.1.sync.queues p).lastAddedFrame →
        (((execReqs y.1.2 r1A).R f).getD p default).1 = (((execReqs y.2.2 r1B).R f).getD p default).1 :=
  pair_agree x y h0 hrun nowA nowB sA' sB' reqsA reqsB hcA hcB

/-- The pair invariant also pins each session's copy of a remote player's stream to the owner's:
whatever B holds of a player of A is, entry by entry, what A's own queue specification holds. -/
theorem C01_pair_prefix (x y : (P2P × TLState) × (P2P × TLState)) (h0 : PPInv x) (hrun : PStar x y) :
    ∃ ghA ghB, SessInv y.1.1 ghA y.1.2 [] ∧ SessInv y.2.1 ghB y.2.2 [] ∧
      LinkRel y.1.1 y.2.1 ghA ghB ∧ LinkRel y.2.1 y.1.1 ghB ghA := by
  obtain ⟨ghA, ghB, h⟩ := PPInv_run x y h0 hrun
  exact ⟨ghA, ghB, h.sa, h.sb, h.ab, h.ba⟩

end Ggrs

namespace Ggrs

/-- **Non-vacuity of the pair world.** Two freshly built sessions satisfy the pair invariant, and
the world contains the run it is meant for: both users submit inputs, both sessions simulate frame 0
predicting the other's input, each then receives the other's frame 0 — read off the owner's queue,
and different from the prediction —, and both roll back on their next call and reach frame 2. -/
theorem C01_pair_nonvacuous :
    PPInv ((demoSession, ⟨0, fun _ => []⟩), (demoPeer, ⟨0, fun _ => []⟩)) ∧
    (∃ tA' tB', PStar ((demoSession, ⟨0, fun _ => []⟩), (demoPeer, ⟨0, fun _ => []⟩)) ((demoS2, tA'), (demoB2, tB'))) ∧
    demoS2.sync.currentFrame = 2 ∧ demoB2.sync.currentFrame = 2 :=
  ⟨PPInv_init demoSession demoPeer _ _ 2 rfl rfl rfl rfl rfl rfl rfl rfl, demo_pair_run _ _, by decide, demo_frameB2⟩

end Ggrs

namespace Ggrs

/-- Two timelines whose rows carry the same input values for the first `n` players up to frame `F`
replay to the same state, for a game whose step only reads those values. -/
theorem replay_congr_vals {G : Type} (step : G → List (Input × InputStatus) → G) (g0 : G) (n : Nat)
    (hstep : ∀ g r r', (∀ p, p < n → (r.getD p default).1 = (r'.getD p default).1) → step g r = step g r')
    (R R' : Nat → List (Input × InputStatus)) :
    ∀ F : Nat, (∀ f, f < F → ∀ p, p < n → ((R f).getD p default).1 = ((R' f).getD p default).1) →
      replay step g0 R F = replay step g0 R' F := by
  intro F
  induction F with
  | zero => intro _; rfl
  | succ k ih =>
    intro h
    simp only [replay]
    rw [ih (fun f hf => h f (by omega))]
    exact hstep _ _ _ (h k (by omega))

/-- **C01 across two peers: game states.** In the setting of `C01_agree_two_peers`, let every one of
the `n` players be owned by exactly one of the two sessions and let `F` be a frame count such that
both sessions have simulated, and hold every player's real input for, every frame below `F` (so `F - 1`
is a mutually confirmed frame). Then the serial replays of the two games' timelines up to `F` —
which by `C01_state_replay` ARE the two games' states at frame `F` — are the same state, for every
deterministic game whose step reads the input values. -/
theorem C01_states_agree_two_peers {G : Type} (step : G → List (Input × InputStatus) → G) (g0 : G)
    (x y : (P2P × TLState) × (P2P × TLState)) (h0 : PPInv x) (hrun : PStar x y)
    (nowA nowB : Nat) (sA' sB' : P2P) (reqsA reqsB : List Request)
    (hcA : y.1.1.advanceRollbackFrame nowA [] = .ok (sA', reqsA))
    (hcB : y.2.1.advanceRollbackFrame nowB [] = .ok (sB', reqsB))
    (n : Nat) (hnA : y.1.1.sync.queues.length = n) (hnB : y.2.1.sync.queues.length = n)
    (hown : ∀ p, p < n → (p ∈ y.1.1.localPlayerHandles ∧ p ∉ y.2.1.localPlayerHandles) ∨
      (p ∈ y.2.1.localPlayerHandles ∧ p ∉ y.1.1.localPlayerHandles))
    (hstep : ∀ g r r', (∀ p, p < n → (r.getD p default).1 = (r'.getD p default).1) → step g r = step g r')
    (F : Nat) (hFA : (F : Int) ≤ y.1.1.sync.currentFrame) (hFB : (F : Int) ≤ y.2.1.sync.currentFrame)
    (hheldA : ∀ p, p < n → (F : Int) - 1 ≤ (rget y.1.1.sync.queues p).lastAddedFrame)
    (hheldB : ∀ p, p < n → (F : Int) - 1 ≤ (rget y.2.1.sync.queues p).lastAddedFrame) :
    ∃ (r1A r1B : List Request),
      (reqsA = r1A ∨ ∃ ins, reqsA = r1A ++ [.advance ins]) ∧ (reqsB = r1B ∨ ∃ ins, reqsB = r1B ++ [.advance ins]) ∧
      replay step g0 (execReqs y.1.2 r1A).R F = replay step g0 (execReqs y.2.2 r1B).R F := by
  obtain ⟨r1A, r1B, ha, hb, hag⟩ := C01_agree_two_peers x y h0 hrun nowA nowB sA' sB' reqsA reqsB hcA hcB
  refine ⟨r1A, r1B, ha, hb, replay_congr_vals step g0 n hstep _ _ F ?_⟩
  intro f hf p hp
  exact hag p (hown p hp) (by rw [hnA]; exact hp) (by rw [hnB]; exact hp) f (by omega) (by omega)
    (by have := hheldA p hp; omega) (by have := hheldB p hp; omega)

end Ggrs

namespace Ggrs

/-- **C01 across three peers (the product under one choice of ghosts).** Three rollback-mode sessions
side by side (`Proofs/Triple.lean`): each moves by local inputs, cell writes, calls, and arrivals of
the next frame of a player one of the other two owns, read off that owner's queue. For every run,
sessions `a` and `b` — any two, the construction is symmetric — agree after the rollback phase of
their next calls on the input of EVERY player owned by exactly one of the three sessions, for every
frame both have simulated and both hold: their own players' (the pair argument) and the third
peer's, whose two copies are both prefixes of the owner's stream. The four-peer case is the same
construction with one more pair invariant per session; it is not written out. -/
theorem C01_agree_three_peers (x y : Tri) (h0 : TriInv x) (hrun : TStar x y) (nowA nowB : Nat) (sA' sB' : P2P)
    (reqsA reqsB : List Request)
    (hcA : y.a.1.advanceRollbackFrame nowA [] = .ok (sA', reqsA))
    (hcB : y.b.1.advanceRollbackFrame nowB [] = .ok (sB', reqsB)) :
    ∃ (r1A r1B : List Request),
      (reqsA = r1A ∨ ∃ ins, reqsA = r1A ++ [.advance ins]) ∧ (reqsB = r1B ∨ ∃ ins, reqsB = r1B ++ [.advance ins]) ∧
      ∀ p, OwnedByOne y p → p < y.a.1.sync.queues.length → p < y.b.1.sync.queues.length → ∀ f : Nat,
        (f : Int) < y.a.1.sync.currentFrame → (f : Int) < y.b.1.sync.currentFrame →
        (f : Int) ≤ (rget y.a.1.sync.queues p).lastAddedFrame → (f : Int) ≤ (rget y.b.1.sync.queues p).lastAddedFrame →
        (((execReqs y.a.2 r1A).R f).getD p default).1 = (((execReqs y.b.2 r1B).R f).getD p default).1 :=
  triple_agree x y h0 hrun nowA nowB sA' sB' reqsA reqsB hcA hcB

/-- Three freshly built sessions satisfy the invariant of the triple. -/
theorem C01_three_peers_init (a b c : P2P) (RA RB RC : Nat → List (Input × InputStatus)) (n : Nat)
    (hqa : a.sync.queues = List.replicate n InputQueue.new) (hsta : a.localConnectStatus = List.replicate n {})
    (hca : a.sync.currentFrame = 0) (hoa : a.outgoingLocalInputs = [])
    (hqb : b.sync.queues = List.replicate n InputQueue.new) (hstb : b.localConnectStatus = List.replicate n {})
    (hcb : b.sync.currentFrame = 0) (hob : b.outgoingLocalInputs = [])
    (hqc : c.sync.queues = List.replicate n InputQueue.new) (hstc : c.localConnectStatus = List.replicate n {})
    (hcc : c.sync.currentFrame = 0) (hoc : c.outgoingLocalInputs = []) :
    TriInv ⟨(a, ⟨0, RA⟩), (b, ⟨0, RB⟩), (c, ⟨0, RC⟩)⟩ := by
  have sa := SessInv_init a RA n hqa hsta hca
  have ga := GlueInv_init a ⟨fun _ => {}, fun _ => [], fun p f => ((RA f).getD p default).1⟩ n (fun _ => rfl) hoa hsta (by rw [hqa]; simp)
  have sb := SessInv_init b RB n hqb hstb hcb
  have gb := GlueInv_init b ⟨fun _ => {}, fun _ => [], fun p f => ((RB f).getD p default).1⟩ n (fun _ => rfl) hob hstb (by rw [hqb]; simp)
  have sc := SessInv_init c RC n hqc hstc hcc
  have gc := GlueInv_init c ⟨fun _ => {}, fun _ => [], fun p f => ((RC f).getD p default).1⟩ n (fun _ => rfl) hoc hstc (by rw [hqc]; simp)
  exact ⟨_, _, _, ⟨sa, ga, sb, gb, fun _ _ _ => PrefixOf.refl _, fun _ _ _ => PrefixOf.refl _⟩,
    ⟨sa, ga, sc, gc, fun _ _ _ => PrefixOf.refl _, fun _ _ _ => PrefixOf.refl _⟩,
    ⟨sb, gb, sc, gc, fun _ _ _ => PrefixOf.refl _, fun _ _ _ => PrefixOf.refl _⟩⟩

end Ggrs

namespace Ggrs

/-- **Non-vacuity of the triple world.** Three freshly built sessions (one player each) satisfy the
invariant, and the world contains runs with arrivals at both other peers: A simulates frame 0, and
its frame 0 — read off A's queue — arrives at B and at C. -/
theorem C01_triple_nonvacuous :
    TriInv ⟨(tri 0, ⟨0, fun _ => []⟩), (tri 1, ⟨0, fun _ => []⟩), (tri 2, ⟨0, fun _ => []⟩)⟩ ∧
    ∃ tA', TStar ⟨(tri 0, ⟨0, fun _ => []⟩), (tri 1, ⟨0, fun _ => []⟩), (tri 2, ⟨0, fun _ => []⟩)⟩
      ⟨(triA1, tA'), (triB1, ⟨0, fun _ => []⟩), (triC1, ⟨0, fun _ => []⟩)⟩ :=
  ⟨C01_three_peers_init (tri 0) (tri 1) (tri 2) _ _ _ 3 rfl rfl rfl rfl rfl rfl rfl rfl rfl rfl rfl rfl, demo_triple_run _ _ _⟩

end Ggrs

