/-
C01 — Every peer's confirmed timeline equals the serial replay of the true inputs.

Proved here: (1) the rollback target is the EARLIEST mispredicted frame over all players
(`check_simulation_consistency`), so no mispredicted frame below it is left un-resimulated;
(2) through Properties/C11.lean the ring of every input queue holds the player's true stream
(`C11_queue`, `C11_ring_value`) and through Properties/C03.lean a `Confirmed` input is read from
the slot of exactly the requested frame; (3) `C01_detect`: for EVERY history of one player's queue
no wrong prediction handed out since the last rollback goes unnoticed — `first_incorrect_frame` is
NULL only if every prediction handed out for a frame that has meanwhile arrived was right, and
otherwise names a frame with a real mismatch before which every handed-out prediction was right,
so rolling back to it (or earlier, (1)) re-simulates every frame that used a wrong value. The composition over the network (L-peer / L-stream of
DESIGN.md §7) is NOT proved: on that level the property is decided by the monitor on
implementation traces plus trace acceptance of the model (`_partial` in the sense of DESIGN.md).
-/
import GgrsModel.Properties.C11
import GgrsModel.Properties.C03
import GgrsModel.Properties.C04

namespace Ggrs.SyncLayer

/-- The fold of `check_simulation_consistency` over a list of queues. -/
def earliest (qs : List InputQueue) (init : Frame) : Frame :=
  qs.foldl (fun fi q =>
    let inc := q.firstIncorrectFrame
    if inc != NULL_FRAME && (fi == NULL_FRAME || inc < fi) then inc else fi) init

theorem earliest_spec : ∀ (qs : List InputQueue) (init : Frame),
    (earliest qs init = NULL_FRAME ↔ init = NULL_FRAME ∧ ∀ q ∈ qs, q.firstIncorrectFrame = NULL_FRAME) ∧
    (earliest qs init ≠ NULL_FRAME →
      (init ≠ NULL_FRAME → earliest qs init ≤ init) ∧
      (∀ q ∈ qs, q.firstIncorrectFrame ≠ NULL_FRAME → earliest qs init ≤ q.firstIncorrectFrame)) := by
  intro qs
  induction qs with
  | nil =>
    intro init
    simp [earliest]
  | cons q qs ih =>
    intro init
    simp only [earliest, List.foldl_cons]
    by_cases hc : (q.firstIncorrectFrame != NULL_FRAME && (init == NULL_FRAME || decide (q.firstIncorrectFrame < init))) = true
    · simp only [hc, if_true]
      have ihq := ih q.firstIncorrectFrame
      simp only [earliest] at ihq
      simp only [Bool.and_eq_true, bne_iff_ne, ne_eq, Bool.or_eq_true, beq_iff_eq, decide_eq_true_eq] at hc
      obtain ⟨hne, hlt⟩ := hc
      constructor
      · constructor
        · intro h0
          exact absurd (ihq.1.mp h0).1 hne
        · rintro ⟨_, hall⟩
          exact absurd (hall q List.mem_cons_self) hne
      · intro hnn
        have := ihq.2 hnn
        constructor
        · intro hi
          rcases hlt with h1 | h1
          · exact absurd h1 hi
          · exact Int.le_trans (this.1 hne) (Int.le_of_lt h1)
        · intro q' hq' hq'n
          rcases List.mem_cons.mp hq' with rfl | hin
          · exact this.1 hne
          · exact this.2 q' hin hq'n
    · simp only [hc, Bool.false_eq_true, if_false]
      have ihq := ih init
      simp only [earliest] at ihq
      have hc' : q.firstIncorrectFrame = NULL_FRAME ∨ (init ≠ NULL_FRAME ∧ ¬ q.firstIncorrectFrame < init) := by
        by_cases h1 : q.firstIncorrectFrame = NULL_FRAME
        · exact Or.inl h1
        · right
          constructor
          · intro hi; apply hc; simp [h1, hi]
          · intro hl; apply hc; simp [h1, hl]
      constructor
      · constructor
        · intro h0
          have := ihq.1.mp h0
          refine ⟨this.1, ?_⟩
          intro q' hq'
          rcases List.mem_cons.mp hq' with rfl | hin
          · rcases hc' with h1 | ⟨h1, _⟩
            · exact h1
            · exact absurd this.1 h1
          · exact this.2 q' hin
        · rintro ⟨hi, hall⟩
          exact ihq.1.mpr ⟨hi, fun q' hq' => hall q' (List.mem_cons_of_mem _ hq')⟩
      · intro hnn
        have := ihq.2 hnn
        refine ⟨this.1, ?_⟩
        intro q' hq' hq'n
        rcases List.mem_cons.mp hq' with rfl | hin
        · rcases hc' with h1 | ⟨h1, h2⟩
          · exact absurd h1 hq'n
          · exact Int.le_trans (this.1 h1) (Int.not_lt.mp h2)
        · exact this.2 q' hin hq'n

/-- **C01, earliest wrong frame.** The frame handed to the rollback is NULL only if no queue has
detected a misprediction (and no disconnect rollback is pending); otherwise it is at or below the
first mispredicted frame of EVERY player (and the pending disconnect frame). -/
theorem C01_earliest_incorrect (s : SyncLayer) (disconnectFrame : Frame) :
    (s.checkSimulationConsistency disconnectFrame = NULL_FRAME ↔
      disconnectFrame = NULL_FRAME ∧ ∀ q ∈ s.queues, q.firstIncorrectFrame = NULL_FRAME) ∧
    (s.checkSimulationConsistency disconnectFrame ≠ NULL_FRAME →
      ∀ q ∈ s.queues, q.firstIncorrectFrame ≠ NULL_FRAME →
        s.checkSimulationConsistency disconnectFrame ≤ q.firstIncorrectFrame) := by
  have := earliest_spec s.queues disconnectFrame
  exact ⟨this.1, fun h => (this.2 h).2⟩

end Ggrs.SyncLayer

namespace Ggrs
open InputQueue

/-- **C01, misprediction detection (queue level, all histories).** `st.H` is the list of
(frame, value) pairs `input` has answered with status Predicted since the last
`reset_prediction`. In every reachable state: if `first_incorrect_frame` is NULL, every one of
them whose frame has arrived by now was right; otherwise `first_incorrect_frame` is a received
frame whose real value differs from the prediction, and every predicted answer for an earlier
frame was right. -/
theorem C01_detect (pr : Predictor) (st : QState) (hr : QStar pr ⟨InputQueue.new, {}, []⟩ st) :
    (st.q.firstIncorrectFrame = NULL_FRAME →
      ∀ p ∈ st.H, p.1 < st.s.vals.length → st.s.vals.getD p.1.toNat 0 = p.2) ∧
    (st.q.firstIncorrectFrame ≠ NULL_FRAME →
      ∃ g : Nat, st.q.firstIncorrectFrame = (g : Int) ∧ g < st.s.vals.length ∧
        st.s.vals.getD g 0 ≠ st.q.prediction.input ∧
        ∀ p ∈ st.H, p.1 < (g : Int) → st.s.vals.getD p.1.toNat 0 = p.2) :=
  PInv_detect pr st.q st.s st.H (PInv_run pr _ st (PInv_new pr) hr)

end Ggrs
