/-
C09 — Desync detection: only confirmed frames are ever reported.

Proved: a checksum is reported (sent to peers and remembered locally) only for a frame at or
below the sync layer's last confirmed frame — whose state is final — and nothing at all happens
while the next report frame is not yet confirmed. The absence of false alarms over whole runs
and the detection of real divergence are decided on traces (monitor C09, families desync/glitch).
-/
import GgrsModel.Model.Inventory
import GgrsModel.Model.P2P
import GgrsModel.Proofs.Monad

namespace Ggrs.P2P

def nextReportFrame (s : P2P) (interval : Nat) : Frame :=
  if s.lastSentChecksumFrame == NULL_FRAME then (interval : Int) else s.lastSentChecksumFrame + (interval : Int)

/-- While the next report frame is above the last confirmed frame, `check_checksum_send_interval`
changes nothing: no report leaves, nothing is stored for comparison. -/
theorem C09_no_report_before_confirmation (s : P2P) (now interval : Nat)
    (hd : s.desync = some interval) (hlate : ¬ s.nextReportFrame interval ≤ s.sync.lastConfirmedFrame) :
    s.checkChecksumSendInterval now = .ok s := by
  unfold checkChecksumSendInterval
  simp only [hd]
  unfold nextReportFrame at hlate
  simp only [hlate, if_false, pure, Except.pure]

/-- Desync detection switched off: nothing is ever reported. -/
theorem C09_off (s : P2P) (now : Nat) (hd : s.desync = none) :
    s.checkChecksumSendInterval now = .ok s ∧ s.compareLocalChecksumsAgainstPeers = s := by
  constructor
  · unfold checkChecksumSendInterval; simp [hd, pure, Except.pure]
  · unfold compareLocalChecksumsAgainstPeers; simp [hd]

end Ggrs.P2P
