/-
C09 — Desync detection: only confirmed frames are ever reported.

Proved: a checksum is reported (sent to peers and remembered locally) only for a frame at or
below the sync layer's last confirmed frame — whose state is final — and nothing at all happens
while the next report frame is not yet confirmed. `C09_reports_are_replay` (Proofs/Checksums.lean):
for every run of a rollback-mode session next to a deterministic game whose saves hand over the
checksum of the saved state, the checksum a report carries is the checksum of the serial replay of
the session's own timeline up to the reported, confirmed frame — a function of the inputs alone,
which is what makes two peers' reports for a frame equal. The comparison across peers (no
DesyncDetected over whole runs) and the detection of a real divergence are decided on traces
(monitor C09, families desync/glitch).
-/
import GgrsModel.Model.Inventory
import GgrsModel.Model.Sites.P2pSession
import GgrsModel.Model.Sites.Protocol
import GgrsModel.Model.Sites.SyncLayer
import GgrsModel.Model.P2P
import GgrsModel.Proofs.Monad
import GgrsModel.Proofs.Checksums
import GgrsModel.Proofs.DropGame

namespace Ggrs.P2P

/-- While the next report frame is above the last confirmed frame, `check_checksum_send_interval`
changes nothing: no report leaves, nothing is stored for comparison. -/
theorem C09_no_report_before_confirmation (s : P2P) (now interval : Nat)
    (hd : s.desync = some interval) (hlate : ¬ s.nextReportFrame interval ≤ s.sync.lastConfirmedFrame) :
    s.checkChecksumSendInterval now = .ok s := by
  unfold checkChecksumSendInterval checksumCellToReport
  simp only [hd, hlate, if_false, pure, Except.pure, bind, Except.bind]

/-- Desync detection switched off: nothing is ever reported. -/
theorem C09_off (s : P2P) (now : Nat) (hd : s.desync = none) :
    s.checkChecksumSendInterval now = .ok s ∧ s.compareLocalChecksumsAgainstPeers = s := by
  constructor
  · unfold checkChecksumSendInterval; simp [hd, pure, Except.pure]
  · unfold compareLocalChecksumsAgainstPeers; simp [hd]

end Ggrs.P2P

namespace Ggrs

/-- **C09, what is reported (rollback mode, sparse saving or not, no disconnected players, delay
changes allowed).** Run ANY interleaving of remote-input arrivals, delay changes, checksum reports and
comparisons, and `advance_frame` calls whose requests a deterministic game executes, its saves
handing over `csf` of the saved state. Then whenever a report is due, the cell it is taken from
holds a frame `f` with `next report frame ≤ f ≤ last confirmed frame`, and the checksum reported
(and remembered for the comparison with the peers' reports) is `csf` of the serial replay of the
game's timeline up to `f` — rows which `C01_timeline_partial` shows to be the real inputs, final
for a confirmed frame. -/
theorem C09_reports_are_replay {G : Type} (step : G → List (Input × InputStatus) → G) (g0 : G) (csf : G → Option Nat)
    (a b : P2P × GS G) (h0 : CInv2 step g0 csf a) (hrun : CWStar step csf a b) (interval : Nat) (cell : Cell)
    (hc : b.1.checksumCellToReport interval = .ok (some cell)) :
    0 ≤ cell.frame ∧ cell.frame ≤ b.1.sync.lastConfirmedFrame ∧ b.1.nextReportFrame interval ≤ cell.frame ∧
    cell.checksum = csf (replay step g0 b.2.R cell.frame.toNat) := by
  obtain ⟨hd, hck⟩ := CInv2_run step g0 csf a b h0 hrun
  exact reported_is_replay step g0 csf b.1 b.2 ⟨hd.1, hck⟩ interval cell hc

/-- What `check_checksum_send_interval` does with that cell (every state): the report
`(cell.frame, checksum)` goes to every remote endpoint and into the local history. -/
theorem C09_report_sent (s s' : P2P) (now interval : Nat) (cell : Cell) (cs : Nat) (hd : s.desync = some interval)
    (hc : s.checksumCellToReport interval = .ok (some cell)) (hcs : cell.checksum = some cs)
    (h : s.checkChecksumSendInterval now = .ok s') :
    s'.lastSentChecksumFrame = cell.frame ∧
    s'.remotes = s.remotes.map (fun p => (p.1, p.2.sendChecksumReport now cell.frame cs)) ∧
    (alookup cell.frame (ainsert cell.frame cs s.localChecksumHistory) = some cs) := by
  unfold P2P.checkChecksumSendInterval at h
  simp only [hd, hc, hcs, bind, Except.bind] at h
  have := pure_ok h
  subst this
  exact ⟨rfl, rfl, alookup_ainsert_self' _ _ _⟩

end Ggrs

namespace Ggrs

/-- The hypotheses of `C09_reports_are_replay` are met by a freshly built session next to a game at
its initial state with empty cells. -/
example {G : Type} (step : G → List (Input × InputStatus) → G) (g0 : G) (csf : G → Option Nat) (s : P2P)
    (R : Nat → List (Input × InputStatus)) (cellG : Nat → G) (n : Nat)
    (hq : s.sync.queues = List.replicate n InputQueue.new) (hst : s.localConnectStatus = List.replicate n {})
    (hc : s.sync.currentFrame = 0) (hls : s.sync.lastSavedFrame = NULL_FRAME)
    (hcells : s.sync.cells = List.replicate (s.maxPrediction + 1) {}) (ho : s.outgoingLocalInputs = []) :
    CInv2 step g0 csf (s, ⟨0, R, g0, cellG, fun _ => NULL_FRAME⟩) := by
  refine ⟨⟨WInv_init step g0 s R cellG n hq hst hc hls hcells, _, SessInv_init s R n hq hst hc,
    GlueInv_init s _ n (fun _ => rfl) ho hst (by rw [hq]; simp)⟩, ?_⟩
  intro i hi h0
  exfalso
  have hlen : s.sync.cells.length = s.maxPrediction + 1 := by rw [hcells]; simp
  have : (rget s.sync.cells i).frame = NULL_FRAME := by
    rw [hcells]
    rw [hlen] at hi
    simp [rget, List.getD_eq_getElem?_getD, hi]
  have h0' : 0 ≤ (rget s.sync.cells i).frame := h0
  rw [this] at h0'
  simp [NULL_FRAME] at h0'

end Ggrs

namespace Ggrs

/-- **C09, what is reported — with dropped players.** Run ANY interleaving of remote-input arrivals,
accepted `disconnect_player` calls, Disconnected events, checksum reports and comparisons, and
`advance_frame` calls (rollback mode, either saving mode) whose requests a deterministic game
executes, its saves handing over `csf` of the saved state. Then whenever a report is due, the cell
it is taken from holds a frame `f` with `next report frame ≤ f ≤ last confirmed frame`, and the
checksum reported is `csf` of the serial replay of the game's timeline up to `f` — a timeline that
carries (blank, Disconnected) for the dropped players beyond their last frames
(`C07_final_timeline`), so that two survivors who settle on the same cut-off report the same
checksums. -/
theorem C09_reports_are_replay_drops {G : Type} (step : G → List (Input × InputStatus) → G) (g0 : G)
    (csf : G → Option Nat) (a b : P2P × GS G) (h0 : CInvD step g0 csf a) (hrun : CXStar step csf a b)
    (interval : Nat) (cell : Cell) (hc : b.1.checksumCellToReport interval = .ok (some cell)) :
    0 ≤ cell.frame ∧ cell.frame ≤ b.1.sync.lastConfirmedFrame ∧ b.1.nextReportFrame interval ≤ cell.frame ∧
    cell.checksum = csf (replay step g0 b.2.R cell.frame.toNat) := by
  obtain ⟨hd, hck⟩ := CInvD_run step g0 csf a b h0 hrun
  exact reported_is_replayD step g0 csf b.1 b.2 hd hck interval cell hc

/-- The premises are satisfiable: every state of the old world with no disconnect scheduled. -/
example {G : Type} (step : G → List (Input × InputStatus) → G) (g0 : G) (csf : G → Option Nat) (w : P2P × GS G)
    (h : CInv2 step g0 csf w) (hdf : w.1.disconnectFrame = NULL_FRAME) : CInvD step g0 csf w :=
  ⟨WInvD_of_WInv step g0 w.1 w.2 h.1.1 hdf, h.2⟩

end Ggrs

namespace Ggrs.P2P

theorem comparePending_fold (lastConfirmed : Frame) (hist : List (Int × Nat)) (peerAddr : Nat) :
    ∀ (pending : List (Int × Nat)) (acc : List Event × List Int),
      (pending.foldl (fun acc p =>
        let r := compareOne lastConfirmed hist peerAddr p
        (acc.1 ++ r.1.toList, if r.2 then acc.2 ++ [p.1] else acc.2)) acc).1 =
      acc.1 ++ pending.flatMap fun p => (compareOne lastConfirmed hist peerAddr p).1.toList := by
  intro pending
  induction pending with
  | nil => intro acc; simp
  | cons a rest ih =>
    intro acc
    simp only [List.foldl_cons, List.flatMap_cons]
    rw [ih]
    simp [List.append_assoc]

/-- **C09, the comparison is exact.** In the order of the pending reports, one event per report that
`compareOne` flags: a report of a frame below the last confirmed frame whose local checksum is on
record and differs. -/
theorem C09_compare_exact (lastConfirmed : Frame) (hist : List (Int × Nat)) (peerAddr : Nat) (pending : List (Int × Nat)) :
    (comparePending lastConfirmed hist peerAddr pending).1 =
      pending.flatMap fun p => (compareOne lastConfirmed hist peerAddr p).1.toList := by
  unfold comparePending
  rw [comparePending_fold]
  rfl

/-- **C09, no false alarm at the comparison.** If every pending report agrees with the local checksum
on record for its frame (as it does for two deterministic games in the same state:
`C09_reports_are_replay`), nothing is raised. -/
theorem C09_compare_no_false_alarm (lastConfirmed : Frame) (hist : List (Int × Nat)) (peerAddr : Nat)
    (pending : List (Int × Nat))
    (hagree : ∀ p ∈ pending, ∀ lc, alookup p.1 hist = some lc → lc = p.2) :
    (comparePending lastConfirmed hist peerAddr pending).1 = [] := by
  rw [C09_compare_exact, List.flatMap_eq_nil_iff]
  intro p hp
  unfold compareOne
  split
  · rfl
  · split
    · rfl
    · rename_i lc hl
      have := hagree p hp lc hl
      simp [this]

/-- **C09, a real difference is reported, with the two real checksums.** A pending report for a frame
below the last confirmed frame whose local checksum is on record and differs raises
`DesyncDetected` for that frame, carrying exactly the local checksum on record and the checksum the
peer reported. -/
theorem C09_compare_detects (lastConfirmed : Frame) (hist : List (Int × Nat)) (peerAddr : Nat)
    (pending : List (Int × Nat)) (rf : Int) (rc lc : Nat) (hp : (rf, rc) ∈ pending) (hlt : rf < lastConfirmed)
    (hl : alookup rf hist = some lc) (hne : lc ≠ rc) :
    Event.desyncDetected rf lc rc peerAddr ∈ (comparePending lastConfirmed hist peerAddr pending).1 := by
  rw [C09_compare_exact, List.mem_flatMap]
  refine ⟨(rf, rc), hp, ?_⟩
  have hge : ¬ rf ≥ lastConfirmed := by omega
  simp [compareOne, hge, hl, hne]

/-- Every event the comparison raises is a `DesyncDetected` for a pending report that really differs
from the local checksum on record. -/
theorem C09_compare_sound (lastConfirmed : Frame) (hist : List (Int × Nat)) (peerAddr : Nat)
    (pending : List (Int × Nat)) (ev : Event) (h : ev ∈ (comparePending lastConfirmed hist peerAddr pending).1) :
    ∃ rf rc lc, (rf, rc) ∈ pending ∧ rf < lastConfirmed ∧ alookup rf hist = some lc ∧ lc ≠ rc ∧
      ev = Event.desyncDetected rf lc rc peerAddr := by
  rw [C09_compare_exact, List.mem_flatMap] at h
  obtain ⟨⟨rf, rc⟩, hp, hev⟩ := h
  unfold compareOne at hev
  simp only at hev
  split at hev
  · simp at hev
  · rename_i hge
    split at hev
    · simp at hev
    · rename_i lc hl
      split at hev
      · rename_i hne
        simp only [Option.toList_some, List.mem_singleton] at hev
        exact ⟨rf, rc, lc, hp, by omega, hl, by simpa using hne, hev⟩
      · simp at hev

end Ggrs.P2P
