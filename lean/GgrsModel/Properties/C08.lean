/-
C08 — Malformed or foreign packets are discarded without panic or effect (endpoint level).

`onInput` / `handleMessage` are the model of `UdpProtocol::on_input` / `handle_message`
(Model/Protocol.lean). Each theorem is for every endpoint state, every time and every value of
the remaining fields.
-/
import GgrsModel.Model.Inventory
import GgrsModel.Model.Sites.Protocol
import GgrsModel.Model.Sites.Compression
import GgrsModel.Model.Sites.P2pSession
import GgrsModel.Model.Sites.SpectatorSession
import GgrsModel.Proofs.Endpoint
import GgrsModel.Properties.C14
import GgrsModel.Model.P2P
import GgrsModel.Proofs.Monad

namespace Ggrs.Endpoint
open Codec (Bytes)

/-- Wrong number of connection statuses: the packet changes nothing at all. -/
theorem C08_wrong_status_count (e : Endpoint) (now : Nat) (st : List ConnStatus) (sf af : Frame) (bytes : Bytes)
    (h : st.length ≠ e.numPlayers) : e.onInput now st false sf af bytes = e := by
  simp [onInput, h]

/-- Negative start frame: the packet changes nothing at all. -/
theorem C08_negative_start (e : Endpoint) (now : Nat) (st : List ConnStatus) (dr : Bool) (sf af : Frame)
    (bytes : Bytes) (h : sf < 0) : e.onInput now st dr sf af bytes = e := by
  unfold onInput
  split
  · rfl
  · simp [h]

/-- Another session's magic number (after the handshake fixed the peer's magic): nothing changes,
not even the silence timer. -/
theorem C08_foreign_magic (e : Endpoint) (now : Nat) (msg : Msg)
    (h0 : e.remoteMagic ≠ 0) (h1 : msg.magic ≠ e.remoteMagic) : e.handleMessage now msg = .ok e := by
  unfold handleMessage
  by_cases hs : e.state = .shutdown
  · simp [hs, pure, Except.pure]
  · have : (e.state == ProtoState.shutdown) = false := by simpa using hs
    simp [this, h0, h1, pure, Except.pure, bind, Except.bind]

/-- A payload that is not a valid encoding (any byte string the decoder rejects): no input is
accepted, no Input event is raised, nothing is acknowledged. What does change is exactly what the
packet's genuine header fields cause in any packet (`applyInputHeader`: the piggy-backed ack and
the connection-status gossip) and the retry timer. -/
theorem C08_bad_payload (e : Endpoint) (now : Nat) (sf : Frame) (bytes reference : Bytes) (err : Codec.CodecErr)
    (href : alookup (if e.lastRecvFrame == NULL_FRAME then NULL_FRAME else sf - 1) e.recvInputs = some reference)
    (hdec : Codec.decode reference bytes = .error err) :
    e.decodeInputs now sf bytes = { e with runningLastInputRecv := now } := by
  unfold decodeInputs
  simp only [href, hdec]

/-- Decoding never panics whatever the payload is (C14) and `on_input` has no other partial
operation: handling an Input message always returns normally. -/
theorem C08_input_total (e : Endpoint) (now : Nat) (magic : Nat) (st : List ConnStatus) (dr : Bool)
    (sf af : Frame) (bytes : Bytes) :
    ∃ e', e.handleMessage now ⟨magic, .input st dr sf af bytes⟩ = .ok e' := by
  unfold handleMessage
  simp only [bind, Except.bind, pure, Except.pure]
  split
  · exact ⟨_, rfl⟩
  · split
    · exact ⟨_, rfl⟩
    · exact ⟨_, rfl⟩

/-- Frames of the wrong size: if the first frame the endpoint does not have yet has a size that is
not exactly one input per player, nothing of the packet is stored, no event is raised and nothing
is acknowledged. -/
theorem C08_wrong_size_first_frame (e : Endpoint) (sf : Frame) (inp : Bytes) (rest : List Bytes)
    (hnew : ¬ sf ≤ e.lastRecvFrame)
    (hsize : inp.length ≠ INPUT_SIZE * e.handles.length ∨ e.handles.length = 0) :
    acceptInputs e sf (inp :: rest) 0 = (e, false) := by
  unfold acceptInputs
  have h0 : ¬ (sf + ((0 : Nat) : Int) ≤ e.lastRecvFrame) := by simpa using hnew
  simp only [h0, if_false]
  have : toPlayerInputs sf inp e.handles.length = none := by
    unfold toPlayerInputs
    rcases hsize with h | h
    · by_cases hz : e.handles.length = 0
      · simp [hz]
      · have hz' : (e.handles.length == 0) = false := by simpa using hz
        simp only [hz', Bool.false_eq_true, if_false]
        by_cases hm : inp.length % e.handles.length = 0
        · have : (inp.length % e.handles.length != 0) = false := by simp [hm]
          simp only [this, Bool.false_eq_true, if_false]
          have hne : inp.length / e.handles.length ≠ INPUT_SIZE := by
            intro hq
            apply h
            have := Nat.div_add_mod inp.length e.handles.length
            rw [hm, hq] at this
            simp [INPUT_SIZE] at this ⊢
            omega
          simp [hne]
        · have : (inp.length % e.handles.length != 0) = true := by simp [hm]
          simp [this]
    · simp [h]
  have e0 : sf + ((0 : Nat) : Int) = sf := by simp
  rw [e0, this]

/-! Non-vacuity. -/
example : Codec.decode [0] [0x80] = .error .truncatedRunHeader := by decide

end Ggrs.Endpoint

namespace Ggrs.P2P

theorem updEp_unknown (addr : Nat) (f : Endpoint → M Endpoint) : ∀ (l : List (Nat × Endpoint)),
    (∀ x, x ∈ l → x.1 ≠ addr) → updEp l addr f = .ok l := by
  intro l
  induction l with
  | nil => intro _; rfl
  | cons x xs ih =>
    intro h
    obtain ⟨a, e⟩ := x
    have ha : (a == addr) = false := by
      have := h (a, e) List.mem_cons_self
      simpa using this
    unfold updEp at ih ⊢
    simp only [List.mapM_cons, ha, Bool.false_eq_true, if_false]
    rw [ih (fun y hy => h y (List.mem_cons_of_mem _ hy))]
    rfl

/-- **C08, a packet from an unknown address (every state, every packet).** A message whose sender is
neither a registered remote peer nor a registered spectator is dropped by `poll_remote_clients`
without touching anything: the poll behaves exactly as if the message had not arrived. -/
theorem C08_unknown_address (s : P2P) (now : Nat) (from_ : Nat) (msg : Msg) (rest : List (Nat × Msg))
    (hr : ∀ x, x ∈ s.remotes → x.1 ≠ from_) (hs : ∀ x, x ∈ s.spectators → x.1 ≠ from_) :
    s.pollRemoteClients now ((from_, msg) :: rest) = s.pollRemoteClients now rest := by
  unfold pollRemoteClients
  simp only [List.foldlM_cons]
  rw [updEp_unknown from_ _ s.remotes hr, updEp_unknown from_ _ s.spectators hs]
  rfl

end Ggrs.P2P

