/-
C04 — Speculation is bounded by the prediction window; lockstep never speculates.

`rollbackGate` is the end of `advance_rollback_frame` (the only place a rollback-mode session
simulates a *new* frame), `advanceLockstepFrame` is `advance_lockstep_frame`, `loadFrame` is
`SyncLayer::load_frame` (the only producer of LoadGameState requests).
-/
import GgrsModel.Model.P2P

namespace Ggrs

/-- `omega` does not look through the `Frame` abbreviation; these carry the arithmetic. -/
theorem int_sub_lt (a b c : Int) (h : a - b < c) : a < b + c := by omega
theorem int_sub_le_swap (a m f : Int) (h : a - m ≤ f) : a - f ≤ m := by omega

theorem SyncLayer.synchronizedInputs_frame (pred : Predictor) (s s' : SyncLayer) (st : List ConnStatus)
    (ins : List (Input × InputStatus)) (h : s.synchronizedInputs pred st = .ok (s', ins)) :
    s'.currentFrame = s.currentFrame ∧ s'.lastConfirmedFrame = s.lastConfirmedFrame ∧ s'.maxPrediction = s.maxPrediction := by
  unfold SyncLayer.synchronizedInputs at h
  simp only [bind, Except.bind, pure, Except.pure] at h
  split at h
  · cases h
  · cases h; simp

namespace P2P

/-- **C04, window.** A rollback-mode session simulates a new frame only if fewer than
`max_prediction` frames separate the current frame from the last confirmed one (with nothing
confirmed yet: only if the current frame itself is below `max_prediction`); otherwise the call
leaves `current_frame()` and the request list as they were. -/
theorem C04_window (s s' : P2P) (reqs reqs' : List Request) (h : s.rollbackGate reqs = .ok (s', reqs')) :
    (s.framesAheadOfConfirmed < s.maxPrediction ∧ s'.sync.currentFrame = s.sync.currentFrame + 1 ∧
        ∃ inputs, reqs' = reqs ++ [.advance inputs]) ∨
    (¬ s.framesAheadOfConfirmed < s.maxPrediction ∧ s' = s ∧ reqs' = reqs) := by
  unfold rollbackGate at h
  by_cases hg : s.framesAheadOfConfirmed < (s.maxPrediction : Int)
  · left
    simp only [hg, if_true, bind, Except.bind, pure, Except.pure] at h
    cases hsi : s.sync.synchronizedInputs s.pred s.localConnectStatus with
    | error x => simp [hsi] at h
    | ok p =>
      obtain ⟨sync, inputs⟩ := p
      simp only [hsi] at h
      cases h
      have := SyncLayer.synchronizedInputs_frame _ _ _ _ _ hsi
      exact ⟨hg, by simp [SyncLayer.advanceFrame, this.1], inputs, rfl⟩
  · right
    simp only [hg, if_false, pure, Except.pure] at h
    cases h
    exact ⟨hg, rfl, rfl⟩

/-- In terms of frames: whenever a new frame `c` is simulated, `c < lastConfirmed + max_prediction`
(`c < max_prediction` while nothing is confirmed). -/
theorem C04_window_frames (s s' : P2P) (reqs reqs' : List Request) (h : s.rollbackGate reqs = .ok (s', reqs'))
    (hadv : s'.sync.currentFrame ≠ s.sync.currentFrame) :
    (s.sync.lastConfirmedFrame = NULL_FRAME → s.sync.currentFrame < s.maxPrediction) ∧
    (s.sync.lastConfirmedFrame ≠ NULL_FRAME → s.sync.currentFrame < s.sync.lastConfirmedFrame + s.maxPrediction) := by
  rcases C04_window s s' reqs reqs' h with ⟨hg, _, _⟩ | ⟨_, hs, _⟩
  · unfold framesAheadOfConfirmed at hg
    constructor
    · intro hn
      rw [if_pos (by simp [hn])] at hg
      exact hg
    · intro hn
      rw [if_neg (by simpa using hn)] at hg
      exact int_sub_lt _ _ _ hg
  · subst hs; exact absurd rfl hadv

end P2P

namespace SyncLayer

/-- **C04, load window.** Every LoadGameState request names a frame strictly before the current
frame and at most `max_prediction` frames back; anything else is the assertion (a panic). -/
theorem C04_load (s s' : SyncLayer) (f : Frame) (r : Request) (h : s.loadFrame f = .ok (s', r)) :
    r = .load f ∧ f < s.currentFrame ∧ s.currentFrame - f ≤ s.maxPrediction ∧ s'.currentFrame = f := by
  unfold loadFrame at h
  simp only [bind, Except.bind, ensure, pure, Except.pure] at h
  by_cases h1 : (f != NULL_FRAME) = true
  · simp only [h1, if_true] at h
    by_cases h2 : decide (f < s.currentFrame) = true
    · simp only [h2, if_true] at h
      by_cases h3 : decide (f ≥ s.currentFrame - (s.maxPrediction : Int)) = true
      · simp only [h3, if_true] at h
        unfold cellPos at h
        simp only [bind, Except.bind, ensure, pure, Except.pure] at h
        by_cases h4 : decide (f ≥ 0) = true
        · simp only [h4, if_true] at h
          split at h
          · cases h
          · cases h
            simp at h2 h3
            exact ⟨rfl, h2, int_sub_le_swap _ _ _ h3, rfl⟩
        · simp only [h4, Bool.false_eq_true, if_false] at h; cases h
      · simp only [h3, Bool.false_eq_true, if_false] at h; cases h
    · simp only [h2, Bool.false_eq_true, if_false] at h; cases h
  · simp only [h1, Bool.false_eq_true, if_false] at h; cases h

end SyncLayer
end Ggrs
