/-
C04 — Speculation is bounded by the prediction window; lockstep never speculates.

`rollbackGate` is the end of `advance_rollback_frame` (the only place a rollback-mode session
simulates a *new* frame), `advanceLockstepFrame` is `advance_lockstep_frame`, `loadFrame` is
`SyncLayer::load_frame` (the only producer of LoadGameState requests).
-/
import GgrsModel.Model.Inventory
import GgrsModel.Proofs.Demo
import GgrsModel.Proofs.PairLockstep
import GgrsModel.Model.Sites.SyncLayer
import GgrsModel.Model.Sites.P2pSession
import GgrsModel.Model.P2P
import GgrsModel.Proofs.Shape
import GgrsModel.Proofs.Session
import GgrsModel.Proofs.Lockstep
import GgrsModel.Proofs.DelayStep
import GgrsModel.Proofs.LockstepNet
import GgrsModel.Proofs.EntryPoint
import GgrsModel.Proofs.DropWorld
import GgrsModel.Proofs.LockstepDrop

namespace Ggrs

/-- `omega` does not look through the `Frame` abbreviation; these carry the arithmetic. -/
theorem int_sub_lt (a b c : Int) (h : a - b < c) : a < b + c := by omega
theorem int_sub_le_swap (a m f : Int) (h : a - m ≤ f) : a - f ≤ m := by omega

theorem SyncLayer.synchronizedInputs_frame (pred : Predictor) (s s' : SyncLayer) (st : List ConnStatus)
    (ins : List (Input × InputStatus)) (h : s.synchronizedInputs pred st = .ok (s', ins)) :
    s'.currentFrame = s.currentFrame ∧ s'.lastConfirmedFrame = s.lastConfirmedFrame ∧ s'.maxPrediction = s.maxPrediction := by
  unfold SyncLayer.synchronizedInputs at h
  simp only [bind, Except.bind, pure, Except.pure] at h
  split at h
  · cases h
  · cases h; simp

namespace P2P

/-- **C04, window.** A rollback-mode session simulates a new frame only if fewer than
`max_prediction` frames separate the current frame from the last confirmed one (with nothing
confirmed yet: only if the current frame itself is below `max_prediction`); otherwise the call
leaves `current_frame()` and the request list as they were. -/
theorem C04_window (s s' : P2P) (reqs reqs' : List Request) (h : s.rollbackGate reqs = .ok (s', reqs')) :
    (s.framesAheadOfConfirmed < s.maxPrediction ∧ s'.sync.currentFrame = s.sync.currentFrame + 1 ∧
        ∃ inputs, reqs' = reqs ++ [.advance inputs]) ∨
    (¬ s.framesAheadOfConfirmed < s.maxPrediction ∧ s' = s ∧ reqs' = reqs) := by
  unfold rollbackGate at h
  by_cases hg : s.framesAheadOfConfirmed < (s.maxPrediction : Int)
  · left
    simp only [hg, if_true, bind, Except.bind, pure, Except.pure] at h
    cases hsi : s.sync.synchronizedInputs s.pred s.localConnectStatus with
    | error x => simp [hsi] at h
    | ok p =>
      obtain ⟨sync, inputs⟩ := p
      simp only [hsi] at h
      cases h
      have := SyncLayer.synchronizedInputs_frame _ _ _ _ _ hsi
      exact ⟨hg, by simp [SyncLayer.advanceFrame, this.1], inputs, rfl⟩
  · right
    simp only [hg, if_false, pure, Except.pure] at h
    cases h
    exact ⟨hg, rfl, rfl⟩

/-- In terms of frames: whenever a new frame `c` is simulated, `c < lastConfirmed + max_prediction`
(`c < max_prediction` while nothing is confirmed). -/
theorem C04_window_frames (s s' : P2P) (reqs reqs' : List Request) (h : s.rollbackGate reqs = .ok (s', reqs'))
    (hadv : s'.sync.currentFrame ≠ s.sync.currentFrame) :
    (s.sync.lastConfirmedFrame = NULL_FRAME → s.sync.currentFrame < s.maxPrediction) ∧
    (s.sync.lastConfirmedFrame ≠ NULL_FRAME → s.sync.currentFrame < s.sync.lastConfirmedFrame + s.maxPrediction) := by
  rcases C04_window s s' reqs reqs' h with ⟨hg, _, _⟩ | ⟨_, hs, _⟩
  · unfold framesAheadOfConfirmed at hg
    constructor
    · intro hn
      rw [if_pos (by simp [hn])] at hg
      exact hg
    · intro hn
      rw [if_neg (by simpa using hn)] at hg
      exact int_sub_lt _ _ _ hg
  · subst hs; exact absurd rfl hadv

end P2P

namespace SyncLayer

/-- **C04, load window.** Every LoadGameState request names a frame strictly before the current
frame and at most `max_prediction` frames back; anything else is the assertion (a panic). -/
theorem C04_load (s s' : SyncLayer) (f : Frame) (r : Request) (h : s.loadFrame f = .ok (s', r)) :
    r = .load f ∧ f < s.currentFrame ∧ s.currentFrame - f ≤ s.maxPrediction ∧ s'.currentFrame = f := by
  unfold loadFrame at h
  simp only [bind, Except.bind, ensure, pure, Except.pure] at h
  by_cases h1 : (f != NULL_FRAME) = true
  · simp only [h1, if_true] at h
    by_cases h2 : decide (f < s.currentFrame) = true
    · simp only [h2, if_true] at h
      by_cases h3 : decide (f ≥ s.currentFrame - (s.maxPrediction : Int)) = true
      · simp only [h3, if_true] at h
        unfold cellPos at h
        simp only [bind, Except.bind, ensure, pure, Except.pure] at h
        by_cases h4 : decide (f ≥ 0) = true
        · simp only [h4, if_true] at h
          split at h
          · cases h
          · cases h
            simp at h2 h3
            exact ⟨rfl, h2, int_sub_le_swap _ _ _ h3, rfl⟩
        · simp only [h4, Bool.false_eq_true, if_false] at h; cases h
      · simp only [h3, Bool.false_eq_true, if_false] at h; cases h
    · simp only [h2, Bool.false_eq_true, if_false] at h; cases h
  · simp only [h1, Bool.false_eq_true, if_false] at h; cases h

end SyncLayer
end Ggrs

namespace Ggrs
namespace P2P

theorem mapM_all {α β} (f : α → M β) (P : β → Prop) (hf : ∀ a b, f a = .ok b → P b) :
    ∀ (l : List α) (l' : List β), l.mapM f = .ok l' → ∀ b ∈ l', P b := by
  intro l
  induction l with
  | nil =>
    intro l' h
    simp only [List.mapM_nil] at h
    have := pure_ok h; subst this
    intro b hb; cases hb
  | cons a rest ih =>
    intro l' h
    simp only [List.mapM_cons] at h
    obtain ⟨b, hb, h⟩ := bind_ok h
    obtain ⟨bs, hbs, h⟩ := bind_ok h
    have := pure_ok h; subst this
    intro x hx
    rcases List.mem_cons.mp hx with rfl | hin
    · exact hf a _ hb
    · exact ih bs hbs x hin

/-- **C04, lockstep.** With a prediction window of 0 a call's `advance_lockstep_frame` never issues
SaveGameState or LoadGameState: it appends nothing — and then `current_frame()` is unchanged — or
exactly one AdvanceFrame whose inputs are all Confirmed or Disconnected, never Predicted, and the
frame moves on by one. -/
theorem C04_lockstep (s s' : P2P) (now : Nat) (reqs reqs' : List Request)
    (h : s.advanceLockstepFrame now reqs = .ok (s', reqs')) :
    (reqs' = reqs ∧ s'.sync.currentFrame = s.sync.currentFrame) ∨
    (∃ inputs, reqs' = reqs ++ [.advance inputs] ∧ s'.sync.currentFrame = s.sync.currentFrame + 1 ∧
      ∀ i ∈ inputs, i.2 = .confirmed ∨ i.2 = .disconnected) := by
  unfold advanceLockstepFrame at h
  obtain ⟨s1, hreg, h⟩ := bind_ok h
  obtain ⟨c1, _, h⟩ := bind_ok h
  obtain ⟨r2, hstep, h⟩ := bind_ok h
  obtain ⟨s2, reqs2⟩ := r2
  simp only at h
  obtain ⟨c2, _, h⟩ := bind_ok h
  obtain ⟨s3, hspec, h⟩ := bind_ok h
  obtain ⟨sy4, hset, h⟩ := bind_ok h
  have := pure_ok h
  simp only [Prod.mk.injEq] at this
  obtain ⟨hs', hr'⟩ := this
  have hk1 := registerLocalInputs_cells s s1 now hreg
  have hc3 := sendConfirmed_sameCore _ _ _ _ hspec
  obtain ⟨_, hcur4⟩ := setLastConfirmed_cells _ _ _ _ hset
  have hfin : s'.sync.currentFrame = s2.sync.currentFrame := by
    rw [← hs']; show sy4.currentFrame = _; rw [hcur4, hc3.sync]
  unfold lockstepAdvance at hstep
  split at hstep
  · obtain ⟨cis, _, hstep⟩ := bind_ok hstep
    obtain ⟨inputs, hmap, hstep⟩ := bind_ok hstep
    have := pure_ok hstep
    simp only [Prod.mk.injEq] at this
    obtain ⟨hs2, hr2⟩ := this
    right
    refine ⟨inputs, by rw [← hr', ← hr2], ?_, ?_⟩
    · rw [hfin, ← hs2]; show s1.sync.currentFrame + 1 = _; rw [hk1.2.1]
    · apply mapM_all (s1.lockstepInput s1.sync.currentFrame) (fun b => b.2 = .confirmed ∨ b.2 = .disconnected) ?_ _ _ hmap
      intro a b hab
      unfold lockstepInput at hab
      obtain ⟨_, hab⟩ := ensure_bind_ok hab
      have := pure_ok hab
      rw [← this]
      simp only
      split
      · exact Or.inr rfl
      · exact Or.inl rfl
  · have := pure_ok hstep
    simp only [Prod.mk.injEq] at this
    obtain ⟨hs2, hr2⟩ := this
    left
    exact ⟨by rw [← hr', ← hr2], by rw [hfin, ← hs2, hk1.2.1]⟩

end P2P
end Ggrs

namespace Ggrs

/-- **C04, the window for every schedule (no disconnected players).** After any interleaving of
remote-input arrivals and rollback-mode `advance_frame` calls, a call that simulates a new frame
`c` leaves every player's stream `vals_p` with `c - (|vals_p| - 1) ≤ max_prediction`: the new
frame lies at most `max_prediction` frames beyond the newest frame for which the session holds
every player's real input. (Per call, all states: `C04_window`, `C04_load`, `C04_lockstep`.) -/
theorem C04_window_all (x y : P2P × TLState) (h0 : ∃ gh, SessInv x.1 gh x.2 []) (hrun : SStar x y)
    (now : Nat) (s' : P2P) (reqs' : List Request) (hadv : y.1.advanceRollbackFrame now [] = .ok (s', reqs'))
    (hnew : s'.sync.currentFrame ≠ y.1.sync.currentFrame) :
    ∃ gh', SessInv s' gh' y.2 reqs' ∧ ∀ p, p < y.1.sync.queues.length →
      y.1.sync.currentFrame - ((gh'.specs p).vals.length - 1 : Int) ≤ y.1.maxPrediction := by
  obtain ⟨gh, h⟩ := SessInv_run x y h0 hrun
  exact window_all y.1 s' gh y.2 [] reqs' now h hadv hnew

end Ggrs

namespace Ggrs

/-- **C04, lockstep never speculates — every schedule (no disconnected players).** Start from any
state satisfying the lockstep invariant (a freshly built session does: `LkInv_init`) and run ANY
interleaving of remote-input arrivals and `advance_lockstep_frame` calls, the game executing every
request list. Then (1) every row of the game's timeline below the current frame is the full row
of every player's real input, each with status Confirmed — nothing was ever predicted; and (2) one
more call returns either no request at all (a player's input for the current frame is missing:
the frame is not consumed) or exactly one AdvanceFrame carrying the full row of real, Confirmed
inputs of the current frame — never a SaveGameState, never a LoadGameState, so nothing is ever
re-simulated. -/
theorem C04_lockstep_all (x y : P2P × TLState) (h0 : ∃ gh, LkInv x.1 gh x.2) (hrun : LkStar x y) :
    ∃ gh, LkInv y.1 gh y.2 ∧
      (∀ f : Nat, (f : Int) < y.1.sync.currentFrame → y.2.R f = rowOf gh y.1.sync.queues.length f) ∧
      ∀ (now : Nat) (s' : P2P) (reqs' : List Request), y.1.advanceLockstepFrame now [] = .ok (s', reqs') →
        ∃ gh', LkInv s' gh' (execReqs y.2 reqs') ∧
          ((reqs' = [] ∧ s'.sync.currentFrame = y.1.sync.currentFrame) ∨
           (∃ c : Nat, y.1.sync.currentFrame = (c : Int) ∧
             reqs' = [.advance (rowOf gh' y.1.sync.queues.length c)] ∧
             s'.sync.currentFrame = y.1.sync.currentFrame + 1)) := by
  obtain ⟨gh, h⟩ := LkInv_run x y h0 hrun
  refine ⟨gh, h, h.timeline, ?_⟩
  intro now s' reqs' hadv
  obtain ⟨gh', h', hcase, _⟩ := lockstepTick_spec y.1 s' gh y.2 now reqs' h hadv
  exact ⟨gh', h', hcase⟩

/-- The hypotheses are met by a freshly built session. -/
example (s : P2P) (R : Nat → List (Input × InputStatus)) (n : Nat)
    (hq : s.sync.queues = List.replicate n InputQueue.new) (hst : s.localConnectStatus = List.replicate n {})
    (hc : s.sync.currentFrame = 0) : ∃ gh, LkInv s gh ⟨0, R⟩ := ⟨_, LkInv_init s R n hq hst hc⟩

end Ggrs

namespace Ggrs

/-- `C04_window_all` for runs that also contain `set_input_delay` calls. -/
theorem C04_window_delay (x y : P2P × TLState) (h0 : HInv x) (hrun : DStar x y)
    (now : Nat) (s' : P2P) (reqs' : List Request) (hadv : y.1.advanceRollbackFrame now [] = .ok (s', reqs'))
    (hnew : s'.sync.currentFrame ≠ y.1.sync.currentFrame) :
    ∃ gh', SessInv s' gh' y.2 reqs' ∧ ∀ p, p < y.1.sync.queues.length →
      y.1.sync.currentFrame - ((gh'.specs p).vals.length - 1 : Int) ≤ y.1.maxPrediction := by
  obtain ⟨⟨gh, h, _⟩, _⟩ := HInv_run x y h0 hrun
  exact window_all y.1 s' gh y.2 [] reqs' now h hadv hnew

end Ggrs

namespace Ggrs

/-- `C04_lockstep_all` for runs that also contain `set_input_delay` calls of local players: still
nothing is ever predicted, saved, loaded or re-simulated, and every row is the full row of real,
Confirmed inputs (with the delays in force when they were submitted). -/
theorem C04_lockstep_delay (x y : P2P × TLState) (h0 : LkNetInv x) (hrun : DLkStar x y) :
    ∃ gh, LkInv y.1 gh y.2 ∧
      (∀ f : Nat, (f : Int) < y.1.sync.currentFrame → y.2.R f = rowOf gh y.1.sync.queues.length f) ∧
      ∀ (now : Nat) (s' : P2P) (reqs' : List Request), y.1.advanceLockstepFrame now [] = .ok (s', reqs') →
        ∃ gh', LkInv s' gh' (execReqs y.2 reqs') ∧
          ((reqs' = [] ∧ s'.sync.currentFrame = y.1.sync.currentFrame) ∨
           (∃ c : Nat, y.1.sync.currentFrame = (c : Int) ∧
             reqs' = [.advance (rowOf gh' y.1.sync.queues.length c)] ∧
             s'.sync.currentFrame = y.1.sync.currentFrame + 1)) := by
  obtain ⟨⟨gh, h, _⟩, _⟩ := LkNetInv_drun x y h0 hrun
  refine ⟨gh, h, h.timeline, ?_⟩
  intro now s' reqs' hadv
  obtain ⟨gh', h', hcase, _⟩ := lockstepTick_spec y.1 s' gh y.2 now reqs' h hadv
  exact ⟨gh', h', hcase⟩

/-- **C04 at the real entry point (lockstep).** After any run of lockstep calls, `set_input_delay`
calls and arrivals, a successful call of `advance_frame_core` itself (desync bookkeeping, disconnect
bookkeeping, `advance_lockstep_frame`, wait recommendation) made while no running endpoint reports a
disconnected player returns nothing or exactly one AdvanceFrame — never a save or a load — and the
lockstep invariants hold again with the game's timeline having executed it. -/
theorem C04_entry_point_lockstep (x y : P2P × TLState) (h0 : LkNetInv x) (hrun : DLkStar x y)
    (now : Nat) (s' : P2P) (reqs' : List Request)
    (hmp : (y.1.maxPrediction == 0) = true)
    (hng : ∀ s1, y.1.desyncPhase now = .ok s1 → NoGossip s1)
    (hcall : y.1.advanceFrameCore now = .ok (s', .ok reqs')) :
    LkNetInv (s', execReqs y.2 reqs') ∧ (reqs' = [] ∨ ∃ ins, reqs' = [.advance ins]) :=
  lockstep_call y.1 s' y.2 now reqs' (LkNetInv_drun x y h0 hrun) hmp hng hcall

/-- **C04, the window with dropped players (rollback sessions, either saving mode; drops detected locally).**
After any run of arrivals, calls, accepted `disconnect_player` calls and Disconnected events, a
call that simulates a new frame `c` leaves the stream of every player that is still connected with
`c - (|vals_p| - 1) ≤ max_prediction`: the session never runs more than `max_prediction` frames
beyond the newest frame for which it holds the real input of everybody who is still there (a
dropped player no longer holds the session back, and no longer counts). -/
theorem C04_window_drops (x y : P2P × TLState) (h0 : XInv x) (hrun : XStar x y)
    (now : Nat) (s' : P2P) (reqs' : List Request) (hadv : y.1.advanceRollbackFrame now [] = .ok (s', reqs'))
    (hnew : s'.sync.currentFrame ≠ y.1.sync.currentFrame) :
    ∃ gh', SessInvD s' gh' y.2 reqs' s'.localConnectStatus ∧ ∀ p, p < y.1.sync.queues.length →
      (rget y.1.localConnectStatus p).disconnected = false →
      y.1.sync.currentFrame - ((gh'.specs p).vals.length - 1 : Int) ≤ y.1.maxPrediction := by
  obtain ⟨gh, st0, h⟩ := XInv_run x y h0 hrun
  exact window_allD y.1 s' gh y.2 [] reqs' now st0 h hadv hnew

/-- **C04, lockstep never speculates — with dropped players.** After any run of arrivals, lockstep
calls, accepted `disconnect_player` calls and Disconnected events, a lockstep call returns no
request or exactly one AdvanceFrame whose row holds, per player, the real input with status
Confirmed or (for a player marked disconnected as of an earlier frame) the blank input with
status Disconnected: nothing is predicted, saved, loaded or re-simulated, drops included. -/
theorem C04_lockstep_drops (x y : P2P × TLState) (h0 : ∃ gh, LkInvD x.1 gh x.2) (hrun : LkXStar x y)
    (now : Nat) (s' : P2P) (reqs' : List Request) (hadv : y.1.advanceLockstepFrame now [] = .ok (s', reqs')) :
    ∃ gh', LkInvD s' gh' (execReqs y.2 reqs') ∧
      ((reqs' = [] ∧ s'.sync.currentFrame = y.1.sync.currentFrame) ∨
       (∃ c : Nat, y.1.sync.currentFrame = (c : Int) ∧
         reqs' = [.advance (rowOfD gh' y.1.localConnectStatus y.1.sync.queues.length c)] ∧
         s'.sync.currentFrame = y.1.sync.currentFrame + 1)) := by
  obtain ⟨gh, h⟩ := LkInvD_run x y h0 hrun
  obtain ⟨gh', h', hcase, _⟩ := lockstepTick_specD y.1 s' gh y.2 now reqs' h hadv
  exact ⟨gh', h', hcase⟩

end Ggrs

namespace Ggrs

/-- **Non-vacuity of the lockstep world.** A freshly built lockstep session (prediction window 0)
satisfies the lockstep invariant, and the world `LkStar` contains the run it is meant for: the user
submits an input and calls `advance_frame`, which STALLS (empty request list, frame unchanged)
because the remote input is missing; the remote input arrives; the next call simulates frame 0 on
the full row of real inputs, both Confirmed. -/
theorem C04_lockstep_nonvacuous :
    (∃ gh, LkInv demoLk gh ⟨0, fun _ => []⟩) ∧ (∃ t', LkStar (demoLk, ⟨0, fun _ => []⟩) (demoLk2, t')) ∧
    (getOk (lkTick demoLk 5)).2 = [] ∧ demoLk1.sync.currentFrame = 0 ∧
    (getOk (lkTick demoLk1r 5)).2 = [.advance [(5, .confirmed), (9, .confirmed)]] ∧ demoLk2.sync.currentFrame = 1 :=
  ⟨⟨_, LkInv_init demoLk (fun _ => []) 2 rfl rfl rfl⟩, demo_lockstep_run _, demo_lk_facts⟩

end Ggrs

namespace Ggrs

/-- **C04/C01 in lockstep across two peers.** Two lockstep sessions (prediction window 0) side by side
(`Proofs/PairLockstep.lean`): either user submits local inputs, either session calls
`advance_frame` (its game executing the requests), and the next frame of a player of the other peer
arrives, read off the owner's queue. After ANY such run every frame both games have simulated
carries, for every player owned by one of the two sessions, the SAME input in both timelines: a
lockstep session only simulates a frame once everybody's real input for it is there, so nothing is
ever predicted, nothing re-simulated, and the two timelines coincide outright (with
`C01_lockstep_replay`: the two games are in the same state at every frame both have reached). -/
theorem C04_lockstep_agree_two_peers (x y : (P2P × TLState) × (P2P × TLState)) (h0 : LkPPInv x) (hrun : LkPStar x y) :
    ∀ p, ((p ∈ y.1.1.localPlayerHandles ∧ p ∉ y.2.1.localPlayerHandles) ∨
          (p ∈ y.2.1.localPlayerHandles ∧ p ∉ y.1.1.localPlayerHandles)) →
      p < y.1.1.sync.queues.length → p < y.2.1.sync.queues.length → ∀ f : Nat,
      (f : Int) < y.1.1.sync.currentFrame → (f : Int) < y.2.1.sync.currentFrame →
      ((y.1.2.R f).getD p default).1 = ((y.2.2.R f).getD p default).1 :=
  lkpair_agree x y h0 hrun

/-- Two freshly built lockstep sessions satisfy the invariant of the lockstep pair. -/
theorem C04_lockstep_pair_init (a b : P2P) (RA RB : Nat → List (Input × InputStatus)) (n : Nat)
    (hqa : a.sync.queues = List.replicate n InputQueue.new) (hsta : a.localConnectStatus = List.replicate n {})
    (hca : a.sync.currentFrame = 0) (hoa : a.outgoingLocalInputs = []) (hna : a.nextSpectatorFrame = 0)
    (hqb : b.sync.queues = List.replicate n InputQueue.new) (hstb : b.localConnectStatus = List.replicate n {})
    (hcb : b.sync.currentFrame = 0) (hob : b.outgoingLocalInputs = []) (hnb : b.nextSpectatorFrame = 0) :
    LkPPInv ((a, ⟨0, RA⟩), (b, ⟨0, RB⟩)) := by
  refine ⟨_, _, LkInv_init a RA n hqa hsta hca, GlueInv_init a _ n (fun _ => rfl) hoa hsta (by rw [hqa]; simp), ?_,
    LkInv_init b RB n hqb hstb hcb, GlueInv_init b _ n (fun _ => rfl) hob hstb (by rw [hqb]; simp), ?_, ?_, ?_⟩
  · show 0 ≤ a.nextSpectatorFrame; rw [hna]; exact Int.le_refl _
  · show 0 ≤ b.nextSpectatorFrame; rw [hnb]; exact Int.le_refl _
  · intro p _ _; exact PrefixOf.refl _
  · intro p _ _; exact PrefixOf.refl _

end Ggrs

namespace Ggrs

/-- **Non-vacuity of the lockstep pair.** Two freshly built lockstep sessions satisfy the invariant;
both users submit inputs, both calls stall, B's frame 0 — read off B's queue, where the stalled
call has put it — arrives at A, and A's next call simulates frame 0 on the full confirmed row. -/
theorem C04_lockstep_pair_nonvacuous :
    LkPPInv ((demoLk, ⟨0, fun _ => []⟩), (demoLkPeer, ⟨0, fun _ => []⟩)) ∧
    (∃ tA' tB', LkPStar ((demoLk, ⟨0, fun _ => []⟩), (demoLkPeer, ⟨0, fun _ => []⟩)) ((demoLk2, tA'), (demoLkB1, tB'))) ∧
    demoLk2.sync.currentFrame = 1 :=
  ⟨C04_lockstep_pair_init demoLk demoLkPeer _ _ 2 rfl rfl rfl rfl rfl rfl rfl rfl rfl rfl, demo_lkpair_run _ _, demo_lk_facts.2.2.2⟩

end Ggrs

