/-
C11 — Changing input delay at run time keeps all peers in agreement (the queue level), and the
ring refinement that C01 and C03 rest on.

`QSpec` (Proofs/Queue.lean) is the specification of a player's input stream as an unbounded list:
sequential submissions, shifted by the delay; an increase repeats the last value over the frames
it opens up in front of the next submission; after a decrease later submissions are dropped until
the stream has caught up; frames before the first input carry the default input. The theorems say
that the 128-slot ring of `InputQueue` implements exactly that stream for EVERY interleaving of
`add_input`, `set_frame_delay` and `discard_confirmed_frames`, with no bound on the number of
operations (the ring wraps arbitrarily often), that `add_input` reports the frame the
specification assigns, and that the fill inputs `set_frame_delay` reports — the ones the session
forwards to remote peers — are exactly the entries the queue itself stores: owner and remotes see
the same stream. `C11_owner_sends_queue` (Proofs/Glue.lean) is the session-level half for runs without
delay changes: whatever `register_local_inputs` hands to the remote endpoints is the owners' own
queue content, frame after frame.
-/
import GgrsModel.Model.Inventory
import GgrsModel.Model.Sites.InputQueue
import GgrsModel.Model.Sites.SyncLayer
import GgrsModel.Model.Sites.P2pSession
import GgrsModel.Proofs.Pair
import GgrsModel.Proofs.Triple
import GgrsModel.Proofs.Queue
import GgrsModel.Proofs.DelayStep
import GgrsModel.Proofs.GlueDrop
import GgrsModel.Proofs.DelayDrop

namespace Ggrs

inductive QOp where
  | add (userFrame : Int) (v : Input)
  | setDelay (d : Nat)
  | discard (frame : Frame)

/-- `add_input` refines `QSpec.submit`. -/
theorem C11_queue_add (q q' : InputQueue) (s : QSpec) (uf : Int) (v : Input) (fr : Frame)
    (h : Refines q s) (hadd : q.addInput ⟨uf, v⟩ = .ok (q', fr)) :
    Refines q' (s.submit uf v).1 ∧ fr = (s.submit uf v).2 := by
  unfold InputQueue.addInput at hadd
  unfold QSpec.submit
  simp only at hadd
  have hlu : q.lastUserFrame = s.lastUser := h.lastUser
  by_cases hdrop : (q.lastUserFrame != NULL_FRAME && uf != q.lastUserFrame + 1) = true
  · -- not sequential: dropped on both sides
    simp only [hdrop, if_true] at hadd
    have := pure_ok hadd
    simp only [Prod.mk.injEq] at this
    have hd' : (s.lastUser != -1 && uf != s.lastUser + 1) = true := by rw [← hlu]; exact hdrop
    simp only [hd', if_true]
    exact ⟨by rw [← this.1]; exact h, this.2.symm⟩
  · have hd' : (s.lastUser != -1 && uf != s.lastUser + 1) = false := by
      rw [← hlu]; exact Bool.eq_false_iff.mpr hdrop
    simp only [hdrop, Bool.false_eq_true, if_false, hd'] at hadd ⊢
    obtain ⟨p, hadv, hadd⟩ := bind_ok hadd
    obtain ⟨q2, newFrame⟩ := p
    simp only at hadd
    -- the queue with the user frame recorded refines the spec with the user frame recorded
    have h1 : Refines { q with lastUserFrame := uf } { s with lastUser := uf } :=
      ⟨h.len, h.head, h.first, h.lastAdded, rfl, h.delay, h.noPrediction, h.slots, h.empty⟩
    unfold InputQueue.advanceQueueHead at hadv
    simp only at hadv
    have hps := prev_slot _ _ h1
    -- expected frame = length of the stream
    have hexp : (if ({ q with lastUserFrame := uf } : InputQueue).firstFrame then (0 : Frame)
        else (rget q.inputs (InputQueue.prevPos q.head)).frame + 1) = (s.vals.length : Int) := by
      by_cases hn : s.vals.length = 0
      · have : q.firstFrame = true := by rw [h.first]; simp [hn]
        simp [this, hn]
      · have : q.firstFrame = false := by rw [h.first]; simpa using hn
        simp only [this, Bool.false_eq_true, if_false]
        have := hps.2 (Nat.pos_of_ne_zero hn)
        simp only at this
        rw [this]; exact Int.sub_add_cancel _ _
    rw [hexp] at hadv
    have hdl : q.frameDelay = s.delay := h.delay
    by_cases hpast : (s.vals.length : Int) > uf + (q.frameDelay : Int)
    · -- the stream is already past the landing frame: dropped
      simp only [hpast, if_true] at hadv
      have := pure_ok hadv
      simp only [Prod.mk.injEq] at this
      obtain ⟨hq2, hnf⟩ := this
      subst hq2; subst hnf
      simp only [bne_self_eq_false, Bool.false_eq_true, if_false] at hadd
      have := pure_ok hadd
      simp only [Prod.mk.injEq] at this
      have hp' : (s.vals.length : Int) > uf + (s.delay : Int) := by rw [← hdl]; exact hpast
      simp only [hp', if_true]
      exact ⟨by rw [← this.1]; exact h1, this.2.symm⟩
    · simp only [hpast, if_false] at hadv
      obtain ⟨q3, hfill, hadv⟩ := bind_ok hadv
      obtain ⟨_, hadv⟩ := ensure_bind_ok hadv
      have := pure_ok hadv
      simp only [Prod.mk.injEq] at this
      obtain ⟨hq2, hnf⟩ := this
      subst hq2; subst hnf
      have hr3 := refines_fillLoop _ _ _ _ _ _ h1 rfl hfill
      -- the landing frame is not NULL
      have hp' : ¬ (s.vals.length : Int) > uf + (s.delay : Int) := by rw [← hdl]; exact hpast
      have hnn : (uf + (q.frameDelay : Int) != NULL_FRAME) = true := by
        have : uf + (q.frameDelay : Int) ≥ 0 := by omega
        simp [NULL_FRAME]; omega
      simp only [hnn, if_true] at hadd
      obtain ⟨q4, hadd4, hadd⟩ := bind_ok hadd
      have := pure_ok hadd
      simp only [Prod.mk.injEq] at this
      obtain ⟨hq', hfr⟩ := this
      subst hq'; subst hfr
      obtain ⟨_, hr4⟩ := refines_addByFrame _ _ _ ⟨uf, v⟩ _ hr3 hadd4
      simp only [hp', if_false]
      refine ⟨?_, by rw [hdl]⟩
      rw [hps.1] at hr4
      rw [hdl] at hr4
      simpa [List.append_assoc] using hr4

/-- `set_frame_delay` refines `QSpec.setDelay`, including the fill inputs it reports. -/
theorem C11_queue_set_delay (q q' : InputQueue) (s : QSpec) (d : Nat) (fills : List PlayerInput)
    (h : Refines q s) (hset : q.setFrameDelay d = .ok (q', fills)) :
    Refines q' (s.setDelay d).1 ∧ fills = (s.setDelay d).2 := by
  unfold InputQueue.setFrameDelay at hset
  unfold QSpec.setDelay
  simp only at hset
  have h1 : Refines { q with frameDelay := d } { s with delay := d } :=
    ⟨h.len, h.head, h.first, h.lastAdded, h.lastUser, rfl, h.noPrediction, h.slots, h.empty⟩
  by_cases hn : s.vals.length = 0
  · have hla : (q.lastAddedFrame == NULL_FRAME) = true := by rw [h.lastAdded, hn]; rfl
    simp only [hla, if_true] at hset
    have := pure_ok hset
    simp only [Prod.mk.injEq] at this
    simp only [hn, beq_self_eq_true, if_true]
    exact ⟨by rw [← this.1]; exact h1, this.2.symm⟩
  · have hla : (q.lastAddedFrame == NULL_FRAME) = false := by
      rw [h.lastAdded]
      have := int_pred_ne_neg_one _ hn
      simpa [NULL_FRAME] using this
    have hn' : (s.vals.length == 0) = false := by simpa using hn
    simp only [hla, Bool.false_eq_true, if_false] at hset
    simp only [hn', Bool.false_eq_true, if_false]
    obtain ⟨hr, hf⟩ := refines_delayFillLoop _ _ _ _ _ _ _ h1 hset
    have hps := prev_slot _ _ h1
    simp only at hps
    have hk : (q.lastUserFrame + 1 + (d : Int) - (q.lastAddedFrame + 1)).toNat
        = (s.lastUser + 1 + (d : Int) - (s.vals.length : Int)).toNat := by
      rw [h.lastUser, h.lastAdded]; congr 1; omega
    rw [hk, hps.1] at hr hf
    exact ⟨hr, by simpa using hf⟩

/-- `discard_confirmed_frames` only moves the tail: the stream is untouched. -/
theorem C11_queue_discard (q q' : InputQueue) (s : QSpec) (f : Frame)
    (h : Refines q s) (hd : q.discardConfirmedFrames f = .ok q') : Refines q' s := by
  unfold InputQueue.discardConfirmedFrames at hd
  simp only at hd
  generalize (if (q.lastRequestedFrame != NULL_FRAME) = true then min f q.lastRequestedFrame else f) = f' at hd
  have keep : ∀ (t l : Nat), Refines { q with tail := t, length := l } s := fun t l =>
    ⟨h.len, h.head, h.first, h.lastAdded, h.lastUser, h.delay, h.noPrediction, h.slots, h.empty⟩
  by_cases h1 : f' ≥ q.lastAddedFrame
  · simp only [h1, if_true] at hd
    cases hd; exact keep _ _
  · simp only [h1, if_false] at hd
    by_cases h2 : f' ≤ (rget q.inputs q.tail).frame
    · simp only [h2, if_true] at hd
      cases hd; exact h
    · simp only [h2, if_false] at hd
      by_cases h3 : (f' - (rget q.inputs q.tail).frame).toNat > q.length
      · simp only [h3, if_true] at hd; cases hd
      · simp only [h3, if_false] at hd
        cases hd; exact keep _ _

def specStep (s : QSpec) : QOp → QSpec
  | .add uf v => (s.submit uf v).1
  | .setDelay d => (s.setDelay d).1
  | .discard _ => s

def queueStep (q : InputQueue) : QOp → M InputQueue
  | .add uf v => do let (q', _) ← q.addInput ⟨uf, v⟩; pure q'
  | .setDelay d => do let (q', _) ← q.setFrameDelay d; pure q'
  | .discard f => q.discardConfirmedFrames f

/-- **C11, queue.** For every sequence of operations, of any length, that the queue executes
without hitting one of its assertions, the ring implements the specification stream. -/
theorem C11_queue : ∀ (ops : List QOp) (q q' : InputQueue) (s : QSpec),
    Refines q s → ops.foldlM queueStep q = .ok q' → Refines q' (ops.foldl specStep s) := by
  intro ops
  induction ops with
  | nil => intro q q' s h hr; simp [pure, Except.pure] at hr; subst hr; exact h
  | cons op rest ih =>
    intro q q' s h hr
    simp only [List.foldlM_cons, List.foldl_cons] at hr ⊢
    obtain ⟨q1, h1, hr⟩ := bind_ok hr
    apply ih q1 q' _ _ hr
    cases op with
    | add uf v =>
      simp only [queueStep] at h1
      obtain ⟨p, hp, h1⟩ := bind_ok h1
      have := pure_ok h1
      subst this
      exact (C11_queue_add q p.1 s uf v p.2 h hp).1
    | setDelay d =>
      simp only [queueStep] at h1
      obtain ⟨p, hp, h1⟩ := bind_ok h1
      have := pure_ok h1
      subst this
      exact (C11_queue_set_delay q p.1 s d p.2 h hp).1
    | discard f => exact C11_queue_discard q q1 s f h h1

/-- What the ring holds for a frame still inside its window is the specification's value: this is
what `confirmed_input` and the confirmed branch of `input` read. -/
theorem C11_ring_value (q : InputQueue) (s : QSpec) (h : Refines q s) (k : Nat)
    (hk : k < s.vals.length) (hw : s.vals.length ≤ k + INPUT_QUEUE_LENGTH) :
    q.confirmedInput (k : Int) = .ok ⟨(k : Int), s.vals.getD k 0⟩ := by
  unfold InputQueue.confirmedInput
  have hidx : frameIdx (k : Int) INPUT_QUEUE_LENGTH = k % INPUT_QUEUE_LENGTH := by
    simp [frameIdx, usizeOfFrame]
  simp only [hidx, h.slots k hk hw, beq_self_eq_true, if_true]

/-! Non-vacuity: the empty queue refines the empty stream, and a concrete delay script. -/
example : Refines InputQueue.new {} := refines_new
example : ((({} : QSpec).submit 0 7).1.setDelay 2).2 = [⟨1, 7⟩, ⟨2, 7⟩] := by decide

end Ggrs

namespace Ggrs

/-- **C11/C05, the owner's side (rollback mode, no disconnected players, configured delays).** After
ANY interleaving of remote-input arrivals and `advance_frame` calls, one more call hands its remote
endpoints (`Sends`: one `send_input` + `send_all_messages` per endpoint and frame) only frames taken
from the outgoing queue, each — once something has been sent — the frame right after the last one
sent and complete for every local player, and each entry is exactly the input the named local
player's own queue holds for that frame (`gh2.specs`: the streams after this call's submissions,
which extend the streams before it) — the blank frames in front of a delayed first input
included. So the stream a remote peer is sent is the owner's queue, frame by frame. -/
theorem C11_owner_sends_queue (x y : P2P × TLState) (h0 : ∃ gh, SessInv x.1 gh x.2 [] ∧ GlueInv x.1 gh)
    (hrun : SStar x y) (now : Nat) (s' : P2P) (reqs' : List Request)
    (hadv : y.1.advanceRollbackFrame now [] = .ok (s', reqs')) :
    ∃ (gh gh2 gh' : Ghost) (sA sB : P2P), SessInv y.1 gh y.2 [] ∧ SessInv s' gh' y.2 reqs' ∧ gh'.specs = gh2.specs ∧
      (∀ p, PrefixOf (gh.specs p).vals (gh2.specs p).vals) ∧
      sA.lastSentOutgoingInputFrame = y.1.lastSentOutgoingInputFrame ∧ Sends gh2 now sA sB ∧
      s'.lastSentOutgoingInputFrame = sB.lastSentOutgoingInputFrame := by
  obtain ⟨gh, hy, hgy⟩ := GlueInv_run x y h0 hrun
  obtain ⟨gh2, gh', sA, sB, hinv', _, hsp, hpre, hlA, hs, hlB⟩ := rollbackTick_glue y.1 s' gh y.2 [] reqs' now hy hgy hadv
  exact ⟨gh, gh2, gh', sA, sB, hy, hinv', hsp, hpre, hlA, hs, hlB⟩

end Ggrs

namespace Ggrs

/-- **C11, delay changes at run time, session level (rollback mode, no disconnected players).** Start
from a state with the session and glue invariants (a freshly built session has them:
`SessInv_init`, `GlueInv_init`) and run ANY interleaving of remote-input arrivals, `advance_frame`
calls AND `set_input_delay` calls for local players, with any delays. Then the invariants still
hold — every queue's ring implements the stream the specification prescribes (`QSpec.setDelay`: an
increase repeats the last value over the frames it opens, after a decrease submissions are dropped
until the stream has caught up), a local player's status names the newest frame its queue holds,
the outgoing queue holds queue contents only (the fills of every increase included) — and one more
call hands its remote endpoints only consecutive, complete frames carrying exactly the local
players' queue inputs. Owner and remotes see the same stream, whatever the delay history. -/
theorem C11_delay_changes (x y : P2P × TLState) (h0 : HInv x) (hrun : DStar x y) (now : Nat) (s' : P2P)
    (reqs' : List Request) (hadv : y.1.advanceRollbackFrame now [] = .ok (s', reqs')) :
    ∃ (gh gh2 gh' : Ghost) (sA sB : P2P), SessInv y.1 gh y.2 [] ∧ GlueInv y.1 gh ∧ SessInv s' gh' y.2 reqs' ∧
      GlueInv s' gh' ∧ gh'.specs = gh2.specs ∧ (∀ p, PrefixOf (gh.specs p).vals (gh2.specs p).vals) ∧
      sA.lastSentOutgoingInputFrame = y.1.lastSentOutgoingInputFrame ∧ Sends gh2 now sA sB ∧
      s'.lastSentOutgoingInputFrame = sB.lastSentOutgoingInputFrame := by
  obtain ⟨⟨gh, hy, hgy⟩, _⟩ := HInv_run x y h0 hrun
  obtain ⟨gh2, gh', sA, sB, hinv', hg', hsp, hpre, hlA, hs, hlB⟩ := rollbackTick_glue y.1 s' gh y.2 [] reqs' now hy hgy hadv
  exact ⟨gh, gh2, gh', sA, sB, hy, hgy, hinv', hg', hsp, hpre, hlA, hs, hlB⟩

end Ggrs

namespace Ggrs

/-- The hypotheses of `C11_delay_changes` are met by a freshly built session. -/
example (s : P2P) (R : Nat → List (Input × InputStatus)) (n : Nat)
    (hq : s.sync.queues = List.replicate n InputQueue.new) (hst : s.localConnectStatus = List.replicate n {})
    (hc : s.sync.currentFrame = 0) (ho : s.outgoingLocalInputs = []) (hn : s.nextSpectatorFrame = 0) :
    HInv (s, ⟨0, R⟩) :=
  ⟨⟨_, SessInv_init s R n hq hst hc, GlueInv_init s _ n (fun _ => rfl) ho hst (by rw [hq]; simp)⟩,
   by show 0 ≤ s.nextSpectatorFrame; rw [hn]; exact Int.le_refl _⟩

end Ggrs

namespace Ggrs

/-- **C11/C05, the owner's side with dropped players (rollback mode, either saving mode, drops detected
locally).** After ANY run of remote-input arrivals, `advance_frame` calls, accepted
`disconnect_player` calls and Disconnected events, one more call hands its remote endpoints only
frames taken from the outgoing queue, each — once something has been sent — the frame right after
the last one sent and complete for every local player, and each entry is exactly the input the
named local player's own queue holds for that frame: whoever has dropped, the stream the
remaining peers are sent is still the owner's queue, frame by frame. -/
theorem C11_owner_sends_queue_drops (x y : P2P × TLState) (h0 : XGInv x) (hrun : XStar x y)
    (now : Nat) (s' : P2P) (reqs' : List Request)
    (hadv : y.1.advanceRollbackFrame now [] = .ok (s', reqs')) :
    ∃ (gh gh2 gh' : DGhost) (st0 : List ConnStatus) (sA sB : P2P), SessInvD y.1 gh y.2 [] st0 ∧
      SessInvD s' gh' y.2 reqs' s'.localConnectStatus ∧ gh'.specs = gh2.specs ∧
      (∀ p, PrefixOf (gh.specs p).vals (gh2.specs p).vals) ∧
      sA.lastSentOutgoingInputFrame = y.1.lastSentOutgoingInputFrame ∧ Sends gh2.g now sA sB ∧
      s'.lastSentOutgoingInputFrame = sB.lastSentOutgoingInputFrame := by
  obtain ⟨gh, st0, hy, hgy⟩ := XGInv_run x y h0 hrun
  obtain ⟨gh2, gh', sA, sB, hinv', _, hsp, hpre, hlA, hs, hlB⟩ := rollbackTick_glueD y.1 s' gh y.2 [] reqs' now st0 hy hgy hadv
  exact ⟨gh, gh2, gh', st0, sA, sB, hy, hinv', hsp, hpre, hlA, hs, hlB⟩

/-- The premises are satisfiable: every state of the old world (session and glue invariants) with no
disconnect scheduled. -/
example (s : P2P) (gh : Ghost) (t : TLState) (h : SessInv s gh t []) (hg : GlueInv s gh)
    (hdf : s.disconnectFrame = NULL_FRAME) : XGInv (s, t) :=
  ⟨_, _, SessInvD_of_SessInv s gh t [] h hdf, hg⟩

end Ggrs

namespace Ggrs

/-- **C11, delay changes at run time — in the largest world.** Start from a state with the session
invariant with drops, the glue invariant and a non-negative spectator cursor (every such state of
the earlier worlds qualifies, below) and run ANY interleaving of remote-input arrivals,
`advance_frame` calls, `set_input_delay` calls for local players with any delays, accepted
`disconnect_player` calls and Disconnected events. Then the invariants still hold — every live
queue's ring implements the stream the specification prescribes, a local player's status names the
newest frame its queue holds, the outgoing queue holds queue contents only — and one more call hands
the remote endpoints only frames taken from the outgoing queue, consecutive and complete for the
local players, each entry the input the owner's queue holds for that frame. -/
theorem C11_delay_changes_drops (x y : P2P × TLState) (h0 : YInv x) (hrun : YStar x y)
    (now : Nat) (s' : P2P) (reqs' : List Request)
    (hadv : y.1.advanceRollbackFrame now [] = .ok (s', reqs')) :
    ∃ (gh gh2 gh' : DGhost) (st0 : List ConnStatus) (sA sB : P2P), SessInvD y.1 gh y.2 [] st0 ∧ GlueInv y.1 gh.g ∧
      SessInvD s' gh' y.2 reqs' s'.localConnectStatus ∧ GlueInv s' gh'.g ∧ gh'.specs = gh2.specs ∧
      (∀ p, PrefixOf (gh.specs p).vals (gh2.specs p).vals) ∧
      sA.lastSentOutgoingInputFrame = y.1.lastSentOutgoingInputFrame ∧ Sends gh2.g now sA sB ∧
      s'.lastSentOutgoingInputFrame = sB.lastSentOutgoingInputFrame := by
  obtain ⟨⟨gh, st0, hy, hgy⟩, _⟩ := YInv_run x y h0 hrun
  obtain ⟨gh2, gh', sA, sB, hinv', hg', hsp, hpre, hlA, hs, hlB⟩ := rollbackTick_glueD y.1 s' gh y.2 [] reqs' now st0 hy hgy hadv
  exact ⟨gh, gh2, gh', st0, sA, sB, hy, hgy, hinv', hg', hsp, hpre, hlA, hs, hlB⟩

/-- Every state of the world with delay changes and no drops (`HInv`) with no disconnect scheduled
satisfies the premises; so every `DStar` run from it is covered (`YStar_of_DStar`). -/
example (x : P2P × TLState) (h : HInv x) (hdf : x.1.disconnectFrame = NULL_FRAME) : YInv x := by
  obtain ⟨⟨gh, hs, hg⟩, hn⟩ := h
  exact ⟨⟨_, _, SessInvD_of_SessInv x.1 gh x.2 [] hs hdf, hg⟩, hn⟩

end Ggrs

namespace Ggrs

/-- **C11 across two peers: run-time delay changes keep owner and remote in agreement.** The pair
world of `Proofs/Pair.lean` has `set_input_delay` calls of either session's local players as steps,
at any moments and with any values (`Half.setDelay`), next to local input submissions, calls, cell
writes and arrivals (the next frame of a player of the other peer, read off the owner's queue —
fill frames of a delay increase included). For every such run the receiver's stream of every player
is a prefix of the owner's (`PPInv_run`), so after the rollback phase of the next call on either
side owner and remote peer use IDENTICAL inputs for that player on every frame both have simulated
and both hold: an increase repeats the last input for the frames it opens up and a decrease drops
submissions on both sides alike, because both read the same stream (`C11_queue` is the ring side,
`C11_delay_changes` the sending side of the same fact). -/
theorem C11_agree_two_peers (x y : (P2P × TLState) × (P2P × TLState)) (h0 : PPInv x) (hrun : PStar x y)
    (nowA nowB : Nat) (sA' sB' : P2P) (reqsA reqsB : List Request)
    (hcA : y.1.1.advanceRollbackFrame nowA [] = .ok (sA', reqsA))
    (hcB : y.2.1.advanceRollbackFrame nowB [] = .ok (sB', reqsB)) :
    ∃ (r1A r1B : List Request),
      (reqsA = r1A ∨ ∃ ins, reqsA = r1A ++ [.advance ins]) ∧ (reqsB = r1B ∨ ∃ ins, reqsB = r1B ++ [.advance ins]) ∧
      ∀ p, ((p ∈ y.1.1.localPlayerHandles ∧ p ∉ y.2.1.localPlayerHandles) ∨
            (p ∈ y.2.1.localPlayerHandles ∧ p ∉ y.1.1.localPlayerHandles)) →
        p < y.1.1.sync.queues.length → p < y.2.1.sync.queues.length → ∀ f : Nat,
        (f : Int) < y.1.1.sync.currentFrame → (f : Int) < y.2.1.sync.currentFrame →
        (f : Int) ≤ (rget y.1.1.sync.queues p).lastAddedFrame → (f : Int) ≤ (rget y.2.1.sync.queues p).lastAddedFrame →
        (((execReqs y.1.2 r1A).R f).getD p default).1 = (((execReqs y.2.2 r1B).R f).getD p default).1 :=
  pair_agree x y h0 hrun nowA nowB sA' sB' reqsA reqsB hcA hcB

/-- The pair world does contain delay changes: an accepted or refused `set_input_delay` call of a
local player is a step. -/
example (s s' : P2P) (t : TLState) (b : P2P × TLState) (now handle delay : Nat) (r : Except GgrsError Unit)
    (h1 : handle ∈ s.localPlayerHandles) (h2 : handle < s.sync.queues.length)
    (h3 : s.setInputDelay now handle delay = .ok (s', r)) : PStep ((s, t), b) ((s', t), b) :=
  PStep.left _ _ _ (Half.setDelay s s' t b now handle delay r h1 h2 h3)

end Ggrs

namespace Ggrs

/-- **C11 across three peers.** The triple world (`Proofs/Triple.lean`) has `set_input_delay` calls of
any session's local players as steps (`TMove.setDelay`). For every run, any two of the three
sessions use identical inputs — after the rollback phase of their next calls — for every player owned
by one of the three, on every frame both have simulated and both hold: the owner of a local player
and ALL remote peers agree, whatever delay changes were made and whenever. -/
theorem C11_agree_three_peers (x y : Tri) (h0 : TriInv x) (hrun : TStar x y) (nowA nowB : Nat) (sA' sB' : P2P)
    (reqsA reqsB : List Request)
    (hcA : y.a.1.advanceRollbackFrame nowA [] = .ok (sA', reqsA))
    (hcB : y.b.1.advanceRollbackFrame nowB [] = .ok (sB', reqsB)) :
    ∃ (r1A r1B : List Request),
      (reqsA = r1A ∨ ∃ ins, reqsA = r1A ++ [.advance ins]) ∧ (reqsB = r1B ∨ ∃ ins, reqsB = r1B ++ [.advance ins]) ∧
      ∀ p, OwnedByOne y p → p < y.a.1.sync.queues.length → p < y.b.1.sync.queues.length → ∀ f : Nat,
        (f : Int) < y.a.1.sync.currentFrame → (f : Int) < y.b.1.sync.currentFrame →
        (f : Int) ≤ (rget y.a.1.sync.queues p).lastAddedFrame → (f : Int) ≤ (rget y.b.1.sync.queues p).lastAddedFrame →
        (((execReqs y.a.2 r1A).R f).getD p default).1 = (((execReqs y.b.2 r1B).R f).getD p default).1 :=
  triple_agree x y h0 hrun nowA nowB sA' sB' reqsA reqsB hcA hcB

end Ggrs

