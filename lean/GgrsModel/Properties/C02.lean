/-
C02 — The request list of every advance_frame call is executable and frame-consistent
(the producers of the three request kinds).
-/
import GgrsModel.Properties.C04
import GgrsModel.Proofs.Monad
import GgrsModel.Proofs.Queue

namespace Ggrs.SyncLayer

/-- Every SaveGameState request names exactly the frame the session (and hence a game that
executed all earlier requests) is at, and records it as the last saved frame. -/
theorem C02_save_names_current (s s' : SyncLayer) (r : Request) (h : s.saveCurrentState = .ok (s', r)) :
    r = .save s.currentFrame ∧ s'.lastSavedFrame = s.currentFrame ∧ s'.currentFrame = s.currentFrame := by
  unfold saveCurrentState at h
  simp only at h
  obtain ⟨_, _, h⟩ := bind_ok h
  have := pure_ok h
  simp only [Prod.mk.injEq] at this
  obtain ⟨hs, hr⟩ := this
  subst hs; subst hr
  exact ⟨rfl, rfl, rfl⟩

/-- Every LoadGameState request names an earlier frame whose cell, at that moment, holds a state
that was saved for exactly that frame (anything else is the library's assertion, a panic). -/
theorem C02_load_cell (s s' : SyncLayer) (f : Frame) (r : Request) (h : s.loadFrame f = .ok (s', r)) :
    r = .load f ∧ f < s.currentFrame ∧ (rget s.cells (frameIdx f s.cells.length)).frame = f := by
  have h4 := C04_load s s' f r h
  refine ⟨h4.1, h4.2.1, ?_⟩
  unfold loadFrame at h
  obtain ⟨_, h⟩ := ensure_bind_ok h
  obtain ⟨_, h⟩ := ensure_bind_ok h
  obtain ⟨_, h⟩ := ensure_bind_ok h
  obtain ⟨pos, hpos, h⟩ := bind_ok h
  obtain ⟨hcell, _⟩ := ensure_bind_ok h
  unfold cellPos at hpos
  obtain ⟨_, hpos⟩ := ensure_bind_ok hpos
  have := pure_ok hpos
  subst this
  simpa using hcell

/-- The user's save really lands in the cell a later load of the same frame reads. -/
theorem C02_save_then_cell (s : SyncLayer) (f : Frame) (cs : Option Nat)
    (hlen : frameIdx f s.cells.length < s.cells.length) :
    (rget (s.userSave f cs).cells (frameIdx f (s.userSave f cs).cells.length)) = ⟨f, cs⟩ := by
  simp only [userSave, rset_length]
  exact rget_rset_eq _ _ _ hlen

end Ggrs.SyncLayer
