/-
C02 — The request list of every advance_frame call is executable and frame-consistent
(the producers of the three request kinds).

`C02_consistent_partial` (Proofs/Replay.lean, Shape.lean, Consistent.lean, World.lean) is the
all-schedules statement for rollback-mode P2P sessions without disconnected players, with or
without sparse saving (Proofs/ShapeSp.lean, ConsistentSp.lean): for every interleaving of remote-input arrivals and `advance_frame` calls,
with the game executing every request list in order and its saves reaching the cells, the request
list of the next call passes the frame-consistency check `ChkList` from the current check state —
every SaveGameState names the frame the game is at, every LoadGameState names an earlier frame
whose cell is tagged with it and still holds a state of the CURRENT timeline, AdvanceFrame
requests move one frame on — and afterwards the game is at `current_frame()`, unchanged or one
higher. `GInv_execs` turns a passed check into "the game's state is the replay of its timeline and
every load restored the state of the loaded frame". The disconnect paths, SyncTest
and spectator sessions are decided by the monitor on traces (their request lists are checked by
the same clauses there).
-/
import GgrsModel.Model.Inventory
import GgrsModel.Proofs.Demo
import GgrsModel.Model.Sites.P2pSession
import GgrsModel.Model.Sites.SyncLayer
import GgrsModel.Model.Sites.SyncTestSession
import GgrsModel.Model.Sites.SpectatorSession
import GgrsModel.Properties.C04
import GgrsModel.Proofs.Monad
import GgrsModel.Proofs.Queue
import GgrsModel.Proofs.World
import GgrsModel.Proofs.DelayStep
import GgrsModel.Proofs.EntryPoint
import GgrsModel.Proofs.DropGame
import GgrsModel.Proofs.EntryDrop
import GgrsModel.Proofs.PollCore

namespace Ggrs.SyncLayer

/-- Every SaveGameState request names exactly the frame the session (and hence a game that
executed all earlier requests) is at, and records it as the last saved frame. -/
theorem C02_save_names_current (s s' : SyncLayer) (r : Request) (h : s.saveCurrentState = .ok (s', r)) :
    r = .save s.currentFrame ∧ s'.lastSavedFrame = s.currentFrame ∧ s'.currentFrame = s.currentFrame := by
  unfold saveCurrentState at h
  simp only at h
  obtain ⟨_, _, h⟩ := bind_ok h
  have := pure_ok h
  simp only [Prod.mk.injEq] at this
  obtain ⟨hs, hr⟩ := this
  subst hs; subst hr
  exact ⟨rfl, rfl, rfl⟩

/-- Every LoadGameState request names an earlier frame whose cell, at that moment, holds a state
that was saved for exactly that frame (anything else is the library's assertion, a panic). -/
theorem C02_load_cell (s s' : SyncLayer) (f : Frame) (r : Request) (h : s.loadFrame f = .ok (s', r)) :
    r = .load f ∧ f < s.currentFrame ∧ (rget s.cells (frameIdx f s.cells.length)).frame = f := by
  have h4 := C04_load s s' f r h
  refine ⟨h4.1, h4.2.1, ?_⟩
  unfold loadFrame at h
  obtain ⟨_, h⟩ := ensure_bind_ok h
  obtain ⟨_, h⟩ := ensure_bind_ok h
  obtain ⟨_, h⟩ := ensure_bind_ok h
  obtain ⟨pos, hpos, h⟩ := bind_ok h
  obtain ⟨hcell, _⟩ := ensure_bind_ok h
  unfold cellPos at hpos
  obtain ⟨_, hpos⟩ := ensure_bind_ok hpos
  have := pure_ok hpos
  subst this
  simpa using hcell

/-- The user's save really lands in the cell a later load of the same frame reads. -/
theorem C02_save_then_cell (s : SyncLayer) (f : Frame) (cs : Option Nat)
    (hlen : frameIdx f s.cells.length < s.cells.length) :
    (rget (s.userSave f cs).cells (frameIdx f (s.userSave f cs).cells.length)) = ⟨f, cs⟩ := by
  simp only [userSave, rset_length]
  exact rget_rset_eq _ _ _ hlen

end Ggrs.SyncLayer

namespace Ggrs

/-- **C02, all schedules (partial: rollback mode, no disconnected players; sparse saving or not).**
For every run of the world (remote inputs arriving, `advance_frame` calls whose request lists the
game executes in order, its saves reaching the cells — including the very first call with its
extra save of frame 0), the next call's request list passes the frame-consistency check from a
check state that matches the game (`GInv`), and ends at `current_frame()`, unchanged or one
higher. -/
theorem C02_consistent_partial {G : Type} (step : G → List (Input × InputStatus) → G) (g0 : G)
    (a b : P2P × GS G) (h0 : WInv step g0 a.1 a.2) (hrun : WStar step a b)
    (now : Nat) (reqs' : List Request) (s' : P2P)
    (hadv : b.1.advanceRollbackFrame now [] = .ok (s', reqs')) :
    TickOK step g0 b.1 b.2 s' reqs' := by
  have h := WInv_run step g0 a b h0 hrun
  exact (WInv_tick step g0 b.1 s' b.2 now reqs' ((savedFrames reqs').map fun f => (f, none)) h hadv
    (by simp [List.map_map, Function.comp_def])).2

/-- The same for the first call, which saves frame 0 before anything else. -/
theorem C02_consistent_first_call {G : Type} (step : G → List (Input × InputStatus) → G) (g0 : G)
    (a b : P2P × GS G) (h0 : WInv step g0 a.1 a.2) (hrun : WStar step a b)
    (now : Nat) (sy : SyncLayer) (r : Request) (reqs' : List Request) (s' : P2P)
    (hf0 : b.1.sync.currentFrame = 0) (hsv : b.1.sync.saveCurrentState = .ok (sy, r))
    (hadv : ({ b.1 with sync := sy } : P2P).advanceRollbackFrame now [r] = .ok (s', reqs')) :
    TickOK step g0 b.1 b.2 s' reqs' := by
  have h := WInv_run step g0 a b h0 hrun
  exact (WInv_tick0 step g0 b.1 s' b.2 now sy r reqs' ((savedFrames reqs').map fun f => (f, none)) h hf0 hsv hadv
    (by simp [List.map_map, Function.comp_def])).2

end Ggrs

namespace Ggrs

/-- `C02_consistent_partial` for runs that also contain `set_input_delay` calls of local players
(they touch neither the game nor the cells). -/
theorem C02_consistent_delay {G : Type} (step : G → List (Input × InputStatus) → G) (g0 : G)
    (a b : P2P × GS G) (h0 : DWInv step g0 a) (hrun : DWStar step a b)
    (now : Nat) (reqs' : List Request) (s' : P2P)
    (hadv : b.1.advanceRollbackFrame now [] = .ok (s', reqs')) :
    TickOK step g0 b.1 b.2 s' reqs' := by
  have h := (DWInv_run step g0 a b h0 hrun).1
  exact (WInv_tick step g0 b.1 s' b.2 now reqs' ((savedFrames reqs').map fun f => (f, none)) h hadv
    (by simp [List.map_map, Function.comp_def])).2

end Ggrs

namespace Ggrs

/-- **C02 (and with it C01, C04, C09, C11) at the real entry point.** Take any run of the world in
which the calls may be calls of `advance_frame_core` itself — what `advance_frame` runs after
polling: desync bookkeeping, the extra save of frame 0 on the first call, `update_player_disconnects`,
`advance_rollback_frame`, the wait recommendation. For a successful rollback-mode call made while no
running endpoint reports a disconnected player, with the game executing the returned requests: the
request list passes the frame-consistency check from a check state that matches the game and ends
at the new `current_frame()`, and the world invariant (session, game = replay, cells, their
checksums, outgoing queue) holds again — so every all-schedules theorem applies to the next call. -/
theorem C02_entry_point {G : Type} (step : G → List (Input × InputStatus) → G) (g0 : G) (csf : G → Option Nat)
    (a b : P2P × GS G) (h0 : CInv2 step g0 csf a) (hrun : CWStar step csf a b)
    (now : Nat) (s' : P2P) (reqs' : List Request)
    (hmp : (b.1.maxPrediction == 0) = false)
    (hng : ∀ s1, b.1.desyncPhase now = .ok s1 → NoGossip s1)
    (hcall : b.1.advanceFrameCore now = .ok (s', .ok reqs')) :
    CInv2 step g0 csf
      (s'.userExecute (gameSaves step csf b.1.sync.cells.length b.2 reqs'), execGs step b.1.sync.cells.length b.2 reqs') ∧
    ∃ c c', GInv step g0 b.1.sync.cells.length b.2 c ∧ ChkList b.1.sync.cells.length c reqs' c' ∧
      c'.cur = s'.sync.currentFrame := by
  have hb := CInv2_run step g0 csf a b h0 hrun
  obtain ⟨hpath, s1, s3, hp1, hc1, hc3, hform⟩ := call_is_path step csf b.1 s' b.2 now reqs' hmp hng hcall
  refine ⟨CInv2_run step g0 csf b _ hb hpath, ?_⟩
  have h1 := (CInv2_run step g0 csf b (s1, b.2) hb hp1).1.1
  have hn : s1.sync.cells.length = b.1.sync.cells.length := by rw [hc1.sync]
  rcases hform with hadv | ⟨sy, r, hf0, hsv, hadv⟩
  · obtain ⟨_, ⟨c, c', hg, hchk, hcur⟩, _⟩ := WInv_tick step g0 s1 s3 b.2 now reqs' ((savedFrames reqs').map fun f => (f, none)) h1 hadv
      (by simp [List.map_map, Function.comp_def])
    rw [hn] at hg hchk
    exact ⟨c, c', hg, hchk, by rw [hcur, hc3.sync]⟩
  · obtain ⟨_, ⟨c, c', hg, hchk, hcur⟩, _⟩ := WInv_tick0 step g0 s1 s3 b.2 now sy r reqs' ((savedFrames reqs').map fun f => (f, none)) h1 hf0 hsv hadv
      (by simp [List.map_map, Function.comp_def])
    rw [hn] at hg hchk
    exact ⟨c, c', hg, hchk, by rw [hcur, hc3.sync]⟩

/-- **C02 (and C01's state clause) with dropped players.** Take any run of the world with drops and
a game: remote inputs arriving, accepted `disconnect_player` calls, Disconnected events of
endpoints, and `advance_frame` calls (rollback mode, either saving mode) whose request lists the
game executes in order, its saves reaching the cells. Then the next call's request list passes the
frame-consistency check from a check state that matches the game — saves name the game's frame,
loads name an earlier frame whose cell still holds a state of the CURRENT timeline, the
re-simulation that a drop triggers included — it ends at `current_frame()`, unchanged or one
higher, and the game's state is the serial replay of its own timeline, whose rows carry
(blank, Disconnected) for the dropped players beyond their last frames (`C07_final_timeline`). -/
theorem C02_consistent_drops {G : Type} (step : G → List (Input × InputStatus) → G) (g0 : G)
    (a b : P2P × GS G) (h0 : WInvD step g0 a.1 a.2) (hrun : XWStar step a b)
    (now : Nat) (reqs' : List Request) (s' : P2P)
    (hadv : b.1.advanceRollbackFrame now [] = .ok (s', reqs')) :
    TickOK step g0 b.1 b.2 s' reqs' ∧
    b.2.cur = b.1.sync.currentFrame ∧ b.2.g = replay step g0 b.2.R b.2.cur.toNat := by
  have h := WInvD_run step g0 a b h0 hrun
  obtain ⟨c, hc, hg, _, _⟩ := h.chk
  exact ⟨(WInvD_tick step g0 b.1 s' b.2 now reqs' ((savedFrames reqs').map fun f => (f, none)) h hadv
    (by simp [List.map_map, Function.comp_def])).2, hg.cur.trans hc, hg.state⟩

/-- The premises are satisfiable: every state of the old world with no disconnect scheduled. -/
example {G : Type} (step : G → List (Input × InputStatus) → G) (g0 : G) (s : P2P) (x : GS G)
    (h : WInv step g0 s x) (hdf : s.disconnectFrame = NULL_FRAME) : WInvD step g0 s x :=
  WInvD_of_WInv step g0 s x h hdf

/-- **C02 (with C01's state clause and C09's reports) at the real entry point, with dropped players.**
Take any run of the world with drops, a deterministic game and the desync bookkeeping. For a
successful rollback-mode call of `advance_frame_core` itself — desync bookkeeping, the extra save on
the first call, `update_player_disconnects`, `advance_rollback_frame`, the wait recommendation —
made while the running endpoints' gossip tells the session nothing new (`QuietGossip`: whoever they
report as disconnected is already marked here with a last frame no later than theirs; in a two-peer
session after the drop there is no running endpoint left), with the game executing the returned
requests: the request list passes the frame-consistency check from a check state that matches the
game and ends at the new `current_frame()`, and the world invariant (session with dead players,
game = replay, cells, their checksums) holds again — so every all-schedules theorem about drops
applies to the next call of the entry point. -/
theorem C02_entry_point_drops {G : Type} (step : G → List (Input × InputStatus) → G) (g0 : G) (csf : G → Option Nat)
    (a b : P2P × GS G) (h0 : CInvD step g0 csf a) (hrun : CXStar step csf a b)
    (now : Nat) (s' : P2P) (reqs' : List Request)
    (hmp : (b.1.maxPrediction == 0) = false)
    (hng : ∀ s1, b.1.desyncPhase now = .ok s1 → QuietGossip s1)
    (hcall : b.1.advanceFrameCore now = .ok (s', .ok reqs')) :
    CInvD step g0 csf
      (s'.userExecute (gameSaves step csf b.1.sync.cells.length b.2 reqs'), execGs step b.1.sync.cells.length b.2 reqs') ∧
    ∃ c c', GInv step g0 b.1.sync.cells.length b.2 c ∧ ChkList b.1.sync.cells.length c reqs' c' ∧
      c'.cur = s'.sync.currentFrame := by
  have hb := CInvD_run step g0 csf a b h0 hrun
  obtain ⟨hpath, s1, s3, hp1, hc1, hc3, hform⟩ := call_is_pathD step csf b.1 s' b.2 now reqs' hmp hng hcall
  refine ⟨CInvD_run step g0 csf b _ hb hpath, ?_⟩
  have h1 := (CInvD_run step g0 csf b (s1, b.2) hb hp1).1
  have hn : s1.sync.cells.length = b.1.sync.cells.length := by rw [hc1.sync]
  rcases hform with hadv | ⟨sy, r, hf0, hsv, hadv⟩
  · obtain ⟨_, ⟨c, c', hg, hchk, hcur⟩, _⟩ := WInvD_tick step g0 s1 s3 b.2 now reqs' ((savedFrames reqs').map fun f => (f, none)) h1 hadv
      (by simp [List.map_map, Function.comp_def])
    rw [hn] at hg hchk
    exact ⟨c, c', hg, hchk, by rw [hcur, hc3.sync]⟩
  · obtain ⟨_, ⟨c, c', hg, hchk, hcur⟩, _⟩ := WInvD_tick0 step g0 s1 s3 b.2 now sy r reqs' ((savedFrames reqs').map fun f => (f, none)) h1 hf0 hsv hadv
      (by simp [List.map_map, Function.comp_def])
    rw [hn] at hg hchk
    exact ⟨c, c', hg, hchk, by rw [hcur, hc3.sync]⟩

/-- **C02 at the real entry point with drops, the other peers' reports included.** As
`C02_entry_point_drops`, but `update_player_disconnects` may act: every cut-off it adopts from the
running endpoints' reports is a step of the world (`XStep.adopt`) as long as it is one the world
allows (`UpdOK`) — not beyond the last frame of a still-connected player of that endpoint, and not
before the last frame of a player that is already marked. The excluded case, a cut-off earlier
than an already dropped player's last frame, is the known finding of C10 (the session then
re-simulates frames whose inputs it has discarded, or keeps its own later cut-off). On the very
first call (frame 0) no adoption is assumed. -/
theorem C02_entry_point_gossip {G : Type} (step : G → List (Input × InputStatus) → G) (g0 : G) (csf : G → Option Nat)
    (a b : P2P × GS G) (h0 : CInvD step g0 csf a) (hrun : CXStar step csf a b)
    (now : Nat) (s' : P2P) (reqs' : List Request)
    (hmp : (b.1.maxPrediction == 0) = false)
    (hng : ∀ s1, b.1.desyncPhase now = .ok s1 →
      (s1.sync.currentFrame = 0 → QuietGossip s1) ∧ UpdOK now (List.range s1.numPlayers) s1)
    (hcall : b.1.advanceFrameCore now = .ok (s', .ok reqs')) :
    CInvD step g0 csf
      (s'.userExecute (gameSaves step csf b.1.sync.cells.length b.2 reqs'), execGs step b.1.sync.cells.length b.2 reqs') ∧
    ∃ c c', GInv step g0 b.1.sync.cells.length b.2 c ∧ ChkList b.1.sync.cells.length c reqs' c' ∧
      c'.cur = s'.sync.currentFrame := by
  have hb := CInvD_run step g0 csf a b h0 hrun
  obtain ⟨hpath, sm, s3, hpm, hn, hc3, hform⟩ := call_is_pathG step csf b.1 s' b.2 now reqs' hmp hng hcall
  refine ⟨CInvD_run step g0 csf b _ hb hpath, ?_⟩
  have h1 := (CInvD_run step g0 csf b (sm, b.2) hb hpm).1
  rcases hform with hadv | ⟨sy, r, hf0, hsv, hadv⟩
  · obtain ⟨_, ⟨c, c', hg, hchk, hcur⟩, _⟩ := WInvD_tick step g0 sm s3 b.2 now reqs' ((savedFrames reqs').map fun f => (f, none)) h1 hadv
      (by simp [List.map_map, Function.comp_def])
    rw [hn] at hg hchk
    exact ⟨c, c', hg, hchk, by rw [hcur, hc3.sync]⟩
  · obtain ⟨_, ⟨c, c', hg, hchk, hcur⟩, _⟩ := WInvD_tick0 step g0 sm s3 b.2 now sy r reqs' ((savedFrames reqs').map fun f => (f, none)) h1 hf0 hsv hadv
      (by simp [List.map_map, Function.comp_def])
    rw [hn] at hg hchk
    exact ⟨c, c', hg, hchk, by rw [hcur, hc3.sync]⟩

/-- `QuietGossip` is the special case in which nothing is adopted. -/
example (now : Nat) (s : P2P) (h : QuietGossip s) : UpdOK now (List.range s.numPlayers) s :=
  UpdOK_of_quiet now _ s h

/-- **The poll in front of the entry point (every state).** `advance_frame` is
`poll_remote_clients` followed by `advance_frame_core`. Whatever messages arrive, the poll changes
the core of the session — sync layer, queues, connection statuses, disconnect frame: everything the
session theorems are about — only by running `handle_event`, in order, on the events its endpoints
raised; of those, only Input events (the `remoteInput` step of the worlds) and Disconnected events
(the `dropEvent` step) touch the core at all (`handleEventCore_other`). So a call of
`advance_frame` is: network-only changes, arrival and drop steps, then `advance_frame_core`
(`C02_entry_point`, `C02_entry_point_drops`). That the events satisfy the side conditions of those
steps (a remote player's handle, a non-negative frame, the endpoint's players) is what the
endpoint theorems (C05_stream_intact, C12_event_language) and trace acceptance provide; it is not
derived here. -/
theorem C02_poll_core (s s' : P2P) (now : Nat) (received : List (Nat × Msg))
    (h : s.pollRemoteClients now received = .ok s') :
    ∃ (s0 s1 : P2P) (evs : List (ProtoEvent × List Nat × Nat)), P2P.SameCore s s0 ∧
      evs.foldlM (fun s (x : ProtoEvent × List Nat × Nat) => s.handleEvent now x.1 x.2.1 x.2.2) s0 = .ok s1 ∧
      P2P.SameCore s1 s' :=
  P2P.poll_core s s' now received h

end Ggrs

namespace Ggrs

/-- **Non-vacuity of the world with a game.** For every game (state type, `step`, initial state) a
freshly built session satisfies the world invariant, and the world `WStar` the request-list theorems
quantify over contains the run they are meant for: the user submits an input, the FIRST call (which
saves frame 0 before anything else) simulates frame 0 with a prediction, the real remote input
arrives and contradicts it, the user submits again, and the second call rolls back — it loads frame
0 — with every save of both calls reaching its cell. -/
theorem C02_world_nonvacuous {G : Type} (step : G → List (Input × InputStatus) → G) (g0 : G) (cellG : Nat → G) :
    WInv step g0 demoSession ⟨0, fun _ => [], g0, cellG, fun _ => NULL_FRAME⟩ ∧
    (∃ x', WStar step (demoSession, ⟨0, fun _ => [], g0, cellG, fun _ => NULL_FRAME⟩) (demoW2, x')) ∧
    demoW2.sync.currentFrame = 2 ∧
    (getOk demoW1r).2.head? = some (.save 0) ∧
    (getOk demoW2r).2.any (fun r => match r with | .load 0 => true | _ => false) = true :=
  ⟨WInv_init step g0 demoSession (fun _ => []) cellG 2 rfl rfl rfl rfl rfl, demo_world_run step _, demo_frameW2,
    demo_reqsW.1, demo_reqsW.2⟩

end Ggrs

