/-
C10 — Surviving peers agree on the cut-off of a dropped player.

STATUS: FALSE on the unchanged tree (known finding, see KNOWN_FINDINGS.txt and DESIGN.md): with
three or more peers the survivors can keep different last frames for the dropped player and one
of them can panic. What is proved here is the part of the mechanism that does hold — the gossip
merge is monotone, so every survivor eventually *hears* the earliest cut-off — and the reason the
property fails is recorded as a theorem about the model: adopting an earlier cut-off never lowers
the local `last_frame` of the dropped player.
-/
import GgrsModel.Model.Inventory
import GgrsModel.Model.Sites.P2pSession
import GgrsModel.Model.Sites.Protocol
import GgrsModel.Model.P2P
import GgrsModel.Proofs.DropWorld

namespace Ggrs.Endpoint

/-- The connection-status gossip only ever moves forward: a disconnected flag is never cleared and
the last frame never decreases, whatever a packet says. -/
theorem C10_gossip_monotone (mine theirs : List ConnStatus) (i : Nat) (hi : i < mine.length) :
    ((mergeStatus mine theirs).getD i {}).lastFrame ≥ (mine.getD i {}).lastFrame ∧
    ((mine.getD i {}).disconnected = true → ((mergeStatus mine theirs).getD i {}).disconnected = true) := by
  unfold mergeStatus
  simp only [List.getD_eq_getElem?_getD, List.getElem?_map]
  have hz : mine.zipIdx[i]? = some (mine[i], i) := by
    rw [List.getElem?_zipIdx]; simp [List.getElem?_eq_getElem hi]
  simp only [hz, Option.map_some, Option.getD_some, List.getElem?_eq_getElem hi]
  constructor
  · exact Int.le_max_left _ _
  · intro h; simp [h]

end Ggrs.Endpoint

namespace Ggrs.P2P

/-- Why C10 fails: marking a player disconnected (at whatever frame another survivor reported)
sets the flag but leaves the locally recorded last frame of that player where it was. -/
theorem C10_last_frame_not_lowered (s : P2P) (h : Nat) (f : ConnStatus → ConnStatus)
    (hf : ∀ c, (f c).lastFrame = c.lastFrame) (k : Nat) :
    (rget (s.setStatus h f).localConnectStatus k).lastFrame = (rget s.localConnectStatus k).lastFrame := by
  unfold setStatus
  simp only
  by_cases hk : h = k
  · subst hk
    by_cases hl : h < s.localConnectStatus.length
    · simp [rget, rset, List.getD_eq_getElem?_getD, hl, hf]
    · simp [rget, rset, List.getD_eq_getElem?_getD, hl]
  · simp [rget, rset, List.getD_eq_getElem?_getD, List.getElem?_set_ne hk]

end Ggrs.P2P

namespace Ggrs

/-- A dead remote player's column up to its last frame after one more call, with the stream unchanged. -/
theorem dead_column_after_call (s s' : P2P) (gh : DGhost) (t : TLState) (st0 : List ConnStatus)
    (h : SessInvD s gh t [] st0) (now : Nat) (reqs' : List Request)
    (hadv : s.advanceRollbackFrame now [] = .ok (s', reqs'))
    (p : Nat) (hp : p < s.sync.queues.length) (hnl : p ∉ s.localPlayerHandles)
    (hd : (rget s.localConnectStatus p).disconnected = true)
    (f : Nat) (hf : (f : Int) < s'.sync.currentFrame) (hle : (f : Int) ≤ (rget s.localConnectStatus p).lastFrame) :
    ∃ gh' : DGhost, gh'.specs p = gh.specs p ∧
      (((execReqs t reqs').R f).getD p default).1 = (gh'.specs p).vals.getD f 0 := by
  obtain ⟨_, _, _, _, gh', _, _, hinv', hh, _, hnq, _, hsame, _, hsp, _⟩ :=
    advanceRollbackFrame_specD s s' gh t [] reqs' now st0 h hadv
  have hp' : p < s'.sync.queues.length := by rw [hnq]; exact hp
  have hst := hsame p hd
  have hd' : (rget s'.localConnectStatus p).disconnected = true := by rw [hst]; exact hd
  have hlp : s'.localPlayerHandles = s.localPlayerHandles := by unfold P2P.localPlayerHandles; rw [hh]
  exact ⟨gh', hsp p hnl,
    deadColumn_right s' gh' t reqs' _ hinv' p hp' hd' (by rw [hlp]; exact hnl) f hf (by rw [hst]; exact hle)⟩

end Ggrs

namespace Ggrs

/-- **C10, the case that does hold: survivors with the same cut-off.** Two survivors A and B, each in a
state its own world with drops reaches (`SessInvD`, by `XInv_run`: any run of arrivals, calls and
locally detected drops), both have the remote player `p` marked disconnected with the SAME last
frame, and what each has received of `p` is a prefix of one common stream (`C05_stream_intact` per
link). Then after their next calls the two games' timelines carry identical entries — input and
status — for `p` on every frame beyond that last frame (blank, Disconnected), and identical inputs
on every frame up to it: they have settled on one cut-off and use the same inputs for the dropped
player throughout. (When the survivors had received different amounts,
`update_player_disconnects` is supposed to bring them to the earliest cut-off; that is where the
implementation fails — `C10_last_frame_not_lowered`, the known finding.) -/
theorem C10_same_cutoff_agree (sA sB sA' sB' : P2P) (tA tB : TLState) (ghA ghB : DGhost) (stA stB : List ConnStatus)
    (hA : SessInvD sA ghA tA [] stA) (hB : SessInvD sB ghB tB [] stB) (p : Nat)
    (hpA : p < sA.sync.queues.length) (hpB : p < sB.sync.queues.length)
    (hnlA : p ∉ sA.localPlayerHandles) (hnlB : p ∉ sB.localPlayerHandles)
    (hdA : (rget sA.localConnectStatus p).disconnected = true)
    (hdB : (rget sB.localConnectStatus p).disconnected = true)
    (hL : (rget sA.localConnectStatus p).lastFrame = (rget sB.localConnectStatus p).lastFrame)
    (hlinks : ∃ S : List Input, (ghA.specs p).vals <+: S ∧ (ghB.specs p).vals <+: S)
    (nowA nowB : Nat) (reqsA reqsB : List Request)
    (hcA : sA.advanceRollbackFrame nowA [] = .ok (sA', reqsA))
    (hcB : sB.advanceRollbackFrame nowB [] = .ok (sB', reqsB)) :
    ∀ f : Nat, (f : Int) < sA'.sync.currentFrame → (f : Int) < sB'.sync.currentFrame →
      ((rget sA.localConnectStatus p).lastFrame < (f : Int) →
        ((execReqs tA reqsA).R f).getD p default = ((execReqs tB reqsB).R f).getD p default) ∧
      ((f : Int) ≤ (rget sA.localConnectStatus p).lastFrame →
        (((execReqs tA reqsA).R f).getD p default).1 = (((execReqs tB reqsB).R f).getD p default).1) := by
  obtain ⟨_, _, _, _, ghA', _, _, hinvA, hhA, _, hnqA, _, hsameA, _, hspA, _⟩ :=
    advanceRollbackFrame_specD sA sA' ghA tA [] reqsA nowA stA hA hcA
  obtain ⟨_, _, _, _, ghB', _, _, hinvB, hhB, _, hnqB, _, hsameB, _, hspB, _⟩ :=
    advanceRollbackFrame_specD sB sB' ghB tB [] reqsB nowB stB hB hcB
  have hpA' : p < sA'.sync.queues.length := by rw [hnqA]; exact hpA
  have hpB' : p < sB'.sync.queues.length := by rw [hnqB]; exact hpB
  have hstA := hsameA p hdA
  have hstB := hsameB p hdB
  have hdA' : (rget sA'.localConnectStatus p).disconnected = true := by rw [hstA]; exact hdA
  have hdB' : (rget sB'.localConnectStatus p).disconnected = true := by rw [hstB]; exact hdB
  have hlpA : sA'.localPlayerHandles = sA.localPlayerHandles := by unfold P2P.localPlayerHandles; rw [hhA]
  have hlpB : sB'.localPlayerHandles = sB.localPlayerHandles := by unfold P2P.localPlayerHandles; rw [hhB]
  obtain ⟨S, hSA, hSB⟩ := hlinks
  rw [← hspA p hnlA] at hSA
  rw [← hspB p hnlB] at hSB
  intro f hfA hfB
  refine ⟨fun hlf => ?_, fun hle => ?_⟩
  · rw [hinvA.tinv.deadRows p hpA' hdA' f (by rw [hstA]; exact hlf) hfA,
      hinvB.tinv.deadRows p hpB' hdB' f (by rw [hstB, ← hL]; exact hlf) hfB]
  · have hlenA := hinvA.remote p hpA' (by rw [hlpA]; exact hnlA)
    have hlenB := hinvB.remote p hpB' (by rw [hlpB]; exact hnlB)
    rw [deadColumn_right sA' ghA' tA reqsA _ hinvA p hpA' hdA' (by rw [hlpA]; exact hnlA) f hfA (by rw [hstA]; exact hle),
      deadColumn_right sB' ghB' tB reqsB _ hinvB p hpB' hdB' (by rw [hlpB]; exact hnlB) f hfB (by rw [hstB, ← hL]; exact hle)]
    have hfa : f < (ghA'.specs p).vals.length := by
      have := hlenA.2.2; rw [hlenA.2.1, hstA] at this; omega
    have hfb : f < (ghB'.specs p).vals.length := by
      have := hlenB.2.2; rw [hlenB.2.1, hstB, ← hL] at this; omega
    obtain ⟨tA', hA'⟩ := hSA
    obtain ⟨tB', hB'⟩ := hSB
    have e1 : ((ghA'.specs p).vals ++ tA').getD f 0 = (ghA'.specs p).vals.getD f 0 := by
      simp [List.getD_eq_getElem?_getD, List.getElem?_append_left hfa]
    have e2 : ((ghB'.specs p).vals ++ tB').getD f 0 = (ghB'.specs p).vals.getD f 0 := by
      simp [List.getD_eq_getElem?_getD, List.getElem?_append_left hfb]
    rw [← e1, ← e2, hA', hB']

/-- **C10, why it fails, at session level (every such pair of states).** Two survivors A and B in states
their worlds reach, both with the remote player `p` marked disconnected, but with DIFFERENT last
frames `L_B < L_A` — which is what they are left with when B had received less of `p` than A and
`update_player_disconnects` adopts B's cut-off at A without lowering A's own `last_frame`
(`C10_last_frame_not_lowered`). Then after their next calls, on every frame `f` with
`L_B < f ≤ L_A` that both have simulated, A's game was last simulated with `p`'s real input of `f`
and B's game with the blank input: whenever that real input is not the blank one, the two games are
fed different inputs for the dropped player, and their states diverge. -/
theorem C10_different_cutoffs_disagree (sA sB sA' sB' : P2P) (tA tB : TLState) (ghA ghB : DGhost)
    (stA stB : List ConnStatus)
    (hA : SessInvD sA ghA tA [] stA) (hB : SessInvD sB ghB tB [] stB) (p : Nat)
    (hpA : p < sA.sync.queues.length) (hpB : p < sB.sync.queues.length)
    (hnlA : p ∉ sA.localPlayerHandles)
    (hdA : (rget sA.localConnectStatus p).disconnected = true)
    (hdB : (rget sB.localConnectStatus p).disconnected = true)
    (nowA nowB : Nat) (reqsA reqsB : List Request)
    (hcA : sA.advanceRollbackFrame nowA [] = .ok (sA', reqsA))
    (hcB : sB.advanceRollbackFrame nowB [] = .ok (sB', reqsB))
    (f : Nat) (hfA : (f : Int) < sA'.sync.currentFrame) (hfB : (f : Int) < sB'.sync.currentFrame)
    (hlo : (rget sB.localConnectStatus p).lastFrame < (f : Int))
    (hhi : (f : Int) ≤ (rget sA.localConnectStatus p).lastFrame) :
    ∃ ghA' : DGhost, ghA'.specs p = ghA.specs p ∧
      (((execReqs tA reqsA).R f).getD p default).1 = (ghA.specs p).vals.getD f 0 ∧
      ((execReqs tB reqsB).R f).getD p default = (0, .disconnected) := by
  obtain ⟨ghA', hA1, hA2⟩ := dead_column_after_call sA sA' ghA tA stA hA nowA reqsA hcA p hpA hnlA hdA f hfA hhi
  obtain ⟨_, _, _, _, ghB', _, _, hinvB, _, _, hnqB, _, hsameB, _, _⟩ :=
    advanceRollbackFrame_specD sB sB' ghB tB [] reqsB nowB stB hB hcB
  have hpB' : p < sB'.sync.queues.length := by rw [hnqB]; exact hpB
  have hstB := hsameB p hdB
  refine ⟨ghA', hA1, by rw [hA2, hA1], ?_⟩
  exact hinvB.tinv.deadRows p hpB' (by rw [hstB]; exact hdB) f (by rw [hstB]; exact hlo) hfB

end Ggrs

