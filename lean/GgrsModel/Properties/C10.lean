/-
C10 — Surviving peers agree on the cut-off of a dropped player.

STATUS: FALSE on the unchanged tree (known finding, see KNOWN_FINDINGS.txt and DESIGN.md): with
three or more peers the survivors can keep different last frames for the dropped player and one
of them can panic. What is proved here is the part of the mechanism that does hold — the gossip
merge is monotone, so every survivor eventually *hears* the earliest cut-off — and the reason the
property fails is recorded as a theorem about the model: adopting an earlier cut-off never lowers
the local `last_frame` of the dropped player.
-/
import GgrsModel.Model.Inventory
import GgrsModel.Model.P2P

namespace Ggrs.Endpoint

/-- The connection-status gossip only ever moves forward: a disconnected flag is never cleared and
the last frame never decreases, whatever a packet says. -/
theorem C10_gossip_monotone (mine theirs : List ConnStatus) (i : Nat) (hi : i < mine.length) :
    ((mergeStatus mine theirs).getD i {}).lastFrame ≥ (mine.getD i {}).lastFrame ∧
    ((mine.getD i {}).disconnected = true → ((mergeStatus mine theirs).getD i {}).disconnected = true) := by
  unfold mergeStatus
  simp only [List.getD_eq_getElem?_getD, List.getElem?_map]
  have hz : mine.zipIdx[i]? = some (mine[i], i) := by
    rw [List.getElem?_zipIdx]; simp [List.getElem?_eq_getElem hi]
  simp only [hz, Option.map_some, Option.getD_some, List.getElem?_eq_getElem hi]
  constructor
  · exact Int.le_max_left _ _
  · intro h; simp [h]

end Ggrs.Endpoint

namespace Ggrs.P2P

/-- Why C10 fails: marking a player disconnected (at whatever frame another survivor reported)
sets the flag but leaves the locally recorded last frame of that player where it was. -/
theorem C10_last_frame_not_lowered (s : P2P) (h : Nat) (f : ConnStatus → ConnStatus)
    (hf : ∀ c, (f c).lastFrame = c.lastFrame) (k : Nat) :
    (rget (s.setStatus h f).localConnectStatus k).lastFrame = (rget s.localConnectStatus k).lastFrame := by
  unfold setStatus
  simp only
  by_cases hk : h = k
  · subst hk
    by_cases hl : h < s.localConnectStatus.length
    · simp [rget, rset, List.getD_eq_getElem?_getD, hl, hf]
    · simp [rget, rset, List.getD_eq_getElem?_getD, hl]
  · simp [rget, rset, List.getD_eq_getElem?_getD, List.getElem?_set_ne hk]

end Ggrs.P2P
