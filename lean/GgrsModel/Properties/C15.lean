/-
C15 — Time-sync estimates and wait advice.

`TimeSync.averageSpec` is the exact (rational, truncated) specification of
`TimeSync::average_frame_advantage`; the executable model computes the same quantity in `f32`
exactly as the Rust code does (`averageFrameAdvantage`), and the gap between the two is *tested*,
not proved (Lean cannot reason about `Float32`): this property is partial for that reason.
`checkWaitRecommendation` models `P2PSession::check_wait_recommendation`.
-/
import GgrsModel.Model.Inventory
import GgrsModel.Model.P2P
import GgrsModel.Proofs.Monad

namespace Ggrs.TimeSync

theorem isum_replicate (n : Nat) (a : Int) : isum (List.replicate n a) = n * a := by
  unfold isum
  have key : ∀ (n : Nat) (acc : Int), (List.replicate n a).foldl (· + ·) acc = acc + n * a := by
    intro n
    induction n with
    | zero => intro acc; simp
    | succ k ih =>
      intro acc
      simp only [List.replicate_succ, List.foldl_cons, ih]
      rw [Int.add_assoc]; congr 1
      rw [Int.natCast_succ, Int.add_mul, Int.one_mul, Int.add_comm]
  simpa using key n 0

/-- **C15, meet in the middle.** With a full window of constant local advantage `a` and remote
advantage `b`, the specified estimate is `(b − a) / 2` truncated toward zero: a peer that leads
by `k` frames (`a = −k`, `b = +k`) gets `+k`, its partner (`a = +k`, `b = −k`) gets `−k`, and the
two estimates add up to zero. -/
theorem C15_average_spec (n : Nat) (a b : Int) (hn : n > 0) :
    averageSpec ⟨List.replicate n a, List.replicate n b⟩ = Int.tdiv (b - a) 2 := by
  unfold averageSpec
  simp only [isum_replicate, List.length_replicate]
  have h1 : (n : Int) * b - n * a = (b - a) * n := by
    rw [← Int.mul_sub, Int.mul_comm]
  rw [h1]
  have hpos : (0 : Int) < n := by omega
  exact Int.mul_tdiv_mul_of_pos_left (b - a) 2 hpos

theorem C15_steady_lead (n : Nat) (k : Int) (hn : n > 0) :
    averageSpec ⟨List.replicate n (-k), List.replicate n k⟩ = k ∧
    averageSpec ⟨List.replicate n k, List.replicate n (-k)⟩ = -k := by
  constructor
  · rw [C15_average_spec n (-k) k hn]
    have : k - -k = k * 2 := by omega
    rw [this, Int.mul_tdiv_cancel _ (by decide)]
  · rw [C15_average_spec n k (-k) hn]
    have : -k - k = (-k) * 2 := by omega
    rw [this, Int.mul_tdiv_cancel _ (by decide)]

end Ggrs.TimeSync

namespace Ggrs.P2P

/-- **C15, wait advice.** `check_wait_recommendation` queues a `WaitRecommendation` only if
`frames_ahead()` (as updated by this very call) is at least `MIN_RECOMMENDATION` and the current
frame is beyond the previous gate; the event carries exactly that value, and the gate moves
`RECOMMENDATION_INTERVAL` frames past the current frame — so two recommendations are always more
than `RECOMMENDATION_INTERVAL` frames apart. Otherwise the event queue is untouched. -/
theorem C15_recommendation (s s' : P2P) (h : s.checkWaitRecommendation = .ok s') :
    s'.framesAhead = s.maxFrameAdvantage ∧
    ((s.sync.currentFrame > s.nextRecommendedSleep ∧ s.maxFrameAdvantage ≥ (MIN_RECOMMENDATION : Int) ∧
        s'.eventQueue = s.eventQueue ++ [.waitRecommendation s.maxFrameAdvantage.toNat] ∧
        s'.nextRecommendedSleep = s.sync.currentFrame + (RECOMMENDATION_INTERVAL : Int)) ∨
     (¬ (s.sync.currentFrame > s.nextRecommendedSleep ∧ s.maxFrameAdvantage ≥ (MIN_RECOMMENDATION : Int)) ∧
        s'.eventQueue = s.eventQueue ∧ s'.nextRecommendedSleep = s.nextRecommendedSleep)) := by
  unfold checkWaitRecommendation at h
  simp only at h
  by_cases hc : (decide (s.sync.currentFrame > s.nextRecommendedSleep) && decide (s.maxFrameAdvantage ≥ (MIN_RECOMMENDATION : Int))) = true
  · simp only [hc, if_true] at h
    have := pure_ok h
    subst this
    simp at hc
    exact ⟨rfl, Or.inl ⟨hc.1, hc.2, rfl, rfl⟩⟩
  · simp only [hc, Bool.false_eq_true, if_false] at h
    have := pure_ok h
    subst this
    refine ⟨rfl, Or.inr ⟨?_, rfl, rfl⟩⟩
    intro hh
    apply hc
    simp [hh.1, hh.2]

end Ggrs.P2P
