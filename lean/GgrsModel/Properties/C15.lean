/-
C15 — Time-sync estimates and wait advice.

`TimeSync.averageSpec` is the exact (rational, truncated) specification of
`TimeSync::average_frame_advantage`; the executable model computes the same quantity in `f32`
exactly as the Rust code does (`averageFrameAdvantage`), and the gap between the two is *tested*,
not proved (Lean cannot reason about `Float32`): this property is partial for that reason.
`checkWaitRecommendation` models `P2PSession::check_wait_recommendation`.
-/
import GgrsModel.Model.Inventory
import GgrsModel.Model.Sites.TimeSync
import GgrsModel.Model.Sites.Protocol
import GgrsModel.Model.Sites.P2pSession
import GgrsModel.Model.P2P
import GgrsModel.Proofs.Monad
import GgrsModel.Proofs.Endpoint

namespace Ggrs.TimeSync

theorem isum_replicate (n : Nat) (a : Int) : isum (List.replicate n a) = n * a := by
  unfold isum
  have key : ∀ (n : Nat) (acc : Int), (List.replicate n a).foldl (· + ·) acc = acc + n * a := by
    intro n
    induction n with
    | zero => intro acc; simp
    | succ k ih =>
      intro acc
      simp only [List.replicate_succ, List.foldl_cons, ih]
      rw [Int.add_assoc]; congr 1
      rw [Int.natCast_succ, Int.add_mul, Int.one_mul, Int.add_comm]
  simpa using key n 0

/-- **C15, meet in the middle.** With a full window of constant local advantage `a` and remote
advantage `b`, the specified estimate is `(b − a) / 2` truncated toward zero: a peer that leads
by `k` frames (`a = −k`, `b = +k`) gets `+k`, its partner (`a = +k`, `b = −k`) gets `−k`, and the
two estimates add up to zero. -/
theorem C15_average_spec (n : Nat) (a b : Int) (hn : n > 0) :
    averageSpec ⟨List.replicate n a, List.replicate n b⟩ = Int.tdiv (b - a) 2 := by
  unfold averageSpec
  simp only [isum_replicate, List.length_replicate]
  have h1 : (n : Int) * b - n * a = (b - a) * n := by
    rw [← Int.mul_sub, Int.mul_comm]
  rw [h1]
  have hpos : (0 : Int) < n := by omega
  exact Int.mul_tdiv_mul_of_pos_left (b - a) 2 hpos

theorem C15_steady_lead (n : Nat) (k : Int) (hn : n > 0) :
    averageSpec ⟨List.replicate n (-k), List.replicate n k⟩ = k ∧
    averageSpec ⟨List.replicate n k, List.replicate n (-k)⟩ = -k := by
  constructor
  · rw [C15_average_spec n (-k) k hn]
    have : k - -k = k * 2 := by omega
    rw [this, Int.mul_tdiv_cancel _ (by decide)]
  · rw [C15_average_spec n k (-k) hn]
    have : -k - k = (-k) * 2 := by omega
    rw [this, Int.mul_tdiv_cancel _ (by decide)]

end Ggrs.TimeSync

namespace Ggrs.P2P

/-- **C15, wait advice.** `check_wait_recommendation` queues a `WaitRecommendation` only if
`frames_ahead()` (as updated by this very call) is at least `MIN_RECOMMENDATION` and the current
frame is beyond the previous gate; the event carries exactly that value, and the gate moves
`RECOMMENDATION_INTERVAL` frames past the current frame — so two recommendations are always more
than `RECOMMENDATION_INTERVAL` frames apart. Otherwise the event queue is untouched. -/
theorem C15_recommendation (s s' : P2P) (h : s.checkWaitRecommendation = .ok s') :
    s'.framesAhead = s.maxFrameAdvantage ∧
    ((s.sync.currentFrame > s.nextRecommendedSleep ∧ s.maxFrameAdvantage ≥ (MIN_RECOMMENDATION : Int) ∧
        s'.eventQueue = s.eventQueue ++ [.waitRecommendation s.maxFrameAdvantage.toNat] ∧
        s'.nextRecommendedSleep = s.sync.currentFrame + (RECOMMENDATION_INTERVAL : Int)) ∨
     (¬ (s.sync.currentFrame > s.nextRecommendedSleep ∧ s.maxFrameAdvantage ≥ (MIN_RECOMMENDATION : Int)) ∧
        s'.eventQueue = s.eventQueue ∧ s'.nextRecommendedSleep = s.nextRecommendedSleep)) := by
  unfold checkWaitRecommendation at h
  simp only at h
  by_cases hc : (decide (s.sync.currentFrame > s.nextRecommendedSleep) && decide (s.maxFrameAdvantage ≥ (MIN_RECOMMENDATION : Int))) = true
  · simp only [hc, if_true] at h
    have := pure_ok h
    subst this
    simp at hc
    exact ⟨rfl, Or.inl ⟨hc.1, hc.2, rfl, rfl⟩⟩
  · simp only [hc, Bool.false_eq_true, if_false] at h
    have := pure_ok h
    subst this
    refine ⟨rfl, Or.inr ⟨?_, rfl, rfl⟩⟩
    intro hh
    apply hc
    simp [hh.1, hh.2]

end Ggrs.P2P

namespace Ggrs.Endpoint

/-- **C15, what the ping is.** A quality report carries the sender's clock reading in milliseconds;
the receiver echoes it unchanged in its reply (whatever state it is in, once the packet passed the
magic filter), and the report's sender, handling the reply at time `now`, records
`now / 1000 − (that reading)` as its round-trip time and remembers that it has a measurement. So the
ping `network_stats` reports is the time between the poll that sent the report and the poll that
handled the reply: the link's round trip plus what the two sides wait for their next poll. -/
theorem C15_ping_is_round_trip (e : Endpoint) (now : Nat) (magic pong : Nat)
    (hs : e.state ≠ .shutdown) (hm : e.remoteMagic = 0 ∨ magic = e.remoteMagic) :
    ∃ e', e.handleMessage now ⟨magic, .qualityReply pong⟩ = .ok e' ∧
      e'.roundTripTime = now / 1000 - pong ∧ e'.roundTripTimeMeasured = true := by
  unfold handleMessage
  have h1 : (e.state == .shutdown) = false := by
    cases hst : e.state <;> simp_all
  have h2 : (e.remoteMagic != 0 && magic != e.remoteMagic) = false := by
    rcases hm with h | h
    · simp [h]
    · simp [h]
  simp only [h1, h2, Bool.false_eq_true, if_false]
  exact ⟨_, rfl, rfl, rfl⟩

/-- The echo: a quality report is answered with a reply carrying the same clock reading. -/
theorem C15_report_is_echoed (e : Endpoint) (now : Nat) (magic : Nat) (adv : Int) (ping : Nat)
    (hs : e.state ≠ .shutdown) (hm : e.remoteMagic = 0 ∨ magic = e.remoteMagic) :
    ∃ e', e.handleMessage now ⟨magic, .qualityReport adv ping⟩ = .ok e' ∧
      e'.remoteFrameAdvantage = adv ∧
      e'.sendQueue = e.sendQueue ++ [⟨e.magic, .qualityReply ping⟩] := by
  unfold handleMessage
  have h1 : (e.state == .shutdown) = false := by
    cases hst : e.state <;> simp_all
  have h2 : (e.remoteMagic != 0 && magic != e.remoteMagic) = false := by
    rcases hm with h | h
    · simp [h]
    · simp [h]
  simp only [h1, h2, Bool.false_eq_true, if_false]
  have hn : (e.noteReceived now).sendQueue = e.sendQueue ∧ (e.noteReceived now).magic = e.magic := by
    unfold noteReceived
    simp only
    split <;> exact ⟨rfl, rfl⟩
  refine ⟨_, rfl, ?_, ?_⟩
  · unfold queueMessage; rfl
  · unfold queueMessage
    show (e.noteReceived now).sendQueue ++ [⟨(e.noteReceived now).magic, _⟩] = _
    rw [hn.1, hn.2]

/-- **C15, the gate of `network_stats`.** Numbers are only reported by an endpoint that is
synchronizing or running, at least one second after it was started, and — since the `fix:` commit —
only once a round-trip time has actually been measured; the ping reported is that measurement. -/
theorem C15_stats_gate (e : Endpoint) (now : Nat) (p q : Nat) (l r : Int)
    (h : e.networkStats now = .ok p q l r) :
    (e.state = .synchronizing ∨ e.state = .running) ∧ e.roundTripTimeMeasured = true ∧
    (now / 1000 - e.statsStartTime) / 1000 ≠ 0 ∧
    p = e.roundTripTime ∧ l = e.localFrameAdvantage ∧ r = e.remoteFrameAdvantage := by
  unfold networkStats at h
  split at h
  · cases h
  · rename_i hst
    simp only at h
    split at h
    · cases h
    · rename_i hg
      simp only [StatsResult.ok.injEq] at h
      obtain ⟨h1, _, h3, h4⟩ := h
      have hst' : e.state = .synchronizing ∨ e.state = .running := by
        cases hs : e.state <;> simp_all
      have hg' : ¬ ((now / 1000 - e.statsStartTime) / 1000 == 0 || !e.roundTripTimeMeasured) = true := hg
      have hm : e.roundTripTimeMeasured = true := by
        cases hmm : e.roundTripTimeMeasured
        · simp [hmm] at hg'
        · rfl
      have hsec : (now / 1000 - e.statsStartTime) / 1000 ≠ 0 := by
        intro h0
        simp [h0] at hg'
      exact ⟨hst', hm, hsec, h1.symm, h3.symm, h4.symm⟩

/-- No measurement, no numbers. -/
theorem C15_no_numbers_before_measurement (e : Endpoint) (now : Nat) (h : e.roundTripTimeMeasured = false) :
    e.networkStats now = .notSynchronized ∨ e.networkStats now = .notEnoughData := by
  unfold networkStats
  split
  · exact Or.inl rfl
  · right
    simp [h]

end Ggrs.Endpoint

