/-
C07 — A peer drop is detected on time (endpoint timers) and the dropped player's inputs become
default/Disconnected after its last frame.

Timing theorems are about `checkTimeouts`, the silence timers of `UdpProtocol::poll` in the
Running state; the cut-off theorem is about `SyncLayer::synchronized_inputs`.
-/
import GgrsModel.Model.Inventory
import GgrsModel.Proofs.Endpoint

namespace Ggrs.Endpoint

/-- `Disconnected` is raised by a poll exactly when it has not been raised before and the silence
since the last received packet is strictly longer than the disconnect timeout: not earlier. -/
theorem C07_disconnect_iff (e : Endpoint) (now : Nat) :
    ((e.checkTimeouts now).eventQueue.count .disconnected = e.eventQueue.count .disconnected + 1) ↔
      (e.disconnectEventSent = false ∧ e.lastRecvTime + e.disconnectTimeout < now) := by
  unfold checkTimeouts
  simp only
  by_cases h1 : (!e.disconnectNotifySent && !e.disconnectEventSent && decide (e.lastRecvTime + e.disconnectNotifyStart < now)) = true
  · simp only [h1, if_true]
    by_cases h2 : e.disconnectEventSent = false ∧ e.lastRecvTime + e.disconnectTimeout < now
    · obtain ⟨h2a, h2b⟩ := h2
      simp [h2a, h2b, List.count_append]
    · have : (!e.disconnectEventSent && decide (e.lastRecvTime + e.disconnectTimeout < now)) = false := by
        by_cases ha : e.disconnectEventSent = false
        · have hb : ¬ e.lastRecvTime + e.disconnectTimeout < now := fun hb => h2 ⟨ha, hb⟩
          simp [ha, hb]
        · simp [ha]
      simp only [this, Bool.false_eq_true, if_false, List.count_append]
      simp [h2]
  · simp only [h1, Bool.false_eq_true, if_false]
    by_cases h2 : e.disconnectEventSent = false ∧ e.lastRecvTime + e.disconnectTimeout < now
    · obtain ⟨h2a, h2b⟩ := h2
      simp [h2a, h2b, List.count_append]
    · have : (!e.disconnectEventSent && decide (e.lastRecvTime + e.disconnectTimeout < now)) = false := by
        by_cases ha : e.disconnectEventSent = false
        · have hb : ¬ e.lastRecvTime + e.disconnectTimeout < now := fun hb => h2 ⟨ha, hb⟩
          simp [ha, hb]
        · simp [ha]
      simp only [this, Bool.false_eq_true, if_false]
      simp [h2]

/-- Once raised, the timer never raises `Disconnected` again (the flag is sticky). -/
theorem C07_disconnect_once (e : Endpoint) (now : Nat) (h : e.disconnectEventSent = true) :
    (e.checkTimeouts now).eventQueue.count .disconnected = e.eventQueue.count .disconnected ∧
    (e.checkTimeouts now).disconnectEventSent = true := by
  unfold checkTimeouts
  simp only
  split <;> simp [h, List.count_append]

theorem C07_flag_set (e : Endpoint) (now : Nat) (h : e.lastRecvTime + e.disconnectTimeout < now) :
    (e.checkTimeouts now).disconnectEventSent = true := by
  unfold checkTimeouts
  simp only
  by_cases hd : e.disconnectEventSent = true
  · split <;> simp [hd]
  · have hd' : e.disconnectEventSent = false := by simpa using hd
    split <;> simp [hd', h]

end Ggrs.Endpoint

namespace Ggrs.SyncLayer

/-- The cut-off: a player that is disconnected as of a frame before the one being simulated gets
the default input with status Disconnected, whatever the input queue holds. -/
theorem C07_cutoff (pred : Predictor) (cur : Frame) (cs : ConnStatus) (rest : List ConnStatus) (i : Nat)
    (qs : List InputQueue) (acc : List (Input × InputStatus))
    (hd : cs.disconnected = true) (hf : cs.lastFrame < cur) :
    synchronizedInputsLoop pred cur (cs :: rest) i qs acc =
      synchronizedInputsLoop pred cur rest (i + 1) qs ((0, .disconnected) :: acc) := by
  simp [synchronizedInputsLoop, hd, hf]

end Ggrs.SyncLayer
