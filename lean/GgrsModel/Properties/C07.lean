/-
C07 — A peer drop is detected on time (endpoint timers) and the dropped player's inputs become
default/Disconnected after its last frame.

Timing theorems are about `checkTimeouts`, the silence timers of `UdpProtocol::poll` in the
Running state; the cut-off theorem is about `SyncLayer::synchronized_inputs`.
-/
import GgrsModel.Model.Inventory
import GgrsModel.Proofs.Demo
import GgrsModel.Model.Sites.Protocol
import GgrsModel.Model.Sites.P2pSession
import GgrsModel.Proofs.Endpoint
import GgrsModel.Model.P2P
import GgrsModel.Proofs.Monad
import GgrsModel.Proofs.Queue
import GgrsModel.Proofs.DropWorld
import GgrsModel.Proofs.LockstepDrop
import GgrsModel.Proofs.DelayDrop

namespace Ggrs.Endpoint

/-- `Disconnected` is raised by a poll exactly when it has not been raised before and the silence
since the last received packet is strictly longer than the disconnect timeout: not earlier. -/
theorem C07_disconnect_iff (e : Endpoint) (now : Nat) :
    ((e.checkTimeouts now).eventQueue.count .disconnected = e.eventQueue.count .disconnected + 1) ↔
      (e.disconnectEventSent = false ∧ e.lastRecvTime + e.disconnectTimeout < now) := by
  unfold checkTimeouts
  simp only
  by_cases h1 : (!e.disconnectNotifySent && !e.disconnectEventSent && decide (e.lastRecvTime + e.disconnectNotifyStart < now)) = true
  · simp only [h1, if_true]
    by_cases h2 : e.disconnectEventSent = false ∧ e.lastRecvTime + e.disconnectTimeout < now
    · obtain ⟨h2a, h2b⟩ := h2
      simp [h2a, h2b, List.count_append]
    · have : (!e.disconnectEventSent && decide (e.lastRecvTime + e.disconnectTimeout < now)) = false := by
        by_cases ha : e.disconnectEventSent = false
        · have hb : ¬ e.lastRecvTime + e.disconnectTimeout < now := fun hb => h2 ⟨ha, hb⟩
          simp [ha, hb]
        · simp [ha]
      simp only [this, Bool.false_eq_true, if_false, List.count_append]
      simp [h2]
  · simp only [h1, Bool.false_eq_true, if_false]
    by_cases h2 : e.disconnectEventSent = false ∧ e.lastRecvTime + e.disconnectTimeout < now
    · obtain ⟨h2a, h2b⟩ := h2
      simp [h2a, h2b, List.count_append]
    · have : (!e.disconnectEventSent && decide (e.lastRecvTime + e.disconnectTimeout < now)) = false := by
        by_cases ha : e.disconnectEventSent = false
        · have hb : ¬ e.lastRecvTime + e.disconnectTimeout < now := fun hb => h2 ⟨ha, hb⟩
          simp [ha, hb]
        · simp [ha]
      simp only [this, Bool.false_eq_true, if_false]
      simp [h2]

/-- Once raised, the timer never raises `Disconnected` again (the flag is sticky). -/
theorem C07_disconnect_once (e : Endpoint) (now : Nat) (h : e.disconnectEventSent = true) :
    (e.checkTimeouts now).eventQueue.count .disconnected = e.eventQueue.count .disconnected ∧
    (e.checkTimeouts now).disconnectEventSent = true := by
  unfold checkTimeouts
  simp only
  split <;> simp [h, List.count_append]

theorem C07_flag_set (e : Endpoint) (now : Nat) (h : e.lastRecvTime + e.disconnectTimeout < now) :
    (e.checkTimeouts now).disconnectEventSent = true := by
  unfold checkTimeouts
  simp only
  by_cases hd : e.disconnectEventSent = true
  · split <;> simp [hd]
  · have hd' : e.disconnectEventSent = false := by simpa using hd
    split <;> simp [hd', h]

end Ggrs.Endpoint

namespace Ggrs.SyncLayer

/-- The cut-off: a player that is disconnected as of a frame before the one being simulated gets
the default input with status Disconnected, whatever the input queue holds. -/
theorem C07_cutoff (pred : Predictor) (cur : Frame) (cs : ConnStatus) (rest : List ConnStatus) (i : Nat)
    (qs : List InputQueue) (acc : List (Input × InputStatus))
    (hd : cs.disconnected = true) (hf : cs.lastFrame < cur) :
    synchronizedInputsLoop pred cur (cs :: rest) i qs acc =
      synchronizedInputsLoop pred cur rest (i + 1) qs ((0, .disconnected) :: acc) := by
  simp [synchronizedInputsLoop, hd, hf]

end Ggrs.SyncLayer

namespace Ggrs.P2P

/-- **C07/C10, an endpoint's players are dropped together (every state).** `disconnect_player_at_frame`
for a remote player marks EVERY player behind its address as disconnected, moves no `last_frame`
(in particular never lowers one), touches nobody else, leaves the sync layer alone, and schedules
the re-simulation from `last_frame + 1` — or from an earlier frame already scheduled — exactly when
the session has simulated past it. -/
theorem C07_disconnect_marks_endpoint (s s' : P2P) (now handle addr : Nat) (lastFrame : Frame) (ep : Endpoint)
    (hpt : s.playerType handle = some (.remote addr)) (hep : findEp s.remotes addr = some ep)
    (h : s.disconnectPlayerAtFrame now handle lastFrame = .ok s') :
    (∀ g, g ∈ ep.handles → g < s.localConnectStatus.length → (rget s'.localConnectStatus g).disconnected = true) ∧
    (∀ g, (rget s'.localConnectStatus g).lastFrame = (rget s.localConnectStatus g).lastFrame) ∧
    (∀ g, g ∉ ep.handles → rget s'.localConnectStatus g = rget s.localConnectStatus g) ∧
    s'.sync = s.sync ∧
    s'.disconnectFrame = (if s.sync.currentFrame > lastFrame + 1 then
        (if s.disconnectFrame == NULL_FRAME then lastFrame + 1 else min s.disconnectFrame (lastFrame + 1))
      else s.disconnectFrame) := by
  obtain ⟨a, b, c, d, e, _⟩ := disconnectAt_fields s s' now handle addr lastFrame ep hpt hep h
  exact ⟨a, b, c, d, e⟩

end Ggrs.P2P

namespace Ggrs

/-- **C07, the survivor's timeline (rollback sessions, either saving mode; drops detected locally).** Take any
run of remote-input arrivals, `advance_frame` calls whose requests the game executes, accepted
`disconnect_player` calls and Disconnected events of endpoints (what a timeout raises), in any
order and number, from a state satisfying the invariant (a freshly built session does, below).
For the next `advance_frame` call there are requests `reqs1` — its rollback-and-save phase, a
prefix of what it returns — such that once the game has executed them, for EVERY player marked
disconnected (whether long ago or since the previous call) and every simulated frame `f`:
beyond the player's last frame the game's last simulation of `f` used the blank input with status
Disconnected for it — including the frames that had been simulated with predictions — and up to
the last frame it used the player's real input (a remote player's stream ends exactly at its last
frame). If the call goes on to simulate a new frame, that frame too carries the blank input with
status Disconnected for every such player, and the invariant holds again afterwards. -/
theorem C07_survivor_timeline (x y : P2P × TLState) (h0 : XInv x) (hrun : XStar x y)
    (now : Nat) (s' : P2P) (reqs' : List Request)
    (hadv : y.1.advanceRollbackFrame now [] = .ok (s', reqs')) :
    ∃ (gh : DGhost) (reqs1 : List Request),
      (reqs' = reqs1 ∨ ∃ ins : List (Input × InputStatus), reqs' = reqs1 ++ [.advance ins] ∧
        ins.length = y.1.sync.queues.length ∧
        ∀ p, p < y.1.sync.queues.length → (rget y.1.localConnectStatus p).disconnected = true →
          (rget y.1.localConnectStatus p).lastFrame < y.1.sync.currentFrame →
          ins.getD p default = (0, .disconnected)) ∧
      (∀ p, p < y.1.sync.queues.length → (rget y.1.localConnectStatus p).disconnected = true →
        ∀ f : Nat, (f : Int) < y.1.sync.currentFrame →
          ((rget y.1.localConnectStatus p).lastFrame < (f : Int) →
            ((execReqs y.2 reqs1).R f).getD p default = (0, .disconnected)) ∧
          ((f : Int) ≤ (rget y.1.localConnectStatus p).lastFrame → f < (gh.specs p).vals.length →
            (((execReqs y.2 reqs1).R f).getD p default).1 = (gh.specs p).vals.getD f 0)) ∧
      (∀ p, p < y.1.sync.queues.length → p ∉ y.1.localPlayerHandles →
        ((gh.specs p).vals.length : Int) = (rget y.1.localConnectStatus p).lastFrame + 1) ∧
      XInv (s', execReqs y.2 reqs') := by
  obtain ⟨gh, st0, h⟩ := XInv_run x y h0 hrun
  obtain ⟨s1, reqs1, gh1, _, gh', hset, hright, hinv', _, _, _, _, _, _, _, hcase⟩ :=
    advanceRollbackFrame_specD y.1 s' gh y.2 [] reqs' now st0 h hadv
  refine ⟨gh1, reqs1, ?_, ?_, ?_, ⟨gh', _, SessInvD_rebase s' gh' y.2 reqs' _ hinv'⟩⟩
  · rcases hcase with ⟨hr, _⟩ | ⟨c, ins, hc, hr, hil, hok, _⟩
    · exact Or.inl hr
    · refine Or.inr ⟨ins, hr, hil, ?_⟩
      intro p hp hd hlt
      exact (hok p (by rw [hil]; exact hp)).1 ⟨hd, by rw [← hc]; exact hlt⟩
  · intro p hp hd f hf
    have hp1 : p < s1.sync.queues.length := by rw [hset.nq]; exact hp
    refine ⟨fun hlf => hset.inv.deadRows p hp1 hd f hlf (by rw [hset.cur]; exact hf), fun hle hlen => ?_⟩
    rw [← hset.inv.rows p hp1 f]
    exact hright p hp1 f (by rw [hset.cur]; exact hf) hlen (fun _ => hle)
  · intro p hp hnl
    rw [hset.specs]
    have := h.remote p hp hnl
    rw [this.2.2, this.2.1]

/-- `C07_final_timeline` at one state with the invariant. -/
theorem C07_final_timeline_at (s s' : P2P) (gh : DGhost) (t : TLState) (st0 : List ConnStatus)
    (h : SessInvD s gh t [] st0) (now : Nat) (reqs' : List Request)
    (hadv : s.advanceRollbackFrame now [] = .ok (s', reqs')) :
    ∃ gh' : DGhost, ∀ p, p < s.sync.queues.length → (rget s.localConnectStatus p).disconnected = true →
      ∀ f : Nat, (f : Int) < s'.sync.currentFrame →
        ((rget s.localConnectStatus p).lastFrame < (f : Int) →
          ((execReqs t reqs').R f).getD p default = (0, .disconnected)) ∧
        (p ∉ s.localPlayerHandles → (f : Int) ≤ (rget s.localConnectStatus p).lastFrame →
          (((execReqs t reqs').R f).getD p default).1 = (gh'.specs p).vals.getD f 0 ∧
          ((gh'.specs p).vals.length : Int) = (rget s.localConnectStatus p).lastFrame + 1) := by
  obtain ⟨_, _, _, _, gh', _, _, hinv', hh, _, hnq, _, hsame, _, _⟩ :=
    advanceRollbackFrame_specD s s' gh t [] reqs' now st0 h hadv
  refine ⟨gh', ?_⟩
  intro p hp hd f hf
  have hp' : p < s'.sync.queues.length := by rw [hnq]; exact hp
  have hst := hsame p hd
  have hd' : (rget s'.localConnectStatus p).disconnected = true := by rw [hst]; exact hd
  have hlp : s'.localPlayerHandles = s.localPlayerHandles := by unfold P2P.localPlayerHandles; rw [hh]
  refine ⟨fun hlf => hinv'.tinv.deadRows p hp' hd' f (by rw [hst]; exact hlf) hf, fun hnl hle => ⟨?_, ?_⟩⟩
  · exact deadColumn_right s' gh' t reqs' _ hinv' p hp' hd' (by rw [hlp]; exact hnl) f hf (by rw [hst]; exact hle)
  · have := hinv'.remote p hp' (by rw [hlp]; exact hnl)
    rw [this.2.2, this.2.1, hst]

/-- **C07, the final timeline (rollback sessions, either saving mode; drops detected locally).** After any
run of arrivals, calls, accepted `disconnect_player` calls and Disconnected events, let the game
execute the whole request list of one more `advance_frame` call. Then for every player that was
marked disconnected when the call began and every frame `f` the game has simulated so far: if `f`
lies beyond the player's last frame, the game's last simulation of `f` used the blank input with
status Disconnected for it; and (remote players) if it does not, it used the player's real input
of `f`. So the dropped player's part of the survivor's timeline is final and coherent at the end
of the first call after the drop, and stays so after every later call. -/
theorem C07_final_timeline (x y : P2P × TLState) (h0 : XInv x) (hrun : XStar x y)
    (now : Nat) (s' : P2P) (reqs' : List Request)
    (hadv : y.1.advanceRollbackFrame now [] = .ok (s', reqs')) :
    ∃ gh' : DGhost, ∀ p, p < y.1.sync.queues.length → (rget y.1.localConnectStatus p).disconnected = true →
      ∀ f : Nat, (f : Int) < s'.sync.currentFrame →
        ((rget y.1.localConnectStatus p).lastFrame < (f : Int) →
          ((execReqs y.2 reqs').R f).getD p default = (0, .disconnected)) ∧
        (p ∉ y.1.localPlayerHandles → (f : Int) ≤ (rget y.1.localConnectStatus p).lastFrame →
          (((execReqs y.2 reqs').R f).getD p default).1 = (gh'.specs p).vals.getD f 0 ∧
          ((gh'.specs p).vals.length : Int) = (rget y.1.localConnectStatus p).lastFrame + 1) := by
  obtain ⟨gh, st0, h⟩ := XInv_run x y h0 hrun
  exact C07_final_timeline_at y.1 s' gh y.2 st0 h now reqs' hadv

/-- `C07_final_timeline` for runs that also contain `set_input_delay` calls of local players — the
largest world: arrivals, calls, delay changes, accepted `disconnect_player` calls, Disconnected
events, in any order. -/
theorem C07_final_timeline_delay (x y : P2P × TLState) (h0 : YInv x) (hrun : YStar x y)
    (now : Nat) (s' : P2P) (reqs' : List Request)
    (hadv : y.1.advanceRollbackFrame now [] = .ok (s', reqs')) :
    ∃ gh' : DGhost, ∀ p, p < y.1.sync.queues.length → (rget y.1.localConnectStatus p).disconnected = true →
      ∀ f : Nat, (f : Int) < s'.sync.currentFrame →
        ((rget y.1.localConnectStatus p).lastFrame < (f : Int) →
          ((execReqs y.2 reqs').R f).getD p default = (0, .disconnected)) ∧
        (p ∉ y.1.localPlayerHandles → (f : Int) ≤ (rget y.1.localConnectStatus p).lastFrame →
          (((execReqs y.2 reqs').R f).getD p default).1 = (gh'.specs p).vals.getD f 0 ∧
          ((gh'.specs p).vals.length : Int) = (rget y.1.localConnectStatus p).lastFrame + 1) := by
  obtain ⟨gh, st0, h⟩ := (YInv_run x y h0 hrun).xinv
  exact C07_final_timeline_at y.1 s' gh y.2 st0 h now reqs' hadv

/-- The premises of `C07_survivor_timeline` are satisfiable: a freshly built session
(all queues new, every status blank, frame 0, no disconnect pending) satisfies `XInv` against any
game timeline at frame 0. -/
example (s : P2P) (R : Nat → List (Input × InputStatus)) (n : Nat)
    (hq : s.sync.queues = List.replicate n InputQueue.new) (hst : s.localConnectStatus = List.replicate n {})
    (hc : s.sync.currentFrame = 0) (hdf : s.disconnectFrame = NULL_FRAME) :
    XInv (s, ⟨0, R⟩) :=
  ⟨_, _, SessInvD_of_SessInv s _ ⟨0, R⟩ [] (SessInv_init s R n hq hst hc) hdf⟩

/-- **C07 in lockstep mode.** Start from any state satisfying the lockstep invariant with drops (a
freshly built session does: `LkInvD_init`) and run ANY sequence of remote-input arrivals, lockstep
`advance_frame` calls whose requests the game executes, accepted `disconnect_player` calls and
Disconnected events of endpoints. Then (1) every row of the game's timeline below the current frame
is `rowOfD`: per player the real input with status Confirmed, or — exactly for the players marked
disconnected with a last frame before that row — the blank input with status Disconnected (a
lockstep session never runs beyond a connected player's last frame, so no simulated frame ever has
to be redone when a player drops: `disconnect_frame` stays NULL); and (2) one more call returns
no request at all or exactly one AdvanceFrame carrying that row for the current frame — never a
SaveGameState or LoadGameState — and keeps the invariant. -/
theorem C07_lockstep_timeline (x y : P2P × TLState) (h0 : ∃ gh, LkInvD x.1 gh x.2) (hrun : LkXStar x y) :
    ∃ gh, LkInvD y.1 gh y.2 ∧
      (∀ f : Nat, (f : Int) < y.1.sync.currentFrame →
        y.2.R f = rowOfD gh y.1.localConnectStatus y.1.sync.queues.length f) ∧
      ∀ (now : Nat) (s' : P2P) (reqs' : List Request), y.1.advanceLockstepFrame now [] = .ok (s', reqs') →
        ∃ gh', LkInvD s' gh' (execReqs y.2 reqs') ∧
          ((reqs' = [] ∧ s'.sync.currentFrame = y.1.sync.currentFrame) ∨
           (∃ c : Nat, y.1.sync.currentFrame = (c : Int) ∧
             reqs' = [.advance (rowOfD gh' y.1.localConnectStatus y.1.sync.queues.length c)] ∧
             s'.sync.currentFrame = y.1.sync.currentFrame + 1)) := by
  obtain ⟨gh, h⟩ := LkInvD_run x y h0 hrun
  refine ⟨gh, h, h.timeline, ?_⟩
  intro now s' reqs' hadv
  obtain ⟨gh', h', hcase, _⟩ := lockstepTick_specD y.1 s' gh y.2 now reqs' h hadv
  exact ⟨gh', h', hcase⟩

/-- The premises of `C07_lockstep_timeline` are satisfiable. -/
example (s : P2P) (R : Nat → List (Input × InputStatus)) (n : Nat)
    (hq : s.sync.queues = List.replicate n InputQueue.new) (hst : s.localConnectStatus = List.replicate n {})
    (hc : s.sync.currentFrame = 0) (hdf : s.disconnectFrame = NULL_FRAME) :
    ∃ gh, LkInvD s gh ⟨0, R⟩ := ⟨_, LkInvD_init s R n hq hst hc hdf⟩

end Ggrs

namespace Ggrs

/-- **Non-vacuity of the world with drops.** A freshly built session with an endpoint for its remote
player satisfies the invariant with dead players, and the world `XStar` contains the run it is
meant for: two calls simulate frames 0 and 1 predicting the remote player (whose input never
arrives), the user drops that player with `disconnect_player` (accepted), and the next call rolls
back to frame 0 and re-simulates both frames with the player's blank input marked Disconnected —
frames already simulated with predictions included — before simulating frame 2 the same way. -/
theorem C07_drop_nonvacuous :
    XInv (demoD0, ⟨0, fun _ => []⟩) ∧ (∃ t', XStar (demoD0, ⟨0, fun _ => []⟩) (demoD4, t')) ∧
    (getOk demoD4r).2.any (fun r => match r with | .load 0 => true | _ => false) = true ∧
    (getOk demoD4r).2.getLast? = some (.advance [(7, .confirmed), (0, .disconnected)]) :=
  ⟨⟨_, _, SessInvD_of_SessInv demoD0 _ _ [] (SessInv_init demoD0 (fun _ => []) 2 rfl rfl rfl) rfl⟩,
    demo_drop_run _, demo_drop_facts.1, demo_drop_facts.2⟩

end Ggrs

