/-
Lemmas about the endpoint model (Model/Protocol.lean): which fields each handler can touch.
-/
import GgrsModel.Model.Protocol

namespace Ggrs.Endpoint

/-- The part of an endpoint the handshake is about. -/
structure Hs where
  state : ProtoState
  syncRemaining : Nat
  deriving DecidableEq

def hs (e : Endpoint) : Hs := ⟨e.state, e.syncRemaining⟩

@[simp] theorem hs_queueMessage (e : Endpoint) (now : Nat) (b : MsgBody) : (e.queueMessage now b).hs = e.hs := rfl

@[simp] theorem hs_takeNonce (e : Endpoint) : e.takeNonce.1.hs = e.hs := by
  unfold takeNonce; split <;> rfl

@[simp] theorem hs_sendSyncRequest (e : Endpoint) (now : Nat) : (e.sendSyncRequest now).hs = e.hs := by
  unfold sendSyncRequest
  simp only [hs_queueMessage]
  show (hs { ({ e with lastSyncRequestTime := now } : Endpoint).takeNonce.1 with syncRandomRequests := _ }) = _
  have := hs_takeNonce { e with lastSyncRequestTime := now }
  simpa [hs] using this

@[simp] theorem hs_popPendingOutput (e : Endpoint) (a : Frame) : (e.popPendingOutput a).hs = e.hs := rfl

@[simp] theorem hs_sendInputAck (e : Endpoint) (now : Nat) : (e.sendInputAck now).hs = e.hs := rfl

theorem hs_acceptInputs : ∀ (inputs : List Codec.Bytes) (e : Endpoint) (sf : Frame) (i : Nat),
    (acceptInputs e sf inputs i).1.hs = e.hs := by
  intro inputs
  induction inputs with
  | nil => intro e sf i; rfl
  | cons x xs ih =>
    intro e sf i
    unfold acceptInputs
    simp only
    split
    · exact ih e sf (i + 1)
    · split
      · rfl
      · rw [ih]; rfl

@[simp] theorem hs_applyInputHeader (e : Endpoint) (st : List ConnStatus) (dr : Bool) (af : Frame) :
    (e.applyInputHeader st dr af).hs = e.hs := by
  unfold applyInputHeader
  simp only
  split
  · split <;> rfl
  · rfl

@[simp] theorem hs_acceptDecoded (e : Endpoint) (now : Nat) (sf : Frame) (inputs : List Codec.Bytes) :
    (e.acceptDecoded now sf inputs).hs = e.hs := by
  unfold acceptDecoded
  simp only
  split
  · exact hs_acceptInputs inputs e sf 0
  · have := hs_acceptInputs inputs e sf 0
    simpa [hs, sendInputAck, queueMessage] using this

@[simp] theorem hs_decodeInputs (e : Endpoint) (now : Nat) (sf : Frame) (bytes : Codec.Bytes) :
    (e.decodeInputs now sf bytes).hs = e.hs := by
  unfold decodeInputs
  simp only
  split
  · rfl
  · split
    · rfl
    · rw [hs_acceptDecoded]; rfl

@[simp] theorem hs_onInput (e : Endpoint) (now : Nat) (st : List ConnStatus) (dr : Bool) (sf af : Frame)
    (bytes : Codec.Bytes) : (e.onInput now st dr sf af bytes).hs = e.hs := by
  unfold onInput
  split
  · rfl
  · split
    · rfl
    · simp

end Ggrs.Endpoint
