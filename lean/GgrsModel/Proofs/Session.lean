/-
L-session: the rollback core of `P2PSession` (`advance_frame` in rollback mode and the arrival of
remote inputs) keeps the session invariant, for sessions in which no player is marked
disconnected.
-/
import GgrsModel.Proofs.Timeline
import GgrsModel.Proofs.Frame

namespace Ggrs
open InputQueue

/-- `mapM` in the panic monad: same length, pointwise results. -/
theorem mapM_ok {α β} [Inhabited α] [Inhabited β] (f : α → M β) : ∀ (l : List α) (l' : List β),
    l.mapM f = .ok l' → l'.length = l.length ∧ ∀ p, p < l.length → f (rget l p) = .ok (rget l' p) := by
  intro l
  induction l with
  | nil =>
    intro l' h
    simp only [List.mapM_nil] at h
    have := pure_ok h
    subst this
    exact ⟨rfl, fun p hp => by simp at hp⟩
  | cons a rest ih =>
    intro l' h
    simp only [List.mapM_cons] at h
    obtain ⟨b, hb, h⟩ := bind_ok h
    obtain ⟨bs, hbs, h⟩ := bind_ok h
    have := pure_ok h
    subst this
    obtain ⟨hl, hp⟩ := ih bs hbs
    refine ⟨by simp [hl], ?_⟩
    intro p hpl
    cases p with
    | zero => simpa [rget] using hb
    | succ p =>
      have := hp p (by simpa using hpl)
      simpa [rget] using this

/-- The session invariant. `reqs` are the requests issued so far in the current call, `t0` the
game's timeline when the call began. -/
structure SessInv (s : P2P) (gh : Ghost) (t0 : TLState) (reqs : List Request) : Prop where
  tinv : TInv s.pred s.sync s.localConnectStatus gh t0 reqs
  asked : AllAsked s.sync.queues s.sync.currentFrame
  /-- the connection status never claims more than the queue holds -/
  status : ∀ p, p < s.sync.queues.length →
    (rget s.localConnectStatus p).lastFrame ≤ (rget s.sync.queues p).lastAddedFrame
  /-- queues of remote players: no delay, inputs strictly sequential, nothing but real inputs -/
  remote : ∀ p, p < s.sync.queues.length → p ∉ s.localPlayerHandles →
    (gh.specs p).delay = 0 ∧ (gh.specs p).lastUser = (rget s.localConnectStatus p).lastFrame ∧
    ((gh.specs p).vals.length : Int) = (gh.specs p).lastUser + 1

theorem lastAdded_of_QI {pr q s H Tp cur} (h : QI pr q s H Tp cur) : q.lastAddedFrame = (s.vals.length : Int) - 1 :=
  h.ring.lastAdded

/-- A step that re-settles the queues (rollback and save) keeps the session invariant. -/
theorem SessInv_of_settled (s s' : P2P) (gh gh' : Ghost) (t0 : TLState) (reqs reqs' : List Request)
    (h : SessInv s gh t0 reqs) (hs : Settled s s' gh gh' t0 reqs') : SessInv s' gh' t0 reqs' := by
  have hlp : s'.localPlayerHandles = s.localPlayerHandles := by unfold P2P.localPlayerHandles; rw [hs.rest.1]
  refine ⟨by rw [hs.pred, hs.statuses]; exact hs.inv, hs.asked, ?_, ?_⟩
  · intro p hp
    have hp0 : p < s.sync.queues.length := by rw [← hs.nq]; exact hp
    rw [hs.statuses, lastAdded_of_QI (hs.inv.sync.all p hp), hs.specs, ← lastAdded_of_QI (h.tinv.sync.all p hp0)]
    exact h.status p hp0
  · intro p hp hnl
    have hp0 : p < s.sync.queues.length := by rw [← hs.nq]; exact hp
    rw [hs.specs, hs.statuses]
    exact h.remote p hp0 (by rw [← hlp]; exact hnl)

/-- `set_last_confirmed_frame` with a frame no player's status exceeds. -/
theorem setLastConfirmed_spec (s : P2P) (sy' : SyncLayer) (gh : Ghost) (t0 : TLState) (reqs : List Request)
    (frame : Frame) (h : SessInv s gh t0 reqs)
    (hle : ∀ p, p < s.sync.queues.length → frame ≤ (rget s.localConnectStatus p).lastFrame)
    (hset : s.sync.setLastConfirmedFrame frame s.sparse = .ok sy') :
    SessInv { s with sync := sy' } gh t0 reqs ∧ sy'.currentFrame = s.sync.currentFrame ∧
    (∀ p, p < sy'.queues.length → (rget sy'.queues p).firstIncorrectFrame = (rget s.sync.queues p).firstIncorrectFrame) ∧
    sy'.queues.length = s.sync.queues.length := by
  unfold SyncLayer.setLastConfirmedFrame at hset
  simp only at hset
  generalize hfr : min (if s.sparse = true then min frame s.sync.lastSavedFrame else frame) s.sync.currentFrame = fr at hset
  have hfrle : fr ≤ frame := by
    rw [← hfr]
    split
    · exact Int.le_trans (Int.min_le_left _ _) (Int.min_le_left _ _)
    · exact Int.min_le_left _ _
  obtain ⟨_, hset⟩ := ensure_bind_ok hset
  by_cases hpos : fr > 0
  · simp only [hpos, if_true] at hset
    obtain ⟨qs, hmap, hset⟩ := bind_ok hset
    have := pure_ok hset
    subst this
    obtain ⟨hl, hpt⟩ := mapM_ok _ _ _ hmap
    have hstep : ∀ p, p < s.sync.queues.length →
        QI s.pred (rget qs p) (gh.specs p) (gh.hists p) (gh.T p) s.sync.currentFrame ∧
        Asked (rget qs p) s.sync.currentFrame ∧
        (rget qs p).firstIncorrectFrame = (rget s.sync.queues p).firstIncorrectFrame ∧
        (rget qs p).lastAddedFrame = (rget s.sync.queues p).lastAddedFrame := by
      intro p hp
      have hd := hpt p hp
      have hlt : fr - 1 < (rget s.sync.queues p).lastAddedFrame := by
        have := h.status p hp
        have := hle p hp
        omega
      obtain ⟨hqi, hask⟩ := QI_discard s.pred _ _ _ _ _ _ (fr - 1) (h.tinv.sync.all p hp) (h.asked p hp) hlt hd
      refine ⟨hqi, hask, (discard_fields _ _ _ hd).2.1, ?_⟩
      rw [lastAdded_of_QI hqi, lastAdded_of_QI (h.tinv.sync.all p hp)]
    refine ⟨⟨⟨⟨h.tinv.sync.cur, by show _ = qs.length; rw [hl]; exact h.tinv.sync.nq, h.tinv.sync.conn, ?_⟩,
      h.tinv.exec, ?_⟩, ?_, ?_, ?_⟩, rfl, ?_, hl⟩
    · intro p hp
      exact (hstep p (by rw [← hl]; exact hp)).1
    · intro p hp f
      exact h.tinv.rows p (by rw [← hl]; exact hp) f
    · intro p hp
      exact (hstep p (by rw [← hl]; exact hp)).2.1
    · intro p hp
      have hp0 : p < s.sync.queues.length := by rw [← hl]; exact hp
      show (rget s.localConnectStatus p).lastFrame ≤ (rget qs p).lastAddedFrame
      rw [(hstep p hp0).2.2.2]; exact h.status p hp0
    · intro p hp hnl
      exact h.remote p (by rw [← hl]; exact hp) hnl
    · intro p hp
      exact (hstep p (by rw [← hl]; exact hp)).2.2.1
  · simp only [hpos, if_false] at hset
    have := pure_ok hset
    subst this
    exact ⟨⟨⟨SyncInv_congr h.tinv.sync rfl rfl, h.tinv.exec, h.tinv.rows⟩, h.asked, h.status, h.remote⟩, rfl,
      fun _ _ => rfl, rfl⟩

end Ggrs

namespace Ggrs
open InputQueue

theorem mem_rset {α} (l : List α) (i : Nat) (v x : α) (h : x ∈ rset l i v) : x = v ∨ x ∈ l := by
  unfold rset at h
  rcases List.mem_or_eq_of_mem_set h with h1 | h1
  · exact Or.inr h1
  · exact Or.inl h1

/-- A sequential submission to a remote player's stream (no delay). -/
theorem submit_remote (s : QSpec) (uf : Int) (v : Input) (h0 : 0 ≤ uf) (hd : s.delay = 0)
    (hseq : s.lastUser = -1 ∨ uf = s.lastUser + 1) (hlen : (s.vals.length : Int) = s.lastUser + 1) :
    (s.submit uf v).1.delay = 0 ∧ (s.submit uf v).1.lastUser = uf ∧
    ((s.submit uf v).1.vals.length : Int) = uf + 1 := by
  unfold QSpec.submit
  have h1 : (s.lastUser != -1 && uf != s.lastUser + 1) = false := by
    rcases hseq with h | h
    · simp [h]
    · simp [h]
  simp only [h1, Bool.false_eq_true, if_false, hd]
  have h2 : ¬ ((s.vals.length : Int) > uf + ((0 : Nat) : Int)) := by
    rcases hseq with h | h
    · rw [hlen, h]; omega
    · rw [hlen, h]; omega
  simp only [h2, if_false]
  refine ⟨?_, ?_, ?_⟩
  · first | rfl | trivial
  · first | rfl | trivial
  · simp only [List.length_append, List.length_replicate, List.length_cons, List.length_nil]
    push_cast
    omega

/-- The prediction gate (`synchronized_inputs` + `advance_frame`, or a stall). -/
theorem rollbackGate_spec (s s' : P2P) (gh : Ghost) (t0 : TLState) (reqs reqs' : List Request)
    (h : SessInv s gh t0 reqs) (hg : s.rollbackGate reqs = .ok (s', reqs')) :
    ∃ gh', SessInv s' gh' t0 reqs' ∧ gh'.specs = gh.specs ∧ s'.localConnectStatus = s.localConnectStatus ∧
      s'.handles = s.handles ∧ s'.pred = s.pred ∧
      ((s' = s ∧ reqs' = reqs) ∨
       (∃ (c : Nat) (ins : List (Input × InputStatus)), s.sync.currentFrame = (c : Int) ∧
          reqs' = reqs ++ [.advance ins] ∧ InputsOk s.pred gh c ins ∧ s'.sync.currentFrame = s.sync.currentFrame + 1)) := by
  unfold P2P.rollbackGate at hg
  split at hg
  · obtain ⟨r, hsim, hg⟩ := bind_ok hg
    obtain ⟨sy1, ins⟩ := r
    simp only at hg
    have := pure_ok hg
    simp only [Prod.mk.injEq] at this
    obtain ⟨hs', hr'⟩ := this
    obtain ⟨c, gh', hc, hok, hsp, hinv, hcur, hask, _⟩ :=
      TInv_simulate s.pred s.sync sy1 sy1 s.localConnectStatus gh t0 reqs [] ins h.tinv hsim
        (fun r hr => by cases hr) rfl rfl
    simp only [List.append_nil] at hinv
    subst hs'; subst hr'
    refine ⟨gh', ⟨hinv, hask, ?_, ?_⟩, hsp, rfl, rfl, rfl, Or.inr ⟨c, ins, hc, rfl, hok, hcur⟩⟩
    · intro p hp
      have hnq : sy1.advanceFrame.queues.length = s.sync.queues.length := by
        have := hinv.sync.nq; rw [← this]; exact h.tinv.sync.nq
      have hp0 : p < s.sync.queues.length := by rw [← hnq]; exact hp
      show (rget s.localConnectStatus p).lastFrame ≤ (rget sy1.advanceFrame.queues p).lastAddedFrame
      rw [lastAdded_of_QI (hinv.sync.all p hp), hsp, ← lastAdded_of_QI (h.tinv.sync.all p hp0)]
      exact h.status p hp0
    · intro p hp hnl
      have hnq : sy1.advanceFrame.queues.length = s.sync.queues.length := by
        have := hinv.sync.nq; rw [← this]; exact h.tinv.sync.nq
      rw [hsp]
      exact h.remote p (by rw [← hnq]; exact hp) hnl
  · have := pure_ok hg
    simp only [Prod.mk.injEq] at this
    obtain ⟨hs', hr'⟩ := this
    subst hs'; subst hr'
    exact ⟨gh, h, rfl, rfl, rfl, rfl, Or.inl ⟨rfl, rfl⟩⟩

/-- Replacing one queue (and its stream) while the rest stays. -/
theorem SessInv_update (s : P2P) (gh : Ghost) (t0 : TLState) (reqs : List Request) (h : SessInv s gh t0 reqs)
    (p : Nat) (hp : p < s.sync.queues.length) (q' : InputQueue) (sp' : QSpec) (st' : ConnStatus)
    (hqi : QI s.pred q' sp' (gh.hists p) (gh.T p) s.sync.currentFrame) (hask : Asked q' s.sync.currentFrame)
    (hconn : st'.disconnected = false) (hst : st'.lastFrame ≤ q'.lastAddedFrame)
    (hrem : p ∉ s.localPlayerHandles → sp'.delay = 0 ∧ sp'.lastUser = st'.lastFrame ∧ (sp'.vals.length : Int) = sp'.lastUser + 1) :
    SessInv { s with sync := { s.sync with queues := rset s.sync.queues p q' },
                     localConnectStatus := rset s.localConnectStatus p st' }
      { gh with specs := fun i => if i = p then sp' else gh.specs i } t0 reqs := by
  have hlen : (rset s.sync.queues p q').length = s.sync.queues.length := rset_length _ _ _
  have hnq' : (rset s.localConnectStatus p st').length = (rset s.sync.queues p q').length := by
    rw [rset_length, rset_length]; exact h.tinv.sync.nq
  refine ⟨⟨⟨h.tinv.sync.cur, hnq', ?_, ?_⟩, h.tinv.exec, ?_⟩, ?_, ?_, ?_⟩
  · intro cs hcs
    rcases mem_rset _ _ _ _ hcs with h1 | h1
    · rw [h1]; exact hconn
    · exact h.tinv.sync.conn cs h1
  · intro i hi
    show QI s.pred (rget (rset s.sync.queues p q') i) _ _ _ _
    rw [hlen] at hi
    by_cases hip : i = p
    · subst hip
      simp only [if_true]
      rw [rget_rset_eq _ _ _ hi]; exact hqi
    · simp only [hip, if_false]
      rw [rget_rset_ne _ _ _ _ (fun h => hip h.symm)]; exact h.tinv.sync.all i hi
  · intro i hi f
    exact h.tinv.rows i (by rw [← hlen]; exact hi) f
  · intro i hi
    show Asked (rget (rset s.sync.queues p q') i) _
    rw [hlen] at hi
    by_cases hip : i = p
    · subst hip; rw [rget_rset_eq _ _ _ hi]; exact hask
    · rw [rget_rset_ne _ _ _ _ (fun h => hip h.symm)]; exact h.asked i hi
  · intro i hi
    show (rget (rset s.localConnectStatus p st') i).lastFrame ≤ (rget (rset s.sync.queues p q') i).lastAddedFrame
    rw [hlen] at hi
    by_cases hip : i = p
    · subst hip
      rw [rget_rset_eq _ _ _ hi, rget_rset_eq _ _ _ (by rw [h.tinv.sync.nq]; exact hi)]; exact hst
    · rw [rget_rset_ne _ _ _ _ (fun h => hip h.symm), rget_rset_ne _ _ _ _ (fun h => hip h.symm)]; exact h.status i hi
  · intro i hi hnl
    show (if i = p then sp' else gh.specs i).delay = 0 ∧ (if i = p then sp' else gh.specs i).lastUser =
      (rget (rset s.localConnectStatus p st') i).lastFrame ∧ _
    rw [hlen] at hi
    by_cases hip : i = p
    · subst hip
      simp only [if_true]
      rw [rget_rset_eq _ _ _ (by rw [h.tinv.sync.nq]; exact hi)]
      exact hrem hnl
    · simp only [hip, if_false]
      rw [rget_rset_ne _ _ _ _ (fun h => hip h.symm)]
      exact h.remote i hi hnl

end Ggrs

namespace Ggrs
open InputQueue

/-- **Arrival of a remote input** (`handle_event` for `Event::Input`). -/
theorem remoteInput_spec (s s' : P2P) (gh : Ghost) (t0 : TLState) (reqs : List Request) (now : Nat)
    (inp : PlayerInput) (player : Nat) (handles : List Nat) (addr : Nat)
    (h : SessInv s gh t0 reqs) (hnl : player ∉ s.localPlayerHandles) (h0 : 0 ≤ inp.frame)
    (hev : s.handleEventCore now (.input inp player) handles addr = .ok s') :
    ∃ gh', SessInv s' gh' t0 reqs ∧ gh'.T = gh.T ∧ s'.sync.currentFrame = s.sync.currentFrame ∧
      s'.handles = s.handles ∧ s'.pred = s.pred ∧
      (∀ p, gh'.specs p = if p = player then ((gh.specs p).submit inp.frame inp.input).1 else gh.specs p) := by
  unfold P2P.handleEventCore at hev
  simp only at hev
  obtain ⟨_, hev⟩ := ensure_bind_ok hev
  have hnd : (rget s.localConnectStatus player).disconnected = false := by
    by_cases hp : player < s.localConnectStatus.length
    · exact h.tinv.sync.conn _ (mem_of_rget _ _ hp)
    · have : rget s.localConnectStatus player = default := by
        simp [rget, List.getD_eq_getElem?_getD, List.getElem?_eq_none (by omega : s.localConnectStatus.length ≤ player)]
      rw [this]; rfl
  simp only [hnd, Bool.not_false, if_true] at hev
  obtain ⟨hseq, hev⟩ := ensure_bind_ok hev
  obtain ⟨sy, hadd, hev⟩ := bind_ok hev
  have := pure_ok hev
  subst this
  unfold SyncLayer.addRemoteInput at hadd
  obtain ⟨hpl, hadd⟩ := ensure_bind_ok hadd
  have hp : player < s.sync.queues.length := of_decide_eq_true hpl
  obtain ⟨r, haq, hadd⟩ := bind_ok hadd
  obtain ⟨q', fr⟩ := r
  simp only at hadd
  have := pure_ok hadd
  subst this
  have haq' : (rget s.sync.queues player).addInput ⟨inp.frame, inp.input⟩ = .ok (q', fr) := haq
  obtain ⟨hqi, hask, hfr⟩ := QI_add s.pred _ q' _ _ _ _ inp.frame inp.input fr (h.tinv.sync.all player hp)
    (h.asked player hp) haq'
  obtain ⟨hd, hlu, hlen⟩ := h.remote player hp hnl
  have hseq' : (gh.specs player).lastUser = -1 ∨ inp.frame = (gh.specs player).lastUser + 1 := by
    rw [hlu]
    simp only [Bool.or_eq_true, beq_iff_eq] at hseq
    rcases hseq with h1 | h1
    · left; exact h1
    · right; omega
  obtain ⟨hd', hlu', hlen'⟩ := submit_remote (gh.specs player) inp.frame inp.input h0 hd hseq' hlen
  have hst : inp.frame ≤ q'.lastAddedFrame := by
    rw [lastAdded_of_QI hqi]; omega
  have hupd := SessInv_update s gh t0 reqs h player hp q' _ { rget s.localConnectStatus player with lastFrame := inp.frame }
    hqi hask hnd hst (fun _ => ⟨hd', hlu', by rw [hlu']; exact hlen'⟩)
  refine ⟨_, hupd, rfl, rfl, rfl, rfl, fun p => ?_⟩
  show (if p = player then _ else gh.specs p) = _
  by_cases hpp : p = player
  · subst hpp; simp
  · simp [hpp]

end Ggrs

namespace Ggrs
open InputQueue

theorem rset_rget_self {α} [Inhabited α] (l : List α) (i : Nat) (h : i < l.length) : rset l i (rget l i) = l := by
  simp [rset, rget, List.getD_eq_getElem?_getD, List.getElem?_eq_getElem h]

theorem SessInv_congr (s s' : P2P) (gh : Ghost) (t0 : TLState) (reqs : List Request) (h : SessInv s gh t0 reqs)
    (h1 : s'.pred = s.pred) (h2 : s'.sync = s.sync) (h3 : s'.localConnectStatus = s.localConnectStatus)
    (h4 : s'.handles = s.handles) : SessInv s' gh t0 reqs := by
  have hlp : s'.localPlayerHandles = s.localPlayerHandles := by unfold P2P.localPlayerHandles; rw [h4]
  exact ⟨by rw [h1, h2, h3]; exact h.tinv, by rw [h2]; exact h.asked, by rw [h2, h3]; exact h.status,
    by rw [h2, h3, hlp]; exact h.remote⟩

theorem submit_facts (s : QSpec) (uf : Int) (v : Input) :
    s.vals.length ≤ (s.submit uf v).1.vals.length ∧
    ((s.submit uf v).2 ≠ NULL_FRAME → ((s.submit uf v).1.vals.length : Int) = (s.submit uf v).2 + 1) := by
  unfold QSpec.submit
  split
  · exact ⟨Nat.le_refl _, fun h => absurd rfl h⟩
  · simp only
    split
    · exact ⟨Nat.le_refl _, fun h => absurd rfl h⟩
    · rename_i hnp
      refine ⟨by simp only [List.length_append]; omega, fun _ => ?_⟩
      simp only [List.length_append, List.length_replicate, List.length_cons, List.length_nil]
      push_cast
      omega

/-- One local player's input is registered (`add_local_input` and the bookkeeping around it). -/
theorem registerOne_spec (s s' : P2P) (gh : Ghost) (t0 : TLState) (reqs : List Request) (hd : Nat)
    (h : SessInv s gh t0 reqs) (hloc : hd ∈ s.localPlayerHandles) (hreg : s.registerOne hd = .ok s') :
    ∃ gh', SessInv s' gh' t0 reqs ∧ gh'.T = gh.T ∧ s'.sync.currentFrame = s.sync.currentFrame ∧
      s'.handles = s.handles ∧ s'.pred = s.pred ∧ s'.sparse = s.sparse ∧ s'.maxPrediction = s.maxPrediction ∧
      s'.sync.queues.length = s.sync.queues.length ∧ s'.sync.lastConfirmedFrame = s.sync.lastConfirmedFrame ∧
      (∀ p, (gh.specs p).vals.length ≤ (gh'.specs p).vals.length) ∧
      ∃ pi, s.pendingInputOf hd = .ok pi ∧
        gh'.specs = fun i => if i = hd then ((gh.specs hd).submit pi.frame pi.input).1 else gh.specs i := by
  unfold P2P.registerOne at hreg
  obtain ⟨pi, hpi, hreg⟩ := bind_ok hreg
  obtain ⟨r, hadd, hreg⟩ := bind_ok hreg
  obtain ⟨sy, actual⟩ := r
  simp only at hreg
  unfold SyncLayer.addLocalInput at hadd
  obtain ⟨_, hadd⟩ := ensure_bind_ok hadd
  obtain ⟨hpl, hadd⟩ := ensure_bind_ok hadd
  have hp : hd < s.sync.queues.length := of_decide_eq_true hpl
  obtain ⟨r2, haq, hadd⟩ := bind_ok hadd
  obtain ⟨q', fr⟩ := r2
  simp only at hadd
  have := pure_ok hadd
  simp only [Prod.mk.injEq] at this
  obtain ⟨hsy, hfr⟩ := this
  subst hsy; subst hfr
  have haq' : (rget s.sync.queues hd).addInput ⟨pi.frame, pi.input⟩ = .ok (q', fr) := haq
  obtain ⟨hqi, hask, hfrs⟩ := QI_add s.pred _ q' _ _ _ _ pi.frame pi.input fr (h.tinv.sync.all hd hp)
    (h.asked hd hp) haq'
  obtain ⟨hge, hland⟩ := submit_facts (gh.specs hd) pi.frame pi.input
  have hpst : hd < s.localConnectStatus.length := by rw [h.tinv.sync.nq]; exact hp
  have hnd : (rget s.localConnectStatus hd).disconnected = false := h.tinv.sync.conn _ (mem_of_rget _ _ hpst)
  by_cases hact : (fr != NULL_FRAME) = true
  · simp only [hact, if_true] at hreg
    obtain ⟨s2, hbl, hreg⟩ := bind_ok hreg
    have hc1 := P2P.queueInitialBlanks_sameCore _ _ _ _ hbl
    have hc2 := P2P.queueOutgoing_sameCore _ _ _ _ hreg
    have hne : fr ≠ NULL_FRAME := by simpa using hact
    have hst : fr ≤ q'.lastAddedFrame := by
      rw [lastAdded_of_QI hqi]
      have := hland (by rw [← hfrs]; exact hne)
      rw [← hfrs] at this
      omega
    have hupd := SessInv_update s gh t0 reqs h hd hp q' _ { rget s.localConnectStatus hd with lastFrame := fr }
      hqi hask hnd hst (fun hc => absurd hloc hc)
    refine ⟨_, SessInv_congr _ s' _ t0 reqs hupd ?_ ?_ ?_ ?_, rfl, ?_, ?_, ?_, ?_, ?_, ?_, ?_, ?_, ⟨pi, hpi, rfl⟩⟩
    rotate_right
    · intro p
      show _ ≤ (if p = hd then _ else gh.specs p).vals.length
      by_cases hpp : p = hd
      · subst hpp; simp only [if_true]; exact hge
      · simp only [hpp, if_false]; exact Nat.le_refl _
    · rw [hc2.pred]; show s2.pred = s.pred; rw [hc1.pred]
    · rw [hc2.sync]; show s2.sync = _; rw [hc1.sync]
    · rw [hc2.statuses]; show rset s2.localConnectStatus hd _ = _; rw [hc1.statuses]
    · rw [hc2.handles]; show s2.handles = s.handles; rw [hc1.handles]
    · rw [hc2.sync]; show s2.sync.currentFrame = _; rw [hc1.sync]
    · rw [hc2.handles]; show s2.handles = s.handles; rw [hc1.handles]
    · rw [hc2.pred]; show s2.pred = s.pred; rw [hc1.pred]
    · rw [hc2.sparse]; show s2.sparse = s.sparse; rw [hc1.sparse]
    · rw [hc2.maxPrediction]; show s2.maxPrediction = s.maxPrediction; rw [hc1.maxPrediction]
    · rw [hc2.sync]; show s2.sync.queues.length = _; rw [hc1.sync]; exact rset_length _ _ _
    · rw [hc2.sync]; show s2.sync.lastConfirmedFrame = _; rw [hc1.sync]
  · simp only [hact, Bool.false_eq_true, if_false] at hreg
    have := pure_ok hreg
    subst this
    have hst : (rget s.localConnectStatus hd).lastFrame ≤ q'.lastAddedFrame := by
      rw [lastAdded_of_QI hqi]
      have := h.status hd hp
      rw [lastAdded_of_QI (h.tinv.sync.all hd hp)] at this
      omega
    have hupd := SessInv_update s gh t0 reqs h hd hp q' _ (rget s.localConnectStatus hd)
      hqi hask hnd hst (fun hc => absurd hloc hc)
    refine ⟨_, SessInv_congr _ _ _ t0 reqs hupd rfl rfl ?_ rfl, rfl, rfl, rfl, rfl, rfl, rfl, rset_length _ _ _, rfl, ?_, ⟨pi, hpi, rfl⟩⟩
    · show s.localConnectStatus = rset s.localConnectStatus hd (rget s.localConnectStatus hd)
      rw [rset_rget_self _ _ hpst]
    · intro p
      show _ ≤ (if p = hd then _ else gh.specs p).vals.length
      by_cases hpp : p = hd
      · subst hpp; simp only [if_true]; exact hge
      · simp only [hpp, if_false]; exact Nat.le_refl _

end Ggrs

namespace Ggrs
open InputQueue

/-- What stays fixed while local inputs are registered. -/
structure RegKeeps (s s' : P2P) (gh gh' : Ghost) : Prop where
  T : gh'.T = gh.T
  cur : s'.sync.currentFrame = s.sync.currentFrame
  handles : s'.handles = s.handles
  pred : s'.pred = s.pred
  sparse : s'.sparse = s.sparse
  maxPrediction : s'.maxPrediction = s.maxPrediction
  nq : s'.sync.queues.length = s.sync.queues.length
  lastConfirmed : s'.sync.lastConfirmedFrame = s.sync.lastConfirmedFrame
  grows : ∀ p, (gh.specs p).vals.length ≤ (gh'.specs p).vals.length

theorem registerFold_spec (t0 : TLState) (reqs : List Request) : ∀ (l : List Nat) (s s' : P2P) (gh : Ghost),
    SessInv s gh t0 reqs → (∀ x ∈ l, x ∈ s.localPlayerHandles) → l.foldlM P2P.registerOne s = .ok s' →
    ∃ gh', SessInv s' gh' t0 reqs ∧ RegKeeps s s' gh gh' := by
  intro l
  induction l with
  | nil =>
    intro s s' gh h _ hf
    simp only [List.foldlM_nil] at hf
    have := pure_ok hf
    subst this
    exact ⟨gh, h, ⟨rfl, rfl, rfl, rfl, rfl, rfl, rfl, rfl, fun _ => Nat.le_refl _⟩⟩
  | cons a rest ih =>
    intro s s' gh h hl hf
    simp only [List.foldlM_cons] at hf
    obtain ⟨s1, h1, hf⟩ := bind_ok hf
    obtain ⟨gh1, hinv1, hT1, hc1, hh1, hp1, hsp1, hm1, hn1, hlc1, hgr1, _⟩ :=
      registerOne_spec s s1 gh t0 reqs a h (hl a List.mem_cons_self) h1
    have hlp : s1.localPlayerHandles = s.localPlayerHandles := by unfold P2P.localPlayerHandles; rw [hh1]
    obtain ⟨gh', hinv', hk⟩ := ih s1 s' gh1 hinv1 (fun x hx => by rw [hlp]; exact hl x (List.mem_cons_of_mem _ hx)) hf
    exact ⟨gh', hinv', ⟨hk.T.trans hT1, hk.cur.trans hc1, hk.handles.trans hh1, hk.pred.trans hp1, hk.sparse.trans hsp1,
      hk.maxPrediction.trans hm1, hk.nq.trans hn1, hk.lastConfirmed.trans hlc1,
      fun p => Nat.le_trans (hgr1 p) (hk.grows p)⟩⟩

theorem registerLocalInputs_spec (s s' : P2P) (gh : Ghost) (t0 : TLState) (reqs : List Request) (now : Nat)
    (h : SessInv s gh t0 reqs) (hreg : s.registerLocalInputs now = .ok s') :
    ∃ gh', SessInv s' gh' t0 reqs ∧ RegKeeps s s' gh gh' := by
  unfold P2P.registerLocalInputs at hreg
  obtain ⟨s1, hfold, hsend⟩ := bind_ok hreg
  obtain ⟨gh', hinv, hk⟩ := registerFold_spec t0 reqs _ s s1 gh h (fun x hx => hx) hfold
  have hc := P2P.sendReady_sameCore _ _ _ hsend
  refine ⟨gh', SessInv_congr s1 s' gh' t0 reqs hinv hc.pred hc.sync hc.statuses hc.handles,
    ⟨hk.T, by rw [hc.sync]; exact hk.cur, hc.handles.trans hk.handles, hc.pred.trans hk.pred, hc.sparse.trans hk.sparse,
     hc.maxPrediction.trans hk.maxPrediction, by rw [hc.sync]; exact hk.nq, by rw [hc.sync]; exact hk.lastConfirmed,
     hk.grows⟩⟩

/-- `confirmed_frame` is at most every connected player's last frame. -/
theorem confirmedFrame_le (s : P2P) (c : Frame) (h : s.confirmedFrame = .ok c)
    (hconn : ∀ cs ∈ s.localConnectStatus, cs.disconnected = false) :
    ∀ p, p < s.localConnectStatus.length → c ≤ (rget s.localConnectStatus p).lastFrame := by
  unfold P2P.confirmedFrame at h
  simp only at h
  obtain ⟨_, h⟩ := ensure_bind_ok h
  have := pure_ok h
  subst this
  have key : ∀ (l : List ConnStatus) (m : Int), (∀ cs ∈ l, cs.disconnected = false) →
      l.foldl (fun m cs => if !cs.disconnected then min m cs.lastFrame else m) m ≤ m ∧
      ∀ cs ∈ l, l.foldl (fun m cs => if !cs.disconnected then min m cs.lastFrame else m) m ≤ cs.lastFrame := by
    intro l
    induction l with
    | nil => intro m _; exact ⟨Int.le_refl _, fun cs hcs => by cases hcs⟩
    | cons x xs ih =>
      intro m hc
      have hx : x.disconnected = false := hc x List.mem_cons_self
      simp only [List.foldl_cons, hx, Bool.not_false, if_true]
      obtain ⟨h1, h2⟩ := ih (min m x.lastFrame) (fun cs hcs => hc cs (List.mem_cons_of_mem _ hcs))
      refine ⟨Int.le_trans h1 (Int.min_le_left _ _), ?_⟩
      intro cs hcs
      rcases List.mem_cons.mp hcs with rfl | hin
      · exact Int.le_trans h1 (Int.min_le_right _ _)
      · exact h2 cs hin
  intro p hp
  exact (key s.localConnectStatus _ hconn).2 _ (mem_of_rget _ _ hp)

/-- **`advance_rollback_frame`.** One rollback-mode `advance_frame` call, for a session in which
nobody is marked disconnected. `reqs1` are the requests of the rollback-and-save phase: after
them the game's timeline agrees with every input received so far (`TimelineRight`). The rest of
the call registers the local inputs and, unless the prediction window is exhausted, simulates one
new frame whose inputs are `InputsOk`: real inputs where they have arrived, the fresh prediction
— and only where they have not — otherwise. -/
theorem advanceRollbackFrame_spec (s s' : P2P) (gh : Ghost) (t0 : TLState) (reqs reqs' : List Request) (now : Nat)
    (h : SessInv s gh t0 reqs) (hadv : s.advanceRollbackFrame now reqs = .ok (s', reqs')) :
    ∃ (s1 : P2P) (reqs1 : List Request) (gh1 gh2 gh' : Ghost),
      Settled s s1 gh gh1 t0 reqs1 ∧ TimelineRight s1.sync gh1 ∧
      SessInv s' gh' t0 reqs' ∧ s'.handles = s.handles ∧ s'.pred = s.pred ∧
      (reqs' = reqs1 ∨ ∃ (c : Nat) (ins : List (Input × InputStatus)), s.sync.currentFrame = (c : Int) ∧
        reqs' = reqs1 ++ [.advance ins] ∧ InputsOk s.pred gh2 c ins ∧ gh'.specs = gh2.specs ∧
        s'.sync.currentFrame = s.sync.currentFrame + 1) := by
  unfold P2P.advanceRollbackFrame at hadv
  obtain ⟨confirmed, hconf, hadv⟩ := bind_ok hadv
  obtain ⟨r1, hrs, hadv⟩ := bind_ok hadv
  obtain ⟨s1, reqs1⟩ := r1
  simp only at hadv
  obtain ⟨s2, hspec, hadv⟩ := bind_ok hadv
  obtain ⟨sy3, hset, hadv⟩ := bind_ok hadv
  obtain ⟨s4, hreg, hgate⟩ := bind_ok hadv
  -- rollback and save
  obtain ⟨gh1, hsettled, hright⟩ := handleRollbackAndSave_spec s s1 confirmed t0 reqs reqs1 gh h.tinv h.asked hrs
  have hinv1 := SessInv_of_settled s s1 gh gh1 t0 reqs reqs1 h hsettled
  -- spectators: network only
  have hc2 := P2P.sendConfirmed_sameCore _ _ _ _ hspec
  have hinv2 := SessInv_congr s1 s2 gh1 t0 reqs1 hinv1 hc2.pred hc2.sync hc2.statuses hc2.handles
  -- confirmed frame bookkeeping
  have hle : ∀ p, p < s2.sync.queues.length → confirmed ≤ (rget s2.localConnectStatus p).lastFrame := by
    intro p hp
    rw [hc2.statuses, hsettled.statuses]
    apply confirmedFrame_le s confirmed hconf h.tinv.sync.conn
    rw [h.tinv.sync.nq, ← hsettled.nq, ← hc2.sync]; exact hp
  obtain ⟨hinv3, hcur3, _, _⟩ := setLastConfirmed_spec s2 sy3 gh1 t0 reqs1 confirmed hinv2 hle hset
  -- local inputs
  obtain ⟨gh2, hinv4, hk4⟩ := registerLocalInputs_spec _ s4 gh1 t0 reqs1 now hinv3 hreg
  -- the gate
  obtain ⟨gh', hinv', hsp', _, hh', hp', hcase⟩ := rollbackGate_spec s4 s' gh2 t0 reqs1 reqs' hinv4 hgate
  have hcur4 : s4.sync.currentFrame = s.sync.currentFrame := by
    rw [hk4.cur]; show sy3.currentFrame = _; rw [hcur3, hc2.sync, hsettled.cur]
  have hpred4 : s4.pred = s.pred := by
    rw [hk4.pred]; show s2.pred = _; rw [hc2.pred, hsettled.pred]
  have hh4 : s4.handles = s.handles := by
    rw [hk4.handles]; show s2.handles = _; rw [hc2.handles, hsettled.rest.1]
  refine ⟨s1, reqs1, gh1, gh2, gh', hsettled, hright, hinv', hh'.trans hh4, hp'.trans hpred4, ?_⟩
  rcases hcase with ⟨_, hr⟩ | ⟨c, ins, hc, hr, hok, hcur'⟩
  · exact Or.inl hr
  · exact Or.inr ⟨c, ins, by rw [← hcur4]; exact hc, hr, by rw [← hpred4]; exact hok, hsp', by rw [hcur', hcur4]⟩

end Ggrs

namespace Ggrs
open InputQueue

/-- The invariant at a call boundary: the game has executed the call's requests. -/
theorem SessInv_rebase (s : P2P) (gh : Ghost) (t0 : TLState) (reqs : List Request) (h : SessInv s gh t0 reqs) :
    SessInv s gh (execReqs t0 reqs) [] :=
  ⟨⟨h.tinv.sync, h.tinv.exec, h.tinv.rows⟩, h.asked, h.status, h.remote⟩

theorem userExecute_fields (s : P2P) (saves : List (Frame × Option Nat)) :
    (s.userExecute saves).sync.queues = s.sync.queues ∧ (s.userExecute saves).sync.currentFrame = s.sync.currentFrame ∧
    (s.userExecute saves).sync.cells.length = s.sync.cells.length ∧
    (s.userExecute saves).pred = s.pred ∧ (s.userExecute saves).localConnectStatus = s.localConnectStatus ∧
    (s.userExecute saves).handles = s.handles ∧ (s.userExecute saves).sparse = s.sparse := by
  unfold P2P.userExecute
  have key : ∀ (l : List (Frame × Option Nat)) (sy : SyncLayer),
      (l.foldl (fun sy (p : Frame × Option Nat) => sy.userSave p.1 p.2) sy).queues = sy.queues ∧
      (l.foldl (fun sy (p : Frame × Option Nat) => sy.userSave p.1 p.2) sy).currentFrame = sy.currentFrame ∧
      (l.foldl (fun sy (p : Frame × Option Nat) => sy.userSave p.1 p.2) sy).cells.length = sy.cells.length := by
    intro l
    induction l with
    | nil => intro sy; exact ⟨rfl, rfl, rfl⟩
    | cons a as ih =>
      intro sy
      simp only [List.foldl_cons]
      obtain ⟨h1, h2, h3⟩ := ih (sy.userSave a.1 a.2)
      exact ⟨h1, h2, by rw [h3]; simp [SyncLayer.userSave, rset]⟩
  obtain ⟨h1, h2, h3⟩ := key saves s.sync
  refine ⟨?_, ?_, ?_, rfl, rfl, rfl, rfl⟩
  · exact h1
  · exact h2
  · exact h3

theorem userExecute_lastSaved (s : P2P) (saves : List (Frame × Option Nat)) :
    (s.userExecute saves).sync.lastSavedFrame = s.sync.lastSavedFrame := by
  unfold P2P.userExecute
  simp only
  generalize s.sync = sy
  induction saves generalizing sy with
  | nil => rfl
  | cons a as ih => simp only [List.foldl_cons]; rw [ih]; rfl

/-- The session invariant does not look at the cells. -/
theorem SessInv_sameQueues (s s2 : P2P) (gh : Ghost) (t : TLState) (reqs : List Request) (h : SessInv s gh t reqs)
    (hq : s2.sync.queues = s.sync.queues) (hc : s2.sync.currentFrame = s.sync.currentFrame)
    (hp : s2.pred = s.pred) (hst : s2.localConnectStatus = s.localConnectStatus) (hh : s2.handles = s.handles) :
    SessInv s2 gh t reqs := by
  have hlp : s2.localPlayerHandles = s.localPlayerHandles := by unfold P2P.localPlayerHandles; rw [hh]
  refine ⟨⟨?_, by rw [hc]; exact h.tinv.exec, by rw [hq]; exact h.tinv.rows⟩, by rw [hq, hc]; exact h.asked,
    by rw [hq, hst]; exact h.status, by rw [hq, hst, hlp]; exact h.remote⟩
  rw [hp, hst]
  exact SyncInv_congr h.tinv.sync hq hc

/-- `add_local_input` only ever touches the pending local inputs. -/
theorem P2P.addLocalInput_pending (s : P2P) (handle : Nat) (input : Input) :
    ∃ l, (s.addLocalInput handle input).1 = { s with pendingLocalInputs := l } := by
  unfold P2P.addLocalInput
  split
  · exact ⟨s.pendingLocalInputs, rfl⟩
  · exact ⟨_, rfl⟩

theorem SessInv_pending (s : P2P) (gh : Ghost) (t0 : TLState) (reqs : List Request) (l : List (Nat × PlayerInput))
    (h : SessInv s gh t0 reqs) : SessInv { s with pendingLocalInputs := l } gh t0 reqs :=
  SessInv_congr s _ gh t0 reqs h rfl rfl rfl rfl

theorem SessInv_userExecute (s : P2P) (gh : Ghost) (t0 : TLState) (reqs : List Request) (saves : List (Frame × Option Nat))
    (h : SessInv s gh t0 reqs) : SessInv (s.userExecute saves) gh t0 reqs := by
  obtain ⟨uq, uc, _, up, ust, uh, _⟩ := userExecute_fields s saves
  exact SessInv_sameQueues s _ gh t0 reqs h uq uc up ust uh

/-- A session and the game it drives. The steps are the things that touch the rollback core
while nobody is marked disconnected: the user submits a local input, a remote player's input
arrives, and a rollback-mode `advance_frame` whose requests the game then executes. -/
inductive SStep : (P2P × TLState) → (P2P × TLState) → Prop
  | remoteInput (s s' : P2P) (t : TLState) (now : Nat) (inp : PlayerInput) (player : Nat) (handles : List Nat)
      (addr : Nat) : player ∉ s.localPlayerHandles → 0 ≤ inp.frame →
      s.handleEventCore now (.input inp player) handles addr = .ok s' → SStep (s, t) (s', t)
  | tick (s s' : P2P) (t : TLState) (now : Nat) (reqs' : List Request) :
      s.advanceRollbackFrame now [] = .ok (s', reqs') → SStep (s, t) (s', execReqs t reqs')
  /-- the user submits a local player's input for the coming call (`add_local_input`) -/
  | localInput (s : P2P) (t : TLState) (handle : Nat) (input : Input) :
      SStep (s, t) ((s.addLocalInput handle input).1, t)
  /-- the game fulfils `SaveGameState` requests: cells are written (`cell.save`). Any cell may be
  written with any frame at any time — a superset of what a game does; the session theorems of this
  world do not depend on what the cells hold, but a call that rolls back only succeeds (is a step)
  when the cell it loads holds the frame it loads -/
  | saves (s : P2P) (t : TLState) (saves : List (Frame × Option Nat)) : SStep (s, t) (s.userExecute saves, t)

inductive SStar : (P2P × TLState) → (P2P × TLState) → Prop
  | refl (x : P2P × TLState) : SStar x x
  | step (x y z : P2P × TLState) : SStar x y → SStep y z → SStar x z

theorem SessInv_step (x y : P2P × TLState) (h : ∃ gh, SessInv x.1 gh x.2 []) (hs : SStep x y) :
    ∃ gh, SessInv y.1 gh y.2 [] := by
  obtain ⟨gh, h⟩ := h
  cases hs with
  | remoteInput s s' t now inp player handles addr hnl h0 hev =>
    obtain ⟨gh', h', _⟩ := remoteInput_spec s s' gh t [] now inp player handles addr h hnl h0 hev
    exact ⟨gh', h'⟩
  | tick s s' t now reqs' hadv =>
    obtain ⟨_, _, _, _, gh', _, _, h', _⟩ := advanceRollbackFrame_spec s s' gh t [] reqs' now h hadv
    exact ⟨gh', SessInv_rebase s' gh' t reqs' h'⟩
  | localInput s t handle input =>
    obtain ⟨l, hl⟩ := P2P.addLocalInput_pending s handle input
    exact ⟨gh, by show SessInv (s.addLocalInput handle input).1 gh t []; rw [hl]; exact SessInv_pending s gh t [] l h⟩
  | saves s t sv => exact ⟨gh, SessInv_userExecute s gh t [] sv h⟩

/-- **L-session.** The session invariant holds after every sequence of steps. -/
theorem SessInv_run (x y : P2P × TLState) (h : ∃ gh, SessInv x.1 gh x.2 []) (hr : SStar x y) :
    ∃ gh, SessInv y.1 gh y.2 [] := by
  induction hr with
  | refl => exact h
  | step y z _ hs ih => exact SessInv_step y z ih hs

/-- A freshly built session (all queues new, every status blank, frame 0) satisfies the invariant
against any game timeline that is at frame 0. -/
theorem SessInv_init (s : P2P) (R : Nat → List (Input × InputStatus)) (n : Nat)
    (hq : s.sync.queues = List.replicate n InputQueue.new) (hst : s.localConnectStatus = List.replicate n {})
    (hc : s.sync.currentFrame = 0) :
    SessInv s ⟨fun _ => {}, fun _ => [], fun p f => ((R f).getD p default).1⟩ ⟨0, R⟩ [] := by
  have hget : ∀ p, p < n → rget s.sync.queues p = InputQueue.new := by
    intro p hp
    rw [hq]; simp [rget, List.getD_eq_getElem?_getD, List.getElem?_replicate, hp]
  have hgs : ∀ p, p < n → rget s.localConnectStatus p = {} := by
    intro p hp
    rw [hst]; simp [rget, List.getD_eq_getElem?_getD, List.getElem?_replicate, hp]
  have hlen : s.sync.queues.length = n := by rw [hq]; simp
  refine ⟨⟨⟨by rw [hc]; exact Int.le_refl _, by rw [hst, hq]; simp, ?_, ?_⟩, by rw [hc]; rfl, fun p _ f => rfl⟩, ?_, ?_, ?_⟩
  · intro cs hcs
    rw [hst] at hcs
    rw [(List.mem_replicate.mp hcs).2]
  · intro p hp
    rw [hlen] at hp
    rw [hget p hp, hc]
    exact QI_new s.pred _
  · intro p _ h0
    rw [hc] at h0; omega
  · intro p hp
    rw [hlen] at hp
    rw [hget p hp, hgs p hp]
    exact Int.le_refl _
  · intro p hp _
    rw [hlen] at hp
    rw [hgs p hp]
    exact ⟨rfl, rfl, rfl⟩

end Ggrs

namespace Ggrs
open InputQueue

/-- The gate, in terms of frames (the two cases of `last_confirmed_frame`). -/
theorem P2P.C04_window_frames_aux (s s' : P2P) (reqs reqs' : List Request) (h : s.rollbackGate reqs = .ok (s', reqs'))
    (hadv : s'.sync.currentFrame ≠ s.sync.currentFrame) :
    (s.sync.lastConfirmedFrame = NULL_FRAME ∧ s.sync.currentFrame < s.maxPrediction) ∨
    (s.sync.lastConfirmedFrame ≠ NULL_FRAME ∧ s.sync.currentFrame - s.sync.lastConfirmedFrame < s.maxPrediction) := by
  unfold P2P.rollbackGate at h
  by_cases hg : s.framesAheadOfConfirmed < (s.maxPrediction : Int)
  · unfold P2P.framesAheadOfConfirmed at hg
    by_cases hn : s.sync.lastConfirmedFrame = NULL_FRAME
    · left; rw [if_pos (by simp [hn])] at hg; exact ⟨hn, hg⟩
    · right; rw [if_neg (by simpa using hn)] at hg; exact ⟨hn, hg⟩
  · rw [if_neg hg] at h
    have := pure_ok h
    simp only [Prod.mk.injEq] at this
    rw [← this.1] at hadv
    exact absurd rfl hadv


theorem setLastConfirmed_le (sy sy' : SyncLayer) (f : Frame) (sp : Bool)
    (h : sy.setLastConfirmedFrame f sp = .ok sy') : sy'.lastConfirmedFrame ≤ f := by
  unfold SyncLayer.setLastConfirmedFrame at h
  simp only at h
  have hle : min (if sp = true then min f sy.lastSavedFrame else f) sy.currentFrame ≤ f := by
    split
    · exact Int.le_trans (Int.min_le_left _ _) (Int.min_le_left _ _)
    · exact Int.min_le_left _ _
  generalize (min (if sp = true then min f sy.lastSavedFrame else f) sy.currentFrame) = fr at h hle
  obtain ⟨_, h⟩ := ensure_bind_ok h
  by_cases hpos : fr > 0
  · simp only [hpos, if_true] at h
    obtain ⟨qs, _, h⟩ := bind_ok h
    have := pure_ok h; subst this
    exact hle
  · simp only [hpos, if_false] at h
    have := pure_ok h; subst this
    exact hle

/-- **The prediction window, for every reachable session.** If a rollback-mode `advance_frame`
simulates a new frame `c`, then every player's queue holds real inputs at least up to frame
`c - max_prediction`: the session never runs more than `max_prediction` frames beyond the newest
frame for which it holds everybody's input. -/
theorem window_all (s s' : P2P) (gh : Ghost) (t0 : TLState) (reqs reqs' : List Request) (now : Nat)
    (h : SessInv s gh t0 reqs) (hadv : s.advanceRollbackFrame now reqs = .ok (s', reqs'))
    (hnew : s'.sync.currentFrame ≠ s.sync.currentFrame) :
    ∃ gh', SessInv s' gh' t0 reqs' ∧ ∀ p, p < s.sync.queues.length →
      s.sync.currentFrame - ((gh'.specs p).vals.length - 1 : Int) ≤ s.maxPrediction := by
  unfold P2P.advanceRollbackFrame at hadv
  obtain ⟨confirmed, hconf, hadv⟩ := bind_ok hadv
  obtain ⟨r1, hrs, hadv⟩ := bind_ok hadv
  obtain ⟨s1, reqs1⟩ := r1
  simp only at hadv
  obtain ⟨s2, hspec, hadv⟩ := bind_ok hadv
  obtain ⟨sy3, hset, hadv⟩ := bind_ok hadv
  obtain ⟨s4, hreg, hgate⟩ := bind_ok hadv
  obtain ⟨gh1, hsettled, _⟩ := handleRollbackAndSave_spec s s1 confirmed t0 reqs reqs1 gh h.tinv h.asked hrs
  have hinv1 := SessInv_of_settled s s1 gh gh1 t0 reqs reqs1 h hsettled
  have hc2 := P2P.sendConfirmed_sameCore _ _ _ _ hspec
  have hinv2 := SessInv_congr s1 s2 gh1 t0 reqs1 hinv1 hc2.pred hc2.sync hc2.statuses hc2.handles
  have hle : ∀ p, p < s2.sync.queues.length → confirmed ≤ (rget s2.localConnectStatus p).lastFrame := by
    intro p hp
    rw [hc2.statuses, hsettled.statuses]
    apply confirmedFrame_le s confirmed hconf h.tinv.sync.conn
    rw [h.tinv.sync.nq, ← hsettled.nq, ← hc2.sync]; exact hp
  obtain ⟨hinv3, hcur3, _, hnq3⟩ := setLastConfirmed_spec s2 sy3 gh1 t0 reqs1 confirmed hinv2 hle hset
  have hlcf := setLastConfirmed_le _ _ _ _ hset
  obtain ⟨gh2, hinv4, hk4⟩ := registerLocalInputs_spec _ s4 gh1 t0 reqs1 now hinv3 hreg
  obtain ⟨gh', hinv', hsp', _, _, _, _⟩ := rollbackGate_spec s4 s' gh2 t0 reqs1 reqs' hinv4 hgate
  have hcur4 : s4.sync.currentFrame = s.sync.currentFrame := by
    rw [hk4.cur]; show sy3.currentFrame = _; rw [hcur3, hc2.sync, hsettled.cur]
  have hmp4 : s4.maxPrediction = s.maxPrediction := by
    rw [hk4.maxPrediction]; show s2.maxPrediction = _; rw [hc2.maxPrediction, hsettled.rest.2.1]
  have hnq2 : s2.sync.queues.length = s.sync.queues.length := by rw [hc2.sync, hsettled.nq]
  -- the gate let a frame through
  have hgw := P2P.C04_window_frames_aux s4 s' reqs1 reqs' hgate (by rw [hcur4]; exact hnew)
  refine ⟨gh', hinv', ?_⟩
  intro p hp
  rw [hsp']
  -- everybody's stream reaches the confirmed frame, and the streams only grew since
  have hp2 : p < s2.sync.queues.length := by rw [hnq2]; exact hp
  have hstat := hinv2.status p hp2
  have hconfp := hle p hp2
  have hla : (rget s2.sync.queues p).lastAddedFrame = ((gh1.specs p).vals.length : Int) - 1 :=
    lastAdded_of_QI (hinv2.tinv.sync.all p hp2)
  have hgrow := hk4.grows p
  have hlcf4 : s4.sync.lastConfirmedFrame = sy3.lastConfirmedFrame := hk4.lastConfirmed
  rw [hcur4, hmp4, hlcf4] at hgw
  have hnull : NULL_FRAME = (-1 : Int) := rfl
  rcases hgw with ⟨hn, hlt⟩ | ⟨hn, hlt⟩
  · rw [hnull] at hn
    have : ((gh1.specs p).vals.length : Int) ≥ 0 := Int.natCast_nonneg _
    omega
  · omega

end Ggrs
