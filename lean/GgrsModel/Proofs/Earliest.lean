/-
`check_simulation_consistency`: the earliest first-incorrect frame over all queues.
-/
import GgrsModel.Model.P2P

namespace Ggrs.SyncLayer

/-- The fold of `check_simulation_consistency` over a list of queues. -/
def earliest (qs : List InputQueue) (init : Frame) : Frame :=
  qs.foldl (fun fi q =>
    let inc := q.firstIncorrectFrame
    if inc != NULL_FRAME && (fi == NULL_FRAME || inc < fi) then inc else fi) init

theorem earliest_spec : ∀ (qs : List InputQueue) (init : Frame),
    (earliest qs init = NULL_FRAME ↔ init = NULL_FRAME ∧ ∀ q ∈ qs, q.firstIncorrectFrame = NULL_FRAME) ∧
    (earliest qs init ≠ NULL_FRAME →
      (init ≠ NULL_FRAME → earliest qs init ≤ init) ∧
      (∀ q ∈ qs, q.firstIncorrectFrame ≠ NULL_FRAME → earliest qs init ≤ q.firstIncorrectFrame)) := by
  intro qs
  induction qs with
  | nil =>
    intro init
    simp [earliest]
  | cons q qs ih =>
    intro init
    simp only [earliest, List.foldl_cons]
    by_cases hc : (q.firstIncorrectFrame != NULL_FRAME && (init == NULL_FRAME || decide (q.firstIncorrectFrame < init))) = true
    · simp only [hc, if_true]
      have ihq := ih q.firstIncorrectFrame
      simp only [earliest] at ihq
      simp only [Bool.and_eq_true, bne_iff_ne, ne_eq, Bool.or_eq_true, beq_iff_eq, decide_eq_true_eq] at hc
      obtain ⟨hne, hlt⟩ := hc
      constructor
      · constructor
        · intro h0
          exact absurd (ihq.1.mp h0).1 hne
        · rintro ⟨_, hall⟩
          exact absurd (hall q List.mem_cons_self) hne
      · intro hnn
        have := ihq.2 hnn
        constructor
        · intro hi
          rcases hlt with h1 | h1
          · exact absurd h1 hi
          · exact Int.le_trans (this.1 hne) (Int.le_of_lt h1)
        · intro q' hq' hq'n
          rcases List.mem_cons.mp hq' with rfl | hin
          · exact this.1 hne
          · exact this.2 q' hin hq'n
    · simp only [hc, Bool.false_eq_true, if_false]
      have ihq := ih init
      simp only [earliest] at ihq
      have hc' : q.firstIncorrectFrame = NULL_FRAME ∨ (init ≠ NULL_FRAME ∧ ¬ q.firstIncorrectFrame < init) := by
        by_cases h1 : q.firstIncorrectFrame = NULL_FRAME
        · exact Or.inl h1
        · right
          constructor
          · intro hi; apply hc; simp [h1, hi]
          · intro hl; apply hc; simp [h1, hl]
      constructor
      · constructor
        · intro h0
          have := ihq.1.mp h0
          refine ⟨this.1, ?_⟩
          intro q' hq'
          rcases List.mem_cons.mp hq' with rfl | hin
          · rcases hc' with h1 | ⟨h1, _⟩
            · exact h1
            · exact absurd this.1 h1
          · exact this.2 q' hin
        · rintro ⟨hi, hall⟩
          exact ihq.1.mpr ⟨hi, fun q' hq' => hall q' (List.mem_cons_of_mem _ hq')⟩
      · intro hnn
        have := ihq.2 hnn
        refine ⟨this.1, ?_⟩
        intro q' hq' hq'n
        rcases List.mem_cons.mp hq' with rfl | hin
        · rcases hc' with h1 | ⟨h1, h2⟩
          · exact absurd h1 hq'n
          · exact Int.le_trans (this.1 h1) (Int.not_lt.mp h2)
        · exact this.2 q' hin hq'n


theorem checkSimulationConsistency_eq (s : SyncLayer) (init : Frame) :
    s.checkSimulationConsistency init = earliest s.queues init := rfl

end Ggrs.SyncLayer
