/-
L-entry: the real entry point. `advance_frame_core` (what `advance_frame` runs after polling) in
rollback mode, with nobody reported as disconnected, is: the desync bookkeeping, the extra save of
frame 0 on the very first call, `advance_rollback_frame`, the wait recommendation — each a step of
the world the all-schedules theorems are about. So those theorems hold for runs made of calls of
the entry point itself.
-/
import GgrsModel.Proofs.Checksums
import GgrsModel.Proofs.LockstepNet

namespace Ggrs

/-- No running endpoint reports any player as disconnected. -/
def NoGossip (s : P2P) : Prop := ∀ h, (P2P.gossipOf s.remotes h).1 = true

theorem foldlM_id {σ α} (f : σ → α → M σ) (s : σ) (hf : ∀ a, f s a = .ok s) : ∀ (l : List α), l.foldlM f s = .ok s := by
  intro l
  induction l with
  | nil => rfl
  | cons a rest ih => rw [List.foldlM_cons, hf a]; exact ih

/-- Without such reports `update_player_disconnects` does nothing. -/
theorem updatePlayerDisconnects_id (s : P2P) (now : Nat) (h : NoGossip s) : s.updatePlayerDisconnects now = .ok s := by
  unfold P2P.updatePlayerDisconnects
  apply foldlM_id
  intro handle
  have hq := h handle
  cases hg : P2P.gossipOf s.remotes handle with
  | mk qc qm =>
    rw [hg] at hq
    simp only at hq
    subst hq
    simp only [Bool.not_true, Bool.false_and, Bool.false_eq_true, if_false]
    rfl

/-- `check_wait_recommendation`, as one expression. -/
theorem checkWaitRec_eq (s : P2P) : s.checkWaitRecommendation = .ok
    (if (decide (s.sync.currentFrame > s.nextRecommendedSleep) && decide (s.maxFrameAdvantage ≥ (MIN_RECOMMENDATION : Int))) = true
     then ({ s with framesAhead := s.maxFrameAdvantage,
                    nextRecommendedSleep := s.sync.currentFrame + (RECOMMENDATION_INTERVAL : Int) } : P2P).pushEvent
            (.waitRecommendation s.maxFrameAdvantage.toNat)
     else { s with framesAhead := s.maxFrameAdvantage }) := by
  unfold P2P.checkWaitRecommendation
  simp only
  split <;> rfl

/-- The wait recommendation and the user's saves touch disjoint parts of the session. -/
theorem waitRec_userExecute (s s' : P2P) (saves : List (Frame × Option Nat)) (h : s.checkWaitRecommendation = .ok s') :
    (s.userExecute saves).checkWaitRecommendation = .ok (s'.userExecute saves) := by
  have hcur : (s.userExecute saves).sync.currentFrame = s.sync.currentFrame := (userExecute_fields s saves).2.1
  rw [checkWaitRec_eq] at h ⊢
  have hs' := pure_ok h
  rw [← hs']
  have hmfa : (s.userExecute saves).maxFrameAdvantage = s.maxFrameAdvantage := rfl
  have hnrs : (s.userExecute saves).nextRecommendedSleep = s.nextRecommendedSleep := rfl
  rw [hmfa, hnrs, hcur]
  congr 1
  split <;> rfl

theorem CWStar.trans {G : Type} {step : G → List (Input × InputStatus) → G} {csf : G → Option Nat}
    {a b c : P2P × GS G} (h1 : CWStar step csf a b) (h2 : CWStar step csf b c) : CWStar step csf a c := by
  induction h2 with
  | refl => exact h1
  | step b c _ hs ih => exact CWStar.step _ _ _ ih hs

/-- **The entry point is a path of the world.** A successful rollback-mode `advance_frame_core`
call, made while no running endpoint reports a disconnected player, followed by the game executing
the returned requests, is: (report, compare)?, then the call's core (with the extra save on the
very first call), then the wait recommendation. -/
theorem call_is_path {G : Type} (step : G → List (Input × InputStatus) → G) (csf : G → Option Nat)
    (s s' : P2P) (x : GS G) (now : Nat) (reqs' : List Request)
    (hmp : (s.maxPrediction == 0) = false)
    (hng : ∀ s1, s.desyncPhase now = .ok s1 → NoGossip s1)
    (hcall : s.advanceFrameCore now = .ok (s', .ok reqs')) :
    CWStar step csf (s, x)
      (s'.userExecute (gameSaves step csf s.sync.cells.length x reqs'), execGs step s.sync.cells.length x reqs') ∧
    ∃ s1 s3 : P2P, CWStar step csf (s, x) (s1, x) ∧ P2P.SameCore s s1 ∧ P2P.SameCore s3 s' ∧
      (s1.advanceRollbackFrame now [] = .ok (s3, reqs') ∨
       ∃ sy r, s1.sync.currentFrame = 0 ∧ s1.sync.saveCurrentState = .ok (sy, r) ∧
         ({ s1 with sync := sy } : P2P).advanceRollbackFrame now [r] = .ok (s3, reqs')) := by
  unfold P2P.advanceFrameCore at hcall
  by_cases hrun : (!s.running) = true
  · rw [if_pos hrun] at hcall
    have := pure_ok hcall
    simp only [Prod.mk.injEq] at this
    cases this.2
  rw [if_neg hrun] at hcall
  by_cases hin : (!(s.localPlayerHandles.all fun h => s.pendingLocalInputs.any (·.1 == h))) = true
  · rw [if_pos hin] at hcall
    have := pure_ok hcall
    simp only [Prod.mk.injEq] at this
    cases this.2
  rw [if_neg hin] at hcall
  obtain ⟨s1, hdes, hcall⟩ := bind_ok hcall
  obtain ⟨r2, hfs, hcall⟩ := bind_ok hcall
  obtain ⟨s2, reqs0⟩ := r2
  simp only at hcall
  obtain ⟨s2', hupd, hcall⟩ := bind_ok hcall
  obtain ⟨r3, hadv, hcall⟩ := bind_ok hcall
  obtain ⟨s3, reqs3⟩ := r3
  simp only at hcall
  obtain ⟨s4, hwait, hcall⟩ := bind_ok hcall
  have := pure_ok hcall
  simp only [Prod.mk.injEq, Except.ok.injEq] at this
  obtain ⟨hs4, hreqs⟩ := this
  subst hs4; subst hreqs
  -- phase 1: desync bookkeeping
  have hpath1 : CWStar step csf (s, x) (s1, x) ∧ P2P.SameCore s s1 := by
    unfold P2P.desyncPhase at hdes
    split at hdes
    · obtain ⟨sr, hrep, hdes⟩ := bind_ok hdes
      have := pure_ok hdes
      subst this
      refine ⟨CWStar.step _ _ _ (CWStar.step _ _ _ (CWStar.refl _) (CWStep.report s sr x now hrep)) (CWStep.compare sr x), ?_⟩
      exact (report_fields s sr now hrep).1.trans (compare_fields sr).1
    · have := pure_ok hdes
      subst this
      exact ⟨CWStar.refl _, P2P.SameCore.refl s⟩
  obtain ⟨hp1, hc1⟩ := hpath1
  have hmp1 : (s1.maxPrediction == 0) = false := by rw [hc1.maxPrediction]; exact hmp
  have hng1 : NoGossip s1 := hng s1 hdes
  -- phases 2-4: the core of the call
  have hn1 : s1.sync.cells.length = s.sync.cells.length := by rw [hc1.sync]
  have hcore : CWStep step csf (s1, x)
      (s3.userExecute (gameSaves step csf s1.sync.cells.length x reqs3), execGs step s1.sync.cells.length x reqs3) ∧
      (s1.advanceRollbackFrame now [] = .ok (s3, reqs3) ∨
       ∃ sy r, s1.sync.currentFrame = 0 ∧ s1.sync.saveCurrentState = .ok (sy, r) ∧
         ({ s1 with sync := sy } : P2P).advanceRollbackFrame now [r] = .ok (s3, reqs3)) := by
    unfold P2P.firstSavePhase at hfs
    by_cases hfirst : (s1.sync.currentFrame == 0 && !(s1.maxPrediction == 0)) = true
    · rw [if_pos hfirst] at hfs
      obtain ⟨r, hsv, hfs⟩ := bind_ok hfs
      obtain ⟨sy, rq⟩ := r
      simp only at hfs
      have := pure_ok hfs
      simp only [Prod.mk.injEq] at this
      obtain ⟨e1, e2⟩ := this
      subst e1; subst e2
      have hng2 : NoGossip ({ s1 with sync := sy } : P2P) := hng1
      rw [updatePlayerDisconnects_id _ now hng2] at hupd
      have := pure_ok hupd
      subst this
      unfold P2P.advanceByMode at hadv
      have hmp2 : (({ s1 with sync := sy } : P2P).maxPrediction == 0) = false := hmp1
      rw [if_neg (by rw [hmp2]; simp)] at hadv
      have hc0 : s1.sync.currentFrame = 0 := by
        simp only [Bool.and_eq_true, beq_iff_eq] at hfirst; exact hfirst.1
      exact ⟨CWStep.tick0 s1 s3 x now sy rq reqs3 hc0 hsv hadv, Or.inr ⟨sy, rq, hc0, hsv, hadv⟩⟩
    · rw [if_neg hfirst] at hfs
      have := pure_ok hfs
      simp only [Prod.mk.injEq] at this
      obtain ⟨e1, e2⟩ := this
      subst e1; subst e2
      rw [updatePlayerDisconnects_id _ now hng1] at hupd
      have := pure_ok hupd
      subst this
      unfold P2P.advanceByMode at hadv
      rw [if_neg (by rw [hmp1]; simp)] at hadv
      exact ⟨CWStep.tick s1 s3 x now reqs3 hadv, Or.inl hadv⟩
  obtain ⟨hcore, hform⟩ := hcore
  rw [hn1] at hcore
  -- phase 5: the wait recommendation
  have hw := waitRec_userExecute s3 s4 (gameSaves step csf s.sync.cells.length x reqs3) hwait
  exact ⟨CWStar.step _ _ _ (CWStar.step _ _ _ hp1 hcore) (CWStep.waitRec _ _ _ hw),
    s1, s3, hp1, hc1, (waitRec_fields s3 s4 hwait).1, hform⟩

/-! ### lockstep -/

/-- The lockstep invariants only read the core of the session. -/
theorem LkNetInv_netOnly (s s' : P2P) (t : TLState) (h : LkNetInv (s, t)) (hc : P2P.SameCore s s')
    (ho : s'.outgoingLocalInputs = s.outgoingLocalInputs) (hn : s'.nextSpectatorFrame = s.nextSpectatorFrame) :
    LkNetInv (s', t) := by
  obtain ⟨⟨gh, hl, hg⟩, hnn⟩ := h
  refine ⟨⟨gh, ⟨SessInv_congr s s' gh t [] hl.sess hc.pred hc.sync hc.statuses hc.handles, ?_, ?_, ?_⟩,
    GlueInv_transfer s s' gh gh hg ho hc.handles hc.statuses (by rw [hc.sync]) rfl⟩, by show 0 ≤ s'.nextSpectatorFrame; rw [hn]; exact hnn⟩
  · show AllIdle s'.sync.queues; rw [hc.sync]; exact hl.idle
  · show ∀ p, p < s'.sync.queues.length → s'.sync.currentFrame ≤ _; rw [hc.sync]; exact hl.full
  · show ∀ f : Nat, (f : Int) < s'.sync.currentFrame → _; rw [hc.sync]; exact hl.rows

theorem report_nsf (s s' : P2P) (now : Nat) (h : s.checkChecksumSendInterval now = .ok s') :
    s'.nextSpectatorFrame = s.nextSpectatorFrame := by
  unfold P2P.checkChecksumSendInterval at h
  cases hd : s.desync with
  | none => rw [hd] at h; have := pure_ok h; subst this; rfl
  | some interval =>
    rw [hd] at h
    simp only at h
    obtain ⟨oc, _, h⟩ := bind_ok h
    cases oc with
    | none => have := pure_ok h; subst this; rfl
    | some cell =>
      simp only at h
      cases hcs : cell.checksum with
      | none => rw [hcs] at h; have := pure_ok h; subst this; rfl
      | some cs => rw [hcs] at h; have := pure_ok h; subst this; rfl

theorem waitRec_nsf (s s' : P2P) (h : s.checkWaitRecommendation = .ok s') :
    s'.nextSpectatorFrame = s.nextSpectatorFrame := by
  rw [checkWaitRec_eq] at h
  have := pure_ok h
  rw [← this]
  split <;> rfl

/-- **The entry point in lockstep mode.** A successful `advance_frame_core` call of a lockstep
session (window 0) made while no running endpoint reports a disconnected player keeps the lockstep
invariants (with the game's timeline having executed the requests), and its request list is empty
or a single AdvanceFrame. Desync reports and comparisons, if enabled, are network-only. -/
theorem lockstep_call (s s' : P2P) (t : TLState) (now : Nat) (reqs' : List Request)
    (h : LkNetInv (s, t)) (hmp : (s.maxPrediction == 0) = true)
    (hng : ∀ s1, s.desyncPhase now = .ok s1 → NoGossip s1)
    (hcall : s.advanceFrameCore now = .ok (s', .ok reqs')) :
    LkNetInv (s', execReqs t reqs') ∧ (reqs' = [] ∨ ∃ ins, reqs' = [.advance ins]) := by
  unfold P2P.advanceFrameCore at hcall
  by_cases hrun : (!s.running) = true
  · rw [if_pos hrun] at hcall
    have := pure_ok hcall
    simp only [Prod.mk.injEq] at this
    cases this.2
  rw [if_neg hrun] at hcall
  by_cases hin : (!(s.localPlayerHandles.all fun h => s.pendingLocalInputs.any (·.1 == h))) = true
  · rw [if_pos hin] at hcall
    have := pure_ok hcall
    simp only [Prod.mk.injEq] at this
    cases this.2
  rw [if_neg hin] at hcall
  obtain ⟨s1, hdes, hcall⟩ := bind_ok hcall
  obtain ⟨r2, hfs, hcall⟩ := bind_ok hcall
  obtain ⟨s2, reqs0⟩ := r2
  simp only at hcall
  obtain ⟨s2', hupd, hcall⟩ := bind_ok hcall
  obtain ⟨r3, hadv, hcall⟩ := bind_ok hcall
  obtain ⟨s3, reqs3⟩ := r3
  simp only at hcall
  obtain ⟨s4, hwait, hcall⟩ := bind_ok hcall
  have := pure_ok hcall
  simp only [Prod.mk.injEq, Except.ok.injEq] at this
  obtain ⟨hs4, hreqs⟩ := this
  subst hs4; subst hreqs
  -- desync bookkeeping is network-only
  have h1 : LkNetInv (s1, t) ∧ P2P.SameCore s s1 := by
    unfold P2P.desyncPhase at hdes
    split at hdes
    · obtain ⟨sr, hrep, hdes⟩ := bind_ok hdes
      have := pure_ok hdes
      subst this
      obtain ⟨hca, hoa⟩ := report_fields s sr now hrep
      obtain ⟨hcb, hob⟩ := compare_fields sr
      exact ⟨LkNetInv_netOnly s _ t h (hca.trans hcb) (hob.trans hoa) ((compare_nsf sr).trans (report_nsf s sr now hrep)),
        hca.trans hcb⟩
    · have := pure_ok hdes
      subst this
      exact ⟨h, P2P.SameCore.refl s⟩
  obtain ⟨hl1, hc1⟩ := h1
  have hmp1 : (s1.maxPrediction == 0) = true := by rw [hc1.maxPrediction]; exact hmp
  -- no extra save in lockstep
  unfold P2P.firstSavePhase at hfs
  rw [if_neg (by rw [hmp1]; simp)] at hfs
  have := pure_ok hfs
  simp only [Prod.mk.injEq] at this
  obtain ⟨e1, e2⟩ := this
  subst e1; subst e2
  rw [updatePlayerDisconnects_id _ now (hng s1 hdes)] at hupd
  have := pure_ok hupd
  subst this
  unfold P2P.advanceByMode at hadv
  rw [if_pos hmp1] at hadv
  obtain ⟨⟨gh, hl, hg⟩, hn⟩ := hl1
  obtain ⟨_, gh', _, _, _, _, hl', hg', hn', _⟩ := lockstepTick_net s1 s3 gh t now reqs3 hl hg hn hadv
  obtain ⟨_, _, hcase, _⟩ := lockstepTick_spec s1 s3 gh t now reqs3 hl hadv
  obtain ⟨hcw, how⟩ := waitRec_fields s3 s4 hwait
  refine ⟨LkNetInv_netOnly s3 s4 _ ⟨⟨gh', hl', hg'⟩, hn'⟩ hcw how (waitRec_nsf s3 s4 hwait), ?_⟩
  rcases hcase with ⟨hre, _⟩ | ⟨c, _, hre, _⟩
  · exact Or.inl hre
  · exact Or.inr ⟨_, hre⟩

end Ggrs
