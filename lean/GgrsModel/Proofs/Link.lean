/-
L-link: the sender side of the input stream, and the two endpoints joined by an arbitrary network.

`SInv a S k` says that the sending endpoint `a` has submitted the first `k` inputs of the stream
`S`, that its `pending_output` is a run of consecutive stream frames ending with the newest one,
and that `last_acked_input` is the stream input right before that run (zeros before the first
one). Under it `send_pending_output` queues exactly the packet shape `L_stream_packet` expects.
-/
import GgrsModel.Proofs.RecvStream3
import GgrsModel.Proofs.Monad

namespace Ggrs
open Codec (Bytes)

/-- `n` consecutive frames of the stream starting at `a`, as `pending_output` entries. -/
def framesFrom (S : SStream) : Int → Nat → List InputBytes
  | _, 0 => []
  | a, n + 1 => ⟨a, S.item a⟩ :: framesFrom S (a + 1) n

theorem framesFrom_length (S : SStream) : ∀ (n : Nat) (a : Int), (framesFrom S a n).length = n := by
  intro n
  induction n with
  | zero => intro a; rfl
  | succ n ih => intro a; simp [framesFrom, ih]

theorem framesFrom_snoc (S : SStream) : ∀ (n : Nat) (a : Int),
    framesFrom S a n ++ [⟨a + (n : Int), S.item (a + (n : Int))⟩] = framesFrom S a (n + 1) := by
  intro n
  induction n with
  | zero => intro a; simp [framesFrom]
  | succ n ih =>
    intro a
    have := ih (a + 1)
    simp only [framesFrom, List.cons_append, List.cons.injEq, true_and] at this ⊢
    have h2 : a + 1 + (n : Int) = a + ((n + 1 : Nat) : Int) := by push_cast; omega
    rw [h2] at this
    exact this

theorem slice_succ (S : SStream) (a : Int) (n : Nat) (hlo : (S.f0 : Int) ≤ a) (hhi : a ≤ S.last) :
    S.slice a (n + 1) = S.item a :: S.slice (a + 1) n := by
  unfold SStream.slice SStream.item SStream.last at *
  have hidx : (a - S.f0).toNat < S.items.length := by omega
  rw [List.drop_eq_getElem_cons hidx, List.take_succ_cons]
  have h1 : (a + 1 - (S.f0 : Int)).toNat = (a - (S.f0 : Int)).toNat + 1 := by omega
  rw [h1, List.getD_eq_getElem?_getD, List.getElem?_eq_getElem hidx]
  simp

theorem framesFrom_bytes (S : SStream) : ∀ (n : Nat) (a : Int), (S.f0 : Int) ≤ a →
    a + (n : Int) - 1 ≤ S.last → (framesFrom S a n).map (·.bytes) = S.slice a n := by
  intro n
  induction n with
  | zero => intro a _ _; simp [framesFrom, SStream.slice]
  | succ n ih =>
    intro a hlo hhi
    rw [slice_succ S a n hlo (by push_cast at hhi; omega)]
    simp only [framesFrom, List.map_cons, List.cons.injEq, true_and]
    exact ih (a + 1) (by omega) (by push_cast at hhi; omega)

/-- The first frame the sender has not yet seen acknowledged. -/
def ackedNext (e : Endpoint) (S : SStream) : Int :=
  if e.lastAckedInput.frame = NULL_FRAME then S.f0 else e.lastAckedInput.frame + 1

structure SInv (e : Endpoint) (S : SStream) (k : Nat) : Prop where
  kle : k ≤ S.items.length
  lo : (S.f0 : Int) ≤ ackedNext e S
  hi : ackedNext e S ≤ (S.f0 : Int) + k
  ref : e.lastAckedInput.bytes = S.refAt (ackedNext e S)
  pend : e.pendingOutput = framesFrom S (ackedNext e S) ((S.f0 : Int) + k - ackedNext e S).toNat
  ackedLo : e.lastAckedInput.frame = NULL_FRAME ∨ (S.f0 : Int) ≤ e.lastAckedInput.frame

/-- `pop_pending_output` on a run of stream frames. -/
theorem pop_go (S : SStream) (ack : Int) : ∀ (n : Nat) (a : Int) (la : InputBytes),
    ∃ m : Nat, m ≤ n ∧
      Endpoint.popPendingOutput.go ack (framesFrom S a n) la =
        (framesFrom S (a + (m : Int)) (n - m),
         if m = 0 then la else ⟨a + (m : Int) - 1, S.item (a + (m : Int) - 1)⟩) ∧
      (m > 0 → a + (m : Int) - 1 ≤ ack) ∧ (m < n → ack < a + (m : Int)) := by
  intro n
  induction n with
  | zero =>
    intro a la
    exact ⟨0, Nat.le_refl _, by simp [framesFrom, Endpoint.popPendingOutput.go], fun h => absurd h (by omega),
      fun h => absurd h (by omega)⟩
  | succ n ih =>
    intro a la
    simp only [framesFrom]
    unfold Endpoint.popPendingOutput.go
    by_cases hx : a ≤ ack
    · simp only [hx, if_true]
      obtain ⟨m, hm, hgo, hack, hmax⟩ := ih (a + 1) ⟨a, S.item a⟩
      refine ⟨m + 1, by omega, ?_, fun _ => ?_, fun hlt => by have := hmax (by omega); push_cast; omega⟩
      · rw [hgo]
        have h1 : a + 1 + (m : Int) = a + ((m + 1 : Nat) : Int) := by push_cast; omega
        have h2 : n + 1 - (m + 1) = n - m := by omega
        rw [h1, h2]
        simp only [Nat.add_eq_zero_iff, Nat.succ_ne_self, and_false, if_false, Prod.mk.injEq, true_and]
        by_cases hm0 : m = 0
        · subst hm0; simp
        · simp only [hm0, if_false]
      · by_cases hm0 : m = 0
        · subst hm0; push_cast; omega
        · have := hack (by omega); push_cast; omega
    · simp only [hx, if_false]
      exact ⟨0, by omega, by simp [framesFrom], fun h => absurd h (by omega), fun _ => by simpa using Int.not_le.mp hx⟩

/-- Any acknowledgement keeps the sender invariant, and the window only moves up as far as the
acknowledged frame. -/
theorem SInv_pop (e : Endpoint) (S : SStream) (k : Nat) (ack : Int) (h : SInv e S k) :
    SInv (e.popPendingOutput ack) S k ∧
    ackedNext e S ≤ ackedNext (e.popPendingOutput ack) S ∧
    (ackedNext (e.popPendingOutput ack) S ≠ ackedNext e S → ackedNext (e.popPendingOutput ack) S - 1 ≤ ack) ∧
    ackedNext (e.popPendingOutput ack) S = max (ackedNext e S) (min (ack + 1) ((S.f0 : Int) + k)) := by
  have hnull : NULL_FRAME = (-1 : Int) := rfl
  obtain ⟨m, hm, hgo, hack, hmax⟩ := pop_go S ack ((S.f0 : Int) + k - ackedNext e S).toNat (ackedNext e S) e.lastAckedInput
  have hpo : (e.popPendingOutput ack).pendingOutput =
      framesFrom S (ackedNext e S + (m : Int)) (((S.f0 : Int) + k - ackedNext e S).toNat - m) := by
    unfold Endpoint.popPendingOutput
    simp only
    rw [h.pend, hgo]
  have hla : (e.popPendingOutput ack).lastAckedInput =
      if m = 0 then e.lastAckedInput else ⟨ackedNext e S + (m : Int) - 1, S.item (ackedNext e S + (m : Int) - 1)⟩ := by
    unfold Endpoint.popPendingOutput
    simp only
    rw [h.pend, hgo]
  have hlo := h.lo
  have hhi := h.hi
  by_cases hm0 : m = 0
  · subst hm0
    simp only [if_true] at hla
    have hn : ackedNext (e.popPendingOutput ack) S = ackedNext e S := by
      unfold ackedNext; rw [hla]
    refine ⟨⟨h.kle, by rw [hn]; exact hlo, by rw [hn]; exact hhi, by rw [hn, hla]; exact h.ref, ?_, by rw [hla]; exact h.ackedLo⟩,
      by rw [hn]; exact Int.le_refl _, fun hne => absurd hn hne, ?_⟩
    · rw [hn, hpo]; simp
    · rw [hn]
      by_cases hz : ((S.f0 : Int) + k - ackedNext e S).toNat = 0
      · omega
      · have := hmax (by omega)
        simp only [Int.natCast_zero, Int.add_zero] at this
        omega
  · simp only [hm0, if_false] at hla
    have hn : ackedNext (e.popPendingOutput ack) S = ackedNext e S + (m : Int) := by
      have : ¬ (ackedNext e S + (m : Int) - 1 = NULL_FRAME) := by
        rw [hnull]; omega
      show (if (e.popPendingOutput ack).lastAckedInput.frame = NULL_FRAME then _ else _) = _
      rw [hla]
      simp only
      rw [if_neg this]; omega
    refine ⟨⟨h.kle, by rw [hn]; omega, by rw [hn]; omega, ?_, ?_, ?_⟩, by rw [hn]; omega, fun _ => ?_, ?_⟩
    rotate_left 4
    · rw [hn]
      have h1 := hack (by omega)
      by_cases hlt : m < ((S.f0 : Int) + k - ackedNext e S).toNat
      · have := hmax hlt; omega
      · omega
    · rw [hn, hla]
      simp only [SStream.refAt]
      have : ¬ (ackedNext e S + (m : Int) = S.f0) := by omega
      rw [if_neg this]
    · rw [hn, hpo]
      congr 1; omega
    · rw [hla]; right; simp only; omega
    · rw [hn]; exact hack (by omega)

/-- What `send_pending_output` queues under the sender invariant. -/
theorem SInv_send (e e' : Endpoint) (S : SStream) (k : Nat) (now : Nat) (cs : List ConnStatus)
    (h : SInv e S k) (hs : e.sendPendingOutput now cs = .ok e') :
    SInv e' S k ∧ e'.lastAckedInput = e.lastAckedInput ∧
    (e'.sendQueue = e.sendQueue ∨
     (ackedNext e S < (S.f0 : Int) + k ∧
      e'.sendQueue = e.sendQueue ++ [⟨e.magic, .input cs (e.state == .disconnected) (ackedNext e S) e.lastRecvFrame
        (Codec.encode (S.refAt (ackedNext e S))
          (S.slice (ackedNext e S) ((S.f0 : Int) + k - ackedNext e S).toNat))⟩])) := by
  unfold Endpoint.sendPendingOutput at hs
  have hkle := h.kle
  have hlo := h.lo
  have hhi := h.hi
  cases hp : e.pendingOutput with
  | nil =>
    simp only [hp] at hs
    have := pure_ok hs
    subst this
    exact ⟨h, rfl, Or.inl rfl⟩
  | cons front rest =>
    simp only [hp] at hs
    obtain ⟨_, hs⟩ := ensure_bind_ok hs
    have := pure_ok hs
    subst this
    have hlen : ((S.f0 : Int) + k - ackedNext e S).toNat > 0 := by
      have := congrArg List.length h.pend
      rw [hp, framesFrom_length] at this
      simp at this; omega
    have hfront : front.frame = ackedNext e S := by
      have := h.pend
      rw [hp] at this
      obtain ⟨n, hn⟩ : ∃ n, ((S.f0 : Int) + k - ackedNext e S).toNat = n + 1 := ⟨_, (Nat.succ_pred_eq_of_pos hlen).symm⟩
      rw [hn] at this
      simp only [framesFrom, List.cons.injEq] at this
      rw [this.1]
    refine ⟨⟨h.kle, h.lo, h.hi, h.ref, h.pend, h.ackedLo⟩, rfl, Or.inr ⟨by omega, ?_⟩⟩
    simp only [Endpoint.queueMessage]
    rw [hfront, ← hp, h.pend, h.ref, framesFrom_bytes S _ _ hlo (by unfold SStream.last; omega)]

/-- Submitting the next input of the stream. -/
theorem SInv_append (e : Endpoint) (S : SStream) (k : Nat) (h : SInv e S k) (hk : k < S.items.length) :
    SInv { e with pendingOutput := e.pendingOutput ++ [⟨(S.f0 : Int) + k, S.item ((S.f0 : Int) + k)⟩] } S (k + 1) := by
  have hlo := h.lo
  have hhi := h.hi
  have hn : ackedNext { e with pendingOutput := e.pendingOutput ++ [⟨(S.f0 : Int) + k, S.item ((S.f0 : Int) + k)⟩] } S
      = ackedNext e S := rfl
  refine ⟨hk, by rw [hn]; exact hlo, by rw [hn]; push_cast; omega, by rw [hn]; exact h.ref, ?_, h.ackedLo⟩
  rw [hn]
  show e.pendingOutput ++ _ = framesFrom S (ackedNext e S) _
  rw [h.pend]
  have h1 : ((S.f0 : Int) + ((k + 1 : Nat) : Int) - ackedNext e S).toNat
      = ((S.f0 : Int) + k - ackedNext e S).toNat + 1 := by push_cast; omega
  have h2 : (S.f0 : Int) + k = ackedNext e S + (((S.f0 : Int) + k - ackedNext e S).toNat : Int) := by omega
  rw [h1, ← framesFrom_snoc, ← h2]


theorem SInv_congr {e e' : Endpoint} {S : SStream} {k : Nat} (h : SInv e S k)
    (hp : e'.pendingOutput = e.pendingOutput) (hl : e'.lastAckedInput = e.lastAckedInput) : SInv e' S k := by
  have hn : ackedNext e' S = ackedNext e S := by unfold ackedNext; rw [hl]
  exact ⟨h.kle, by rw [hn]; exact h.lo, by rw [hn]; exact h.hi, by rw [hn, hl]; exact h.ref,
    by rw [hn, hp]; exact h.pend, by rw [hl]; exact h.ackedLo⟩

/-- `send_input` appends the new input to `pending_output` and then sends the whole run. -/
theorem sendInput_split (e e' : Endpoint) (now : Nat) (inputs : List (Nat × PlayerInput)) (cs : List ConnStatus)
    (data : InputBytes) (hrun : e.state = .running) (hfi : Endpoint.fromInputs e.numPlayers inputs = .ok data)
    (hs : e.sendInput now inputs cs = .ok e') :
    ∃ e1 : Endpoint, e1.pendingOutput = e.pendingOutput ++ [data] ∧ e1.lastAckedInput = e.lastAckedInput ∧
      e1.sendQueue = e.sendQueue ∧ e1.magic = e.magic ∧ e1.state = e.state ∧ e1.recvInputs = e.recvInputs ∧
      e1.sendPendingOutput now cs = .ok e' := by
  unfold Endpoint.sendInput at hs
  have h1 : (e.state != .running) = false := by simp [hrun]
  simp only [h1, Bool.false_eq_true, if_false, hfi] at hs
  simp only [bind, Except.bind] at hs
  split at hs
  · refine ⟨_, ?_, ?_, ?_, ?_, ?_, ?_, hs⟩ <;> rfl
  · refine ⟨_, ?_, ?_, ?_, ?_, ?_, ?_, hs⟩ <;> rfl

/-! ### The two endpoints joined by an arbitrary network -/

/-- One direction of a connection: `a` sends the stream, `b` receives it; `k` inputs submitted.
Messages are never removed from the send queues in this system, so "deliver any message that was
ever queued, at any time, any number of times" covers loss, duplication and reordering. -/
structure Link where
  a : Endpoint
  b : Endpoint
  k : Nat

inductive LStep (S : SStream) : Link → Link → Prop
  /-- the session submits the next input of the stream (`send_input`) -/
  | submit (st : Link) (now : Nat) (inputs : List (Nat × PlayerInput)) (cs : List ConnStatus) (a' : Endpoint) :
      st.a.state = .running → st.a.pendingOutput.length ≤ PENDING_OUTPUT_SIZE → st.k < S.items.length →
      Endpoint.fromInputs st.a.numPlayers inputs = .ok ⟨(S.f0 : Int) + st.k, S.item ((S.f0 : Int) + st.k)⟩ →
      st.a.sendInput now inputs cs = .ok a' → LStep S st { st with a := a', k := st.k + 1 }
  /-- the retry timer resends the pending inputs -/
  | resend (st : Link) (now : Nat) (cs : List ConnStatus) (a' : Endpoint) :
      st.a.sendPendingOutput now cs = .ok a' → LStep S st { st with a := a' }
  /-- any Input message the sender ever queued reaches the receiver -/
  | packet (st : Link) (now : Nat) (m : Msg) (cs : List ConnStatus) (d : Bool) (start ack : Frame) (bytes : Bytes) :
      m ∈ st.a.sendQueue → m.body = .input cs d start ack bytes →
      LStep S st { st with b := st.b.decodeInputs now start bytes }
  /-- any InputAck the receiver ever queued reaches the sender -/
  | ack (st : Link) (m : Msg) (x : Frame) :
      m ∈ st.b.sendQueue → m.body = .inputAck x → LStep S st { st with a := st.a.popPendingOutput x }
  /-- an acknowledgement piggy-backed on the receiver's own Input messages: never more than it has -/
  | piggyAck (st : Link) (x : Frame) :
      x ≤ st.b.lastRecvFrame → LStep S st { st with a := st.a.popPendingOutput x }

inductive LStar (S : SStream) : Link → Link → Prop
  | refl (st : Link) : LStar S st st
  | step (st st' st'' : Link) : LStar S st st' → LStep S st' st'' → LStar S st st''

structure LInv (S : SStream) (st : Link) : Prop where
  sinv : SInv st.a S st.k
  rinv : RInv st.b S
  /-- every Input message the sender ever queued is a run of submitted stream frames, encoded
  against the stream input before it; a window that has moved proves the receiver got something -/
  packets : ∀ m ∈ st.a.sendQueue, ∀ cs d start ack bytes, m.body = .input cs d start ack bytes →
    ∃ n, PacketOk S (start, n) ∧ bytes = Codec.encode (S.refAt start) (S.slice start n) ∧
      start + (n : Int) ≤ (S.f0 : Int) + st.k ∧
      (start ≠ S.f0 → st.b.lastRecvFrame ≠ NULL_FRAME)
  /-- the receiver never acknowledged more than it has -/
  acks : ∀ m ∈ st.b.sendQueue, ∀ x, m.body = .inputAck x → x ≤ st.b.lastRecvFrame
  /-- the sender's window never starts beyond the frame the receiver is waiting for -/
  window : ackedNext st.a S ≤ nextFrame st.b S
  /-- the receiver never holds an input that was not submitted -/
  causal : st.b.lastRecvFrame ≤ (S.f0 : Int) + st.k - 1
  pendLen : ((S.f0 : Int) + st.k - ackedNext st.a S).toNat ≤ PENDING_OUTPUT_SIZE + 1
  /-- everything handed to the session so far is the stream's prefix up to the newest frame -/
  events : st.b.eventQueue = evsRange S st.b.handles S.f0 (nextFrame st.b S - S.f0).toNat

theorem slice_cap (S : SStream) (hsize : S.width ≤ 65535) (hw : ∀ b ∈ S.items, b.length = S.width)
    (start : Int) (n : Nat) (hn : n ≤ PENDING_OUTPUT_SIZE + 1) :
    Codec.encodedSize (S.slice start n) ≤ MAX_DECODED_BYTES := by
  have key : ∀ (ys : List Bytes), (∀ y ∈ ys, y.length ≤ 65535) → Codec.encodedSize ys ≤ ys.length * 65537 := by
    intro ys
    induction ys with
    | nil => intro _; simp [Codec.encodedSize]
    | cons y ys ih =>
      intro h
      have h1 := h y List.mem_cons_self
      have h2 := ih (fun z hz => h z (List.mem_cons_of_mem _ hz))
      simp only [Codec.encodedSize, List.length_cons]
      omega
  have h1 := key (S.slice start n) (fun y hy => by rw [hw y (slice_mem S start n y hy)]; exact hsize)
  have h2 : (S.slice start n).length ≤ n := by unfold SStream.slice; simp; omega
  have h3 : (S.slice start n).length * 65537 ≤ (PENDING_OUTPUT_SIZE + 1) * 65537 :=
    Nat.mul_le_mul_right _ (Nat.le_trans h2 hn)
  have h4 : (PENDING_OUTPUT_SIZE + 1) * 65537 = MAX_DECODED_BYTES := by decide
  omega

theorem nextFrame_lo (S : SStream) {e : Endpoint} (h : RInv e S) : nextFrame e S ≥ S.f0 := by
  have hnull : NULL_FRAME = (-1 : Int) := rfl
  unfold nextFrame
  rcases h.range with hr | ⟨hr, _⟩
  · simp [hr]
  · have : e.lastRecvFrame ≠ NULL_FRAME := by rw [hnull]; omega
    simp only [this, if_false]; omega

theorem nextFrame_null (S : SStream) {e : Endpoint} (h : RInv e S) (h0 : nextFrame e S ≠ S.f0) :
    e.lastRecvFrame ≠ NULL_FRAME := by
  intro hc; apply h0; unfold nextFrame; simp [hc]

theorem nextFrame_le_of_last (S : SStream) {e e' : Endpoint} (h : RInv e S) (h' : RInv e' S)
    (hge : e'.lastRecvFrame ≥ e.lastRecvFrame) : nextFrame e' S ≥ nextFrame e S := by
  apply nextFrame_mono h hge
  intro _
  rcases h'.range with hr | ⟨hr, _⟩
  · exact Or.inl hr
  · exact Or.inr hr

/-- The sender part of a step: an updated sender whose new messages (if any) are good packets. -/
theorem LInv_sender (S : SStream) (hsize : S.width ≤ 65535) (st : Link) (a' : Endpoint) (k' : Nat) (now : Nat)
    (cs : List ConnStatus) (a1 : Endpoint)
    (h : LInv S st) (hk' : st.k ≤ k') (h1 : SInv a1 S k') (hq : a1.sendQueue = st.a.sendQueue)
    (hn : ackedNext a1 S = ackedNext st.a S)
    (hlen : ((S.f0 : Int) + k' - ackedNext a1 S).toNat ≤ PENDING_OUTPUT_SIZE + 1)
    (hs : a1.sendPendingOutput now cs = .ok a') :
    LInv S { st with a := a', k := k' } := by
  obtain ⟨hinv', hla, hsq⟩ := SInv_send a1 a' S k' now cs h1 hs
  have hn' : ackedNext a' S = ackedNext a1 S := by unfold ackedNext; rw [hla]
  have hlo := h1.lo
  have hkle := h1.kle
  have hcausal := h.causal
  refine ⟨hinv', h.rinv, ?_, h.acks, by show ackedNext a' S ≤ _; rw [hn', hn]; exact h.window,
    by show st.b.lastRecvFrame ≤ (S.f0 : Int) + k' - 1; omega,
    by show ((S.f0 : Int) + k' - ackedNext a' S).toNat ≤ _; rw [hn']; exact hlen, h.events⟩
  intro m hm cs' d start ack bytes hb
  have hm' : m ∈ a'.sendQueue := hm
  have hold : m ∈ st.a.sendQueue →
      ∃ n, PacketOk S (start, n) ∧ bytes = Codec.encode (S.refAt start) (S.slice start n) ∧
        start + (n : Int) ≤ (S.f0 : Int) + k' ∧ (start ≠ S.f0 → st.b.lastRecvFrame ≠ NULL_FRAME) := by
    intro hold
    obtain ⟨n, h1, h2, h3, h4⟩ := h.packets m hold cs' d start ack bytes hb
    exact ⟨n, h1, h2, by omega, h4⟩
  rcases hsq with hsq | ⟨hlt, hsq⟩
  · rw [hsq, hq] at hm'
    exact hold hm'
  · rw [hsq, hq] at hm'
    rcases List.mem_append.mp hm' with ho | hnew
    · exact hold ho
    · simp only [List.mem_singleton] at hnew
      subst hnew
      simp only [MsgBody.input.injEq] at hb
      obtain ⟨_, _, hst, _, hby⟩ := hb
      refine ⟨((S.f0 : Int) + k' - ackedNext a1 S).toNat, ⟨by show _ ≥ 1; omega, by show _ ≤ start; rw [← hst]; exact hlo,
        by show start + _ - 1 ≤ S.last; rw [← hst]; unfold SStream.last; omega,
        slice_cap S hsize h.rinv.itemWidth _ _ hlen⟩, by rw [← hby, ← hst],
        by show start + _ ≤ (S.f0 : Int) + k'; rw [← hst]; omega, ?_⟩
      intro hne
      rw [← hst, hn] at hne
      have hw := h.window
      rw [hn] at hlo
      have hnf : nextFrame st.b S ≠ S.f0 := by omega
      exact nextFrame_null S h.rinv hnf

theorem LInv_ack (S : SStream) (st : Link) (x : Frame) (h : LInv S st) (hle : x ≤ st.b.lastRecvFrame) :
    LInv S { st with a := st.a.popPendingOutput x } := by
  have hnull : NULL_FRAME = (-1 : Int) := rfl
  obtain ⟨hinv', hmono, _, hexact⟩ := SInv_pop st.a S st.k x h.sinv
  have hlo := h.sinv.lo
  have hw := h.window
  have hc := h.causal
  refine ⟨hinv', h.rinv, h.packets, h.acks, ?_, h.causal, ?_, h.events⟩
  · show ackedNext (st.a.popPendingOutput x) S ≤ nextFrame st.b S
    rw [hexact]
    have h2 : x + 1 ≤ nextFrame st.b S ∨ (S.f0 : Int) + st.k ≤ nextFrame st.b S := by
      unfold nextFrame
      by_cases h0 : st.b.lastRecvFrame = NULL_FRAME
      · simp only [h0, if_true]; rw [h0, hnull] at hle; left; omega
      · simp only [h0, if_false]; left; omega
    omega
  · show ((S.f0 : Int) + st.k - ackedNext (st.a.popPendingOutput x) S).toNat ≤ _
    have := h.pendLen
    omega

/-- **L-link, one step.** -/
theorem LInv_step (S : SStream) (hsize : S.width ≤ 65535) (st st' : Link) (h : LInv S st)
    (hstep : LStep S st st') : LInv S st' := by
  have hnull : NULL_FRAME = (-1 : Int) := rfl
  cases hstep with
  | submit now inputs cs a' hrun hlen hk hfi hs =>
    obtain ⟨e1, hp1, hl1, hq1, _, _, _, hs1⟩ := sendInput_split st.a a' now inputs cs _ hrun hfi hs
    have hsa := SInv_append st.a S st.k h.sinv hk
    have h1 : SInv e1 S (st.k + 1) := SInv_congr hsa (by rw [hp1]) (by rw [hl1])
    have hn : ackedNext e1 S = ackedNext st.a S := by unfold ackedNext; rw [hl1]
    have hpl : st.a.pendingOutput.length = ((S.f0 : Int) + st.k - ackedNext st.a S).toNat := by
      rw [h.sinv.pend, framesFrom_length]
    have hlo := h.sinv.lo
    have hhi := h.sinv.hi
    exact LInv_sender S hsize st a' (st.k + 1) now cs e1 h (by omega) h1 hq1 hn
      (by rw [hn]; rw [hpl] at hlen; push_cast; omega) hs1
  | resend now cs a' hs =>
    exact LInv_sender S hsize st a' st.k now cs st.a h (Nat.le_refl _) h.sinv rfl rfl h.pendLen hs
  | packet now m cs d start ack bytes hm hb =>
    obtain ⟨n, hok, hby, hsub, hfirst⟩ := h.packets m hm cs d start ack bytes hb
    subst hby
    obtain ⟨hinv', hh', hne', hge', hev', hsq', hle', _, _⟩ := L_stream_packet st.b S now start n h.rinv hok.pos hok.lo hok.hi
      (fun h0 => Classical.byContradiction fun hc => hfirst hc h0) hsize hok.cap
    generalize hb' : st.b.decodeInputs now start (Codec.encode (S.refAt start) (S.slice start n)) = b' at *
    have hstay : st.b.lastRecvFrame ≠ NULL_FRAME → b'.lastRecvFrame ≠ NULL_FRAME := by
      intro hne
      rcases h.rinv.range with hr | ⟨hr, _⟩
      · exact absurd hr hne
      · rw [hnull]; omega
    have hmono : nextFrame b' S ≥ nextFrame st.b S := nextFrame_le_of_last S h.rinv hinv' hge'
    have hc := h.causal
    refine ⟨h.sinv, hinv', ?_, ?_, Int.le_trans h.window hmono, ?_, h.pendLen, ?_⟩
    · intro m2 hm2 cs2 d2 start2 ack2 bytes2 hb2
      obtain ⟨n2, hok2, hby2, hsub2, hf2⟩ := h.packets m2 hm2 cs2 d2 start2 ack2 bytes2 hb2
      exact ⟨n2, hok2, hby2, hsub2, fun hne => hstay (hf2 hne)⟩
    · intro m2 hm2 x hx
      show x ≤ b'.lastRecvFrame
      have hm2' : m2 ∈ b'.sendQueue := hm2
      rw [hsq'] at hm2'
      rcases List.mem_append.mp hm2' with hold | hnew
      · exact Int.le_trans (h.acks m2 hold x hx) hge'
      · simp only [List.mem_singleton] at hnew
        subst hnew
        simp only [MsgBody.inputAck.injEq] at hx
        rw [← hx]; exact Int.le_refl _
    · show b'.lastRecvFrame ≤ (S.f0 : Int) + st.k - 1
      omega
    · show b'.eventQueue = evsRange S b'.handles S.f0 (nextFrame b' S - S.f0).toNat
      rw [hev', hh', h.events]
      have hlo := nextFrame_lo S h.rinv
      have h2 : nextFrame st.b S = (S.f0 : Int) + ((nextFrame st.b S - S.f0).toNat : Int) := by omega
      have h3 := evsRange_append S st.b.handles (nextFrame st.b S - S.f0).toNat
        (nextFrame b' S - nextFrame st.b S).toNat S.f0
      rw [← h2] at h3
      rw [h3]
      congr 1; omega
  | ack m x hm hx => exact LInv_ack S st x h (h.acks m hm x hx)
  | piggyAck x hle => exact LInv_ack S st x h hle

/-- **L-link.** For every schedule of submissions, retransmissions, packet deliveries (any packet
ever sent, any number of times, in any order) and acknowledgement deliveries, the link invariant
holds — in particular (`LInv.events`) everything the receiver has handed to its session is exactly
the sender's stream from its first frame up to the receiver's newest frame: no gap, no duplicate,
no reordering, no foreign value; the receiver never runs ahead of the sender (`causal`) and the
sender's window never ahead of the receiver (`window`). -/
theorem L_link (S : SStream) (hsize : S.width ≤ 65535) (st st' : Link) (h : LInv S st)
    (hrun : LStar S st st') : LInv S st' := by
  induction hrun with
  | refl => exact h
  | step st' st'' _ hstep ih => exact LInv_step S hsize st' st'' ih hstep

/-- **L-link, recovery.** From EVERY state the link can get into — whatever was lost, duplicated or
reordered before — one clean exchange resynchronises it: once the receiver's current
acknowledgement reaches the sender (every Input packet the receiver sees is answered with one,
decodable or not), the sender's next (re)transmission, if anything is still unacknowledged, starts
exactly at the frame the receiver is waiting for, is therefore decodable, and brings the receiver
to the newest submitted frame; the acknowledgement of that empties the sender's window. -/
theorem L_link_recovers (S : SStream) (hsize : S.width ≤ 65535) (st : Link) (h : LInv S st)
    (now now' : Nat) (cs : List ConnStatus) (a2 : Endpoint)
    (hs : (st.a.popPendingOutput st.b.lastRecvFrame).sendPendingOutput now cs = .ok a2) :
    -- nothing left to send: the receiver already has every submitted input
    (a2.sendQueue = st.a.sendQueue ∧ nextFrame st.b S = (S.f0 : Int) + st.k ∧ a2.pendingOutput = []) ∨
    -- or exactly one new packet, and delivering it completes the receiver
    (∃ m cs' d start ack bytes, a2.sendQueue = st.a.sendQueue ++ [m] ∧ m.body = .input cs' d start ack bytes ∧
      start = nextFrame st.b S ∧
      (st.b.decodeInputs now' start bytes).lastRecvFrame = (S.f0 : Int) + st.k - 1 ∧
      (a2.popPendingOutput (st.b.decodeInputs now' start bytes).lastRecvFrame).pendingOutput = []) := by
  have hnull : NULL_FRAME = (-1 : Int) := rfl
  have h1 := LInv_ack S st st.b.lastRecvFrame h (Int.le_refl _)
  obtain ⟨hinv1, _, _, hexact⟩ := SInv_pop st.a S st.k st.b.lastRecvFrame h.sinv
  generalize ha1 : st.a.popPendingOutput st.b.lastRecvFrame = a1 at *
  have hw := h.window
  have hc := h.causal
  have hlo := h.sinv.lo
  have hnlo := nextFrame_lo S h.rinv
  -- after the ack the sender's window starts exactly where the receiver waits
  have hstart : ackedNext a1 S = nextFrame st.b S := by
    rw [hexact]
    unfold nextFrame at hw ⊢
    by_cases h0 : st.b.lastRecvFrame = NULL_FRAME
    · simp only [h0, if_true] at hw ⊢; rw [hnull]; omega
    · simp only [h0, if_false] at hw ⊢; omega
  have hq1 : a1.sendQueue = st.a.sendQueue := by rw [← ha1]; rfl
  obtain ⟨hinv2, hla2, hsq⟩ := SInv_send a1 a2 S st.k now cs hinv1 hs
  have hn2 : ackedNext a2 S = ackedNext a1 S := by unfold ackedNext; rw [hla2]
  rcases hsq with hsq | ⟨hlt, hsq⟩
  · -- nothing was sent: pending is empty
    left
    have hp : a1.pendingOutput = [] := by
      unfold Endpoint.sendPendingOutput at hs
      cases hp : a1.pendingOutput with
      | nil => rfl
      | cons f r =>
        simp only [hp] at hs
        obtain ⟨_, hs⟩ := ensure_bind_ok hs
        have := pure_ok hs
        subst this
        simp [Endpoint.queueMessage] at hsq
    have hlen := congrArg List.length hinv1.pend
    rw [hp, framesFrom_length] at hlen
    simp only [List.length_nil] at hlen
    have hhi1 := hinv1.hi
    refine ⟨by rw [hsq, hq1], by rw [← hstart]; omega, ?_⟩
    rw [hinv2.pend, hn2]
    rw [← hlen]; rfl
  · right
    have hlen1 : ((S.f0 : Int) + st.k - ackedNext a1 S).toNat ≤ PENDING_OUTPUT_SIZE + 1 := h1.pendLen
    refine ⟨_, cs, _, _, _, _, by rw [hsq, hq1], rfl, hstart, ?_, ?_⟩
    · rw [hstart] at hlt hlen1 ⊢
      have hfirst : st.b.lastRecvFrame = NULL_FRAME → nextFrame st.b S = S.f0 := by
        intro h0; unfold nextFrame; simp [h0]
      obtain ⟨_, _, _, _, _, _, _, heq, _⟩ := L_stream_packet st.b S now' (nextFrame st.b S)
        ((S.f0 : Int) + st.k - nextFrame st.b S).toNat h.rinv (by omega) hnlo
        (by have := h.sinv.kle; unfold SStream.last; omega) hfirst hsize
        (slice_cap S hsize h.rinv.itemWidth _ _ hlen1)
      rw [heq rfl]; omega
    · rw [hstart] at hlt hlen1 ⊢
      have hfirst : st.b.lastRecvFrame = NULL_FRAME → nextFrame st.b S = S.f0 := by
        intro h0; unfold nextFrame; simp [h0]
      obtain ⟨_, _, _, _, _, _, _, heq, _⟩ := L_stream_packet st.b S now' (nextFrame st.b S)
        ((S.f0 : Int) + st.k - nextFrame st.b S).toNat h.rinv (by omega) hnlo
        (by have := h.sinv.kle; unfold SStream.last; omega) hfirst hsize
        (slice_cap S hsize h.rinv.itemWidth _ _ hlen1)
      rw [heq rfl]
      obtain ⟨hinv3, _, _, hexact3⟩ := SInv_pop a2 S st.k (nextFrame st.b S + (((S.f0 : Int) + st.k - nextFrame st.b S).toNat : Int) - 1) hinv2
      rw [hinv3.pend, hexact3]
      have hhi2 := hinv2.hi
      have : ((S.f0 : Int) + st.k - max (ackedNext a2 S)
          (min (nextFrame st.b S + (((S.f0 : Int) + st.k - nextFrame st.b S).toNat : Int) - 1 + 1) ((S.f0 : Int) + st.k))).toNat = 0 := by
        omega
      rw [this]; rfl

end Ggrs

namespace Ggrs
open Codec (Bytes)

/-- Non-vacuity of `L_link`: two endpoints right after the handshake — nothing sent, nothing
received, nothing handed out yet — satisfy the link invariant for any stream of the right width. -/
theorem LInv_init (S : SStream) (a b : Endpoint)
    (hpend : a.pendingOutput = []) (hacked : a.lastAckedInput = ⟨NULL_FRAME, SStream.zerosB S.width⟩)
    (hnoin : ∀ m ∈ a.sendQueue, ∀ cs d start ack bytes, m.body ≠ .input cs d start ack bytes)
    (hnoack : ∀ m ∈ b.sendQueue, ∀ x, m.body ≠ .inputAck x)
    (hb : RInv b S) (hfresh : b.lastRecvFrame = NULL_FRAME) (hev : b.eventQueue = []) :
    LInv S ⟨a, b, 0⟩ := by
  have hnull : NULL_FRAME = (-1 : Int) := rfl
  have hn : ackedNext a S = S.f0 := by unfold ackedNext; rw [hacked]; simp
  have hnb : nextFrame b S = S.f0 := by unfold nextFrame; simp [hfresh]
  refine ⟨⟨Nat.zero_le _, by rw [hn]; exact Int.le_refl _, by rw [hn]; simp, ?_, ?_, Or.inl (by rw [hacked])⟩, hb,
    fun m hm cs d start ack bytes hbody => absurd hbody (hnoin m hm cs d start ack bytes),
    fun m hm x hbody => absurd hbody (hnoack m hm x), by show ackedNext a S ≤ nextFrame b S; rw [hn, hnb]; exact Int.le_refl _,
    by show b.lastRecvFrame ≤ _; rw [hfresh, hnull]; simp; omega,
    by show ((S.f0 : Int) + (0 : Nat) - ackedNext a S).toNat ≤ _; rw [hn]; simp, ?_⟩
  · rw [hn, hacked]; simp [SStream.refAt]
  · show a.pendingOutput = framesFrom S (ackedNext a S) ((S.f0 : Int) + (0 : Nat) - ackedNext a S).toNat
    rw [hn, hpend]; simp [framesFrom]
  · show b.eventQueue = evsRange S b.handles S.f0 (nextFrame b S - S.f0).toNat
    rw [hnb, hev]; simp [evsRange]

end Ggrs
