/-
`poll_remote_clients` touches the core of the session (sync layer, connection statuses, disconnect
frame, ...) only through `handle_event`: everything else it does — handing messages to the
endpoints, their timers, flushing their send queues — is network-only. So a poll is, for the
session theorems, a sequence of `handle_event` calls on the events its endpoints raised, in order.
-/
import GgrsModel.Proofs.Frame

namespace Ggrs
namespace P2P

theorem trimEvents_sameCore (s : P2P) : SameCore s s.trimEvents := ⟨rfl, rfl, rfl, rfl, rfl, rfl, rfl, rfl, rfl⟩

/-- **A poll is a sequence of `handle_event` calls, as far as the session core is concerned.** -/
theorem poll_core (s s' : P2P) (now : Nat) (received : List (Nat × Msg))
    (h : s.pollRemoteClients now received = .ok s') :
    ∃ (s0 s1 : P2P) (evs : List (ProtoEvent × List Nat × Nat)), SameCore s s0 ∧
      evs.foldlM (fun s (x : ProtoEvent × List Nat × Nat) => s.handleEvent now x.1 x.2.1 x.2.2) s0 = .ok s1 ∧
      SameCore s1 s' := by
  unfold pollRemoteClients at h
  obtain ⟨sa, hmsgs, h⟩ := bind_ok h
  simp only at h
  obtain ⟨remotes1, _, h⟩ := bind_ok h
  obtain ⟨r1, _, h⟩ := bind_ok h
  obtain ⟨remotes2, ev1⟩ := r1
  simp only at h
  obtain ⟨r2, _, h⟩ := bind_ok h
  obtain ⟨spectators2, ev2⟩ := r2
  simp only at h
  obtain ⟨sb, hfold, h⟩ := bind_ok h
  have := pure_ok h
  subst this
  have hca : SameCore s sa := by
    refine foldlM_sameCore _ ?_ received s sa hmsgs
    intro a x a' hx
    obtain ⟨from_, msg⟩ := x
    simp only at hx
    obtain ⟨_, _, hx⟩ := bind_ok hx
    obtain ⟨_, _, hx⟩ := bind_ok hx
    have := pure_ok hx
    subst this
    exact ⟨rfl, rfl, rfl, rfl, rfl, rfl, rfl, rfl, rfl⟩
  refine ⟨{ sa with remotes := remotes2, spectators := spectators2 }, sb, ev1 ++ ev2,
    hca.trans ⟨rfl, rfl, rfl, rfl, rfl, rfl, rfl, rfl, rfl⟩, ?_, ⟨rfl, rfl, rfl, rfl, rfl, rfl, rfl, rfl, rfl⟩⟩
  exact hfold

/-- `handle_event` is `handle_event`'s event-specific part followed by a network-only trim. -/
theorem handleEvent_core (s s' : P2P) (now : Nat) (ev : ProtoEvent) (hs : List Nat) (addr : Nat)
    (h : s.handleEvent now ev hs addr = .ok s') :
    ∃ s1, s.handleEventCore now ev hs addr = .ok s1 ∧ SameCore s1 s' := by
  unfold handleEvent at h
  obtain ⟨s1, h1, h⟩ := bind_ok h
  have := pure_ok h
  subst this
  exact ⟨s1, h1, trimEvents_sameCore s1⟩

/-- The events that are neither an input nor a Disconnected only push to the event queue (and may
switch the session to Running): network-only. -/
theorem handleEventCore_other (s s' : P2P) (now : Nat) (ev : ProtoEvent) (hs : List Nat) (addr : Nat)
    (hni : ∀ inp p, ev ≠ .input inp p) (hnd : ev ≠ .disconnected)
    (h : s.handleEventCore now ev hs addr = .ok s') : SameCore s s' := by
  unfold handleEventCore at h
  cases ev with
  | synchronizing t c => have := pure_ok h; subst this; exact ⟨rfl, rfl, rfl, rfl, rfl, rfl, rfl, rfl, rfl⟩
  | networkInterrupted t => have := pure_ok h; subst this; exact ⟨rfl, rfl, rfl, rfl, rfl, rfl, rfl, rfl, rfl⟩
  | networkResumed => have := pure_ok h; subst this; exact ⟨rfl, rfl, rfl, rfl, rfl, rfl, rfl, rfl, rfl⟩
  | synchronized =>
    have := pure_ok h
    subst this
    unfold checkInitialSync
    split
    · exact ⟨rfl, rfl, rfl, rfl, rfl, rfl, rfl, rfl, rfl⟩
    · split <;> exact ⟨rfl, rfl, rfl, rfl, rfl, rfl, rfl, rfl, rfl⟩
  | disconnected => exact absurd rfl hnd
  | input inp p => exact absurd rfl (hni inp p)

end P2P
end Ggrs
