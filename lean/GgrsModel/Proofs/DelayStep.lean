/-
L-delay: `set_input_delay` at run time as a step of the session world. The queue-level refinement
(`QI_setDelay`: the ring implements `QSpec.setDelay`, the reported fills are the stored entries)
is lifted to the session: the session invariant, the glue invariant (the fills reach the outgoing
queue as queue content) and the spectator cursor survive the call, so every all-schedules theorem
about rollback-mode sessions also holds for runs with delay changes in between.
-/
import GgrsModel.Proofs.Glue

namespace Ggrs
open InputQueue

theorem rset_rset {α} (l : List α) (i : Nat) (a b : α) : rset (rset l i a) i b = rset l i b := by
  simp [rset, List.set_set]

/-- What the fold over the fills of `set_input_delay` does: the status of the player moves to the
last fill, every fill reaches the outgoing queue, nothing else changes. -/
theorem fillsFold_spec (gh : Ghost) (h : Nat) (v : Input) : ∀ (n : Nat) (start : Int) (s s' : P2P),
    0 ≤ start → OutOk s gh → h ∈ s.localPlayerHandles →
    (∀ i : Nat, i < n → (start + i).toNat < (gh.specs h).vals.length ∧ (gh.specs h).vals.getD (start + i).toNat 0 = v) →
    (QSpec.fillList start v n).foldlM (fun s (f : PlayerInput) =>
      if f.frame != NULL_FRAME then
        (s.setStatus h fun c => { c with lastFrame := f.frame }).queueOutgoingLocalInput h f
      else pure s) s = .ok s' →
    OutOk s' gh ∧ s'.sync = s.sync ∧ s'.pred = s.pred ∧ s'.handles = s.handles ∧ s'.sparse = s.sparse ∧
    s'.maxPrediction = s.maxPrediction ∧ s'.nextSpectatorFrame = s.nextSpectatorFrame ∧
    s'.lastSentOutgoingInputFrame = s.lastSentOutgoingInputFrame ∧
    s'.localConnectStatus = (if n = 0 then s.localConnectStatus else
      rset s.localConnectStatus h { rget s.localConnectStatus h with lastFrame := start + n - 1 }) := by
  intro n
  induction n with
  | zero =>
    intro start s s' _ ho _ _ hf
    simp only [QSpec.fillList, List.foldlM_nil] at hf
    have := pure_ok hf; subst this
    exact ⟨ho, rfl, rfl, rfl, rfl, rfl, rfl, rfl, by simp⟩
  | succ k ih =>
    intro start s s' h0 ho hloc hv hf
    simp only [QSpec.fillList, List.foldlM_cons] at hf
    obtain ⟨s1, h1, hf⟩ := bind_ok hf
    have hne : ((start : Frame) != NULL_FRAME) = true := by
      simp only [bne_iff_ne, ne_eq, NULL_FRAME]; omega
    simp only [hne, if_true] at h1
    obtain ⟨hv0a, hv0b⟩ := hv 0 (by omega)
    simp only [Int.natCast_zero, Int.add_zero] at hv0a hv0b
    have hloc1 : h ∈ (s.setStatus h fun c => { c with lastFrame := start }).localPlayerHandles := hloc
    obtain ⟨ho1, hh1, hl1⟩ := queueOutgoing_out (s.setStatus h fun c => { c with lastFrame := start }) s1 gh h ⟨start, v⟩
      (OutOk_congr s _ gh ho rfl rfl) hloc1 h0 hv0a hv0b.symm h1
    have hc1 := P2P.queueOutgoing_sameCore _ _ _ _ h1
    have hn1 := P2P.queueOutgoing_nsf _ _ _ _ h1
    have hlocs1 : h ∈ s1.localPlayerHandles := by unfold P2P.localPlayerHandles; rw [hh1]; exact hloc
    obtain ⟨ho', a1, a2, a3, a4, a5, a6, a7, a8⟩ := ih (start + 1) s1 s' (by omega) ho1 hlocs1
      (fun i hi => by
        have := hv (i + 1) (by omega)
        have e : start + 1 + (i : Int) = start + ((i + 1 : Nat) : Int) := by push_cast; omega
        rw [e]; exact this) hf
    refine ⟨ho', a1.trans hc1.sync, a2.trans hc1.pred, a3.trans hh1, a4.trans hc1.sparse, a5.trans hc1.maxPrediction,
      a6.trans hn1, a7.trans hl1, ?_⟩
    rw [a8, hc1.statuses]
    show (if k = 0 then rset s.localConnectStatus h _ else rset (rset s.localConnectStatus h _) h _) = _
    have hd : (rget (rset s.localConnectStatus h ({ rget s.localConnectStatus h with lastFrame := start } : ConnStatus)) h).disconnected
        = (rget s.localConnectStatus h).disconnected := by
      by_cases hh : h < s.localConnectStatus.length
      · rw [rget_rset_eq _ _ _ hh]
      · have hid : rset s.localConnectStatus h ({ rget s.localConnectStatus h with lastFrame := start } : ConnStatus)
            = s.localConnectStatus := by
          simp [rset, List.set_eq_of_length_le (by omega : s.localConnectStatus.length ≤ h)]
        rw [hid]
    by_cases hk : k = 0
    · subst hk
      simp only [if_true, Nat.succ_ne_zero, if_false]
      congr 2
      push_cast; omega
    · simp only [hk, if_false, Nat.succ_ne_zero]
      rw [rset_rset]
      congr 1
      have e : start + 1 + (k : Int) - 1 = start + ((k + 1 : Nat) : Int) - 1 := by push_cast; omega
      show ({ disconnected := (rget (rset s.localConnectStatus h _) h).disconnected, lastFrame := start + 1 + (k : Int) - 1 } : ConnStatus) = _
      rw [hd, e]

/-- `QSpec.setDelay`, spelled out. -/
theorem setDelay_facts (s : QSpec) (d : Nat) :
    ∃ k : Nat, (s.setDelay d).1.vals = s.vals ++ List.replicate k s.lastVal ∧
      (s.setDelay d).2 = QSpec.fillList s.vals.length s.lastVal k ∧ (s.vals = [] → k = 0) := by
  unfold QSpec.setDelay
  simp only
  by_cases he : (s.vals.length == 0) = true
  · simp only [he, if_true]
    exact ⟨0, by simp, by simp [QSpec.fillList], fun _ => rfl⟩
  · simp only [he, Bool.false_eq_true, if_false]
    refine ⟨_, rfl, rfl, fun hn => ?_⟩
    rw [hn] at he; simp at he

theorem getD_append_replicate (vals : List Input) (k : Nat) (v : Input) (i : Nat) (hi : i < k) :
    (vals ++ List.replicate k v).getD (vals.length + i) 0 = v := by
  rw [List.getD_eq_getElem?_getD, List.getElem?_append_right (by omega)]
  simp [List.getElem?_replicate, hi]

/-- The ghost after a delay change of player `hd`. -/
def ghDelay (gh : Ghost) (hd d : Nat) : Ghost :=
  { gh with specs := fun i => if i = hd then ((gh.specs hd).setDelay d).1 else gh.specs i }

/-- **`set_input_delay` for a local player.** -/
theorem setInputDelay_spec (s s' : P2P) (gh : Ghost) (t0 : TLState) (reqs : List Request) (now handle delay : Nat)
    (r : Except GgrsError Unit)
    (h : SessInv s gh t0 reqs) (hg : GlueInv s gh) (hloc : handle ∈ s.localPlayerHandles)
    (hp : handle < s.sync.queues.length) (hset : s.setInputDelay now handle delay = .ok (s', r)) :
    ∃ gh', SessInv s' gh' t0 reqs ∧ GlueInv s' gh' ∧ (gh' = gh ∨ gh' = ghDelay gh handle delay) ∧
      s'.sync.currentFrame = s.sync.currentFrame ∧ s'.sync.cells = s.sync.cells ∧ s'.sparse = s.sparse ∧
      s'.sync.lastSavedFrame = s.sync.lastSavedFrame ∧ s'.nextSpectatorFrame = s.nextSpectatorFrame ∧
      s'.handles = s.handles ∧ s'.pred = s.pred ∧ s'.maxPrediction = s.maxPrediction ∧
      s'.sync.queues.length = s.sync.queues.length := by
  unfold P2P.setInputDelay at hset
  cases hpt : s.playerType handle with
  | none =>
    rw [hpt] at hset
    have := pure_ok hset
    simp only [Prod.mk.injEq] at this
    rw [← this.1]
    exact ⟨gh, h, hg, Or.inl rfl, rfl, rfl, rfl, rfl, rfl, rfl, rfl, rfl, rfl⟩
  | some ty =>
    rw [hpt] at hset
    cases ty with
    | remote a =>
      have := pure_ok hset
      simp only [Prod.mk.injEq] at this
      rw [← this.1]
      exact ⟨gh, h, hg, Or.inl rfl, rfl, rfl, rfl, rfl, rfl, rfl, rfl, rfl, rfl⟩
    | spectator a =>
      have := pure_ok hset
      simp only [Prod.mk.injEq] at this
      rw [← this.1]
      exact ⟨gh, h, hg, Or.inl rfl, rfl, rfl, rfl, rfl, rfl, rfl, rfl, rfl, rfl⟩
    | localPlayer =>
      simp only at hset
      obtain ⟨r1, hsd, hset⟩ := bind_ok hset
      obtain ⟨sy, fills⟩ := r1
      simp only at hset
      obtain ⟨s2, hfold, hset⟩ := bind_ok hset
      obtain ⟨s3, hsend, hset⟩ := bind_ok hset
      have := pure_ok hset
      simp only [Prod.mk.injEq] at this
      obtain ⟨hs', _⟩ := this
      subst hs'
      -- the queue
      unfold SyncLayer.setFrameDelay at hsd
      obtain ⟨_, hsd⟩ := ensure_bind_ok hsd
      obtain ⟨r2, hq, hsd⟩ := bind_ok hsd
      obtain ⟨q', fl⟩ := r2
      simp only at hsd
      have := pure_ok hsd
      simp only [Prod.mk.injEq] at this
      obtain ⟨hsy, hfl⟩ := this
      subst hsy; subst hfl
      obtain ⟨hqi, hask, hfills⟩ := QI_setDelay s.pred _ q' _ _ _ _ delay fl (h.tinv.sync.all handle hp) (h.asked handle hp) hq
      obtain ⟨k, hvals, hfl2, hk0⟩ := setDelay_facts (gh.specs handle) delay
      rw [hfl2] at hfills
      subst hfills
      have hpst : handle < s.localConnectStatus.length := by rw [h.tinv.sync.nq]; exact hp
      have hnd : (rget s.localConnectStatus handle).disconnected = false := h.tinv.sync.conn _ (mem_of_rget _ _ hpst)
      have htop := hg.top handle hloc hp
      have hlen' : (((gh.specs handle).setDelay delay).1.vals.length : Int) = (gh.specs handle).vals.length + k := by
        rw [hvals]; simp
      have hsp : (ghDelay gh handle delay).specs handle = ((gh.specs handle).setDelay delay).1 := by simp [ghDelay]
      have hspo : ∀ p, p ≠ handle → (ghDelay gh handle delay).specs p = gh.specs p := by intro p hp; simp [ghDelay, hp]
      have hpre : ∀ p, PrefixOf (gh.specs p).vals ((ghDelay gh handle delay).specs p).vals := by
        intro p
        by_cases hpe : p = handle
        · subst hpe; rw [hsp, hvals]; exact PrefixOf_append _ _
        · rw [hspo p hpe]; exact PrefixOf.refl _
      -- the fills
      have ho1 : OutOk ({ s with sync := { s.sync with queues := rset s.sync.queues handle q' } } : P2P) (ghDelay gh handle delay) :=
        OutOk_congr s _ _ (OutOk_grow s gh _ hg.out hpre) rfl rfl
      obtain ⟨ho2, f1, f2, f3, f4, f5, f6, f7, f8⟩ := fillsFold_spec (ghDelay gh handle delay) handle (gh.specs handle).lastVal k
        ((gh.specs handle).vals.length : Int) _ s2 (Int.natCast_nonneg _) ho1 hloc
        (fun i hi => by
          rw [hsp, hvals]
          have e : (((gh.specs handle).vals.length : Int) + (i : Int)).toNat = (gh.specs handle).vals.length + i := by omega
          rw [e]
          exact ⟨by simp; omega, getD_append_replicate _ _ _ _ hi⟩) hfold
      have hc3 := P2P.sendReady_sameCore _ _ _ hsend
      have hn3 := P2P.sendReady_nsf _ _ _ hsend
      -- the new status of the player
      let st' : ConnStatus := if k = 0 then rget s.localConnectStatus handle
        else { rget s.localConnectStatus handle with lastFrame := ((gh.specs handle).vals.length : Int) + k - 1 }
      have hst2 : s2.localConnectStatus = rset s.localConnectStatus handle st' := by
        rw [f8]
        show (if k = 0 then s.localConnectStatus else rset s.localConnectStatus handle _) = _
        by_cases hk : k = 0
        · simp only [hk, if_true, st']
          exact (rset_rget_self _ _ hpst).symm
        · simp only [hk, if_false, st']
      have hupd := SessInv_update s gh t0 reqs h handle hp q' _ st' hqi hask
        (by simp only [st']; split <;> exact hnd)
        (by
          rw [lastAdded_of_QI hqi, hlen']
          simp only [st']
          split
          · rename_i hk; rw [htop, hk]; simp
          · show ((gh.specs handle).vals.length : Int) + k - 1 ≤ _; omega)
        (fun hc => absurd hloc hc)
      have hinv' : SessInv s3 (ghDelay gh handle delay) t0 reqs := by
        refine SessInv_congr _ s3 _ t0 reqs hupd ?_ ?_ ?_ ?_
        · rw [hc3.pred, f2]
        · rw [hc3.sync, f1]
        · rw [hc3.statuses, hst2]
        · rw [hc3.handles, f3]
      -- the glue invariant after the send
      have hg2 : GlueInv s2 (ghDelay gh handle delay) := by
        refine ⟨ho2, ?_⟩
        intro p hpl hpq
        have hpl' : p ∈ s.localPlayerHandles := by
          unfold P2P.localPlayerHandles at hpl ⊢; rw [f3] at hpl; exact hpl
        have hpq' : p < s.sync.queues.length := by rw [f1] at hpq; simpa [rset_length] using hpq
        rw [hst2]
        by_cases hpe : p = handle
        · subst hpe
          rw [rget_rset_eq _ _ _ hpst, hsp, hlen']
          simp only [st']
          split
          · rename_i hk; rw [htop, hk]; simp
          · show ((gh.specs p).vals.length : Int) + k - 1 = _; omega
        · rw [rget_rset_ne _ _ _ _ (fun e => hpe e.symm), hspo p hpe]
          exact hg.top p hpl' hpq'
      have hg3 : GlueInv s3 (ghDelay gh handle delay) := by
        unfold P2P.sendReadyOutgoingInputsToRemotes at hsend
        split at hsend
        · have := pure_ok hsend; subst this; exact hg2
        · simp only at hsend
          split at hsend
          · have := pure_ok hsend; subst this; exact hg2
          · exact (sendReadyLoop_glue _ now _ s2 s3 hg2 hsend).2.1
      refine ⟨_, hinv', hg3, Or.inr rfl, ?_, ?_, ?_, ?_, ?_, ?_, ?_, ?_, ?_⟩
      · rw [hc3.sync, f1]
      · rw [hc3.sync, f1]
      · rw [hc3.sparse, f4]
      · rw [hc3.sync, f1]
      · rw [hn3, f6]
      · rw [hc3.handles, f3]
      · rw [hc3.pred, f2]
      · rw [hc3.maxPrediction, f5]
      · rw [hc3.sync, f1]; exact rset_length _ _ _

/-! ### runs with delay changes -/

/-- Steps of a rollback-mode session including run-time delay changes of local players. -/
inductive DStep : (P2P × TLState) → (P2P × TLState) → Prop
  | base (x y : P2P × TLState) : SStep x y → DStep x y
  | setDelay (s s' : P2P) (t : TLState) (now handle delay : Nat) (r : Except GgrsError Unit) :
      handle ∈ s.localPlayerHandles → handle < s.sync.queues.length →
      s.setInputDelay now handle delay = .ok (s', r) → DStep (s, t) (s', t)

inductive DStar : (P2P × TLState) → (P2P × TLState) → Prop
  | refl (x : P2P × TLState) : DStar x x
  | step (x y z : P2P × TLState) : DStar x y → DStep y z → DStar x z

/-- Session invariant, glue invariant and a non-negative spectator cursor. -/
def HInv (x : P2P × TLState) : Prop :=
  (∃ gh, SessInv x.1 gh x.2 [] ∧ GlueInv x.1 gh) ∧ 0 ≤ x.1.nextSpectatorFrame

theorem HInv_step (x y : P2P × TLState) (h : HInv x) (hs : DStep x y) : HInv y := by
  obtain ⟨⟨gh, hx, hgx⟩, hn⟩ := h
  cases hs with
  | base _ _ hss =>
    have hstar : SStar x y := SStar.step x x y (SStar.refl x) hss
    exact ⟨GlueInv_run x y ⟨gh, hx, hgx⟩ hstar, nsf_run x y ⟨gh, hx⟩ hn hstar⟩
  | setDelay s s' t now handle delay r hloc hp hset =>
    obtain ⟨gh', hinv', hg', _, _, _, _, _, hnsf, _⟩ := setInputDelay_spec s s' gh t [] now handle delay r hx hgx hloc hp hset
    exact ⟨⟨gh', hinv', hg'⟩, by show 0 ≤ s'.nextSpectatorFrame; rw [hnsf]; exact hn⟩

/-- **L-delay.** -/
theorem HInv_run (x y : P2P × TLState) (h : HInv x) (hr : DStar x y) : HInv y := by
  induction hr with
  | refl => exact h
  | step y z _ hs ih => exact HInv_step y z ih hs

/-- The same with the game: delay changes touch neither the game nor the cells. -/
inductive DWStep {G : Type} (step : G → List (Input × InputStatus) → G) : (P2P × GS G) → (P2P × GS G) → Prop
  | base (a b : P2P × GS G) : WStep step a b → DWStep step a b
  | setDelay (s s' : P2P) (x : GS G) (now handle delay : Nat) (r : Except GgrsError Unit) :
      handle ∈ s.localPlayerHandles → handle < s.sync.queues.length →
      s.setInputDelay now handle delay = .ok (s', r) → DWStep step (s, x) (s', x)

inductive DWStar {G : Type} (step : G → List (Input × InputStatus) → G) : (P2P × GS G) → (P2P × GS G) → Prop
  | refl (w) : DWStar step w w
  | step (a b c) : DWStar step a b → DWStep step b c → DWStar step a c

/-- World invariant plus glue invariant. -/
def DWInv {G : Type} (step : G → List (Input × InputStatus) → G) (g0 : G) (w : P2P × GS G) : Prop :=
  WInv step g0 w.1 w.2 ∧ ∃ gh, SessInv w.1 gh ⟨w.2.cur, w.2.R⟩ [] ∧ GlueInv w.1 gh

/-- The session/glue pair across one call whose requests the game executes. -/
theorem pair_tick {G : Type} (step : G → List (Input × InputStatus) → G) (s s' : P2P) (x : GS G) (n : Nat)
    (now : Nat) (pre reqs' : List Request) (saves : List (Frame × Option Nat)) (gh : Ghost)
    (hsess : SessInv s gh ⟨x.cur, x.R⟩ pre) (hg : GlueInv s gh)
    (hadv : s.advanceRollbackFrame now pre = .ok (s', reqs')) :
    ∃ gh', SessInv (s'.userExecute saves) gh' ⟨(execGs step n x reqs').cur, (execGs step n x reqs').R⟩ [] ∧
      GlueInv (s'.userExecute saves) gh' := by
  obtain ⟨_, gh', _, _, hinv', hg', _⟩ := rollbackTick_glue s s' gh ⟨x.cur, x.R⟩ pre reqs' now hsess hg hadv
  obtain ⟨ecur, eR⟩ := execGs_cur_R step n x reqs'
  obtain ⟨uq, uc, ul, up, ust, uh, usp⟩ := userExecute_fields s' saves
  refine ⟨gh', ?_, ?_⟩
  · have hreb := SessInv_rebase s' gh' ⟨x.cur, x.R⟩ reqs' hinv'
    have ht : (⟨(execGs step n x reqs').cur, (execGs step n x reqs').R⟩ : TLState) = execReqs ⟨x.cur, x.R⟩ reqs' := by
      rw [ecur, eR]
    rw [ht]
    exact SessInv_sameQueues s' _ gh' _ [] hreb uq uc up ust uh
  · exact GlueInv_transfer s' _ gh' gh' hg' rfl uh ust (by rw [uq]) rfl

theorem DWInv_step {G : Type} (step : G → List (Input × InputStatus) → G) (g0 : G) (a b : P2P × GS G)
    (h : DWInv step g0 a) (hs : DWStep step a b) : DWInv step g0 b := by
  obtain ⟨hw, gh, hsess, hg⟩ := h
  cases hs with
  | base _ _ hws =>
    refine ⟨WInv_step step g0 a b hw hws, ?_⟩
    cases hws with
    | remoteInput s s' x now inp player handles addr hnl h0 hev =>
      have hstar : SStar (s, ⟨x.cur, x.R⟩) (s', ⟨x.cur, x.R⟩) :=
        SStar.step _ _ _ (SStar.refl _) (SStep.remoteInput s s' _ now inp player handles addr hnl h0 hev)
      exact GlueInv_run _ _ ⟨gh, hsess, hg⟩ hstar
    | tick s s' x now reqs' saves hadv hsaves =>
      exact pair_tick step s s' x s.sync.cells.length now [] reqs' saves gh hsess hg hadv
    | tick0 s s' x now sy r reqs' saves hf0 hsv hadv hsaves =>
      obtain ⟨hq, hc, hr, _, _, _, _⟩ := save_fields _ _ _ hsv
      have hsess1 : SessInv ({ s with sync := sy } : P2P) gh ⟨x.cur, x.R⟩ [r] := by
        have h1 := SessInv_sameQueues s ({ s with sync := sy } : P2P) gh _ [] hsess hq hc rfl rfl rfl
        rw [hr]
        exact ⟨⟨h1.tinv.sync, h1.tinv.exec, h1.tinv.rows⟩, h1.asked, h1.status, h1.remote⟩
      have hg1 : GlueInv ({ s with sync := sy } : P2P) gh := GlueInv_transfer s _ gh gh hg rfl rfl rfl (by show sy.queues.length = _; rw [hq]) rfl
      exact pair_tick step _ s' x s.sync.cells.length now [r] reqs' saves gh hsess1 hg1 hadv
    | localInput s x handle input =>
      have hstar : SStar (s, ⟨x.cur, x.R⟩) ((s.addLocalInput handle input).1, ⟨x.cur, x.R⟩) :=
        SStar.step _ _ _ (SStar.refl _) (SStep.localInput s _ handle input)
      exact GlueInv_run _ _ ⟨gh, hsess, hg⟩ hstar
  | setDelay s s' x now handle delay r hloc hp hset =>
    obtain ⟨gh', hinv', hg', _, hcur, hcells, hsp, hls, _, _, _, _⟩ :=
      setInputDelay_spec s s' gh ⟨x.cur, x.R⟩ [] now handle delay r hsess hg hloc hp hset
    refine ⟨⟨⟨gh', hinv'⟩, by show 0 < s'.sync.cells.length; rw [hcells]; exact hw.ncells, ?_⟩, gh', hinv', hg'⟩
    obtain ⟨c, hc, hgi, htags, hmode⟩ := hw.chk
    refine ⟨c, ?_, ?_, ?_, ?_⟩
    · show c.cur = s'.sync.currentFrame; rw [hcur]; exact hc
    · show GInv step g0 s'.sync.cells.length x c; rw [hcells]; exact hgi
    · show ∀ i, i < s'.sync.cells.length → _; rw [hcells]; exact htags
    · unfold ModeInv
      show (s'.sparse = false ∧ QInv s'.sync.cells.length c ∧ (0 < s'.sync.currentFrame → _)) ∨ _
      rw [hcells, hsp, hcur, hls]
      exact hmode

/-- **L-delay with the game.** -/
theorem DWInv_run {G : Type} (step : G → List (Input × InputStatus) → G) (g0 : G) (a b : P2P × GS G)
    (h : DWInv step g0 a) (hr : DWStar step a b) : DWInv step g0 b := by
  induction hr with
  | refl => exact h
  | step b c _ hs ih => exact DWInv_step step g0 b c ih hs

end Ggrs
