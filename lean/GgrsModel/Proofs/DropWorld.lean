/-
L-drop (world): a rollback-mode session (either saving mode) next to the game it drives, with remote-input
arrivals, `advance_frame` calls, and locally detected drops — the `disconnect_player` call and the
Disconnected event of an endpoint (what a timeout raises). Gossip-driven disconnects
(`update_player_disconnects` adopting another peer's earlier cut-off) are not steps of this world.
-/
import GgrsModel.Proofs.DropSession

namespace Ggrs
open InputQueue

/-- An old-style invariant (nobody marked disconnected) is an invariant with dead players. -/
theorem SessInvD_of_SessInv (s : P2P) (gh : Ghost) (t0 : TLState) (reqs : List Request)
    (h : SessInv s gh t0 reqs) (hdf : s.disconnectFrame = NULL_FRAME) :
    SessInvD s ⟨gh.specs, gh.hists, gh.T, fun _ => False⟩ t0 reqs s.localConnectStatus := by
  have hconn : ∀ p, p < s.sync.queues.length → (rget s.localConnectStatus p).disconnected = false := by
    intro p hp
    exact h.tinv.sync.conn _ (mem_of_rget _ _ (by rw [h.tinv.sync.nq]; exact hp))
  have hconn' : ∀ p, (rget s.localConnectStatus p).disconnected = false := by
    intro p
    by_cases hp : p < s.localConnectStatus.length
    · exact h.tinv.sync.conn _ (mem_of_rget _ _ hp)
    · have : rget s.localConnectStatus p = default := by
        simp [rget, List.getD_eq_getElem?_getD, List.getElem?_eq_none (by omega : s.localConnectStatus.length ≤ p)]
      rw [this]; rfl
  refine ⟨⟨⟨h.tinv.sync.cur, h.tinv.sync.nq, fun _ _ hg => absurd hg id, ?_⟩, h.tinv.exec, h.tinv.rows, ?_⟩,
    Marks.refl _, fun p hp _ => h.asked p hp, ?_, fun p hp _ => h.status p hp, h.remote,
    fun p _ => hconn' p, fun _ _ hg => absurd hg id, Or.inl hdf, (fun p hp hd => by rw [hconn p hp] at hd; cases hd),
    fun _ _ _ hg => absurd hg id⟩
  · intro p hp _
    have : pcur (rget s.localConnectStatus p) s.sync.currentFrame = s.sync.currentFrame := by
      unfold pcur; rw [if_neg (by rw [hconn p hp]; simp)]
    rw [this]; exact h.tinv.sync.all p hp
  · intro p hp hd
    rw [hconn p hp] at hd; cases hd
  · intro p _ h0 h1
    rw [h0] at h1; cases h1

theorem SessInvD_rebase (s : P2P) (gh : DGhost) (t0 : TLState) (reqs : List Request) (st0 : List ConnStatus)
    (h : SessInvD s gh t0 reqs st0) : SessInvD s gh (execReqs t0 reqs) [] st0 :=
  ⟨⟨h.tinv.sync, h.tinv.exec, h.tinv.rows, h.tinv.deadRows⟩, h.marks, h.asked, h.pend, h.status,
    h.remote, h.localAlive, h.safe, h.dfok, h.deadClean, h.saved⟩

/-- What the environment provides when an endpoint's Disconnected event is handled: the handles
are the remote players behind that address, all still connected (`own`: not yet treated as dead by
the queue invariants), with one common last frame `L`. -/
structure DropCfg (s : P2P) (hs : List Nat) (addr : Nat) (eph : List Nat) (L : Frame) (st0 : List ConnStatus) : Prop where
  pt : ∀ h, h ∈ hs → s.playerType h = some (.remote addr)
  ep : ∃ ep, P2P.findEp s.remotes addr = some ep ∧ ep.handles = eph
  sub : ∀ h, h ∈ hs → h ∈ eph
  rem : ∀ g, g ∈ eph → g ∉ s.localPlayerHandles
  lt : ∀ h, h ∈ hs → h < s.numPlayers ∧ h < s.sync.queues.length
  own : ∀ h, h ∈ hs → (rget st0 h).disconnected = false ∧ (rget s.localConnectStatus h).lastFrame = L
  L0 : -1 ≤ L
  same : ∀ g, g ∈ eph → g < s.sync.queues.length → (rget s.localConnectStatus g).disconnected = false →
    (rget s.localConnectStatus g).lastFrame = L

theorem dropFold_specD (gh : DGhost) (t0 : TLState) (reqs : List Request) (st0 : List ConnStatus) (now addr : Nat)
    (eph : List Nat) (L : Frame) : ∀ (hs : List Nat) (s s' : P2P),
    SessInvD s gh t0 reqs st0 → DropCfg s hs addr eph L st0 →
    hs.foldlM (fun s h =>
      let lastFrame := if h < s.numPlayers then (rget s.localConnectStatus h).lastFrame else NULL_FRAME
      s.disconnectPlayerAtFrame now h lastFrame) s = .ok s' →
    SessInvD s' gh t0 reqs st0 ∧ s'.sync = s.sync ∧ s'.handles = s.handles ∧ s'.pred = s.pred ∧
      (∀ g, (rget s.localConnectStatus g).disconnected = true → (rget s'.localConnectStatus g).disconnected = true) ∧
      (hs ≠ [] → ∀ g, g ∈ eph → g < s.sync.queues.length → (rget s'.localConnectStatus g).disconnected = true) ∧
      (∀ g, (rget s'.localConnectStatus g).lastFrame = (rget s.localConnectStatus g).lastFrame) ∧
      (s.sync.currentFrame ≤ L + 1 → s'.disconnectFrame = s.disconnectFrame) ∧
      (∀ g, g ∉ eph → rget s'.localConnectStatus g = rget s.localConnectStatus g) ∧
      s'.outgoingLocalInputs = s.outgoingLocalInputs ∧ s'.lastSentOutgoingInputFrame = s.lastSentOutgoingInputFrame := by
  intro hs
  induction hs with
  | nil =>
    intro s s' h _ hf
    simp only [List.foldlM_nil] at hf
    have := pure_ok hf
    subst this
    exact ⟨h, rfl, rfl, rfl, fun _ hd => hd, fun hne => absurd rfl hne, fun _ => rfl, fun _ => rfl, fun _ _ => rfl, rfl, rfl⟩
  | cons a rest ih =>
    intro s s' h cfg hf
    simp only [List.foldlM_cons] at hf
    obtain ⟨s1, h1, hf⟩ := bind_ok hf
    obtain ⟨ep, hep, heph⟩ := cfg.ep
    have ha := cfg.lt a List.mem_cons_self
    have hown := cfg.own a List.mem_cons_self
    simp only [ha.1, if_true] at h1
    rw [hown.2] at h1
    have hpt := cfg.pt a List.mem_cons_self
    obtain ⟨hinv1, hsy1, hh1, hp1, hmono1, hmark1, hL1, hdf1, hoth1, hout1, hls1⟩ := drop_specD s s1 gh t0 reqs st0 now a addr L ep h hpt hep
      (by rw [heph]; exact cfg.rem) ⟨ha.2, hown.1, hown.2.symm⟩ cfg.L0 (by rw [heph]; exact cfg.same) h1
    obtain ⟨_, _, _, _, _, _, _, _, _, _, hnp1, hfind1, _, _⟩ := P2P.disconnectAt_fields s s1 now a addr L ep hpt hep h1
    have hlp : s1.localPlayerHandles = s.localPlayerHandles := by unfold P2P.localPlayerHandles; rw [hh1]
    have cfg1 : DropCfg s1 rest addr eph L st0 := by
      refine ⟨?_, ⟨_, hfind1, by rw [P2P.disconnect_handles, heph]⟩, fun x hx => cfg.sub x (List.mem_cons_of_mem _ hx),
        by rw [hlp]; exact cfg.rem, ?_, ?_, cfg.L0, ?_⟩
      · intro x hx
        unfold P2P.playerType
        rw [hh1]
        exact cfg.pt x (List.mem_cons_of_mem _ hx)
      · intro x hx
        rw [hnp1, hsy1]; exact cfg.lt x (List.mem_cons_of_mem _ hx)
      · intro x hx
        rw [hL1]; exact cfg.own x (List.mem_cons_of_mem _ hx)
      · intro g hg hgn hc
        rw [hsy1] at hgn
        rw [hL1]
        have hc' : (rget s.localConnectStatus g).disconnected = false := by
          cases hx : (rget s.localConnectStatus g).disconnected with
          | false => rfl
          | true => have := hmono1 g hx; rw [hc] at this; cases this
        exact cfg.same g hg hgn hc'
    obtain ⟨hinv', hsy', hh', hp', hmono', _, hL', hdf', hoth', hout', hls'⟩ := ih s1 s' hinv1 cfg1 hf
    refine ⟨hinv', hsy'.trans hsy1, hh'.trans hh1, hp'.trans hp1, fun g hd => hmono' g (hmono1 g hd), ?_,
      fun g => (hL' g).trans (hL1 g), fun hle => (hdf' (by rw [hsy1]; exact hle)).trans (hdf1 hle),
      fun g hg => (hoth' g hg).trans (hoth1 g (by rw [heph]; exact hg)), hout'.trans hout1, hls'.trans hls1⟩
    intro _ g hg hgn
    exact hmono' g (hmark1 g (by rw [heph]; exact hg) hgn)

/-- A session and the game it drives, with drops. -/
inductive XStep : (P2P × TLState) → (P2P × TLState) → Prop
  /-- a remote player's input arrives (ignored if the player is marked disconnected) -/
  | remoteInput (s s' : P2P) (t : TLState) (now : Nat) (inp : PlayerInput) (player : Nat) (handles : List Nat)
      (addr : Nat) : player ∉ s.localPlayerHandles → 0 ≤ inp.frame →
      s.handleEventCore now (.input inp player) handles addr = .ok s' → XStep (s, t) (s', t)
  /-- a rollback-mode `advance_frame`; the game executes the requests -/
  | tick (s s' : P2P) (t : TLState) (now : Nat) (reqs' : List Request) :
      s.advanceRollbackFrame now [] = .ok (s', reqs') → XStep (s, t) (s', execReqs t reqs')
  /-- the user calls `disconnect_player` for a remote player and it is accepted -/
  | dropApi (s s' : P2P) (t : TLState) (now handle addr : Nat) (ep : Endpoint) :
      s.playerType handle = some (.remote addr) → P2P.findEp s.remotes addr = some ep →
      (∀ g, g ∈ ep.handles → g ∉ s.localPlayerHandles) → handle < s.sync.queues.length →
      -1 ≤ (rget s.localConnectStatus handle).lastFrame →
      (∀ g, g ∈ ep.handles → g < s.sync.queues.length → (rget s.localConnectStatus g).disconnected = false →
        (rget s.localConnectStatus g).lastFrame = (rget s.localConnectStatus handle).lastFrame) →
      s.disconnectPlayer now handle = .ok (s', .ok ()) → XStep (s, t) (s', t)
  /-- an endpoint's Disconnected event (raised by its timeout) is handled -/
  | dropEvent (s s' : P2P) (t : TLState) (now addr : Nat) (hs : List Nat) (ep : Endpoint) (L : Frame) :
      (∀ h, h ∈ hs → s.playerType h = some (.remote addr)) → P2P.findEp s.remotes addr = some ep →
      (∀ h, h ∈ hs → h ∈ ep.handles) → (∀ g, g ∈ ep.handles → g ∉ s.localPlayerHandles) →
      (∀ h, h ∈ hs → h < s.numPlayers ∧ h < s.sync.queues.length) →
      (∀ h, h ∈ hs → (rget s.localConnectStatus h).disconnected = false) → -1 ≤ L →
      (∀ g, g ∈ ep.handles → g < s.sync.queues.length → (rget s.localConnectStatus g).disconnected = false →
        (rget s.localConnectStatus g).lastFrame = L) →
      s.handleEventCore now .disconnected hs addr = .ok s' → XStep (s, t) (s', t)
  /-- `update_player_disconnects` acts on the other peers' reports: `disconnect_player_at_frame` with
  the cut-off it computed — not beyond the last frame of any still-connected player of that
  endpoint, and not before the last frame of any player already marked (adopting a cut-off EARLIER
  than an already dropped player's last frame is the known finding of C10; it is not a step) -/
  | adopt (s s' : P2P) (t : TLState) (now handle addr : Nat) (ep : Endpoint) (lastFrame : Frame) :
      s.playerType handle = some (.remote addr) → P2P.findEp s.remotes addr = some ep →
      (∀ g, g ∈ ep.handles → g ∉ s.localPlayerHandles) → -1 ≤ lastFrame →
      (∀ g, g ∈ ep.handles → g < s.sync.queues.length → (rget s.localConnectStatus g).disconnected = false →
        lastFrame ≤ (rget s.localConnectStatus g).lastFrame) →
      (∀ g, g < s.sync.queues.length → (rget s.localConnectStatus g).disconnected = true →
        (rget s.localConnectStatus g).lastFrame ≤ lastFrame) →
      s.disconnectPlayerAtFrame now handle lastFrame = .ok s' → XStep (s, t) (s', t)
  /-- the user submits a local player's input for the coming call (`add_local_input`) -/
  | localInput (s : P2P) (t : TLState) (handle : Nat) (input : Input) :
      XStep (s, t) ((s.addLocalInput handle input).1, t)
  /-- the game fulfils `SaveGameState` requests: cells are written (any cell, any time; see `SStep.saves`) -/
  | saves (s : P2P) (t : TLState) (saves : List (Frame × Option Nat)) : XStep (s, t) (s.userExecute saves, t)

inductive XStar : (P2P × TLState) → (P2P × TLState) → Prop
  | refl (x : P2P × TLState) : XStar x x
  | step (x y z : P2P × TLState) : XStar x y → XStep y z → XStar x z

def XInv (x : P2P × TLState) : Prop := ∃ gh st0, SessInvD x.1 gh x.2 [] st0

theorem conn_of_marks {st0 st1 : List ConnStatus} (hm : Marks st0 st1) (p : Nat)
    (hc : (rget st1 p).disconnected = false) : (rget st0 p).disconnected = false := by
  cases hx : (rget st0 p).disconnected with
  | false => rfl
  | true => have := hm.mono p hx; rw [hc] at this; cases this

theorem XInv_step (x y : P2P × TLState) (h : XInv x) (hs : XStep x y) : XInv y := by
  obtain ⟨gh, st0, h⟩ := h
  cases hs with
  | remoteInput s s' t now inp player handles addr hnl h0 hev =>
    obtain ⟨gh', st0', h', _⟩ := remoteInput_specD s s' gh t [] st0 now inp player handles addr h hnl h0 hev
    exact ⟨gh', st0', h'⟩
  | tick s s' t now reqs' hadv =>
    obtain ⟨_, _, _, _, gh', _, _, h', _⟩ := advanceRollbackFrame_specD s s' gh t [] reqs' now st0 h hadv
    exact ⟨gh', _, SessInvD_rebase s' gh' t reqs' _ h'⟩
  | dropApi s s' t now handle addr ep hpt hep hrem hlt hl0 hsame hcall =>
    unfold P2P.disconnectPlayer at hcall
    rw [hpt] at hcall
    simp only at hcall
    by_cases hc : (rget s.localConnectStatus handle).disconnected = true
    · simp only [hc, Bool.not_true, Bool.false_eq_true, if_false] at hcall
      have := pure_ok hcall
      simp only [Prod.mk.injEq] at this
      cases this.2
    · have hc' : (rget s.localConnectStatus handle).disconnected = false := by simpa using hc
      simp only [hc', Bool.not_false, if_true] at hcall
      obtain ⟨s1, hdrop, hcall⟩ := bind_ok hcall
      have := pure_ok hcall
      simp only [Prod.mk.injEq] at this
      rw [← this.1]
      obtain ⟨h', _⟩ := drop_specD s s1 gh t [] st0 now handle addr _ ep h hpt hep hrem
        ⟨hlt, conn_of_marks h.marks handle hc', rfl⟩ hl0 hsame hdrop
      exact ⟨gh, st0, h'⟩
  | dropEvent s s' t now addr hs ep L hpt hep hsub hrem hlt hconn hL0 hsame hev =>
    unfold P2P.handleEventCore at hev
    simp only at hev
    obtain ⟨s1, hfold, hev⟩ := bind_ok hev
    have := pure_ok hev
    subst this
    have cfg : DropCfg s hs addr ep.handles L st0 :=
      ⟨hpt, ⟨ep, hep, rfl⟩, hsub, hrem, hlt,
        fun x hx => ⟨conn_of_marks h.marks x (hconn x hx), hsame x (hsub x hx) (hlt x hx).2 (hconn x hx)⟩, hL0, hsame⟩
    obtain ⟨h', _⟩ := dropFold_specD gh t [] st0 now addr ep.handles L hs s s1 h cfg hfold
    exact ⟨gh, st0, SessInvD_congr s1 _ gh t [] st0 h' ⟨rfl, rfl, rfl, rfl, rfl, rfl, rfl, rfl, rfl⟩⟩
  | adopt s s' t now handle addr ep lf hpt hep hrem hl0 hlow hdead hdrop =>
    obtain ⟨h', _⟩ := drop_specG s s' gh t [] st0 now handle addr lf ep h hpt hep hrem hl0 hlow
      (fun g hg hgg => hdead g hg (h.marks.mono g (h.tinv.sync.gone g hg hgg).dead)) hdrop
    exact ⟨gh, st0, h'⟩
  | localInput s t handle input =>
    obtain ⟨l, hl⟩ := P2P.addLocalInput_pending s handle input
    show XInv ((s.addLocalInput handle input).1, t)
    rw [hl]
    exact ⟨gh, st0, SessInvD_pending s gh t [] st0 l h⟩
  | saves s t sv => exact ⟨gh, st0, SessInvD_userExecute s gh t [] st0 sv h⟩

/-- **L-drop.** The session invariant with dead players holds after every sequence of arrivals,
calls and locally detected drops. -/
theorem XInv_run (x y : P2P × TLState) (h : XInv x) (hr : XStar x y) : XInv y := by
  induction hr with
  | refl => exact h
  | step y z _ hs ih => exact XInv_step y z ih hs

/-- Every run of the old world (nobody ever marked) is a run of this one. -/
theorem XStar_of_SStar (x y : P2P × TLState) (h : SStar x y) : XStar x y := by
  induction h with
  | refl => exact XStar.refl _
  | step y z _ hs ih =>
    refine XStar.step _ y z ih ?_
    cases hs with
    | remoteInput s s' t now inp player handles addr hnl h0 hev => exact XStep.remoteInput s s' t now inp player handles addr hnl h0 hev
    | tick s s' t now reqs' hadv => exact XStep.tick s s' t now reqs' hadv
    | localInput s t handle input => exact XStep.localInput s t handle input
    | saves s t sv => exact XStep.saves s t sv

/-- **The prediction window with dead players.** If a call simulates a new frame `c`, every player
that is still connected has real inputs at least up to frame `c - max_prediction`: the session
never runs more than `max_prediction` frames beyond the newest frame for which it holds the input
of everybody who is still there. -/
theorem window_allD (s s' : P2P) (gh : DGhost) (t0 : TLState) (reqs reqs' : List Request) (now : Nat)
    (st0 : List ConnStatus) (h : SessInvD s gh t0 reqs st0)
    (hadv : s.advanceRollbackFrame now reqs = .ok (s', reqs'))
    (hnew : s'.sync.currentFrame ≠ s.sync.currentFrame) :
    ∃ gh', SessInvD s' gh' t0 reqs' s'.localConnectStatus ∧ ∀ p, p < s.sync.queues.length →
      (rget s.localConnectStatus p).disconnected = false →
      s.sync.currentFrame - ((gh'.specs p).vals.length - 1 : Int) ≤ s.maxPrediction := by
  unfold P2P.advanceRollbackFrame at hadv
  obtain ⟨confirmed, hconf, hadv⟩ := bind_ok hadv
  obtain ⟨r1, hrs, hadv⟩ := bind_ok hadv
  obtain ⟨s1, reqs1⟩ := r1
  simp only at hadv
  obtain ⟨s2, hspec, hadv⟩ := bind_ok hadv
  obtain ⟨sy3, hset, hadv⟩ := bind_ok hadv
  obtain ⟨s4, hreg, hgate⟩ := bind_ok hadv
  obtain ⟨gh1, hsettled, hright⟩ := handleRollbackAndSaveD s s1 confirmed t0 reqs reqs1 gh st0 h.tinv h.marks
    h.asked h.pend
    (fun p hp hg => by
      have := h.safe p hp hg
      have hsv := fun hsp => h.saved hsp p hp hg
      rw [h.marks.last] at this hsv
      exact ⟨this.1, this.2.1, hsv⟩) hrs
  have hinv1 := SessInvD_of_settledD s s1 gh gh1 t0 reqs reqs1 st0 h hsettled
  have hc2 := P2P.sendConfirmed_sameCore _ _ _ _ hspec
  have hinv2 := SessInvD_congr s1 s2 gh1 t0 reqs1 _ hinv1 hc2
  rw [← hc2.statuses] at hinv2
  have hst2 : s2.localConnectStatus = s.localConnectStatus := by rw [hc2.statuses, hsettled.statuses]
  have hnq2 : s2.sync.queues.length = s.sync.queues.length := by rw [hc2.sync, hsettled.nq]
  have hn1 : s.localConnectStatus.length = s.sync.queues.length := by rw [h.marks.len]; exact h.tinv.sync.nq
  have hle : ∀ p, p < s2.sync.queues.length → (rget s2.localConnectStatus p).disconnected = false →
      confirmed ≤ (rget s2.localConnectStatus p).lastFrame := by
    intro p hp hc
    rw [hst2] at hc ⊢
    exact confirmedFrame_leD s confirmed hconf p (by rw [hn1, ← hnq2]; exact hp) hc
  have hclean2 : ∀ p, p < s2.sync.queues.length → (rget s2.sync.queues p).firstIncorrectFrame = NULL_FRAME := by
    rw [hc2.sync]; exact hsettled.clean
  have hright2 : TimelineRightD s2.sync s2.localConnectStatus gh1 := by rw [hc2.sync, hst2]; exact hright
  obtain ⟨gh3, hinv3, hsp3, _, _, hcur3, hnq3, hclean3⟩ := setLastConfirmed_specD s2 sy3 gh1 t0 reqs1 confirmed hinv2
    hclean2 (by rw [hc2.disconnectFrame]; exact hsettled.df) hright2 hle hset
  have hlcf := setLastConfirmed_le _ _ _ _ hset
  obtain ⟨gh4, hinv4, hk4⟩ := registerLocalInputs_specD _ s4 gh3 t0 reqs1 now hinv3 hreg
  have hclean4 : ∀ p, p < s4.sync.queues.length → (rget s4.localConnectStatus p).disconnected = true →
      (rget s4.sync.queues p).firstIncorrectFrame = NULL_FRAME := by
    intro p hp hd
    have hd2 : (rget s2.localConnectStatus p).disconnected = true := by
      have := hk4.flags p
      rw [hd] at this
      exact this.symm
    rw [(hk4.deadQ p hd2).1]
    exact hclean3 p (by rw [← hk4.nq]; exact hp)
  obtain ⟨gh', hinv', hsp', _, _, _, _, _, _⟩ := rollbackGate_specD s4 s' gh4 t0 reqs1 reqs' hinv4 hgate
  have hcur4 : s4.sync.currentFrame = s.sync.currentFrame := by
    rw [hk4.cur]; show sy3.currentFrame = _; rw [hcur3, hc2.sync, hsettled.cur]
  have hmp4 : s4.maxPrediction = s.maxPrediction := by
    rw [hk4.maxPrediction]; show s2.maxPrediction = _; rw [hc2.maxPrediction, hsettled.rest.2.1]
  have hgw := P2P.C04_window_frames_aux s4 s' reqs1 reqs' hgate (by rw [hcur4]; exact hnew)
  refine ⟨gh', hinv', ?_⟩
  intro p hp hc
  rw [hsp']
  have hp2 : p < s2.sync.queues.length := by rw [hnq2]; exact hp
  have hc2' : (rget s2.localConnectStatus p).disconnected = false := by rw [hst2]; exact hc
  have hng : ¬ gh1.gone p := fun hg => by
    have := (hinv2.tinv.sync.gone p hp2 hg).dead; rw [hc2'] at this; cases this
  have hstat := hinv2.status p hp2 hng
  have hconfp := hle p hp2 hc2'
  have hla : (rget s2.sync.queues p).lastAddedFrame = ((gh1.specs p).vals.length : Int) - 1 :=
    lastAdded_of_QI (hinv2.tinv.sync.live p hp2 hng)
  have hgrow := hk4.grows p
  rw [hsp3] at hgrow
  have hlcf4 : s4.sync.lastConfirmedFrame = sy3.lastConfirmedFrame := hk4.lastConfirmed
  rw [hcur4, hmp4, hlcf4] at hgw
  have hnull : NULL_FRAME = (-1 : Int) := rfl
  rcases hgw with ⟨hn, hlt⟩ | ⟨hn, hlt⟩
  · rw [hnull] at hn
    have : ((gh1.specs p).vals.length : Int) ≥ 0 := Int.natCast_nonneg _
    omega
  · omega

/-- The whole column of a dead remote player (dead as far as the queue invariants know: `st0`) is
right at every moment: real inputs up to its last frame, and — `TInvD.deadRows` — the blank input
with status Disconnected beyond. -/
theorem deadColumn_right (s : P2P) (gh : DGhost) (t0 : TLState) (reqs : List Request) (st0 : List ConnStatus)
    (h : SessInvD s gh t0 reqs st0) (p : Nat) (hp : p < s.sync.queues.length)
    (hd : (rget st0 p).disconnected = true) (hnl : p ∉ s.localPlayerHandles)
    (f : Nat) (hf : (f : Int) < s.sync.currentFrame) (hle : (f : Int) ≤ (rget st0 p).lastFrame) :
    (((execReqs t0 reqs).R f).getD p default).1 = (gh.specs p).vals.getD f 0 := by
  rw [← h.tinv.rows p hp f]
  obtain ⟨_, hlu, hlen⟩ := h.remote p hp hnl
  have hL : (rget s.localConnectStatus p).lastFrame = (rget st0 p).lastFrame := h.marks.last p
  have hflen : f < (gh.specs p).vals.length := by
    have : ((gh.specs p).vals.length : Int) = (rget st0 p).lastFrame + 1 := by rw [hlen, hlu, hL]
    omega
  by_cases hg : gh.gone p
  · exact (h.tinv.sync.gone p hp hg).right f hle hflen
  · have hq := h.tinv.sync.live p hp hg
    have hfp : (f : Int) < pcur (rget st0 p) s.sync.currentFrame := by
      unfold pcur; rw [if_pos hd]; omega
    rcases hq.tl.col f hfp with ⟨a, _⟩ | ⟨_, b⟩ | ⟨a, _⟩
    · exact absurd (h.deadClean p hp hd) a
    · exact b
    · omega

end Ggrs
