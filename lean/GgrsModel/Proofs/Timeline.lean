/-
L-timeline: the rollback loop of the session keeps the simulated timeline equal to the inputs
received so far.

Per player, `Tp f` is the value the session used for that player in its LAST simulation of frame
`f` (the column of the timeline). `TL` ties it to the player's queue: a frame whose real input has
arrived either carries that input or lies at/after the queue's `first_incorrect_frame`; a frame
whose input has not arrived carries the fresh prediction, and the queue is in prediction mode so
that the arrival will be checked.
-/
import GgrsModel.Proofs.Predict
import GgrsModel.Model.P2P
import GgrsModel.Proofs.Earliest

namespace Ggrs
open InputQueue

/-- Point update of a timeline column. -/
def upd {α} (T : Nat → α) (k : Nat) (v : α) : Nat → α := fun f => if f = k then v else T f

theorem upd_self {α} (T : Nat → α) (k : Nat) (v : α) : upd T k v k = v := by simp [upd]
theorem upd_ne {α} (T : Nat → α) (k f : Nat) (v : α) (h : f ≠ k) : upd T k v f = T f := by simp [upd, h]

structure TL (pr : Predictor) (q : InputQueue) (vals : List Input) (Tp : Nat → Input) (cur : Int) : Prop where
  col : ∀ f : Nat, (f : Int) < cur →
    (q.firstIncorrectFrame ≠ NULL_FRAME ∧ q.firstIncorrectFrame ≤ (f : Int)) ∨
    (f < vals.length ∧ Tp f = vals.getD f 0) ∨
    (vals.length ≤ f ∧ Tp f = predValue pr vals)
  predicting : (vals.length : Int) < cur → q.lastRequestedFrame ≠ NULL_FRAME → q.prediction.frame ≠ NULL_FRAME
  lastReq : q.lastRequestedFrame = NULL_FRAME ∨ q.lastRequestedFrame = cur - 1

/-- The two invariants that every `add_input_by_frame` must keep, bundled. -/
structure PTL (pr : Predictor) (H : Hist) (Tp : Nat → Input) (cur : Int) (q : InputQueue) (vals : List Input) : Prop where
  pt : PT pr q vals H
  tl : TL pr q vals Tp cur
  /-- outside the re-simulation loop every queue has been asked for the newest simulated frame —
  or, as in lockstep mode where nobody ever asks, it holds every simulated frame's real input -/
  asked : 0 < cur → q.lastRequestedFrame ≠ NULL_FRAME ∨ cur ≤ (vals.length : Int)

theorem predValue_append_self (pr : Predictor) (vals : List Input) (x : Input) (hx : x = predValue pr vals) :
    predValue pr (vals ++ [x]) = predValue pr vals := by
  rw [hx]; exact predValue_idem pr vals

theorem PTL_addByFrame (pr : Predictor) (H : Hist) (Tp : Nat → Input) (cur : Int) (q q' : InputQueue)
    (vals : List Input) (inp : PlayerInput) (n : Frame)
    (h : PTL pr H Tp cur q vals) (hadd : q.addInputByFrame inp n = .ok q') (hn : n = (vals.length : Int)) :
    PTL pr H Tp cur q' (vals ++ [inp.input]) := by
  have hnull : NULL_FRAME = (-1 : Int) := rfl
  have hpt' := PT_addByFrame pr q q' vals H inp n h.pt hn hadd
  obtain ⟨hlr, hpi, _, _, _, _, hnp, hpp⟩ := addByFrame_fields q q' inp n hadd
  refine ⟨hpt', ⟨?_, ?_, by rw [hlr]; exact h.tl.lastReq⟩, ?_⟩
  rotate_left 2
  · intro hc
    rcases h.asked hc with a | a
    · left; rw [hlr]; exact a
    · right; simp only [List.length_append, List.length_cons, List.length_nil]; push_cast; omega
  · -- the column
    intro f hf
    -- what happens to first_incorrect_frame
    have hfi_keep : q.firstIncorrectFrame ≠ NULL_FRAME → q'.firstIncorrectFrame = q.firstIncorrectFrame := by
      intro hne
      by_cases hp : q.prediction.frame = NULL_FRAME
      · exact (hnp hp).2
      · rw [(hpp hp).2.1, if_neg (fun hc => hne hc.1)]
    rcases h.tl.col f hf with ⟨a, b⟩ | ⟨a, b⟩ | ⟨a, b⟩
    · left; rw [hfi_keep a]; exact ⟨a, b⟩
    · right; left
      exact ⟨by simp; omega, by rw [getD_append_lt _ _ _ a]; exact b⟩
    · -- an unverified frame: the queue is predicting, so the arrival is compared
      have hcur : 0 < cur := by omega
      have hreqd : q.lastRequestedFrame ≠ NULL_FRAME := by
        rcases h.asked hcur with a | a
        · exact a
        · omega
      have hpred : q.prediction.frame ≠ NULL_FRAME := h.tl.predicting (by omega) hreqd
      rcases h.pt.pred with ⟨hp0, _⟩ | ⟨start, hs, hpf, hsr, hH, hfm, hreq⟩
      · exact absurd hp0 hpred
      · obtain ⟨_, hfi', _⟩ := hpp hpred
        by_cases hfin : q.firstIncorrectFrame = NULL_FRAME
        · obtain ⟨_, hpv⟩ := hreq hfin
          by_cases hmis : q.prediction.input ≠ inp.input
          · left
            rw [hfi', if_pos ⟨hfin, hmis⟩, hn]
            exact ⟨by rw [hnull]; omega, by omega⟩
          · have hx : inp.input = predValue pr vals := by rw [← hpv]; exact (Classical.not_not.mp hmis).symm
            right
            by_cases hfl : f = vals.length
            · left
              refine ⟨by simp; omega, ?_⟩
              rw [hfl, getD_append_eq, hx, ← hfl]; exact b
            · right
              refine ⟨by simp; omega, ?_⟩
              rw [predValue_append_self pr vals _ hx]; exact b
        · left
          rw [hfi_keep hfin]
          refine ⟨hfin, ?_⟩
          rcases hfm with ⟨h0, _⟩ | ⟨g, hg, _, hgl, _⟩
          · exact absurd h0 hfin
          · rw [hg]; omega
  · -- still predicting while something is unverified
    intro hlen hreq'
    simp only [List.length_append, List.length_cons, List.length_nil] at hlen
    rw [hlr] at hreq'
    have hpred : q.prediction.frame ≠ NULL_FRAME := h.tl.predicting (by push_cast at hlen; omega) hreq'
    rcases h.pt.pred with ⟨hp0, _⟩ | ⟨start, hs, hpf, _⟩
    · exact absurd hp0 hpred
    · obtain ⟨_, _, hpf'⟩ := hpp hpred
      rw [hpf']
      by_cases hex : q.prediction.frame = q.lastRequestedFrame ∧
          (if q.firstIncorrectFrame = NULL_FRAME ∧ q.prediction.input ≠ inp.input then n
            else q.firstIncorrectFrame) = NULL_FRAME
      · exfalso
        rcases h.tl.lastReq with h0 | h0
        · exact hreq' h0
        · have := hex.1
          rw [hpf, h0] at this
          push_cast at hlen
          omega
      · rw [if_neg hex, hpf, hnull]; omega

theorem PTL_fillLoop (pr : Predictor) (H : Hist) (Tp : Nat → Input) (cur : Int) (toRep : PlayerInput) :
    ∀ (n : Nat) (q q' : InputQueue) (vals : List Input) (expected : Frame),
    PTL pr H Tp cur q vals → expected = (vals.length : Int) →
    fillLoop toRep n q expected = .ok q' → PTL pr H Tp cur q' (vals ++ List.replicate n toRep.input) := by
  intro n
  induction n with
  | zero => intro q q' vals e h _ hf; simp only [fillLoop] at hf; cases hf; simpa using h
  | succ k ih =>
    intro q q' vals e h he hf
    simp only [fillLoop] at hf
    obtain ⟨q1, h1, hf⟩ := bind_ok hf
    have hp1 := PTL_addByFrame pr H Tp cur q q1 vals toRep e h h1 he
    have := ih q1 q' (vals ++ [toRep.input]) (e + 1) hp1 (by simp [he]) hf
    rw [List.replicate_succ]
    simpa using this

theorem PTL_delayFillLoop (pr : Predictor) (H : Hist) (Tp : Nat → Input) (cur : Int) (li : PlayerInput) :
    ∀ (n : Nat) (q q' : InputQueue) (vals : List Input) (fills fills' : List PlayerInput),
    PTL pr H Tp cur q vals → q.lastAddedFrame = (vals.length : Int) - 1 →
    delayFillLoop li n q fills = .ok (q', fills') → PTL pr H Tp cur q' (vals ++ List.replicate n li.input) := by
  intro n
  induction n with
  | zero => intro q q' vals f f' h _ hf; simp only [delayFillLoop] at hf; cases hf; simpa using h
  | succ k ih =>
    intro q q' vals f f' h hla hf
    simp only [delayFillLoop] at hf
    obtain ⟨q1, h1, hf⟩ := bind_ok hf
    have hp1 := PTL_addByFrame pr H Tp cur q q1 vals li _ h h1 (by rw [hla]; omega)
    have hla1 : q1.lastAddedFrame = ((vals ++ [li.input]).length : Int) - 1 := by
      rw [(addByFrame_fields q q1 li _ h1).2.2.2.2.2.1, hla]; simp
    have := ih q1 q' (vals ++ [li.input]) _ f' hp1 hla1 hf
    rw [List.replicate_succ]
    simpa using this

end Ggrs

namespace Ggrs
open InputQueue

theorem PTL_frame (pr : Predictor) (H : Hist) (Tp : Nat → Input) (cur : Int) (q q2 : InputQueue) (vals : List Input)
    (h : PTL pr H Tp cur q vals)
    (e1 : q2.tail = q.tail) (e2 : q2.length = q.length) (e3 : q2.prediction = q.prediction)
    (e4 : q2.firstIncorrectFrame = q.firstIncorrectFrame) (e5 : q2.lastRequestedFrame = q.lastRequestedFrame) :
    PTL pr H Tp cur q2 vals := by
  refine ⟨⟨?_, ?_⟩, ⟨?_, ?_, ?_⟩, ?_⟩
  · have := h.pt.tail; unfold TailOk at this ⊢; rw [e1, e2]; exact this
  · have := h.pt.pred; unfold PredOk at this ⊢; rw [e3, e4, e5]; exact this
  · have := h.tl.col; rw [e4]; exact this
  · have := h.tl.predicting; rw [e3, e5]; exact this
  · have := h.tl.lastReq; rw [e5]; exact this
  · have := h.asked; rw [e5]; exact this

/-- `add_input` keeps the bundled invariant for the stream the specification prescribes. -/
theorem PTL_add (pr : Predictor) (H : Hist) (Tp : Nat → Input) (cur : Int) (q q' : InputQueue) (s : QSpec)
    (uf : Int) (v : Input) (fr : Frame)
    (hr : Refines q.strip s) (h : PTL pr H Tp cur q s.vals) (hadd : q.addInput ⟨uf, v⟩ = .ok (q', fr)) :
    PTL pr H Tp cur q' (s.submit uf v).1.vals := by
  unfold InputQueue.addInput at hadd
  unfold QSpec.submit
  simp only at hadd
  have hlu : q.lastUserFrame = s.lastUser := hr.lastUser
  by_cases hdrop : (q.lastUserFrame != NULL_FRAME && uf != q.lastUserFrame + 1) = true
  · simp only [hdrop, if_true] at hadd
    have := pure_ok hadd
    simp only [Prod.mk.injEq] at this
    have hd' : (s.lastUser != -1 && uf != s.lastUser + 1) = true := by rw [← hlu]; exact hdrop
    simp only [hd', if_true]
    rw [← this.1]; exact h
  · have hd' : (s.lastUser != -1 && uf != s.lastUser + 1) = false := by
      rw [← hlu]; exact Bool.eq_false_iff.mpr hdrop
    simp only [hdrop, Bool.false_eq_true, if_false, hd'] at hadd ⊢
    obtain ⟨p, hadv, hadd⟩ := bind_ok hadd
    obtain ⟨q2, newFrame⟩ := p
    simp only at hadd
    have h1 : Refines ({ q with lastUserFrame := uf } : InputQueue).strip { s with lastUser := uf } :=
      ⟨hr.len, hr.head, hr.first, hr.lastAdded, rfl, hr.delay, hr.noPrediction, hr.slots, hr.empty⟩
    have hpt1 : PTL pr H Tp cur ({ q with lastUserFrame := uf } : InputQueue) s.vals :=
      PTL_frame pr H Tp cur q _ s.vals h rfl rfl rfl rfl rfl
    unfold InputQueue.advanceQueueHead at hadv
    simp only at hadv
    have hps := prev_slot _ _ h1
    have hexp : (if ({ q with lastUserFrame := uf } : InputQueue).firstFrame then (0 : Frame)
        else (rget q.inputs (InputQueue.prevPos q.head)).frame + 1) = (s.vals.length : Int) := by
      by_cases hn : s.vals.length = 0
      · have : q.firstFrame = true := by have := hr.first; simp only [strip] at this; rw [this]; simp [hn]
        simp [this, hn]
      · have : q.firstFrame = false := by have := hr.first; simp only [strip] at this; rw [this]; simpa using hn
        simp only [this, Bool.false_eq_true, if_false]
        have := hps.2 (Nat.pos_of_ne_zero hn)
        simp only [strip] at this
        rw [this]; exact Int.sub_add_cancel _ _
    rw [hexp] at hadv
    have hdl : q.frameDelay = s.delay := hr.delay
    by_cases hpast : (s.vals.length : Int) > uf + (q.frameDelay : Int)
    · simp only [hpast, if_true] at hadv
      have := pure_ok hadv
      simp only [Prod.mk.injEq] at this
      obtain ⟨hq2, hnf⟩ := this
      subst hq2; subst hnf
      simp only [bne_self_eq_false, Bool.false_eq_true, if_false] at hadd
      have := pure_ok hadd
      simp only [Prod.mk.injEq] at this
      have hp' : (s.vals.length : Int) > uf + (s.delay : Int) := by rw [← hdl]; exact hpast
      simp only [hp', if_true]
      rw [← this.1]; exact hpt1
    · simp only [hpast, if_false] at hadv
      obtain ⟨q3, hfill, hadv⟩ := bind_ok hadv
      obtain ⟨_, hadv⟩ := ensure_bind_ok hadv
      have := pure_ok hadv
      simp only [Prod.mk.injEq] at this
      obtain ⟨hq2, hnf⟩ := this
      subst hq2; subst hnf
      have hfill' := fillLoop_strip _ _ _ _ _ hfill
      have hr3 := refines_fillLoop _ _ _ _ _ _ h1 rfl hfill'
      have hpt3 := PTL_fillLoop pr H Tp cur _ _ _ _ _ _ hpt1 rfl hfill
      have hp' : ¬ (s.vals.length : Int) > uf + (s.delay : Int) := by rw [← hdl]; exact hpast
      have hnn : (uf + (q.frameDelay : Int) != NULL_FRAME) = true := by
        have : uf + (q.frameDelay : Int) ≥ 0 := by omega
        simp [NULL_FRAME]; omega
      simp only [hnn, if_true] at hadd
      obtain ⟨q4, hadd4, hadd⟩ := bind_ok hadd
      have := pure_ok hadd
      simp only [Prod.mk.injEq] at this
      obtain ⟨hq', hfr⟩ := this
      subst hq'; subst hfr
      have hadd4' := addByFrame_strip _ _ _ _ hadd4
      obtain ⟨hf4, _⟩ := refines_addByFrame _ _ _ ⟨uf, v⟩ _ hr3 hadd4'
      have hpt4 := PTL_addByFrame pr H Tp cur _ _ _ ⟨uf, v⟩ _ hpt3 hadd4 hf4
      simp only [hp', if_false]
      have e1 := hps.1
      simp only [strip] at e1
      rw [e1, hdl] at hpt4
      simpa [List.append_assoc] using hpt4

/-- `set_frame_delay` keeps the bundled invariant. -/
theorem PTL_setDelay (pr : Predictor) (H : Hist) (Tp : Nat → Input) (cur : Int) (q q' : InputQueue) (s : QSpec)
    (d : Nat) (fills : List PlayerInput)
    (hr : Refines q.strip s) (h : PTL pr H Tp cur q s.vals) (hset : q.setFrameDelay d = .ok (q', fills)) :
    PTL pr H Tp cur q' (s.setDelay d).1.vals := by
  unfold InputQueue.setFrameDelay at hset
  unfold QSpec.setDelay
  simp only at hset
  have h1 : Refines ({ q with frameDelay := d } : InputQueue).strip { s with delay := d } :=
    ⟨hr.len, hr.head, hr.first, hr.lastAdded, hr.lastUser, rfl, hr.noPrediction, hr.slots, hr.empty⟩
  have hpt1 : PTL pr H Tp cur ({ q with frameDelay := d } : InputQueue) s.vals :=
    PTL_frame pr H Tp cur q _ s.vals h rfl rfl rfl rfl rfl
  have hla0 : q.lastAddedFrame = (s.vals.length : Int) - 1 := hr.lastAdded
  by_cases hn : s.vals.length = 0
  · have hla : (q.lastAddedFrame == NULL_FRAME) = true := by rw [hla0, hn]; rfl
    simp only [hla, if_true] at hset
    have := pure_ok hset
    simp only [Prod.mk.injEq] at this
    simp only [hn, beq_self_eq_true, if_true]
    rw [← this.1]; exact hpt1
  · have hla : (q.lastAddedFrame == NULL_FRAME) = false := by
      rw [hla0]
      have := int_pred_ne_neg_one _ hn
      simpa [NULL_FRAME] using this
    have hn' : (s.vals.length == 0) = false := by simpa using hn
    simp only [hla, Bool.false_eq_true, if_false] at hset
    simp only [hn', Bool.false_eq_true, if_false]
    have hpt2 := PTL_delayFillLoop pr H Tp cur _ _ _ _ _ _ _ hpt1 hla0 hset
    have hps := prev_slot _ _ h1
    simp only [strip] at hps
    have hk : (q.lastUserFrame + 1 + (d : Int) - (q.lastAddedFrame + 1)).toNat
        = (s.lastUser + 1 + (d : Int) - (s.vals.length : Int)).toNat := by
      have := hr.lastUser
      simp only [strip] at this
      rw [this, hla0]; congr 1; omega
    rw [hk, hps.1] at hpt2
    exact hpt2

end Ggrs

namespace Ggrs
open InputQueue

/-- Everything known about one player's queue: the ring implements the stream `s`, the prediction
bookkeeping matches the history `H`, and the timeline column `Tp` up to (excluding) frame `cur`. -/
structure QI (pr : Predictor) (q : InputQueue) (s : QSpec) (H : Hist) (Tp : Nat → Input) (cur : Int) : Prop where
  ring : Refines q.strip s
  pt : PT pr q s.vals H
  tl : TL pr q s.vals Tp cur

def Asked (q : InputQueue) (cur : Int) : Prop :=
  0 < cur → q.lastRequestedFrame ≠ NULL_FRAME ∨ cur ≤ q.lastAddedFrame + 1

theorem Asked.toPTL {q : InputQueue} {s : QSpec} {cur : Int} (ha : Asked q cur) (hr : Refines q.strip s) :
    0 < cur → q.lastRequestedFrame ≠ NULL_FRAME ∨ cur ≤ (s.vals.length : Int) := by
  intro hc
  rcases ha hc with a | a
  · exact Or.inl a
  · right
    have : q.lastAddedFrame = (s.vals.length : Int) - 1 := hr.lastAdded
    omega

theorem Asked.ofPTL {q : InputQueue} {s : QSpec} {cur : Int} (hr : Refines q.strip s)
    (ha : 0 < cur → q.lastRequestedFrame ≠ NULL_FRAME ∨ cur ≤ (s.vals.length : Int)) : Asked q cur := by
  intro hc
  rcases ha hc with a | a
  · exact Or.inl a
  · right
    have : q.lastAddedFrame = (s.vals.length : Int) - 1 := hr.lastAdded
    omega

theorem QI.pinv {pr q s H Tp cur} (h : QI pr q s H Tp cur) : PInv pr q s H := ⟨h.ring, h.pt⟩

theorem QI_new (pr : Predictor) (Tp : Nat → Input) : QI pr InputQueue.new {} [] Tp 0 :=
  ⟨(PInv_new pr).ring, (PInv_new pr).pt, ⟨fun f hf => by omega, fun _ h => absurd rfl h, Or.inl rfl⟩⟩

theorem QI_add (pr : Predictor) (q q' : InputQueue) (s : QSpec) (H : Hist) (Tp : Nat → Input) (cur : Int)
    (uf : Int) (v : Input) (fr : Frame) (h : QI pr q s H Tp cur) (ha : Asked q cur)
    (hadd : q.addInput ⟨uf, v⟩ = .ok (q', fr)) :
    QI pr q' (s.submit uf v).1 H Tp cur ∧ Asked q' cur ∧ fr = (s.submit uf v).2 := by
  obtain ⟨hp, hfr⟩ := PInv_add pr q q' s H uf v fr h.pinv hadd
  have := PTL_add pr H Tp cur q q' s uf v fr h.ring ⟨h.pt, h.tl, ha.toPTL h.ring⟩ hadd
  exact ⟨⟨hp.ring, this.pt, this.tl⟩, Asked.ofPTL hp.ring this.asked, hfr⟩

theorem QI_setDelay (pr : Predictor) (q q' : InputQueue) (s : QSpec) (H : Hist) (Tp : Nat → Input) (cur : Int)
    (d : Nat) (fills : List PlayerInput) (h : QI pr q s H Tp cur) (ha : Asked q cur)
    (hset : q.setFrameDelay d = .ok (q', fills)) :
    QI pr q' (s.setDelay d).1 H Tp cur ∧ Asked q' cur ∧ fills = (s.setDelay d).2 := by
  obtain ⟨hp, hfl⟩ := PInv_setDelay pr q q' s H d fills h.pinv hset
  have := PTL_setDelay pr H Tp cur q q' s d fills h.ring ⟨h.pt, h.tl, ha.toPTL h.ring⟩ hset
  exact ⟨⟨hp.ring, this.pt, this.tl⟩, Asked.ofPTL hp.ring this.asked, hfl⟩

theorem discard_fields (q q' : InputQueue) (f : Frame) (hd : q.discardConfirmedFrames f = .ok q') :
    q'.prediction = q.prediction ∧ q'.firstIncorrectFrame = q.firstIncorrectFrame ∧
    q'.lastRequestedFrame = q.lastRequestedFrame := by
  unfold InputQueue.discardConfirmedFrames at hd
  simp only at hd
  generalize (if (q.lastRequestedFrame != NULL_FRAME) = true then min f q.lastRequestedFrame else f) = f' at hd
  by_cases h1 : f' ≥ q.lastAddedFrame
  · simp only [h1, if_true] at hd
    cases hd; exact ⟨rfl, rfl, rfl⟩
  · simp only [h1, if_false] at hd
    by_cases h2 : f' ≤ (rget q.inputs q.tail).frame
    · simp only [h2, if_true] at hd
      cases hd; exact ⟨rfl, rfl, rfl⟩
    · simp only [h2, if_false] at hd
      by_cases h3 : (f' - (rget q.inputs q.tail).frame).toNat > q.length
      · simp only [h3, if_true] at hd; cases hd
      · simp only [h3, if_false] at hd
        cases hd; exact ⟨rfl, rfl, rfl⟩

theorem QI_discard (pr : Predictor) (q q' : InputQueue) (s : QSpec) (H : Hist) (Tp : Nat → Input) (cur : Int)
    (f : Frame) (h : QI pr q s H Tp cur) (ha : Asked q cur) (hlt : f < q.lastAddedFrame)
    (hd : q.discardConfirmedFrames f = .ok q') : QI pr q' s H Tp cur ∧ Asked q' cur := by
  have hp := PInv_discard pr q q' s H f h.pinv hlt hd
  obtain ⟨e1, e2, e3⟩ := discard_fields q q' f hd
  refine ⟨⟨hp.ring, hp.pt, ⟨?_, ?_, ?_⟩⟩, ?_⟩
  · have := h.tl.col; rw [e2]; exact this
  · have := h.tl.predicting; rw [e1, e3]; exact this
  · have := h.tl.lastReq; rw [e3]; exact this
  · apply Asked.ofPTL hp.ring
    have := ha.toPTL h.ring
    rw [e3]; exact this

/-- A rollback to frame `r`, at or before the queue's first incorrect frame: the prediction state
is reset, the history forgotten, and the column is right for every frame below `r`. -/
theorem QI_reset (pr : Predictor) (q : InputQueue) (s : QSpec) (H : Hist) (Tp : Nat → Input) (cur r : Int)
    (h : QI pr q s H Tp cur) (hr : r ≤ cur) (hfi : q.firstIncorrectFrame ≠ NULL_FRAME → r ≤ q.firstIncorrectFrame) :
    QI pr q.resetPrediction s [] Tp r := by
  have hp := PInv_reset pr q s H h.pinv
  refine ⟨hp.ring, hp.pt, ⟨?_, fun _ hne => absurd rfl hne, Or.inl rfl⟩⟩
  intro f hf
  rcases h.tl.col f (by omega) with ⟨a, b⟩ | x | x
  · have := hfi a; omega
  · exact Or.inr (Or.inl x)
  · exact Or.inr (Or.inr x)

/-- One simulated frame for one player: the queue is asked for frame `cur`, the answer becomes the
column entry for `cur`, and the frame counter moves on. -/
theorem QI_request (pr : Predictor) (q q' : InputQueue) (s : QSpec) (H : Hist) (Tp : Nat → Input) (cur : Nat)
    (v : Input) (st : InputStatus) (h : QI pr q s H Tp cur)
    (hin : q.input pr (cur : Int) = .ok (q', v, st)) :
    ∃ H', QI pr q' s H' (upd Tp cur v) ((cur : Int) + 1) ∧ Asked q' ((cur : Int) + 1) ∧
      q'.firstIncorrectFrame = NULL_FRAME ∧
      ((st = .confirmed ∧ cur < s.vals.length ∧ v = s.vals.getD cur 0) ∨
       (st = .predicted ∧ s.vals.length ≤ cur ∧ v = predValue pr s.vals)) := by
  have hnull : NULL_FRAME = (-1 : Int) := rfl
  have hmono : q.lastRequestedFrame = NULL_FRAME ∨ q.lastRequestedFrame ≤ (cur : Int) := by
    rcases h.tl.lastReq with h0 | h0
    · exact Or.inl h0
    · right; omega
  obtain ⟨hlr, hres⟩ := PInv_input pr q q' s H (cur : Int) v st h.pinv (by omega) hmono hin
  -- first_incorrect_frame is clear (asserted by `input`) and `input` does not touch it
  have hfi : q.firstIncorrectFrame = NULL_FRAME ∧ q'.firstIncorrectFrame = q.firstIncorrectFrame := by
    unfold InputQueue.input at hin
    simp only at hin
    obtain ⟨hfi, hin⟩ := ensure_bind_ok hin
    obtain ⟨_, hin⟩ := ensure_bind_ok hin
    refine ⟨by simpa using hfi, ?_⟩
    split at hin
    · split at hin
      · obtain ⟨_, hin⟩ := ensure_bind_ok hin
        have := pure_ok hin
        simp only [Prod.mk.injEq] at this
        rw [← this.1]
      · obtain ⟨_, hin⟩ := ensure_bind_ok hin
        have := pure_ok hin
        simp only [Prod.mk.injEq] at this
        rw [← this.1]
    · obtain ⟨_, hin⟩ := ensure_bind_ok hin
      have := pure_ok hin
      simp only [Prod.mk.injEq] at this
      rw [← this.1]
  have hfi' : q'.firstIncorrectFrame = NULL_FRAME := by rw [hfi.2, hfi.1]
  have hcolOld : ∀ f : Nat, (f : Int) < (cur : Int) →
      (q'.firstIncorrectFrame ≠ NULL_FRAME ∧ q'.firstIncorrectFrame ≤ (f : Int)) ∨
      (f < s.vals.length ∧ upd Tp cur v f = s.vals.getD f 0) ∨
      (s.vals.length ≤ f ∧ upd Tp cur v f = predValue pr s.vals) := by
    intro f hf
    have hne : f ≠ cur := by omega
    rw [upd_ne _ _ _ _ hne]
    rcases h.tl.col f hf with ⟨a, _⟩ | x | x
    · exact absurd hfi.1 a
    · exact Or.inr (Or.inl x)
    · exact Or.inr (Or.inr x)
  have hasked : Asked q' ((cur : Int) + 1) := fun _ => Or.inl (by rw [hlr, hnull]; omega)
  rcases hres with ⟨hst, _, hlt, hv, hp'⟩ | ⟨hst, hge, hv, hp'⟩
  · refine ⟨H, ⟨hp'.ring, hp'.pt, ⟨?_, ?_, Or.inr (by rw [hlr]; omega)⟩⟩, hasked, hfi', Or.inl ⟨hst, by omega, by rw [hv]; simp⟩⟩
    · intro f hf
      by_cases hfc : f = cur
      · subst hfc
        right; left
        exact ⟨by omega, by rw [upd_self, hv]; simp⟩
      · exact hcolOld f (by omega)
    · intro hlen; omega
  · refine ⟨H ++ [((cur : Int), v)], ⟨hp'.ring, hp'.pt, ⟨?_, ?_, Or.inr (by rw [hlr]; omega)⟩⟩, hasked, hfi',
      Or.inr ⟨hst, by omega, hv⟩⟩
    · intro f hf
      by_cases hfc : f = cur
      · subst hfc
        right; right
        exact ⟨by omega, by rw [upd_self, hv]⟩
      · exact hcolOld f (by omega)
    · intro _ _
      -- the history now holds a prediction for a frame beyond the stream: the queue is predicting
      rcases hp'.pt.pred with ⟨_, _, hH⟩ | ⟨start, _, hpf, _⟩
      · have := hH ((cur : Int), v) (by simp)
        simp only at this
        omega
      · rw [hpf, hnull]; omega

end Ggrs

namespace Ggrs
open InputQueue

/-- With no player marked disconnected, `synchronized_inputs` is one `input` call per queue, in
handle order; nothing else is touched. -/
theorem syncLoop_rel (pr : Predictor) (cur : Frame) : ∀ (statuses : List ConnStatus) (i : Nat)
    (qs : List InputQueue) (acc : List (Input × InputStatus)) (qs' : List InputQueue)
    (out : List (Input × InputStatus)),
    (∀ cs ∈ statuses, cs.disconnected = false) →
    SyncLayer.synchronizedInputsLoop pr cur statuses i qs acc = .ok (qs', out) →
    qs'.length = qs.length ∧ ∃ vs : List (Input × InputStatus), out = acc.reverse ++ vs ∧
      vs.length = statuses.length ∧
      (∀ p, (p < i ∨ i + statuses.length ≤ p) → rget qs' p = rget qs p) ∧
      (∀ k, k < statuses.length → i + k < qs.length ∧
        (rget qs (i + k)).input pr cur = .ok (rget qs' (i + k), (vs.getD k default).1, (vs.getD k default).2)) := by
  intro statuses
  induction statuses with
  | nil =>
    intro i qs acc qs' out _ h
    simp only [SyncLayer.synchronizedInputsLoop] at h
    cases h
    exact ⟨rfl, [], by simp, rfl, fun _ _ => rfl, fun k hk => by simp at hk⟩
  | cons cs rest ih =>
    intro i qs acc qs' out hconn h
    have hc : cs.disconnected = false := hconn cs List.mem_cons_self
    simp only [SyncLayer.synchronizedInputsLoop, hc, Bool.false_and, Bool.false_eq_true, if_false] at h
    obtain ⟨hi, h⟩ := ensure_bind_ok h
    have hi' : i < qs.length := by simpa using hi
    obtain ⟨r, hin, h⟩ := bind_ok h
    obtain ⟨q, v, st⟩ := r
    simp only at h
    obtain ⟨hlen, vs, hout, hvl, hsame, hstep⟩ := ih (i + 1) (rset qs i q) ((v, st) :: acc) qs' out
      (fun c hc => hconn c (List.mem_cons_of_mem _ hc)) h
    rw [rset_length] at hlen
    refine ⟨hlen, (v, st) :: vs, by rw [hout]; simp, by simp [hvl], ?_, ?_⟩
    · intro p hp
      simp only [List.length_cons] at hp
      have : p ≠ i := by omega
      rw [hsame p (by omega), rget_rset_ne _ _ _ _ (fun h => this h.symm)]
    · intro k hk
      simp only [List.length_cons] at hk
      cases k with
      | zero =>
        refine ⟨by omega, ?_⟩
        simp only [Nat.add_zero, List.getD_cons_zero]
        rw [hsame i (Or.inl (by omega)), rget_rset_eq _ _ _ hi']
        exact hin
      | succ k =>
        obtain ⟨hb, hs⟩ := hstep k (by omega)
        rw [rset_length] at hb
        refine ⟨by omega, ?_⟩
        simp only [List.getD_cons_succ]
        have e : i + 1 + k = i + (k + 1) := by omega
        rw [e] at hs
        rw [rget_rset_ne _ _ _ _ (by omega)] at hs
        exact hs

/-- Per-player ghost state of a session: stream specification, prediction history and timeline
column of every player. -/
structure Ghost where
  specs : Nat → QSpec
  hists : Nat → Hist
  T : Nat → Nat → Input

def AllQI (pr : Predictor) (qs : List InputQueue) (gh : Ghost) (cur : Int) : Prop :=
  ∀ p, p < qs.length → QI pr (rget qs p) (gh.specs p) (gh.hists p) (gh.T p) cur

def AllAsked (qs : List InputQueue) (cur : Int) : Prop := ∀ p, p < qs.length → Asked (rget qs p) cur

/-- What one simulated frame's inputs are, against the streams: per player either the real input
of this frame (Confirmed) or — only if it has not arrived — the fresh prediction (Predicted). -/
def InputsOk (pr : Predictor) (gh : Ghost) (cur : Nat) (vs : List (Input × InputStatus)) : Prop :=
  ∀ p, p < vs.length →
    (((vs.getD p default).2 = .confirmed ∧ cur < (gh.specs p).vals.length ∧
        (vs.getD p default).1 = (gh.specs p).vals.getD cur 0) ∨
     ((vs.getD p default).2 = .predicted ∧ (gh.specs p).vals.length ≤ cur ∧
        (vs.getD p default).1 = predValue pr (gh.specs p).vals))

/-- One simulated frame for all players (`synchronized_inputs` followed by `advance_frame`). -/
theorem AllQI_request (pr : Predictor) (qs qs' : List InputQueue) (gh : Ghost) (cur : Nat)
    (statuses : List ConnStatus) (out : List (Input × InputStatus))
    (hconn : ∀ cs ∈ statuses, cs.disconnected = false) (hlen : statuses.length = qs.length)
    (h : AllQI pr qs gh cur)
    (hloop : SyncLayer.synchronizedInputsLoop pr (cur : Int) statuses 0 qs [] = .ok (qs', out)) :
    qs'.length = qs.length ∧ out.length = qs.length ∧ InputsOk pr gh cur out ∧
    ∃ gh' : Ghost, gh'.specs = gh.specs ∧
      (∀ p, p < qs.length → gh'.T p = upd (gh.T p) cur (out.getD p default).1) ∧
      AllQI pr qs' gh' ((cur : Int) + 1) ∧ AllAsked qs' ((cur : Int) + 1) ∧
      (∀ p, p < qs'.length → (rget qs' p).firstIncorrectFrame = NULL_FRAME) := by
  obtain ⟨hl, vs, hout, hvl, _, hstep⟩ := syncLoop_rel pr (cur : Int) statuses 0 qs [] qs' out hconn hloop
  simp only [List.reverse_nil, List.nil_append] at hout
  subst hout
  have hreq : ∀ p, p < qs.length → ∃ H', QI pr (rget qs' p) (gh.specs p) H'
      (upd (gh.T p) cur (out.getD p default).1) ((cur : Int) + 1) ∧ Asked (rget qs' p) ((cur : Int) + 1) ∧
      (rget qs' p).firstIncorrectFrame = NULL_FRAME ∧
      (((out.getD p default).2 = .confirmed ∧ cur < (gh.specs p).vals.length ∧
          (out.getD p default).1 = (gh.specs p).vals.getD cur 0) ∨
       ((out.getD p default).2 = .predicted ∧ (gh.specs p).vals.length ≤ cur ∧
          (out.getD p default).1 = predValue pr (gh.specs p).vals)) := by
    intro p hp
    obtain ⟨_, hs⟩ := hstep p (by omega)
    simp only [Nat.zero_add] at hs
    exact QI_request pr _ _ _ _ _ cur _ _ (h p hp) hs
  refine ⟨hl, by rw [hvl, hlen], fun p hp => (hreq p (by rw [hvl, hlen] at hp; exact hp)).choose_spec.2.2.2, ?_⟩
  refine ⟨⟨gh.specs, fun p => if hp : p < qs.length then (hreq p hp).choose else gh.hists p,
    fun p => if p < qs.length then upd (gh.T p) cur (out.getD p default).1 else gh.T p⟩, rfl, ?_, ?_, ?_, ?_⟩
  · intro p hp; simp only [hp, if_true]
  · intro p hp
    rw [hl] at hp
    simp only [hp, dite_true, if_true]
    exact (hreq p hp).choose_spec.1
  · intro p hp
    rw [hl] at hp
    exact (hreq p hp).choose_spec.2.1
  · intro p hp
    rw [hl] at hp
    exact (hreq p hp).choose_spec.2.2.1

end Ggrs

namespace Ggrs
open InputQueue

/-- What the theorem tracks of a P2P session: every queue against its ghost, all players
connected, the frame counter a natural number. -/
structure SyncInv (pr : Predictor) (sy : SyncLayer) (statuses : List ConnStatus) (gh : Ghost) : Prop where
  cur : 0 ≤ sy.currentFrame
  nq : statuses.length = sy.queues.length
  conn : ∀ cs ∈ statuses, cs.disconnected = false
  all : AllQI pr sy.queues gh sy.currentFrame

/-- Timeline agreement: every frame below `cur` whose input has arrived carries that input. -/
def TimelineRight (sy : SyncLayer) (gh : Ghost) : Prop :=
  ∀ p, p < sy.queues.length → ∀ f : Nat, (f : Int) < sy.currentFrame → f < (gh.specs p).vals.length →
    gh.T p f = (gh.specs p).vals.getD f 0

theorem timelineRight_of_clean (pr : Predictor) (sy : SyncLayer) (statuses : List ConnStatus) (gh : Ghost)
    (h : SyncInv pr sy statuses gh)
    (hclean : ∀ p, p < sy.queues.length → (rget sy.queues p).firstIncorrectFrame = NULL_FRAME) :
    TimelineRight sy gh := by
  intro p hp f hf hlen
  rcases (h.all p hp).tl.col f hf with ⟨a, _⟩ | ⟨_, b⟩ | ⟨a, _⟩
  · exact absurd (hclean p hp) a
  · exact b
  · omega

/-- `synchronized_inputs` + `advance_frame`: one simulated frame. -/
theorem SyncInv_simulate (pr : Predictor) (sy sy' : SyncLayer) (statuses : List ConnStatus) (gh : Ghost)
    (inputs : List (Input × InputStatus))
    (h : SyncInv pr sy statuses gh) (hs : sy.synchronizedInputs pr statuses = .ok (sy', inputs)) :
    ∃ (c : Nat) (gh' : Ghost), sy.currentFrame = (c : Int) ∧
      sy'.advanceFrame.currentFrame = sy.currentFrame + 1 ∧
      sy'.queues.length = sy.queues.length ∧ inputs.length = sy.queues.length ∧
      sy'.cells = sy.cells ∧ sy'.lastSavedFrame = sy.lastSavedFrame ∧ sy'.maxPrediction = sy.maxPrediction ∧
      sy'.lastConfirmedFrame = sy.lastConfirmedFrame ∧ sy'.currentFrame = sy.currentFrame ∧
      InputsOk pr gh c inputs ∧ gh'.specs = gh.specs ∧
      (∀ p, p < sy.queues.length → gh'.T p = upd (gh.T p) c (inputs.getD p default).1) ∧
      SyncInv pr sy'.advanceFrame statuses gh' ∧ AllAsked sy'.advanceFrame.queues sy'.advanceFrame.currentFrame ∧
      (∀ p, p < sy'.queues.length → (rget sy'.advanceFrame.queues p).firstIncorrectFrame = NULL_FRAME) := by
  obtain ⟨c, hc⟩ : ∃ c : Nat, sy.currentFrame = (c : Int) := ⟨sy.currentFrame.toNat, by have := h.cur; omega⟩
  unfold SyncLayer.synchronizedInputs at hs
  obtain ⟨r, hloop, hs⟩ := bind_ok hs
  obtain ⟨qs, ins⟩ := r
  have := pure_ok hs
  simp only [Prod.mk.injEq] at this
  obtain ⟨hsy', hins⟩ := this
  rw [hins] at hloop
  rw [hc] at hloop
  have hall : AllQI pr sy.queues gh (c : Int) := by rw [← hc]; exact h.all
  obtain ⟨hl, hol, hok, gh', hsp, hT, hall', hask', hclean⟩ :=
    AllQI_request pr sy.queues qs gh c statuses inputs h.conn h.nq hall hloop
  subst hsy'
  refine ⟨c, gh', hc, rfl, hl, hol, rfl, rfl, rfl, rfl, rfl, hok, hsp, hT, ?_, ?_, ?_⟩
  · refine ⟨by show 0 ≤ sy.currentFrame + 1; omega, by show statuses.length = qs.length; rw [hl]; exact h.nq, h.conn, ?_⟩
    show AllQI pr qs gh' (sy.currentFrame + 1)
    rw [hc]; exact hall'
  · show AllAsked qs (sy.currentFrame + 1)
    rw [hc]; exact hask'
  · exact hclean

end Ggrs

namespace Ggrs
open InputQueue

/-! ### The timeline as the game sees it: executing request lists -/

/-- The game's frame counter and, per frame, the inputs of its LAST simulation of that frame. -/
structure TLState where
  cur : Int
  R : Nat → List (Input × InputStatus)

def execReq (t : TLState) : Request → TLState
  | .save _ => t
  | .load f => { t with cur := f }
  | .advance ins => { cur := t.cur + 1, R := upd t.R t.cur.toNat ins }

def execReqs (t : TLState) (rs : List Request) : TLState := rs.foldl execReq t

theorem execReqs_append (t : TLState) (a b : List Request) : execReqs t (a ++ b) = execReqs (execReqs t a) b := by
  simp [execReqs, List.foldl_append]

/-- The session invariant together with the game-side view: executing the requests issued so far
from the game state `t0` puts the game at the session's frame, and the ghost columns are the
first components of the game's rows. -/
structure TInv (pr : Predictor) (sy : SyncLayer) (statuses : List ConnStatus) (gh : Ghost) (t0 : TLState)
    (reqs : List Request) : Prop where
  sync : SyncInv pr sy statuses gh
  exec : (execReqs t0 reqs).cur = sy.currentFrame
  rows : ∀ p, p < sy.queues.length → ∀ f, gh.T p f = (((execReqs t0 reqs).R f).getD p default).1

theorem SyncInv_congr {pr sy sy2 statuses gh} (h : SyncInv pr sy statuses gh) (hq : sy2.queues = sy.queues)
    (hc : sy2.currentFrame = sy.currentFrame) : SyncInv pr sy2 statuses gh :=
  ⟨by rw [hc]; exact h.cur, by rw [hq]; exact h.nq, h.conn, by rw [hq, hc]; exact h.all⟩

theorem save_fields (sy sy' : SyncLayer) (r : Request) (h : sy.saveCurrentState = .ok (sy', r)) :
    sy'.queues = sy.queues ∧ sy'.currentFrame = sy.currentFrame ∧ r = .save sy.currentFrame ∧
    sy'.lastSavedFrame = sy.currentFrame ∧ sy'.maxPrediction = sy.maxPrediction ∧ sy'.cells = sy.cells ∧
    sy'.lastConfirmedFrame = sy.lastConfirmedFrame := by
  unfold SyncLayer.saveCurrentState at h
  simp only at h
  obtain ⟨_, _, h⟩ := bind_ok h
  have := pure_ok h
  simp only [Prod.mk.injEq] at this
  obtain ⟨h1, h2⟩ := this
  subst h1; subst h2
  exact ⟨rfl, rfl, rfl, rfl, rfl, rfl, rfl⟩

/-- One simulated frame, seen from both sides: the session's queues and the game's rows. `mid` is
whatever the caller appends between computing the inputs and the AdvanceFrame request (nothing or
a SaveGameState). -/
theorem TInv_simulate (pr : Predictor) (sy sy' sy2 : SyncLayer) (statuses : List ConnStatus) (gh : Ghost)
    (t0 : TLState) (reqs mid : List Request) (inputs : List (Input × InputStatus))
    (h : TInv pr sy statuses gh t0 reqs) (hs : sy.synchronizedInputs pr statuses = .ok (sy', inputs))
    (hmid : ∀ r ∈ mid, ∃ f, r = .save f)
    (hq : sy2.queues = sy'.queues) (hc : sy2.currentFrame = sy'.currentFrame) :
    ∃ (c : Nat) (gh' : Ghost), sy.currentFrame = (c : Int) ∧ InputsOk pr gh c inputs ∧ gh'.specs = gh.specs ∧
      TInv pr sy2.advanceFrame statuses gh' t0 (reqs ++ mid ++ [.advance inputs]) ∧
      sy2.advanceFrame.currentFrame = sy.currentFrame + 1 ∧
      AllAsked sy2.advanceFrame.queues sy2.advanceFrame.currentFrame ∧
      (∀ p, p < sy2.advanceFrame.queues.length → (rget sy2.advanceFrame.queues p).firstIncorrectFrame = NULL_FRAME) := by
  obtain ⟨c, gh', hc0, _, hl, hil, _, _, _, _, hcur', hok, hsp, hT, hinv, hask, hclean⟩ :=
    SyncInv_simulate pr sy sy' statuses gh inputs h.sync hs
  have hmidexec : ∀ (t : TLState), execReqs t mid = t := by
    intro t
    induction mid generalizing t with
    | nil => rfl
    | cons r rest ih =>
      obtain ⟨f, hf⟩ := hmid r List.mem_cons_self
      simp only [execReqs, List.foldl_cons, hf, execReq]
      exact ih (fun r hr => hmid r (List.mem_cons_of_mem _ hr)) t
  have hexec : execReqs t0 (reqs ++ mid ++ [.advance inputs]) =
      { cur := (execReqs t0 reqs).cur + 1, R := upd (execReqs t0 reqs).R (execReqs t0 reqs).cur.toNat inputs } := by
    rw [execReqs_append, execReqs_append, hmidexec]
    simp [execReqs, execReq]
  have hq2 : sy2.advanceFrame.queues = sy'.advanceFrame.queues := hq
  have hc2 : sy2.advanceFrame.currentFrame = sy'.advanceFrame.currentFrame := by
    show sy2.currentFrame + 1 = sy'.currentFrame + 1; rw [hc]
  refine ⟨c, gh', hc0, hok, hsp, ⟨SyncInv_congr hinv hq2 hc2, ?_, ?_⟩, by rw [hc2]; show sy'.currentFrame + 1 = _; rw [hcur'],
    by rw [hq2, hc2]; exact hask, by rw [hq2]; intro p hp; exact hclean p hp⟩
  · rw [hexec, hc2]
    show (execReqs t0 reqs).cur + 1 = sy'.currentFrame + 1
    rw [h.exec, hcur']
  · intro p hp f
    rw [hq2] at hp
    have hp' : p < sy.queues.length := by rw [← hl]; exact hp
    rw [hexec, hT p hp']
    simp only
    rw [h.exec, hc0]
    simp only [Int.toNat_natCast]
    by_cases hf : f = c
    · subst hf; rw [upd_self, upd_self]
    · rw [upd_ne _ _ _ _ hf, upd_ne _ _ _ _ hf]; exact h.rows p hp' f

end Ggrs

namespace Ggrs
open InputQueue

/-- The re-simulation loop of `adjust_gamestate`: `n` frames, each one `synchronized_inputs`, an
optional save, `advance_frame`. -/
theorem resim_loop (s : P2P) (mc : Frame) (t0 : TLState) : ∀ (n i : Nat) (sy : SyncLayer) (reqs : List Request)
    (sy' : SyncLayer) (reqs' : List Request) (gh : Ghost),
    TInv s.pred sy s.localConnectStatus gh t0 reqs →
    P2P.adjustGamestate.loop s mc n i sy reqs = .ok (sy', reqs') →
    ∃ gh' : Ghost, TInv s.pred sy' s.localConnectStatus gh' t0 reqs' ∧ gh'.specs = gh.specs ∧
      sy'.currentFrame = sy.currentFrame + n ∧ sy'.queues.length = sy.queues.length ∧
      (n > 0 → AllAsked sy'.queues sy'.currentFrame ∧
        ∀ p, p < sy'.queues.length → (rget sy'.queues p).firstIncorrectFrame = NULL_FRAME) := by
  intro n
  induction n with
  | zero =>
    intro i sy reqs sy' reqs' gh h hl
    simp only [P2P.adjustGamestate.loop] at hl
    cases hl
    exact ⟨gh, h, rfl, by simp, rfl, fun h0 => absurd h0 (by omega)⟩
  | succ k ih =>
    intro i sy reqs sy' reqs' gh h hl
    simp only [P2P.adjustGamestate.loop] at hl
    obtain ⟨r1, hsim, hl⟩ := bind_ok hl
    obtain ⟨sy1, inputs⟩ := r1
    simp only at hl
    obtain ⟨r2, hsave, hl⟩ := bind_ok hl
    obtain ⟨sy2, reqs2⟩ := r2
    simp only at hl
    -- whatever the save branch did, it appended at most one SaveGameState and kept queues and frame
    have hmid : ∃ mid : List Request, reqs2 = reqs ++ mid ∧ (∀ r ∈ mid, ∃ f, r = .save f) ∧
        sy2.queues = sy1.queues ∧ sy2.currentFrame = sy1.currentFrame := by
      have keep : (pure (sy1, reqs) : M (SyncLayer × List Request)) = .ok (sy2, reqs2) →
          ∃ mid : List Request, reqs2 = reqs ++ mid ∧ (∀ r ∈ mid, ∃ f, r = .save f) ∧
            sy2.queues = sy1.queues ∧ sy2.currentFrame = sy1.currentFrame := by
        intro hp
        have := pure_ok hp
        simp only [Prod.mk.injEq] at this
        exact ⟨[], by rw [← this.2]; simp, (fun r hr => by cases hr), by rw [← this.1], by rw [← this.1]⟩
      have sv : (do let (sync, r) ← sy1.saveCurrentState; pure (sync, reqs ++ [r]) : M (SyncLayer × List Request))
          = .ok (sy2, reqs2) →
          ∃ mid : List Request, reqs2 = reqs ++ mid ∧ (∀ r ∈ mid, ∃ f, r = .save f) ∧
            sy2.queues = sy1.queues ∧ sy2.currentFrame = sy1.currentFrame := by
        intro hp
        obtain ⟨r3, hs3, hp⟩ := bind_ok hp
        obtain ⟨sy3, rq⟩ := r3
        simp only at hp
        have := pure_ok hp
        simp only [Prod.mk.injEq] at this
        obtain ⟨hq3, hc3, hr3, _⟩ := save_fields sy1 sy3 rq hs3
        refine ⟨[rq], by rw [← this.2], ?_, by rw [← this.1, hq3], by rw [← this.1, hc3]⟩
        intro r hr
        simp only [List.mem_singleton] at hr
        exact ⟨_, by rw [hr, hr3]⟩
      unfold P2P.resimSave at hsave
      by_cases hsp : s.sparse = true
      · simp only [hsp, if_true] at hsave
        by_cases hm : (sy1.currentFrame == mc) = true
        · simp only [hm, if_true] at hsave; exact sv hsave
        · simp only [hm, Bool.false_eq_true, if_false] at hsave; exact keep hsave
      · simp only [hsp, Bool.false_eq_true, if_false] at hsave
        by_cases hi : i > 0
        · simp only [hi, if_true] at hsave; exact sv hsave
        · simp only [hi, if_false] at hsave; exact keep hsave
    obtain ⟨mid, hr2, hmidsave, hq2, hc2⟩ := hmid
    obtain ⟨c, gh1, _, _, hsp1, hinv1, hcur1, hask1, hclean1⟩ :=
      TInv_simulate s.pred sy sy1 sy2 s.localConnectStatus gh t0 reqs mid inputs h hsim hmidsave hq2 hc2
    rw [hr2] at hl
    obtain ⟨gh', hinv', hsp', hcur', hql', hrest⟩ := ih (i + 1) sy2.advanceFrame _ sy' reqs' gh1 hinv1 hl
    have hq1len : sy2.advanceFrame.queues.length = sy.queues.length := by
      have := hinv1.sync.nq; rw [← this]; exact h.sync.nq
    refine ⟨gh', hinv', by rw [hsp', hsp1], by rw [hcur', hcur1]; push_cast; omega, by rw [hql', hq1len], fun _ => ?_⟩
    by_cases hk : k > 0
    · exact hrest hk
    · have hk0 : k = 0 := by omega
      subst hk0
      simp only [P2P.adjustGamestate.loop] at hl
      cases hl
      exact ⟨hask1, hclean1⟩

end Ggrs

namespace Ggrs
open InputQueue

theorem rget_map_lt {α β} [Inhabited α] [Inhabited β] (f : α → β) (l : List α) (p : Nat) (hp : p < l.length) :
    rget (l.map f) p = f (rget l p) := by
  simp [rget, List.getD_eq_getElem?_getD, List.getElem?_map, List.getElem?_eq_getElem hp]

theorem loadFrame_fields (sy sy' : SyncLayer) (r : Frame) (req : Request) (h : sy.loadFrame r = .ok (sy', req)) :
    sy' = { sy with currentFrame := r } ∧ req = .load r ∧ r < sy.currentFrame ∧ 0 ≤ r := by
  unfold SyncLayer.loadFrame at h
  obtain ⟨_, h⟩ := ensure_bind_ok h
  obtain ⟨h2, h⟩ := ensure_bind_ok h
  obtain ⟨_, h⟩ := ensure_bind_ok h
  obtain ⟨pos, hpos, h⟩ := bind_ok h
  obtain ⟨_, h⟩ := ensure_bind_ok h
  have := pure_ok h
  simp only [Prod.mk.injEq] at this
  unfold SyncLayer.cellPos at hpos
  obtain ⟨h0, _⟩ := ensure_bind_ok hpos
  exact ⟨this.1.symm, this.2.symm, by simpa using h2, by simpa using h0⟩

/-- **`adjust_gamestate`.** Rolling back to a frame at or before every queue's first incorrect
frame and re-simulating up to the frame the session was at restores the invariant with every
`first_incorrect_frame` cleared; the game, executing the requests, ends at the same frame. -/
theorem adjust_spec (s s' : P2P) (firstIncorrect mc : Frame) (t0 : TLState) (reqs reqs' : List Request)
    (gh : Ghost) (h : TInv s.pred s.sync s.localConnectStatus gh t0 reqs)
    (hfi : ∀ p, p < s.sync.queues.length → (rget s.sync.queues p).firstIncorrectFrame ≠ NULL_FRAME →
      firstIncorrect ≤ (rget s.sync.queues p).firstIncorrectFrame)
    (hadj : s.adjustGamestate firstIncorrect mc reqs = .ok (s', reqs')) :
    ∃ gh' : Ghost, TInv s.pred s'.sync s.localConnectStatus gh' t0 reqs' ∧ gh'.specs = gh.specs ∧
      s' = { s with sync := s'.sync } ∧ s'.sync.currentFrame = s.sync.currentFrame ∧
      s'.sync.queues.length = s.sync.queues.length ∧
      AllAsked s'.sync.queues s'.sync.currentFrame ∧
      (∀ p, p < s'.sync.queues.length → (rget s'.sync.queues p).firstIncorrectFrame = NULL_FRAME) := by
  unfold P2P.adjustGamestate at hadj
  simp only at hadj
  obtain ⟨hle, hadj⟩ := ensure_bind_ok hadj
  generalize hr : (if s.sparse = true then s.sync.lastSavedFrame else firstIncorrect) = r at hadj hle
  have hle' : r ≤ firstIncorrect := by simpa using hle
  obtain ⟨p1, hload, hadj⟩ := bind_ok hadj
  obtain ⟨sy1, req⟩ := p1
  simp only at hadj
  obtain ⟨_, hadj⟩ := ensure_bind_ok hadj
  obtain ⟨p2, hloop, hadj⟩ := bind_ok hadj
  obtain ⟨sy2, reqs2⟩ := p2
  simp only at hadj
  obtain ⟨hback, hadj⟩ := ensure_bind_ok hadj
  have := pure_ok hadj
  simp only [Prod.mk.injEq] at this
  obtain ⟨hs', hreqs'⟩ := this
  obtain ⟨hsy1, hreq, hlt, h0⟩ := loadFrame_fields s.sync sy1 r req hload
  -- the invariant right after load + reset, at frame r
  have hinv1 : TInv s.pred sy1.resetPrediction s.localConnectStatus { gh with hists := fun _ => [] } t0 (reqs ++ [req]) := by
    have hq : sy1.resetPrediction.queues = s.sync.queues.map InputQueue.resetPrediction := by rw [hsy1]; rfl
    have hc : sy1.resetPrediction.currentFrame = r := by rw [hsy1]; rfl
    refine ⟨⟨by rw [hc]; exact h0, by rw [hq, List.length_map]; exact h.sync.nq, h.sync.conn, ?_⟩, ?_, ?_⟩
    · intro p hp
      rw [hq, List.length_map] at hp
      rw [hq, rget_map_lt _ _ _ hp, hc]
      exact QI_reset s.pred _ _ _ _ _ r (h.sync.all p hp) (Int.le_of_lt hlt)
        (fun hne => Int.le_trans hle' (hfi p hp hne))
    · rw [execReqs_append, hreq, hc]; rfl
    · intro p hp f
      rw [hq, List.length_map] at hp
      rw [execReqs_append, hreq]
      exact h.rows p hp f
  obtain ⟨gh', hinv', hsp', hcur', hql', hrest⟩ := resim_loop s mc t0 _ 0 _ _ sy2 reqs2 _ hinv1 hloop
  have hcnt : (s.sync.currentFrame - r).toNat > 0 := by omega
  obtain ⟨hask, hclean⟩ := hrest hcnt
  have hcur2 : sy2.currentFrame = s.sync.currentFrame := by simpa using hback
  subst hs'
  subst hreqs'
  refine ⟨gh', hinv', by rw [hsp'], rfl, hcur2, ?_, hask, hclean⟩
  rw [hql', hsy1]
  show (s.sync.queues.map InputQueue.resetPrediction).length = _
  rw [List.length_map]

end Ggrs

namespace Ggrs
open InputQueue

theorem mem_of_rget {α} [Inhabited α] (l : List α) (p : Nat) (hp : p < l.length) : rget l p ∈ l := by
  simp only [rget, List.getD_eq_getElem?_getD, List.getElem?_eq_getElem hp, Option.getD_some]
  exact List.getElem_mem hp

/-- The session-level package after a step: invariant, same streams, same frame, everything
asked, nothing flagged incorrect. -/
structure Settled (s s' : P2P) (gh gh' : Ghost) (t0 : TLState) (reqs' : List Request) : Prop where
  inv : TInv s.pred s'.sync s.localConnectStatus gh' t0 reqs'
  specs : gh'.specs = gh.specs
  cur : s'.sync.currentFrame = s.sync.currentFrame
  nq : s'.sync.queues.length = s.sync.queues.length
  asked : AllAsked s'.sync.queues s'.sync.currentFrame
  clean : ∀ p, p < s'.sync.queues.length → (rget s'.sync.queues p).firstIncorrectFrame = NULL_FRAME
  pred : s'.pred = s.pred
  statuses : s'.localConnectStatus = s.localConnectStatus
  sparse : s'.sparse = s.sparse
  rest : s'.handles = s.handles ∧ s'.maxPrediction = s.maxPrediction ∧
    s'.pendingLocalInputs = s.pendingLocalInputs ∧ s'.numPlayers = s.numPlayers

theorem rollbackIfNeeded_spec (s s' : P2P) (confirmed : Frame) (t0 : TLState) (reqs reqs' : List Request)
    (gh : Ghost) (h : TInv s.pred s.sync s.localConnectStatus gh t0 reqs)
    (hask : AllAsked s.sync.queues s.sync.currentFrame)
    (hrb : s.rollbackIfNeeded confirmed reqs = .ok (s', reqs')) :
    ∃ gh', Settled s s' gh gh' t0 reqs' := by
  unfold P2P.rollbackIfNeeded at hrb
  simp only at hrb
  have hes := SyncLayer.earliest_spec s.sync.queues s.disconnectFrame
  rw [← SyncLayer.checkSimulationConsistency_eq] at hes
  by_cases hfi : (s.sync.checkSimulationConsistency s.disconnectFrame != NULL_FRAME) = true
  · simp only [hfi, if_true] at hrb
    obtain ⟨r1, hadj, hrb⟩ := bind_ok hrb
    obtain ⟨s1, reqs1⟩ := r1
    simp only at hrb
    have := pure_ok hrb
    simp only [Prod.mk.injEq] at this
    obtain ⟨hs', hr'⟩ := this
    have hne : s.sync.checkSimulationConsistency s.disconnectFrame ≠ NULL_FRAME := by simpa using hfi
    obtain ⟨gh', hinv, hsp, hs1, hcur, hnq, hask', hclean⟩ := adjust_spec s s1 _ confirmed t0 reqs reqs1 gh h
      (fun p hp hne' => (hes.2 hne).2 _ (mem_of_rget _ _ hp) hne') hadj
    subst hs'; subst hr'
    refine ⟨gh', ⟨hinv, hsp, hcur, hnq, hask', hclean, ?_, ?_, ?_, ?_⟩⟩
    · show s1.pred = s.pred; rw [hs1]
    · show s1.localConnectStatus = s.localConnectStatus; rw [hs1]
    · show s1.sparse = s.sparse; rw [hs1]
    · show s1.handles = s.handles ∧ s1.maxPrediction = s.maxPrediction ∧
        s1.pendingLocalInputs = s.pendingLocalInputs ∧ s1.numPlayers = s.numPlayers
      rw [hs1]; exact ⟨rfl, rfl, rfl, rfl⟩
  · simp only [hfi, Bool.false_eq_true, if_false] at hrb
    have := pure_ok hrb
    simp only [Prod.mk.injEq] at this
    obtain ⟨hs', hr'⟩ := this
    subst hs'; subst hr'
    have h0 : s.sync.checkSimulationConsistency s.disconnectFrame = NULL_FRAME := by simpa using hfi
    have hall := (hes.1.mp h0).2
    exact ⟨gh, ⟨h, rfl, rfl, rfl, hask, fun p hp => hall _ (mem_of_rget _ _ hp), rfl, rfl, rfl, rfl, rfl, rfl, rfl⟩⟩

theorem Settled_save (s s1 : P2P) (gh gh1 : Ghost) (t0 : TLState) (reqs1 : List Request) (sy : SyncLayer) (r : Request)
    (h : Settled s s1 gh gh1 t0 reqs1) (hsv : s1.sync.saveCurrentState = .ok (sy, r)) :
    Settled s { s1 with sync := sy } gh gh1 t0 (reqs1 ++ [r]) := by
  obtain ⟨hq, hc, hr, _⟩ := save_fields _ _ _ hsv
  refine ⟨⟨SyncInv_congr h.inv.sync hq hc, ?_, ?_⟩, h.specs, by show sy.currentFrame = _; rw [hc]; exact h.cur,
    by show sy.queues.length = _; rw [hq]; exact h.nq, by show AllAsked sy.queues sy.currentFrame; rw [hq, hc]; exact h.asked,
    by show ∀ p, p < sy.queues.length → _; rw [hq]; exact h.clean, h.pred, h.statuses, h.sparse, h.rest⟩
  · show (execReqs t0 (reqs1 ++ [r])).cur = sy.currentFrame
    rw [execReqs_append, hr, hc]; exact h.inv.exec
  · intro p hp f
    have hp' : p < s1.sync.queues.length := by rw [← hq]; exact hp
    rw [execReqs_append, hr]
    exact h.inv.rows p hp' f

theorem Settled_trans (s s1 s2 : P2P) (gh gh1 gh2 : Ghost) (t0 : TLState) (reqs2 : List Request)
    (h1 : ∃ reqs1, Settled s s1 gh gh1 t0 reqs1) (h2 : Settled s1 s2 gh1 gh2 t0 reqs2) :
    Settled s s2 gh gh2 t0 reqs2 := by
  obtain ⟨_, h1⟩ := h1
  refine ⟨?_, by rw [h2.specs, h1.specs], by rw [h2.cur, h1.cur], by rw [h2.nq, h1.nq], h2.asked, h2.clean,
    by rw [h2.pred, h1.pred], by rw [h2.statuses, h1.statuses], by rw [h2.sparse, h1.sparse],
    ⟨h2.rest.1.trans h1.rest.1, h2.rest.2.1.trans h1.rest.2.1, h2.rest.2.2.1.trans h1.rest.2.2.1,
     h2.rest.2.2.2.trans h1.rest.2.2.2⟩⟩
  have := h2.inv
  rw [h1.pred, h1.statuses] at this
  exact this

theorem saveAfterRollback_spec (s s1 s' : P2P) (confirmed : Frame) (t0 : TLState) (reqs1 reqs' : List Request)
    (gh gh1 : Ghost) (h : Settled s s1 gh gh1 t0 reqs1)
    (hsv : s1.saveAfterRollback confirmed reqs1 = .ok (s', reqs')) :
    ∃ gh', Settled s s' gh gh' t0 reqs' := by
  unfold P2P.saveAfterRollback at hsv
  by_cases hsp : s1.sparse = true
  · rw [if_pos hsp] at hsv
    unfold P2P.checkLastSavedState at hsv
    by_cases hold : s1.sync.currentFrame - s1.sync.lastSavedFrame ≥ (s1.maxPrediction : Int)
    · simp only [hold, if_true] at hsv
      obtain ⟨r2, hsr, hsv⟩ := bind_ok hsv
      obtain ⟨s2, reqs2⟩ := r2
      simp only at hsv
      obtain ⟨_, hsv⟩ := ensure_bind_ok hsv
      have := pure_ok hsv
      simp only [Prod.mk.injEq] at this
      obtain ⟨hs', hr'⟩ := this
      subst hs'; subst hr'
      unfold P2P.saveOrRollbackToSaved at hsr
      by_cases hc : confirmed ≥ s1.sync.currentFrame
      · simp only [hc, if_true] at hsr
        obtain ⟨r3, hs3, hsr⟩ := bind_ok hsr
        obtain ⟨sy, r⟩ := r3
        simp only at hsr
        have := pure_ok hsr
        simp only [Prod.mk.injEq] at this
        obtain ⟨hs2, hr2⟩ := this
        subst hs2; subst hr2
        exact ⟨gh1, Settled_save s s1 gh gh1 t0 reqs1 sy r h hs3⟩
      · simp only [hc, if_false] at hsr
        have hinv1 : TInv s1.pred s1.sync s1.localConnectStatus gh1 t0 reqs1 := by
          rw [h.pred, h.statuses]; exact h.inv
        obtain ⟨gh2, hinv, hsp2, hs2, hcur, hnq, hask', hclean⟩ := adjust_spec s1 s2 _ confirmed t0 reqs1 reqs2 gh1 hinv1
          (fun p hp hne' => absurd (h.clean p hp) hne') hsr
        have h12 : Settled s1 s2 gh1 gh2 t0 reqs2 :=
          ⟨hinv, hsp2, hcur, hnq, hask', hclean, by rw [hs2], by rw [hs2], by rw [hs2],
           by rw [hs2]; exact ⟨rfl, rfl, rfl, rfl⟩⟩
        exact ⟨gh2, Settled_trans s s1 s2 gh gh1 gh2 t0 reqs2 ⟨_, h⟩ h12⟩
    · simp only [hold, if_false] at hsv
      have := pure_ok hsv
      simp only [Prod.mk.injEq] at this
      obtain ⟨hs', hr'⟩ := this
      subst hs'; subst hr'
      exact ⟨gh1, h⟩
  · rw [if_neg hsp] at hsv
    obtain ⟨r3, hs3, hsv⟩ := bind_ok hsv
    obtain ⟨sy, r⟩ := r3
    simp only at hsv
    have := pure_ok hsv
    simp only [Prod.mk.injEq] at this
    obtain ⟨hs2, hr2⟩ := this
    subst hs2; subst hr2
    exact ⟨gh1, Settled_save s s1 gh gh1 t0 reqs1 sy r h hs3⟩

/-- **`handle_rollback_and_save`.** After it, every queue is clean, so the timeline agrees with
every input received so far (`timelineRight_of_clean`). -/
theorem handleRollbackAndSave_spec (s s' : P2P) (confirmed : Frame) (t0 : TLState) (reqs reqs' : List Request)
    (gh : Ghost) (h : TInv s.pred s.sync s.localConnectStatus gh t0 reqs)
    (hask : AllAsked s.sync.queues s.sync.currentFrame)
    (hrs : s.handleRollbackAndSave confirmed reqs = .ok (s', reqs')) :
    ∃ gh', Settled s s' gh gh' t0 reqs' ∧ TimelineRight s'.sync gh' := by
  unfold P2P.handleRollbackAndSave at hrs
  obtain ⟨r1, hrb, hrs⟩ := bind_ok hrs
  obtain ⟨s1, reqs1⟩ := r1
  simp only at hrs
  obtain ⟨gh1, h1⟩ := rollbackIfNeeded_spec s s1 confirmed t0 reqs reqs1 gh h hask hrb
  obtain ⟨gh', h'⟩ := saveAfterRollback_spec s s1 s' confirmed t0 reqs1 reqs' gh gh1 h1 hrs
  exact ⟨gh', h', timelineRight_of_clean s.pred s'.sync s.localConnectStatus gh' h'.inv.sync h'.clean⟩

end Ggrs
