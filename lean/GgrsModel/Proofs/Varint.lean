/-
Varint layer: the header loop of `rle_decode` inverts `varinteger::encode` for every u64 and
never reaches an overflow-panic site.
-/
import GgrsModel.Model.Codec

namespace Ggrs.Codec

theorem bits_hi : ∀ x : Fin 128, (UInt8.ofNat (x.val + 128) &&& 0x7F).toNat = x.val := by decide
theorem cont_hi : ∀ x : Fin 128, (UInt8.ofNat (x.val + 128) &&& 0x80 == 0) = false := by decide
theorem bits_lo : ∀ x : Fin 128, (UInt8.ofNat x.val &&& 0x7F).toNat = x.val := by decide
theorem cont_lo : ∀ x : Fin 128, (UInt8.ofNat x.val &&& 0x80 == 0) = true := by decide
theorem bits_le (b : UInt8) : (b &&& 0x7F).toNat ≤ 127 := by
  rw [UInt8.toNat_and]; exact Nat.and_le_right

theorem varintEncodeFuel_ne_nil (fuel v : Nat) (h : 0 < fuel) : varintEncodeFuel fuel v ≠ [] := by
  cases fuel with
  | zero => omega
  | succ n => unfold varintEncodeFuel; split <;> simp

theorem varintEncode_ne_nil (v : Nat) : varintEncode v ≠ [] :=
  varintEncodeFuel_ne_nil 10 v (by decide)

theorem pow_split (a b : Nat) (h : b ≤ a) : 2 ^ a = 2 ^ (a - b) * 2 ^ b := by
  rw [← Nat.pow_add]; congr 1; omega

/-- Reading back `varintEncodeFuel fuel v` at bit position `shift` adds `v * 2^shift`. -/
theorem readHeader_encode (fuel : Nat) : ∀ (v shift header : Nat) (rest : Bytes),
    0 < fuel → shift ≤ 63 → v < 2 ^ (64 - shift) → v < 2 ^ (7 * fuel) → header < 2 ^ shift →
    readHeader shift header (varintEncodeFuel fuel v ++ rest) = .ok (header + v * 2 ^ shift, rest) := by
  induction fuel with
  | zero => intro _ _ _ _ h; omega
  | succ n ih =>
    intro v shift header rest _ hs hv hf hh
    have hsum : header + v * 2 ^ shift < 2 ^ 64 := by
      have h1 : (v + 1) * 2 ^ shift ≤ 2 ^ (64 - shift) * 2 ^ shift :=
        Nat.mul_le_mul_right _ hv
      rw [← pow_split 64 shift (by omega)] at h1
      rw [Nat.add_mul] at h1
      omega
    unfold varintEncodeFuel
    by_cases hbig : v > 127
    · -- continuation byte
      simp only [hbig, if_true, List.cons_append]
      have hlt : v % 128 < 128 := Nat.mod_lt _ (by decide)
      have hb := bits_hi ⟨v % 128, hlt⟩
      have hc := cont_hi ⟨v % 128, hlt⟩
      simp only at hb hc
      -- v ≥ 128 forces 64 - shift > 7
      have hshift : shift + 7 ≤ 63 := by
        by_cases h57 : shift ≤ 56
        · omega
        · exfalso
          have : 2 ^ (64 - shift) ≤ 2 ^ 7 := Nat.pow_le_pow_right (by decide) (by omega)
          have : (2:Nat) ^ 7 = 128 := by decide
          omega
      have hn : 0 < n := by
        cases n with
        | zero => exfalso; simp at hf; omega
        | succ m => omega
      have hv' : v / 128 < 2 ^ (64 - (shift + 7)) := by
        have : 2 ^ (64 - shift) = 2 ^ (64 - (shift + 7)) * 2 ^ 7 := by
          rw [← Nat.pow_add]; congr 1; omega
        have h128 : (2:Nat) ^ 7 = 128 := by decide
        rw [this, h128] at hv
        exact Nat.div_lt_of_lt_mul (by rw [Nat.mul_comm]; exact hv)
      have hf' : v / 128 < 2 ^ (7 * n) := by
        have : 2 ^ (7 * (n + 1)) = 2 ^ (7 * n) * 2 ^ 7 := by rw [← Nat.pow_add, Nat.mul_add]
        have h128 : (2:Nat) ^ 7 = 128 := by decide
        rw [this, h128] at hf
        exact Nat.div_lt_of_lt_mul (by rw [Nat.mul_comm]; exact hf)
      have hpart : header + v % 128 * 2 ^ shift < 2 ^ (shift + 7) := by
        have : 2 ^ (shift + 7) = 128 * 2 ^ shift := by
          rw [Nat.pow_add, Nat.mul_comm]
        rw [this]
        have : (v % 128 + 1) * 2 ^ shift ≤ 128 * 2 ^ shift := Nat.mul_le_mul_right _ hlt
        rw [Nat.add_mul] at this
        omega
      have hpart64 : header + v % 128 * 2 ^ shift < 2 ^ 64 :=
        Nat.lt_of_lt_of_le hpart (Nat.pow_le_pow_right (by decide) (by omega))
      unfold readHeader
      simp only [hb, hc]
      have hnot : (decide (shift > 63) || (shift == 63 && decide (v % 128 > 1))) = false := by
        have : ¬ shift > 63 := by omega
        have : (shift == 63) = false := by simp; omega
        simp [*]
      simp only [hnot, Bool.false_eq_true, if_false]
      have : ¬ (header + v % 128 * 2 ^ shift ≥ 2 ^ 64) := by omega
      simp only [this, if_false]
      rw [ih (v / 128) (shift + 7) _ rest hn hshift hv' hf' hpart]
      congr 2
      have h2 : 2 ^ (shift + 7) = 128 * 2 ^ shift := by rw [Nat.pow_add, Nat.mul_comm]
      rw [h2, ← Nat.mul_assoc, Nat.add_assoc, ← Nat.add_mul]
      congr 2
      omega
    · -- final byte
      simp only [hbig, if_false, List.cons_append, List.nil_append]
      have hlt : v < 128 := by omega
      have hb := bits_lo ⟨v, hlt⟩
      have hc := cont_lo ⟨v, hlt⟩
      simp only at hb hc
      unfold readHeader
      simp only [hb, hc]
      have hnot : (decide (shift > 63) || (shift == 63 && decide (v > 1))) = false := by
        have h1 : ¬ shift > 63 := by omega
        by_cases h63 : shift = 63
        · subst h63
          have : v < 2 := by simpa using hv
          simp; omega
        · have : (shift == 63) = false := by simp; omega
          simp [*]
      simp only [hnot, Bool.false_eq_true, if_false]
      have : ¬ (header + v * 2 ^ shift ≥ 2 ^ 64) := by omega
      simp [this]

theorem readHeader_varintEncode (v : Nat) (rest : Bytes) (hv : v < 2 ^ 64) :
    readHeader 0 0 (varintEncode v ++ rest) = .ok (v, rest) := by
  have := readHeader_encode 10 v 0 0 rest (by decide) (by decide) (by simpa using hv)
    (Nat.lt_of_lt_of_le hv (Nat.pow_le_pow_right (by decide) (by decide))) (by decide)
  simpa [varintEncode] using this

/-- The header loop consumes at least one byte. -/
theorem readHeader_length : ∀ (data : Bytes) (shift header h : Nat) (rest : Bytes),
    readHeader shift header data = .ok (h, rest) → rest.length < data.length := by
  intro data
  induction data with
  | nil => intro _ _ _ _ h; simp [readHeader] at h
  | cons b bs ih =>
    intro shift header h rest hr
    unfold readHeader at hr
    simp only at hr
    split at hr
    · cases hr
    · split at hr
      · cases hr
      · split at hr
        · cases hr; simp
        · have := ih _ _ _ _ hr
          simp; omega

/-- The header loop never hits the u64 overflow panic: the accumulated header stays below
`2^shift` and the guard rejects a tenth byte with more than one significant bit. -/
theorem readHeader_no_panic : ∀ (data : Bytes) (shift header : Nat) (k : Nat),
    shift = 7 * k → header < 2 ^ shift →
    ∀ s, readHeader shift header data ≠ .error (.panic s) := by
  intro data
  induction data with
  | nil => intro _ _ _ _ _ s h; simp [readHeader] at h
  | cons b bs ih =>
    intro shift header k hk hh s
    unfold readHeader
    simp only
    split
    · simp
    · rename_i hguard
      simp only [Bool.or_eq_true, decide_eq_true_eq, Bool.and_eq_true, beq_iff_eq, not_or, not_and] at hguard
      have hle : shift ≤ 63 := by omega
      have hbits := bits_le b
      have hlt64 : header + (b &&& 0x7F).toNat * 2 ^ shift < 2 ^ 64 := by
        by_cases h63 : shift = 63
        · have hb1 : (b &&& 0x7F).toNat ≤ 1 := by
            have := hguard.2 h63; omega
          subst h63
          have : (b &&& 0x7F).toNat * 2 ^ 63 ≤ 1 * 2 ^ 63 := Nat.mul_le_mul_right _ hb1
          have : (2:Nat) ^ 64 = 2 ^ 63 + 2 ^ 63 := by decide
          omega
        · have hs : shift + 7 ≤ 63 := by omega
          have h1 : ((b &&& 0x7F).toNat + 1) * 2 ^ shift ≤ 128 * 2 ^ shift :=
            Nat.mul_le_mul_right _ (by omega)
          have h2 : 2 ^ (shift + 7) = 128 * 2 ^ shift := by rw [Nat.pow_add, Nat.mul_comm]
          have h3 : 2 ^ (shift + 7) ≤ 2 ^ 64 := Nat.pow_le_pow_right (by decide) (by omega)
          rw [Nat.add_mul] at h1
          omega
      have : ¬ (header + (b &&& 0x7F).toNat * 2 ^ shift ≥ 2 ^ 64) := by omega
      simp only [this, if_false]
      split
      · simp
      · apply ih (shift + 7) _ (k + 1) (by omega)
        have h1 : ((b &&& 0x7F).toNat + 1) * 2 ^ shift ≤ 128 * 2 ^ shift :=
          Nat.mul_le_mul_right _ (by omega)
        have h2 : 2 ^ (shift + 7) = 128 * 2 ^ shift := by rw [Nat.pow_add, Nat.mul_comm]
        rw [Nat.add_mul] at h1
        omega

end Ggrs.Codec
