/-
C18, endpoint level: the map of remembered received inputs stays small for every packet schedule.
-/
import GgrsModel.Proofs.Link

namespace Ggrs
open Codec (Bytes)

/-- Keys strictly increasing. -/
def KSorted (l : List (Int × Bytes)) : Prop := l.Pairwise (fun a b => a.1 < b.1)

theorem ksorted_ainsert (k : Int) (v : Bytes) : ∀ (l : List (Int × Bytes)), KSorted l → KSorted (ainsert k v l) := by
  intro l
  induction l with
  | nil => intro _; simp [ainsert, KSorted]
  | cons x xs ih =>
    intro h
    obtain ⟨k', v'⟩ := x
    unfold KSorted at h ⊢
    have hx := (List.pairwise_cons.mp h).1
    have hxs := (List.pairwise_cons.mp h).2
    simp only [ainsert]
    by_cases h1 : k < k'
    · simp only [h1, if_true]
      refine List.pairwise_cons.mpr ⟨?_, h⟩
      intro a ha
      rcases List.mem_cons.mp ha with rfl | hin
      · exact h1
      · exact Int.lt_trans h1 (hx a hin)
    · simp only [h1, if_false]
      by_cases h2 : (k == k') = true
      · simp only [h2, if_true]
        have hk : k = k' := by simpa using h2
        refine List.pairwise_cons.mpr ⟨?_, hxs⟩
        intro a ha; rw [hk]; exact hx a ha
      · simp only [h2, Bool.false_eq_true, if_false]
        have hne : k ≠ k' := by simpa using h2
        refine List.pairwise_cons.mpr ⟨?_, ih hxs⟩
        intro a ha
        rcases mem_ainsert_sub k v xs a ha with rfl | hin
        · show k' < k; omega
        · exact hx a hin

theorem ksorted_filter (p : Int × Bytes → Bool) (l : List (Int × Bytes)) (h : KSorted l) : KSorted (l.filter p) :=
  List.Pairwise.filter p h

/-- Strictly increasing integer keys inside `[lo, hi]`: at most `hi - lo + 1` of them. -/
theorem ksorted_length : ∀ (l : List (Int × Bytes)) (lo hi : Int), KSorted l → (∀ p ∈ l, lo ≤ p.1 ∧ p.1 ≤ hi) →
    (l.length : Int) ≤ max 0 (hi - lo + 1) := by
  intro l
  induction l with
  | nil => intro lo hi _ _; simp only [List.length_nil, Int.natCast_zero]; exact Int.le_max_left _ _
  | cons x xs ih =>
    intro lo hi h hr
    unfold KSorted at h
    have hx := (List.pairwise_cons.mp h).1
    have hxs := (List.pairwise_cons.mp h).2
    have hx0 := hr x List.mem_cons_self
    have := ih (x.1 + 1) hi hxs (fun p hp => ⟨by have := hx p hp; omega, (hr p (List.mem_cons_of_mem _ hp)).2⟩)
    simp only [List.length_cons]
    push_cast
    omega

/-- What the receiver remembers: sorted keys, and after a fully handled packet nothing older than
`last_recv_frame - 2·max_prediction`. -/
structure RBound (e : Endpoint) : Prop where
  sorted : KSorted e.recvInputs
  window : ∀ p ∈ e.recvInputs, (p.1 = NULL_FRAME ∧ e.lastRecvFrame = NULL_FRAME) ∨
    (e.lastRecvFrame - 2 * (e.maxPrediction : Int) ≤ p.1 ∧ p.1 ≤ e.lastRecvFrame)

theorem RBound_length (e : Endpoint) (h : RBound e) : e.recvInputs.length ≤ 2 * e.maxPrediction + 1 := by
  have hnull : NULL_FRAME = (-1 : Int) := rfl
  by_cases h0 : e.lastRecvFrame = NULL_FRAME
  · have := ksorted_length e.recvInputs (-1 - 2 * (e.maxPrediction : Int)) (-1) h.sorted (by
      intro p hp
      rcases h.window p hp with ⟨a, _⟩ | ⟨a, b⟩
      · rw [a, hnull]; omega
      · rw [h0, hnull] at a b; omega)
    omega
  · have := ksorted_length e.recvInputs (e.lastRecvFrame - 2 * (e.maxPrediction : Int)) e.lastRecvFrame h.sorted (by
      intro p hp
      rcases h.window p hp with ⟨_, b⟩ | ⟨a, b⟩
      · exact absurd b h0
      · exact ⟨a, b⟩)
    omega

end Ggrs

namespace Ggrs
open Codec (Bytes)

theorem acceptInputs_keeps (start : Frame) : ∀ (xs : List Bytes) (e : Endpoint) (i : Nat),
    KSorted e.recvInputs → e.recvInputs ≠ [] →
    KSorted (Endpoint.acceptInputs e start xs i).1.recvInputs ∧ (Endpoint.acceptInputs e start xs i).1.recvInputs ≠ [] ∧
    (Endpoint.acceptInputs e start xs i).1.maxPrediction = e.maxPrediction := by
  intro xs
  induction xs with
  | nil => intro e i h1 h2; exact ⟨h1, h2, rfl⟩
  | cons x xs ih =>
    intro e i h1 h2
    unfold Endpoint.acceptInputs
    simp only
    split
    · exact ih e (i + 1) h1 h2
    · split
      · exact ⟨h1, h2, rfl⟩
      · rename_i pis _
        have := ih (e.storeFrame (start + (i : Int)) x pis) (i + 1)
          (ksorted_ainsert _ _ _ h1) (ainsert_ne_nil _ _ _)
        exact ⟨this.1, this.2.1, this.2.2⟩

/-- Pruning to the window below the newest frame establishes the bound, whatever was there. -/
theorem prune_rbound (e : Endpoint) (hs : KSorted e.recvInputs) (hne : e.recvInputs ≠ []) :
    RBound ({ e with recvInputs := e.recvInputs.filter (fun p =>
      decide (p.1 ≥ e.lastRecvFrame - 2 * (e.maxPrediction : Int))) } : Endpoint) ∧
    e.recvInputs.filter (fun p => decide (p.1 ≥ e.lastRecvFrame - 2 * (e.maxPrediction : Int))) ≠ [] := by
  obtain ⟨hub, q, hq, hqe⟩ := maxKey_spec e.recvInputs hne
  rw [← lastRecvFrame_eq] at hub hqe
  have hkeep : q ∈ e.recvInputs.filter (fun p => decide (p.1 ≥ e.lastRecvFrame - 2 * (e.maxPrediction : Int))) :=
    List.mem_filter.mpr ⟨hq, by simp; omega⟩
  have hne' : e.recvInputs.filter (fun p => decide (p.1 ≥ e.lastRecvFrame - 2 * (e.maxPrediction : Int))) ≠ [] := by
    intro h0; rw [h0] at hkeep; cases hkeep
  have hlast : ({ e with recvInputs := e.recvInputs.filter (fun p =>
      decide (p.1 ≥ e.lastRecvFrame - 2 * (e.maxPrediction : Int))) } : Endpoint).lastRecvFrame = e.lastRecvFrame := by
    rw [lastRecvFrame_eq]
    apply maxKey_unique _ hne'
    · intro p hp; exact hub p (List.mem_filter.mp hp).1
    · exact ⟨q, hkeep, hqe⟩
  refine ⟨⟨ksorted_filter _ _ hs, ?_⟩, hne'⟩
  intro p hp
  right
  rw [hlast]
  have hm := List.mem_filter.mp hp
  exact ⟨by simpa using hm.2, hub p hm.1⟩

/-- **Every Input packet that decodes and is accepted, and every one that is merely acknowledged,
leaves the receive map inside its window.** (A packet whose frames fail the size check — C08's
case — returns before the prune; that is the only way out of the bound.) -/
theorem decodeInputs_rbound (e : Endpoint) (now : Nat) (start : Frame) (bytes : Bytes)
    (h : RBound e) (hne : e.recvInputs ≠ [])
    (hok : ∀ ref inputs, alookup (if e.lastRecvFrame == NULL_FRAME then NULL_FRAME else start - 1) e.recvInputs = some ref →
      Codec.decode ref bytes = .ok inputs →
      (Endpoint.acceptInputs { e with runningLastInputRecv := now } start inputs 0).2 = true) :
    RBound (e.decodeInputs now start bytes) ∧ (e.decodeInputs now start bytes).recvInputs ≠ [] ∧
    (e.decodeInputs now start bytes).maxPrediction = e.maxPrediction := by
  unfold Endpoint.decodeInputs
  simp only
  cases hlk : alookup (if e.lastRecvFrame == NULL_FRAME then NULL_FRAME else start - 1) e.recvInputs with
  | none => exact ⟨⟨h.sorted, h.window⟩, hne, rfl⟩
  | some ref =>
    simp only
    cases hdec : Codec.decode ref bytes with
    | error _ => exact ⟨⟨h.sorted, h.window⟩, hne, rfl⟩
    | ok inputs =>
      simp only
      unfold Endpoint.acceptDecoded
      simp only
      have htrue := hok ref inputs hlk hdec
      obtain ⟨hs1, hne1, hmp1⟩ := acceptInputs_keeps start inputs { e with runningLastInputRecv := now } 0 h.sorted hne
      simp only [htrue, Bool.not_true, Bool.false_eq_true, if_false]
      generalize (Endpoint.acceptInputs { e with runningLastInputRecv := now } start inputs 0).1 = e1 at *
      have := prune_rbound (e1.sendInputAck now) hs1 hne1
      exact ⟨this.1, this.2, hmp1⟩

end Ggrs

namespace Ggrs
open Codec (Bytes)

/-- The bound is kept by every step of the link system. -/
theorem RBound_step (S : SStream) (hsize : S.width ≤ 65535) (st st' : Link) (h : LInv S st)
    (hb : RBound st.b) (hstep : LStep S st st') : RBound st'.b ∧ st'.b.maxPrediction = st.b.maxPrediction := by
  cases hstep with
  | submit now inputs cs a' _ _ _ _ _ => exact ⟨hb, rfl⟩
  | resend now cs a' _ => exact ⟨hb, rfl⟩
  | packet now m cs d start ack bytes hm hbody =>
    obtain ⟨n, hok, hby, _, hfirst⟩ := h.packets m hm cs d start ack bytes hbody
    subst hby
    obtain ⟨_, _, _, _, _, _, _, _, hacc⟩ := L_stream_packet st.b S now start n h.rinv hok.pos hok.lo hok.hi
      (fun h0 => Classical.byContradiction fun hc => hfirst hc h0) hsize hok.cap
    obtain ⟨a, _, c⟩ := decodeInputs_rbound st.b now start _ hb h.rinv.nonempty hacc
    exact ⟨a, c⟩
  | ack m x _ _ => exact ⟨hb, rfl⟩
  | piggyAck x _ => exact ⟨hb, rfl⟩

/-- **C18, remembered received inputs (every schedule of the link).** -/
theorem RBound_run (S : SStream) (hsize : S.width ≤ 65535) (st st' : Link) (h : LInv S st) (hb : RBound st.b)
    (hrun : LStar S st st') :
    RBound st'.b ∧ st'.b.maxPrediction = st.b.maxPrediction ∧
    st'.b.recvInputs.length ≤ 2 * st.b.maxPrediction + 1 := by
  have key : RBound st'.b ∧ st'.b.maxPrediction = st.b.maxPrediction ∧ LInv S st' := by
    induction hrun with
    | refl => exact ⟨hb, rfl, h⟩
    | step st1 st2 _ hstep ih =>
      obtain ⟨hb1, hm1, hl1⟩ := ih
      obtain ⟨hb2, hm2⟩ := RBound_step S hsize st1 st2 hl1 hb1 hstep
      exact ⟨hb2, hm2.trans hm1, LInv_step S hsize st1 st2 hl1 hstep⟩
  refine ⟨key.1, key.2.1, ?_⟩
  have := RBound_length st'.b key.1
  rw [key.2.1] at this
  exact this

/-- A fresh endpoint's receive map: the blank reference at NULL_FRAME. -/
theorem RBound_new (handles : List Nat) (peerAddr numPlayers localPlayers maxPrediction dt dn fps : Nat)
    (desync : Option Nat) (magic now : Nat) :
    RBound (Endpoint.new handles peerAddr numPlayers localPlayers maxPrediction dt dn fps desync magic now) := by
  refine ⟨by simp [Endpoint.new, KSorted], ?_⟩
  intro p hp
  simp only [Endpoint.new, List.mem_singleton] at hp
  left
  rw [hp]
  exact ⟨rfl, by simp [Endpoint.new, Endpoint.lastRecvFrame]⟩

end Ggrs
