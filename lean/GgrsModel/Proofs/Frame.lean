/-
Frame lemmas: the parts of `P2PSession::advance_frame` that only talk to the network (outgoing
input queue, endpoints, spectators) leave the sync layer, the connection statuses and the
configuration alone.
-/
import GgrsModel.Model.P2P
import GgrsModel.Proofs.Monad

namespace Ggrs
namespace P2P

/-- The fields the rollback core reads are the same in both states. -/
structure SameCore (s s' : P2P) : Prop where
  sync : s'.sync = s.sync
  pred : s'.pred = s.pred
  statuses : s'.localConnectStatus = s.localConnectStatus
  sparse : s'.sparse = s.sparse
  maxPrediction : s'.maxPrediction = s.maxPrediction
  handles : s'.handles = s.handles
  pending : s'.pendingLocalInputs = s.pendingLocalInputs
  numPlayers : s'.numPlayers = s.numPlayers
  disconnectFrame : s'.disconnectFrame = s.disconnectFrame

theorem SameCore.refl (s : P2P) : SameCore s s := ⟨rfl, rfl, rfl, rfl, rfl, rfl, rfl, rfl, rfl⟩

theorem SameCore.trans {a b c : P2P} (h1 : SameCore a b) (h2 : SameCore b c) : SameCore a c :=
  ⟨h2.sync.trans h1.sync, h2.pred.trans h1.pred, h2.statuses.trans h1.statuses, h2.sparse.trans h1.sparse,
   h2.maxPrediction.trans h1.maxPrediction, h2.handles.trans h1.handles, h2.pending.trans h1.pending,
   h2.numPlayers.trans h1.numPlayers, h2.disconnectFrame.trans h1.disconnectFrame⟩

theorem foldlM_sameCore {α} (f : P2P → α → M P2P) (hf : ∀ s a s', f s a = .ok s' → SameCore s s') :
    ∀ (l : List α) (s s' : P2P), l.foldlM f s = .ok s' → SameCore s s' := by
  intro l
  induction l with
  | nil => intro s s' h; simp only [List.foldlM_nil] at h; have := pure_ok h; subst this; exact SameCore.refl s
  | cons a rest ih =>
    intro s s' h
    simp only [List.foldlM_cons] at h
    obtain ⟨s1, h1, h⟩ := bind_ok h
    exact (hf s a s1 h1).trans (ih s1 s' h)

theorem queueOutgoing_sameCore (s s' : P2P) (h : Nat) (inp : PlayerInput)
    (hq : s.queueOutgoingLocalInput h inp = .ok s') : SameCore s s' := by
  unfold queueOutgoingLocalInput at hq
  obtain ⟨_, hq⟩ := ensure_bind_ok hq
  split at hq
  · have := pure_ok hq; subst this; exact SameCore.refl s
  · have := pure_ok hq; subst this; exact ⟨rfl, rfl, rfl, rfl, rfl, rfl, rfl, rfl, rfl⟩

theorem queueInitialBlanks_sameCore (s s' : P2P) (h : Nat) (actual : Frame)
    (hq : s.queueInitialBlanks h actual = .ok s') : SameCore s s' := by
  unfold queueInitialBlanks at hq
  split at hq
  · exact foldlM_sameCore _ (fun s a s' hh => queueOutgoing_sameCore s s' h _ hh) _ s s' hq
  · have := pure_ok hq; subst this; exact SameCore.refl s

theorem sendFrameToRemotes_sameCore (s s' : P2P) (now : Nat) (frame : Frame) (inputs : List (Nat × PlayerInput))
    (h : s.sendFrameToRemotes now frame inputs = .ok s') : SameCore s s' := by
  unfold sendFrameToRemotes at h
  simp only at h
  obtain ⟨r, _, h⟩ := bind_ok h
  have := pure_ok h
  subst this
  exact ⟨rfl, rfl, rfl, rfl, rfl, rfl, rfl, rfl, rfl⟩

theorem sendReadyLoop_sameCore (now : Nat) (lh : List Nat) : ∀ (fuel : Nat) (s s' : P2P),
    sendReadyOutgoingInputsToRemotes.loop now lh fuel s = .ok s' → SameCore s s' := by
  intro fuel
  induction fuel with
  | zero => intro s s' h; simp only [sendReadyOutgoingInputsToRemotes.loop] at h; cases h; exact SameCore.refl s
  | succ k ih =>
    intro s s' h
    simp only [sendReadyOutgoingInputsToRemotes.loop] at h
    split at h
    · cases h; exact SameCore.refl s
    · split at h
      · obtain ⟨inputs, _, h⟩ := bind_ok h
        obtain ⟨r, hsend, h⟩ := bind_ok h
        exact (sendFrameToRemotes_sameCore _ _ _ _ _ hsend).trans (ih _ s' h)
      · obtain ⟨_, hi, _⟩ := bind_ok h
        cases hi

theorem sendReady_sameCore (s s' : P2P) (now : Nat) (h : s.sendReadyOutgoingInputsToRemotes now = .ok s') :
    SameCore s s' := by
  unfold sendReadyOutgoingInputsToRemotes at h
  split at h
  · have := pure_ok h; subst this; exact SameCore.refl s
  · simp only at h
    split at h
    · have := pure_ok h; subst this; exact SameCore.refl s
    · exact sendReadyLoop_sameCore now _ _ s s' h

theorem offerToSpectators_sameCore (s s' : P2P) (now : Nat) (inputMap : List (Nat × PlayerInput))
    (h : s.offerToSpectators now inputMap = .ok s') : SameCore s s' := by
  unfold offerToSpectators at h
  obtain ⟨r, _, h⟩ := bind_ok h
  have := pure_ok h
  subst this
  exact ⟨rfl, rfl, rfl, rfl, rfl, rfl, rfl, rfl, rfl⟩

theorem sendConfirmedLoop_sameCore (now : Nat) (confirmed : Frame) : ∀ (fuel : Nat) (s s' : P2P),
    sendConfirmedInputsToSpectators.loop now confirmed fuel s = .ok s' → SameCore s s' := by
  intro fuel
  induction fuel with
  | zero => intro s s' h; simp only [sendConfirmedInputsToSpectators.loop] at h; cases h; exact SameCore.refl s
  | succ k ih =>
    intro s s' h
    simp only [sendConfirmedInputsToSpectators.loop] at h
    split at h
    · obtain ⟨inputs, _, h⟩ := bind_ok h
      obtain ⟨_, h⟩ := ensure_bind_ok h
      obtain ⟨_, h⟩ := ensure_bind_ok h
      obtain ⟨r, hoff, h⟩ := bind_ok h
      have h1 := offerToSpectators_sameCore _ _ _ _ hoff
      have h2 := ih _ s' h
      exact ⟨h2.sync.trans h1.sync, h2.pred.trans h1.pred, h2.statuses.trans h1.statuses, h2.sparse.trans h1.sparse,
        h2.maxPrediction.trans h1.maxPrediction, h2.handles.trans h1.handles, h2.pending.trans h1.pending,
        h2.numPlayers.trans h1.numPlayers, h2.disconnectFrame.trans h1.disconnectFrame⟩
    · cases h; exact SameCore.refl s

theorem sendConfirmed_sameCore (s s' : P2P) (now : Nat) (confirmed : Frame)
    (h : s.sendConfirmedInputsToSpectators now confirmed = .ok s') : SameCore s s' := by
  unfold sendConfirmedInputsToSpectators at h
  split at h
  · have := pure_ok h; subst this; exact SameCore.refl s
  · exact sendConfirmedLoop_sameCore now confirmed _ s s' h

end P2P
end Ggrs
