/-
L-spectator: the 60-slot ring of `SpectatorSession` against the host's confirmed input sequence,
for every interleaving of received frames and `advance_frame` loops.
-/
import GgrsModel.Model.Spectator
import GgrsModel.Proofs.Monad
import GgrsModel.Proofs.Queue

namespace Ggrs
namespace Spectator

/-- What `handle_event(Input)` does to the spectator. -/
theorem handleInput_fields (s s' : Spectator) (now : Nat) (inp : PlayerInput) (j addr : Nat)
    (h : s.handleEvent now (.input inp j) addr = .ok s') :
    s'.inputs = rset s.inputs (frameIdx inp.frame SPECTATOR_BUFFER_SIZE)
      (rset (rget s.inputs (frameIdx inp.frame SPECTATOR_BUFFER_SIZE)) j inp) ∧
    s'.lastRecvFrame = inp.frame ∧ inp.frame ≥ s.lastRecvFrame ∧ j < s.numPlayers ∧
    s'.numPlayers = s.numPlayers ∧ s'.currentFrame = s.currentFrame ∧ s'.running = s.running ∧
    s'.maxFramesBehind = s.maxFramesBehind ∧ s'.catchupSpeed = s.catchupSpeed := by
  unfold handleEvent at h
  obtain ⟨s1, hc, h⟩ := bind_ok h
  have := pure_ok h
  subst this
  unfold handleEventCore at hc
  simp only at hc
  obtain ⟨hj, hc⟩ := ensure_bind_ok hc
  obtain ⟨hge, hc⟩ := ensure_bind_ok hc
  obtain ⟨host, _, hc⟩ := bind_ok hc
  have := pure_ok hc
  subst this
  exact ⟨rfl, rfl, by simpa using hge, by simpa using hj, rfl, rfl, rfl, rfl, rfl⟩

/-- One complete frame of Input events, player by player. -/
def recvLoop (now : Nat) (f : Frame) (addr : Nat) : List Input → Nat → Spectator → M Spectator
  | [], _, s => .ok s
  | v :: vs, j, s => do
    let s' ← s.handleEvent now (.input ⟨f, v⟩ j) addr
    recvLoop now f addr vs (j + 1) s'

def mkRow (f : Frame) (vals : List Input) : List PlayerInput := vals.map fun v => ⟨f, v⟩

theorem rset_rset {α} (l : List α) (i : Nat) (a b : α) : rset (rset l i a) i b = rset l i b := by
  simp [rset]

theorem rset_take_drop (old : List PlayerInput) (f : Frame) (done : List Input) (v : Input)
    (h : done.length < old.length) :
    rset (mkRow f done ++ old.drop done.length) done.length ⟨f, v⟩
      = mkRow f (done ++ [v]) ++ old.drop (done.length + 1) := by
  unfold rset mkRow
  have hl : (List.map (fun v => (⟨f, v⟩ : PlayerInput)) done).length = done.length := by simp
  rw [List.set_append_right _ _ (by rw [hl]; exact Nat.le_refl _), hl, Nat.sub_self]
  have : old.drop done.length = old[done.length] :: old.drop (done.length + 1) := by
    rw [List.drop_eq_getElem_cons h]
  rw [this, List.set_cons_zero]
  simp

theorem rset_rget_self' {α} [Inhabited α] (l : List α) (i : Nat) (h : i < l.length) : rset l i (rget l i) = l := by
  simp [rset, rget, List.getD_eq_getElem?_getD, List.getElem?_eq_getElem h]

/-- The loop fills the slot of frame `f` from player `j` on and touches nothing else. -/
theorem recvLoop_spec (now : Nat) (f : Nat) (addr : Nat) : ∀ (vs done : List Input) (s s' : Spectator)
    (old : List PlayerInput),
    s.inputs.length = SPECTATOR_BUFFER_SIZE →
    rget s.inputs (f % SPECTATOR_BUFFER_SIZE) = mkRow f done ++ old.drop done.length →
    done.length + vs.length = old.length →
    recvLoop now (f : Int) addr vs done.length s = .ok s' →
    s'.inputs = rset s.inputs (f % SPECTATOR_BUFFER_SIZE) (mkRow f (done ++ vs)) ∧
    (vs ≠ [] → s'.lastRecvFrame = (f : Int) ∧ (f : Int) ≥ s.lastRecvFrame) ∧
    (vs = [] → s'.lastRecvFrame = s.lastRecvFrame) ∧
    s'.numPlayers = s.numPlayers ∧ s'.currentFrame = s.currentFrame ∧ s'.running = s.running ∧
    s'.maxFramesBehind = s.maxFramesBehind ∧ s'.catchupSpeed = s.catchupSpeed := by
  intro vs
  induction vs with
  | nil =>
    intro done s s' old hlen hslot hsum hl
    simp only [recvLoop] at hl
    cases hl
    simp only [List.length_nil, Nat.add_zero] at hsum
    refine ⟨?_, fun h => absurd rfl h, fun _ => rfl, rfl, rfl, rfl, rfl, rfl⟩
    rw [List.append_nil]
    have : mkRow f done = rget s.inputs (f % SPECTATOR_BUFFER_SIZE) := by
      rw [hslot, hsum]; simp
    rw [this, rset_rget_self']
    rw [hlen]; exact Nat.mod_lt _ (by decide)
  | cons v vs ih =>
    intro done s s' old hlen hslot hsum hl
    simp only [recvLoop] at hl
    obtain ⟨s1, h1, hl⟩ := bind_ok hl
    obtain ⟨hin, hlr, hge, hj, hnp, hcf, hrun, hmf, hcs⟩ := handleInput_fields s s1 now ⟨f, v⟩ done.length addr h1
    have hidx : frameIdx (f : Int) SPECTATOR_BUFFER_SIZE = f % SPECTATOR_BUFFER_SIZE := by
      simp [frameIdx, usizeOfFrame]
    simp only [hidx] at hin
    have hslotlt : f % SPECTATOR_BUFFER_SIZE < s.inputs.length := by rw [hlen]; exact Nat.mod_lt _ (by decide)
    simp only [List.length_cons] at hsum
    have hslot1 : rget s1.inputs (f % SPECTATOR_BUFFER_SIZE) = mkRow f (done ++ [v]) ++ old.drop ((done ++ [v]).length) := by
      rw [hin, rget_rset_eq _ _ _ hslotlt, hslot, rset_take_drop old f done v (by omega)]
      simp
    have hlen1 : s1.inputs.length = SPECTATOR_BUFFER_SIZE := by rw [hin, rset_length]; exact hlen
    have hdl : (done ++ [v]).length = done.length + 1 := by simp
    rw [← hdl] at hl
    obtain ⟨hin', hcons, hnil, hnp', hcf', hrun', hmf', hcs'⟩ := ih (done ++ [v]) s1 s' old hlen1 hslot1 (by rw [hdl]; omega) hl
    refine ⟨?_, fun _ => ?_, fun h => absurd h (List.cons_ne_nil _ _), hnp'.trans hnp, hcf'.trans hcf, hrun'.trans hrun,
      hmf'.trans hmf, hcs'.trans hcs⟩
    · rw [hin', hin, rset_rset]
      simp [List.append_assoc]
    · by_cases hvs : vs = []
      · rw [hnil hvs, hlr]; exact ⟨rfl, hge⟩
      · obtain ⟨a, _⟩ := hcons hvs
        exact ⟨a, hge⟩

end Spectator
end Ggrs

namespace Ggrs
namespace Spectator

/-- The ring against the host's confirmed sequence `Hs` (frame `i` ↦ the players' inputs), of
which `Hs.length` complete frames have arrived. -/
structure SpecRing (s : Spectator) (Hs : List (List Input)) : Prop where
  len : s.inputs.length = SPECTATOR_BUFFER_SIZE
  players : s.numPlayers > 0
  rows : ∀ r ∈ Hs, r.length = s.numPlayers
  width : ∀ i, i < SPECTATOR_BUFFER_SIZE → (rget s.inputs i).length = s.numPlayers
  held : ∀ f, f < Hs.length → Hs.length ≤ f + SPECTATOR_BUFFER_SIZE →
    rget s.inputs (f % SPECTATOR_BUFFER_SIZE) = mkRow f (Hs.getD f [])
  fresh : ∀ i, i < SPECTATOR_BUFFER_SIZE → Hs.length ≤ i → (rget (rget s.inputs i) 0).frame = NULL_FRAME
  lastRecv : s.lastRecvFrame = (Hs.length : Int) - 1

theorem specRing_new (numPlayers : Nat) (host : Endpoint) (mfb cs : Nat) (hn : numPlayers > 0) :
    SpecRing (Spectator.new numPlayers host mfb cs) [] := by
  have hq : SPECTATOR_BUFFER_SIZE = 60 := rfl
  refine ⟨by simp [Spectator.new], hn, (fun r hr => by cases hr), ?_, (fun f hf => by simp at hf), ?_, rfl⟩
  · intro i hi
    simp [Spectator.new, rget, List.getD_eq_getElem?_getD, List.getElem?_replicate, hi]
  · intro i hi _
    simp [Spectator.new, rget, List.getD_eq_getElem?_getD, List.getElem?_replicate, hi, hn, PlayerInput.blank]

/-- The first entry of a slot tells which frame the slot holds: the requested one, an older one
(not yet received) or a newer one (overwritten). -/
theorem slot_frame (s : Spectator) (Hs : List (List Input)) (h : SpecRing s Hs) (f : Nat) :
    let fr := (rget (rget s.inputs (f % SPECTATOR_BUFFER_SIZE)) 0).frame
    (Hs.length ≤ f → fr < (f : Int)) ∧
    (f + SPECTATOR_BUFFER_SIZE < Hs.length → fr > (f : Int)) ∧
    (f < Hs.length → Hs.length ≤ f + SPECTATOR_BUFFER_SIZE → fr = (f : Int)) := by
  have hq : SPECTATOR_BUFFER_SIZE = 60 := rfl
  have hnull : NULL_FRAME = (-1 : Int) := rfl
  have hp := h.players
  -- the frame held by slot i when something has been written to it
  have first : ∀ g, g < Hs.length → Hs.length ≤ g + SPECTATOR_BUFFER_SIZE →
      (rget (rget s.inputs (g % SPECTATOR_BUFFER_SIZE)) 0).frame = (g : Int) := by
    intro g hg hw
    rw [h.held g hg hw]
    have hr : (Hs.getD g []).length = s.numPlayers := by
      apply h.rows
      rw [List.getD_eq_getElem?_getD, List.getElem?_eq_getElem hg]
      simp
    cases hrow : Hs.getD g [] with
    | nil => rw [hrow] at hr; simp at hr; omega
    | cons a as => simp [mkRow, rget]
  simp only
  refine ⟨?_, ?_, fun h1 h2 => first f h1 h2⟩
  · intro hge
    by_cases hi : f % SPECTATOR_BUFFER_SIZE < Hs.length
    · -- the newest frame congruent to f below Hs.length
      let g := Hs.length - 1 - ((Hs.length - 1 - f % SPECTATOR_BUFFER_SIZE) % SPECTATOR_BUFFER_SIZE)
      have hg1 : g < Hs.length := by simp only [g]; omega
      have hg2 : Hs.length ≤ g + SPECTATOR_BUFFER_SIZE := by simp only [g]; rw [hq]; omega
      have hg3 : g % SPECTATOR_BUFFER_SIZE = f % SPECTATOR_BUFFER_SIZE := by simp only [g]; rw [hq] at hi ⊢; omega
      have := first g hg1 hg2
      rw [hg3] at this
      rw [this]; omega
    · rw [h.fresh _ (Nat.mod_lt _ (by decide)) (by omega), hnull]; omega
  · intro hlt
    let g := Hs.length - 1 - ((Hs.length - 1 - f % SPECTATOR_BUFFER_SIZE) % SPECTATOR_BUFFER_SIZE)
    have hfm : f % SPECTATOR_BUFFER_SIZE < SPECTATOR_BUFFER_SIZE := Nat.mod_lt _ (by decide)
    have hg1 : g < Hs.length := by simp only [g]; omega
    have hg2 : Hs.length ≤ g + SPECTATOR_BUFFER_SIZE := by simp only [g]; rw [hq]; omega
    have hg3 : g % SPECTATOR_BUFFER_SIZE = f % SPECTATOR_BUFFER_SIZE := by simp only [g]; rw [hq] at hfm hlt ⊢; omega
    have := first g hg1 hg2
    rw [hg3] at this
    rw [this]
    have : g ≥ Hs.length - SPECTATOR_BUFFER_SIZE := by omega
    omega

/-- Receiving the next complete frame. -/
theorem specRing_recv (s s' : Spectator) (Hs : List (List Input)) (now addr : Nat) (row : List Input)
    (h : SpecRing s Hs) (hrow : row.length = s.numPlayers)
    (hr : recvLoop now (Hs.length : Int) addr row 0 s = .ok s') :
    SpecRing s' (Hs ++ [row]) ∧ s'.numPlayers = s.numPlayers ∧ s'.currentFrame = s.currentFrame ∧
    s'.running = s.running ∧ s'.maxFramesBehind = s.maxFramesBehind ∧ s'.catchupSpeed = s.catchupSpeed := by
  have hq : SPECTATOR_BUFFER_SIZE = 60 := rfl
  have hslotlt : Hs.length % SPECTATOR_BUFFER_SIZE < s.inputs.length := by rw [h.len]; exact Nat.mod_lt _ (by decide)
  have hw := h.width _ (Nat.mod_lt Hs.length (by decide : SPECTATOR_BUFFER_SIZE > 0))
  obtain ⟨hin, hcons, _, hnp, hcf, hrun, hmf, hcs⟩ := recvLoop_spec now Hs.length addr row [] s s'
    (rget s.inputs (Hs.length % SPECTATOR_BUFFER_SIZE)) h.len (by simp [mkRow]) (by simp [hw, hrow]) hr
  simp only [List.nil_append] at hin
  have hrne : row ≠ [] := by
    intro h0; rw [h0] at hrow; have := h.players; simp at hrow; omega
  refine ⟨⟨by rw [hin, rset_length]; exact h.len, by rw [hnp]; exact h.players, ?_, ?_, ?_, ?_, ?_⟩, hnp, hcf, hrun, hmf, hcs⟩
  · intro r hr
    rw [hnp]
    rcases List.mem_append.mp hr with h1 | h1
    · exact h.rows r h1
    · simp only [List.mem_singleton] at h1; rw [h1]; exact hrow
  · intro i hi
    rw [hin, hnp]
    by_cases hie : Hs.length % SPECTATOR_BUFFER_SIZE = i
    · rw [← hie, rget_rset_eq _ _ _ hslotlt]; simp [mkRow, hrow]
    · rw [rget_rset_ne _ _ _ _ hie]; exact h.width i hi
  · intro f hf hwin
    simp only [List.length_append, List.length_cons, List.length_nil] at hf hwin
    rw [hin]
    by_cases hfe : f = Hs.length
    · subst hfe
      rw [rget_rset_eq _ _ _ hslotlt]
      simp [List.getD_eq_getElem?_getD]
    · have hfl : f < Hs.length := by omega
      have hne : Hs.length % SPECTATOR_BUFFER_SIZE ≠ f % SPECTATOR_BUFFER_SIZE := by rw [hq] at hwin ⊢; omega
      rw [rget_rset_ne _ _ _ _ hne, h.held f hfl (by omega)]
      congr 1
      simp [List.getD_eq_getElem?_getD, List.getElem?_append_left hfl]
  · intro i hi hge
    simp only [List.length_append, List.length_cons, List.length_nil] at hge
    rw [hin]
    have hne : Hs.length % SPECTATOR_BUFFER_SIZE ≠ i := by rw [hq] at hi ⊢; omega
    rw [rget_rset_ne _ _ _ _ hne]
    exact h.fresh i hi (by omega)
  · rw [(hcons hrne).1]
    simp only [List.length_append, List.length_cons, List.length_nil]
    push_cast; omega

end Spectator
end Ggrs

namespace Ggrs
namespace Spectator

theorem map_zipIdx_fst' {α β} (l : List α) (g : α → β) (k : Nat) :
    (l.zipIdx k).map (fun x => g x.1) = l.map g := by
  induction l generalizing k with
  | nil => rfl
  | cons a as ih => simp [List.zipIdx_cons, ih]

/-- `inputs_at_frame` against the host's sequence. -/
theorem inputsAt_spec (s : Spectator) (Hs : List (List Input)) (h : SpecRing s Hs) (f : Nat)
    (r : Except GgrsError (List (Input × InputStatus))) (hi : s.inputsAtFrame (f : Int) = .ok r) :
    (Hs.length ≤ f → r = .error .predictionThreshold) ∧
    (f + SPECTATOR_BUFFER_SIZE < Hs.length → r = .error .spectatorTooFarBehind) ∧
    (f < Hs.length → Hs.length ≤ f + SPECTATOR_BUFFER_SIZE →
      ∃ ins, r = .ok ins ∧ ins.map (·.1) = Hs.getD f []) := by
  have hidx : frameIdx (f : Int) SPECTATOR_BUFFER_SIZE = f % SPECTATOR_BUFFER_SIZE := by
    simp [frameIdx, usizeOfFrame]
  obtain ⟨h1, h2, h3⟩ := slot_frame s Hs h f
  unfold inputsAtFrame at hi
  simp only [hidx] at hi
  obtain ⟨_, hi⟩ := ensure_bind_ok hi
  refine ⟨fun hge => ?_, fun hlt => ?_, fun hlo hw => ?_⟩
  · have := h1 hge
    simp only [this, if_true] at hi
    exact (pure_ok hi).symm
  · have := h2 hlt
    have hn : ¬ (rget (rget s.inputs (f % SPECTATOR_BUFFER_SIZE)) 0).frame < (f : Int) := by omega
    simp only [hn, if_false, this, if_true] at hi
    exact (pure_ok hi).symm
  · have := h3 hlo hw
    have hn1 : ¬ (rget (rget s.inputs (f % SPECTATOR_BUFFER_SIZE)) 0).frame < (f : Int) := by omega
    have hn2 : ¬ (rget (rget s.inputs (f % SPECTATOR_BUFFER_SIZE)) 0).frame > (f : Int) := by omega
    simp only [hn1, hn2, if_false] at hi
    refine ⟨_, (pure_ok hi).symm, ?_⟩
    rw [h.held f hlo hw]
    simp only [List.map_map, Function.comp_def]
    rw [map_zipIdx_fst' _ (fun (x : PlayerInput) => x.input) 0]
    simp only [mkRow, List.map_map]
    have : ((fun (x : PlayerInput) => x.input) ∘ fun v => ({ frame := (f : Int), input := v } : PlayerInput)) = id := by
      funext v; rfl
    rw [this, List.map_id]

/-- The AdvanceFrame requests issued so far are the host's frames `c0, c0+1, ...` in order. -/
def AdvOk (Hs : List (List Input)) (c0 : Nat) (reqs : List Request) : Prop :=
  ∀ k, k < reqs.length → ∃ ins, reqs.getD k default = .advance ins ∧ ins.map (·.1) = Hs.getD (c0 + k) [] ∧
    c0 + k < Hs.length

theorem AdvOk_snoc (Hs : List (List Input)) (c0 : Nat) (reqs : List Request) (ins : List (Input × InputStatus))
    (h : AdvOk Hs c0 reqs) (hv : ins.map (·.1) = Hs.getD (c0 + reqs.length) []) (hl : c0 + reqs.length < Hs.length) :
    AdvOk Hs c0 (reqs ++ [.advance ins]) := by
  intro k hk
  simp only [List.length_append, List.length_cons, List.length_nil] at hk
  by_cases hkl : k < reqs.length
  · obtain ⟨i, a, b, c⟩ := h k hkl
    refine ⟨i, ?_, b, c⟩
    rw [← a]; simp [List.getD_eq_getElem?_getD, List.getElem?_append_left hkl]
  · have : k = reqs.length := by omega
    subst this
    exact ⟨ins, by simp [List.getD_eq_getElem?_getD], hv, hl⟩

/-- The loop of `advance_frame`: hands out the host's frames in order, one per iteration, and stops
with the documented error exactly when the next frame has not arrived or has been overwritten. -/
theorem advLoop_spec (Hs : List (List Input)) (c0 : Nat) : ∀ (n : Nat) (s s' : Spectator) (reqs : List Request)
    (res : Except GgrsError (List Request)),
    SpecRing s Hs → s.currentFrame = ((c0 + reqs.length : Nat) : Int) - 1 → AdvOk Hs c0 reqs →
    advanceAfterPoll.loop n s reqs = .ok (s', res) →
    s'.inputs = s.inputs ∧ s'.lastRecvFrame = s.lastRecvFrame ∧ s'.numPlayers = s.numPlayers ∧
    (∀ reqs', res = .ok reqs' → AdvOk Hs c0 reqs' ∧ reqs'.length = reqs.length + n ∧
        s'.currentFrame = ((c0 + reqs'.length : Nat) : Int) - 1) ∧
    (∀ e, res = .error e → ∃ m, m < n ∧ s'.currentFrame = ((c0 + reqs.length + m : Nat) : Int) - 1 ∧
        ((e = .predictionThreshold ∧ Hs.length ≤ c0 + reqs.length + m) ∨
         (e = .spectatorTooFarBehind ∧ c0 + reqs.length + m + SPECTATOR_BUFFER_SIZE < Hs.length))) := by
  intro n
  induction n with
  | zero =>
    intro s s' reqs res _ hc hadv hl
    simp only [advanceAfterPoll.loop] at hl
    cases hl
    exact ⟨rfl, rfl, rfl, (fun reqs' hr => by cases hr; exact ⟨hadv, rfl, hc⟩), (fun e he => by cases he)⟩
  | succ k ih =>
    intro s s' reqs res h hc hadv hl
    simp only [advanceAfterPoll.loop] at hl
    obtain ⟨r, hat, hl⟩ := bind_ok hl
    have hfr : s.currentFrame + 1 = ((c0 + reqs.length : Nat) : Int) := by rw [hc]; omega
    rw [hfr] at hat
    obtain ⟨e1, e2, e3⟩ := inputsAt_spec s Hs h (c0 + reqs.length) r hat
    cases r with
    | error e =>
      simp only at hl
      have := pure_ok hl
      simp only [Prod.mk.injEq] at this
      obtain ⟨hs', hres⟩ := this
      subst hs'; subst hres
      refine ⟨rfl, rfl, rfl, (fun reqs' hr => by cases hr), fun e' he => ?_⟩
      cases he
      refine ⟨0, by omega, by simpa using hc, ?_⟩
      by_cases hge : Hs.length ≤ c0 + reqs.length
      · left; have := e1 hge; cases this; exact ⟨rfl, by simpa using hge⟩
      · by_cases hlt : c0 + reqs.length + SPECTATOR_BUFFER_SIZE < Hs.length
        · right; have := e2 hlt; cases this; exact ⟨rfl, by simpa using hlt⟩
        · obtain ⟨ins, hins, _⟩ := e3 (by omega) (by omega)
          cases hins
    | ok ins =>
      simp only at hl
      have hin : c0 + reqs.length < Hs.length ∧ Hs.length ≤ c0 + reqs.length + SPECTATOR_BUFFER_SIZE := by
        constructor
        · apply Classical.byContradiction; intro hn
          have := e1 (by omega); cases this
        · apply Classical.byContradiction; intro hn
          have := e2 (by omega); cases this
      obtain ⟨ins', hins, hv⟩ := e3 hin.1 hin.2
      cases hins
      have h1 : SpecRing ({ s with currentFrame := s.currentFrame + 1 } : Spectator) Hs :=
        ⟨h.len, h.players, h.rows, h.width, h.held, h.fresh, h.lastRecv⟩
      have hadv1 := AdvOk_snoc Hs c0 reqs ins hadv hv hin.1
      have hc1 : ({ s with currentFrame := s.currentFrame + 1 } : Spectator).currentFrame
          = ((c0 + (reqs ++ [Request.advance ins]).length : Nat) : Int) - 1 := by
        simp only [List.length_append, List.length_cons, List.length_nil]
        rw [hfr]; push_cast; omega
      obtain ⟨a, b, c, hok, herr⟩ := ih _ s' _ res h1 hc1 hadv1 hl
      refine ⟨a, b, c, fun reqs' hr => ?_, fun e he => ?_⟩
      · obtain ⟨x, y, z⟩ := hok reqs' hr
        refine ⟨x, ?_, z⟩
        rw [y]; simp only [List.length_append, List.length_cons, List.length_nil]; omega
      · obtain ⟨m, hm, hcur, hcase⟩ := herr e he
        simp only [List.length_append, List.length_cons, List.length_nil] at hcur hcase
        refine ⟨m + 1, by omega, ?_, ?_⟩
        · rw [hcur]; congr 2; omega
        · rcases hcase with ⟨x, y⟩ | ⟨x, y⟩
          · left; exact ⟨x, by omega⟩
          · right; exact ⟨x, by omega⟩

end Spectator
end Ggrs

namespace Ggrs
namespace Spectator

/-- The spectator against the host's sequence `Hs`, having handed out the first `served` frames. -/
structure SpecInv (s : Spectator) (Hs : List (List Input)) (served : Nat) : Prop where
  ring : SpecRing s Hs
  cur : s.currentFrame = (served : Int) - 1
  le : served ≤ Hs.length

/-- **`advance_frame` after the poll.** Either an error with nothing consumed — NotSynchronized, or
PredictionThreshold because the next frame has not arrived, or SpectatorTooFarBehind because the
host has overwritten it — or the next `k` frames of the host's sequence, in order, without gap,
where `k` is 1, or while more than `max_frames_behind` frames are buffered
`min(catchup_speed, frames behind, SPECTATOR_BUFFER_SIZE - 1)`. -/
theorem advanceAfterPoll_spec (s s' : Spectator) (Hs : List (List Input)) (served : Nat)
    (res : Except GgrsError (List Request)) (h : SpecInv s Hs served)
    (hadv : s.advanceAfterPoll = .ok (s', res)) :
    (∀ reqs, res = .ok reqs → AdvOk Hs served reqs ∧ SpecInv s' Hs (served + reqs.length) ∧
      reqs.length = (if Hs.length - served > s.maxFramesBehind
        then min (min s.catchupSpeed (Hs.length - served)) (SPECTATOR_BUFFER_SIZE - 1) else NORMAL_SPEED)) ∧
    (∀ e, res = .error e → SpecInv s' Hs served ∧
      (e = .notSynchronized ∨ (e = .predictionThreshold ∧ Hs.length ≤ served) ∨
       (e = .spectatorTooFarBehind ∧ served + SPECTATOR_BUFFER_SIZE < Hs.length))) := by
  unfold advanceAfterPoll at hadv
  by_cases hrun : s.running = true
  · simp only [hrun, Bool.not_true, Bool.false_eq_true, if_false] at hadv
    obtain ⟨behind, hb, hadv⟩ := bind_ok hadv
    unfold framesBehindHost at hb
    obtain ⟨_, hb⟩ := ensure_bind_ok hb
    have hbe := pure_ok hb
    have hbeh : behind = Hs.length - served := by
      rw [← hbe, h.ring.lastRecv, h.cur]
      have := h.le
      omega
    generalize hn : (if behind > s.maxFramesBehind then min (min s.catchupSpeed behind) (SPECTATOR_BUFFER_SIZE - 1)
      else NORMAL_SPEED) = n at hadv
    obtain ⟨hin, hlr, hnp, hok, herr⟩ := advLoop_spec Hs served n s s' [] res h.ring (by simpa using h.cur)
      (fun k hk => by simp at hk) hadv
    have hring' : SpecRing s' Hs :=
      ⟨by rw [hin]; exact h.ring.len, by rw [hnp]; exact h.ring.players, by rw [hnp]; exact h.ring.rows,
       by rw [hin, hnp]; exact h.ring.width, by rw [hin]; exact h.ring.held, by rw [hin]; exact h.ring.fresh,
       by rw [hlr]; exact h.ring.lastRecv⟩
    refine ⟨fun reqs hr => ?_, fun e he => ?_⟩
    · obtain ⟨hadvok, hlen, hcur⟩ := hok reqs hr
      simp only [List.length_nil, Nat.zero_add] at hlen
      refine ⟨hadvok, ⟨hring', hcur, ?_⟩, by rw [hlen, ← hn, hbeh]⟩
      -- every handed-out frame had arrived
      by_cases hz : reqs.length = 0
      · rw [hz]; exact h.le
      · obtain ⟨_, _, _, hlt⟩ := hadvok (reqs.length - 1) (by omega)
        omega
    · obtain ⟨m, hm, hcur, hcase⟩ := herr e he
      simp only [List.length_nil, Nat.add_zero] at hcur hcase
      -- the failing iteration is the first one
      have hm0 : m = 0 := by
        have hnle : n ≤ max 1 (Hs.length - served) := by
          rw [← hn, hbeh]
          split
          · exact Nat.le_trans (Nat.le_trans (Nat.min_le_left _ _) (Nat.min_le_right _ _)) (Nat.le_max_right _ _)
          · exact Nat.le_max_left _ _
        rcases hcase with ⟨_, hge⟩ | ⟨_, hlt⟩
        · -- a frame that has not arrived: only possible at the first iteration
          have := h.le
          have : n ≤ 1 ∨ n ≤ Hs.length - served := by
            rcases Nat.le_total 1 (Hs.length - served) with h1 | h1
            · right; rw [Nat.max_eq_right h1] at hnle; exact hnle
            · left; rw [Nat.max_eq_left h1] at hnle; exact hnle
          omega
        · -- an overwritten frame after a frame that was still there: impossible
          apply Classical.byContradiction
          intro hne
          -- rerun the first iteration: it would have failed already
          have h0 := inputsAt_spec s Hs h.ring served
          have hq : SPECTATOR_BUFFER_SIZE = 60 := rfl
          -- the loop succeeded at iteration 0, so frame `served` was inside the window
          have : ∃ n', n = n' + 1 := ⟨n - 1, by omega⟩
          obtain ⟨n', hn'⟩ := this
          rw [hn'] at hadv
          simp only [advanceAfterPoll.loop] at hadv
          obtain ⟨r, hat, hl⟩ := bind_ok hadv
          have hfr : s.currentFrame + 1 = (served : Int) := by rw [h.cur]; omega
          rw [hfr] at hat
          obtain ⟨_, e2, _⟩ := h0 r hat
          have := e2 (by omega)
          subst this
          simp only at hl
          have := pure_ok hl
          simp only [Prod.mk.injEq] at this
          obtain ⟨hs', _⟩ := this
          rw [← hs', h.cur] at hcur
          omega
      subst hm0
      refine ⟨⟨hring', by simpa using hcur, h.le⟩, ?_⟩
      rcases hcase with ⟨a, b⟩ | ⟨a, b⟩
      · exact Or.inr (Or.inl ⟨a, by simpa using b⟩)
      · exact Or.inr (Or.inr ⟨a, by simpa using b⟩)
  · have hr : s.running = false := by simpa using hrun
    simp only [hr, Bool.not_false, if_true] at hadv
    have := pure_ok hadv
    simp only [Prod.mk.injEq] at this
    obtain ⟨hs', hres⟩ := this
    subst hs'; subst hres
    exact ⟨(fun reqs hr => by cases hr), (fun e he => by cases he; exact ⟨h, Or.inl rfl⟩)⟩

/-- Steps of a spectator: the next complete frame of the host arrives, or `advance_frame` runs. -/
inductive SpStep : (Spectator × List (List Input) × Nat) → (Spectator × List (List Input) × Nat) → Prop
  | recv (s s' : Spectator) (Hs : List (List Input)) (served : Nat) (now addr : Nat) (row : List Input) :
      row.length = s.numPlayers → recvLoop now (Hs.length : Int) addr row 0 s = .ok s' →
      SpStep (s, Hs, served) (s', Hs ++ [row], served)
  | advance (s s' : Spectator) (Hs : List (List Input)) (served : Nat) (res : Except GgrsError (List Request)) :
      s.advanceAfterPoll = .ok (s', res) →
      SpStep (s, Hs, served) (s', Hs, served + (match res with | .ok reqs => reqs.length | .error _ => 0))

inductive SpStar : (Spectator × List (List Input) × Nat) → (Spectator × List (List Input) × Nat) → Prop
  | refl (x) : SpStar x x
  | step (x y z) : SpStar x y → SpStep y z → SpStar x z

theorem SpecInv_step (x y : Spectator × List (List Input) × Nat) (h : SpecInv x.1 x.2.1 x.2.2) (hs : SpStep x y) :
    SpecInv y.1 y.2.1 y.2.2 := by
  cases hs with
  | recv s s' Hs served now addr row hrow hr =>
    obtain ⟨hring, _, hcf, _⟩ := specRing_recv s s' Hs now addr row h.ring hrow hr
    have hle : served ≤ Hs.length := h.le
    exact ⟨hring, by show s'.currentFrame = _; rw [hcf]; exact h.cur,
      by show served ≤ (Hs ++ [row]).length; simp; omega⟩
  | advance s s' Hs served res hadv =>
    obtain ⟨hok, herr⟩ := advanceAfterPoll_spec s s' Hs served res h hadv
    cases res with
    | ok reqs => exact (hok reqs rfl).2.1
    | error e => exact (herr e rfl).1

/-- **L-spectator.** The invariant holds after every interleaving of arrivals and `advance_frame`
calls. -/
theorem SpecInv_run (x y : Spectator × List (List Input) × Nat) (h : SpecInv x.1 x.2.1 x.2.2) (hr : SpStar x y) :
    SpecInv y.1 y.2.1 y.2.2 := by
  induction hr with
  | refl => exact h
  | step y z _ hs ih => exact SpecInv_step y z ih hs

end Spectator
end Ggrs
