/-
The input queue ring refines an unbounded history (L-queue).

`QSpec` is the specification of one player's input stream: a plain list `vals` (index = frame),
the last user frame and the delay. `Refines q s` says the 128-slot ring of `q` holds exactly the
last (up to) 128 entries of `s.vals`, slot `f % 128` holding frame `f`, and the bookkeeping
fields agree.
-/
import GgrsModel.Model.InputQueue
import GgrsModel.Proofs.Monad

namespace Ggrs

/-! `omega` does not see through the `Frame` abbreviation: small Int facts used below. -/
theorem int_zero_of_pred (f : Int) (h : (-1 : Int) = f - 1) : f = 0 := by omega
theorem int_succ_pred (f n : Int) (h : f = n - 1 + 1) : f = n := by omega
theorem int_pred_ne_neg_one (n : Nat) (hn : n ≠ 0) : (n : Int) - 1 ≠ -1 := by omega

theorem rget_rset_eq {α} [Inhabited α] (l : List α) (i : Nat) (v : α) (h : i < l.length) :
    rget (rset l i v) i = v := by
  simp [rget, rset, List.getD_eq_getElem?_getD, h]

theorem rget_rset_ne {α} [Inhabited α] (l : List α) (i j : Nat) (v : α) (h : i ≠ j) :
    rget (rset l i v) j = rget l j := by
  simp [rget, rset, List.getD_eq_getElem?_getD, List.getElem?_set_ne h]

theorem rset_length {α} (l : List α) (i : Nat) (v : α) : (rset l i v).length = l.length := by
  simp [rset]

/-- Specification of one player's input stream. -/
structure QSpec where
  vals : List Input := []
  lastUser : Int := -1
  delay : Nat := 0

namespace QSpec

def lastVal (s : QSpec) : Input := s.vals.getLast?.getD 0

/-- `n` consecutive frames starting at `start`, all carrying `v`. -/
def fillList (start : Int) (v : Input) : Nat → List PlayerInput
  | 0 => []
  | n + 1 => ⟨start, v⟩ :: fillList (start + 1) v n

/-- A submission for user frame `uf`: dropped unless sequential; lands on `uf + delay`; dropped if
the stream is already past that frame (delay decreased); the frames in between repeat the last value. -/
def submit (s : QSpec) (uf : Int) (v : Input) : QSpec × Frame :=
  if s.lastUser != -1 && uf != s.lastUser + 1 then (s, NULL_FRAME)
  else
    let s := { s with lastUser := uf }
    let target := uf + s.delay
    if (s.vals.length : Int) > target then (s, NULL_FRAME)
    else ({ s with vals := s.vals ++ List.replicate (target - s.vals.length).toNat s.lastVal ++ [v] }, target)

/-- A delay change: once the stream has a first entry, the frames the new delay opens up in front
of the next submission repeat the last value. Returns the new entries as (frame, value). -/
def setDelay (s : QSpec) (d : Nat) : QSpec × List PlayerInput :=
  let s := { s with delay := d }
  if s.vals.length == 0 then (s, [])
  else
    let k := (s.lastUser + 1 + d - s.vals.length).toNat
    ({ s with vals := s.vals ++ List.replicate k s.lastVal }, fillList s.vals.length s.lastVal k)

end QSpec

/-- The ring refines the specification. -/
structure Refines (q : InputQueue) (s : QSpec) : Prop where
  len : q.inputs.length = INPUT_QUEUE_LENGTH
  head : q.head = s.vals.length % INPUT_QUEUE_LENGTH
  first : q.firstFrame = (s.vals.length == 0)
  lastAdded : q.lastAddedFrame = (s.vals.length : Int) - 1
  lastUser : q.lastUserFrame = s.lastUser
  delay : q.frameDelay = s.delay
  noPrediction : q.prediction.frame = NULL_FRAME
  slots : ∀ k : Nat, k < s.vals.length → s.vals.length ≤ k + INPUT_QUEUE_LENGTH →
    rget q.inputs (k % INPUT_QUEUE_LENGTH) = ⟨(k : Int), s.vals.getD k 0⟩
  empty : s.vals.length = 0 → rget q.inputs (INPUT_QUEUE_LENGTH - 1) = PlayerInput.blank NULL_FRAME

theorem refines_new : Refines InputQueue.new {} := by
  refine ⟨by simp [InputQueue.new], rfl, rfl, rfl, rfl, rfl, rfl, ?_, ?_⟩
  · intro k hk; simp at hk
  · intro _
    simp [InputQueue.new, rget, INPUT_QUEUE_LENGTH, List.getD_eq_getElem?_getD]

theorem getLast?_getD_eq {vals : List Input} (h : vals.length > 0) :
    vals.getLast?.getD 0 = vals.getD (vals.length - 1) 0 := by
  cases vals with
  | nil => simp at h
  | cons a as =>
    simp [List.getLast?_eq_getElem?, List.getD_eq_getElem?_getD]

/-- The newest ring entry (the one `prev_pos(head)` points at) is the last value of the stream,
or the blank input before the first one. -/
theorem prev_slot (q : InputQueue) (s : QSpec) (h : Refines q s) :
    (rget q.inputs (InputQueue.prevPos q.head)).input = s.lastVal ∧
    (s.vals.length > 0 → (rget q.inputs (InputQueue.prevPos q.head)).frame = (s.vals.length : Int) - 1) := by
  have hq : INPUT_QUEUE_LENGTH = 128 := rfl
  by_cases hn : s.vals.length = 0
  · have hh : q.head = 0 := by rw [h.head, hn]; rfl
    have := h.empty hn
    simp only [InputQueue.prevPos, hh, beq_self_eq_true, if_true]
    constructor
    · rw [this]
      simp [PlayerInput.blank, QSpec.lastVal, List.length_eq_zero_iff.mp hn]
    · intro hp; omega
  · have hpos : s.vals.length > 0 := by omega
    have hslot := h.slots (s.vals.length - 1) (by omega) (by omega)
    have hprev : InputQueue.prevPos q.head = (s.vals.length - 1) % INPUT_QUEUE_LENGTH := by
      unfold InputQueue.prevPos
      rw [h.head]
      split
      · rename_i hz
        simp only [INPUT_QUEUE_LENGTH] at hz ⊢
        have hz' : s.vals.length % 128 = 0 := by simpa using hz
        omega
      · rename_i hz
        simp only [INPUT_QUEUE_LENGTH] at hz ⊢
        have hz' : ¬ s.vals.length % 128 = 0 := by simpa using hz
        omega
    rw [hprev, hslot]
    constructor
    · simp only [QSpec.lastVal]
      rw [getLast?_getD_eq hpos]
    · intro _
      show ((s.vals.length - 1 : Nat) : Int) = (s.vals.length : Int) - 1
      omega

/-- One `add_input_by_frame` at the next frame extends the stream by one entry. -/
theorem refines_addByFrame (q q' : InputQueue) (s : QSpec) (inp : PlayerInput) (f : Frame)
    (h : Refines q s) (hadd : q.addInputByFrame inp f = .ok q') :
    f = (s.vals.length : Int) ∧ Refines q' { s with vals := s.vals ++ [inp.input] } := by
  have hq : INPUT_QUEUE_LENGTH = 128 := rfl
  unfold InputQueue.addInputByFrame at hadd
  simp only at hadd
  obtain ⟨hseq, hadd⟩ := ensure_bind_ok hadd
  obtain ⟨hprevE, hadd⟩ := ensure_bind_ok hadd
  obtain ⟨hlen, hadd⟩ := ensure_bind_ok hadd
  -- not predicting
  have hnp : (q.prediction.frame != NULL_FRAME) = false := by rw [h.noPrediction]; rfl
  simp only [hnp, Bool.false_eq_true, if_false] at hadd
  have hq' := pure_ok hadd
  -- the frame is the next one
  have hf : f = (s.vals.length : Int) := by
    rw [h.lastAdded] at hseq
    by_cases hn : s.vals.length = 0
    · -- first entry: the ring is blank, so the `previous slot` assertion forces f = 0
      have hp := (prev_slot q s h)
      have hh : q.head = 0 := by rw [h.head, hn]; rfl
      have hblank := h.empty hn
      simp only [InputQueue.prevPos, hh, beq_self_eq_true, if_true] at hprevE
      rw [hblank] at hprevE
      simp [PlayerInput.blank, NULL_FRAME] at hprevE
      rw [hn]
      rcases hprevE with h1 | h1
      · exact h1
      · exact int_zero_of_pred f h1
    · simp at hseq
      rcases hseq with h1 | h1
      · exact absurd h1 (int_pred_ne_neg_one _ hn)
      · exact h1
  refine ⟨hf, ?_⟩
  subst hq'
  subst hf
  refine ⟨by simp [rset_length, h.len], ?_, ?_, ?_, ?_, ?_, ?_, ?_, ?_⟩
  · simp only [List.length_append, List.length_cons, List.length_nil]
    rw [h.head, hq]; omega
  · simp
  · simp only [List.length_append, List.length_cons, List.length_nil]
    show ((s.vals.length : Nat) : Int) = ((s.vals.length + 1 : Nat) : Int) - 1
    omega
  · exact h.lastUser
  · exact h.delay
  · exact h.noPrediction
  · intro k hk hw
    simp only [List.length_append, List.length_cons, List.length_nil] at hk hw
    have hhead : q.head < q.inputs.length := by rw [h.head, h.len, hq]; omega
    by_cases hkn : k = s.vals.length
    · subst hkn
      rw [← h.head, rget_rset_eq _ _ _ hhead]
      simp [List.getD_eq_getElem?_getD]
    · have hne : q.head ≠ k % INPUT_QUEUE_LENGTH := by rw [h.head, hq]; omega
      rw [rget_rset_ne _ _ _ _ hne, h.slots k (by omega) (by omega)]
      simp [List.getD_eq_getElem?_getD, List.getElem?_append_left (by omega : k < s.vals.length)]
  · intro hz; simp at hz

end Ggrs

namespace Ggrs

/-- The fill loop of `advance_queue_head` appends `n` copies of the replicated input. -/
theorem refines_fillLoop (toRep : PlayerInput) : ∀ (n : Nat) (q q' : InputQueue) (s : QSpec) (expected : Frame),
    Refines q s → expected = (s.vals.length : Int) →
    InputQueue.fillLoop toRep n q expected = .ok q' →
    Refines q' { s with vals := s.vals ++ List.replicate n toRep.input } := by
  intro n
  induction n with
  | zero =>
    intro q q' s expected h _ hf
    simp only [InputQueue.fillLoop] at hf
    cases hf
    simpa using h
  | succ k ih =>
    intro q q' s expected h he hf
    simp only [InputQueue.fillLoop] at hf
    obtain ⟨q1, h1, hf⟩ := bind_ok hf
    obtain ⟨_, hr1⟩ := refines_addByFrame q q1 s toRep expected h h1
    have := ih q1 q' { s with vals := s.vals ++ [toRep.input] } (expected + 1) hr1
      (by simp only [List.length_append, List.length_cons, List.length_nil]; rw [he]; push_cast; rfl) hf
    rw [List.replicate_succ]
    simpa using this

/-- The fill loop of `set_frame_delay`. -/
theorem refines_delayFillLoop (lastInput : PlayerInput) : ∀ (n : Nat) (q q' : InputQueue) (s : QSpec)
    (fills fills' : List PlayerInput),
    Refines q s → InputQueue.delayFillLoop lastInput n q fills = .ok (q', fills') →
    Refines q' { s with vals := s.vals ++ List.replicate n lastInput.input } ∧
    fills' = fills ++ QSpec.fillList s.vals.length lastInput.input n := by
  intro n
  induction n with
  | zero =>
    intro q q' s fills fills' h hf
    simp only [InputQueue.delayFillLoop] at hf
    cases hf
    exact ⟨by simpa using h, by simp [QSpec.fillList]⟩
  | succ k ih =>
    intro q q' s fills fills' h hf
    simp only [InputQueue.delayFillLoop] at hf
    obtain ⟨q1, h1, hf⟩ := bind_ok hf
    obtain ⟨hfr, hr1⟩ := refines_addByFrame q q1 s lastInput (q.lastAddedFrame + 1) h h1
    obtain ⟨hr2, hfl⟩ := ih q1 q' { s with vals := s.vals ++ [lastInput.input] } _ fills' hr1 hf
    refine ⟨by rw [List.replicate_succ]; simpa using hr2, ?_⟩
    rw [hfl, hfr]
    simp only [List.length_append, List.length_cons, List.length_nil, List.append_assoc, QSpec.fillList,
      List.singleton_append]
    congr 3

end Ggrs
