/-
L-drop (session level): rollback-mode `advance_frame`, remote-input arrivals and locally detected
drops (`disconnect_player`, the Disconnected event of an endpoint) keep the session invariant with
dead players, in either saving mode. After the first call that follows a drop, every frame of
the game's timeline beyond the dropped player's last frame carries the blank input with status
Disconnected — including the frames that had been simulated with predictions — and every frame up
to it the real input.
-/
import GgrsModel.Proofs.DropSync
import GgrsModel.Proofs.Session

namespace Ggrs
open InputQueue

/-! ### Where a new `first_incorrect_frame` can lie -/

theorem fillLoop_fi (rep : PlayerInput) : ∀ (n : Nat) (q q' : InputQueue) (expected : Frame),
    fillLoop rep n q expected = .ok q' →
    q'.firstIncorrectFrame = q.firstIncorrectFrame ∨ expected ≤ q'.firstIncorrectFrame := by
  intro n
  induction n with
  | zero => intro q q' e h; simp only [fillLoop] at h; cases h; exact Or.inl rfl
  | succ k ih =>
    intro q q' e h
    simp only [fillLoop] at h
    obtain ⟨q1, h1, h⟩ := bind_ok h
    obtain ⟨_, _, _, _, _, _, hn, hp⟩ := addByFrame_fields q q1 rep e h1
    have h1fi : q1.firstIncorrectFrame = q.firstIncorrectFrame ∨ q1.firstIncorrectFrame = e := by
      by_cases hpf : q.prediction.frame = NULL_FRAME
      · exact Or.inl (hn hpf).2
      · have := (hp hpf).2.1
        rw [this]
        split
        · exact Or.inr rfl
        · exact Or.inl rfl
    rcases ih q1 q' (e + 1) h with h2 | h2
    · rcases h1fi with h3 | h3
      · exact Or.inl (h2.trans h3)
      · exact Or.inr (by rw [h2, h3]; exact Int.le_refl _)
    · exact Or.inr (by omega)

/-- `add_input` either leaves `first_incorrect_frame` alone or sets it to a frame beyond every
frame the queue held. -/
theorem addInput_fi (q q' : InputQueue) (s : QSpec) (inp : PlayerInput) (fr : Frame)
    (hr : Refines q.strip s) (h : q.addInput inp = .ok (q', fr)) :
    q'.firstIncorrectFrame = q.firstIncorrectFrame ∨ (s.vals.length : Int) ≤ q'.firstIncorrectFrame := by
  unfold addInput at h
  split at h
  · have := pure_ok h
    simp only [Prod.mk.injEq] at this
    rw [← this.1]; exact Or.inl rfl
  · simp only at h
    obtain ⟨r, hadv, h⟩ := bind_ok h
    obtain ⟨q2, nf⟩ := r
    simp only at h
    -- advance_queue_head
    have hexp : (if q.firstFrame = true then (0 : Int) else (rget q.inputs (prevPos q.head)).frame + 1) = (s.vals.length : Int) := by
      have hf : q.firstFrame = (s.vals.length == 0) := hr.first
      have hps := (prev_slot q.strip s hr).2
      by_cases hz : s.vals.length = 0
      · rw [hf, hz]; rfl
      · have : (s.vals.length == 0) = false := by simpa using hz
        rw [hf, this]
        simp only [Bool.false_eq_true, if_false]
        have := hps (by omega)
        have e : (rget q.strip.inputs (prevPos q.strip.head)).frame = (rget q.inputs (prevPos q.head)).frame := rfl
        rw [e] at this
        rw [this]; omega
    unfold advanceQueueHead at hadv
    simp only at hadv
    rw [hexp] at hadv
    split at hadv
    · have := pure_ok hadv
      simp only [Prod.mk.injEq] at this
      obtain ⟨e1, e2⟩ := this
      subst e1; subst e2
      simp only [bne_self_eq_false, Bool.false_eq_true, if_false] at h
      have := pure_ok h
      simp only [Prod.mk.injEq] at this
      rw [← this.1]; exact Or.inl rfl
    · rename_i hge
      obtain ⟨q3, hfill, hadv⟩ := bind_ok hadv
      obtain ⟨_, hadv⟩ := ensure_bind_ok hadv
      have := pure_ok hadv
      simp only [Prod.mk.injEq] at this
      obtain ⟨e1, e2⟩ := this
      subst e1
      have hfl := fillLoop_fi _ _ _ _ _ hfill
      have hq3 : q3.firstIncorrectFrame = q.firstIncorrectFrame ∨ (s.vals.length : Int) ≤ q3.firstIncorrectFrame := hfl
      split at h
      · obtain ⟨q4, h4, h⟩ := bind_ok h
        have := pure_ok h
        simp only [Prod.mk.injEq] at this
        rw [← this.1]
        obtain ⟨_, _, _, _, _, _, hn, hp⟩ := addByFrame_fields q3 q4 inp nf h4
        have h4fi : q4.firstIncorrectFrame = q3.firstIncorrectFrame ∨ q4.firstIncorrectFrame = nf := by
          by_cases hpf : q3.prediction.frame = NULL_FRAME
          · exact Or.inl (hn hpf).2
          · have := (hp hpf).2.1
            rw [this]
            split
            · exact Or.inr rfl
            · exact Or.inl rfl
        rcases h4fi with h5 | h5
        · rw [h5]; exact hq3
        · right; rw [h5, ← e2]; omega
      · have := pure_ok h
        simp only [Prod.mk.injEq] at this
        rw [← this.1]; exact hq3

/-! ### The session invariant with dead players -/

/-- `st0` is the status list the queue invariants are relative to: the session's own list, except
that players marked disconnected since the last rollback phase (`pend`) still count as alive in
it. For each of those, either its last frame is not behind the current frame, or
`disconnect_frame` is set to a frame at or before the one after it. -/
structure SessInvD (s : P2P) (gh : DGhost) (t0 : TLState) (reqs : List Request) (st0 : List ConnStatus) : Prop where
  tinv : TInvD s.pred s.sync st0 gh t0 reqs
  marks : Marks st0 s.localConnectStatus
  asked : ∀ p, p < s.sync.queues.length → (rget s.localConnectStatus p).disconnected = false →
    Asked (rget s.sync.queues p) s.sync.currentFrame
  pend : ∀ p, p < s.sync.queues.length → (rget st0 p).disconnected = false →
    (rget s.localConnectStatus p).disconnected = true →
    s.sync.currentFrame ≤ (rget st0 p).lastFrame + 1 ∨
    (s.disconnectFrame ≠ NULL_FRAME ∧ s.disconnectFrame ≤ (rget st0 p).lastFrame + 1)
  status : ∀ p, p < s.sync.queues.length → ¬ gh.gone p →
    (rget s.localConnectStatus p).lastFrame ≤ (rget s.sync.queues p).lastAddedFrame
  remote : ∀ p, p < s.sync.queues.length → p ∉ s.localPlayerHandles →
    (gh.specs p).delay = 0 ∧ (gh.specs p).lastUser = (rget s.localConnectStatus p).lastFrame ∧
    ((gh.specs p).vals.length : Int) = (gh.specs p).lastUser + 1
  localAlive : ∀ p, p ∈ s.localPlayerHandles → (rget s.localConnectStatus p).disconnected = false
  /-- a player whose queue has been given up lies behind everything that can still trigger a rollback -/
  safe : ∀ p, p < s.sync.queues.length → gh.gone p →
    (s.disconnectFrame ≠ NULL_FRAME → (rget s.localConnectStatus p).lastFrame < s.disconnectFrame) ∧
    (∀ q, q < s.sync.queues.length → (rget s.sync.queues q).firstIncorrectFrame ≠ NULL_FRAME →
      (rget s.localConnectStatus p).lastFrame < (rget s.sync.queues q).firstIncorrectFrame) ∧
    (∀ q, q < s.sync.queues.length → (rget st0 q).disconnected = false →
      (rget s.localConnectStatus p).lastFrame < (rget s.localConnectStatus q).lastFrame)
  dfok : s.disconnectFrame = NULL_FRAME ∨ 0 ≤ s.disconnectFrame
  /-- nothing is ever added to a dead player's queue: once through a rollback phase it flags nothing -/
  deadClean : ∀ p, p < s.sync.queues.length → (rget st0 p).disconnected = true →
    (rget s.sync.queues p).firstIncorrectFrame = NULL_FRAME
  /-- sparse saving: the state to roll back to lies beyond every given-up player's last frame -/
  saved : s.sparse = true → ∀ p, p < s.sync.queues.length → gh.gone p →
    (rget s.localConnectStatus p).lastFrame < s.sync.lastSavedFrame

theorem SessInvD_congr (s s' : P2P) (gh : DGhost) (t0 : TLState) (reqs : List Request) (st0 : List ConnStatus)
    (h : SessInvD s gh t0 reqs st0) (hc : P2P.SameCore s s') : SessInvD s' gh t0 reqs st0 := by
  have hlp : s'.localPlayerHandles = s.localPlayerHandles := by unfold P2P.localPlayerHandles; rw [hc.handles]
  exact ⟨by rw [hc.pred, hc.sync]; exact h.tinv, by rw [hc.statuses]; exact h.marks,
    by rw [hc.sync, hc.statuses]; exact h.asked, by rw [hc.sync, hc.statuses, hc.disconnectFrame]; exact h.pend,
    by rw [hc.sync, hc.statuses]; exact h.status, by rw [hc.sync, hc.statuses, hlp]; exact h.remote,
    by rw [hc.statuses, hlp]; exact h.localAlive,
    by rw [hc.sync, hc.statuses, hc.disconnectFrame]; exact h.safe, by rw [hc.disconnectFrame]; exact h.dfok,
    by rw [hc.sync]; exact h.deadClean, by rw [hc.sparse, hc.sync, hc.statuses]; exact h.saved⟩

/-- The invariant only reads these parts of the session. -/
theorem SessInvD_sameQueues (s s2 : P2P) (gh : DGhost) (t : TLState) (reqs : List Request) (st0 : List ConnStatus)
    (h : SessInvD s gh t reqs st0)
    (hq : s2.sync.queues = s.sync.queues) (hc : s2.sync.currentFrame = s.sync.currentFrame)
    (hls : s2.sync.lastSavedFrame = s.sync.lastSavedFrame)
    (hp : s2.pred = s.pred) (hst : s2.localConnectStatus = s.localConnectStatus) (hh : s2.handles = s.handles)
    (hsp : s2.sparse = s.sparse) (hdf : s2.disconnectFrame = s.disconnectFrame) :
    SessInvD s2 gh t reqs st0 := by
  have hlp : s2.localPlayerHandles = s.localPlayerHandles := by unfold P2P.localPlayerHandles; rw [hh]
  refine ⟨⟨?_, by rw [hc]; exact h.tinv.exec, by rw [hq]; exact h.tinv.rows, by rw [hq, hc]; exact h.tinv.deadRows⟩,
    by rw [hst]; exact h.marks, by rw [hq, hc, hst]; exact h.asked, by rw [hq, hc, hst, hdf]; exact h.pend,
    by rw [hq, hst]; exact h.status, by rw [hq, hst, hlp]; exact h.remote, by rw [hst, hlp]; exact h.localAlive,
    by rw [hq, hst, hdf]; exact h.safe, by rw [hdf]; exact h.dfok, by rw [hq]; exact h.deadClean,
    by rw [hsp, hq, hst, hls]; exact h.saved⟩
  rw [hp]
  exact SyncInvD_congr h.tinv.sync hq hc

theorem SessInvD_userExecute (s : P2P) (gh : DGhost) (t0 : TLState) (reqs : List Request) (st0 : List ConnStatus)
    (saves : List (Frame × Option Nat)) (h : SessInvD s gh t0 reqs st0) : SessInvD (s.userExecute saves) gh t0 reqs st0 := by
  obtain ⟨uq, uc, _, up, ust, uh, usp⟩ := userExecute_fields s saves
  exact SessInvD_sameQueues s _ gh t0 reqs st0 h uq uc (userExecute_lastSaved s saves) up ust uh usp rfl

theorem SessInvD_pending (s : P2P) (gh : DGhost) (t0 : TLState) (reqs : List Request) (st0 : List ConnStatus)
    (l : List (Nat × PlayerInput)) (h : SessInvD s gh t0 reqs st0) :
    SessInvD { s with pendingLocalInputs := l } gh t0 reqs st0 :=
  ⟨h.tinv, h.marks, h.asked, h.pend, h.status, h.remote, h.localAlive, h.safe, h.dfok, h.deadClean, h.saved⟩

/-- `confirmed_frame` is at most every connected player's last frame. -/
theorem confirmedFrame_leD (s : P2P) (c : Frame) (h : s.confirmedFrame = .ok c) :
    ∀ p, p < s.localConnectStatus.length → (rget s.localConnectStatus p).disconnected = false →
      c ≤ (rget s.localConnectStatus p).lastFrame := by
  unfold P2P.confirmedFrame at h
  simp only at h
  obtain ⟨_, h⟩ := ensure_bind_ok h
  have := pure_ok h
  subst this
  have key : ∀ (l : List ConnStatus) (m : Int),
      l.foldl (fun m cs => if !cs.disconnected then min m cs.lastFrame else m) m ≤ m ∧
      ∀ cs ∈ l, cs.disconnected = false →
        l.foldl (fun m cs => if !cs.disconnected then min m cs.lastFrame else m) m ≤ cs.lastFrame := by
    intro l
    induction l with
    | nil => intro m; exact ⟨Int.le_refl _, fun cs hcs => by cases hcs⟩
    | cons x xs ih =>
      intro m
      simp only [List.foldl_cons]
      obtain ⟨h1, h2⟩ := ih (if !x.disconnected then min m x.lastFrame else m)
      have hle : (if (!x.disconnected) = true then min m x.lastFrame else m) ≤ m := by
        split
        · exact Int.min_le_left _ _
        · exact Int.le_refl _
      refine ⟨Int.le_trans h1 hle, ?_⟩
      intro cs hcs hconn
      rcases List.mem_cons.mp hcs with rfl | hin
      · refine Int.le_trans h1 ?_
        simp only [hconn, Bool.not_false, if_true]
        exact Int.min_le_right _ _
      · exact h2 cs hin hconn
  intro p hp hconn
  exact (key s.localConnectStatus _).2 _ (mem_of_rget _ _ hp) hconn

/-- After the rollback phase nothing is pending any more. -/
theorem SessInvD_of_settledD (s s' : P2P) (gh gh' : DGhost) (t0 : TLState) (reqs reqs' : List Request)
    (st0 : List ConnStatus) (h : SessInvD s gh t0 reqs st0) (hs : SettledD s s' gh gh' t0 reqs') :
    SessInvD s' gh' t0 reqs' s'.localConnectStatus := by
  have hlp : s'.localPlayerHandles = s.localPlayerHandles := by unfold P2P.localPlayerHandles; rw [hs.rest.1]
  refine ⟨by rw [hs.pred, hs.statuses]; exact hs.inv, Marks.refl _,
    by rw [hs.statuses]; exact hs.asked, ?_, ?_, ?_, by rw [hs.statuses, hlp]; exact h.localAlive, ?_, Or.inl hs.df,
    fun p hp _ => hs.clean p hp,
    fun hsp p hp hg => by
      rw [hs.statuses]
      exact hs.saved (by rw [← hs.sparse]; exact hsp) p (by rw [← hs.nq]; exact hp) (by rw [← hs.gone]; exact hg)⟩
  · intro p _ h0 h1
    rw [h0] at h1; cases h1
  · intro p hp hng
    have hp0 : p < s.sync.queues.length := by rw [← hs.nq]; exact hp
    have hng0 : ¬ gh.gone p := by rw [← hs.gone]; exact hng
    rw [hs.statuses, lastAdded_of_QI (hs.inv.sync.live p hp hng), hs.specs,
      ← lastAdded_of_QI (h.tinv.sync.live p hp0 hng0)]
    exact h.status p hp0 hng0
  · intro p hp hnl
    have hp0 : p < s.sync.queues.length := by rw [← hs.nq]; exact hp
    rw [hs.specs, hs.statuses]
    exact h.remote p hp0 (by rw [← hlp]; exact hnl)
  · intro p hp hg
    have hp0 : p < s.sync.queues.length := by rw [← hs.nq]; exact hp
    have hg0 : gh.gone p := by rw [← hs.gone]; exact hg
    refine ⟨fun hne => absurd hs.df hne, fun q hq hne => absurd (hs.clean q hq) hne, ?_⟩
    intro q hq hc
    rw [hs.statuses] at hc ⊢
    have hc0 : (rget st0 q).disconnected = false := by
      cases hx : (rget st0 q).disconnected with
      | false => rfl
      | true => have := h.marks.mono q hx; rw [hc] at this; cases this
    exact (h.safe p hp0 hg0).2.2 q (by rw [← hs.nq]; exact hq) hc0

theorem asked_dead (q : InputQueue) (cs : ConnStatus) (cur : Int) (hd : cs.disconnected = true)
    (hst : cs.lastFrame ≤ q.lastAddedFrame) : Asked q (pcur cs cur) := by
  intro _
  right
  unfold pcur
  rw [if_pos hd]
  omega

/-- **`set_last_confirmed_frame` with dead players.** Right after the rollback phase (every queue
clean, no pending disconnect): the queues of connected players and of dead players whose last frame
has not been passed are trimmed as before; a dead player's queue that the confirmed frame has
passed is emptied — that player is `gone` from now on. -/
theorem setLastConfirmed_specD (s : P2P) (sy' : SyncLayer) (gh : DGhost) (t0 : TLState) (reqs : List Request)
    (frame : Frame) (h : SessInvD s gh t0 reqs s.localConnectStatus)
    (hclean : ∀ p, p < s.sync.queues.length → (rget s.sync.queues p).firstIncorrectFrame = NULL_FRAME)
    (hdf : s.disconnectFrame = NULL_FRAME)
    (hright : TimelineRightD s.sync s.localConnectStatus gh)
    (hle : ∀ p, p < s.sync.queues.length → (rget s.localConnectStatus p).disconnected = false →
      frame ≤ (rget s.localConnectStatus p).lastFrame)
    (hset : s.sync.setLastConfirmedFrame frame s.sparse = .ok sy') :
    ∃ gh' : DGhost, SessInvD { s with sync := sy' } gh' t0 reqs s.localConnectStatus ∧
      gh'.specs = gh.specs ∧ gh'.T = gh.T ∧ (∀ p, gh.gone p → gh'.gone p) ∧
      sy'.currentFrame = s.sync.currentFrame ∧ sy'.queues.length = s.sync.queues.length ∧
      (∀ p, p < sy'.queues.length → (rget sy'.queues p).firstIncorrectFrame = NULL_FRAME) := by
  unfold SyncLayer.setLastConfirmedFrame at hset
  simp only at hset
  generalize hfr : min (if s.sparse = true then min frame s.sync.lastSavedFrame else frame) s.sync.currentFrame = fr at hset
  have hfrle : fr ≤ frame := by
    rw [← hfr]
    split
    · exact Int.le_trans (Int.min_le_left _ _) (Int.min_le_left _ _)
    · exact Int.min_le_left _ _
  have hfrcur : fr ≤ s.sync.currentFrame := by rw [← hfr]; exact Int.min_le_right _ _
  have hfrls : s.sparse = true → fr ≤ s.sync.lastSavedFrame := by
    intro hsp
    rw [← hfr, if_pos hsp]
    exact Int.le_trans (Int.min_le_left _ _) (Int.min_le_right _ _)
  obtain ⟨_, hset⟩ := ensure_bind_ok hset
  by_cases hpos : fr > 0
  · simp only [hpos, if_true] at hset
    obtain ⟨qs, hmap, hset⟩ := bind_ok hset
    have := pure_ok hset
    subst this
    obtain ⟨hl, hpt⟩ := mapM_ok _ _ _ hmap
    -- who is given up now
    let gone' : Nat → Prop := fun p => gh.gone p ∨
      (p < s.sync.queues.length ∧ (rget s.localConnectStatus p).disconnected = true ∧
        ¬ (fr - 1 < (rget s.sync.queues p).lastAddedFrame))
    have hfields : ∀ p, p < s.sync.queues.length →
        (rget qs p).firstIncorrectFrame = (rget s.sync.queues p).firstIncorrectFrame :=
      fun p hp => (discard_fields _ _ _ (hpt p hp)).2.1
    have hlive : ∀ p, p < s.sync.queues.length → ¬ gone' p →
        QI s.pred (rget qs p) (gh.specs p) (gh.hists p) (gh.T p) (pcur (rget s.localConnectStatus p) s.sync.currentFrame) ∧
        Asked (rget qs p) (pcur (rget s.localConnectStatus p) s.sync.currentFrame) := by
      intro p hp hng
      have hng0 : ¬ gh.gone p := fun hg => hng (Or.inl hg)
      have hst := h.status p hp hng0
      by_cases hd : (rget s.localConnectStatus p).disconnected = true
      · have hlt : fr - 1 < (rget s.sync.queues p).lastAddedFrame := by
          by_cases hx : fr - 1 < (rget s.sync.queues p).lastAddedFrame
          · exact hx
          · exact absurd (Or.inr ⟨hp, hd, hx⟩) hng
        exact QI_discard s.pred _ _ _ _ _ _ (fr - 1) (h.tinv.sync.live p hp hng0) (asked_dead _ _ _ hd hst) hlt (hpt p hp)
      · have hc : (rget s.localConnectStatus p).disconnected = false := by simpa using hd
        have hlt : fr - 1 < (rget s.sync.queues p).lastAddedFrame := by
          have := hle p hp hc
          omega
        have hpc : pcur (rget s.localConnectStatus p) s.sync.currentFrame = s.sync.currentFrame := by
          unfold pcur; rw [if_neg hd]
        have hq := h.tinv.sync.live p hp hng0
        rw [hpc] at hq ⊢
        exact QI_discard s.pred _ _ _ _ _ _ (fr - 1) hq (h.asked p hp hc) hlt (hpt p hp)
    have hsaved : s.sparse = true → ∀ p, p < qs.length → gone' p →
        (rget s.localConnectStatus p).lastFrame < s.sync.lastSavedFrame := by
      intro hsp p hp hg
      have hp0 : p < s.sync.queues.length := by rw [← hl]; exact hp
      by_cases hg0 : gh.gone p
      · exact h.saved hsp p hp0 hg0
      · rcases hg with hg | ⟨_, hd, hx⟩
        · exact absurd hg hg0
        · have hst := h.status p hp0 hg0
          have := hfrls hsp
          omega
    refine ⟨⟨gh.specs, gh.hists, gh.T, gone'⟩, ⟨⟨⟨h.tinv.sync.cur, by show _ = qs.length; rw [hl]; exact h.tinv.sync.nq, ?_, ?_⟩,
      h.tinv.exec, ?_, ?_⟩, Marks.refl _, ?_, ?_, ?_, ?_, h.localAlive, ?_, h.dfok,
      fun p hp _ => by
        have hp0 : p < s.sync.queues.length := by rw [← hl]; exact hp
        show (rget qs p).firstIncorrectFrame = NULL_FRAME
        rw [hfields p hp0]; exact hclean p hp0, hsaved⟩, rfl, rfl, fun p hg => Or.inl hg, rfl, hl, ?_⟩
    · -- gone
      intro p hp hg
      have hp0 : p < s.sync.queues.length := by rw [← hl]; exact hp
      show GoneOk (rget qs p) _ _ _ s.sync.currentFrame
      rcases hg with hg | ⟨_, hd, hx⟩
      · have hgo := h.tinv.sync.gone p hp0 hg
        exact ⟨hgo.dead, hgo.lt, by rw [hfields p hp0]; exact hgo.clean, hgo.right,
          refines_discard_any _ _ _ _ hgo.ring (hpt p hp0)⟩
      · by_cases hg0 : gh.gone p
        · have hgo := h.tinv.sync.gone p hp0 hg0
          exact ⟨hgo.dead, hgo.lt, by rw [hfields p hp0]; exact hgo.clean, hgo.right,
            refines_discard_any _ _ _ _ hgo.ring (hpt p hp0)⟩
        · have hst := h.status p hp0 hg0
          have hlt : (rget s.localConnectStatus p).lastFrame < s.sync.currentFrame := by omega
          refine ⟨hd, hlt, by rw [hfields p hp0]; exact hclean p hp0, ?_,
            refines_discard_any _ _ _ _ (h.tinv.sync.live p hp0 hg0).ring (hpt p hp0)⟩
          intro f hf hlen
          exact hright p hp0 f (by omega) hlen (fun _ => hf)
    · intro p hp hng
      exact (hlive p (by rw [← hl]; exact hp) hng).1
    · intro p hp f
      exact h.tinv.rows p (by rw [← hl]; exact hp) f
    · intro p hp hd f hlf hfc
      exact h.tinv.deadRows p (by rw [← hl]; exact hp) hd f hlf hfc
    · -- asked
      intro p hp hc
      have hp0 : p < s.sync.queues.length := by rw [← hl]; exact hp
      have hng : ¬ gone' p := by
        rintro (hg | ⟨_, hd, _⟩)
        · have := (h.tinv.sync.gone p hp0 hg).dead; rw [hc] at this; cases this
        · rw [hc] at hd; cases hd
      have := (hlive p hp0 hng).2
      have hpc : pcur (rget s.localConnectStatus p) s.sync.currentFrame = s.sync.currentFrame := by
        unfold pcur; rw [if_neg (by rw [hc]; simp)]
      rw [hpc] at this
      exact this
    · intro p _ h0 h1
      rw [h0] at h1; cases h1
    · -- status
      intro p hp hng
      have hp0 : p < s.sync.queues.length := by rw [← hl]; exact hp
      have hng0 : ¬ gh.gone p := fun hg => hng (Or.inl hg)
      show (rget s.localConnectStatus p).lastFrame ≤ (rget qs p).lastAddedFrame
      rw [lastAdded_of_QI (hlive p hp0 hng).1, ← lastAdded_of_QI (h.tinv.sync.live p hp0 hng0)]
      exact h.status p hp0 hng0
    · intro p hp hnl
      exact h.remote p (by rw [← hl]; exact hp) hnl
    · -- safe
      intro p hp hg
      have hp0 : p < s.sync.queues.length := by rw [← hl]; exact hp
      refine ⟨fun hne => absurd hdf hne, ?_, ?_⟩
      · intro q hq hne
        have hq0 : q < s.sync.queues.length := by rw [← hl]; exact hq
        have : (rget qs q).firstIncorrectFrame = NULL_FRAME := by rw [hfields q hq0]; exact hclean q hq0
        exact absurd this hne
      · intro q hq hc
        have hq0 : q < s.sync.queues.length := by rw [← hl]; exact hq
        by_cases hg0 : gh.gone p
        · exact (h.safe p hp0 hg0).2.2 q hq0 hc
        · rcases hg with hg | ⟨_, hd, hx⟩
          · exact absurd hg hg0
          · have hst := h.status p hp0 hg0
            have := hle q hq0 hc
            show (rget s.localConnectStatus p).lastFrame < (rget s.localConnectStatus q).lastFrame
            omega
    · intro p hp
      have hp0 : p < s.sync.queues.length := by rw [← hl]; exact hp
      rw [hfields p hp0]; exact hclean p hp0
  · simp only [hpos, if_false] at hset
    have := pure_ok hset
    subst this
    exact ⟨gh, ⟨⟨SyncInvD_congr h.tinv.sync rfl rfl, h.tinv.exec, h.tinv.rows, h.tinv.deadRows⟩, h.marks,
      h.asked, h.pend, h.status, h.remote, h.localAlive, h.safe, h.dfok, h.deadClean, h.saved⟩, rfl, rfl, fun _ hg => hg, rfl, rfl, hclean⟩

/-- Replacing the queue, stream and last frame of one connected player. -/
theorem SessInvD_update (s : P2P) (gh : DGhost) (t0 : TLState) (reqs : List Request) (st0 : List ConnStatus)
    (h : SessInvD s gh t0 reqs st0)
    (p : Nat) (hp : p < s.sync.queues.length) (hc : (rget s.localConnectStatus p).disconnected = false)
    (q' : InputQueue) (sp' : QSpec) (lf : Frame)
    (hqi : QI s.pred q' sp' (gh.hists p) (gh.T p) s.sync.currentFrame) (hask : Asked q' s.sync.currentFrame)
    (hlf : (rget s.localConnectStatus p).lastFrame ≤ lf) (hst : lf ≤ q'.lastAddedFrame)
    (hrem : p ∉ s.localPlayerHandles → sp'.delay = 0 ∧ sp'.lastUser = lf ∧ (sp'.vals.length : Int) = sp'.lastUser + 1)
    (hfi : q'.firstIncorrectFrame = (rget s.sync.queues p).firstIncorrectFrame ∨
      (rget s.localConnectStatus p).lastFrame < q'.firstIncorrectFrame) :
    SessInvD { s with sync := { s.sync with queues := rset s.sync.queues p q' },
                      localConnectStatus := rset s.localConnectStatus p ⟨false, lf⟩ }
      { gh with specs := fun i => if i = p then sp' else gh.specs i } t0 reqs (rset st0 p ⟨false, lf⟩) := by
  have hlen : (rset s.sync.queues p q').length = s.sync.queues.length := rset_length _ _ _
  have hn0 : st0.length = s.sync.queues.length := h.tinv.sync.nq
  have hn1 : s.localConnectStatus.length = s.sync.queues.length := by rw [h.marks.len]; exact hn0
  have hp0 : p < st0.length := by rw [hn0]; exact hp
  have hp1 : p < s.localConnectStatus.length := by rw [hn1]; exact hp
  have hc0 : (rget st0 p).disconnected = false := by
    cases hx : (rget st0 p).disconnected with
    | false => rfl
    | true => have := h.marks.mono p hx; rw [hc] at this; cases this
  have hngp : ¬ gh.gone p := fun hg => by
    have := (h.tinv.sync.gone p hp hg).dead; rw [hc0] at this; cases this
  have hne : ∀ i, gh.gone i → i ≠ p := fun i hg hip => hngp (hip ▸ hg)
  have hsaved : s.sparse = true → ∀ g, g < (rset s.sync.queues p q').length → gh.gone g →
      (rget (rset s.localConnectStatus p (⟨false, lf⟩ : ConnStatus)) g).lastFrame < s.sync.lastSavedFrame := by
    intro hsp g hg hgg
    rw [hlen] at hg
    have hgp : g ≠ p := hne g hgg
    rw [rget_rset_ne _ _ _ _ (fun h => hgp h.symm)]
    exact h.saved hsp g hg hgg
  refine ⟨⟨⟨h.tinv.sync.cur, by rw [rset_length, hlen]; exact hn0, ?_, ?_⟩, h.tinv.exec, ?_, ?_⟩, ⟨?_, ?_, ?_⟩,
    ?_, ?_, ?_, ?_, ?_, ?_, h.dfok, ?_, hsaved⟩
  rotate_right
  · intro i hi hd
    show (rget (rset s.sync.queues p q') i).firstIncorrectFrame = NULL_FRAME
    rw [hlen] at hi
    by_cases hip : i = p
    · subst hip; rw [rget_rset_eq _ _ _ hp0] at hd; cases hd
    · rw [rget_rset_ne _ _ _ _ (fun h => hip h.symm)] at hd ⊢
      exact h.deadClean i hi hd
  · intro i hi hg
    have hip : i ≠ p := hne i hg
    show GoneOk (rget (rset s.sync.queues p q') i) (rget (rset st0 p _) i) (if i = p then sp' else gh.specs i) (gh.T i) _
    rw [hlen] at hi
    rw [rget_rset_ne _ _ _ _ (fun h => hip h.symm), rget_rset_ne _ _ _ _ (fun h => hip h.symm), if_neg hip]
    exact h.tinv.sync.gone i hi hg
  · intro i hi hng
    show QI s.pred (rget (rset s.sync.queues p q') i) (if i = p then sp' else gh.specs i) (gh.hists i) (gh.T i)
      (pcur (rget (rset st0 p _) i) s.sync.currentFrame)
    rw [hlen] at hi
    by_cases hip : i = p
    · subst hip
      rw [rget_rset_eq _ _ _ hi, rget_rset_eq _ _ _ hp0, if_pos rfl]
      have : pcur (⟨false, lf⟩ : ConnStatus) s.sync.currentFrame = s.sync.currentFrame := by
        unfold pcur; simp
      rw [this]; exact hqi
    · rw [rget_rset_ne _ _ _ _ (fun h => hip h.symm), rget_rset_ne _ _ _ _ (fun h => hip h.symm), if_neg hip]
      exact h.tinv.sync.live i hi hng
  · intro i hi f
    exact h.tinv.rows i (by rw [← hlen]; exact hi) f
  · intro i hi hd f hlf' hfc
    have hi0 : i < s.sync.queues.length := by rw [← hlen]; exact hi
    by_cases hip : i = p
    · subst hip
      rw [rget_rset_eq _ _ _ hp0] at hd; cases hd
    · rw [rget_rset_ne _ _ _ _ (fun h => hip h.symm)] at hd hlf'
      exact h.tinv.deadRows i hi0 hd f hlf' hfc
  · show (rset s.localConnectStatus p _).length = (rset st0 p _).length
    rw [rset_length, rset_length]; exact h.marks.len
  · intro i
    show (rget (rset s.localConnectStatus p _) i).lastFrame = (rget (rset st0 p _) i).lastFrame
    by_cases hip : i = p
    · subst hip; rw [rget_rset_eq _ _ _ hp1, rget_rset_eq _ _ _ hp0]
    · rw [rget_rset_ne _ _ _ _ (fun h => hip h.symm), rget_rset_ne _ _ _ _ (fun h => hip h.symm)]; exact h.marks.last i
  · intro i hd
    show (rget (rset s.localConnectStatus p _) i).disconnected = true
    by_cases hip : i = p
    · subst hip; rw [rget_rset_eq _ _ _ hp0] at hd; cases hd
    · rw [rget_rset_ne _ _ _ _ (fun h => hip h.symm)] at hd ⊢; exact h.marks.mono i hd
  · intro i hi hci
    show Asked (rget (rset s.sync.queues p q') i) _
    rw [hlen] at hi
    by_cases hip : i = p
    · subst hip; rw [rget_rset_eq _ _ _ hi]; exact hask
    · have hci' : (rget s.localConnectStatus i).disconnected = false := by
        have : (rget (rset s.localConnectStatus p (⟨false, lf⟩ : ConnStatus)) i).disconnected = false := hci
        rwa [rget_rset_ne _ _ _ _ (fun h => hip h.symm)] at this
      rw [rget_rset_ne _ _ _ _ (fun h => hip h.symm)]; exact h.asked i hi hci'
  · intro i hi h0 h1
    rw [hlen] at hi
    have h1' : (rget (rset s.localConnectStatus p (⟨false, lf⟩ : ConnStatus)) i).disconnected = true := h1
    by_cases hip : i = p
    · subst hip; rw [rget_rset_eq _ _ _ hp1] at h1'; cases h1'
    · rw [rget_rset_ne _ _ _ _ (fun h => hip h.symm)] at h0 h1' ⊢
      exact h.pend i hi h0 h1'
  · intro i hi hng
    show (rget (rset s.localConnectStatus p _) i).lastFrame ≤ (rget (rset s.sync.queues p q') i).lastAddedFrame
    rw [hlen] at hi
    by_cases hip : i = p
    · subst hip; rw [rget_rset_eq _ _ _ hp1, rget_rset_eq _ _ _ hi]; exact hst
    · rw [rget_rset_ne _ _ _ _ (fun h => hip h.symm), rget_rset_ne _ _ _ _ (fun h => hip h.symm)]
      exact h.status i hi hng
  · intro i hi hnl
    show (if i = p then sp' else gh.specs i).delay = 0 ∧ (if i = p then sp' else gh.specs i).lastUser =
      (rget (rset s.localConnectStatus p _) i).lastFrame ∧ _
    rw [hlen] at hi
    by_cases hip : i = p
    · subst hip
      simp only [if_true]
      rw [rget_rset_eq _ _ _ hp1]
      exact hrem hnl
    · simp only [hip, if_false]
      rw [rget_rset_ne _ _ _ _ (fun h => hip h.symm)]
      exact h.remote i hi hnl
  · intro i hil
    show (rget (rset s.localConnectStatus p _) i).disconnected = false
    by_cases hip : i = p
    · subst hip; rw [rget_rset_eq _ _ _ hp1]
    · rw [rget_rset_ne _ _ _ _ (fun h => hip h.symm)]; exact h.localAlive i hil
  · intro g hg hgg
    rw [hlen] at hg
    have hgp : g ≠ p := hne g hgg
    have hs := h.safe g hg hgg
    show ((s.disconnectFrame ≠ NULL_FRAME → (rget (rset s.localConnectStatus p _) g).lastFrame < s.disconnectFrame) ∧
      (∀ q, q < (rset s.sync.queues p q').length → (rget (rset s.sync.queues p q') q).firstIncorrectFrame ≠ NULL_FRAME →
        (rget (rset s.localConnectStatus p _) g).lastFrame < (rget (rset s.sync.queues p q') q).firstIncorrectFrame) ∧
      (∀ q, q < (rset s.sync.queues p q').length → (rget (rset st0 p (⟨false, lf⟩ : ConnStatus)) q).disconnected = false →
        (rget (rset s.localConnectStatus p _) g).lastFrame < (rget (rset s.localConnectStatus p _) q).lastFrame))
    rw [rget_rset_ne _ _ _ _ (fun h => hgp h.symm), hlen]
    refine ⟨hs.1, ?_, ?_⟩
    · intro q hq hne'
      by_cases hqp : q = p
      · subst hqp
        rw [rget_rset_eq _ _ _ hq] at hne' ⊢
        have h3 := hs.2.2 q hq hc0
        rcases hfi with hx | hx
        · rw [hx] at hne' ⊢; exact hs.2.1 q hq hne'
        · omega
      · rw [rget_rset_ne _ _ _ _ (fun h => hqp h.symm)] at hne' ⊢
        exact hs.2.1 q hq hne'
    · intro q hq hcq
      by_cases hqp : q = p
      · subst hqp
        rw [rget_rset_eq _ _ _ hp1]
        have h3 := hs.2.2 q hq hc0
        show _ < lf
        omega
      · rw [rget_rset_ne _ _ _ _ (fun h => hqp h.symm)] at hcq
        rw [rget_rset_ne _ _ _ _ (fun h => hqp h.symm)]
        exact hs.2.2 q hq hcq

theorem connStatus_eta (c : ConnStatus) (lf : Frame) (hc : c.disconnected = false) :
    ({ c with lastFrame := lf } : ConnStatus) = ⟨false, lf⟩ := by
  cases c; simp_all

/-- **Arrival of a remote input with dead players**: ignored for a player marked disconnected,
otherwise as before (other players' disconnects may be pending). -/
theorem remoteInput_specD (s s' : P2P) (gh : DGhost) (t0 : TLState) (reqs : List Request) (st0 : List ConnStatus)
    (now : Nat) (inp : PlayerInput) (player : Nat) (handles : List Nat) (addr : Nat)
    (h : SessInvD s gh t0 reqs st0) (hnl : player ∉ s.localPlayerHandles) (h0 : 0 ≤ inp.frame)
    (hev : s.handleEventCore now (.input inp player) handles addr = .ok s') :
    ∃ gh' st0', SessInvD s' gh' t0 reqs st0' ∧ gh'.T = gh.T ∧ gh'.gone = gh.gone ∧
      s'.sync.currentFrame = s.sync.currentFrame ∧ s'.handles = s.handles ∧ s'.pred = s.pred ∧
      s'.sync.queues.length = s.sync.queues.length ∧ s'.disconnectFrame = s.disconnectFrame ∧
      (∀ p, (gh.specs p).vals.length ≤ (gh'.specs p).vals.length) ∧
      (∀ p, (rget s'.localConnectStatus p).disconnected = (rget s.localConnectStatus p).disconnected) ∧
      (∀ p, (rget s.localConnectStatus p).disconnected = true → rget s'.localConnectStatus p = rget s.localConnectStatus p) ∧
      (∀ p, p ≠ player → gh'.specs p = gh.specs p) := by
  unfold P2P.handleEventCore at hev
  simp only at hev
  obtain ⟨_, hev⟩ := ensure_bind_ok hev
  by_cases hd : (rget s.localConnectStatus player).disconnected = true
  · simp only [hd, Bool.not_true, Bool.false_eq_true, if_false] at hev
    have := pure_ok hev
    subst this
    exact ⟨gh, st0, h, rfl, rfl, rfl, rfl, rfl, rfl, rfl, fun _ => Nat.le_refl _, fun _ => rfl, fun _ _ => rfl, fun _ _ => rfl⟩
  have hnd : (rget s.localConnectStatus player).disconnected = false := by simpa using hd
  simp only [hnd, Bool.not_false, if_true] at hev
  obtain ⟨hseq, hev⟩ := ensure_bind_ok hev
  obtain ⟨sy, hadd, hev⟩ := bind_ok hev
  have := pure_ok hev
  subst this
  unfold SyncLayer.addRemoteInput at hadd
  obtain ⟨hpl, hadd⟩ := ensure_bind_ok hadd
  have hp : player < s.sync.queues.length := of_decide_eq_true hpl
  obtain ⟨r, haq, hadd⟩ := bind_ok hadd
  obtain ⟨q', fr⟩ := r
  simp only at hadd
  have := pure_ok hadd
  subst this
  have haq' : (rget s.sync.queues player).addInput ⟨inp.frame, inp.input⟩ = .ok (q', fr) := haq
  have hc0 : (rget st0 player).disconnected = false := by
    cases hx : (rget st0 player).disconnected with
    | false => rfl
    | true => have := h.marks.mono player hx; rw [hnd] at this; cases this
  have hng : ¬ gh.gone player := fun hg => by
    have := (h.tinv.sync.gone player hp hg).dead; rw [hc0] at this; cases this
  have hq0 := h.tinv.sync.live player hp hng
  have hpc : pcur (rget st0 player) s.sync.currentFrame = s.sync.currentFrame := by
    unfold pcur; rw [if_neg (by rw [hc0]; simp)]
  rw [hpc] at hq0
  obtain ⟨hqi, hask, hfr⟩ := QI_add s.pred _ q' _ _ _ _ inp.frame inp.input fr hq0 (h.asked player hp hnd) haq'
  obtain ⟨hdl, hlu, hlen⟩ := h.remote player hp hnl
  have hseq' : (gh.specs player).lastUser = -1 ∨ inp.frame = (gh.specs player).lastUser + 1 := by
    rw [hlu]
    simp only [Bool.or_eq_true, beq_iff_eq] at hseq
    rcases hseq with h1 | h1
    · left; exact h1
    · right; omega
  obtain ⟨hd', hlu', hlen'⟩ := submit_remote (gh.specs player) inp.frame inp.input h0 hdl hseq' hlen
  have hst : inp.frame ≤ q'.lastAddedFrame := by
    rw [lastAdded_of_QI hqi]; omega
  have hlf : (rget s.localConnectStatus player).lastFrame ≤ inp.frame := by
    rw [← hlu]; rcases hseq' with h1 | h1 <;> omega
  have hfi := addInput_fi _ q' _ ⟨inp.frame, inp.input⟩ fr hq0.ring haq'
  have hupd := SessInvD_update s gh t0 reqs st0 h player hp hnd q' _ inp.frame hqi hask hlf hst
    (fun _ => ⟨hd', hlu', by rw [hlu']; exact hlen'⟩)
    (by rcases hfi with hx | hx
        · exact Or.inl hx
        · right; rw [← hlu]; omega)
  refine ⟨{ gh with specs := fun i => if i = player then ((gh.specs player).submit inp.frame inp.input).1 else gh.specs i },
    rset st0 player ⟨false, inp.frame⟩, ?_, rfl, rfl, rfl, rfl, rfl, rset_length _ _ _, rfl, ?_, ?_, ?_,
    fun p hp => by show (if p = player then _ else gh.specs p) = _; rw [if_neg hp]⟩
  rotate_left
  · intro p
    show _ ≤ (if p = player then _ else gh.specs p).vals.length
    by_cases hpp : p = player
    · subst hpp; simp only [if_true]; exact (submit_facts (gh.specs p) inp.frame inp.input).1
    · simp only [hpp, if_false]; exact Nat.le_refl _
  · intro p
    have e := connStatus_eta (rget s.localConnectStatus player) inp.frame hnd
    show (rget (rset s.localConnectStatus player _) p).disconnected = _
    by_cases hpp : p = player
    · subst hpp
      by_cases hpl : p < s.localConnectStatus.length
      · rw [rget_rset_eq _ _ _ hpl]
      · have : ∀ v : ConnStatus, rset s.localConnectStatus p v = s.localConnectStatus := by
          intro v
          simp [rset, List.set_eq_of_length_le (by omega : s.localConnectStatus.length ≤ p)]
        rw [this]
    · rw [rget_rset_ne _ _ _ _ (fun h => hpp h.symm)]
  · intro p hdp
    show rget (rset s.localConnectStatus player _) p = _
    have hpp : p ≠ player := fun he => by rw [he, hnd] at hdp; cases hdp
    rw [rget_rset_ne _ _ _ _ (fun h => hpp h.symm)]
  have e := connStatus_eta (rget s.localConnectStatus player) inp.frame hnd
  have hs' : ({ s.setStatus player (fun c => { c with lastFrame := inp.frame }) with
      sync := { s.sync with queues := rset s.sync.queues player q' } } : P2P) =
      { s with sync := { s.sync with queues := rset s.sync.queues player q' },
               localConnectStatus := rset s.localConnectStatus player ⟨false, inp.frame⟩ } := by
    unfold P2P.setStatus
    simp only [e]
  exact hs' ▸ hupd

/-- One local player's input is registered, with dead players around. -/
theorem registerOne_specD (s s' : P2P) (gh : DGhost) (t0 : TLState) (reqs : List Request) (st0 : List ConnStatus)
    (hd : Nat) (h : SessInvD s gh t0 reqs st0) (hloc : hd ∈ s.localPlayerHandles) (hreg : s.registerOne hd = .ok s') :
    ∃ gh' st0', SessInvD s' gh' t0 reqs st0' ∧ gh'.T = gh.T ∧ gh'.gone = gh.gone ∧
      s'.sync.currentFrame = s.sync.currentFrame ∧
      s'.handles = s.handles ∧ s'.pred = s.pred ∧ s'.maxPrediction = s.maxPrediction ∧
      s'.sync.queues.length = s.sync.queues.length ∧ s'.sync.lastConfirmedFrame = s.sync.lastConfirmedFrame ∧
      s'.disconnectFrame = s.disconnectFrame ∧
      (st0 = s.localConnectStatus → st0' = s'.localConnectStatus) ∧
      (∀ p, (gh.specs p).vals.length ≤ (gh'.specs p).vals.length) ∧
      (∀ p, (rget s'.localConnectStatus p).disconnected = (rget s.localConnectStatus p).disconnected) ∧
      (∀ p, (rget s.localConnectStatus p).disconnected = true → rget s'.sync.queues p = rget s.sync.queues p ∧
        rget s'.localConnectStatus p = rget s.localConnectStatus p) ∧
      (∀ p, p ≠ hd → gh'.specs p = gh.specs p) ∧
      (∃ pi, s.pendingInputOf hd = .ok pi ∧
        gh'.specs = fun i => if i = hd then ((gh.specs hd).submit pi.frame pi.input).1 else gh.specs i) := by
  unfold P2P.registerOne at hreg
  obtain ⟨pi, hpi, hreg⟩ := bind_ok hreg
  obtain ⟨r, hadd, hreg⟩ := bind_ok hreg
  obtain ⟨sy, actual⟩ := r
  simp only at hreg
  unfold SyncLayer.addLocalInput at hadd
  obtain ⟨_, hadd⟩ := ensure_bind_ok hadd
  obtain ⟨hpl, hadd⟩ := ensure_bind_ok hadd
  have hp : hd < s.sync.queues.length := of_decide_eq_true hpl
  obtain ⟨r2, haq, hadd⟩ := bind_ok hadd
  obtain ⟨q', fr⟩ := r2
  simp only at hadd
  have := pure_ok hadd
  simp only [Prod.mk.injEq] at this
  obtain ⟨hsy, hfr⟩ := this
  subst hsy; subst hfr
  have haq' : (rget s.sync.queues hd).addInput ⟨pi.frame, pi.input⟩ = .ok (q', fr) := haq
  have hnd : (rget s.localConnectStatus hd).disconnected = false := h.localAlive hd hloc
  have hc0 : (rget st0 hd).disconnected = false := by
    cases hx : (rget st0 hd).disconnected with
    | false => rfl
    | true => have := h.marks.mono hd hx; rw [hnd] at this; cases this
  have hng : ¬ gh.gone hd := fun hg => by
    have := (h.tinv.sync.gone hd hp hg).dead; rw [hc0] at this; cases this
  have hq0 := h.tinv.sync.live hd hp hng
  have hpc : pcur (rget st0 hd) s.sync.currentFrame = s.sync.currentFrame := by
    unfold pcur; rw [if_neg (by rw [hc0]; simp)]
  rw [hpc] at hq0
  obtain ⟨hqi, hask, hfrs⟩ := QI_add s.pred _ q' _ _ _ _ pi.frame pi.input fr hq0 (h.asked hd hp hnd) haq'
  obtain ⟨hge, hland⟩ := submit_facts (gh.specs hd) pi.frame pi.input
  have hn1 : s.localConnectStatus.length = s.sync.queues.length := by rw [h.marks.len]; exact h.tinv.sync.nq
  have hpst : hd < s.localConnectStatus.length := by rw [hn1]; exact hp
  have hp0 : hd < st0.length := by rw [h.tinv.sync.nq]; exact hp
  have hstat := h.status hd hp hng
  have hla0 := lastAdded_of_QI hq0
  have hfi := addInput_fi _ q' _ ⟨pi.frame, pi.input⟩ fr hq0.ring haq'
  have hfi' : q'.firstIncorrectFrame = (rget s.sync.queues hd).firstIncorrectFrame ∨
      (rget s.localConnectStatus hd).lastFrame < q'.firstIncorrectFrame := by
    rcases hfi with hx | hx
    · exact Or.inl hx
    · right; omega
  have hgrow : ∀ p, (gh.specs p).vals.length ≤
      (if p = hd then ((gh.specs hd).submit pi.frame pi.input).1 else gh.specs p).vals.length := by
    intro p
    by_cases hpp : p = hd
    · subst hpp; simp only [if_true]; exact hge
    · simp only [hpp, if_false]; exact Nat.le_refl _
  by_cases hact : (fr != NULL_FRAME) = true
  · simp only [hact, if_true] at hreg
    obtain ⟨s2, hbl, hreg⟩ := bind_ok hreg
    have hc1 := P2P.queueInitialBlanks_sameCore _ _ _ _ hbl
    have hc2 := P2P.queueOutgoing_sameCore _ _ _ _ hreg
    have hne : fr ≠ NULL_FRAME := by simpa using hact
    have hlen' := hland (by rw [← hfrs]; exact hne)
    rw [← hfrs] at hlen'
    have hst : fr ≤ q'.lastAddedFrame := by
      rw [lastAdded_of_QI hqi]; omega
    have hlf : (rget s.localConnectStatus hd).lastFrame ≤ fr := by
      have : ((gh.specs hd).vals.length : Int) ≤ (((gh.specs hd).submit pi.frame pi.input).1.vals.length : Int) := by
        exact_mod_cast hge
      omega
    have hupd := SessInvD_update s gh t0 reqs st0 h hd hp hnd q' _ fr hqi hask hlf hst (fun hc => absurd hloc hc) hfi'
    have e : ({ rget s2.localConnectStatus hd with lastFrame := fr } : ConnStatus) = ⟨false, fr⟩ := by
      rw [hc1.statuses]; exact connStatus_eta _ fr hnd
    have hcore : P2P.SameCore
        { s with sync := { s.sync with queues := rset s.sync.queues hd q' },
                 localConnectStatus := rset s.localConnectStatus hd ⟨false, fr⟩ } s' := by
      refine ⟨?_, ?_, ?_, ?_, ?_, ?_, ?_, ?_, ?_⟩
      · rw [hc2.sync]; show s2.sync = _; rw [hc1.sync]
      · rw [hc2.pred]; show s2.pred = s.pred; rw [hc1.pred]
      · rw [hc2.statuses]
        show rset s2.localConnectStatus hd ({ rget s2.localConnectStatus hd with lastFrame := fr }) =
          rset s.localConnectStatus hd ⟨false, fr⟩
        rw [e, hc1.statuses]
      · rw [hc2.sparse]; show s2.sparse = s.sparse; rw [hc1.sparse]
      · rw [hc2.maxPrediction]; show s2.maxPrediction = s.maxPrediction; rw [hc1.maxPrediction]
      · rw [hc2.handles]; show s2.handles = s.handles; rw [hc1.handles]
      · rw [hc2.pending]; show s2.pendingLocalInputs = s.pendingLocalInputs; rw [hc1.pending]
      · rw [hc2.numPlayers]; show s2.numPlayers = s.numPlayers; rw [hc1.numPlayers]
      · rw [hc2.disconnectFrame]; show s2.disconnectFrame = s.disconnectFrame; rw [hc1.disconnectFrame]
    refine ⟨_, _, SessInvD_congr _ s' _ t0 reqs _ hupd hcore, rfl, rfl, ?_, ?_, ?_, ?_, ?_, ?_, ?_, ?_, hgrow, ?_, ?_,
      (fun p hp => by show (if p = hd then _ else gh.specs p) = _; rw [if_neg hp]), ⟨pi, hpi, rfl⟩⟩
    · rw [hcore.sync]
    · rw [hcore.handles]
    · rw [hcore.pred]
    · rw [hcore.maxPrediction]
    · rw [hcore.sync]; exact rset_length _ _ _
    · rw [hcore.sync]
    · rw [hcore.disconnectFrame]
    · intro he; rw [hcore.statuses, he]
    · intro p
      rw [hcore.statuses]
      show (rget (rset s.localConnectStatus hd _) p).disconnected = _
      by_cases hpp : p = hd
      · subst hpp; rw [rget_rset_eq _ _ _ hpst, hnd]
      · rw [rget_rset_ne _ _ _ _ (fun h => hpp h.symm)]
    · intro p hdp
      rw [hcore.sync, hcore.statuses]
      show rget (rset s.sync.queues hd q') p = _ ∧ rget (rset s.localConnectStatus hd _) p = _
      have hpp : p ≠ hd := fun he => by rw [he, hnd] at hdp; cases hdp
      rw [rget_rset_ne _ _ _ _ (fun h => hpp h.symm), rget_rset_ne _ _ _ _ (fun h => hpp h.symm)]
      exact ⟨rfl, rfl⟩
  · simp only [hact, Bool.false_eq_true, if_false] at hreg
    have := pure_ok hreg
    subst this
    have hst : (rget s.localConnectStatus hd).lastFrame ≤ q'.lastAddedFrame := by
      rw [lastAdded_of_QI hqi]
      have : ((gh.specs hd).vals.length : Int) ≤ (((gh.specs hd).submit pi.frame pi.input).1.vals.length : Int) := by
        exact_mod_cast hge
      omega
    have hupd := SessInvD_update s gh t0 reqs st0 h hd hp hnd q' _ (rget s.localConnectStatus hd).lastFrame
      hqi hask (Int.le_refl _) hst (fun hc => absurd hloc hc) hfi'
    have e1 : (⟨false, (rget s.localConnectStatus hd).lastFrame⟩ : ConnStatus) = rget s.localConnectStatus hd := by
      cases hx : rget s.localConnectStatus hd with
      | mk d l => rw [hx] at hnd; simp only at hnd; subst hnd; rfl
    have e0 : (⟨false, (rget s.localConnectStatus hd).lastFrame⟩ : ConnStatus) = rget st0 hd := by
      cases hx : rget st0 hd with
      | mk d l =>
        have hl := h.marks.last hd
        rw [hx] at hc0 hl; simp only at hc0 hl; subst hc0; rw [hl]
    rw [e1, rset_rget_self _ _ hpst] at hupd
    have hst0 : rset st0 hd (rget s.localConnectStatus hd) = st0 := by
      rw [← e1, e0, rset_rget_self _ _ hp0]
    rw [hst0] at hupd
    refine ⟨_, st0, hupd, rfl, rfl, rfl, rfl, rfl, rfl, rset_length _ _ _, rfl, rfl, fun he => he, hgrow, fun _ => rfl, ?_,
      (fun p hp => by show (if p = hd then _ else gh.specs p) = _; rw [if_neg hp]), ⟨pi, hpi, rfl⟩⟩
    intro p hdp
    show rget (rset s.sync.queues hd q') p = _ ∧ _
    have hpp : p ≠ hd := fun he => by rw [he, hnd] at hdp; cases hdp
    rw [rget_rset_ne _ _ _ _ (fun h => hpp h.symm)]
    exact ⟨rfl, rfl⟩

/-- What stays fixed while local inputs are registered. -/
structure RegKeepsD (s s' : P2P) (gh gh' : DGhost) : Prop where
  T : gh'.T = gh.T
  gone : gh'.gone = gh.gone
  cur : s'.sync.currentFrame = s.sync.currentFrame
  handles : s'.handles = s.handles
  pred : s'.pred = s.pred
  maxPrediction : s'.maxPrediction = s.maxPrediction
  nq : s'.sync.queues.length = s.sync.queues.length
  lastConfirmed : s'.sync.lastConfirmedFrame = s.sync.lastConfirmedFrame
  df : s'.disconnectFrame = s.disconnectFrame
  grows : ∀ p, (gh.specs p).vals.length ≤ (gh'.specs p).vals.length
  flags : ∀ p, (rget s'.localConnectStatus p).disconnected = (rget s.localConnectStatus p).disconnected
  deadQ : ∀ p, (rget s.localConnectStatus p).disconnected = true → rget s'.sync.queues p = rget s.sync.queues p ∧
    rget s'.localConnectStatus p = rget s.localConnectStatus p
  remoteSpecs : ∀ p, p ∉ s.localPlayerHandles → gh'.specs p = gh.specs p

theorem registerFold_specD (t0 : TLState) (reqs : List Request) : ∀ (l : List Nat) (s s' : P2P) (gh : DGhost),
    SessInvD s gh t0 reqs s.localConnectStatus → (∀ x ∈ l, x ∈ s.localPlayerHandles) →
    l.foldlM P2P.registerOne s = .ok s' →
    ∃ gh', SessInvD s' gh' t0 reqs s'.localConnectStatus ∧ RegKeepsD s s' gh gh' := by
  intro l
  induction l with
  | nil =>
    intro s s' gh h _ hf
    simp only [List.foldlM_nil] at hf
    have := pure_ok hf
    subst this
    exact ⟨gh, h, ⟨rfl, rfl, rfl, rfl, rfl, rfl, rfl, rfl, rfl, fun _ => Nat.le_refl _, fun _ => rfl, fun _ _ => ⟨rfl, rfl⟩, fun _ _ => rfl⟩⟩
  | cons a rest ih =>
    intro s s' gh h hl hf
    simp only [List.foldlM_cons] at hf
    obtain ⟨s1, h1, hf⟩ := bind_ok hf
    obtain ⟨gh1, st1, hinv1, hT1, hg1, hc1, hh1, hp1, hm1, hn1, hlc1, hdf1, hst1, hgr1, hfl1, hdq1, hrs1, _⟩ :=
      registerOne_specD s s1 gh t0 reqs s.localConnectStatus a h (hl a List.mem_cons_self) h1
    rw [hst1 rfl] at hinv1
    have hlp : s1.localPlayerHandles = s.localPlayerHandles := by unfold P2P.localPlayerHandles; rw [hh1]
    obtain ⟨gh', hinv', hk⟩ := ih s1 s' gh1 hinv1 (fun x hx => by rw [hlp]; exact hl x (List.mem_cons_of_mem _ hx)) hf
    exact ⟨gh', hinv', ⟨hk.T.trans hT1, hk.gone.trans hg1, hk.cur.trans hc1, hk.handles.trans hh1, hk.pred.trans hp1,
      hk.maxPrediction.trans hm1, hk.nq.trans hn1, hk.lastConfirmed.trans hlc1, hk.df.trans hdf1,
      fun p => Nat.le_trans (hgr1 p) (hk.grows p), fun p => (hk.flags p).trans (hfl1 p),
      fun p hdp => ⟨(hk.deadQ p (by rw [hfl1 p]; exact hdp)).1.trans (hdq1 p hdp).1,
        (hk.deadQ p (by rw [hfl1 p]; exact hdp)).2.trans (hdq1 p hdp).2⟩,
      fun p hnl => (hk.remoteSpecs p (by rw [hlp]; exact hnl)).trans
        (hrs1 p (fun he => hnl (he ▸ hl a List.mem_cons_self)))⟩⟩

theorem registerLocalInputs_specD (s s' : P2P) (gh : DGhost) (t0 : TLState) (reqs : List Request) (now : Nat)
    (h : SessInvD s gh t0 reqs s.localConnectStatus) (hreg : s.registerLocalInputs now = .ok s') :
    ∃ gh', SessInvD s' gh' t0 reqs s'.localConnectStatus ∧ RegKeepsD s s' gh gh' := by
  unfold P2P.registerLocalInputs at hreg
  obtain ⟨s1, hfold, hsend⟩ := bind_ok hreg
  obtain ⟨gh', hinv, hk⟩ := registerFold_specD t0 reqs _ s s1 gh h (fun x hx => hx) hfold
  have hc := P2P.sendReady_sameCore _ _ _ hsend
  have hinv' := SessInvD_congr s1 s' gh' t0 reqs _ hinv hc
  rw [← hc.statuses] at hinv'
  refine ⟨gh', hinv', ⟨hk.T, hk.gone, by rw [hc.sync]; exact hk.cur, hc.handles.trans hk.handles, hc.pred.trans hk.pred,
     hc.maxPrediction.trans hk.maxPrediction, by rw [hc.sync]; exact hk.nq, by rw [hc.sync]; exact hk.lastConfirmed,
     hc.disconnectFrame.trans hk.df, hk.grows, by rw [hc.statuses]; exact hk.flags, by rw [hc.sync, hc.statuses]; exact hk.deadQ,
     hk.remoteSpecs⟩⟩

/-- The prediction gate with dead players. -/
theorem rollbackGate_specD (s s' : P2P) (gh : DGhost) (t0 : TLState) (reqs reqs' : List Request)
    (h : SessInvD s gh t0 reqs s.localConnectStatus)
    (hg : s.rollbackGate reqs = .ok (s', reqs')) :
    ∃ gh', SessInvD s' gh' t0 reqs' s'.localConnectStatus ∧ gh'.specs = gh.specs ∧ gh'.gone = gh.gone ∧
      s'.localConnectStatus = s.localConnectStatus ∧ s'.handles = s.handles ∧ s'.pred = s.pred ∧
      s'.sync.queues.length = s.sync.queues.length ∧
      ((s' = s ∧ reqs' = reqs ∧ gh' = gh) ∨
       (∃ (c : Nat) (ins : List (Input × InputStatus)), s.sync.currentFrame = (c : Int) ∧
          reqs' = reqs ++ [.advance ins] ∧ InputsOkD s.pred gh s.localConnectStatus c ins ∧
          ins.length = s.sync.queues.length ∧
          s'.sync.currentFrame = s.sync.currentFrame + 1)) := by
  unfold P2P.rollbackGate at hg
  split at hg
  · obtain ⟨r, hsim, hg⟩ := bind_ok hg
    obtain ⟨sy1, ins⟩ := r
    simp only at hg
    have := pure_ok hg
    simp only [Prod.mk.injEq] at this
    obtain ⟨hs', hr'⟩ := this
    obtain ⟨c, gh', hc, hok, hsp, hgo, hinv, hcur, hlen, hil, hsame, hask, hls1, _⟩ :=
      TInvD_simulate s.pred s.sync sy1 sy1 s.localConnectStatus gh t0 reqs [] ins h.tinv hsim
        (fun r hr => by cases hr) rfl rfl
    simp only [List.append_nil] at hinv
    subst hs'; subst hr'
    have hcl' : ∀ p, p < s.sync.queues.length → (rget sy1.advanceFrame.queues p).firstIncorrectFrame = NULL_FRAME := by
      intro p hp
      by_cases hsk : Skip (rget s.localConnectStatus p) (c : Int)
      · rw [hsame p hp hsk]; exact h.deadClean p hp hsk.1
      · exact (hask p hp hsk).2
    refine ⟨gh', ⟨hinv, Marks.refl _, ?_, ?_, ?_, ?_, h.localAlive, ?_, h.dfok,
      fun p hp _ => hcl' p (by rw [← hlen]; exact hp),
      fun hsp' p hp hg' => by
        show _ < sy1.advanceFrame.lastSavedFrame
        have : sy1.advanceFrame.lastSavedFrame = sy1.lastSavedFrame := rfl
        rw [this, hls1]
        exact h.saved hsp' p (by rw [← hlen]; exact hp) (by rw [← hgo]; exact hg')⟩, hsp, hgo, rfl, rfl, rfl, hlen,
      Or.inr ⟨c, ins, hc, rfl, hok, hil, hcur⟩⟩
    · intro p hp hconn
      have hp0 : p < s.sync.queues.length := by rw [← hlen]; exact hp
      have hns : ¬ Skip (rget s.localConnectStatus p) (c : Int) := fun hsk => by
        have := hsk.1; rw [hconn] at this; cases this
      have := (hask p hp0 hns).1
      show Asked (rget sy1.advanceFrame.queues p) sy1.advanceFrame.currentFrame
      rw [hcur, hc]; exact this
    · intro p _ h0 h1
      rw [h0] at h1; cases h1
    · intro p hp hng
      have hp0 : p < s.sync.queues.length := by rw [← hlen]; exact hp
      have hng0 : ¬ gh.gone p := by rw [← hgo]; exact hng
      show (rget s.localConnectStatus p).lastFrame ≤ (rget sy1.advanceFrame.queues p).lastAddedFrame
      rw [lastAdded_of_QI (hinv.sync.live p hp hng), hsp, ← lastAdded_of_QI (h.tinv.sync.live p hp0 hng0)]
      exact h.status p hp0 hng0
    · intro p hp hnl
      rw [hsp]
      exact h.remote p (by rw [← hlen]; exact hp) hnl
    · intro p hp hg'
      have hp0 : p < s.sync.queues.length := by rw [← hlen]; exact hp
      have hg0 : gh.gone p := by rw [← hgo]; exact hg'
      have hs := h.safe p hp0 hg0
      refine ⟨hs.1, ?_, ?_⟩
      · intro q hq hne
        exact absurd (hcl' q (by rw [← hlen]; exact hq)) hne
      · intro q hq hcq
        exact hs.2.2 q (by rw [← hlen]; exact hq) hcq
  · have := pure_ok hg
    simp only [Prod.mk.injEq] at this
    obtain ⟨hs', hr'⟩ := this
    subst hs'; subst hr'
    exact ⟨gh, h, rfl, rfl, rfl, rfl, rfl, rfl, Or.inl ⟨rfl, rfl, rfl⟩⟩

/-- **`advance_rollback_frame` with dead players.** `reqs1` are the requests of the
rollback-and-save phase. After them (`SettledD.inv`, `TimelineRightD`): every simulated frame
beyond the last frame of a player marked disconnected carries the blank input with status
Disconnected for it — whether the player was marked long ago or since the previous call, in which
case the frames simulated with predictions in between have just been re-simulated — and every
simulated frame whose input has arrived (up to the last frame, for a dead player) carries it. -/
theorem advanceRollbackFrame_specD (s s' : P2P) (gh : DGhost) (t0 : TLState) (reqs reqs' : List Request) (now : Nat)
    (st0 : List ConnStatus) (h : SessInvD s gh t0 reqs st0)
    (hadv : s.advanceRollbackFrame now reqs = .ok (s', reqs')) :
    ∃ (s1 : P2P) (reqs1 : List Request) (gh1 gh2 gh' : DGhost),
      SettledD s s1 gh gh1 t0 reqs1 ∧ TimelineRightD s1.sync s.localConnectStatus gh1 ∧
      SessInvD s' gh' t0 reqs' s'.localConnectStatus ∧ s'.handles = s.handles ∧ s'.pred = s.pred ∧
      s'.sync.queues.length = s.sync.queues.length ∧
      (∀ p, (rget s'.localConnectStatus p).disconnected = (rget s.localConnectStatus p).disconnected) ∧
      (∀ p, (rget s.localConnectStatus p).disconnected = true → rget s'.localConnectStatus p = rget s.localConnectStatus p) ∧
      (∀ p, gh.gone p → gh'.gone p) ∧
      (∀ p, p ∉ s.localPlayerHandles → gh'.specs p = gh.specs p) ∧
      ((reqs' = reqs1 ∧ s'.sync.currentFrame = s.sync.currentFrame) ∨
       ∃ (c : Nat) (ins : List (Input × InputStatus)), s.sync.currentFrame = (c : Int) ∧
        reqs' = reqs1 ++ [.advance ins] ∧ ins.length = s.sync.queues.length ∧
        InputsOkD s.pred gh2 s.localConnectStatus c ins ∧ (∀ p, (gh1.specs p).vals.length ≤ (gh2.specs p).vals.length) ∧
        gh'.specs = gh2.specs ∧
        s'.sync.currentFrame = s.sync.currentFrame + 1) := by
  unfold P2P.advanceRollbackFrame at hadv
  obtain ⟨confirmed, hconf, hadv⟩ := bind_ok hadv
  obtain ⟨r1, hrs, hadv⟩ := bind_ok hadv
  obtain ⟨s1, reqs1⟩ := r1
  simp only at hadv
  obtain ⟨s2, hspec, hadv⟩ := bind_ok hadv
  obtain ⟨sy3, hset, hadv⟩ := bind_ok hadv
  obtain ⟨s4, hreg, hgate⟩ := bind_ok hadv
  -- rollback and save
  obtain ⟨gh1, hsettled, hright⟩ := handleRollbackAndSaveD s s1 confirmed t0 reqs reqs1 gh st0 h.tinv h.marks
    h.asked h.pend
    (fun p hp hg => by
      have := h.safe p hp hg
      have hsv := fun hsp => h.saved hsp p hp hg
      rw [h.marks.last] at this hsv
      exact ⟨this.1, this.2.1, hsv⟩) hrs
  have hinv1 := SessInvD_of_settledD s s1 gh gh1 t0 reqs reqs1 st0 h hsettled
  -- spectators: network only
  have hc2 := P2P.sendConfirmed_sameCore _ _ _ _ hspec
  have hinv2 := SessInvD_congr s1 s2 gh1 t0 reqs1 _ hinv1 hc2
  rw [← hc2.statuses] at hinv2
  -- confirmed frame bookkeeping
  have hst2 : s2.localConnectStatus = s.localConnectStatus := by rw [hc2.statuses, hsettled.statuses]
  have hnq2 : s2.sync.queues.length = s.sync.queues.length := by rw [hc2.sync, hsettled.nq]
  have hn1 : s.localConnectStatus.length = s.sync.queues.length := by rw [h.marks.len]; exact h.tinv.sync.nq
  have hle : ∀ p, p < s2.sync.queues.length → (rget s2.localConnectStatus p).disconnected = false →
      confirmed ≤ (rget s2.localConnectStatus p).lastFrame := by
    intro p hp hc
    rw [hst2] at hc ⊢
    exact confirmedFrame_leD s confirmed hconf p (by rw [hn1, ← hnq2]; exact hp) hc
  have hclean2 : ∀ p, p < s2.sync.queues.length → (rget s2.sync.queues p).firstIncorrectFrame = NULL_FRAME := by
    rw [hc2.sync]; exact hsettled.clean
  have hright2 : TimelineRightD s2.sync s2.localConnectStatus gh1 := by rw [hc2.sync, hst2]; exact hright
  have hsp2 : s2.sparse = s.sparse := by rw [hc2.sparse, hsettled.sparse]
  obtain ⟨gh3, hinv3, hsp3, hT3, hgo3, hcur3, hnq3, hclean3⟩ := setLastConfirmed_specD s2 sy3 gh1 t0 reqs1 confirmed hinv2
    hclean2 (by rw [hc2.disconnectFrame]; exact hsettled.df) hright2 hle hset
  -- local inputs
  obtain ⟨gh4, hinv4, hk4⟩ := registerLocalInputs_specD _ s4 gh3 t0 reqs1 now hinv3 hreg
  have hst4 : ∀ p, (rget s4.localConnectStatus p).disconnected = (rget s.localConnectStatus p).disconnected := by
    intro p
    rw [hk4.flags p]
    show (rget s2.localConnectStatus p).disconnected = _
    rw [hst2]
  have hclean4 : ∀ p, p < s4.sync.queues.length → (rget s4.localConnectStatus p).disconnected = true →
      (rget s4.sync.queues p).firstIncorrectFrame = NULL_FRAME := by
    intro p hp hd
    have hd2 : (rget s2.localConnectStatus p).disconnected = true := by
      have := hk4.flags p
      rw [hd] at this
      exact this.symm
    rw [(hk4.deadQ p hd2).1]
    exact hclean3 p (by rw [← hk4.nq]; exact hp)
  -- the gate
  obtain ⟨gh', hinv', hsp', hgo', hst', hh', hp', hnq', hcase⟩ := rollbackGate_specD s4 s' gh4 t0 reqs1 reqs' hinv4 hgate
  have hcur4 : s4.sync.currentFrame = s.sync.currentFrame := by
    rw [hk4.cur]; show sy3.currentFrame = _; rw [hcur3, hc2.sync, hsettled.cur]
  have hpred4 : s4.pred = s.pred := by
    rw [hk4.pred]; show s2.pred = _; rw [hc2.pred, hsettled.pred]
  have hh4 : s4.handles = s.handles := by
    rw [hk4.handles]; show s2.handles = _; rw [hc2.handles, hsettled.rest.1]
  have hnq4 : s4.sync.queues.length = s.sync.queues.length := by
    rw [hk4.nq]; show sy3.queues.length = _; rw [hnq3, hnq2]
  refine ⟨s1, reqs1, gh1, gh4, gh', hsettled, hright, hinv', hh'.trans hh4, hp'.trans hpred4, hnq'.trans hnq4, ?_, ?_, ?_, ?_, ?_⟩
  · intro p; rw [hst']; exact hst4 p
  · intro p hd
    have hd2 : (rget s2.localConnectStatus p).disconnected = true := by rw [hst2]; exact hd
    rw [hst', (hk4.deadQ p hd2).2]
    show rget s2.localConnectStatus p = _
    rw [hst2]
  · intro p hg
    rw [hgo', hk4.gone]
    exact hgo3 p (by rw [hsettled.gone]; exact hg)
  · intro p hnl
    have hlp2 : ({ s2 with sync := sy3 } : P2P).localPlayerHandles = s.localPlayerHandles := by
      unfold P2P.localPlayerHandles
      show List.filterMap _ s2.handles = _
      rw [hc2.handles, hsettled.rest.1]
    rw [hsp', hk4.remoteSpecs p (by rw [hlp2]; exact hnl), hsp3, hsettled.specs]
  · rcases hcase with ⟨hs4, hr, _⟩ | ⟨c, ins, hc, hr, hok, hil, hcur'⟩
    · exact Or.inl ⟨hr, by rw [hs4]; exact hcur4⟩
    · have hskip : ∀ p, Skip (rget s4.localConnectStatus p) (c : Int) ↔ Skip (rget s.localConnectStatus p) (c : Int) := by
        intro p
        by_cases hd : (rget s.localConnectStatus p).disconnected = true
        · have hd2 : (rget s2.localConnectStatus p).disconnected = true := by rw [hst2]; exact hd
          have : rget s4.localConnectStatus p = rget s.localConnectStatus p := by
            rw [(hk4.deadQ p hd2).2]
            show rget s2.localConnectStatus p = _
            rw [hst2]
          rw [this]
        · constructor
          · intro hsk; exact absurd (by rw [← hst4 p]; exact hsk.1) hd
          · intro hsk; exact absurd hsk.1 hd
      refine Or.inr ⟨c, ins, by rw [← hcur4]; exact hc, hr, by rw [hil, hnq4], ?_, ?_, hsp', by rw [hcur', hcur4]⟩
      · intro p hp
        obtain ⟨a, b⟩ := hok p hp
        rw [hpred4] at b
        exact ⟨fun hsk => a ((hskip p).mpr hsk), fun hns => b (fun hsk => hns ((hskip p).mp hsk))⟩
      · intro p
        have := hk4.grows p
        rw [hsp3] at this
        exact this

end Ggrs

namespace Ggrs.P2P

theorem updEp_find (g : Endpoint → Endpoint) (addr : Nat) : ∀ (l l' : List (Nat × Endpoint)) (ep : Endpoint),
    updEp l addr (fun e => pure (g e)) = .ok l' → findEp l addr = some ep → findEp l' addr = some (g ep) := by
  intro l
  induction l with
  | nil => intro l' ep _ hf; simp [findEp] at hf
  | cons x xs ih =>
    intro l' ep hu hf
    obtain ⟨a, e⟩ := x
    unfold updEp at hu
    simp only [List.mapM_cons] at hu
    obtain ⟨y, hy, hu⟩ := bind_ok hu
    obtain ⟨ys, hys, hu⟩ := bind_ok hu
    have := pure_ok hu
    subst this
    by_cases ha : (a == addr) = true
    · simp only [ha, if_true] at hy
      have hy' : y = (a, g e) := by
        simp only [bind, Except.bind, pure, Except.pure] at hy
        cases hy; rfl
      subst hy'
      simp only [findEp, List.find?_cons, ha, Option.map_some] at hf ⊢
      cases hf; rfl
    · have ha' : (a == addr) = false := by simpa using ha
      simp only [ha', Bool.false_eq_true, if_false] at hy
      have hy' : y = (a, e) := by
        have := pure_ok hy
        exact this.symm
      subst hy'
      simp only [findEp, List.find?_cons, ha'] at hf ⊢
      exact ih ys ep hys hf

theorem disconnect_handles (e : Endpoint) (now : Nat) : (e.disconnect now).handles = e.handles := by
  unfold Endpoint.disconnect; split <;> rfl

/-- Marking a list of handles as disconnected: every listed handle is marked, no `last_frame`
moves, nobody else is touched. -/
theorem markAll_spec : ∀ (hs : List Nat) (s : P2P),
    let s' := hs.foldl (fun s h => s.setStatus h fun c => { c with disconnected := true }) s
    s'.localConnectStatus.length = s.localConnectStatus.length ∧
    (∀ g, g ∈ hs → g < s.localConnectStatus.length → (rget s'.localConnectStatus g).disconnected = true) ∧
    (∀ g, (rget s'.localConnectStatus g).lastFrame = (rget s.localConnectStatus g).lastFrame) ∧
    (∀ g, g ∉ hs → rget s'.localConnectStatus g = rget s.localConnectStatus g) ∧
    (∀ g, (rget s.localConnectStatus g).disconnected = true → (rget s'.localConnectStatus g).disconnected = true) ∧
    s'.sync = s.sync ∧ s'.disconnectFrame = s.disconnectFrame ∧ s'.remotes = s.remotes ∧ s'.handles = s.handles ∧
    s'.pred = s.pred ∧ s'.sparse = s.sparse ∧ s'.numPlayers = s.numPlayers ∧
    s'.outgoingLocalInputs = s.outgoingLocalInputs ∧ s'.lastSentOutgoingInputFrame = s.lastSentOutgoingInputFrame := by
  intro hs
  induction hs with
  | nil => intro s; exact ⟨rfl, (fun g hg => by cases hg), fun _ => rfl, fun _ _ => rfl, fun _ h => h, rfl, rfl, rfl, rfl, rfl, rfl, rfl, rfl, rfl⟩
  | cons h rest ih =>
    intro s
    simp only [List.foldl_cons]
    obtain ⟨a0, a1, a2, a3, a4, a5, a6, a7, a8, a9, a10, a11, a12, a13⟩ := ih (s.setStatus h fun c => { c with disconnected := true })
    have hlen : (s.setStatus h fun c => { c with disconnected := true }).localConnectStatus.length = s.localConnectStatus.length := by
      simp [setStatus, rset]
    -- one step
    have hone : ∀ g, rget (s.setStatus h fun c => { c with disconnected := true }).localConnectStatus g =
        if g = h ∧ h < s.localConnectStatus.length then { rget s.localConnectStatus g with disconnected := true }
        else rget s.localConnectStatus g := by
      intro g
      show rget (rset s.localConnectStatus h _) g = _
      by_cases hg : g = h
      · subst hg
        by_cases hl : g < s.localConnectStatus.length
        · simp only [hl, and_true, if_true]
          exact rget_rset_eq _ _ _ hl
        · simp only [hl, and_false, if_false]
          simp [rset, List.set_eq_of_length_le (by omega : s.localConnectStatus.length ≤ g)]
      · simp only [hg, false_and, if_false]
        exact rget_rset_ne _ _ _ _ (fun e => hg e.symm)
    refine ⟨a0.trans hlen, ?_, ?_, ?_, ?_, a5, a6, a7, a8, a9, a10, a11, a12, a13⟩
    · intro g hg hl
      rcases List.mem_cons.mp hg with he | hin
      · apply a4
        rw [hone g]
        subst he
        rw [if_pos ⟨rfl, hl⟩]
      · exact a1 g hin (by rw [hlen]; exact hl)
    · intro g
      rw [a2 g, hone g]
      split <;> rfl
    · intro g hg
      have hgh : g ≠ h := fun e => hg (e ▸ List.mem_cons_self)
      have hgr : g ∉ rest := fun e => hg (List.mem_cons_of_mem _ e)
      rw [a3 g hgr, hone g]
      simp [hgh]
    · intro g hd
      apply a4
      rw [hone g]
      split
      · rfl
      · exact hd

/-- `disconnect_player_at_frame` for a remote player, field by field. -/
theorem disconnectAt_fields (s s' : P2P) (now handle addr : Nat) (lastFrame : Frame) (ep : Endpoint)
    (hpt : s.playerType handle = some (.remote addr)) (hep : findEp s.remotes addr = some ep)
    (h : s.disconnectPlayerAtFrame now handle lastFrame = .ok s') :
    (∀ g, g ∈ ep.handles → g < s.localConnectStatus.length → (rget s'.localConnectStatus g).disconnected = true) ∧
    (∀ g, (rget s'.localConnectStatus g).lastFrame = (rget s.localConnectStatus g).lastFrame) ∧
    (∀ g, g ∉ ep.handles → rget s'.localConnectStatus g = rget s.localConnectStatus g) ∧
    s'.sync = s.sync ∧
    s'.disconnectFrame = (if s.sync.currentFrame > lastFrame + 1 then
        (if s.disconnectFrame == NULL_FRAME then lastFrame + 1 else min s.disconnectFrame (lastFrame + 1))
      else s.disconnectFrame) ∧
    s'.localConnectStatus.length = s.localConnectStatus.length ∧
    (∀ g, (rget s.localConnectStatus g).disconnected = true → (rget s'.localConnectStatus g).disconnected = true) ∧
    s'.handles = s.handles ∧ s'.pred = s.pred ∧ s'.sparse = s.sparse ∧ s'.numPlayers = s.numPlayers ∧
    findEp s'.remotes addr = some (ep.disconnect now) ∧
    s'.outgoingLocalInputs = s.outgoingLocalInputs ∧ s'.lastSentOutgoingInputFrame = s.lastSentOutgoingInputFrame := by
  unfold disconnectPlayerAtFrame at h
  rw [hpt] at h
  simp only [hep, bind, Except.bind, pure, Except.pure] at h
  obtain ⟨m0, m1, m2, m3, m4, m5, m6, m7, m8, m9, m10, m11, m12, m13⟩ := markAll_spec ep.handles s
  have hci : ∀ (a : P2P), a.checkInitialSync.localConnectStatus = a.localConnectStatus ∧ a.checkInitialSync.sync = a.sync ∧
      a.checkInitialSync.disconnectFrame = a.disconnectFrame ∧ a.checkInitialSync.handles = a.handles ∧
      a.checkInitialSync.pred = a.pred ∧ a.checkInitialSync.sparse = a.sparse ∧
      a.checkInitialSync.numPlayers = a.numPlayers ∧ a.checkInitialSync.remotes = a.remotes ∧
      a.checkInitialSync.outgoingLocalInputs = a.outgoingLocalInputs ∧
      a.checkInitialSync.lastSentOutgoingInputFrame = a.lastSentOutgoingInputFrame := by
    intro a
    unfold checkInitialSync
    split
    · exact ⟨rfl, rfl, rfl, rfl, rfl, rfl, rfl, rfl, rfl, rfl⟩
    · split <;> exact ⟨rfl, rfl, rfl, rfl, rfl, rfl, rfl, rfl, rfl, rfl⟩
  cases hupd : updEp (List.foldl (fun s h => s.setStatus h fun c => { c with disconnected := true }) s ep.handles).remotes addr
      (fun e => Except.ok (e.disconnect now)) with
  | error e => rw [hupd] at h; cases h
  | ok remotes =>
    rw [hupd] at h
    simp only at h
    cases h
    have hfind : findEp remotes addr = some (ep.disconnect now) := by
      rw [m7] at hupd
      exact updEp_find (fun e => e.disconnect now) addr s.remotes remotes ep hupd hep
    by_cases hgt : s.sync.currentFrame > lastFrame + 1
    · have hgt' : (List.foldl (fun s h => s.setStatus h fun c => { c with disconnected := true }) s ep.handles).sync.currentFrame
          > lastFrame + 1 := by rw [m5]; exact hgt
      simp only [hgt', hgt, if_true]
      obtain ⟨c1, c2, c3, c4, c5, c6, c7, c8, c9, c10⟩ := hci ({ (List.foldl (fun s h => s.setStatus h fun c => { c with disconnected := true }) s ep.handles) with
        remotes := remotes,
        disconnectFrame := if ((List.foldl (fun s h => s.setStatus h fun c => { c with disconnected := true }) s ep.handles).disconnectFrame == NULL_FRAME) = true
          then lastFrame + 1 else min (List.foldl (fun s h => s.setStatus h fun c => { c with disconnected := true }) s ep.handles).disconnectFrame (lastFrame + 1) } : P2P)
      rw [c1, c2, c3, c4, c5, c6, c7, c8, c9, c10]
      exact ⟨m1, m2, m3, m5, by show (if _ then _ else _) = _; rw [m6], m0, m4, m8, m9, m10, m11, hfind, m12, m13⟩
    · have hgt' : ¬ (List.foldl (fun s h => s.setStatus h fun c => { c with disconnected := true }) s ep.handles).sync.currentFrame
          > lastFrame + 1 := by rw [m5]; exact hgt
      simp only [hgt', hgt, if_false]
      obtain ⟨c1, c2, c3, c4, c5, c6, c7, c8, c9, c10⟩ := hci ({ (List.foldl (fun s h => s.setStatus h fun c => { c with disconnected := true }) s ep.handles) with
        remotes := remotes } : P2P)
      rw [c1, c2, c3, c4, c5, c6, c7, c8, c9, c10]
      exact ⟨m1, m2, m3, m5, m6, m0, m4, m8, m9, m10, m11, hfind, m12, m13⟩

end Ggrs.P2P

namespace Ggrs
open InputQueue

/-- **`disconnect_player_at_frame` for a remote player, in general.** The frame passed may be the
player's own last frame (a locally detected drop) or an earlier one (a cut-off adopted from the
other peers' reports): the invariant survives as long as that frame is not beyond the last frame
of any player of the endpoint that is still connected (`hlow`) and not before the last frame of any
player whose queue has been given up (`hgone`) — the call then schedules a re-simulation that never
reaches into a queue that no longer holds its inputs. The statuses keep their own last frames. -/
theorem drop_specG (s s' : P2P) (gh : DGhost) (t0 : TLState) (reqs : List Request) (st0 : List ConnStatus)
    (now handle addr : Nat) (lastFrame : Frame) (ep : Endpoint)
    (h : SessInvD s gh t0 reqs st0)
    (hpt : s.playerType handle = some (.remote addr)) (hep : P2P.findEp s.remotes addr = some ep)
    (hrem : ∀ g, g ∈ ep.handles → g ∉ s.localPlayerHandles)
    (hlf0 : -1 ≤ lastFrame)
    (hlow : ∀ g, g ∈ ep.handles → g < s.sync.queues.length → (rget s.localConnectStatus g).disconnected = false →
      lastFrame ≤ (rget s.localConnectStatus g).lastFrame)
    (hgone : ∀ g, g < s.sync.queues.length → gh.gone g → (rget s.localConnectStatus g).lastFrame ≤ lastFrame)
    (hdrop : s.disconnectPlayerAtFrame now handle lastFrame = .ok s') :
    SessInvD s' gh t0 reqs st0 ∧ s'.sync = s.sync ∧ s'.handles = s.handles ∧ s'.pred = s.pred ∧
      (∀ g, (rget s.localConnectStatus g).disconnected = true → (rget s'.localConnectStatus g).disconnected = true) ∧
      (∀ g, g ∈ ep.handles → g < s.sync.queues.length → (rget s'.localConnectStatus g).disconnected = true) ∧
      (∀ g, (rget s'.localConnectStatus g).lastFrame = (rget s.localConnectStatus g).lastFrame) ∧
      (s.sync.currentFrame ≤ lastFrame + 1 → s'.disconnectFrame = s.disconnectFrame) ∧
      (∀ g, g ∉ ep.handles → rget s'.localConnectStatus g = rget s.localConnectStatus g) ∧
      s'.outgoingLocalInputs = s.outgoingLocalInputs ∧ s'.lastSentOutgoingInputFrame = s.lastSentOutgoingInputFrame := by
  obtain ⟨f1, f2, f3, fsync, fdf, flen, fmono, fh, fp, fsp, _, _, fout, fls⟩ := P2P.disconnectAt_fields s s' now handle addr lastFrame ep hpt hep hdrop
  have hlp : s'.localPlayerHandles = s.localPlayerHandles := by unfold P2P.localPlayerHandles; rw [fh]
  have hn1 : s.localConnectStatus.length = s.sync.queues.length := by rw [h.marks.len]; exact h.tinv.sync.nq
  have hnull : NULL_FRAME = (-1 : Int) := rfl
  -- the new disconnect frame
  have hdf' : s'.disconnectFrame = s.disconnectFrame ∨
      (s.sync.currentFrame > lastFrame + 1 ∧ s'.disconnectFrame ≠ NULL_FRAME ∧ 0 ≤ s'.disconnectFrame ∧
        s'.disconnectFrame ≤ lastFrame + 1 ∧
        (s'.disconnectFrame = lastFrame + 1 ∨ s'.disconnectFrame = s.disconnectFrame)) := by
    rw [fdf]
    by_cases hgt : s.sync.currentFrame > lastFrame + 1
    · right
      rw [if_pos hgt]
      by_cases hd : (s.disconnectFrame == NULL_FRAME) = true
      · rw [if_pos hd]
        exact ⟨hgt, by rw [hnull]; omega, by omega, Int.le_refl _, Or.inl rfl⟩
      · rw [if_neg hd]
        have hne : s.disconnectFrame ≠ NULL_FRAME := by simpa using hd
        have h0 : 0 ≤ s.disconnectFrame := by
          rcases h.dfok with hx | hx
          · exact absurd hx hne
          · exact hx
        refine ⟨hgt, by rw [hnull]; omega, by omega, Int.min_le_right _ _, ?_⟩
        rcases Int.le_total s.disconnectFrame (lastFrame + 1) with hx | hx
        · right; exact Int.min_eq_left hx
        · left; exact Int.min_eq_right hx
    · left; rw [if_neg hgt]
  refine ⟨⟨by rw [fp, fsync]; exact h.tinv, ⟨by rw [flen]; exact h.marks.len, fun p => (f2 p).trans (h.marks.last p),
      fun p hd => fmono p (h.marks.mono p hd)⟩, ?_, ?_, ?_, ?_, ?_, ?_, ?_,
      by rw [fsync]; exact h.deadClean,
      fun hsp p hp hg => by rw [fsync] at hp ⊢; rw [f2]; exact h.saved (by rw [← fsp]; exact hsp) p hp hg⟩,
    fsync, fh, fp, fmono, ?_, f2, (fun hle => by rw [fdf, if_neg (by omega)]), f3, fout, fls⟩
  · -- asked
    intro p hp hc
    rw [fsync] at hp ⊢
    have hc' : (rget s.localConnectStatus p).disconnected = false := by
      cases hx : (rget s.localConnectStatus p).disconnected with
      | false => rfl
      | true => have := fmono p hx; rw [hc] at this; cases this
    exact h.asked p hp hc'
  · -- pend
    intro p hp h0 h1
    rw [fsync] at hp ⊢
    by_cases hd : (rget s.localConnectStatus p).disconnected = true
    · rcases h.pend p hp h0 hd with hx | ⟨hx1, hx2⟩
      · exact Or.inl hx
      · rcases hdf' with he | ⟨_, hne, _, hle, he⟩
        · right; rw [he]; exact ⟨hx1, hx2⟩
        · right
          refine ⟨hne, ?_⟩
          rcases he with he | he
          · rw [fdf] at he ⊢
            by_cases hgt : s.sync.currentFrame > lastFrame + 1
            · rw [if_pos hgt] at he ⊢
              have hd2 : (s.disconnectFrame == NULL_FRAME) = false := by simpa using hx1
              rw [hd2] at he ⊢
              simp only [Bool.false_eq_true, if_false] at he ⊢
              exact Int.le_trans (Int.min_le_left _ _) hx2
            · rw [if_neg hgt]; exact hx2
          · rw [he]; exact hx2
    · have hc : (rget s.localConnectStatus p).disconnected = false := by simpa using hd
      have hin : p ∈ ep.handles := by
        by_cases hin : p ∈ ep.handles
        · exact hin
        · have := f3 p hin
          rw [this, hc] at h1; cases h1
      have hL := hlow p hin hp hc
      rw [← h.marks.last p]
      by_cases hgt : s.sync.currentFrame > lastFrame + 1
      · rcases hdf' with he | ⟨_, hne, _, hle, _⟩
        · right
          rw [fdf, if_pos hgt]
          by_cases hd2 : (s.disconnectFrame == NULL_FRAME) = true
          · rw [if_pos hd2]; exact ⟨by rw [hnull]; omega, by omega⟩
          · rw [if_neg hd2]
            have hne : s.disconnectFrame ≠ NULL_FRAME := by simpa using hd2
            have h0' : 0 ≤ s.disconnectFrame := by
              rcases h.dfok with hx | hx
              · exact absurd hx hne
              · exact hx
            exact ⟨by rw [hnull]; omega, Int.le_trans (Int.min_le_right _ _) (by omega)⟩
        · exact Or.inr ⟨hne, by omega⟩
      · left; omega
  · intro p hp hng
    rw [fsync] at hp ⊢
    rw [f2]; exact h.status p hp hng
  · intro p hp hnl
    rw [fsync] at hp
    rw [hlp] at hnl
    rw [f2]; exact h.remote p hp hnl
  · intro p hpl
    rw [hlp] at hpl
    have hnin : p ∉ ep.handles := fun hin => hrem p hin hpl
    rw [f3 p hnin]; exact h.localAlive p hpl
  · -- safe
    intro g hg hgg
    rw [fsync] at hg ⊢
    have hs := h.safe g hg hgg
    have hlt : (rget s.localConnectStatus g).lastFrame ≤ lastFrame := hgone g hg hgg
    refine ⟨?_, ?_, ?_⟩
    · intro hne
      rw [f2]
      rcases hdf' with he | ⟨_, _, _, _, he⟩
      · rw [he] at hne ⊢; exact hs.1 hne
      · rcases he with he | he
        · rw [he]; omega
        · rw [he] at hne ⊢; exact hs.1 hne
    · intro q hq hne
      rw [f2]; exact hs.2.1 q hq hne
    · intro q hq hc
      rw [f2, f2]; exact hs.2.2 q hq hc
  · -- dfok
    rcases hdf' with he | ⟨_, _, h0, _, _⟩
    · rw [he]; exact h.dfok
    · exact Or.inr h0
  · intro g hin hg
    exact f1 g hin (by rw [hn1]; exact hg)

/-- **A locally detected drop** (`disconnect_player`, or one step of the Disconnected event of an
endpoint): `disconnect_player_at_frame` for a remote player with that player's own last frame.
The players behind the address are marked; the session invariant survives with their disconnects
pending — `disconnect_frame` is at or before the frame after each one's last frame whenever the
session has simulated beyond it. Environment assumption `hsame`: the players of one endpoint have
received the same frames (their inputs travel in the same packets). -/
theorem drop_specD (s s' : P2P) (gh : DGhost) (t0 : TLState) (reqs : List Request) (st0 : List ConnStatus)
    (now handle addr : Nat) (lastFrame : Frame) (ep : Endpoint)
    (h : SessInvD s gh t0 reqs st0)
    (hpt : s.playerType handle = some (.remote addr)) (hep : P2P.findEp s.remotes addr = some ep)
    (hrem : ∀ g, g ∈ ep.handles → g ∉ s.localPlayerHandles)
    (hown : handle < s.sync.queues.length ∧ (rget st0 handle).disconnected = false ∧
      lastFrame = (rget s.localConnectStatus handle).lastFrame)
    (hlf0 : -1 ≤ lastFrame)
    (hsame : ∀ g, g ∈ ep.handles → g < s.sync.queues.length → (rget s.localConnectStatus g).disconnected = false →
      (rget s.localConnectStatus g).lastFrame = lastFrame)
    (hdrop : s.disconnectPlayerAtFrame now handle lastFrame = .ok s') :
    SessInvD s' gh t0 reqs st0 ∧ s'.sync = s.sync ∧ s'.handles = s.handles ∧ s'.pred = s.pred ∧
      (∀ g, (rget s.localConnectStatus g).disconnected = true → (rget s'.localConnectStatus g).disconnected = true) ∧
      (∀ g, g ∈ ep.handles → g < s.sync.queues.length → (rget s'.localConnectStatus g).disconnected = true) ∧
      (∀ g, (rget s'.localConnectStatus g).lastFrame = (rget s.localConnectStatus g).lastFrame) ∧
      (s.sync.currentFrame ≤ lastFrame + 1 → s'.disconnectFrame = s.disconnectFrame) ∧
      (∀ g, g ∉ ep.handles → rget s'.localConnectStatus g = rget s.localConnectStatus g) ∧
      s'.outgoingLocalInputs = s.outgoingLocalInputs ∧ s'.lastSentOutgoingInputFrame = s.lastSentOutgoingInputFrame := by
  refine drop_specG s s' gh t0 reqs st0 now handle addr lastFrame ep h hpt hep hrem hlf0 ?_ ?_ hdrop
  · intro g hin hg hc
    rw [hsame g hin hg hc]; exact Int.le_refl _
  · intro g hg hgg
    have := (h.safe g hg hgg).2.2 handle hown.1 hown.2.1
    rw [← hown.2.2] at this
    omega

end Ggrs
