/-
L-stream (continued): one packet of the sender, then any sequence of them.
-/
import GgrsModel.Proofs.RecvStream2

namespace Ggrs
open Codec (Bytes)

theorem slice_length (S : SStream) (start : Int) (n : Nat) (hlo : (S.f0 : Int) ≤ start)
    (hhi : start + (n : Int) - 1 ≤ S.last) : (S.slice start n).length = n := by
  unfold SStream.slice SStream.last at *
  simp only [List.length_take, List.length_drop]
  omega

theorem slice_getD (S : SStream) (start : Int) (n j : Nat) (hlo : (S.f0 : Int) ≤ start)
    (hhi : start + (n : Int) - 1 ≤ S.last) (hj : j < n) :
    (S.slice start n).getD j [] = S.item (start + (j : Int)) := by
  unfold SStream.slice SStream.item SStream.last at *
  simp only [List.getD_eq_getElem?_getD, List.getElem?_take, hj, if_true, List.getElem?_drop]
  congr 2
  omega

theorem slice_mem (S : SStream) (start : Int) (n : Nat) : ∀ b ∈ S.slice start n, b ∈ S.items := by
  intro b hb
  unfold SStream.slice at hb
  exact List.mem_of_mem_drop (List.mem_of_mem_take hb)

/-- RInv only looks at `recvInputs` and `handles`. -/
theorem RInv_congr {e e' : Endpoint} {S : SStream} (h : RInv e S) (hr : e'.recvInputs = e.recvInputs)
    (hh : e'.handles = e.handles) : RInv e' S := by
  have hl : e'.lastRecvFrame = e.lastRecvFrame := by rw [lastRecvFrame_eq, lastRecvFrame_eq, hr]
  exact ⟨by rw [hr]; exact h.nonempty, by rw [hl]; exact h.range,
    by intro f b hf; rw [hr] at hf; rw [hl]; exact h.entries f b hf,
    by intro h0; rw [hl] at h0 ⊢; rw [hr]; exact h.newest h0,
    by intro h0; rw [hl] at h0; rw [hr]; exact h.fresh h0,
    by rw [hh]; exact h.width, h.itemWidth⟩

theorem nextFrame_congr {e e' : Endpoint} {S : SStream} (hr : e'.recvInputs = e.recvInputs) :
    nextFrame e' S = nextFrame e S := by
  unfold nextFrame
  rw [lastRecvFrame_eq, lastRecvFrame_eq, hr]

theorem nextFrame_of_last {e e' : Endpoint} {S : SStream} (h : e.lastRecvFrame = e'.lastRecvFrame) :
    nextFrame e S = nextFrame e' S := by
  unfold nextFrame; rw [h]

/-- Pruning keeps the invariant: the newest entry always survives. -/
theorem RInv_prune (e : Endpoint) (S : SStream) (h : RInv e S) (bound : Int) (hb : bound ≤ e.lastRecvFrame)
    (hL : e.lastRecvFrame ≠ NULL_FRAME) :
    RInv { e with recvInputs := e.recvInputs.filter fun p => decide (p.1 ≥ bound) } S ∧
    ({ e with recvInputs := e.recvInputs.filter fun p => decide (p.1 ≥ bound) } : Endpoint).lastRecvFrame = e.lastRecvFrame := by
  have hnew := h.newest hL
  have hmemL : (e.lastRecvFrame, S.item e.lastRecvFrame) ∈ e.recvInputs := alookup_some_mem _ _ _ hnew
  have hkeepL : (e.lastRecvFrame, S.item e.lastRecvFrame) ∈ e.recvInputs.filter (fun p => decide (p.1 ≥ bound)) :=
    List.mem_filter.mpr ⟨hmemL, by simpa using hb⟩
  have hne : e.recvInputs.filter (fun p => decide (p.1 ≥ bound)) ≠ [] := by
    intro h0; rw [h0] at hkeepL; cases hkeepL
  have hub := (maxKey_spec e.recvInputs h.nonempty).1
  have hlast : ({ e with recvInputs := e.recvInputs.filter fun p => decide (p.1 ≥ bound) } : Endpoint).lastRecvFrame = e.lastRecvFrame := by
    rw [lastRecvFrame_eq]
    apply maxKey_unique _ hne
    · intro p hp
      rw [lastRecvFrame_eq]
      exact hub p (List.mem_filter.mp hp).1
    · exact ⟨_, hkeepL, rfl⟩
  refine ⟨⟨hne, by rw [hlast]; exact h.range, ?_, ?_, ?_, h.width, h.itemWidth⟩, hlast⟩
  · intro f b hf
    rw [hlast]
    have hmem := alookup_some_mem _ _ _ hf
    have hk : decide (f ≥ bound) = true := (List.mem_filter.mp hmem).2
    have : alookup f e.recvInputs = some b := by
      rw [← alookup_filter f (fun k => decide (k ≥ bound)) hk e.recvInputs]; exact hf
    exact h.entries f b this
  · intro _
    rw [hlast]
    show alookup e.lastRecvFrame (e.recvInputs.filter fun p => decide (p.1 ≥ bound)) = _
    rw [alookup_filter e.lastRecvFrame (fun k => decide (k ≥ bound)) (by simpa using hb)]
    exact hnew
  · intro h0; rw [hlast] at h0; exact absurd h0 hL

/-- **One sender packet.** Handling the payload `encode(ref, S[start .. start+n))` of a packet that
starts at `start` keeps the receiver's invariant, never moves its newest frame backwards, and
raises exactly the Input events of the frames between its old and its new newest frame, in order
and without a gap — whichever frames of the packet the receiver already had. -/
theorem L_stream_packet (e : Endpoint) (S : SStream) (now : Nat) (start : Int) (n : Nat)
    (h : RInv e S) (hn : n ≥ 1) (hlo : (S.f0 : Int) ≤ start) (hhi : start + (n : Int) - 1 ≤ S.last)
    (hfirst : e.lastRecvFrame = NULL_FRAME → start = S.f0)
    (hsize : S.width ≤ 65535) (hcap : Codec.encodedSize (S.slice start n) ≤ MAX_DECODED_BYTES) :
    RInv (e.decodeInputs now start (Codec.encode (S.refAt start) (S.slice start n))) S ∧
    (e.decodeInputs now start (Codec.encode (S.refAt start) (S.slice start n))).handles = e.handles ∧
    (e.lastRecvFrame = NULL_FRAME →
      (e.decodeInputs now start (Codec.encode (S.refAt start) (S.slice start n))).lastRecvFrame ≠ NULL_FRAME) ∧
    (e.decodeInputs now start (Codec.encode (S.refAt start) (S.slice start n))).lastRecvFrame ≥ e.lastRecvFrame ∧
    (e.decodeInputs now start (Codec.encode (S.refAt start) (S.slice start n))).eventQueue =
      e.eventQueue ++ evsRange S e.handles (nextFrame e S)
        (nextFrame (e.decodeInputs now start (Codec.encode (S.refAt start) (S.slice start n))) S - nextFrame e S).toNat ∧
    (e.decodeInputs now start (Codec.encode (S.refAt start) (S.slice start n))).sendQueue =
      e.sendQueue ++ [⟨e.magic, .inputAck
        (e.decodeInputs now start (Codec.encode (S.refAt start) (S.slice start n))).lastRecvFrame⟩] ∧
    (e.decodeInputs now start (Codec.encode (S.refAt start) (S.slice start n))).lastRecvFrame
      ≤ max e.lastRecvFrame (start + (n : Int) - 1) ∧
    (start = nextFrame e S →
      (e.decodeInputs now start (Codec.encode (S.refAt start) (S.slice start n))).lastRecvFrame = start + (n : Int) - 1) ∧
    (∀ ref inputs, alookup (if e.lastRecvFrame == NULL_FRAME then NULL_FRAME else start - 1) e.recvInputs = some ref →
      Codec.decode ref (Codec.encode (S.refAt start) (S.slice start n)) = .ok inputs →
      (Endpoint.acceptInputs { e with runningLastInputRecv := now } start inputs 0).2 = true) := by
  have hnull : NULL_FRAME = (-1 : Int) := rfl
  unfold Endpoint.decodeInputs
  simp only
  cases hlk : alookup (if e.lastRecvFrame == NULL_FRAME then NULL_FRAME else start - 1) e.recvInputs with
  | none =>
    -- not decodable: acknowledged, nothing else changes
    simp only
    have hr : (e.sendInputAck now).recvInputs = e.recvInputs := rfl
    have hcontra : e.lastRecvFrame ≠ NULL_FRAME := by
      intro h0
      have h0' : (e.lastRecvFrame == NULL_FRAME) = true := by simp [h0]
      simp only [h0', if_true] at hlk
      rw [h.fresh h0] at hlk
      cases hlk
    refine ⟨RInv_congr h hr rfl, rfl, fun h0 => absurd h0 hcontra,
      by rw [lastRecvFrame_eq, lastRecvFrame_eq, hr]; exact Int.le_refl _, ?_, ?_, ?_, ?_, ?_⟩
    rotate_left 4
    · intro ref inputs h1 _
      cases h1
    · rw [nextFrame_congr hr]
      simp [evsRange, Endpoint.sendInputAck, Endpoint.queueMessage]
    · have hl : (e.sendInputAck now).lastRecvFrame = e.lastRecvFrame := by
        rw [lastRecvFrame_eq, lastRecvFrame_eq, hr]
      rw [hl]; rfl
    · have hl : (e.sendInputAck now).lastRecvFrame = e.lastRecvFrame := by
        rw [lastRecvFrame_eq, lastRecvFrame_eq, hr]
      rw [hl]; exact Int.le_max_left _ _
    · -- a packet that starts at the frame the receiver is waiting for is always decodable
      intro hst
      exfalso
      have h0' : (e.lastRecvFrame == NULL_FRAME) = false := by simpa using hcontra
      simp only [h0', Bool.false_eq_true, if_false] at hlk
      unfold nextFrame at hst
      rw [if_neg hcontra] at hst
      have : start - 1 = e.lastRecvFrame := by omega
      rw [this, h.newest hcontra] at hlk
      cases hlk
  | some reference =>
    simp only
    -- the reference the receiver found is the one the sender encoded against
    have href : reference = S.refAt start ∧ (e.lastRecvFrame ≠ NULL_FRAME → start ≤ e.lastRecvFrame + 1) := by
      by_cases h0 : e.lastRecvFrame = NULL_FRAME
      · have h0' : (e.lastRecvFrame == NULL_FRAME) = true := by simp [h0]
        simp only [h0', if_true] at hlk
        rw [h.fresh h0] at hlk
        cases hlk
        refine ⟨?_, fun hne => absurd h0 hne⟩
        unfold SStream.refAt
        simp [hfirst h0]
      · have h0' : (e.lastRecvFrame == NULL_FRAME) = false := by simpa using h0
        simp only [h0', Bool.false_eq_true, if_false] at hlk
        rcases h.entries _ _ hlk with ⟨h1, h2⟩ | ⟨h1, h2, h3⟩
        · -- the blank reference is still there and start = 0
          have hs0 : start = 0 := by rw [hnull] at h1; omega
          refine ⟨?_, fun _ => ?_⟩
          · unfold SStream.refAt
            have : start = (S.f0 : Int) := by omega
            simp [this, h2]
          · rcases h.range with hr | ⟨hr, _⟩
            · exact absurd hr h0
            · omega
        · refine ⟨?_, fun _ => by omega⟩
          unfold SStream.refAt
          have : ¬ start = (S.f0 : Int) := by omega
          simp [this, h3]
    rw [href.1]
    -- the payload decodes to the slice
    have hdec : Codec.decode (S.refAt start) (Codec.encode (S.refAt start) (S.slice start n)) = .ok (S.slice start n) := by
      apply Codec.C14_roundtrip _ _ _ hcap
      intro x hx
      rw [h.itemWidth x (slice_mem S start n x hx)]
      exact hsize
    simp only [hdec]
    unfold Endpoint.acceptDecoded
    simp only
    -- the loop
    have h1 : RInv ({ e with runningLastInputRecv := now } : Endpoint) S := RInv_congr h rfl rfl
    have hL1 : ({ e with runningLastInputRecv := now } : Endpoint).lastRecvFrame = e.lastRecvFrame := by
      rw [lastRecvFrame_eq, lastRecvFrame_eq]
    have hslen := slice_length S start n hlo hhi
    obtain ⟨e2, hacc, hinv2, hh2, hsq2, hmp2, hmg2, _, hcons2, hev2⟩ :=
      acceptInputs_frame S (S.slice start n) ({ e with runningLastInputRecv := now } : Endpoint) start 0 h1
        (by intro j hj; rw [hslen] at hj; rw [slice_getD S start n j hlo hhi hj]; simp)
        (by simpa using hlo) (by rw [hslen]; simpa using hhi)
        (by intro h0; rw [hL1] at h0; simpa using hfirst h0)
        (by intro h0; rw [hL1] at h0 ⊢; simpa using href.2 h0)
    rw [hacc]
    simp only [Bool.not_true, Bool.false_eq_true, if_false]
    have hsne : S.slice start n ≠ [] := by
      intro h0; rw [h0] at hslen; simp at hslen; omega
    have hL2 : e2.lastRecvFrame = max e.lastRecvFrame (start + (n : Int) - 1) := by
      rw [hcons2 hsne, hL1, hslen]; simp
    have hL2ne : e2.lastRecvFrame ≠ NULL_FRAME := by
      rw [hL2, hnull]
      have : start + (n : Int) - 1 ≥ 0 := by omega
      have := Int.le_max_right e.lastRecvFrame (start + (n : Int) - 1)
      omega
    -- acknowledge and prune
    have hr3 : (e2.sendInputAck now).recvInputs = e2.recvInputs := rfl
    have hinv3 : RInv (e2.sendInputAck now) S := RInv_congr hinv2 hr3 rfl
    have hL3 : (e2.sendInputAck now).lastRecvFrame = e2.lastRecvFrame := by
      rw [lastRecvFrame_eq, lastRecvFrame_eq, hr3]
    obtain ⟨hinv4, hL4⟩ := RInv_prune (e2.sendInputAck now) S hinv3
      ((e2.sendInputAck now).lastRecvFrame - 2 * ((e2.sendInputAck now).maxPrediction : Int)) (by omega)
      (by rw [hL3]; exact hL2ne)
    refine ⟨hinv4, ?_, ?_, ?_, ?_, ?_, ?_, ?_, ?_⟩
    rotate_left 7
    · intro ref' inputs' h1 h2
      cases h1
      rw [hdec] at h2
      cases h2
      rw [hacc]
    rotate_left 4
    · rw [hL4, hL3]
      show e2.sendQueue ++ [⟨e2.magic, .inputAck e2.lastRecvFrame⟩] = _
      rw [hsq2, hmg2]
    · rw [hL4, hL3, hL2]; exact Int.le_refl _
    · intro hst
      rw [hL4, hL3, hL2]
      unfold nextFrame at hst
      by_cases h0 : e.lastRecvFrame = NULL_FRAME
      · rw [h0, hnull]
        have : start + (n : Int) - 1 ≥ 0 := by omega
        omega
      · rw [if_neg h0] at hst
        omega
    · show e2.handles = e.handles
      rw [hh2]
    · intro _; rw [hL4, hL3]; exact hL2ne
    · rw [hL4, hL3, hL2]; exact Int.le_max_left _ _
    · rw [nextFrame_of_last (hL4.trans hL3)]
      show e2.eventQueue = _
      rw [hev2]
      have : nextFrame ({ e with runningLastInputRecv := now } : Endpoint) S = nextFrame e S := nextFrame_congr rfl
      rw [this]


theorem evsRange_append (S : SStream) (hs : List Nat) : ∀ (k m : Nat) (a : Int),
    evsRange S hs a k ++ evsRange S hs (a + (k : Int)) m = evsRange S hs a (k + m) := by
  intro k
  induction k with
  | zero => intro m a; simp [evsRange]
  | succ k ih =>
    intro m a
    have : k + 1 + m = (k + m) + 1 := by omega
    rw [this]
    simp only [evsRange, List.append_assoc]
    congr 1
    have h2 : a + ((k + 1 : Nat) : Int) = a + 1 + (k : Int) := by push_cast; omega
    rw [h2]
    exact ih m (a + 1)

/-- A packet of the sender: `n ≥ 1` consecutive frames of the stream starting at `start`. -/
structure PacketOk (S : SStream) (p : Int × Nat) : Prop where
  pos : p.2 ≥ 1
  lo : (S.f0 : Int) ≤ p.1
  hi : p.1 + (p.2 : Int) - 1 ≤ S.last
  cap : Codec.encodedSize (S.slice p.1 p.2) ≤ MAX_DECODED_BYTES

def runPackets (S : SStream) (now : Nat) : Endpoint → List (Int × Nat) → Endpoint
  | e, [] => e
  | e, p :: rest =>
    runPackets S now (e.decodeInputs now p.1 (Codec.encode (S.refAt p.1) (S.slice p.1 p.2))) rest

theorem nextFrame_mono {e e' : Endpoint} {S : SStream} (hinv : RInv e S)
    (hge : e'.lastRecvFrame ≥ e.lastRecvFrame)
    (hne : e.lastRecvFrame = NULL_FRAME → e'.lastRecvFrame = NULL_FRAME ∨ (S.f0 : Int) ≤ e'.lastRecvFrame) :
    nextFrame e' S ≥ nextFrame e S := by
  have hnull : NULL_FRAME = (-1 : Int) := rfl
  unfold nextFrame
  by_cases h0 : e.lastRecvFrame = NULL_FRAME
  · simp only [h0, if_true]
    rcases hne h0 with h1 | h1
    · simp [h1]
    · have : e'.lastRecvFrame ≠ NULL_FRAME := by rw [hnull]; omega
      simp only [this, if_false]; omega
  · have : e'.lastRecvFrame ≠ NULL_FRAME := by
      rcases hinv.range with hr | ⟨hr, _⟩
      · exact absurd hr h0
      · rw [hnull]; omega
    simp only [h0, this, if_false]; omega

/-- **L-stream.** Start from a receiver satisfying the invariant (a fresh endpoint does). Deliver
ANY sequence of the sender's packets — any subset, in any order, with any repetitions, as long as
the very first one the receiver ever sees starts at the stream's first frame (the sender cannot
have advanced its window before anything was acknowledged). Then the receiver still satisfies the
invariant, and the Input events it raised are exactly the events of the frames between its old
and its new newest frame: a gapless, duplicate-free, in-order extension of what it had handed out
before — a prefix of the sender's stream. -/
theorem L_stream_run (S : SStream) (now : Nat) (hsize : S.width ≤ 65535) :
    ∀ (packets : List (Int × Nat)) (e : Endpoint),
    RInv e S → (∀ p ∈ packets, PacketOk S p) →
    (e.lastRecvFrame = NULL_FRAME → ∀ p, packets.head? = some p → p.1 = S.f0) →
    RInv (runPackets S now e packets) S ∧
    (runPackets S now e packets).lastRecvFrame ≥ e.lastRecvFrame ∧
    (runPackets S now e packets).eventQueue = e.eventQueue ++
      evsRange S e.handles (nextFrame e S) (nextFrame (runPackets S now e packets) S - nextFrame e S).toNat := by
  intro packets
  induction packets with
  | nil => intro e h _ _; exact ⟨h, Int.le_refl _, by simp [runPackets, evsRange]⟩
  | cons p rest ih =>
    intro e h hok hfirst
    have hp := hok p List.mem_cons_self
    obtain ⟨hinv1, hh1, hne1, hge1, hev1, _, _, _, _⟩ := L_stream_packet e S now p.1 p.2 h hp.pos hp.lo hp.hi
      (fun h0 => hfirst h0 p rfl) hsize hp.cap
    simp only [runPackets]
    generalize he1 : e.decodeInputs now p.1 (Codec.encode (S.refAt p.1) (S.slice p.1 p.2)) = e1 at *
    obtain ⟨hinv2, hge2, hev2⟩ := ih e1 hinv1 (fun q hq => hok q (List.mem_cons_of_mem _ hq))
      (fun h0 => by
        by_cases hz : e.lastRecvFrame = NULL_FRAME
        · exact absurd h0 (hne1 hz)
        · exfalso
          have hnull : NULL_FRAME = (-1 : Int) := rfl
          rcases h.range with hr | ⟨hr, _⟩
          · exact hz hr
          · rw [h0, hnull] at hge1; omega)
    refine ⟨hinv2, Int.le_trans hge1 hge2, ?_⟩
    rw [hev2, hev1, hh1, List.append_assoc]
    congr 1
    have hm1 : nextFrame e1 S ≥ nextFrame e S := nextFrame_mono h hge1 (fun h0 => by
      rcases hinv1.range with hr | ⟨hr, _⟩
      · exact Or.inl hr
      · exact Or.inr hr)
    have hm2 : nextFrame (runPackets S now e1 rest) S ≥ nextFrame e1 S := nextFrame_mono hinv1 hge2 (fun h0 => by
      rcases hinv2.range with hr | ⟨hr, _⟩
      · exact Or.inl hr
      · exact Or.inr hr)
    have e1eq : nextFrame e S + (((nextFrame e1 S - nextFrame e S).toNat : Nat) : Int) = nextFrame e1 S := by omega
    have ksum : (nextFrame (runPackets S now e1 rest) S - nextFrame e S).toNat =
        (nextFrame e1 S - nextFrame e S).toNat + (nextFrame (runPackets S now e1 rest) S - nextFrame e1 S).toNat := by omega
    rw [ksum, ← evsRange_append, e1eq]

end Ggrs

namespace Ggrs
open Codec (Bytes)

/-- A freshly constructed endpoint satisfies the receiver invariant for any stream of the right
width (non-vacuity of `L_stream_run`). -/
theorem RInv_new (handles : List Nat) (peerAddr numPlayers localPlayers maxPrediction dt dn fps : Nat)
    (desync : Option Nat) (magic now : Nat) (S : SStream)
    (hw : S.width = INPUT_SIZE * handles.length) (hh : handles.length > 0)
    (hitems : ∀ b ∈ S.items, b.length = S.width) :
    RInv (Endpoint.new handles peerAddr numPlayers localPlayers maxPrediction dt dn fps desync magic now) S := by
  have hlen : (handles.mergeSort (· ≤ ·)).length = handles.length := List.length_mergeSort _
  have hL : (Endpoint.new handles peerAddr numPlayers localPlayers maxPrediction dt dn fps desync magic now).lastRecvFrame = NULL_FRAME := by
    simp [Endpoint.new, Endpoint.lastRecvFrame]
  refine ⟨by simp [Endpoint.new], Or.inl hL, ?_, fun h0 => absurd hL h0, ?_, ?_, hitems⟩
  · intro f b hf
    simp only [Endpoint.new, alookup] at hf
    split at hf
    · rename_i hk
      cases hf
      left
      refine ⟨(by simpa using hk : NULL_FRAME = f).symm, ?_⟩
      simp [SStream.zerosB, hw, hlen]
    · cases hf
  · intro _
    simp [Endpoint.new, alookup, SStream.zerosB, hw, hlen]
  · simp only [Endpoint.new, hlen]
    exact ⟨hw, hh⟩

end Ggrs
