/-
L-drop (sync level): the rollback core with players marked disconnected.

`synchronized_inputs` skips the queue of a player that is marked disconnected as of a frame before
the one being simulated and hands the game the blank input with status Disconnected instead. So a
dead player's queue lags behind: it is "at" frame `min cur (last_frame + 1)` (`pcur`). Once the
confirmed frame has passed its last frame, `discard_confirmed_frames` empties it for good; from then
on the player is `gone`: nothing is known (or needed) about its queue but a clear
`first_incorrect_frame`, and every frame simulated from then on lies beyond its last frame.
-/
import GgrsModel.Proofs.Timeline
import GgrsModel.Proofs.Earliest

namespace Ggrs
open InputQueue

/-- The frame a player's queue is at: the session's frame, or — for a player marked disconnected —
at most the frame after its last one. -/
def pcur (cs : ConnStatus) (cur : Int) : Int :=
  if cs.disconnected = true then min cur (cs.lastFrame + 1) else cur

theorem pcur_le (cs : ConnStatus) (cur : Int) : pcur cs cur ≤ cur := by
  unfold pcur; split
  · exact Int.min_le_left _ _
  · exact Int.le_refl _

/-- `synchronized_inputs` skips this player at frame `cur`. -/
def Skip (cs : ConnStatus) (cur : Int) : Prop := cs.disconnected = true ∧ cs.lastFrame < cur

instance (cs : ConnStatus) (cur : Int) : Decidable (Skip cs cur) := by unfold Skip; infer_instance

theorem pcur_skip (cs : ConnStatus) (cur : Int) (h : Skip cs cur) : pcur cs cur = cs.lastFrame + 1 := by
  unfold pcur; rw [if_pos h.1]; have := h.2; omega

theorem pcur_skip_succ (cs : ConnStatus) (cur : Int) (h : Skip cs cur) : pcur cs (cur + 1) = pcur cs cur := by
  simp only [pcur, if_pos h.1]; have := h.2; omega

theorem pcur_noskip (cs : ConnStatus) (cur : Int) (h : ¬ Skip cs cur) : pcur cs cur = cur := by
  unfold pcur Skip at *
  split
  · rename_i hd
    have : ¬ cs.lastFrame < cur := fun hl => h ⟨hd, hl⟩
    omega
  · rfl

theorem pcur_noskip_succ (cs : ConnStatus) (cur : Int) (h : ¬ Skip cs cur) : pcur cs (cur + 1) = cur + 1 := by
  unfold pcur Skip at *
  split
  · rename_i hd
    have : ¬ cs.lastFrame < cur := fun hl => h ⟨hd, hl⟩
    omega
  · rfl

/-- The column beyond the queue's frame is not constrained. -/
theorem QI_congr_T (pr : Predictor) (q : InputQueue) (s : QSpec) (H : Hist) (Tp Tp' : Nat → Input) (cur : Int)
    (h : QI pr q s H Tp cur) (he : ∀ f : Nat, (f : Int) < cur → Tp' f = Tp f) : QI pr q s H Tp' cur := by
  refine ⟨h.ring, h.pt, ⟨?_, h.tl.predicting, h.tl.lastReq⟩⟩
  intro f hf
  rw [he f hf]
  exact h.tl.col f hf

/-- `synchronized_inputs` for arbitrary connection statuses: a skipped player gets the blank
input with status Disconnected and its queue is not touched; every other queue is asked. -/
theorem syncLoopD (pr : Predictor) (cur : Frame) : ∀ (statuses : List ConnStatus) (i : Nat)
    (qs : List InputQueue) (acc : List (Input × InputStatus)) (qs' : List InputQueue)
    (out : List (Input × InputStatus)),
    SyncLayer.synchronizedInputsLoop pr cur statuses i qs acc = .ok (qs', out) →
    qs'.length = qs.length ∧ ∃ vs : List (Input × InputStatus), out = acc.reverse ++ vs ∧
      vs.length = statuses.length ∧
      (∀ p, (p < i ∨ i + statuses.length ≤ p) → rget qs' p = rget qs p) ∧
      (∀ k, k < statuses.length →
        (Skip (rget statuses k) cur → rget qs' (i + k) = rget qs (i + k) ∧ vs.getD k default = (0, .disconnected)) ∧
        (¬ Skip (rget statuses k) cur → i + k < qs.length ∧
          (rget qs (i + k)).input pr cur = .ok (rget qs' (i + k), (vs.getD k default).1, (vs.getD k default).2))) := by
  intro statuses
  induction statuses with
  | nil =>
    intro i qs acc qs' out h
    simp only [SyncLayer.synchronizedInputsLoop] at h
    cases h
    exact ⟨rfl, [], by simp, rfl, fun _ _ => rfl, fun k hk => by simp at hk⟩
  | cons cs rest ih =>
    intro i qs acc qs' out h
    by_cases hsk : Skip cs cur
    · have hc : (cs.disconnected && decide (cs.lastFrame < cur)) = true := by
        simp only [Bool.and_eq_true, decide_eq_true_eq]; exact hsk
      simp only [SyncLayer.synchronizedInputsLoop, hc, if_true] at h
      obtain ⟨hlen, vs, hout, hvl, hsame, hstep⟩ := ih (i + 1) qs ((0, .disconnected) :: acc) qs' out h
      refine ⟨hlen, (0, .disconnected) :: vs, by rw [hout]; simp, by simp [hvl], ?_, ?_⟩
      · intro p hp
        simp only [List.length_cons] at hp
        exact hsame p (by omega)
      · intro k hk
        simp only [List.length_cons] at hk
        cases k with
        | zero =>
          refine ⟨fun _ => ⟨?_, by simp⟩, fun hn => absurd (by simpa [rget] using hsk) hn⟩
          simp only [Nat.add_zero]
          exact hsame i (Or.inl (by omega))
        | succ k =>
          obtain ⟨h1, h2⟩ := hstep k (by omega)
          have e : i + 1 + k = i + (k + 1) := by omega
          have er : rget (cs :: rest) (k + 1) = rget rest k := by simp [rget]
          rw [e] at h1 h2
          rw [er]
          simp only [List.getD_cons_succ]
          exact ⟨h1, h2⟩
    · have hc : (cs.disconnected && decide (cs.lastFrame < cur)) = false := by
        cases hb : (cs.disconnected && decide (cs.lastFrame < cur)) with
        | false => rfl
        | true =>
          simp only [Bool.and_eq_true, decide_eq_true_eq] at hb
          exact absurd hb hsk
      simp only [SyncLayer.synchronizedInputsLoop, hc, Bool.false_eq_true, if_false] at h
      obtain ⟨hi, h⟩ := ensure_bind_ok h
      have hi' : i < qs.length := by simpa using hi
      obtain ⟨r, hin, h⟩ := bind_ok h
      obtain ⟨q, v, st⟩ := r
      simp only at h
      obtain ⟨hlen, vs, hout, hvl, hsame, hstep⟩ := ih (i + 1) (rset qs i q) ((v, st) :: acc) qs' out h
      rw [rset_length] at hlen
      refine ⟨hlen, (v, st) :: vs, by rw [hout]; simp, by simp [hvl], ?_, ?_⟩
      · intro p hp
        simp only [List.length_cons] at hp
        have : p ≠ i := by omega
        rw [hsame p (by omega), rget_rset_ne _ _ _ _ (fun h => this h.symm)]
      · intro k hk
        simp only [List.length_cons] at hk
        cases k with
        | zero =>
          refine ⟨fun hs => absurd (by simpa [rget] using hs) hsk, fun _ => ⟨by omega, ?_⟩⟩
          simp only [Nat.add_zero, List.getD_cons_zero]
          rw [hsame i (Or.inl (by omega)), rget_rset_eq _ _ _ hi']
          exact hin
        | succ k =>
          obtain ⟨h1, h2⟩ := hstep k (by omega)
          have e : i + 1 + k = i + (k + 1) := by omega
          have er : rget (cs :: rest) (k + 1) = rget rest k := by simp [rget]
          rw [e] at h1 h2
          rw [rget_rset_ne _ _ _ _ (by omega)] at h1 h2
          rw [rset_length] at h2
          rw [er]
          simp only [List.getD_cons_succ]
          exact ⟨h1, h2⟩

/-- Per-player ghost state, plus which dead players' queues have been given up. -/
structure DGhost where
  specs : Nat → QSpec
  hists : Nat → Hist
  T : Nat → Nat → Input
  gone : Nat → Prop

/-- What is still known about a player whose queue has been emptied: it is marked disconnected as
of a frame before the current one, its queue flags nothing, and its column is right up to its last
frame. -/
structure GoneOk (q : InputQueue) (cs : ConnStatus) (sp : QSpec) (Tp : Nat → Input) (cur : Int) : Prop where
  dead : cs.disconnected = true
  lt : cs.lastFrame < cur
  clean : q.firstIncorrectFrame = NULL_FRAME
  right : ∀ f : Nat, (f : Int) ≤ cs.lastFrame → f < sp.vals.length → Tp f = sp.vals.getD f 0
  /-- the ring slots still hold the stream (only `tail` and `length` are off) -/
  ring : Refines q.strip sp

/-- `discard_confirmed_frames`, whatever it is asked to discard, leaves the slots alone. -/
theorem refines_discard_any (q q' : InputQueue) (s : QSpec) (f : Frame) (hr : Refines q.strip s)
    (hd : q.discardConfirmedFrames f = .ok q') : Refines q'.strip s := by
  have keepR : ∀ (t l : Nat), Refines ({ q with tail := t, length := l } : InputQueue).strip s := fun t l =>
    ⟨hr.len, hr.head, hr.first, hr.lastAdded, hr.lastUser, hr.delay, hr.noPrediction, hr.slots, hr.empty⟩
  unfold InputQueue.discardConfirmedFrames at hd
  simp only at hd
  generalize (if (q.lastRequestedFrame != NULL_FRAME) = true then min f q.lastRequestedFrame else f) = f' at hd
  by_cases h1 : f' ≥ q.lastAddedFrame
  · simp only [h1, if_true] at hd
    cases hd; exact keepR _ _
  · simp only [h1, if_false] at hd
    by_cases h2 : f' ≤ (rget q.inputs q.tail).frame
    · simp only [h2, if_true] at hd
      cases hd; exact hr
    · simp only [h2, if_false] at hd
      by_cases h3 : (f' - (rget q.inputs q.tail).frame).toNat > q.length
      · simp only [h3, if_true] at hd; cases hd
      · simp only [h3, if_false] at hd
        cases hd; exact keepR _ _

theorem refines_reset (q : InputQueue) (s : QSpec) (hr : Refines q.strip s) : Refines q.resetPrediction.strip s :=
  ⟨hr.len, hr.head, hr.first, hr.lastAdded, hr.lastUser, hr.delay, hr.noPrediction, hr.slots, hr.empty⟩

structure SyncInvD (pr : Predictor) (sy : SyncLayer) (st : List ConnStatus) (gh : DGhost) : Prop where
  cur : 0 ≤ sy.currentFrame
  nq : st.length = sy.queues.length
  gone : ∀ p, p < sy.queues.length → gh.gone p →
    GoneOk (rget sy.queues p) (rget st p) (gh.specs p) (gh.T p) sy.currentFrame
  live : ∀ p, p < sy.queues.length → ¬ gh.gone p →
    QI pr (rget sy.queues p) (gh.specs p) (gh.hists p) (gh.T p) (pcur (rget st p) sy.currentFrame)

/-- One simulated frame's inputs: the blank input with status Disconnected for a player marked
disconnected as of an earlier frame; otherwise the real input (Confirmed) or — only if it has not
arrived — the fresh prediction (Predicted). -/
def InputsOkD (pr : Predictor) (gh : DGhost) (st : List ConnStatus) (cur : Nat) (vs : List (Input × InputStatus)) : Prop :=
  ∀ p, p < vs.length →
    (Skip (rget st p) cur → vs.getD p default = (0, .disconnected)) ∧
    (¬ Skip (rget st p) cur →
      (((vs.getD p default).2 = .confirmed ∧ cur < (gh.specs p).vals.length ∧
          (vs.getD p default).1 = (gh.specs p).vals.getD cur 0) ∨
       ((vs.getD p default).2 = .predicted ∧ (gh.specs p).vals.length ≤ cur ∧
          (vs.getD p default).1 = predValue pr (gh.specs p).vals)))

open Classical in
/-- `synchronized_inputs` + `advance_frame`: one simulated frame, with dead players. -/
theorem SyncInvD_simulate (pr : Predictor) (sy sy' : SyncLayer) (st : List ConnStatus) (gh : DGhost)
    (inputs : List (Input × InputStatus))
    (h : SyncInvD pr sy st gh) (hs : sy.synchronizedInputs pr st = .ok (sy', inputs)) :
    ∃ (c : Nat) (gh' : DGhost), sy.currentFrame = (c : Int) ∧
      sy'.queues.length = sy.queues.length ∧ inputs.length = sy.queues.length ∧
      sy'.cells = sy.cells ∧ sy'.lastSavedFrame = sy.lastSavedFrame ∧ sy'.maxPrediction = sy.maxPrediction ∧
      sy'.lastConfirmedFrame = sy.lastConfirmedFrame ∧ sy'.currentFrame = sy.currentFrame ∧
      InputsOkD pr gh st c inputs ∧ gh'.specs = gh.specs ∧ gh'.gone = gh.gone ∧
      (∀ p, p < sy.queues.length → gh'.T p = upd (gh.T p) c (inputs.getD p default).1) ∧
      SyncInvD pr sy'.advanceFrame st gh' ∧
      (∀ p, p < sy.queues.length → Skip (rget st p) c → rget sy'.queues p = rget sy.queues p) ∧
      (∀ p, p < sy.queues.length → ¬ Skip (rget st p) c →
        Asked (rget sy'.queues p) ((c : Int) + 1) ∧ (rget sy'.queues p).firstIncorrectFrame = NULL_FRAME) := by
  obtain ⟨c, hc⟩ : ∃ c : Nat, sy.currentFrame = (c : Int) := ⟨sy.currentFrame.toNat, by have := h.cur; omega⟩
  unfold SyncLayer.synchronizedInputs at hs
  obtain ⟨r, hloop, hs⟩ := bind_ok hs
  obtain ⟨qs, ins⟩ := r
  have := pure_ok hs
  simp only [Prod.mk.injEq] at this
  obtain ⟨hsy', hins⟩ := this
  rw [hins, hc] at hloop
  obtain ⟨hl, vs, hout, hvl, _, hstep⟩ := syncLoopD pr (c : Int) st 0 sy.queues [] qs inputs hloop
  simp only [List.reverse_nil, List.nil_append] at hout
  subst hout
  have hn : st.length = sy.queues.length := h.nq
  -- the players that are asked
  have hreq : ∀ p, p < sy.queues.length → ¬ gh.gone p → ¬ Skip (rget st p) (c : Int) →
      ∃ H', QI pr (rget qs p) (gh.specs p) H' (upd (gh.T p) c (inputs.getD p default).1) ((c : Int) + 1) ∧
        Asked (rget qs p) ((c : Int) + 1) ∧ (rget qs p).firstIncorrectFrame = NULL_FRAME ∧
        (((inputs.getD p default).2 = .confirmed ∧ c < (gh.specs p).vals.length ∧
            (inputs.getD p default).1 = (gh.specs p).vals.getD c 0) ∨
         ((inputs.getD p default).2 = .predicted ∧ (gh.specs p).vals.length ≤ c ∧
            (inputs.getD p default).1 = predValue pr (gh.specs p).vals)) := by
    intro p hp hng hns
    obtain ⟨_, hin⟩ := (hstep p (by omega)).2 hns
    simp only [Nat.zero_add] at hin
    have hq := h.live p hp hng
    rw [hc, pcur_noskip _ _ hns] at hq
    exact QI_request pr _ _ _ _ _ c _ _ hq hin
  have hgs : ∀ p, p < sy.queues.length → gh.gone p → Skip (rget st p) (c : Int) := by
    intro p hp hg
    have := h.gone p hp hg
    exact ⟨this.dead, by rw [← hc]; exact this.lt⟩
  subst hsy'
  refine ⟨c, ⟨gh.specs,
      fun p => if hp : p < sy.queues.length ∧ ¬ gh.gone p ∧ ¬ Skip (rget st p) (c : Int)
        then (hreq p hp.1 hp.2.1 hp.2.2).choose else gh.hists p,
      fun p => if p < sy.queues.length then upd (gh.T p) c (inputs.getD p default).1 else gh.T p, gh.gone⟩,
    hc, hl, by rw [hvl, hn], rfl, rfl, rfl, rfl, rfl, ?_, rfl, rfl, ?_, ?_, ?_, ?_⟩
  · intro p hp
    rw [hvl, hn] at hp
    refine ⟨fun hsk => ((hstep p (by omega)).1 hsk).2, fun hns => ?_⟩
    have hng : ¬ gh.gone p := fun hg => hns (hgs p hp hg)
    exact (hreq p hp hng hns).choose_spec.2.2.2
  · intro p hp; simp only [hp, if_true]
  · refine ⟨by show 0 ≤ sy.currentFrame + 1; have := h.cur; omega, by show st.length = qs.length; rw [hl]; exact hn, ?_, ?_⟩
    · intro p hp hg
      have hp0 : p < sy.queues.length := by rw [← hl]; exact hp
      have hsk := hgs p hp0 hg
      have hgo := h.gone p hp0 hg
      have hq : rget qs p = rget sy.queues p := by
        have := ((hstep p (by omega)).1 hsk).1
        simpa using this
      show GoneOk (rget qs p) _ _ _ (sy.currentFrame + 1)
      rw [hq]
      refine ⟨hgo.dead, by have := hgo.lt; omega, hgo.clean, ?_, hgo.ring⟩
      intro f hf hlen
      simp only [hp0, if_true]
      have hlt := hgo.lt
      rw [hc] at hlt
      rw [upd_ne _ _ _ _ (by omega)]
      exact hgo.right f hf hlen
    · intro p hp hng
      have hp0 : p < sy.queues.length := by rw [← hl]; exact hp
      show QI pr (rget qs p) _ _ _ (pcur (rget st p) (sy.currentFrame + 1))
      rw [hc]
      by_cases hsk : Skip (rget st p) (c : Int)
      · have hq : rget qs p = rget sy.queues p := by
          have := ((hstep p (by omega)).1 hsk).1
          simpa using this
        have hcond : ¬ (p < sy.queues.length ∧ ¬ gh.gone p ∧ ¬ Skip (rget st p) (c : Int)) := fun hx => hx.2.2 hsk
        dsimp only
        rw [dif_neg hcond, if_pos hp0, hq, pcur_skip_succ _ _ hsk]
        have hqi := h.live p hp0 hng
        rw [hc] at hqi
        refine QI_congr_T pr _ _ _ _ _ _ hqi ?_
        intro f hf
        rw [pcur_skip _ _ hsk] at hf
        have := hsk.2
        rw [upd_ne _ _ _ _ (by omega)]
      · have hcond : p < sy.queues.length ∧ ¬ gh.gone p ∧ ¬ Skip (rget st p) (c : Int) := ⟨hp0, hng, hsk⟩
        dsimp only
        rw [dif_pos hcond, if_pos hp0, pcur_noskip_succ _ _ hsk]
        exact (hreq p hp0 hng hsk).choose_spec.1
  · intro p hp hsk
    have := ((hstep p (by omega)).1 hsk).1
    simpa using this
  · intro p hp hns
    have hng : ¬ gh.gone p := fun hg => hns (hgs p hp hg)
    exact ⟨(hreq p hp hng hns).choose_spec.2.1, (hreq p hp hng hns).choose_spec.2.2.1⟩

/-- The session invariant with the game-side view. `deadRows`: every frame the game has simulated
beyond the last frame of a player marked disconnected carries the blank input with status
Disconnected for that player. -/
structure TInvD (pr : Predictor) (sy : SyncLayer) (st : List ConnStatus) (gh : DGhost) (t0 : TLState)
    (reqs : List Request) : Prop where
  sync : SyncInvD pr sy st gh
  exec : (execReqs t0 reqs).cur = sy.currentFrame
  rows : ∀ p, p < sy.queues.length → ∀ f, gh.T p f = (((execReqs t0 reqs).R f).getD p default).1
  deadRows : ∀ p, p < sy.queues.length → (rget st p).disconnected = true → ∀ f : Nat,
    (rget st p).lastFrame < (f : Int) → (f : Int) < sy.currentFrame →
    ((execReqs t0 reqs).R f).getD p default = (0, .disconnected)

theorem SyncInvD_congr {pr sy sy2 st gh} (h : SyncInvD pr sy st gh) (hq : sy2.queues = sy.queues)
    (hc : sy2.currentFrame = sy.currentFrame) : SyncInvD pr sy2 st gh :=
  ⟨by rw [hc]; exact h.cur, by rw [hq]; exact h.nq, by rw [hq, hc]; exact h.gone, by rw [hq, hc]; exact h.live⟩

theorem TInvD_simulate (pr : Predictor) (sy sy' sy2 : SyncLayer) (st : List ConnStatus) (gh : DGhost)
    (t0 : TLState) (reqs mid : List Request) (inputs : List (Input × InputStatus))
    (h : TInvD pr sy st gh t0 reqs) (hs : sy.synchronizedInputs pr st = .ok (sy', inputs))
    (hmid : ∀ r ∈ mid, ∃ f, r = .save f)
    (hq : sy2.queues = sy'.queues) (hc : sy2.currentFrame = sy'.currentFrame) :
    ∃ (c : Nat) (gh' : DGhost), sy.currentFrame = (c : Int) ∧ InputsOkD pr gh st c inputs ∧
      gh'.specs = gh.specs ∧ gh'.gone = gh.gone ∧
      TInvD pr sy2.advanceFrame st gh' t0 (reqs ++ mid ++ [.advance inputs]) ∧
      sy2.advanceFrame.currentFrame = sy.currentFrame + 1 ∧
      sy2.advanceFrame.queues.length = sy.queues.length ∧ inputs.length = sy.queues.length ∧
      (∀ p, p < sy.queues.length → Skip (rget st p) c → rget sy2.advanceFrame.queues p = rget sy.queues p) ∧
      (∀ p, p < sy.queues.length → ¬ Skip (rget st p) c →
        Asked (rget sy2.advanceFrame.queues p) ((c : Int) + 1) ∧
        (rget sy2.advanceFrame.queues p).firstIncorrectFrame = NULL_FRAME) ∧
      sy'.lastSavedFrame = sy.lastSavedFrame ∧ sy'.currentFrame = sy.currentFrame := by
  obtain ⟨c, gh', hc0, hl, hil, _, hls, _, _, hcur', hok, hsp, hgo, hT, hinv, hsame, hask⟩ :=
    SyncInvD_simulate pr sy sy' st gh inputs h.sync hs
  have hmidexec : ∀ (t : TLState), execReqs t mid = t := by
    intro t
    induction mid generalizing t with
    | nil => rfl
    | cons r rest ih =>
      obtain ⟨f, hf⟩ := hmid r List.mem_cons_self
      simp only [execReqs, List.foldl_cons, hf, execReq]
      exact ih (fun r hr => hmid r (List.mem_cons_of_mem _ hr)) t
  have hexec : execReqs t0 (reqs ++ mid ++ [.advance inputs]) =
      { cur := (execReqs t0 reqs).cur + 1, R := upd (execReqs t0 reqs).R (execReqs t0 reqs).cur.toNat inputs } := by
    rw [execReqs_append, execReqs_append, hmidexec]
    simp [execReqs, execReq]
  have hq2 : sy2.advanceFrame.queues = sy'.advanceFrame.queues := hq
  have hc2 : sy2.advanceFrame.currentFrame = sy'.advanceFrame.currentFrame := by
    show sy2.currentFrame + 1 = sy'.currentFrame + 1; rw [hc]
  have hcn : (execReqs t0 reqs).cur.toNat = c := by rw [h.exec, hc0]; simp
  refine ⟨c, gh', hc0, hok, hsp, hgo, ⟨SyncInvD_congr hinv hq2 hc2, ?_, ?_, ?_⟩,
    by rw [hc2]; show sy'.currentFrame + 1 = _; rw [hcur'], by rw [hq2]; exact hl, hil,
    by rw [hq2]; exact hsame, by rw [hq2]; exact hask, hls, hcur'⟩
  · rw [hexec, hc2]
    show (execReqs t0 reqs).cur + 1 = sy'.currentFrame + 1
    rw [h.exec, hcur']
  · intro p hp f
    rw [hq2] at hp
    have hp' : p < sy.queues.length := by rw [← hl]; exact hp
    rw [hexec, hT p hp']
    simp only
    rw [hcn]
    by_cases hf : f = c
    · subst hf; rw [upd_self, upd_self]
    · rw [upd_ne _ _ _ _ hf, upd_ne _ _ _ _ hf]; exact h.rows p hp' f
  · intro p hp hd f hlf hfc
    rw [hq2] at hp
    have hp' : p < sy.queues.length := by rw [← hl]; exact hp
    rw [hexec]
    simp only
    rw [hcn]
    rw [hc2] at hfc
    have hfc' : (f : Int) < (c : Int) + 1 := by
      have : sy'.advanceFrame.currentFrame = sy'.currentFrame + 1 := rfl
      rw [this, hcur', hc0] at hfc; exact hfc
    by_cases hf : f = c
    · subst hf
      rw [upd_self]
      have := (hok p (by rw [hil]; exact hp')).1 ⟨hd, hlf⟩
      exact this
    · rw [upd_ne _ _ _ _ hf]
      exact h.deadRows p hp' hd f hlf (by rw [hc0]; omega)

/-- The re-simulation loop of `adjust_gamestate` with dead players. -/
theorem resim_loopD (s : P2P) (mc : Frame) (t0 : TLState) : ∀ (n i : Nat) (sy : SyncLayer) (reqs : List Request)
    (sy' : SyncLayer) (reqs' : List Request) (gh : DGhost),
    TInvD s.pred sy s.localConnectStatus gh t0 reqs →
    (∀ p, p < sy.queues.length → (rget sy.queues p).firstIncorrectFrame = NULL_FRAME) →
    P2P.adjustGamestate.loop s mc n i sy reqs = .ok (sy', reqs') →
    ∃ gh' : DGhost, TInvD s.pred sy' s.localConnectStatus gh' t0 reqs' ∧ gh'.specs = gh.specs ∧ gh'.gone = gh.gone ∧
      sy'.currentFrame = sy.currentFrame + n ∧ sy'.queues.length = sy.queues.length ∧
      (∀ p, p < sy'.queues.length → (rget sy'.queues p).firstIncorrectFrame = NULL_FRAME) ∧
      (n > 0 → ∀ p, p < sy'.queues.length → (rget s.localConnectStatus p).disconnected = false →
        Asked (rget sy'.queues p) sy'.currentFrame) ∧
      (sy'.lastSavedFrame = sy.lastSavedFrame ∨ sy.currentFrame ≤ sy'.lastSavedFrame) := by
  intro n
  induction n with
  | zero =>
    intro i sy reqs sy' reqs' gh h hcl hl
    simp only [P2P.adjustGamestate.loop] at hl
    cases hl
    exact ⟨gh, h, rfl, rfl, by simp, rfl, hcl, fun h0 => absurd h0 (by omega), Or.inl rfl⟩
  | succ k ih =>
    intro i sy reqs sy' reqs' gh h hcl hl
    simp only [P2P.adjustGamestate.loop] at hl
    obtain ⟨r1, hsim, hl⟩ := bind_ok hl
    obtain ⟨sy1, inputs⟩ := r1
    simp only at hl
    obtain ⟨r2, hsave, hl⟩ := bind_ok hl
    obtain ⟨sy2, reqs2⟩ := r2
    simp only at hl
    have hmid : ∃ mid : List Request, reqs2 = reqs ++ mid ∧ (∀ r ∈ mid, ∃ f, r = .save f) ∧
        sy2.queues = sy1.queues ∧ sy2.currentFrame = sy1.currentFrame ∧
        (sy2.lastSavedFrame = sy1.lastSavedFrame ∨ sy2.lastSavedFrame = sy1.currentFrame) := by
      have keep : (pure (sy1, reqs) : M (SyncLayer × List Request)) = .ok (sy2, reqs2) →
          ∃ mid : List Request, reqs2 = reqs ++ mid ∧ (∀ r ∈ mid, ∃ f, r = .save f) ∧
            sy2.queues = sy1.queues ∧ sy2.currentFrame = sy1.currentFrame ∧
            (sy2.lastSavedFrame = sy1.lastSavedFrame ∨ sy2.lastSavedFrame = sy1.currentFrame) := by
        intro hp
        have := pure_ok hp
        simp only [Prod.mk.injEq] at this
        exact ⟨[], by rw [← this.2]; simp, (fun r hr => by cases hr), by rw [← this.1], by rw [← this.1],
          Or.inl (by rw [← this.1])⟩
      have sv : (do let (sync, r) ← sy1.saveCurrentState; pure (sync, reqs ++ [r]) : M (SyncLayer × List Request))
          = .ok (sy2, reqs2) →
          ∃ mid : List Request, reqs2 = reqs ++ mid ∧ (∀ r ∈ mid, ∃ f, r = .save f) ∧
            sy2.queues = sy1.queues ∧ sy2.currentFrame = sy1.currentFrame ∧
            (sy2.lastSavedFrame = sy1.lastSavedFrame ∨ sy2.lastSavedFrame = sy1.currentFrame) := by
        intro hp
        obtain ⟨r3, hs3, hp⟩ := bind_ok hp
        obtain ⟨sy3, rq⟩ := r3
        simp only at hp
        have := pure_ok hp
        simp only [Prod.mk.injEq] at this
        obtain ⟨hq3, hc3, hr3, hls3, _⟩ := save_fields sy1 sy3 rq hs3
        refine ⟨[rq], by rw [← this.2], ?_, by rw [← this.1, hq3], by rw [← this.1, hc3], Or.inr (by rw [← this.1, hls3])⟩
        intro r hr
        simp only [List.mem_singleton] at hr
        exact ⟨_, by rw [hr, hr3]⟩
      unfold P2P.resimSave at hsave
      by_cases hsp : s.sparse = true
      · simp only [hsp, if_true] at hsave
        by_cases hm : (sy1.currentFrame == mc) = true
        · simp only [hm, if_true] at hsave; exact sv hsave
        · simp only [hm, Bool.false_eq_true, if_false] at hsave; exact keep hsave
      · simp only [hsp, Bool.false_eq_true, if_false] at hsave
        by_cases hi : i > 0
        · simp only [hi, if_true] at hsave; exact sv hsave
        · simp only [hi, if_false] at hsave; exact keep hsave
    obtain ⟨mid, hr2, hmidsave, hq2, hc2, hls2⟩ := hmid
    obtain ⟨c, gh1, hc0, _, hsp1, hgo1, hinv1, hcur1, hlen1, _, hsame1, hask1, hls1, hcs1⟩ :=
      TInvD_simulate s.pred sy sy1 sy2 s.localConnectStatus gh t0 reqs mid inputs h hsim hmidsave hq2 hc2
    rw [hr2] at hl
    have hcl1 : ∀ p, p < sy2.advanceFrame.queues.length → (rget sy2.advanceFrame.queues p).firstIncorrectFrame = NULL_FRAME := by
      intro p hp
      rw [hlen1] at hp
      by_cases hsk : Skip (rget s.localConnectStatus p) (c : Int)
      · rw [hsame1 p hp hsk]; exact hcl p hp
      · exact (hask1 p hp hsk).2
    obtain ⟨gh', hinv', hsp', hgo', hcur', hql', hcl', hrest, hlsr⟩ := ih (i + 1) sy2.advanceFrame _ sy' reqs' gh1 hinv1 hcl1 hl
    have hls2' : sy2.advanceFrame.lastSavedFrame = sy.lastSavedFrame ∨ sy.currentFrame ≤ sy2.advanceFrame.lastSavedFrame := by
      show sy2.lastSavedFrame = _ ∨ _ ≤ sy2.lastSavedFrame
      rcases hls2 with hx | hx
      · left; rw [hx, hls1]
      · right; rw [hx, hcs1]; exact Int.le_refl _
    refine ⟨gh', hinv', by rw [hsp', hsp1], by rw [hgo', hgo1], by rw [hcur', hcur1]; push_cast; omega,
      by rw [hql', hlen1], hcl', fun _ => ?_, ?_⟩
    rotate_left
    · rcases hlsr with hx | hx
      · rw [hx]; exact hls2'
      · right; rw [hcur1] at hx; omega
    by_cases hk : k > 0
    · exact hrest hk
    · have hk0 : k = 0 := by omega
      subst hk0
      simp only [P2P.adjustGamestate.loop] at hl
      cases hl
      intro p hp hconn
      rw [hlen1] at hp
      have hns : ¬ Skip (rget s.localConnectStatus p) (c : Int) := fun hsk => by
        have := hsk.1; rw [hconn] at this; cases this
      have := (hask1 p hp hns).1
      rw [hcur1, hc0]; exact this

/-- `st1` is `st0` with some more players marked disconnected (their last frames unchanged). -/
structure Marks (st0 st1 : List ConnStatus) : Prop where
  len : st1.length = st0.length
  last : ∀ p, (rget st1 p).lastFrame = (rget st0 p).lastFrame
  mono : ∀ p, (rget st0 p).disconnected = true → (rget st1 p).disconnected = true

theorem Marks.refl (st : List ConnStatus) : Marks st st := ⟨rfl, fun _ => rfl, fun _ h => h⟩

theorem pcur_marks {st0 st1 : List ConnStatus} (hm : Marks st0 st1) (p : Nat) (r cur : Int) (hr : r ≤ cur) :
    pcur (rget st1 p) r ≤ pcur (rget st0 p) cur := by
  unfold pcur
  have hl := hm.last p
  by_cases h0 : (rget st0 p).disconnected = true
  · rw [if_pos h0, if_pos (hm.mono p h0), hl]; omega
  · rw [if_neg h0]
    split <;> omega

/-- Marking players whose last frame is not behind the current frame changes nothing. -/
theorem TInvD_marks (pr : Predictor) (sy : SyncLayer) (st0 st1 : List ConnStatus) (gh : DGhost) (t0 : TLState)
    (reqs : List Request) (h : TInvD pr sy st0 gh t0 reqs) (hm : Marks st0 st1)
    (hnew : ∀ p, p < sy.queues.length → (rget st0 p).disconnected = false → (rget st1 p).disconnected = true →
      sy.currentFrame ≤ (rget st0 p).lastFrame + 1) :
    TInvD pr sy st1 gh t0 reqs := by
  refine ⟨⟨h.sync.cur, by rw [hm.len]; exact h.sync.nq, ?_, ?_⟩, h.exec, h.rows, ?_⟩
  · intro p hp hg
    have := h.sync.gone p hp hg
    exact ⟨hm.mono p this.dead, by rw [hm.last]; exact this.lt, this.clean, by rw [hm.last]; exact this.right, this.ring⟩
  · intro p hp hng
    have hq := h.sync.live p hp hng
    have he : pcur (rget st1 p) sy.currentFrame = pcur (rget st0 p) sy.currentFrame := by
      unfold pcur
      by_cases h0 : (rget st0 p).disconnected = true
      · rw [if_pos h0, if_pos (hm.mono p h0), hm.last]
      · rw [if_neg h0]
        by_cases h1 : (rget st1 p).disconnected = true
        · rw [if_pos h1, hm.last]
          have := hnew p hp (by simpa using h0) h1
          omega
        · rw [if_neg h1]
    rw [he]; exact hq
  · intro p hp hd f hlf hfc
    rw [hm.last] at hlf
    by_cases h0 : (rget st0 p).disconnected = true
    · exact h.deadRows p hp h0 f hlf hfc
    · have := hnew p hp (by simpa using h0) hd
      omega

theorem earliest_gt (b : Int) : ∀ (qs : List InputQueue) (init : Frame),
    (init ≠ NULL_FRAME → b < init) → (∀ q ∈ qs, q.firstIncorrectFrame ≠ NULL_FRAME → b < q.firstIncorrectFrame) →
    SyncLayer.earliest qs init ≠ NULL_FRAME → b < SyncLayer.earliest qs init := by
  intro qs
  induction qs with
  | nil => intro init h0 _ hne; exact h0 hne
  | cons q qs ih =>
    intro init h0 hq hne
    simp only [SyncLayer.earliest, List.foldl_cons] at hne ⊢
    apply ih _ _ (fun x hx => hq x (List.mem_cons_of_mem _ hx)) hne
    split
    · rename_i hc
      simp only [Bool.and_eq_true, bne_iff_ne, ne_eq] at hc
      intro _
      exact hq q List.mem_cons_self hc.1
    · exact h0

/-- **`adjust_gamestate` with dead players.** The invariant before the call may be relative to an
older status list `st0` (players marked since then are still treated as alive in it); afterwards
it holds relative to the session's list: every re-simulated frame beyond a dead player's last
frame carries the blank input with status Disconnected. -/
theorem adjust_specD (s s' : P2P) (firstIncorrect mc : Frame) (t0 : TLState) (reqs reqs' : List Request)
    (gh : DGhost) (st0 : List ConnStatus) (h : TInvD s.pred s.sync st0 gh t0 reqs)
    (hm : Marks st0 s.localConnectStatus)
    (hfi : ∀ p, p < s.sync.queues.length → (rget s.sync.queues p).firstIncorrectFrame ≠ NULL_FRAME →
      firstIncorrect ≤ (rget s.sync.queues p).firstIncorrectFrame)
    (hnew : ∀ p, p < s.sync.queues.length → (rget st0 p).disconnected = false →
      (rget s.localConnectStatus p).disconnected = true →
      s.sync.currentFrame ≤ (rget st0 p).lastFrame + 1 ∨ firstIncorrect ≤ (rget st0 p).lastFrame + 1)
    (hgl : ∀ p, p < s.sync.queues.length → gh.gone p →
      (rget st0 p).lastFrame < (if s.sparse = true then s.sync.lastSavedFrame else firstIncorrect))
    (hadj : s.adjustGamestate firstIncorrect mc reqs = .ok (s', reqs')) :
    ∃ gh' : DGhost, TInvD s.pred s'.sync s.localConnectStatus gh' t0 reqs' ∧ gh'.specs = gh.specs ∧
      gh'.gone = gh.gone ∧
      s' = { s with sync := s'.sync } ∧ s'.sync.currentFrame = s.sync.currentFrame ∧
      s'.sync.queues.length = s.sync.queues.length ∧
      (∀ p, p < s'.sync.queues.length → (rget s.localConnectStatus p).disconnected = false →
        Asked (rget s'.sync.queues p) s'.sync.currentFrame) ∧
      (∀ p, p < s'.sync.queues.length → (rget s'.sync.queues p).firstIncorrectFrame = NULL_FRAME) ∧
      (s'.sync.lastSavedFrame = s.sync.lastSavedFrame ∨
        (if s.sparse = true then s.sync.lastSavedFrame else firstIncorrect) ≤ s'.sync.lastSavedFrame) := by
  unfold P2P.adjustGamestate at hadj
  simp only at hadj
  obtain ⟨hle, hadj⟩ := ensure_bind_ok hadj
  generalize hr : (if s.sparse = true then s.sync.lastSavedFrame else firstIncorrect) = r at hadj hle hgl
  have hle' : r ≤ firstIncorrect := by simpa using hle
  obtain ⟨p1, hload, hadj⟩ := bind_ok hadj
  obtain ⟨sy1, req⟩ := p1
  simp only at hadj
  obtain ⟨_, hadj⟩ := ensure_bind_ok hadj
  obtain ⟨p2, hloop, hadj⟩ := bind_ok hadj
  obtain ⟨sy2, reqs2⟩ := p2
  simp only at hadj
  obtain ⟨hback, hadj⟩ := ensure_bind_ok hadj
  have := pure_ok hadj
  simp only [Prod.mk.injEq] at this
  obtain ⟨hs', hreqs'⟩ := this
  obtain ⟨hsy1, hreq, hlt, h0⟩ := loadFrame_fields s.sync sy1 r req hload
  have hq : sy1.resetPrediction.queues = s.sync.queues.map InputQueue.resetPrediction := by rw [hsy1]; rfl
  have hc : sy1.resetPrediction.currentFrame = r := by rw [hsy1]; rfl
  have hR : (execReqs t0 (reqs ++ [req])).R = (execReqs t0 reqs).R := by
    rw [execReqs_append, hreq]; rfl
  have hinv1 : TInvD s.pred sy1.resetPrediction s.localConnectStatus
      { gh with hists := fun _ => [] } t0 (reqs ++ [req]) := by
    refine ⟨⟨by rw [hc]; exact h0, by rw [hq, List.length_map, hm.len]; exact h.sync.nq, ?_, ?_⟩, ?_, ?_, ?_⟩
    · intro p hp hg
      rw [hq, List.length_map] at hp
      have hgo := h.sync.gone p hp hg
      rw [hq, rget_map_lt _ _ _ hp, hc]
      exact ⟨hm.mono p hgo.dead, by rw [hm.last]; exact hgl p hp hg, rfl, by rw [hm.last]; exact hgo.right,
        refines_reset _ _ hgo.ring⟩
    · intro p hp hng
      rw [hq, List.length_map] at hp
      rw [hq, rget_map_lt _ _ _ hp, hc]
      have hpr : pcur (rget s.localConnectStatus p) r ≤ r := pcur_le _ _
      exact QI_reset s.pred _ _ _ _ _ _ (h.sync.live p hp hng) (pcur_marks hm p r _ (Int.le_of_lt hlt))
        (fun hne => Int.le_trans hpr (Int.le_trans hle' (hfi p hp hne)))
    · rw [execReqs_append, hreq, hc]; rfl
    · intro p hp f
      rw [hq, List.length_map] at hp
      rw [hR]
      exact h.rows p hp f
    · intro p hp hd f hlf hfc
      rw [hq, List.length_map] at hp
      rw [hc] at hfc
      rw [hm.last] at hlf
      rw [hR]
      by_cases hd0 : (rget st0 p).disconnected = true
      · exact h.deadRows p hp hd0 f hlf (by omega)
      · rcases hnew p hp (by simpa using hd0) hd with hx | hx <;> omega
  have hcl1 : ∀ p, p < sy1.resetPrediction.queues.length →
      (rget sy1.resetPrediction.queues p).firstIncorrectFrame = NULL_FRAME := by
    intro p hp
    rw [hq, List.length_map] at hp
    rw [hq, rget_map_lt _ _ _ hp]; rfl
  obtain ⟨gh', hinv', hsp', hgo', hcur', hql', hcl', hrest, hlsr⟩ := resim_loopD s mc t0 _ 0 _ _ sy2 reqs2 _ hinv1 hcl1 hloop
  have hcnt : (s.sync.currentFrame - r).toNat > 0 := by omega
  have hask := hrest hcnt
  have hcur2 : sy2.currentFrame = s.sync.currentFrame := by simpa using hback
  subst hs'
  subst hreqs'
  refine ⟨gh', hinv', by rw [hsp'], by rw [hgo'], rfl, hcur2, ?_, hask, hcl', ?_⟩
  rotate_left
  · have e1 : sy1.resetPrediction.lastSavedFrame = s.sync.lastSavedFrame := by rw [hsy1]; rfl
    rw [e1, hc] at hlsr
    exact hlsr
  rw [hql', hsy1]
  show (s.sync.queues.map InputQueue.resetPrediction).length = _
  rw [List.length_map]

/-- Timeline agreement with dead players: every simulated frame whose input has arrived carries
it — for a player marked disconnected, up to its last frame. -/
def TimelineRightD (sy : SyncLayer) (st : List ConnStatus) (gh : DGhost) : Prop :=
  ∀ p, p < sy.queues.length → ∀ f : Nat, (f : Int) < sy.currentFrame → f < (gh.specs p).vals.length →
    ((rget st p).disconnected = true → (f : Int) ≤ (rget st p).lastFrame) →
    gh.T p f = (gh.specs p).vals.getD f 0

theorem timelineRightD_of_clean (pr : Predictor) (sy : SyncLayer) (st : List ConnStatus) (gh : DGhost)
    (h : SyncInvD pr sy st gh)
    (hclean : ∀ p, p < sy.queues.length → (rget sy.queues p).firstIncorrectFrame = NULL_FRAME) :
    TimelineRightD sy st gh := by
  intro p hp f hf hlen hd
  by_cases hg : gh.gone p
  · have hgo := h.gone p hp hg
    exact hgo.right f (hd hgo.dead) hlen
  · have hq := h.live p hp hg
    have hfp : (f : Int) < pcur (rget st p) sy.currentFrame := by
      unfold pcur
      split
      · rename_i hdd
        have := hd hdd
        omega
      · exact hf
    rcases hq.tl.col f hfp with ⟨a, _⟩ | ⟨_, b⟩ | ⟨a, _⟩
    · exact absurd (hclean p hp) a
    · exact b
    · omega

/-- The session-level package after the rollback phase, with dead players. -/
structure SettledD (s s' : P2P) (gh gh' : DGhost) (t0 : TLState) (reqs' : List Request) : Prop where
  inv : TInvD s.pred s'.sync s.localConnectStatus gh' t0 reqs'
  specs : gh'.specs = gh.specs
  gone : gh'.gone = gh.gone
  cur : s'.sync.currentFrame = s.sync.currentFrame
  nq : s'.sync.queues.length = s.sync.queues.length
  asked : ∀ p, p < s'.sync.queues.length → (rget s.localConnectStatus p).disconnected = false →
    Asked (rget s'.sync.queues p) s'.sync.currentFrame
  clean : ∀ p, p < s'.sync.queues.length → (rget s'.sync.queues p).firstIncorrectFrame = NULL_FRAME
  pred : s'.pred = s.pred
  statuses : s'.localConnectStatus = s.localConnectStatus
  sparse : s'.sparse = s.sparse
  rest : s'.handles = s.handles ∧ s'.maxPrediction = s.maxPrediction ∧
    s'.pendingLocalInputs = s.pendingLocalInputs ∧ s'.numPlayers = s.numPlayers
  df : s'.disconnectFrame = NULL_FRAME
  /-- sparse saving: the state to roll back to lies beyond every given-up player's last frame -/
  saved : s.sparse = true → ∀ p, p < s.sync.queues.length → gh.gone p →
    (rget s.localConnectStatus p).lastFrame < s'.sync.lastSavedFrame

/-- The rollback half of `handle_rollback_and_save`, for a session in which some players may have
been marked disconnected since the invariant was last established (`st0`): either nothing needs
re-simulating (then no newly marked player's last frame lies behind), or the session rolls back to
a frame at or before the frame after every newly marked player's last one. -/
theorem rollbackIfNeededD (s s' : P2P) (confirmed : Frame) (t0 : TLState) (reqs reqs' : List Request)
    (gh : DGhost) (st0 : List ConnStatus) (h : TInvD s.pred s.sync st0 gh t0 reqs)
    (hm : Marks st0 s.localConnectStatus)
    (hask : ∀ p, p < s.sync.queues.length → (rget s.localConnectStatus p).disconnected = false →
      Asked (rget s.sync.queues p) s.sync.currentFrame)
    (hpend : ∀ p, p < s.sync.queues.length → (rget st0 p).disconnected = false →
      (rget s.localConnectStatus p).disconnected = true →
      s.sync.currentFrame ≤ (rget st0 p).lastFrame + 1 ∨
      (s.disconnectFrame ≠ NULL_FRAME ∧ s.disconnectFrame ≤ (rget st0 p).lastFrame + 1))
    (hsafe : ∀ p, p < s.sync.queues.length → gh.gone p →
      (s.disconnectFrame ≠ NULL_FRAME → (rget st0 p).lastFrame < s.disconnectFrame) ∧
      (∀ q, q < s.sync.queues.length → (rget s.sync.queues q).firstIncorrectFrame ≠ NULL_FRAME →
        (rget st0 p).lastFrame < (rget s.sync.queues q).firstIncorrectFrame) ∧
      (s.sparse = true → (rget st0 p).lastFrame < s.sync.lastSavedFrame))
    (hrb : s.rollbackIfNeeded confirmed reqs = .ok (s', reqs')) :
    ∃ gh', SettledD s s' gh gh' t0 reqs' := by
  unfold P2P.rollbackIfNeeded at hrb
  simp only at hrb
  have hes := SyncLayer.earliest_spec s.sync.queues s.disconnectFrame
  have hgt := fun b => earliest_gt b s.sync.queues s.disconnectFrame
  rw [← SyncLayer.checkSimulationConsistency_eq] at hes
  simp only [← SyncLayer.checkSimulationConsistency_eq] at hgt
  by_cases hfi : (s.sync.checkSimulationConsistency s.disconnectFrame != NULL_FRAME) = true
  · simp only [hfi, if_true] at hrb
    obtain ⟨r1, hadj, hrb⟩ := bind_ok hrb
    obtain ⟨s1, reqs1⟩ := r1
    simp only at hrb
    have := pure_ok hrb
    simp only [Prod.mk.injEq] at this
    obtain ⟨hs', hr'⟩ := this
    have hne : s.sync.checkSimulationConsistency s.disconnectFrame ≠ NULL_FRAME := by simpa using hfi
    have hgl : ∀ p, p < s.sync.queues.length → gh.gone p →
        (rget st0 p).lastFrame < (if s.sparse = true then s.sync.lastSavedFrame
          else s.sync.checkSimulationConsistency s.disconnectFrame) := by
      intro p hp hg
      by_cases hsp : s.sparse = true
      · rw [if_pos hsp]; exact (hsafe p hp hg).2.2 hsp
      · rw [if_neg hsp]
        refine hgt _ (hsafe p hp hg).1 ?_ hne
        intro q hq hqne
        obtain ⟨i, hi, rfl⟩ : ∃ i, i < s.sync.queues.length ∧ q = rget s.sync.queues i := by
          obtain ⟨i, hi, he⟩ := List.getElem_of_mem hq
          exact ⟨i, hi, by simp [rget, List.getD_eq_getElem?_getD, List.getElem?_eq_getElem hi, he]⟩
        exact (hsafe p hp hg).2.1 i hi hqne
    obtain ⟨gh', hinv, hsp, hgo, hs1, hcur, hnq, hask', hclean, hls⟩ := adjust_specD s s1 _ confirmed t0 reqs reqs1 gh st0 h hm
      (fun p hp hne' => (hes.2 hne).2 _ (mem_of_rget _ _ hp) hne')
      (fun p hp h0 h1 => by
        rcases hpend p hp h0 h1 with hx | ⟨hd, hx⟩
        · exact Or.inl hx
        · exact Or.inr (Int.le_trans ((hes.2 hne).1 hd) hx)) hgl hadj
    subst hs'; subst hr'
    refine ⟨gh', ⟨hinv, hsp, hgo, hcur, hnq, hask', hclean, ?_, ?_, ?_, ?_, rfl, ?_⟩⟩
    · show s1.pred = s.pred; rw [hs1]
    · show s1.localConnectStatus = s.localConnectStatus; rw [hs1]
    · show s1.sparse = s.sparse; rw [hs1]
    · show s1.handles = s.handles ∧ s1.maxPrediction = s.maxPrediction ∧
        s1.pendingLocalInputs = s.pendingLocalInputs ∧ s1.numPlayers = s.numPlayers
      rw [hs1]; exact ⟨rfl, rfl, rfl, rfl⟩
    · intro hsp' p hp hg
      show _ < s1.sync.lastSavedFrame
      rw [hm.last]
      have h1 := (hsafe p hp hg).2.2 hsp'
      have h2 := hgl p hp hg
      rcases hls with hx | hx
      · rw [hx]; exact h1
      · omega
  · simp only [hfi, Bool.false_eq_true, if_false] at hrb
    have := pure_ok hrb
    simp only [Prod.mk.injEq] at this
    obtain ⟨hs', hr'⟩ := this
    subst hs'; subst hr'
    have h0 : s.sync.checkSimulationConsistency s.disconnectFrame = NULL_FRAME := by simpa using hfi
    obtain ⟨hdf, hall⟩ := hes.1.mp h0
    have hinv := TInvD_marks s.pred s.sync st0 s.localConnectStatus gh t0 reqs h hm (fun p hp h0' h1 => by
      rcases hpend p hp h0' h1 with hx | ⟨hd, _⟩
      · exact hx
      · exact absurd hdf hd)
    exact ⟨gh, ⟨hinv, rfl, rfl, rfl, rfl, hask, fun p hp => hall _ (mem_of_rget _ _ hp), rfl, rfl, rfl,
      ⟨rfl, rfl, rfl, rfl⟩, hdf, fun hsp p hp hg => by rw [hm.last]; exact (hsafe p hp hg).2.2 hsp⟩⟩

theorem SettledD_save (s s1 : P2P) (gh gh1 : DGhost) (t0 : TLState) (reqs1 : List Request) (sy : SyncLayer) (r : Request)
    (h : SettledD s s1 gh gh1 t0 reqs1) (hsv : s1.sync.saveCurrentState = .ok (sy, r)) :
    SettledD s { s1 with sync := sy } gh gh1 t0 (reqs1 ++ [r]) := by
  obtain ⟨hq, hc, hr, hls, _⟩ := save_fields _ _ _ hsv
  have hR : (execReqs t0 (reqs1 ++ [r])).R = (execReqs t0 reqs1).R := by
    rw [execReqs_append, hr]; rfl
  refine ⟨⟨SyncInvD_congr h.inv.sync hq hc, ?_, ?_, ?_⟩, h.specs, h.gone, by show sy.currentFrame = _; rw [hc]; exact h.cur,
    by show sy.queues.length = _; rw [hq]; exact h.nq,
    by show ∀ p, p < sy.queues.length → _ → Asked (rget sy.queues p) sy.currentFrame; rw [hq, hc]; exact h.asked,
    by show ∀ p, p < sy.queues.length → _; rw [hq]; exact h.clean, h.pred, h.statuses, h.sparse, h.rest, h.df, ?_⟩
  · show (execReqs t0 (reqs1 ++ [r])).cur = sy.currentFrame
    rw [execReqs_append, hr, hc]; exact h.inv.exec
  · intro p hp f
    have hp' : p < s1.sync.queues.length := by rw [← hq]; exact hp
    rw [hR]
    exact h.inv.rows p hp' f
  · intro p hp hd f hlf hfc
    have hp' : p < s1.sync.queues.length := by rw [← hq]; exact hp
    rw [hR]
    exact h.inv.deadRows p hp' hd f hlf (by rw [← hc]; exact hfc)
  · intro _ p hp hg
    show _ < sy.lastSavedFrame
    rw [hls]
    have hp1 : p < s1.sync.queues.length := by rw [h.nq]; exact hp
    exact (h.inv.sync.gone p hp1 (by rw [h.gone]; exact hg)).lt

theorem SettledD_trans (s s1 s2 : P2P) (gh gh1 gh2 : DGhost) (t0 : TLState) (reqs1 reqs2 : List Request)
    (h1 : SettledD s s1 gh gh1 t0 reqs1) (h2 : SettledD s1 s2 gh1 gh2 t0 reqs2) :
    SettledD s s2 gh gh2 t0 reqs2 := by
  refine ⟨by have := h2.inv; rw [h1.pred, h1.statuses] at this; exact this, by rw [h2.specs, h1.specs],
    by rw [h2.gone, h1.gone], by rw [h2.cur, h1.cur], by rw [h2.nq, h1.nq],
    by have := h2.asked; rw [h1.statuses] at this; exact this, h2.clean,
    by rw [h2.pred, h1.pred], by rw [h2.statuses, h1.statuses], by rw [h2.sparse, h1.sparse],
    ⟨h2.rest.1.trans h1.rest.1, h2.rest.2.1.trans h1.rest.2.1, h2.rest.2.2.1.trans h1.rest.2.2.1,
     h2.rest.2.2.2.trans h1.rest.2.2.2⟩, h2.df, ?_⟩
  intro hsp p hp hg
  have := h2.saved (by rw [h1.sparse]; exact hsp) p (by rw [h1.nq]; exact hp) (by rw [h1.gone]; exact hg)
  rw [h1.statuses] at this
  exact this

/-- The save half of `handle_rollback_and_save`, both saving modes. -/
theorem saveAfterRollbackD (s s1 s' : P2P) (confirmed : Frame) (t0 : TLState) (reqs1 reqs' : List Request)
    (gh gh1 : DGhost) (h : SettledD s s1 gh gh1 t0 reqs1)
    (hsv : s1.saveAfterRollback confirmed reqs1 = .ok (s', reqs')) :
    ∃ gh', SettledD s s' gh gh' t0 reqs' := by
  unfold P2P.saveAfterRollback at hsv
  by_cases hsp : s1.sparse = true
  · rw [if_pos hsp] at hsv
    unfold P2P.checkLastSavedState at hsv
    by_cases hold : s1.sync.currentFrame - s1.sync.lastSavedFrame ≥ (s1.maxPrediction : Int)
    · simp only [hold, if_true] at hsv
      obtain ⟨r2, hsr, hsv⟩ := bind_ok hsv
      obtain ⟨s2, reqs2⟩ := r2
      simp only at hsv
      obtain ⟨_, hsv⟩ := ensure_bind_ok hsv
      have := pure_ok hsv
      simp only [Prod.mk.injEq] at this
      obtain ⟨hs', hr'⟩ := this
      subst hs'; subst hr'
      unfold P2P.saveOrRollbackToSaved at hsr
      by_cases hc : confirmed ≥ s1.sync.currentFrame
      · simp only [hc, if_true] at hsr
        obtain ⟨r3, hs3, hsr⟩ := bind_ok hsr
        obtain ⟨sy, r⟩ := r3
        simp only at hsr
        have := pure_ok hsr
        simp only [Prod.mk.injEq] at this
        obtain ⟨hs2, hr2⟩ := this
        subst hs2; subst hr2
        exact ⟨gh1, SettledD_save s s1 gh gh1 t0 reqs1 sy r h hs3⟩
      · simp only [hc, if_false] at hsr
        have hinv1 : TInvD s1.pred s1.sync s1.localConnectStatus gh1 t0 reqs1 := by
          rw [h.pred, h.statuses]; exact h.inv
        have hsp0 : s.sparse = true := by rw [← h.sparse]; exact hsp
        obtain ⟨gh2, hinv, hsp2, hgo2, hs2, hcur, hnq, hask', hclean, hls⟩ :=
          adjust_specD s1 s2 _ confirmed t0 reqs1 reqs2 gh1 s1.localConnectStatus hinv1 (Marks.refl _)
          (fun p hp hne' => absurd (h.clean p hp) hne')
          (fun p _ h0 h1 => by rw [h0] at h1; cases h1)
          (fun p hp hg => by
            rw [if_pos hsp, h.statuses]
            exact h.saved hsp0 p (by rw [← h.nq]; exact hp) (by rw [← h.gone]; exact hg)) hsr
        have h12 : SettledD s1 s2 gh1 gh2 t0 reqs2 := by
          refine ⟨hinv, hsp2, hgo2, hcur, hnq, hask', hclean, by rw [hs2], by rw [hs2], by rw [hs2],
           by rw [hs2]; exact ⟨rfl, rfl, rfl, rfl⟩, by rw [hs2]; exact h.df, ?_⟩
          intro _ p hp hg
          have hx := h.saved hsp0 p (by rw [← h.nq]; exact hp) (by rw [← h.gone]; exact hg)
          rw [if_pos hsp] at hls
          rw [h.statuses]
          rcases hls with hy | hy
          · rw [hy]; exact hx
          · omega
        exact ⟨gh2, SettledD_trans s s1 s2 gh gh1 gh2 t0 reqs1 reqs2 h h12⟩
    · simp only [hold, if_false] at hsv
      have := pure_ok hsv
      simp only [Prod.mk.injEq] at this
      obtain ⟨hs', hr'⟩ := this
      subst hs'; subst hr'
      exact ⟨gh1, h⟩
  · rw [if_neg hsp] at hsv
    obtain ⟨r3, hs3, hsv⟩ := bind_ok hsv
    obtain ⟨sy, r⟩ := r3
    simp only at hsv
    have := pure_ok hsv
    simp only [Prod.mk.injEq] at this
    obtain ⟨hs2, hr2⟩ := this
    subst hs2; subst hr2
    exact ⟨gh1, SettledD_save s s1 gh gh1 t0 reqs1 sy r h hs3⟩

/-- **`handle_rollback_and_save` with dead players.** -/
theorem handleRollbackAndSaveD (s s' : P2P) (confirmed : Frame) (t0 : TLState) (reqs reqs' : List Request)
    (gh : DGhost) (st0 : List ConnStatus) (h : TInvD s.pred s.sync st0 gh t0 reqs)
    (hm : Marks st0 s.localConnectStatus)
    (hask : ∀ p, p < s.sync.queues.length → (rget s.localConnectStatus p).disconnected = false →
      Asked (rget s.sync.queues p) s.sync.currentFrame)
    (hpend : ∀ p, p < s.sync.queues.length → (rget st0 p).disconnected = false →
      (rget s.localConnectStatus p).disconnected = true →
      s.sync.currentFrame ≤ (rget st0 p).lastFrame + 1 ∨
      (s.disconnectFrame ≠ NULL_FRAME ∧ s.disconnectFrame ≤ (rget st0 p).lastFrame + 1))
    (hsafe : ∀ p, p < s.sync.queues.length → gh.gone p →
      (s.disconnectFrame ≠ NULL_FRAME → (rget st0 p).lastFrame < s.disconnectFrame) ∧
      (∀ q, q < s.sync.queues.length → (rget s.sync.queues q).firstIncorrectFrame ≠ NULL_FRAME →
        (rget st0 p).lastFrame < (rget s.sync.queues q).firstIncorrectFrame) ∧
      (s.sparse = true → (rget st0 p).lastFrame < s.sync.lastSavedFrame))
    (hrs : s.handleRollbackAndSave confirmed reqs = .ok (s', reqs')) :
    ∃ gh', SettledD s s' gh gh' t0 reqs' ∧ TimelineRightD s'.sync s.localConnectStatus gh' := by
  unfold P2P.handleRollbackAndSave at hrs
  obtain ⟨r1, hrb, hrs⟩ := bind_ok hrs
  obtain ⟨s1, reqs1⟩ := r1
  simp only at hrs
  obtain ⟨gh1, h1⟩ := rollbackIfNeededD s s1 confirmed t0 reqs reqs1 gh st0 h hm hask hpend hsafe hrb
  obtain ⟨gh', h'⟩ := saveAfterRollbackD s s1 s' confirmed t0 reqs1 reqs' gh gh1 h1 hrs
  exact ⟨gh', h', timelineRightD_of_clean s.pred _ s.localConnectStatus gh' h'.inv.sync h'.clean⟩

end Ggrs
