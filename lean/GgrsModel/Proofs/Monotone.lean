/-
`confirmed_frame()` never decreases (rollback mode, no disconnected players, delay changes
included): every player's `last_frame` is the newest frame its queue holds, and queues only grow.
-/
import GgrsModel.Proofs.DelayStep

namespace Ggrs
open InputQueue

/-- Every player's status names the newest frame its queue holds. -/
theorem status_top (s : P2P) (gh : Ghost) (t : TLState) (reqs : List Request) (h : SessInv s gh t reqs)
    (hg : GlueInv s gh) (p : Nat) (hp : p < s.sync.queues.length) :
    (rget s.localConnectStatus p).lastFrame = ((gh.specs p).vals.length : Int) - 1 := by
  by_cases hl : p ∈ s.localPlayerHandles
  · exact hg.top p hl hp
  · obtain ⟨_, hlu, hlen⟩ := h.remote p hp hl
    rw [← hlu]; omega

/-- One step: both invariants again, for a ghost whose streams are at least as long. -/
theorem HInv_step_grow (x y : P2P × TLState) (gh : Ghost) (hx : SessInv x.1 gh x.2 []) (hgx : GlueInv x.1 gh)
    (hs : DStep x y) :
    ∃ gh', SessInv y.1 gh' y.2 [] ∧ GlueInv y.1 gh' ∧ y.1.sync.queues.length = x.1.sync.queues.length ∧
      ∀ p, (gh.specs p).vals.length ≤ (gh'.specs p).vals.length := by
  cases hs with
  | base _ _ hss =>
    cases hss with
    | remoteInput s s' t now inp player handles addr hnl hf hev =>
      exact glue_remoteInput s s' gh t now inp player handles addr hx hgx hnl hf hev
    | tick s s' t now reqs' hadv =>
      obtain ⟨gh2, gh', _, _, hinv', hg', hsp, hpre, _⟩ := rollbackTick_glue s s' gh t [] reqs' now hx hgx hadv
      refine ⟨gh', SessInv_rebase s' gh' t reqs' hinv', hg', ?_, fun p => by rw [hsp]; exact (hpre p).1⟩
      have a := hinv'.tinv.sync.nq
      have b := hx.tinv.sync.nq
      -- the status vector keeps its length through the call
      obtain ⟨_, _, _, _, _, _, hh, _, _⟩ := advanceRollbackFrame_spec s s' gh t [] reqs' now hx hadv
      have hlen : s'.localConnectStatus.length = s.localConnectStatus.length := by
        unfold P2P.advanceRollbackFrame at hadv
        obtain ⟨confirmed, _, hadv⟩ := bind_ok hadv
        obtain ⟨r1, hrs, hadv⟩ := bind_ok hadv
        obtain ⟨s1, reqs1⟩ := r1
        simp only at hadv
        obtain ⟨s2, hspec, hadv⟩ := bind_ok hadv
        obtain ⟨sy3, hset, hadv⟩ := bind_ok hadv
        obtain ⟨s4, hreg, hgate⟩ := bind_ok hadv
        obtain ⟨gh1, hsettled, _⟩ := handleRollbackAndSave_spec s s1 confirmed t [] reqs1 gh hx.tinv hx.asked hrs
        have hinv1 := SessInv_of_settled s s1 gh gh1 t [] reqs1 hx hsettled
        have hc2 := P2P.sendConfirmed_sameCore _ _ _ _ hspec
        have hinv2 := SessInv_congr s1 s2 gh1 t reqs1 hinv1 hc2.pred hc2.sync hc2.statuses hc2.handles
        have hle : ∀ p, p < s2.sync.queues.length → confirmed ≤ (rget s2.localConnectStatus p).lastFrame := by
          intro p hp
          rw [hc2.statuses, hsettled.statuses]
          rename_i hconf _
          apply confirmedFrame_le s confirmed (by assumption) hx.tinv.sync.conn
          rw [hx.tinv.sync.nq, ← hsettled.nq, ← hc2.sync]; exact hp
        obtain ⟨hinv3, _, _, hq3⟩ := setLastConfirmed_spec s2 sy3 gh1 t reqs1 confirmed hinv2 hle hset
        obtain ⟨gh2', hinv4, hk4⟩ := registerLocalInputs_spec _ s4 gh1 t reqs1 now hinv3 hreg
        obtain ⟨gh'', hinv5, _, hst5, _⟩ := rollbackGate_spec s4 s' gh2' t reqs1 reqs' hinv4 hgate
        rw [hst5, hinv4.tinv.sync.nq, hk4.nq]
        show sy3.queues.length = _
        rw [hq3, hc2.sync, hsettled.nq, ← b]
      rw [← a, hlen, b]
    | localInput s t handle input =>
      obtain ⟨l, hl⟩ := P2P.addLocalInput_pending s handle input
      show ∃ gh', SessInv (s.addLocalInput handle input).1 gh' t [] ∧ GlueInv (s.addLocalInput handle input).1 gh' ∧
        (s.addLocalInput handle input).1.sync.queues.length = s.sync.queues.length ∧ _
      rw [hl]
      exact ⟨gh, SessInv_pending s gh t [] l hx, GlueInv_pending s gh l hgx, rfl, fun p => Nat.le_refl _⟩
    | saves s t sv =>
      exact ⟨gh, SessInv_userExecute s gh t [] sv hx, GlueInv_userExecute s gh sv hgx,
        by rw [(userExecute_fields s sv).1], fun p => Nat.le_refl _⟩
  | setDelay s s' t now handle delay r hloc hp hset =>
    obtain ⟨gh', hinv', hg', hcase, _, _, _, _, _, _, _, _, hq⟩ := setInputDelay_spec s s' gh t [] now handle delay r hx hgx hloc hp hset
    refine ⟨gh', hinv', hg', hq, ?_⟩
    · intro p
      rcases hcase with he | he
      · rw [he]; exact Nat.le_refl _
      · rw [he]
        unfold ghDelay
        by_cases hpe : p = handle
        · subst hpe
          simp only [if_true]
          obtain ⟨k, hv, _, _⟩ := setDelay_facts (gh.specs p) delay
          rw [hv]; simp
        · simp only [hpe, if_false]; exact Nat.le_refl _

/-- The minimum over the connected players' last frames is monotone in the vector. -/
theorem confirmed_fold_mono : ∀ (l l' : List ConnStatus) (m m' : Int), l.length = l'.length → m ≤ m' →
    (∀ cs ∈ l, cs.disconnected = false) → (∀ cs ∈ l', cs.disconnected = false) →
    (∀ i, i < l.length → (rget l i).lastFrame ≤ (rget l' i).lastFrame) →
    l.foldl (fun m cs => if !cs.disconnected then min m cs.lastFrame else m) m ≤
    l'.foldl (fun m cs => if !cs.disconnected then min m cs.lastFrame else m) m' := by
  intro l
  induction l with
  | nil =>
    intro l' m m' hl hm _ _ _
    cases l' with
    | nil => exact hm
    | cons a as => simp at hl
  | cons a as ih =>
    intro l' m m' hl hm hc hc' hle
    cases l' with
    | nil => simp at hl
    | cons b bs =>
      have ha : a.disconnected = false := hc a List.mem_cons_self
      have hb : b.disconnected = false := hc' b List.mem_cons_self
      simp only [List.foldl_cons, ha, hb, Bool.not_false, if_true]
      have h0 := hle 0 (by simp)
      simp only [rget, List.getD_cons_zero] at h0
      apply ih bs _ _ (by simpa using hl) (by omega)
        (fun cs hcs => hc cs (List.mem_cons_of_mem _ hcs)) (fun cs hcs => hc' cs (List.mem_cons_of_mem _ hcs))
      intro i hi
      have := hle (i + 1) (by simp; omega)
      simpa [rget] using this

theorem HInv_run_grow (x y : P2P × TLState) (hr : DStar x y) : ∀ gh, SessInv x.1 gh x.2 [] → GlueInv x.1 gh →
    ∃ gh', SessInv y.1 gh' y.2 [] ∧ GlueInv y.1 gh' ∧ y.1.sync.queues.length = x.1.sync.queues.length ∧
      ∀ p, (gh.specs p).vals.length ≤ (gh'.specs p).vals.length := by
  induction hr with
  | refl => intro gh a b; exact ⟨gh, a, b, rfl, fun _ => Nat.le_refl _⟩
  | step y z _ hs ih =>
    intro gh a b
    obtain ⟨gh1, a1, b1, q1, g1⟩ := ih gh a b
    obtain ⟨gh2, a2, b2, q2, g2⟩ := HInv_step_grow y z gh1 a1 b1 hs
    exact ⟨gh2, a2, b2, q2.trans q1, fun p => Nat.le_trans (g1 p) (g2 p)⟩

/-- **`confirmed_frame()` never decreases** along any run of remote-input arrivals, `advance_frame`
calls and delay changes. -/
theorem confirmedFrame_mono (x y : P2P × TLState) (h : HInv x) (hr : DStar x y) (cx cy : Frame)
    (hcx : x.1.confirmedFrame = .ok cx) (hcy : y.1.confirmedFrame = .ok cy) : cx ≤ cy := by
  obtain ⟨⟨gh, hx, hgx⟩, _⟩ := h
  obtain ⟨gh', hy, hgy, hq, hgrow⟩ := HInv_run_grow x y hr gh hx hgx
  unfold P2P.confirmedFrame at hcx hcy
  simp only at hcx hcy
  obtain ⟨_, hcx⟩ := ensure_bind_ok hcx
  obtain ⟨_, hcy⟩ := ensure_bind_ok hcy
  have ex := pure_ok hcx
  have ey := pure_ok hcy
  rw [← ex, ← ey]
  apply confirmed_fold_mono _ _ _ _ (by rw [hx.tinv.sync.nq, hy.tinv.sync.nq, hq]) (Int.le_refl _)
    hx.tinv.sync.conn hy.tinv.sync.conn
  intro i hi
  have hi' : i < x.1.sync.queues.length := by rw [← hx.tinv.sync.nq]; exact hi
  rw [status_top x.1 gh x.2 [] hx hgx i hi', status_top y.1 gh' y.2 [] hy hgy i (by rw [hq]; exact hi')]
  have := hgrow i
  omega

end Ggrs
