/-
L-drop (spectators): what a host with dropped players hands to its spectators. Each offered frame
is the row of every player's real input — except that a player marked disconnected as of an earlier
frame is represented by the blank input carrying no frame (the spectator, which is sent the
connection statuses along with it, labels it Disconnected).
-/
import GgrsModel.Proofs.DropWorld
import GgrsModel.Proofs.SpecHost

namespace Ggrs
open InputQueue

theorem confirmedInputsLoopD (frame : Frame) (qs : List InputQueue) :
    ∀ (st : List ConnStatus) (i : Nat) (acc out : List PlayerInput),
    SyncLayer.confirmedInputsLoop frame qs st i acc = .ok out →
    ∃ l : List PlayerInput, out = acc.reverse ++ l ∧ l.length = st.length ∧
      ∀ k, k < st.length →
        (Skip (rget st k) frame → rget l k = PlayerInput.blank NULL_FRAME) ∧
        (¬ Skip (rget st k) frame → i + k < qs.length ∧ (rget qs (i + k)).confirmedInput frame = .ok (rget l k)) := by
  intro st
  induction st with
  | nil =>
    intro i acc out h
    simp only [SyncLayer.confirmedInputsLoop] at h
    cases h
    exact ⟨[], by simp, rfl, fun k hk => by simp at hk⟩
  | cons cs rest ih =>
    intro i acc out h
    by_cases hsk : Skip cs frame
    · have hc : (cs.disconnected && decide (cs.lastFrame < frame)) = true := by
        simp only [Bool.and_eq_true, decide_eq_true_eq]; exact hsk
      simp only [SyncLayer.confirmedInputsLoop, hc, if_true] at h
      obtain ⟨l, hout, hlen, hpt⟩ := ih (i + 1) (PlayerInput.blank NULL_FRAME :: acc) out h
      refine ⟨PlayerInput.blank NULL_FRAME :: l, by rw [hout]; simp, by simp [hlen], ?_⟩
      intro k hk
      cases k with
      | zero => exact ⟨fun _ => by simp [rget], fun hn => absurd (by simpa [rget] using hsk) hn⟩
      | succ k =>
        obtain ⟨a, b⟩ := hpt k (by simpa using hk)
        have e : i + (k + 1) = i + 1 + k := by omega
        have er : rget (cs :: rest) (k + 1) = rget rest k := by simp [rget]
        have el : rget (PlayerInput.blank NULL_FRAME :: l) (k + 1) = rget l k := by simp [rget]
        rw [e, er, el]
        exact ⟨a, b⟩
    · have hc : (cs.disconnected && decide (cs.lastFrame < frame)) = false := by
        cases hb : (cs.disconnected && decide (cs.lastFrame < frame)) with
        | false => rfl
        | true =>
          simp only [Bool.and_eq_true, decide_eq_true_eq] at hb
          exact absurd hb hsk
      simp only [SyncLayer.confirmedInputsLoop, hc, Bool.false_eq_true, if_false] at h
      obtain ⟨hi, h⟩ := ensure_bind_ok h
      obtain ⟨pi, hpi, h⟩ := bind_ok h
      obtain ⟨l, hout, hlen, hpt⟩ := ih (i + 1) (pi :: acc) out h
      refine ⟨pi :: l, by rw [hout]; simp, by simp [hlen], ?_⟩
      intro k hk
      cases k with
      | zero =>
        exact ⟨fun hs => absurd (by simpa [rget] using hs) hsk, fun _ => ⟨by simpa using hi, by simpa [rget] using hpi⟩⟩
      | succ k =>
        obtain ⟨a, b⟩ := hpt k (by simpa using hk)
        have e : i + (k + 1) = i + 1 + k := by omega
        have er : rget (cs :: rest) (k + 1) = rget rest k := by simp [rget]
        have el : rget (pi :: l) (k + 1) = rget l k := by simp [rget]
        rw [e, er, el]
        exact ⟨a, b⟩

/-- The row of frame `f` as `send_input` receives it from a host with dropped players. -/
def rowMapD (gh : DGhost) (st : List ConnStatus) (N : Nat) (f : Nat) : List (Nat × PlayerInput) :=
  (List.range N).map fun h =>
    (h, if Skip (rget st h) (f : Int) then PlayerInput.blank NULL_FRAME else ⟨(f : Int), (gh.specs h).vals.getD f 0⟩)

/-- The frames offered to the spectators by one call, in order. -/
inductive OffersD (gh : DGhost) (st : List ConnStatus) (N : Nat) (now : Nat) : P2P → P2P → Prop
  | done (s : P2P) : OffersD gh st N now s s
  | step (s s1 s' : P2P) (f : Nat) : s.nextSpectatorFrame = (f : Int) →
      s.offerToSpectators now (rowMapD gh st N f) = .ok s1 → OffersD gh st N now s1 s' → OffersD gh st N now s s'

theorem sendConfirmedLoop_rowsD (gh : DGhost) (t0 : TLState) (reqs : List Request) (now : Nat) (confirmed : Frame) :
    ∀ (fuel : Nat) (s s' : P2P), SessInvD s gh t0 reqs s.localConnectStatus → 0 ≤ s.nextSpectatorFrame →
    (∀ p, p < s.sync.queues.length → (rget s.localConnectStatus p).disconnected = false →
      confirmed ≤ (rget s.localConnectStatus p).lastFrame) →
    P2P.sendConfirmedInputsToSpectators.loop now confirmed fuel s = .ok s' →
    OffersD gh s.localConnectStatus s.sync.queues.length now s s' ∧ s.nextSpectatorFrame ≤ s'.nextSpectatorFrame ∧
    s'.nextSpectatorFrame ≤ max s.nextSpectatorFrame (confirmed + 1) := by
  intro fuel
  induction fuel with
  | zero =>
    intro s s' _ _ _ h
    simp only [P2P.sendConfirmedInputsToSpectators.loop] at h
    cases h
    exact ⟨OffersD.done s, Int.le_refl _, Int.le_max_left _ _⟩
  | succ k ih =>
    intro s s' hs h0 hle h
    simp only [P2P.sendConfirmedInputsToSpectators.loop] at h
    by_cases hc : s.nextSpectatorFrame ≤ confirmed
    · rw [if_pos hc] at h
      obtain ⟨inputs, hci, h⟩ := bind_ok h
      obtain ⟨_, h⟩ := ensure_bind_ok h
      obtain ⟨_, h⟩ := ensure_bind_ok h
      obtain ⟨s1, hoff, h⟩ := bind_ok h
      obtain ⟨f, hf⟩ : ∃ f : Nat, s.nextSpectatorFrame = (f : Int) := ⟨s.nextSpectatorFrame.toNat, by omega⟩
      have hN : s.localConnectStatus.length = s.sync.queues.length := hs.tinv.sync.nq
      unfold SyncLayer.confirmedInputs at hci
      obtain ⟨l, hout, hlen, hpt⟩ := confirmedInputsLoopD _ _ _ 0 [] inputs hci
      simp only [List.reverse_nil, List.nil_append] at hout
      subst hout
      have hval : ∀ p, p < s.sync.queues.length → rget inputs p =
          if Skip (rget s.localConnectStatus p) (f : Int) then PlayerInput.blank NULL_FRAME
          else ⟨(f : Int), (gh.specs p).vals.getD f 0⟩ := by
        intro p hp
        obtain ⟨ha, hb⟩ := hpt p (by rw [hN]; exact hp)
        rw [hf] at ha hb
        by_cases hsk : Skip (rget s.localConnectStatus p) (f : Int)
        · rw [if_pos hsk]; exact ha hsk
        · rw [if_neg hsk]
          obtain ⟨_, hk⟩ := hb hsk
          rw [Nat.zero_add] at hk
          -- the queue's slots hold the stream, and frame f has arrived
          have hring : Refines (rget s.sync.queues p).strip (gh.specs p) := by
            by_cases hg : gh.gone p
            · exact (hs.tinv.sync.gone p hp hg).ring
            · exact (hs.tinv.sync.live p hp hg).ring
          have hflen : f < (gh.specs p).vals.length := by
            by_cases hd : (rget s.localConnectStatus p).disconnected = true
            · have hnl : p ∉ s.localPlayerHandles := fun hl => by
                have := hs.localAlive p hl; rw [hd] at this; cases this
              obtain ⟨_, hlu, hlen'⟩ := hs.remote p hp hnl
              have : ¬ (rget s.localConnectStatus p).lastFrame < (f : Int) := fun hx => hsk ⟨hd, hx⟩
              omega
            · have hcn : (rget s.localConnectStatus p).disconnected = false := by simpa using hd
              have hng : ¬ gh.gone p := fun hg => by
                have := (hs.tinv.sync.gone p hp hg).dead; rw [hcn] at this; cases this
              have hlast := hs.status p hp hng
              rw [lastAdded_of_QI (hs.tinv.sync.live p hp hng)] at hlast
              have := hle p hp hcn
              omega
          exact confirmedInput_ok _ _ hring f hflen _ hk
      have hmap : (inputs.zipIdx.map fun (x : PlayerInput × Nat) => (x.2, x.1)) =
          rowMapD gh s.localConnectStatus s.sync.queues.length f := by
        rw [zipIdx_map_swap, hlen, hN]
        unfold rowMapD
        apply List.map_congr_left
        intro p hp
        rw [hval p (List.mem_range.mp hp)]
      have hoff' : s.offerToSpectators now (rowMapD gh s.localConnectStatus s.sync.queues.length f) = .ok s1 := by
        rw [← hmap]; exact hoff
      have hc1 := P2P.offerToSpectators_sameCore _ _ _ _ hoff
      have hn1 : s1.nextSpectatorFrame = s.nextSpectatorFrame + 1 := by
        unfold P2P.offerToSpectators at hoff
        obtain ⟨r, _, hoff⟩ := bind_ok hoff
        have := pure_ok hoff
        subst this
        rfl
      have hs1 : SessInvD s1 gh t0 reqs s1.localConnectStatus := by
        have := SessInvD_congr s s1 gh t0 reqs _ hs hc1
        rw [← hc1.statuses] at this
        exact this
      obtain ⟨ho, hl1, hl2⟩ := ih s1 s' hs1 (by rw [hn1]; omega)
        (fun p hp => by rw [hc1.statuses]; rw [hc1.sync] at hp; exact hle p hp) h
      rw [hc1.sync, hc1.statuses] at ho
      refine ⟨OffersD.step s s1 s' f hf hoff' ho, by omega, ?_⟩
      rw [hn1] at hl2
      have : max (s.nextSpectatorFrame + 1) (confirmed + 1) = confirmed + 1 := by omega
      rw [this] at hl2
      omega
    · rw [if_neg hc] at h
      cases h
      exact ⟨OffersD.done s, Int.le_refl _, Int.le_max_left _ _⟩

theorem sendConfirmed_rowsD (s s' : P2P) (gh : DGhost) (t0 : TLState) (reqs : List Request) (now : Nat)
    (confirmed : Frame) (hs : SessInvD s gh t0 reqs s.localConnectStatus) (h0 : 0 ≤ s.nextSpectatorFrame)
    (hle : ∀ p, p < s.sync.queues.length → (rget s.localConnectStatus p).disconnected = false →
      confirmed ≤ (rget s.localConnectStatus p).lastFrame)
    (h : s.sendConfirmedInputsToSpectators now confirmed = .ok s') :
    OffersD gh s.localConnectStatus s.sync.queues.length now s s' ∧ s.nextSpectatorFrame ≤ s'.nextSpectatorFrame ∧
    s'.nextSpectatorFrame ≤ max s.nextSpectatorFrame (confirmed + 1) := by
  unfold P2P.sendConfirmedInputsToSpectators at h
  split at h
  · have := pure_ok h
    subst this
    exact ⟨OffersD.done s, Int.le_refl _, Int.le_max_left _ _⟩
  · exact sendConfirmedLoop_rowsD gh t0 reqs now confirmed _ s s' hs h0 hle h

namespace P2P

theorem markAll_nsf : ∀ (hs : List Nat) (s : P2P),
    (hs.foldl (fun s h => s.setStatus h fun c => { c with disconnected := true }) s).nextSpectatorFrame =
      s.nextSpectatorFrame := by
  intro hs
  induction hs with
  | nil => intro s; rfl
  | cons h rest ih => intro s; simp only [List.foldl_cons]; rw [ih]; rfl

theorem checkInitialSync_nsf (a : P2P) : a.checkInitialSync.nextSpectatorFrame = a.nextSpectatorFrame := by
  unfold checkInitialSync
  split
  · rfl
  · split <;> rfl

theorem disconnectAt_nsf (s s' : P2P) (now handle : Nat) (lastFrame : Frame)
    (h : s.disconnectPlayerAtFrame now handle lastFrame = .ok s') :
    s'.nextSpectatorFrame = s.nextSpectatorFrame := by
  unfold disconnectPlayerAtFrame at h
  cases hpt : s.playerType handle with
  | none => rw [hpt] at h; simp only [bind, Except.bind] at h; cases h
  | some pt =>
    rw [hpt] at h
    cases pt with
    | localPlayer =>
      simp only [bind, Except.bind, pure, Except.pure] at h
      cases h
      exact checkInitialSync_nsf _
    | remote addr =>
      cases hep : findEp s.remotes addr with
      | none => simp only [hep, bind, Except.bind] at h; cases h
      | some ep =>
        simp only [hep, bind, Except.bind, pure, Except.pure] at h
        cases hupd : updEp (List.foldl (fun s h => s.setStatus h fun c => { c with disconnected := true }) s ep.handles).remotes addr
            (fun e => Except.ok (e.disconnect now)) with
        | error e => rw [hupd] at h; cases h
        | ok remotes =>
          rw [hupd] at h
          simp only at h
          cases h
          rw [checkInitialSync_nsf]
          split
          · exact markAll_nsf _ _
          · exact markAll_nsf _ _
    | spectator addr =>
      simp only [bind, Except.bind, pure, Except.pure, ensure] at h
      split at h
      · cases h
      · cases hupd : updEp s.spectators addr (fun e => Except.ok (e.disconnect now)) with
        | error e => rw [hupd] at h; cases h
        | ok sp =>
          rw [hupd] at h
          simp only at h
          cases h
          exact checkInitialSync_nsf _

end P2P

/-- **One rollback-mode call of a host with dropped players, the spectators' side.** -/
theorem rollbackTick_offersD (s s' : P2P) (gh : DGhost) (t0 : TLState) (reqs reqs' : List Request) (now : Nat)
    (st0 : List ConnStatus) (h : SessInvD s gh t0 reqs st0) (h0 : 0 ≤ s.nextSpectatorFrame)
    (hadv : s.advanceRollbackFrame now reqs = .ok (s', reqs')) :
    ∃ (confirmed : Frame) (s1 s2 : P2P) (gh1 : DGhost), s.confirmedFrame = .ok confirmed ∧ gh1.specs = gh.specs ∧
      s1.nextSpectatorFrame = s.nextSpectatorFrame ∧
      OffersD gh1 s.localConnectStatus s.sync.queues.length now s1 s2 ∧
      s'.nextSpectatorFrame = s2.nextSpectatorFrame ∧
      s.nextSpectatorFrame ≤ s'.nextSpectatorFrame ∧
      s'.nextSpectatorFrame ≤ max s.nextSpectatorFrame (confirmed + 1) := by
  unfold P2P.advanceRollbackFrame at hadv
  obtain ⟨confirmed, hconf, hadv⟩ := bind_ok hadv
  obtain ⟨r1, hrs, hadv⟩ := bind_ok hadv
  obtain ⟨s1, reqs1⟩ := r1
  simp only at hadv
  obtain ⟨s2, hspec, hadv⟩ := bind_ok hadv
  obtain ⟨sy3, hset, hadv⟩ := bind_ok hadv
  obtain ⟨s4, hreg, hgate⟩ := bind_ok hadv
  obtain ⟨gh1, hsettled, _⟩ := handleRollbackAndSaveD s s1 confirmed t0 reqs reqs1 gh st0 h.tinv h.marks
    h.asked h.pend
    (fun p hp hg => by
      have := h.safe p hp hg
      have hsv := fun hsp => h.saved hsp p hp hg
      rw [h.marks.last] at this hsv
      exact ⟨this.1, this.2.1, hsv⟩) hrs
  have hinv1 := SessInvD_of_settledD s s1 gh gh1 t0 reqs reqs1 st0 h hsettled
  have hn1 := P2P.handleRollbackAndSave_nsf _ _ _ _ _ hrs
  have hnlen : s.localConnectStatus.length = s.sync.queues.length := by rw [h.marks.len]; exact h.tinv.sync.nq
  have hle : ∀ p, p < s1.sync.queues.length → (rget s1.localConnectStatus p).disconnected = false →
      confirmed ≤ (rget s1.localConnectStatus p).lastFrame := by
    intro p hp hc
    rw [hsettled.statuses] at hc ⊢
    exact confirmedFrame_leD s confirmed hconf p (by rw [hnlen, ← hsettled.nq]; exact hp) hc
  obtain ⟨hoff, hl1, hl2⟩ := sendConfirmed_rowsD s1 s2 gh1 t0 reqs1 now confirmed hinv1 (by rw [hn1]; exact h0) hle hspec
  have hn4 : s4.nextSpectatorFrame = s2.nextSpectatorFrame := (P2P.registerLocalInputs_nsf _ _ _ hreg).trans rfl
  have hn' : s'.nextSpectatorFrame = s4.nextSpectatorFrame := P2P.rollbackGate_nsf _ _ _ _ hgate
  rw [hsettled.nq, hsettled.statuses] at hoff
  refine ⟨confirmed, s1, s2, gh1, hconf, hsettled.specs, hn1, hoff, hn'.trans hn4, ?_, ?_⟩
  · rw [hn', hn4, ← hn1]; exact hl1
  · rw [hn', hn4, ← hn1]; exact hl2

/-- `next_spectator_frame` never goes negative along a run with drops. -/
theorem nsf_runX (x y : P2P × TLState) (h : XInv x) (h0 : 0 ≤ x.1.nextSpectatorFrame)
    (hr : XStar x y) : 0 ≤ y.1.nextSpectatorFrame := by
  induction hr with
  | refl => exact h0
  | step y z hxy hs ih =>
    obtain ⟨gh, st0, hy⟩ := XInv_run x y h hxy
    cases hs with
    | remoteInput s s' t now inp player handles addr hnl hf hev =>
      show 0 ≤ s'.nextSpectatorFrame
      rw [P2P.remoteInput_nsf s s' now inp player handles addr hev]; exact ih
    | tick s s' t now reqs' hadv =>
      obtain ⟨_, _, _, _, _, _, _, _, _, hle, _⟩ := rollbackTick_offersD s s' gh t [] reqs' now st0 hy ih hadv
      show 0 ≤ s'.nextSpectatorFrame
      have : 0 ≤ s.nextSpectatorFrame := ih
      omega
    | localInput s t handle input =>
      obtain ⟨l, hl⟩ := P2P.addLocalInput_pending s handle input
      show 0 ≤ (s.addLocalInput handle input).1.nextSpectatorFrame
      rw [hl]; exact ih
    | saves s t sv => exact ih
    | dropApi s s' t now handle addr ep hpt hep hrem hlt hl0 hsame hcall =>
      show 0 ≤ s'.nextSpectatorFrame
      unfold P2P.disconnectPlayer at hcall
      rw [hpt] at hcall
      simp only at hcall
      split at hcall
      · obtain ⟨s1, hdrop, hcall⟩ := bind_ok hcall
        have := pure_ok hcall
        simp only [Prod.mk.injEq] at this
        rw [← this.1, P2P.disconnectAt_nsf _ _ _ _ _ hdrop]; exact ih
      · have := pure_ok hcall
        simp only [Prod.mk.injEq] at this
        rw [← this.1]; exact ih
    | dropEvent s s' t now addr hs ep L hpt hep hsub hrem hlt hconn hL0 hsame hev =>
      show 0 ≤ s'.nextSpectatorFrame
      unfold P2P.handleEventCore at hev
      simp only at hev
      obtain ⟨s1, hfold, hev⟩ := bind_ok hev
      have := pure_ok hev
      subst this
      have hfn : s1.nextSpectatorFrame = s.nextSpectatorFrame := by
        have key : ∀ (l : List Nat) (a b : P2P), l.foldlM (fun s h =>
            let lastFrame := if h < s.numPlayers then (rget s.localConnectStatus h).lastFrame else NULL_FRAME
            s.disconnectPlayerAtFrame now h lastFrame) a = .ok b → b.nextSpectatorFrame = a.nextSpectatorFrame := by
          intro l
          induction l with
          | nil => intro a b hf; simp only [List.foldlM_nil] at hf; have := pure_ok hf; subst this; rfl
          | cons x xs ihl =>
            intro a b hf
            simp only [List.foldlM_cons] at hf
            obtain ⟨a1, h1, hf⟩ := bind_ok hf
            rw [ihl a1 b hf, P2P.disconnectAt_nsf _ _ _ _ _ h1]
        exact key hs s s1 hfold
      show 0 ≤ (s1.pushEvent _).nextSpectatorFrame
      have : (s1.pushEvent (Event.disconnected addr)).nextSpectatorFrame = s1.nextSpectatorFrame := rfl
      rw [this, hfn]; exact ih
    | adopt s s' t now handle addr ep lf hpt hep hrem hl0 hlow hdead hdrop =>
      show 0 ≤ s'.nextSpectatorFrame
      rw [P2P.disconnectAt_nsf _ _ _ _ _ hdrop]; exact ih

end Ggrs
