/-
L-replay: a game that executes request lists. If every request passes the frame-consistency check
`Chk` (a save names the game's frame; a load names an earlier frame whose cell is tagged with it
and still valid; an advance moves one frame on), the game's state is always the replay of its own
timeline from the initial state, and every load restores exactly the state of the loaded frame on
the current timeline.
-/
import GgrsModel.Proofs.Timeline

namespace Ggrs

/-- The game as the user runs it: frame counter, timeline rows, state, saved cells (state and
frame tag per cell index). -/
structure GS (G : Type) where
  cur : Int
  R : Nat → List (Input × InputStatus)
  g : G
  cellG : Nat → G
  tag : Nat → Int

/-- Executing one request with `n` cells (`cell = frame % n`). -/
def execG {G : Type} (step : G → List (Input × InputStatus) → G) (n : Nat) (x : GS G) : Request → GS G
  | .save f => { x with cellG := upd x.cellG (f.toNat % n) x.g, tag := upd x.tag (f.toNat % n) f }
  | .load f => { x with cur := f, g := x.cellG (f.toNat % n) }
  | .advance ins => { x with cur := x.cur + 1, R := upd x.R x.cur.toNat ins, g := step x.g ins }

def execGs {G : Type} (step : G → List (Input × InputStatus) → G) (n : Nat) (x : GS G) (rs : List Request) : GS G :=
  rs.foldl (execG step n) x

/-- The serial replay of the first `k` rows of a timeline. -/
def replay {G : Type} (step : G → List (Input × InputStatus) → G) (g0 : G)
    (R : Nat → List (Input × InputStatus)) : Nat → G
  | 0 => g0
  | k + 1 => step (replay step g0 R k) (R k)

theorem replay_upd {G : Type} (step : G → List (Input × InputStatus) → G) (g0 : G)
    (R : Nat → List (Input × InputStatus)) (c : Nat) (ins : List (Input × InputStatus)) :
    ∀ k, k ≤ c → replay step g0 (upd R c ins) k = replay step g0 R k := by
  intro k
  induction k with
  | zero => intro _; rfl
  | succ k ih =>
    intro hk
    simp only [replay]
    rw [ih (by omega), upd_ne _ _ _ _ (by omega : k ≠ c)]

/-- The abstract state of the frame-consistency check: the frame the game is at, the tag of every
cell, and which cells still hold a state of the current timeline. -/
structure CS where
  cur : Int
  tag : Nat → Int
  valid : Nat → Prop

/-- The check of one request (C02's clauses). -/
inductive Chk (n : Nat) : CS → Request → CS → Prop
  | save (c : CS) (f : Frame) : f = c.cur → 0 ≤ f →
      Chk n c (.save f) { c with tag := upd c.tag (f.toNat % n) f, valid := fun i => i = f.toNat % n ∨ c.valid i }
  | load (c : CS) (f : Frame) : 0 ≤ f → f < c.cur → c.tag (f.toNat % n) = f → c.valid (f.toNat % n) →
      Chk n c (.load f) { c with cur := f }
  | advance (c : CS) (ins : List (Input × InputStatus)) : 0 ≤ c.cur →
      Chk n c (.advance ins) { c with cur := c.cur + 1, valid := fun i => c.valid i ∧ c.tag i ≤ c.cur }

inductive ChkList (n : Nat) : CS → List Request → CS → Prop
  | nil (c : CS) : ChkList n c [] c
  | cons (c c1 c2 : CS) (r : Request) (rs : List Request) : Chk n c r c1 → ChkList n c1 rs c2 → ChkList n c (r :: rs) c2

theorem ChkList_append (n : Nat) (c c1 c2 : CS) (a b : List Request) (h1 : ChkList n c a c1) (h2 : ChkList n c1 b c2) :
    ChkList n c (a ++ b) c2 := by
  induction h1 with
  | nil c => exact h2
  | cons c c1 c2' r rs hr _ ih => exact ChkList.cons c c1 _ r _ hr (ih h2)

/-- The game against the check state. -/
structure GInv {G : Type} (step : G → List (Input × InputStatus) → G) (g0 : G) (n : Nat) (x : GS G) (c : CS) : Prop where
  cur : x.cur = c.cur
  nonneg : 0 ≤ x.cur
  tag : ∀ i, i < n → x.tag i = c.tag i
  state : x.g = replay step g0 x.R x.cur.toNat
  cells : ∀ i, i < n → c.valid i → 0 ≤ c.tag i ∧ x.cellG i = replay step g0 x.R (c.tag i).toNat

/-- **L-replay, one request.** -/
theorem GInv_exec {G : Type} (step : G → List (Input × InputStatus) → G) (g0 : G) (n : Nat) (hn : 0 < n)
    (x : GS G) (c c' : CS) (r : Request) (h : GInv step g0 n x c) (hc : Chk n c r c') :
    GInv step g0 n (execG step n x r) c' := by
  cases hc with
  | save f hf h0 =>
    have hidx : f.toNat % n < n := Nat.mod_lt _ hn
    refine ⟨h.cur, h.nonneg, ?_, h.state, ?_⟩
    · intro i hi
      show upd x.tag (f.toNat % n) f i = upd c.tag (f.toNat % n) f i
      by_cases hie : i = f.toNat % n
      · rw [hie, upd_self, upd_self]
      · rw [upd_ne _ _ _ _ hie, upd_ne _ _ _ _ hie]; exact h.tag i hi
    · intro i hi hv
      show 0 ≤ upd c.tag (f.toNat % n) f i ∧ upd x.cellG (f.toNat % n) x.g i = replay step g0 x.R (upd c.tag (f.toNat % n) f i).toNat
      by_cases hie : i = f.toNat % n
      · rw [hie, upd_self, upd_self]
        refine ⟨h0, ?_⟩
        rw [h.state, hf, h.cur]
      · rw [upd_ne _ _ _ _ hie, upd_ne _ _ _ _ hie]
        rcases hv with hv | hv
        · exact absurd hv hie
        · exact h.cells i hi hv
  | load f h0 hlt htag hval =>
    have hidx : f.toNat % n < n := Nat.mod_lt _ hn
    obtain ⟨_, hcell⟩ := h.cells _ hidx hval
    refine ⟨rfl, h0, h.tag, ?_, h.cells⟩
    show x.cellG (f.toNat % n) = replay step g0 x.R f.toNat
    rw [hcell, htag]
  | advance ins h0 =>
    have hcur : x.cur.toNat = c.cur.toNat := by rw [h.cur]
    refine ⟨by show x.cur + 1 = c.cur + 1; rw [h.cur], by show 0 ≤ x.cur + 1; have := h.nonneg; omega, h.tag, ?_, ?_⟩
    · show step x.g ins = replay step g0 (upd x.R x.cur.toNat ins) (x.cur + 1).toNat
      have hn1 : (x.cur + 1).toNat = x.cur.toNat + 1 := by have := h.nonneg; omega
      rw [hn1]
      simp only [replay]
      rw [replay_upd step g0 x.R _ ins _ (Nat.le_refl _), upd_self, h.state]
    · intro i hi hv
      obtain ⟨hv1, hv2⟩ := hv
      obtain ⟨a, b⟩ := h.cells i hi hv1
      refine ⟨a, ?_⟩
      show x.cellG i = replay step g0 (upd x.R x.cur.toNat ins) (c.tag i).toNat
      rw [replay_upd step g0 x.R _ ins _ (by rw [h.cur]; omega)]
      exact b

/-- **L-replay.** A checked request list keeps the game on the replay of its own timeline. -/
theorem GInv_execs {G : Type} (step : G → List (Input × InputStatus) → G) (g0 : G) (n : Nat) (hn : 0 < n)
    (x : GS G) (c c' : CS) (rs : List Request) (h : GInv step g0 n x c) (hc : ChkList n c rs c') :
    GInv step g0 n (execGs step n x rs) c' := by
  induction hc generalizing x with
  | nil c => exact h
  | cons c c1 c2 r rs hr _ ih =>
    simp only [execGs, List.foldl_cons]
    exact ih (execG step n x r) (GInv_exec step g0 n hn x c c1 r h hr)

end Ggrs
