/-
L-stream (continued): the receiver invariant and the step theorem.
-/
import GgrsModel.Proofs.RecvStream

namespace Ggrs
open Codec (Bytes)

/-- The stream a sender feeds into `send_input` for one endpoint: frame `f0 + i` carries
`items[i]`; every item has `width` bytes (`INPUT_SIZE` per player of the endpoint). -/
structure SStream where
  f0 : Nat
  items : List Bytes
  width : Nat

namespace SStream
def item (S : SStream) (f : Int) : Bytes := S.items.getD (f - S.f0).toNat []
def last (S : SStream) : Int := (S.f0 : Int) + S.items.length - 1
def zerosB (w : Nat) : Bytes := List.replicate w 0
/-- the input a packet starting at `start` is delta-encoded against -/
def refAt (S : SStream) (start : Int) : Bytes := if start = S.f0 then zerosB S.width else S.item (start - 1)
def slice (S : SStream) (start : Int) (n : Nat) : List Bytes := (S.items.drop (start - S.f0).toNat).take n
end SStream

/-- The Input events one accepted frame produces. -/
def evsOf (f : Frame) (bytes : Bytes) (handles : List Nat) : List ProtoEvent :=
  match Endpoint.toPlayerInputs f bytes handles.length with
  | some pis => pis.zipIdx.map fun (pi, j) => ProtoEvent.input pi (handles.getD j 0)
  | none => []

/-- The events of `k` consecutive frames of the stream starting at `a`. -/
def evsRange (S : SStream) (handles : List Nat) : Int → Nat → List ProtoEvent
  | _, 0 => []
  | a, k + 1 => evsOf a (S.item a) handles ++ evsRange S handles (a + 1) k

/-- The next frame the receiver is waiting for. -/
def nextFrame (e : Endpoint) (S : SStream) : Int :=
  if e.lastRecvFrame = NULL_FRAME then S.f0 else e.lastRecvFrame + 1

structure RInv (e : Endpoint) (S : SStream) : Prop where
  nonempty : e.recvInputs ≠ []
  range : e.lastRecvFrame = NULL_FRAME ∨ ((S.f0 : Int) ≤ e.lastRecvFrame ∧ e.lastRecvFrame ≤ S.last)
  entries : ∀ f b, alookup f e.recvInputs = some b →
    (f = NULL_FRAME ∧ b = SStream.zerosB S.width) ∨ ((S.f0 : Int) ≤ f ∧ f ≤ e.lastRecvFrame ∧ b = S.item f)
  newest : e.lastRecvFrame ≠ NULL_FRAME → alookup e.lastRecvFrame e.recvInputs = some (S.item e.lastRecvFrame)
  fresh : e.lastRecvFrame = NULL_FRAME → alookup NULL_FRAME e.recvInputs = some (SStream.zerosB S.width)
  width : S.width = INPUT_SIZE * e.handles.length ∧ e.handles.length > 0
  itemWidth : ∀ b ∈ S.items, b.length = S.width

theorem toPlayerInputs_some (f : Frame) (bytes : Bytes) (n : Nat) (hn : n > 0) (hl : bytes.length = INPUT_SIZE * n) :
    ∃ pis, Endpoint.toPlayerInputs f bytes n = some pis := by
  unfold Endpoint.toPlayerInputs
  have h0 : (n == 0) = false := by simp; omega
  have h1 : (bytes.length % n != 0) = false := by
    rw [hl]; simp [INPUT_SIZE]
  have h2 : bytes.length / n = INPUT_SIZE := by
    rw [hl]; simp [INPUT_SIZE, Nat.div_self hn]
  simp only [h0, Bool.false_eq_true, if_false, h1, h2, ne_eq, not_true_eq_false, bne_self_eq_false]
  exact ⟨_, rfl⟩

theorem item_mem (S : SStream) (f : Int) (hlo : (S.f0 : Int) ≤ f) (hhi : f ≤ S.last) : S.item f ∈ S.items := by
  unfold SStream.item SStream.last at *
  have hidx : (f - S.f0).toNat < S.items.length := by omega
  rw [List.getD_eq_getElem?_getD, List.getElem?_eq_getElem hidx]
  simp

theorem evsRange_succ_left (S : SStream) (hs : List Nat) (a : Int) (k : Nat) :
    evsOf a (S.item a) hs ++ evsRange S hs (a + 1) k = evsRange S hs a (k + 1) := rfl

/-- The loop over the decoded inputs of one packet. -/
theorem acceptInputs_frame (S : SStream) : ∀ (xs : List Bytes) (e : Endpoint) (start : Frame) (i : Nat),
    RInv e S →
    (∀ j, j < xs.length → xs.getD j [] = S.item (start + (i : Int) + (j : Int))) →
    (S.f0 : Int) ≤ start + (i : Int) →
    start + (i : Int) + (xs.length : Int) - 1 ≤ S.last →
    (e.lastRecvFrame = NULL_FRAME → start + (i : Int) = S.f0) →
    (e.lastRecvFrame ≠ NULL_FRAME → start + (i : Int) ≤ e.lastRecvFrame + 1) →
    ∃ e', Endpoint.acceptInputs e start xs i = (e', true) ∧ RInv e' S ∧
      e'.handles = e.handles ∧ e'.sendQueue = e.sendQueue ∧ e'.maxPrediction = e.maxPrediction ∧
      e'.magic = e.magic ∧
      (xs = [] → e'.lastRecvFrame = e.lastRecvFrame) ∧
      (xs ≠ [] → e'.lastRecvFrame = max e.lastRecvFrame (start + (i : Int) + (xs.length : Int) - 1)) ∧
      e'.eventQueue = e.eventQueue ++ evsRange S e.handles (nextFrame e S) (nextFrame e' S - nextFrame e S).toNat := by
  intro xs
  induction xs with
  | nil =>
    intro e start i h _ _ _ _ _
    refine ⟨e, by simp [Endpoint.acceptInputs], h, rfl, rfl, rfl, rfl, fun _ => rfl, fun hne => absurd rfl hne, ?_⟩
    simp [evsRange]
  | cons x xs ih =>
    intro e start i h hx hlo hhi hfirst hgap
    have hnull : NULL_FRAME = (-1 : Int) := rfl
    have hx0 : x = S.item (start + (i : Int)) := by
      have := hx 0 (by simp)
      simpa using this
    have hxs : ∀ j, j < xs.length → xs.getD j [] = S.item (start + ((i + 1 : Nat) : Int) + (j : Int)) := by
      intro j hj
      have := hx (j + 1) (by simp; omega)
      simp only [List.getD_cons_succ] at this
      rw [this]; congr 1; push_cast; omega
    simp only [List.length_cons] at hhi
    unfold Endpoint.acceptInputs
    simp only
    by_cases hskip : start + (i : Int) ≤ e.lastRecvFrame
    · -- already have this frame
      simp only [hskip, if_true]
      have hL : e.lastRecvFrame ≠ NULL_FRAME := by rw [hnull]; omega
      obtain ⟨e', hacc, hinv, hh, hsq, hmp, hmg, hnil, hcons, hev⟩ := ih e start (i + 1) h hxs (by push_cast; omega)
        (by push_cast; omega) (fun h0 => absurd h0 hL) (fun _ => by push_cast; omega)
      refine ⟨e', hacc, hinv, hh, hsq, hmp, hmg, fun h0 => absurd h0 (List.cons_ne_nil _ _), fun _ => ?_, hev⟩
      by_cases hxe : xs = []
      · rw [hnil hxe, hxe]
        simp only [List.length_cons, List.length_nil]
        rw [Int.max_eq_left (by push_cast; omega)]
      · rw [hcons hxe]
        simp only [List.length_cons]
        congr 1; push_cast; omega
    · -- a new frame: it must be exactly the next one
      simp only [hskip, if_false]
      have hlen : x.length = INPUT_SIZE * e.handles.length := by
        rw [hx0, h.itemWidth _ (item_mem S _ hlo (by omega)), h.width.1]
      obtain ⟨pis, hpis⟩ := toPlayerInputs_some (start + (i : Int)) x e.handles.length h.width.2 hlen
      simp only [hpis]
      -- the endpoint after storing the frame and raising its events
      generalize he2 : e.storeFrame (start + (i : Int)) x pis = e2
      have hri2 : e2.recvInputs = ainsert (start + (i : Int)) x e.recvInputs := by rw [← he2]; rfl
      have hL2 : e2.lastRecvFrame = start + (i : Int) := by
        rw [lastRecvFrame_eq, hri2, maxKey_ainsert _ _ _ h.nonempty, ← lastRecvFrame_eq]
        exact Int.max_eq_left (by omega)
      have hnext : start + (i : Int) = nextFrame e S := by
        unfold nextFrame
        by_cases h0 : e.lastRecvFrame = NULL_FRAME
        · simp only [h0, if_true]; exact hfirst h0
        · simp only [h0, if_false]
          have := hgap h0
          omega
      have hinv2 : RInv e2 S := by
        refine ⟨by rw [hri2]; exact ainsert_ne_nil _ _ _, Or.inr ⟨by rw [hL2]; exact hlo, by rw [hL2]; omega⟩, ?_, ?_, ?_, ?_, h.itemWidth⟩
        · intro f b hf
          rw [hri2] at hf
          by_cases hfe : f = start + (i : Int)
          · subst hfe
            rw [alookup_ainsert_self] at hf
            cases hf
            exact Or.inr ⟨hlo, by rw [hL2]; exact Int.le_refl _, hx0⟩
          · rw [alookup_ainsert_ne _ _ _ hfe] at hf
            rcases h.entries f b hf with h1 | ⟨h1, h2, h3⟩
            · exact Or.inl h1
            · exact Or.inr ⟨h1, by rw [hL2]; omega, h3⟩
        · intro _
          rw [hL2, hri2, alookup_ainsert_self, hx0]
        · intro h0
          rw [hL2, hnull] at h0
          omega
        · rw [← he2]; exact h.width
      have hh2 : e2.handles = e.handles := by rw [← he2]; rfl
      obtain ⟨e', hacc, hinv, hh, hsq, hmp, hmg, hnil, hcons, hev⟩ := ih e2 start (i + 1) hinv2 hxs (by push_cast; omega)
        (by push_cast; omega) (fun h0 => by rw [hL2, hnull] at h0; omega) (fun _ => by rw [hL2]; push_cast; omega)
      refine ⟨e', hacc, hinv, by rw [hh, hh2], by rw [hsq, ← he2]; rfl, by rw [hmp, ← he2]; rfl, by rw [hmg, ← he2]; rfl,
        fun h0 => absurd h0 (List.cons_ne_nil _ _), fun _ => ?_, ?_⟩
      · by_cases hxe : xs = []
        · rw [hnil hxe, hL2, hxe]
          simp only [List.length_cons, List.length_nil]
          rw [Int.max_eq_right (by push_cast; omega)]
          push_cast; omega
        · rw [hcons hxe, hL2]
          simp only [List.length_cons]
          rw [Int.max_eq_right (by push_cast; omega), Int.max_eq_right (by push_cast; omega)]
          push_cast; omega
      · -- events: the frame just accepted, then the rest
        rw [hev, hh2]
        have hq2 : e2.eventQueue = e.eventQueue ++ evsOf (start + (i : Int)) x e.handles := by
          rw [← he2]; simp only [evsOf, hpis, Endpoint.storeFrame]
        have hn2 : nextFrame e2 S = start + (i : Int) + 1 := by
          unfold nextFrame
          have : e2.lastRecvFrame ≠ NULL_FRAME := by rw [hL2, hnull]; omega
          rw [if_neg this, hL2]
        have hge : nextFrame e' S ≥ start + (i : Int) + 1 := by
          unfold nextFrame
          by_cases hxe : xs = []
          · have := hnil hxe
            have hne : e'.lastRecvFrame ≠ NULL_FRAME := by rw [this, hL2, hnull]; omega
            simp only [hne, if_false, this, hL2]; omega
          · have := hcons hxe
            have h1 : e'.lastRecvFrame ≥ start + (i : Int) := by rw [this, hL2]; exact Int.le_max_left _ _
            have hne : e'.lastRecvFrame ≠ NULL_FRAME := by rw [hnull]; omega
            simp only [hne, if_false]; omega
        rw [hq2, hn2, List.append_assoc, hx0]
        congr 1
        rw [← hnext]
        obtain ⟨k, hk⟩ : ∃ k : Nat, (nextFrame e' S - (start + (i : Int))).toNat = k + 1 ∧
            (nextFrame e' S - (start + (i : Int) + 1)).toNat = k := by
          refine ⟨(nextFrame e' S - (start + (i : Int) + 1)).toNat, ?_, rfl⟩
          omega
        rw [hk.1, hk.2]
        exact evsRange_succ_left S e.handles (start + (i : Int)) k

end Ggrs
