/-
L-hostspec: a rollback-mode host and its spectator side by side — the product in which "what the
spectator has received is the host's sequence of real inputs" is derived along the run.

State: the host session with its game's timeline, and the spectator with the rows it has received
so far (`Hs`) and the number of frames it has handed out (`served`) — the spectator world of
`Proofs/SpecRing.lean`. Steps: any step of the host's own world (`SStep`: local inputs, cell writes,
calls, arrivals of remote players' inputs), `set_input_delay` calls of the host's local players, `advance_frame` of the spectator, and the arrival of
the NEXT row at the spectator: the frame right after the last one it holds, which the host has
already offered to its spectator endpoints (`next_spectator_frame` is beyond it), carrying for
every player what the host's queue of that player holds for that frame. That rule is what the
per-link theorems give (`C06_host_rows`: the host hands its spectator endpoints the rows of its
queues, frame after frame; `C05_stream_intact`: the receiving endpoint raises them in order without
gap whatever the network does); it is stated on the concrete rings of the host.

Invariant: the host's session and glue invariants, the spectator's ring invariant, and every row
the spectator holds is, player by player, the host's stream of that player at that frame.
-/
import GgrsModel.Proofs.Pair
import GgrsModel.Proofs.SpecRing
import GgrsModel.Proofs.SpecHost
import GgrsModel.Proofs.Monotone

namespace Ggrs
open InputQueue Spectator

abbrev SpecSt := Spectator × List (List Input) × Nat

inductive HSStep : ((P2P × TLState) × SpecSt) → ((P2P × TLState) × SpecSt) → Prop
  | host (a a' : P2P × TLState) (sp : SpecSt) : SStep a a' → HSStep (a, sp) (a', sp)
  /-- the host's user changes the input delay of a local player -/
  | hostDelay (s s' : P2P) (t : TLState) (sp : SpecSt) (now handle delay : Nat) (r : Except GgrsError Unit) :
      handle ∈ s.localPlayerHandles → handle < s.sync.queues.length →
      s.setInputDelay now handle delay = .ok (s', r) → HSStep ((s, t), sp) ((s', t), sp)
  | specAdvance (a : P2P × TLState) (s s' : Spectator) (Hs : List (List Input)) (served : Nat)
      (res : Except GgrsError (List Request)) : s.advanceAfterPoll = .ok (s', res) →
      HSStep (a, (s, Hs, served)) (a, (s', Hs, served + (match res with | .ok reqs => reqs.length | .error _ => 0)))
  /-- the next row arrives at the spectator: offered by the host, read off the host's queues -/
  | specRecv (a : P2P × TLState) (s s' : Spectator) (Hs : List (List Input)) (served : Nat) (now addr : Nat)
      (row : List Input) : row.length = s.numPlayers → row.length = a.1.sync.queues.length →
      (Hs.length : Int) < a.1.nextSpectatorFrame →
      (∀ h, h < a.1.sync.queues.length →
        (Hs.length : Int) ≤ (rget a.1.sync.queues h).lastAddedFrame ∧
        (rget a.1.sync.queues h).lastAddedFrame < (Hs.length : Int) + INPUT_QUEUE_LENGTH ∧
        rget (rget a.1.sync.queues h).inputs (Hs.length % INPUT_QUEUE_LENGTH) = ⟨(Hs.length : Int), row.getD h 0⟩) →
      recvLoop now (Hs.length : Int) addr row 0 s = .ok s' →
      HSStep (a, (s, Hs, served)) (a, (s', Hs ++ [row], served))

inductive HSStar : ((P2P × TLState) × SpecSt) → ((P2P × TLState) × SpecSt) → Prop
  | refl (x) : HSStar x x
  | step (x y z) : HSStar x y → HSStep y z → HSStar x z

/-- Every row the spectator holds is the host's streams at that frame. -/
def RowsOk (a : P2P) (gh : Ghost) (Hs : List (List Input)) : Prop :=
  ∀ f, f < Hs.length → ∀ h, h < a.sync.queues.length →
    f < (gh.specs h).vals.length ∧ (Hs.getD f []).getD h 0 = (gh.specs h).vals.getD f 0

structure HSInv (x : (P2P × TLState) × SpecSt) (gh : Ghost) : Prop where
  sess : SessInv x.1.1 gh x.1.2 []
  glue : GlueInv x.1.1 gh
  nsf : 0 ≤ x.1.1.nextSpectatorFrame
  spec : SpecInv x.2.1 x.2.2.1 x.2.2.2
  rows : RowsOk x.1.1 gh x.2.2.1
  offered : (x.2.2.1.length : Int) ≤ x.1.1.nextSpectatorFrame

theorem submit_prefixOf (sp : QSpec) (uf : Int) (v : Input) : PrefixOf sp.vals (sp.submit uf v).1.vals := by
  unfold QSpec.submit
  split
  · exact PrefixOf.refl _
  · simp only
    split
    · exact PrefixOf.refl _
    · simp only [List.append_assoc]
      exact prefixOf_append _ _

/-- One step of the host's own world: both invariants again, streams only grow, same number of
queues, the spectator cursor does not move back. -/
theorem sstep_grow (x y : P2P × TLState) (gh : Ghost) (hx : SessInv x.1 gh x.2 []) (hg : GlueInv x.1 gh)
    (hn : 0 ≤ x.1.nextSpectatorFrame) (hs : SStep x y) :
    ∃ gh', SessInv y.1 gh' y.2 [] ∧ GlueInv y.1 gh' ∧ (∀ p, PrefixOf (gh.specs p).vals (gh'.specs p).vals) ∧
      y.1.sync.queues.length = x.1.sync.queues.length ∧ x.1.nextSpectatorFrame ≤ y.1.nextSpectatorFrame := by
  have hnq : y.1.sync.queues.length = x.1.sync.queues.length := by
    obtain ⟨_, _, _, h, _⟩ := HInv_step_grow x y gh hx hg (DStep.base _ _ hs)
    exact h
  cases hs with
  | remoteInput s s' t now inp player handles addr hnl h0 hev =>
    obtain ⟨gh', h', hg', _, _, _, hsp⟩ := glue_remoteInputX s s' gh t now inp player handles addr hx hg hnl h0 hev
    refine ⟨gh', h', hg', ?_, hnq, ?_⟩
    · intro p
      rw [hsp p]
      by_cases hpp : p = player
      · rw [if_pos hpp]; exact submit_prefixOf _ _ _
      · rw [if_neg hpp]; exact PrefixOf.refl _
    · show s.nextSpectatorFrame ≤ s'.nextSpectatorFrame
      rw [P2P.remoteInput_nsf s s' now inp player handles addr hev]; exact Int.le_refl _
  | tick s s' t now reqs' hadv =>
    obtain ⟨gh2, gh', _, _, hinv', hg', hsp, hpre, _⟩ := rollbackTick_glueX s s' gh t [] reqs' now hx hg hadv
    obtain ⟨_, _, _, _, _, _, _, _, _, _, hle, _⟩ := rollbackTick_offers s s' gh t [] reqs' now hx hn hadv
    exact ⟨gh', SessInv_rebase s' gh' t reqs' hinv', hg', fun p => by rw [hsp]; exact hpre p, hnq, hle⟩
  | localInput s t handle input =>
    obtain ⟨l, hl⟩ := P2P.addLocalInput_pending s handle input
    refine ⟨gh, ?_, ?_, fun _ => PrefixOf.refl _, hnq, ?_⟩
    · show SessInv (s.addLocalInput handle input).1 gh t []
      rw [hl]; exact SessInv_pending s gh t [] l hx
    · show GlueInv (s.addLocalInput handle input).1 gh
      rw [hl]; exact GlueInv_pending s gh l hg
    · show s.nextSpectatorFrame ≤ (s.addLocalInput handle input).1.nextSpectatorFrame
      rw [hl]; exact Int.le_refl _
  | saves s t sv =>
    exact ⟨gh, SessInv_userExecute s gh t [] sv hx, GlueInv_userExecute s gh sv hg, fun _ => PrefixOf.refl _, hnq,
      Int.le_refl _⟩

theorem HSInv_step (x y : (P2P × TLState) × SpecSt) (h : ∃ gh, HSInv x gh) (hs : HSStep x y) : ∃ gh, HSInv y gh := by
  obtain ⟨gh, h⟩ := h
  cases hs with
  | host a a' sp hss =>
    obtain ⟨gh', h1, h2, hpre, hnq, hle⟩ := sstep_grow a a' gh h.sess h.glue h.nsf hss
    refine ⟨gh', h1, h2, Int.le_trans h.nsf hle, h.spec, ?_, Int.le_trans h.offered hle⟩
    intro f hf p hp
    obtain ⟨a1, a2⟩ := h.rows f hf p (by rw [← hnq]; exact hp)
    have hp' := hpre p
    exact ⟨by have := hp'.1; omega, by rw [hp'.2 f a1]; exact a2⟩
  | hostDelay s s' t sp now handle delay r hloc hp hset =>
    obtain ⟨gh', hinv', hg', hcase, _, _, _, _, hnsf, _, _, _, hq⟩ :=
      setInputDelay_spec s s' gh t [] now handle delay r h.sess h.glue hloc hp hset
    have hpre : ∀ p, PrefixOf (gh.specs p).vals (gh'.specs p).vals := by
      intro p
      rcases hcase with he | he
      · rw [he]; exact PrefixOf.refl _
      · rw [he]
        unfold ghDelay
        by_cases hpe : p = handle
        · subst hpe
          simp only [if_true]
          obtain ⟨k, hv, _, _⟩ := setDelay_facts (gh.specs p) delay
          rw [hv]
          exact prefixOf_append _ _
        · simp only [hpe, if_false]
          exact PrefixOf.refl _
    refine ⟨gh', hinv', hg', by show 0 ≤ s'.nextSpectatorFrame; rw [hnsf]; exact h.nsf, h.spec, ?_,
      by show (sp.2.1.length : Int) ≤ s'.nextSpectatorFrame; rw [hnsf]; exact h.offered⟩
    intro f hf p hp'
    obtain ⟨a1, a2⟩ := h.rows f hf p (by rw [← hq]; exact hp')
    have hp2 := hpre p
    exact ⟨by have := hp2.1; omega, by rw [hp2.2 f a1]; exact a2⟩
  | specAdvance a s s' Hs served res hadv =>
    exact ⟨gh, h.sess, h.glue, h.nsf,
      SpecInv_step (s, Hs, served) _ h.spec (SpStep.advance s s' Hs served res hadv), h.rows, h.offered⟩
  | specRecv a s s' Hs served now addr row hrow hrowq hoff hring hrecv =>
    have hsp : SpecInv s' (Hs ++ [row]) served :=
      SpecInv_step (s, Hs, served) (s', Hs ++ [row], served) h.spec (SpStep.recv s s' Hs served now addr row hrow hrecv)
    refine ⟨gh, h.sess, h.glue, h.nsf, hsp, ?_, ?_⟩
    · intro f hf p hp
      simp only [List.length_append, List.length_cons, List.length_nil] at hf
      by_cases hfo : f < Hs.length
      · obtain ⟨a1, a2⟩ := h.rows f hfo p hp
        refine ⟨a1, ?_⟩
        rw [← a2]
        simp [List.getD_eq_getElem?_getD, List.getElem?_append_left hfo]
      · have hfe : f = Hs.length := by omega
        subst hfe
        obtain ⟨hle, hwin, hslot⟩ := hring p hp
        have hr := (h.sess.tinv.sync.all p hp).ring
        have hla : (rget a.1.sync.queues p).lastAddedFrame = ((gh.specs p).vals.length : Int) - 1 := hr.lastAdded
        have hfB : Hs.length < (gh.specs p).vals.length := by
          have : (Hs.length : Int) ≤ ((gh.specs p).vals.length : Int) - 1 := by rw [← hla]; exact hle
          omega
        have hwB : (gh.specs p).vals.length ≤ Hs.length + INPUT_QUEUE_LENGTH := by
          have : ((gh.specs p).vals.length : Int) - 1 < (Hs.length : Int) + INPUT_QUEUE_LENGTH := by rw [← hla]; exact hwin
          omega
        have e := hr.slots Hs.length hfB hwB
        have e' : rget (rget a.1.sync.queues p).inputs (Hs.length % INPUT_QUEUE_LENGTH) =
            ⟨(Hs.length : Int), (gh.specs p).vals.getD Hs.length 0⟩ := e
        rw [hslot] at e'
        refine ⟨hfB, ?_⟩
        have hv : row.getD p 0 = (gh.specs p).vals.getD Hs.length 0 := congrArg PlayerInput.input e'
        rw [← hv]
        simp [List.getD_eq_getElem?_getD]
    · show ((Hs ++ [row]).length : Int) ≤ a.1.nextSpectatorFrame
      simp only [List.length_append, List.length_cons, List.length_nil]
      omega

/-- **L-hostspec.** -/
theorem HSInv_run (x y : (P2P × TLState) × SpecSt) (h : ∃ gh, HSInv x gh) (hr : HSStar x y) : ∃ gh, HSInv y gh := by
  induction hr with
  | refl => exact h
  | step y z _ hs ih => exact HSInv_step y z ih hs

end Ggrs
