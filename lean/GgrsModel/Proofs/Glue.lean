/-
L-glue: what the owner of a player hands to its remote endpoints. The outgoing queue
(`outgoing_local_inputs`, a map frame → (handle → input)) only ever holds the owner's own queue
contents, and every frame `send_ready_outgoing_inputs_to_remotes` hands to the endpoints is, for
every local player, exactly the input that player's queue holds for that frame — fills and the
blank frames in front of a delayed first input included.
-/
import GgrsModel.Proofs.SpecHost

namespace Ggrs
open InputQueue

/-- `a` is a prefix of `b`, pointwise. -/
def PrefixOf (a b : List Input) : Prop := a.length ≤ b.length ∧ ∀ f, f < a.length → b.getD f 0 = a.getD f 0

theorem PrefixOf.refl (a : List Input) : PrefixOf a a := ⟨Nat.le_refl _, fun _ _ => rfl⟩

theorem PrefixOf.trans {a b c : List Input} (h1 : PrefixOf a b) (h2 : PrefixOf b c) : PrefixOf a c :=
  ⟨Nat.le_trans h1.1 h2.1, fun f hf => by rw [h2.2 f (by have := h1.1; omega), h1.2 f hf]⟩

theorem PrefixOf_append (a ext : List Input) : PrefixOf a (a ++ ext) :=
  ⟨by simp, fun f hf => by simp [List.getD_eq_getElem?_getD, List.getElem?_append_left hf]⟩

/-- Every queued outgoing input is the owner's queue content: the entry for frame `f` and handle
`h` is the input of frame `f` in `h`'s stream. -/
def OutOk (s : P2P) (gh : Ghost) : Prop :=
  ∀ f m, alookup f s.outgoingLocalInputs = some m → 0 ≤ f ∧ ∀ x ∈ m, x.1 ∈ s.localPlayerHandles ∧
    f.toNat < (gh.specs x.1).vals.length ∧ x.2 = ⟨f, (gh.specs x.1).vals.getD f.toNat 0⟩

theorem OutOk_grow (s : P2P) (gh gh' : Ghost) (h : OutOk s gh)
    (hg : ∀ p, PrefixOf (gh.specs p).vals (gh'.specs p).vals) : OutOk s gh' := by
  intro f m hl
  obtain ⟨h0, hm⟩ := h f m hl
  refine ⟨h0, fun x hx => ?_⟩
  obtain ⟨a, b, c⟩ := hm x hx
  refine ⟨a, by have := (hg x.1).1; omega, ?_⟩
  rw [c, (hg x.1).2 _ b]

theorem OutOk_congr (s s' : P2P) (gh : Ghost) (h : OutOk s gh) (ho : s'.outgoingLocalInputs = s.outgoingLocalInputs)
    (hh : s'.handles = s.handles) : OutOk s' gh := by
  have hlp : s'.localPlayerHandles = s.localPlayerHandles := by unfold P2P.localPlayerHandles; rw [hh]
  intro f m hl
  rw [ho] at hl
  rw [hlp]
  exact h f m hl

/-- Queueing one local input that is the stream's input of its frame. -/
theorem queueOutgoing_out (s s' : P2P) (gh : Ghost) (h : Nat) (inp : PlayerInput) (ho : OutOk s gh)
    (hloc : h ∈ s.localPlayerHandles) (h0 : 0 ≤ inp.frame) (hlt : inp.frame.toNat < (gh.specs h).vals.length)
    (hv : inp.input = (gh.specs h).vals.getD inp.frame.toNat 0)
    (hq : s.queueOutgoingLocalInput h inp = .ok s') :
    OutOk s' gh ∧ s'.handles = s.handles ∧ s'.lastSentOutgoingInputFrame = s.lastSentOutgoingInputFrame := by
  unfold P2P.queueOutgoingLocalInput at hq
  obtain ⟨_, hq⟩ := ensure_bind_ok hq
  split at hq
  · have := pure_ok hq; subst this; exact ⟨ho, rfl, rfl⟩
  · have := pure_ok hq
    subst this
    refine ⟨?_, rfl, rfl⟩
    intro f m hl
    show 0 ≤ f ∧ ∀ x ∈ m, x.1 ∈ s.localPlayerHandles ∧ _
    simp only at hl
    by_cases hf : f = inp.frame
    · subst hf
      rw [alookup_ainsert_self'] at hl
      cases hl
      refine ⟨h0, fun x hx => ?_⟩
      rcases List.mem_append.mp hx with hx1 | hx1
      · have hx2 := (List.mem_filter.mp hx1).1
        cases hlk : alookup inp.frame s.outgoingLocalInputs with
        | none => rw [hlk] at hx2; simp at hx2
        | some m0 =>
          rw [hlk] at hx2
          exact (ho inp.frame m0 hlk).2 x hx2
      · simp only [List.mem_singleton] at hx1
        subst hx1
        exact ⟨hloc, hlt, by rw [← hv]⟩
    · rw [alookup_ainsert_ne' _ _ _ hf] at hl
      exact ho f m hl

theorem submit_eq_landed (s : QSpec) (uf : Int) (v : Input)
    (h1 : ¬ (s.lastUser != -1 && uf != s.lastUser + 1) = true) (h2 : ¬ (s.vals.length : Int) > uf + (s.delay : Int)) :
    s.submit uf v = ({ vals := s.vals ++ List.replicate (uf + (s.delay : Int) - (s.vals.length : Int)).toNat s.lastVal ++ [v],
                        lastUser := uf, delay := s.delay }, uf + (s.delay : Int)) := by
  unfold QSpec.submit
  rw [if_neg h1]
  simp only
  rw [if_neg h2]
  rfl

/-- A submission that landed: where, with what value, and what it leaves of the old stream. -/
theorem submit_landed (s : QSpec) (uf : Int) (v : Input) (h0 : 0 ≤ uf) (hne : (s.submit uf v).2 ≠ NULL_FRAME) :
    0 ≤ (s.submit uf v).2 ∧ ((s.submit uf v).1.vals.length : Int) = (s.submit uf v).2 + 1 ∧
    (s.submit uf v).1.vals.getD (s.submit uf v).2.toNat 0 = v ∧ PrefixOf s.vals (s.submit uf v).1.vals ∧
    (s.vals = [] → ∀ f, f < (s.submit uf v).2.toNat → (s.submit uf v).1.vals.getD f 0 = 0) := by
  by_cases h1 : (s.lastUser != -1 && uf != s.lastUser + 1) = true
  · exfalso; apply hne; unfold QSpec.submit; rw [if_pos h1]
  by_cases h2 : (s.vals.length : Int) > uf + (s.delay : Int)
  · exfalso; apply hne; unfold QSpec.submit; rw [if_neg h1]; simp only; rw [if_pos h2]
  rw [submit_eq_landed s uf v h1 h2]
  simp only
  have hk : (s.vals ++ List.replicate (uf + (s.delay : Int) - (s.vals.length : Int)).toNat s.lastVal).length
      = (uf + (s.delay : Int)).toNat := by
    simp only [List.length_append, List.length_replicate]; omega
  refine ⟨by omega, ?_, ?_, ?_, ?_⟩
  · rw [List.length_append, hk]; simp only [List.length_cons, List.length_nil]; push_cast; omega
  · rw [List.getD_eq_getElem?_getD, List.getElem?_append_right (by rw [hk]; exact Nat.le_refl _), hk]
    simp
  · rw [List.append_assoc]; exact PrefixOf_append _ _
  · intro hnil f hf
    have hlv : s.lastVal = 0 := by simp [QSpec.lastVal, hnil]
    rw [hnil, hlv]
    simp only [List.nil_append, List.length_nil]
    have hf' : f < (List.replicate (uf + (s.delay : Int) - ((0 : Nat) : Int)).toNat (0 : Input)).length := by
      simp only [List.length_replicate]; omega
    rw [List.getD_eq_getElem?_getD, List.getElem?_append_left hf', List.getElem?_replicate]
    split <;> rfl

theorem submit_dropped (s : QSpec) (uf : Int) (v : Input) (he : (s.submit uf v).2 = NULL_FRAME) (h0 : 0 ≤ uf) :
    (s.submit uf v).1.vals = s.vals := by
  by_cases h1 : (s.lastUser != -1 && uf != s.lastUser + 1) = true
  · unfold QSpec.submit; rw [if_pos h1]
  by_cases h2 : (s.vals.length : Int) > uf + (s.delay : Int)
  · unfold QSpec.submit; rw [if_neg h1]; simp only; rw [if_pos h2]
  rw [submit_eq_landed s uf v h1 h2] at he
  simp only [NULL_FRAME] at he
  omega

/-- The blank frames in front of a delayed first input. -/
theorem queueBlanks_out (gh : Ghost) (h : Nat) : ∀ (l : List Nat) (s s' : P2P), OutOk s gh → h ∈ s.localPlayerHandles →
    (∀ f ∈ l, f < (gh.specs h).vals.length ∧ (gh.specs h).vals.getD f 0 = 0) →
    l.foldlM (fun s (f : Nat) => s.queueOutgoingLocalInput h (PlayerInput.blank f)) s = .ok s' →
    OutOk s' gh ∧ s'.handles = s.handles ∧ s'.lastSentOutgoingInputFrame = s.lastSentOutgoingInputFrame := by
  intro l
  induction l with
  | nil =>
    intro s s' ho _ _ hf
    simp only [List.foldlM_nil] at hf
    have := pure_ok hf; subst this
    exact ⟨ho, rfl, rfl⟩
  | cons f rest ih =>
    intro s s' ho hloc hl hf
    simp only [List.foldlM_cons] at hf
    obtain ⟨s1, h1, hf⟩ := bind_ok hf
    obtain ⟨hlt, hv⟩ := hl f List.mem_cons_self
    obtain ⟨ho1, hh1, hs1⟩ := queueOutgoing_out s s1 gh h (PlayerInput.blank f) ho hloc
      (by show (0 : Int) ≤ (f : Int); exact Int.natCast_nonneg _)
      (by show ((f : Int)).toNat < _; simpa using hlt)
      (by show (0 : Input) = (gh.specs h).vals.getD ((f : Int)).toNat 0; rw [Int.toNat_natCast, hv]) h1
    have hloc1 : h ∈ s1.localPlayerHandles := by unfold P2P.localPlayerHandles; rw [hh1]; exact hloc
    obtain ⟨ho2, hh2, hs2⟩ := ih s1 s' ho1 hloc1 (fun g hg => hl g (List.mem_cons_of_mem _ hg)) hf
    exact ⟨ho2, hh2.trans hh1, hs2.trans hs1⟩

/-- The glue invariant: the outgoing queue holds queue contents only, and a local player's status
names the newest frame its queue holds. -/
structure GlueInv (s : P2P) (gh : Ghost) : Prop where
  out : OutOk s gh
  top : ∀ p, p ∈ s.localPlayerHandles → p < s.sync.queues.length →
    (rget s.localConnectStatus p).lastFrame = ((gh.specs p).vals.length : Int) - 1

/-- The ghost after one local player's registration. -/
def ghAfter (gh : Ghost) (hd : Nat) (pi : PlayerInput) : Ghost :=
  { gh with specs := fun i => if i = hd then ((gh.specs hd).submit pi.frame pi.input).1 else gh.specs i }

theorem ghAfter_prefix (gh : Ghost) (hd : Nat) (pi : PlayerInput) (h0 : 0 ≤ pi.frame) :
    ∀ p, PrefixOf (gh.specs p).vals ((ghAfter gh hd pi).specs p).vals := by
  intro p
  unfold ghAfter
  by_cases hp : p = hd
  · subst hp
    simp only [if_true]
    by_cases hne : ((gh.specs p).submit pi.frame pi.input).2 = NULL_FRAME
    · rw [submit_dropped _ _ _ hne h0]; exact PrefixOf.refl _
    · exact (submit_landed _ _ _ h0 hne).2.2.2.1
  · simp only [hp, if_false]; exact PrefixOf.refl _

/-- **One local player's registration, the outgoing side.** -/
theorem registerOne_glue (s s' : P2P) (gh : Ghost) (t0 : TLState) (reqs : List Request) (hd : Nat)
    (h : SessInv s gh t0 reqs) (hg : GlueInv s gh) (hloc : hd ∈ s.localPlayerHandles)
    (hreg : s.registerOne hd = .ok s') :
    ∃ pi, s.pendingInputOf hd = .ok pi ∧ 0 ≤ pi.frame ∧ GlueInv s' (ghAfter gh hd pi) ∧ s'.handles = s.handles ∧
      s'.lastSentOutgoingInputFrame = s.lastSentOutgoingInputFrame ∧
      s'.sync.queues.length = s.sync.queues.length := by
  unfold P2P.registerOne at hreg
  obtain ⟨pi, hpi, hreg⟩ := bind_ok hreg
  obtain ⟨r, hadd, hreg⟩ := bind_ok hreg
  obtain ⟨sy, actual⟩ := r
  simp only at hreg
  unfold SyncLayer.addLocalInput at hadd
  obtain ⟨hfr, hadd⟩ := ensure_bind_ok hadd
  obtain ⟨hpl, hadd⟩ := ensure_bind_ok hadd
  have hp : hd < s.sync.queues.length := of_decide_eq_true hpl
  obtain ⟨r2, haq, hadd⟩ := bind_ok hadd
  obtain ⟨q', fr⟩ := r2
  simp only at hadd
  have := pure_ok hadd
  simp only [Prod.mk.injEq] at this
  obtain ⟨hsy, hfre⟩ := this
  subst hsy; subst hfre
  have hpf : pi.frame = s.sync.currentFrame := by simpa using hfr
  have h0 : 0 ≤ pi.frame := by rw [hpf]; exact h.tinv.sync.cur
  have haq' : (rget s.sync.queues hd).addInput ⟨pi.frame, pi.input⟩ = .ok (q', fr) := haq
  obtain ⟨_, _, hfrs⟩ := QI_add s.pred _ q' _ _ _ _ pi.frame pi.input fr (h.tinv.sync.all hd hp) (h.asked hd hp) haq'
  have hpre := ghAfter_prefix gh hd pi h0
  have hsp : (ghAfter gh hd pi).specs hd = ((gh.specs hd).submit pi.frame pi.input).1 := by simp [ghAfter]
  have hspo : ∀ p, p ≠ hd → (ghAfter gh hd pi).specs p = gh.specs p := by intro p hp; simp [ghAfter, hp]
  refine ⟨pi, hpi, h0, ?_⟩
  by_cases hact : (fr != NULL_FRAME) = true
  · simp only [hact, if_true] at hreg
    obtain ⟨s2, hbl, hreg⟩ := bind_ok hreg
    have hne : ((gh.specs hd).submit pi.frame pi.input).2 ≠ NULL_FRAME := by rw [← hfrs]; simpa using hact
    obtain ⟨l0, l1, l2, _, l4⟩ := submit_landed (gh.specs hd) pi.frame pi.input h0 hne
    rw [← hfrs] at l0 l1 l2 l4
    -- the state after add_local_input
    have ho1 : OutOk ({ s with sync := { s.sync with queues := rset s.sync.queues hd q' } } : P2P) (ghAfter gh hd pi) :=
      OutOk_congr s _ _ (OutOk_grow s gh _ hg.out hpre) rfl rfl
    -- blanks
    have hc1 := P2P.queueInitialBlanks_sameCore _ _ _ _ hbl
    have hb : OutOk s2 (ghAfter gh hd pi) ∧ s2.handles = s.handles ∧
        s2.lastSentOutgoingInputFrame = s.lastSentOutgoingInputFrame := by
      unfold P2P.queueInitialBlanks at hbl
      split at hbl
      · rename_i hnull
        have hnull' : (rget s.localConnectStatus hd).lastFrame = NULL_FRAME := by simpa using hnull
        have hempty : (gh.specs hd).vals = [] := by
          have := hg.top hd hloc hp
          rw [hnull'] at this
          simp only [NULL_FRAME] at this
          exact List.length_eq_zero_iff.mp (by omega)
        exact queueBlanks_out (ghAfter gh hd pi) hd _ ({ s with sync := { s.sync with queues := rset s.sync.queues hd q' } } : P2P) s2 ho1 hloc (fun f hf => by
          rw [hsp]
          have hf' : f < fr.toNat := List.mem_range.mp hf
          exact ⟨by omega, l4 hempty f hf'⟩) hbl
      · have := pure_ok hbl; subst this; exact ⟨ho1, rfl, rfl⟩
    obtain ⟨ho2, hh2, hs2⟩ := hb
    -- the input itself
    have hloc3 : hd ∈ (s2.setStatus hd fun c => { c with lastFrame := fr }).localPlayerHandles := by
      unfold P2P.localPlayerHandles; show hd ∈ s2.handles.filterMap _; rw [hh2]; exact hloc
    obtain ⟨ho3, hh3, hs3⟩ := queueOutgoing_out (s2.setStatus hd fun c => { c with lastFrame := fr }) s' (ghAfter gh hd pi) hd
      ⟨fr, pi.input⟩ (OutOk_congr s2 _ _ ho2 rfl rfl) hloc3 l0 (by rw [hsp]; show fr.toNat < _; omega) (by rw [hsp]; exact l2.symm) hreg
    have hc3 := P2P.queueOutgoing_sameCore _ _ _ _ hreg
    refine ⟨⟨ho3, ?_⟩, hh3.trans hh2, hs3.trans hs2, ?_⟩
    · intro p hpl hpq
      rw [hc3.statuses]
      show (rget (rset s2.localConnectStatus hd _) p).lastFrame = _
      rw [hc1.statuses]
      have hpq' : p < s.sync.queues.length := by
        rw [hc3.sync] at hpq
        have : s2.sync = ({ s with sync := { s.sync with queues := rset s.sync.queues hd q' } } : P2P).sync := hc1.sync
        have hq : (s2.setStatus hd fun c => { c with lastFrame := fr }).sync = s2.sync := rfl
        rw [hq, this] at hpq
        simpa [rset_length] using hpq
      have hpl' : p ∈ s.localPlayerHandles := by
        unfold P2P.localPlayerHandles at hpl ⊢; rw [hh3.trans hh2] at hpl; exact hpl
      by_cases hpe : p = hd
      · subst hpe
        rw [rget_rset_eq _ _ _ (by rw [h.tinv.sync.nq]; exact hp), hsp]
        show fr = _
        omega
      · rw [rget_rset_ne _ _ _ _ (fun e => hpe e.symm), hspo p hpe]
        exact hg.top p hpl' hpq'
    · rw [hc3.sync]
      show s2.sync.queues.length = _
      rw [hc1.sync]
      exact rset_length _ _ _
  · simp only [hact, Bool.false_eq_true, if_false] at hreg
    have := pure_ok hreg
    subst this
    have he : ((gh.specs hd).submit pi.frame pi.input).2 = NULL_FRAME := by rw [← hfrs]; simpa using hact
    have hvals := submit_dropped _ _ _ he h0
    refine ⟨⟨OutOk_congr s _ _ (OutOk_grow s gh _ hg.out hpre) rfl rfl, ?_⟩, rfl, rfl, rset_length _ _ _⟩
    intro p hpl hpq
    have hpq' : p < s.sync.queues.length := by simpa [rset_length] using hpq
    show (rget s.localConnectStatus p).lastFrame = _
    by_cases hpe : p = hd
    · subst hpe; rw [hsp, hvals]; exact hg.top p hpl hpq'
    · rw [hspo p hpe]; exact hg.top p hpl hpq'

theorem GlueInv_specs (s : P2P) (gh gh' : Ghost) (h : GlueInv s gh) (hs : gh'.specs = gh.specs) : GlueInv s gh' := by
  refine ⟨?_, ?_⟩
  · intro f m hl
    rw [hs]; exact h.out f m hl
  · intro p hp hq
    rw [hs]; exact h.top p hp hq

/-- All local players' registrations. -/
theorem registerFold_glueX (t0 : TLState) (reqs : List Request) : ∀ (l : List Nat) (s s' : P2P) (gh : Ghost),
    SessInv s gh t0 reqs → GlueInv s gh → (∀ x ∈ l, x ∈ s.localPlayerHandles) → l.foldlM P2P.registerOne s = .ok s' →
    ∃ gh', SessInv s' gh' t0 reqs ∧ GlueInv s' gh' ∧ RegKeeps s s' gh gh' ∧
      s'.lastSentOutgoingInputFrame = s.lastSentOutgoingInputFrame ∧
      (∀ p, PrefixOf (gh.specs p).vals (gh'.specs p).vals) ∧ ∀ p, p ∉ l → gh'.specs p = gh.specs p := by
  intro l
  induction l with
  | nil =>
    intro s s' gh h hg _ hf
    simp only [List.foldlM_nil] at hf
    have := pure_ok hf; subst this
    exact ⟨gh, h, hg, ⟨rfl, rfl, rfl, rfl, rfl, rfl, rfl, rfl, fun _ => Nat.le_refl _⟩, rfl, fun _ => PrefixOf.refl _,
      fun _ _ => rfl⟩
  | cons a rest ih =>
    intro s s' gh h hg hl hf
    simp only [List.foldlM_cons] at hf
    obtain ⟨s1, h1, hf⟩ := bind_ok hf
    have hla := hl a List.mem_cons_self
    obtain ⟨gh1, hinv1, hT1, hc1, hh1, hp1, hsp1, hm1, hn1, hlc1, hgr1, pi, hpi, hspecs⟩ :=
      registerOne_spec s s1 gh t0 reqs a h hla h1
    obtain ⟨pi', hpi', h0, hg1, _, hls1, _⟩ := registerOne_glue s s1 gh t0 reqs a h hg hla h1
    have hpe : pi' = pi := by rw [hpi] at hpi'; cases hpi'; rfl
    subst hpe
    have hg1' : GlueInv s1 gh1 := GlueInv_specs s1 _ gh1 hg1 (by rw [hspecs]; rfl)
    have hlp : s1.localPlayerHandles = s.localPlayerHandles := by unfold P2P.localPlayerHandles; rw [hh1]
    obtain ⟨gh', hinv', hg', hk, hls, hpre, hoth⟩ := ih s1 s' gh1 hinv1 hg1'
      (fun x hx => by rw [hlp]; exact hl x (List.mem_cons_of_mem _ hx)) hf
    refine ⟨gh', hinv', hg', ⟨hk.T.trans hT1, hk.cur.trans hc1, hk.handles.trans hh1, hk.pred.trans hp1, hk.sparse.trans hsp1,
      hk.maxPrediction.trans hm1, hk.nq.trans hn1, hk.lastConfirmed.trans hlc1,
      fun p => Nat.le_trans (hgr1 p) (hk.grows p)⟩, hls.trans hls1, ?_, ?_⟩
    · intro p
      have h1p : PrefixOf (gh.specs p).vals (gh1.specs p).vals := by
        have := ghAfter_prefix gh a pi' h0 p
        rw [hspecs]; exact this
      exact h1p.trans (hpre p)
    · intro p hp
      have hpa : p ≠ a := fun e => hp (e ▸ List.mem_cons_self)
      rw [hoth p (fun hx => hp (List.mem_cons_of_mem _ hx)), hspecs]
      simp only [hpa, if_false]

theorem registerFold_glue (t0 : TLState) (reqs : List Request) (l : List Nat) (s s' : P2P) (gh : Ghost)
    (h : SessInv s gh t0 reqs) (hg : GlueInv s gh) (hl : ∀ x ∈ l, x ∈ s.localPlayerHandles)
    (hf : l.foldlM P2P.registerOne s = .ok s') :
    ∃ gh', SessInv s' gh' t0 reqs ∧ GlueInv s' gh' ∧ RegKeeps s s' gh gh' ∧
      s'.lastSentOutgoingInputFrame = s.lastSentOutgoingInputFrame ∧
      ∀ p, PrefixOf (gh.specs p).vals (gh'.specs p).vals := by
  obtain ⟨gh', a, b, c, d, e, _⟩ := registerFold_glueX t0 reqs l s s' gh h hg hl hf
  exact ⟨gh', a, b, c, d, e⟩

/-- The frames handed to the remote endpoints by one call, in order: each is the next frame after
the last one sent, and carries — for the local players it names — the inputs their queues hold. -/
inductive Sends (gh : Ghost) (now : Nat) : P2P → P2P → Prop
  | done (s : P2P) : Sends gh now s s
  | step (s s1 s' : P2P) (f : Frame) (m : List (Nat × PlayerInput)) :
      alookup f s.outgoingLocalInputs = some m →
      (s.lastSentOutgoingInputFrame ≠ NULL_FRAME → f = s.lastSentOutgoingInputFrame + 1 ∧
        ∀ h ∈ s.localPlayerHandles, ∃ x ∈ m, x.1 = h) →
      (0 ≤ f ∧ ∀ x ∈ m, x.1 ∈ s.localPlayerHandles ∧ f.toNat < (gh.specs x.1).vals.length ∧
        x.2 = ⟨f, (gh.specs x.1).vals.getD f.toNat 0⟩) →
      s.sendFrameToRemotes now f m = .ok s1 → s1.lastSentOutgoingInputFrame = f → Sends gh now s1 s' → Sends gh now s s'

theorem sendFrame_glue (s s' : P2P) (gh : Ghost) (now : Nat) (f : Frame) (m : List (Nat × PlayerInput))
    (hg : GlueInv s gh) (h : s.sendFrameToRemotes now f m = .ok s') :
    GlueInv s' gh ∧ s'.lastSentOutgoingInputFrame = f ∧ s'.handles = s.handles := by
  have hc := P2P.sendFrameToRemotes_sameCore _ _ _ _ _ h
  unfold P2P.sendFrameToRemotes at h
  simp only at h
  obtain ⟨r, _, h⟩ := bind_ok h
  have := pure_ok h
  subst this
  refine ⟨⟨?_, ?_⟩, rfl, rfl⟩
  · intro g m' hl
    show 0 ≤ g ∧ ∀ x ∈ m', x.1 ∈ s.localPlayerHandles ∧ _
    have hl' : alookup g (aerase f s.outgoingLocalInputs) = some m' := hl
    unfold aerase at hl'
    rw [alookup_filter_key (fun k => k != f)] at hl'
    split at hl'
    · exact hg.out g m' hl'
    · cases hl'
  · intro p hp hq
    exact hg.top p hp hq

theorem sendReadyLoop_glue (gh : Ghost) (now : Nat) : ∀ (fuel : Nat) (s s' : P2P), GlueInv s gh →
    P2P.sendReadyOutgoingInputsToRemotes.loop now s.localPlayerHandles fuel s = .ok s' →
    Sends gh now s s' ∧ GlueInv s' gh ∧ s'.handles = s.handles := by
  intro fuel
  induction fuel with
  | zero =>
    intro s s' hg h
    simp only [P2P.sendReadyOutgoingInputsToRemotes.loop] at h
    cases h
    exact ⟨Sends.done s, hg, rfl⟩
  | succ k ih =>
    intro s s' hg h
    simp only [P2P.sendReadyOutgoingInputsToRemotes.loop] at h
    cases hnx : s.nextCompleteOutgoingInputFrame s.localPlayerHandles with
    | none =>
      rw [hnx] at h
      simp only at h
      cases h
      exact ⟨Sends.done s, hg, rfl⟩
    | some frame =>
      rw [hnx] at h
      simp only at h
      cases hlk : alookup frame s.outgoingLocalInputs with
      | none =>
        rw [hlk] at h
        simp only at h
        obtain ⟨inputs, hin, _⟩ := bind_ok h
        cases hin
      | some m =>
        rw [hlk] at h
        have h' : (s.sendFrameToRemotes now frame m >>= fun s1 =>
            P2P.sendReadyOutgoingInputsToRemotes.loop now s.localPlayerHandles k s1) = .ok s' := h
        obtain ⟨s1, hsend, h⟩ := bind_ok h'
        obtain ⟨hg1, hls1, hh1⟩ := sendFrame_glue s s1 gh now frame m hg hsend
        have hlp : s1.localPlayerHandles = s.localPlayerHandles := by unfold P2P.localPlayerHandles; rw [hh1]
        rw [← hlp] at h
        obtain ⟨hs, hg', hh'⟩ := ih s1 s' hg1 h
        refine ⟨Sends.step s s1 s' frame m hlk ?_ (hg.out frame m hlk) hsend hls1 hs, hg', hh'.trans hh1⟩
        intro hne
        unfold P2P.nextCompleteOutgoingInputFrame at hnx
        simp only at hnx
        have hne' : (s.lastSentOutgoingInputFrame == NULL_FRAME) = false := by simpa using hne
        rw [hne'] at hnx
        simp only [Bool.false_eq_true, if_false] at hnx
        cases hl2 : alookup (s.lastSentOutgoingInputFrame + 1) s.outgoingLocalInputs with
        | none => rw [hl2] at hnx; cases hnx
        | some inputs2 =>
          rw [hl2] at hnx
          simp only at hnx
          split at hnx
          · rename_i hcomp
            have hfe : s.lastSentOutgoingInputFrame + 1 = frame := by cases hnx; rfl
            subst hfe
            rw [hl2] at hlk
            cases hlk
            refine ⟨rfl, fun hd hhd => ?_⟩
            have := List.all_eq_true.mp hcomp hd hhd
            obtain ⟨x, hx, hxe⟩ := List.any_eq_true.mp this
            exact ⟨x, hx, by simpa using hxe⟩
          · cases hnx

/-- `register_local_inputs`: every local player's pending input goes into its queue and into the
outgoing queue; then the frames that are complete are handed to the remotes. -/
theorem registerLocalInputs_glueX (s s' : P2P) (gh : Ghost) (t0 : TLState) (reqs : List Request) (now : Nat)
    (h : SessInv s gh t0 reqs) (hg : GlueInv s gh) (hreg : s.registerLocalInputs now = .ok s') :
    ∃ (gh' : Ghost) (s1 : P2P), SessInv s' gh' t0 reqs ∧ GlueInv s' gh' ∧ RegKeeps s s' gh gh' ∧
      s1.lastSentOutgoingInputFrame = s.lastSentOutgoingInputFrame ∧ Sends gh' now s1 s' ∧
      (∀ p, PrefixOf (gh.specs p).vals (gh'.specs p).vals) ∧
      ∀ p, p ∉ s.localPlayerHandles → gh'.specs p = gh.specs p := by
  unfold P2P.registerLocalInputs at hreg
  obtain ⟨s1, hfold, hsend⟩ := bind_ok hreg
  obtain ⟨gh', hinv1, hg1, hk, hls, hpre, hoth⟩ := registerFold_glueX t0 reqs _ s s1 gh h hg (fun x hx => hx) hfold
  have hc := P2P.sendReady_sameCore _ _ _ hsend
  have hinv' := SessInv_congr s1 s' gh' t0 reqs hinv1 hc.pred hc.sync hc.statuses hc.handles
  have hkeep : RegKeeps s s' gh gh' :=
    ⟨hk.T, by rw [hc.sync]; exact hk.cur, hc.handles.trans hk.handles, hc.pred.trans hk.pred, hc.sparse.trans hk.sparse,
     hc.maxPrediction.trans hk.maxPrediction, by rw [hc.sync]; exact hk.nq, by rw [hc.sync]; exact hk.lastConfirmed,
     hk.grows⟩
  unfold P2P.sendReadyOutgoingInputsToRemotes at hsend
  split at hsend
  · have := pure_ok hsend; subst this
    exact ⟨gh', s1, hinv', hg1, hkeep, hls, Sends.done _, hpre, hoth⟩
  · simp only at hsend
    split at hsend
    · have := pure_ok hsend; subst this
      exact ⟨gh', s1, hinv', hg1, hkeep, hls, Sends.done _, hpre, hoth⟩
    · obtain ⟨hs, hg', _⟩ := sendReadyLoop_glue gh' now _ s1 s' hg1 hsend
      exact ⟨gh', s1, hinv', hg', hkeep, hls, hs, hpre, hoth⟩

theorem registerLocalInputs_glue (s s' : P2P) (gh : Ghost) (t0 : TLState) (reqs : List Request) (now : Nat)
    (h : SessInv s gh t0 reqs) (hg : GlueInv s gh) (hreg : s.registerLocalInputs now = .ok s') :
    ∃ (gh' : Ghost) (s1 : P2P), SessInv s' gh' t0 reqs ∧ GlueInv s' gh' ∧ RegKeeps s s' gh gh' ∧
      s1.lastSentOutgoingInputFrame = s.lastSentOutgoingInputFrame ∧ Sends gh' now s1 s' ∧
      ∀ p, PrefixOf (gh.specs p).vals (gh'.specs p).vals := by
  obtain ⟨gh', s1, a, b, c, d, e, f, _⟩ := registerLocalInputs_glueX s s' gh t0 reqs now h hg hreg
  exact ⟨gh', s1, a, b, c, d, e, f⟩

/-! ### the rest of a call, and remote inputs, leave the outgoing queue alone -/

namespace P2P

theorem adjustGamestate_out (s s' : P2P) (fi mc : Frame) (reqs reqs' : List Request)
    (h : s.adjustGamestate fi mc reqs = .ok (s', reqs')) :
    s'.outgoingLocalInputs = s.outgoingLocalInputs ∧ s'.lastSentOutgoingInputFrame = s.lastSentOutgoingInputFrame := by
  unfold adjustGamestate at h
  simp only at h
  obtain ⟨_, h⟩ := ensure_bind_ok h
  obtain ⟨p1, _, h⟩ := bind_ok h
  obtain ⟨_, h⟩ := ensure_bind_ok h
  obtain ⟨p2, _, h⟩ := bind_ok h
  obtain ⟨_, h⟩ := ensure_bind_ok h
  have := pure_ok h
  simp only [Prod.mk.injEq] at this
  rw [← this.1]
  exact ⟨rfl, rfl⟩

theorem handleRollbackAndSave_out (s s' : P2P) (confirmed : Frame) (reqs reqs' : List Request)
    (h : s.handleRollbackAndSave confirmed reqs = .ok (s', reqs')) :
    s'.outgoingLocalInputs = s.outgoingLocalInputs ∧ s'.lastSentOutgoingInputFrame = s.lastSentOutgoingInputFrame := by
  unfold handleRollbackAndSave at h
  obtain ⟨r1, h1, h⟩ := bind_ok h
  obtain ⟨s1, reqs1⟩ := r1
  simp only at h
  have e1 : s1.outgoingLocalInputs = s.outgoingLocalInputs ∧ s1.lastSentOutgoingInputFrame = s.lastSentOutgoingInputFrame := by
    unfold rollbackIfNeeded at h1
    simp only at h1
    split at h1
    · obtain ⟨r, ha, h1⟩ := bind_ok h1
      obtain ⟨sa, ra⟩ := r
      simp only at h1
      have := pure_ok h1
      simp only [Prod.mk.injEq] at this
      rw [← this.1]
      show sa.outgoingLocalInputs = _ ∧ sa.lastSentOutgoingInputFrame = _
      exact adjustGamestate_out s sa _ _ _ _ ha
    · have := pure_ok h1
      simp only [Prod.mk.injEq] at this
      rw [← this.1]
      exact ⟨rfl, rfl⟩
  rw [← e1.1, ← e1.2]
  unfold saveAfterRollback at h
  split at h
  · unfold checkLastSavedState at h
    split at h
    · obtain ⟨r, hs, h⟩ := bind_ok h
      obtain ⟨sb, rb⟩ := r
      simp only at h
      obtain ⟨_, h⟩ := ensure_bind_ok h
      have := pure_ok h
      simp only [Prod.mk.injEq] at this
      rw [← this.1]
      unfold saveOrRollbackToSaved at hs
      split at hs
      · obtain ⟨r, _, hs⟩ := bind_ok hs
        have := pure_ok hs
        simp only [Prod.mk.injEq] at this
        rw [← this.1]
        exact ⟨rfl, rfl⟩
      · exact adjustGamestate_out _ _ _ _ _ _ hs
    · have := pure_ok h
      simp only [Prod.mk.injEq] at this
      rw [← this.1]
      exact ⟨rfl, rfl⟩
  · obtain ⟨r, _, h⟩ := bind_ok h
    have := pure_ok h
    simp only [Prod.mk.injEq] at this
    rw [← this.1]
    exact ⟨rfl, rfl⟩

theorem rollbackGate_out (s s' : P2P) (reqs reqs' : List Request) (h : s.rollbackGate reqs = .ok (s', reqs')) :
    s'.outgoingLocalInputs = s.outgoingLocalInputs ∧ s'.lastSentOutgoingInputFrame = s.lastSentOutgoingInputFrame := by
  unfold rollbackGate at h
  split at h
  · obtain ⟨r, _, h⟩ := bind_ok h
    have := pure_ok h
    simp only [Prod.mk.injEq] at this
    rw [← this.1]
    exact ⟨rfl, rfl⟩
  · have := pure_ok h
    simp only [Prod.mk.injEq] at this
    rw [← this.1]
    exact ⟨rfl, rfl⟩

theorem remoteInput_out (s s' : P2P) (now : Nat) (inp : PlayerInput) (player : Nat) (handles : List Nat) (addr : Nat)
    (hev : s.handleEventCore now (.input inp player) handles addr = .ok s') :
    s'.outgoingLocalInputs = s.outgoingLocalInputs ∧ s'.lastSentOutgoingInputFrame = s.lastSentOutgoingInputFrame ∧
    ∀ p, p ≠ player → rget s'.localConnectStatus p = rget s.localConnectStatus p := by
  unfold handleEventCore at hev
  simp only at hev
  obtain ⟨_, hev⟩ := ensure_bind_ok hev
  split at hev
  · obtain ⟨_, hev⟩ := ensure_bind_ok hev
    obtain ⟨sy, _, hev⟩ := bind_ok hev
    have := pure_ok hev
    subst this
    refine ⟨rfl, rfl, fun p hp => ?_⟩
    show rget (rset s.localConnectStatus player _) p = _
    exact rget_rset_ne _ _ _ _ (fun e => hp e.symm)
  · have := pure_ok hev
    subst this
    exact ⟨rfl, rfl, fun _ _ => rfl⟩

theorem offerToSpectators_out (s s' : P2P) (now : Nat) (m : List (Nat × PlayerInput))
    (h : s.offerToSpectators now m = .ok s') :
    s'.outgoingLocalInputs = s.outgoingLocalInputs ∧ s'.lastSentOutgoingInputFrame = s.lastSentOutgoingInputFrame := by
  unfold offerToSpectators at h
  obtain ⟨r, _, h⟩ := bind_ok h
  have := pure_ok h
  subst this
  exact ⟨rfl, rfl⟩

theorem sendConfirmed_out (s s' : P2P) (now : Nat) (confirmed : Frame)
    (h : s.sendConfirmedInputsToSpectators now confirmed = .ok s') :
    s'.outgoingLocalInputs = s.outgoingLocalInputs ∧ s'.lastSentOutgoingInputFrame = s.lastSentOutgoingInputFrame := by
  have key : ∀ (fuel : Nat) (a b : P2P), sendConfirmedInputsToSpectators.loop now confirmed fuel a = .ok b →
      b.outgoingLocalInputs = a.outgoingLocalInputs ∧ b.lastSentOutgoingInputFrame = a.lastSentOutgoingInputFrame := by
    intro fuel
    induction fuel with
    | zero => intro a b hh; simp only [sendConfirmedInputsToSpectators.loop] at hh; cases hh; exact ⟨rfl, rfl⟩
    | succ k ih =>
      intro a b hh
      simp only [sendConfirmedInputsToSpectators.loop] at hh
      split at hh
      · obtain ⟨inputs, _, hh⟩ := bind_ok hh
        obtain ⟨_, hh⟩ := ensure_bind_ok hh
        obtain ⟨_, hh⟩ := ensure_bind_ok hh
        obtain ⟨r, hoff, hh⟩ := bind_ok hh
        obtain ⟨a1, a2⟩ := offerToSpectators_out _ _ _ _ hoff
        obtain ⟨b1, b2⟩ := ih _ b hh
        exact ⟨b1.trans a1, b2.trans a2⟩
      · cases hh; exact ⟨rfl, rfl⟩
  unfold sendConfirmedInputsToSpectators at h
  split at h
  · have := pure_ok h; subst this; exact ⟨rfl, rfl⟩
  · exact key _ s s' h

end P2P

/-- The glue invariant only reads the outgoing queue, the handles, the local players' statuses and
streams, and the number of queues. -/
theorem GlueInv_transfer (s s' : P2P) (gh gh' : Ghost) (h : GlueInv s gh)
    (ho : s'.outgoingLocalInputs = s.outgoingLocalInputs) (hh : s'.handles = s.handles)
    (hst : s'.localConnectStatus = s.localConnectStatus) (hq : s'.sync.queues.length = s.sync.queues.length)
    (hs : gh'.specs = gh.specs) : GlueInv s' gh' := by
  have hlp : s'.localPlayerHandles = s.localPlayerHandles := by unfold P2P.localPlayerHandles; rw [hh]
  refine ⟨?_, ?_⟩
  · intro f m hl
    rw [ho] at hl
    rw [hlp, hs]
    exact h.out f m hl
  · intro p hp hpq
    rw [hst, hs]
    exact h.top p (by rw [← hlp]; exact hp) (by rw [← hq]; exact hpq)

/-- **One rollback-mode call, the remotes' side.** The only frames handed to the remote endpoints
are those `register_local_inputs` sends (`Sends`): consecutive frames after the last one sent, each
carrying the local players' own queue inputs. -/
theorem rollbackTick_glueX (s s' : P2P) (gh : Ghost) (t0 : TLState) (reqs reqs' : List Request) (now : Nat)
    (h : SessInv s gh t0 reqs) (hg : GlueInv s gh) (hadv : s.advanceRollbackFrame now reqs = .ok (s', reqs')) :
    ∃ (gh2 gh' : Ghost) (sA sB : P2P), SessInv s' gh' t0 reqs' ∧ GlueInv s' gh' ∧ gh'.specs = gh2.specs ∧
      (∀ p, PrefixOf (gh.specs p).vals (gh2.specs p).vals) ∧
      sA.lastSentOutgoingInputFrame = s.lastSentOutgoingInputFrame ∧ Sends gh2 now sA sB ∧
      s'.lastSentOutgoingInputFrame = sB.lastSentOutgoingInputFrame ∧
      (∀ p, p ∉ s.localPlayerHandles → gh'.specs p = gh.specs p) ∧ s'.handles = s.handles := by
  unfold P2P.advanceRollbackFrame at hadv
  obtain ⟨confirmed, hconf, hadv⟩ := bind_ok hadv
  obtain ⟨r1, hrs, hadv⟩ := bind_ok hadv
  obtain ⟨s1, reqs1⟩ := r1
  simp only at hadv
  obtain ⟨s2, hspec, hadv⟩ := bind_ok hadv
  obtain ⟨sy3, hset, hadv⟩ := bind_ok hadv
  obtain ⟨s4, hreg, hgate⟩ := bind_ok hadv
  obtain ⟨gh1, hsettled, _⟩ := handleRollbackAndSave_spec s s1 confirmed t0 reqs reqs1 gh h.tinv h.asked hrs
  have hinv1 := SessInv_of_settled s s1 gh gh1 t0 reqs reqs1 h hsettled
  obtain ⟨ho1, hl1⟩ := P2P.handleRollbackAndSave_out _ _ _ _ _ hrs
  have hg1 : GlueInv s1 gh1 := GlueInv_transfer s s1 gh gh1 hg ho1 hsettled.rest.1 hsettled.statuses hsettled.nq hsettled.specs
  have hc2 := P2P.sendConfirmed_sameCore _ _ _ _ hspec
  obtain ⟨ho2, hl2⟩ := P2P.sendConfirmed_out _ _ _ _ hspec
  have hinv2 := SessInv_congr s1 s2 gh1 t0 reqs1 hinv1 hc2.pred hc2.sync hc2.statuses hc2.handles
  have hg2 : GlueInv s2 gh1 := GlueInv_transfer s1 s2 gh1 gh1 hg1 ho2 hc2.handles hc2.statuses (by rw [hc2.sync]) rfl
  have hle : ∀ p, p < s2.sync.queues.length → confirmed ≤ (rget s2.localConnectStatus p).lastFrame := by
    intro p hp
    rw [hc2.statuses, hsettled.statuses]
    apply confirmedFrame_le s confirmed hconf h.tinv.sync.conn
    rw [h.tinv.sync.nq, ← hsettled.nq, ← hc2.sync]; exact hp
  obtain ⟨hinv3, _, _, hq3⟩ := setLastConfirmed_spec s2 sy3 gh1 t0 reqs1 confirmed hinv2 hle hset
  have hg3 : GlueInv ({ s2 with sync := sy3 } : P2P) gh1 := GlueInv_transfer s2 _ gh1 gh1 hg2 rfl rfl rfl hq3 rfl
  obtain ⟨gh2, sA, hinv4, hg4, hk4, hlsA, hsends, hpre, hoth⟩ := registerLocalInputs_glueX _ s4 gh1 t0 reqs1 now hinv3 hg3 hreg
  obtain ⟨gh', hinv', hsp', hst', hh', _, _⟩ := rollbackGate_spec s4 s' gh2 t0 reqs1 reqs' hinv4 hgate
  obtain ⟨ho5, hl5⟩ := P2P.rollbackGate_out _ _ _ _ hgate
  have hq5 : s'.sync.queues.length = s4.sync.queues.length := by
    have a := hinv'.tinv.sync.nq
    have b := hinv4.tinv.sync.nq
    rw [← a, hst', b]
  have hg' : GlueInv s' gh' := GlueInv_transfer s4 s' gh2 gh' hg4 ho5 hh' hst' hq5 hsp'
  refine ⟨gh2, gh', sA, s4, hinv', hg', hsp', ?_, ?_, hsends, hl5, ?_, ?_⟩
  · intro p
    have := hpre p
    rw [hsettled.specs] at this
    exact this
  · rw [hlsA]
    show s2.lastSentOutgoingInputFrame = _
    rw [hl2, hl1]
  · intro p hp
    have hlp : ({ s2 with sync := sy3 } : P2P).localPlayerHandles = s.localPlayerHandles := by
      unfold P2P.localPlayerHandles
      show List.filterMap _ s2.handles = _
      rw [hc2.handles, hsettled.rest.1]
    rw [hsp', hoth p (by rw [hlp]; exact hp), hsettled.specs]
  · rw [hh', hk4.handles]
    show s2.handles = s.handles
    rw [hc2.handles, hsettled.rest.1]

theorem rollbackTick_glue (s s' : P2P) (gh : Ghost) (t0 : TLState) (reqs reqs' : List Request) (now : Nat)
    (h : SessInv s gh t0 reqs) (hg : GlueInv s gh) (hadv : s.advanceRollbackFrame now reqs = .ok (s', reqs')) :
    ∃ (gh2 gh' : Ghost) (sA sB : P2P), SessInv s' gh' t0 reqs' ∧ GlueInv s' gh' ∧ gh'.specs = gh2.specs ∧
      (∀ p, PrefixOf (gh.specs p).vals (gh2.specs p).vals) ∧
      sA.lastSentOutgoingInputFrame = s.lastSentOutgoingInputFrame ∧ Sends gh2 now sA sB ∧
      s'.lastSentOutgoingInputFrame = sB.lastSentOutgoingInputFrame := by
  obtain ⟨gh2, gh', sA, sB, a, b, c, d, e, f, g, _⟩ := rollbackTick_glueX s s' gh t0 reqs reqs' now h hg hadv
  exact ⟨gh2, gh', sA, sB, a, b, c, d, e, f, g⟩

/-- A remote input arrives: both invariants, and what happens to the streams. -/
theorem glue_remoteInputX (s s' : P2P) (gh : Ghost) (t : TLState) (now : Nat) (inp : PlayerInput) (player : Nat)
    (handles : List Nat) (addr : Nat) (hy : SessInv s gh t []) (hgy : GlueInv s gh)
    (hnl : player ∉ s.localPlayerHandles) (hf : 0 ≤ inp.frame)
    (hev : s.handleEventCore now (.input inp player) handles addr = .ok s') :
    ∃ gh', SessInv s' gh' t [] ∧ GlueInv s' gh' ∧ s'.sync.queues.length = s.sync.queues.length ∧
      (∀ p, (gh.specs p).vals.length ≤ (gh'.specs p).vals.length) ∧ s'.handles = s.handles ∧
      ∀ p, gh'.specs p = if p = player then ((gh.specs p).submit inp.frame inp.input).1 else gh.specs p := by
  obtain ⟨gh', h', _, _, hh, _, hsp⟩ := remoteInput_spec s s' gh t [] now inp player handles addr hy hnl hf hev
  obtain ⟨ho, _, hst⟩ := P2P.remoteInput_out s s' now inp player handles addr hev
  have hq := remoteInput_nq s s' now inp player handles addr hev
  have hlp : s'.localPlayerHandles = s.localPlayerHandles := by unfold P2P.localPlayerHandles; rw [hh]
  refine ⟨gh', h', ⟨?_, ?_⟩, hq, ?_, hh, hsp⟩
  · intro f m hl
    show 0 ≤ f ∧ ∀ x ∈ m, x.1 ∈ s'.localPlayerHandles ∧ _
    rw [ho] at hl
    obtain ⟨a, b⟩ := hgy.out f m hl
    refine ⟨a, fun x hx => ?_⟩
    obtain ⟨b1, b2, b3⟩ := b x hx
    have hne : x.1 ≠ player := fun e => hnl (e ▸ b1)
    rw [hlp, hsp x.1, if_neg hne]
    exact ⟨b1, b2, b3⟩
  · intro p hp hpq
    show (rget s'.localConnectStatus p).lastFrame = _
    have hp' : p ∈ s.localPlayerHandles := by rw [← hlp]; exact hp
    have hne : p ≠ player := fun e => hnl (e ▸ hp')
    rw [hst p hne, hsp p, if_neg hne]
    exact hgy.top p hp' (by rw [← hq]; exact hpq)
  · intro p
    rw [hsp p]
    by_cases hpp : p = player
    · rw [if_pos hpp]; exact (submit_facts (gh.specs p) inp.frame inp.input).1
    · rw [if_neg hpp]; exact Nat.le_refl _

theorem glue_remoteInput (s s' : P2P) (gh : Ghost) (t : TLState) (now : Nat) (inp : PlayerInput) (player : Nat)
    (handles : List Nat) (addr : Nat) (hy : SessInv s gh t []) (hgy : GlueInv s gh)
    (hnl : player ∉ s.localPlayerHandles) (hf : 0 ≤ inp.frame)
    (hev : s.handleEventCore now (.input inp player) handles addr = .ok s') :
    ∃ gh', SessInv s' gh' t [] ∧ GlueInv s' gh' ∧ s'.sync.queues.length = s.sync.queues.length ∧
      ∀ p, (gh.specs p).vals.length ≤ (gh'.specs p).vals.length := by
  obtain ⟨gh', a, b, c, d, _⟩ := glue_remoteInputX s s' gh t now inp player handles addr hy hgy hnl hf hev
  exact ⟨gh', a, b, c, d⟩

theorem GlueInv_pending (s : P2P) (gh : Ghost) (l : List (Nat × PlayerInput)) (h : GlueInv s gh) :
    GlueInv { s with pendingLocalInputs := l } gh := ⟨h.out, h.top⟩

theorem GlueInv_userExecute (s : P2P) (gh : Ghost) (saves : List (Frame × Option Nat)) (h : GlueInv s gh) :
    GlueInv (s.userExecute saves) gh := by
  obtain ⟨uq, _, _, _, ust, uh, _⟩ := userExecute_fields s saves
  exact GlueInv_transfer s _ gh gh h rfl uh ust (by rw [uq]) rfl

/-- The glue invariant along every run. -/
theorem GlueInv_run (x y : P2P × TLState) (h : ∃ gh, SessInv x.1 gh x.2 [] ∧ GlueInv x.1 gh) (hr : SStar x y) :
    ∃ gh, SessInv y.1 gh y.2 [] ∧ GlueInv y.1 gh := by
  induction hr with
  | refl => exact h
  | step y z _ hs ih =>
    obtain ⟨gh, hy, hgy⟩ := ih
    cases hs with
    | remoteInput s s' t now inp player handles addr hnl hf hev =>
      obtain ⟨gh', h', hg', _⟩ := glue_remoteInput s s' gh t now inp player handles addr hy hgy hnl hf hev
      exact ⟨gh', h', hg'⟩
    | tick s s' t now reqs' hadv =>
      obtain ⟨_, gh', _, _, hinv', hg', _⟩ := rollbackTick_glue s s' gh t [] reqs' now hy hgy hadv
      exact ⟨gh', SessInv_rebase s' gh' t reqs' hinv', hg'⟩
    | localInput s t handle input =>
      obtain ⟨l, hl⟩ := P2P.addLocalInput_pending s handle input
      show ∃ gh, SessInv (s.addLocalInput handle input).1 gh t [] ∧ GlueInv (s.addLocalInput handle input).1 gh
      rw [hl]
      exact ⟨gh, SessInv_pending s gh t [] l hy, GlueInv_pending s gh l hgy⟩
    | saves s t sv => exact ⟨gh, SessInv_userExecute s gh t [] sv hy, GlueInv_userExecute s gh sv hgy⟩

/-- A freshly built session. -/
theorem GlueInv_init (s : P2P) (gh : Ghost) (n : Nat) (hsp : ∀ p, (gh.specs p).vals = [])
    (ho : s.outgoingLocalInputs = []) (hst : s.localConnectStatus = List.replicate n {}) (hq : s.sync.queues.length = n) :
    GlueInv s gh := by
  refine ⟨?_, ?_⟩
  · intro f m hl
    rw [ho] at hl
    simp [alookup] at hl
  · intro p _ hpq
    rw [hst, hsp p]
    rw [hq] at hpq
    simp [rget, List.getD_eq_getElem?_getD, hpq, NULL_FRAME]

end Ggrs
